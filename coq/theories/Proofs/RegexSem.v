(** The correctness of the derivative-based search of Model/Regex.v against the
    denotational semantics [matches] of Spec/RegexSpec.v. *)
From Coq Require Import Lia.
From HP Require Import Base.Bytes Base.Utf8 Model.Regex Spec.RegexSpec.
Local Open Scope N_scope.

Lemma last_or_app : forall w1 w2 p, last_or p (w1 ++ w2) = last_or (last_or p w1) w2.
Proof. induction w1 as [|c t IH]; intros w2 p; cbn; [reflexivity|apply IH]. Qed.

Lemma head_or_app : forall w1 w2 n, head_or (w1 ++ w2) n = head_or w1 (head_or w2 n).
Proof. intros [|c t] w2 n; reflexivity. Qed.

(** *** bounded repetition: order, count, padding *)

Definition opt_le (x y : option nat) : Prop :=
  match y, x with
  | None, _ => True
  | Some b, Some a => (a <= b)%nat
  | Some _, None => False
  end.

Lemma matches_rep_ok : forall R p w n, matches R p w n ->
  forall r mn mx, R = RRepeat r mn mx -> rep_ok mn mx = true.
Proof.
  intros R p w n H. induction H as [ p n | c0 p n | c0 p n Hc | neg rs c0 p n Hc | r1 r2 p w1 w2 n H1 IH1 H2 IH2
                 | r1 r2 p w n H1 IH1 | r1 r2 p w n H1 IH1 | r0 p n | r0 p w1 w2 n H1 IH1 H2 IH2
                 | r0 p w1 w2 n H1 IH1 H2 IH2 | r0 p n | r0 p w n H1 IH1 | r0 mx0 p n
                 | r0 mn0 mx0 p w1 w2 n Hmx H1 IH1 H2 IH2 | a0 p n Hah | r0 p w n H1 IH1 ];
    intros r mn mx E; try discriminate E.
  - inversion E; subst. destruct mx as [m|]; reflexivity.
  - inversion E; subst. specialize (IH2 _ _ _ eq_refl).
    destruct mx as [[|m]|]; cbn in *; [congruence | | reflexivity].
    apply Nat.leb_le. apply Nat.leb_le in IH2. lia.
Qed.

Lemma rep_mono : forall R p w n, matches R p w n ->
  forall r a bb a' b', R = RRepeat r a bb -> (a' <= a)%nat -> opt_le bb b' -> matches (RRepeat r a' b') p w n.
Proof.
  intros R p w n H. induction H as [ p n | c0 p n | c0 p n Hc | neg rs c0 p n Hc | r1 r2 p w1 w2 n H1 IH1 H2 IH2
                 | r1 r2 p w n H1 IH1 | r1 r2 p w n H1 IH1 | r0 p n | r0 p w1 w2 n H1 IH1 H2 IH2
                 | r0 p w1 w2 n H1 IH1 H2 IH2 | r0 p n | r0 p w n H1 IH1 | r0 mx0 p n
                 | r0 mn0 mx0 p w1 w2 n Hmx H1 IH1 H2 IH2 | a0 p n Hah | r0 p w n H1 IH1 ];
    intros r a bb a' b' E Ha Hb; try discriminate E.
  - inversion E; subst. assert (a' = O) by lia. subst. constructor.
  - inversion E; subst. apply MRepS.
    + destruct b' as [[|y]|]; [|discriminate|discriminate].
      destruct bb as [x|]; cbn in Hb; [|contradiction]. assert (x = O) by lia. subst. congruence.
    + exact H1.
    + apply (IH2 r (Nat.pred a) (option_map Nat.pred bb)); [reflexivity|lia|].
      destruct b' as [y|], bb as [x|]; cbn in *; try exact I; try contradiction. lia.
Qed.

Lemma rep_count : forall R p w n, matches R p w n ->
  forall r a bb, R = RRepeat r a bb ->
  exists k, (a <= k)%nat /\ opt_le (Some k) bb /\ matches (RRepeat r k (Some k)) p w n.
Proof.
  intros R p w n H. induction H as [ p n | c0 p n | c0 p n Hc | neg rs c0 p n Hc | r1 r2 p w1 w2 n H1 IH1 H2 IH2
                 | r1 r2 p w n H1 IH1 | r1 r2 p w n H1 IH1 | r0 p n | r0 p w1 w2 n H1 IH1 H2 IH2
                 | r0 p w1 w2 n H1 IH1 H2 IH2 | r0 p n | r0 p w n H1 IH1 | r0 mx0 p n
                 | r0 mn0 mx0 p w1 w2 n Hmx H1 IH1 H2 IH2 | a0 p n Hah | r0 p w n H1 IH1 ];
    intros r a bb E; try discriminate E.
  - inversion E; subst. exists O. split; [lia|]. split; [destruct bb; cbn; [lia|exact I]|constructor].
  - inversion E; subst. destruct (IH2 _ _ _ eq_refl) as (k & Hk1 & Hk2 & Hk3).
    exists (S k). split; [lia|]. split.
    + destruct bb as [[|x]|]; cbn in *; [congruence|lia|exact I].
    + apply MRepS; [discriminate|exact H1|exact Hk3].
Qed.

Lemma rep_pad : forall r k p w n,
  matches r p [] (head_or w n) -> matches (RRepeat r k (Some k)) p w n ->
  matches (RRepeat r (S k) (Some (S k))) p w n.
Proof.
  intros r k p w n H0 H. change w with ([] ++ w). apply MRepS; [discriminate|exact H0|exact H].
Qed.

Lemma rep_pad_many : forall j r k p w n,
  matches r p [] (head_or w n) -> matches (RRepeat r k (Some k)) p w n ->
  matches (RRepeat r (j + k) (Some (j + k)%nat)) p w n.
Proof.
  induction j as [|j IH]; intros r k p w n H0 H; [exact H|].
  cbn [Nat.add]. apply rep_pad; [exact H0|]. apply IH; assumption.
Qed.

Lemma rep_empty : forall mn r mx p n,
  matches r p [] n -> rep_ok mn mx = true -> matches (RRepeat r mn mx) p [] n.
Proof.
  induction mn as [|k IH]; intros r mx p n H Hok; [constructor|].
  change (@nil rune) with (@nil rune ++ []). apply MRepS.
  - destruct mx as [[|m]|]; cbn in Hok; congruence.
  - exact H.
  - apply IH; [exact H|]. destruct mx as [[|m]|]; cbn in *; [discriminate|exact Hok|reflexivity].
Qed.

(** *** nullable *)

Lemma nullable_complete : forall r p w n, matches r p w n -> w = [] -> nullable p n r = true.
Proof.
  intros r p w n H.
  induction H as [ p n | c p n | c p n Hc | neg rs c p n Hc | r1 r2 p w1 w2 n H1 IH1 H2 IH2
                 | r1 r2 p w n H1 IH1 | r1 r2 p w n H1 IH1 | r p n | r p w1 w2 n H1 IH1 H2 IH2
                 | r p w1 w2 n H1 IH1 H2 IH2 | r p n | r p w n H1 IH1 | r mx p n
                 | r mn mx p w1 w2 n Hmx H1 IH1 H2 IH2 | a p n Ha | r p w n H1 IH1 ];
    intros E; cbn [nullable]; try reflexivity; try discriminate E.
  - apply app_eq_nil in E. destruct E; subst. cbn in *. rewrite IH1, IH2; reflexivity.
  - rewrite IH1; [reflexivity|exact E].
  - rewrite IH1; [apply orb_true_r|exact E].
  - apply app_eq_nil in E. destruct E; subst. cbn in *. apply IH1; reflexivity.
  - destruct mx; reflexivity.
  - apply app_eq_nil in E. destruct E; subst. cbn in *.
    rewrite (matches_rep_ok _ _ _ _ (MRepS r mn mx p [] [] n Hmx H1 H2) r mn mx eq_refl).
    rewrite IH1; [apply orb_true_r|reflexivity].
  - exact Ha.
  - apply IH1; exact E.
Qed.

Lemma nullable_sound : forall r p n, nullable p n r = true -> matches r p [] n.
Proof.
  induction r as [ | c | | neg rs | r1 IH1 r2 IH2 | r1 IH1 r2 IH2 | r IH | r IH | r IH | r IH mn mx | a | r IH ];
    intros p n H; cbn [nullable] in H; try discriminate H.
  - constructor.
  - apply andb_true_iff in H. destruct H as [H1 H2].
    change (@nil rune) with (@nil rune ++ []). apply MCat; cbn; [apply IH1|apply IH2]; assumption.
  - apply orb_true_iff in H. destruct H as [H|H]; [apply MAltL, IH1|apply MAltR, IH2]; exact H.
  - constructor.
  - change (@nil rune) with (@nil rune ++ []). apply MPlus; cbn; [apply IH; exact H|constructor].
  - constructor.
  - apply andb_true_iff in H. destruct H as [Hok H]. apply orb_true_iff in H. destruct H as [H|H].
    + apply Nat.eqb_eq in H. subst. constructor.
    + apply rep_empty; [apply IH; exact H|exact Hok].
  - constructor. exact H.
  - constructor. apply IH. exact H.
Qed.

Lemma nullable_correct : forall r p n, nullable p n r = true <-> matches r p [] n.
Proof. intros; split; [apply nullable_sound|intros H; exact (nullable_complete _ _ _ _ H eq_refl)]. Qed.

(** *** partial derivatives *)

Lemma mkcat_matches : forall a c p w n, matches (mkcat a c) p w n <-> matches (RCat a c) p w n.
Proof.
  intros a c p w n. destruct a; cbn [mkcat]; try tauto. split; intros H.
  - change w with ([] ++ w). apply MCat; [constructor|exact H].
  - inversion H as [ | | | | r1 r2 p0 w1 w2 n0 H1 H2 | | | | | | | | | | | ]; subst.
    inversion H1; subst. exact H2.
Qed.

Lemma cat_inv : forall a c p w n, matches (RCat a c) p w n ->
  exists w1 w2, w = w1 ++ w2 /\ matches a p w1 (head_or w2 n) /\ matches c (last_or p w1) w2 n.
Proof.
  intros a c p w n H. inversion H as [ | | | | r1 r2 p0 w1 w2 n0 H1 H2 | | | | | | | | | | | ]; subst.
  exists w1, w2. auto.
Qed.

Lemma pderiv_sound : forall r p c r' w n,
  In r' (pderiv p c r) -> matches r' (Some c) w n -> matches r p (c :: w) n.
Proof.
  induction r as [ | a | | neg rs | r1 IH1 r2 IH2 | r1 IH1 r2 IH2 | r IH | r IH | r IH | r IH mn mx | a | r IH ];
    intros p c r' w n Hin Hm; cbn [pderiv] in Hin.
  - contradiction.
  - destruct (N.eqb_spec a c) as [->|]; [|contradiction]. destruct Hin as [<-|[]]. inversion Hm; subst. constructor.
  - destruct (N.eqb_spec c 10) as [|Hc]; [contradiction|]. destruct Hin as [<-|[]]. inversion Hm; subst. constructor. exact Hc.
  - destruct (class_mem neg rs c) eqn:Hc; [|contradiction]. destruct Hin as [<-|[]]. inversion Hm; subst. constructor. exact Hc.
  - apply in_app_or in Hin. destruct Hin as [Hin|Hin].
    + apply in_map_iff in Hin. destruct Hin as (q & <- & Hq).
      apply mkcat_matches, cat_inv in Hm. destruct Hm as (w1 & w2 & -> & Hq1 & Hq2).
      change (c :: w1 ++ w2) with ((c :: w1) ++ w2). apply MCat; [eapply IH1; eassumption|exact Hq2].
    + destruct (nullable p (Some c) r1) eqn:Hn; [|contradiction].
      change (c :: w) with ([] ++ c :: w). apply MCat; [apply nullable_sound; exact Hn|].
      cbn. eapply IH2; eassumption.
  - apply in_app_or in Hin. destruct Hin as [Hin|Hin]; [apply MAltL; eapply IH1|apply MAltR; eapply IH2]; eassumption.
  - apply in_map_iff in Hin. destruct Hin as (q & <- & Hq).
    apply mkcat_matches, cat_inv in Hm. destruct Hm as (w1 & w2 & -> & Hq1 & Hq2).
    change (c :: w1 ++ w2) with ((c :: w1) ++ w2). apply MStarS; [eapply IH; eassumption|exact Hq2].
  - apply in_map_iff in Hin. destruct Hin as (q & <- & Hq).
    apply mkcat_matches, cat_inv in Hm. destruct Hm as (w1 & w2 & -> & Hq1 & Hq2).
    change (c :: w1 ++ w2) with ((c :: w1) ++ w2). apply MPlus; [eapply IH; eassumption|exact Hq2].
  - apply MOptS. eapply IH; eassumption.
  - destruct (rep_ok mn mx) eqn:Hok; [|contradiction].
    assert (Hmx : mx <> Some O /\ In r' (map (fun q => mkcat q (RRepeat r (if nullable p (Some c) r then O else Nat.pred mn)
                                                                    (option_map Nat.pred mx))) (pderiv p c r))).
    { destruct mx as [[|m]|]; [contradiction|split; [discriminate|exact Hin]|split; [discriminate|exact Hin]]. }
    destruct Hmx as [Hmx Hin']. clear Hin.
    apply in_map_iff in Hin'. destruct Hin' as (q & <- & Hq).
    apply mkcat_matches, cat_inv in Hm. destruct Hm as (w1 & w2 & -> & Hq1 & Hq2).
    pose proof (IH _ _ _ _ _ Hq Hq1) as Hr.
    change (c :: w1 ++ w2) with ((c :: w1) ++ w2).
    destruct (nullable p (Some c) r) eqn:Hn.
    + (* the iterations that are still owed may be spent, empty, before this one *)
      destruct (rep_count _ _ _ _ Hq2 _ _ _ eq_refl) as (k & _ & Hk & Hk3).
      assert (Hone : matches (RRepeat r (S k) (Some (S k))) p ((c :: w1) ++ w2) n).
      { apply MRepS; [discriminate|exact Hr|exact Hk3]. }
      assert (Hnull : matches r p [] (head_or ((c :: w1) ++ w2) n)) by (apply nullable_sound; exact Hn).
      destruct (Nat.le_gt_cases mn (S k)) as [Hle|Hgt].
      * eapply rep_mono; [exact Hone|reflexivity|exact Hle|].
        destruct mx as [[|m]|]; cbn in *; [congruence|lia|exact I].
      * pose proof (rep_pad_many (mn - S k) _ _ _ _ _ Hnull Hone) as Hp.
        replace (mn - S k + S k)%nat with mn in Hp by lia.
        eapply rep_mono; [exact Hp|reflexivity|lia|].
        destruct mx as [m|]; cbn in *; [apply Nat.leb_le in Hok; exact Hok|exact I].
    + apply MRepS; [exact Hmx|exact Hr|exact Hq2].
  - contradiction.
  - apply MGroup. eapply IH; eassumption.
Qed.

Lemma pderiv_complete : forall r p w0 n, matches r p w0 n ->
  forall c w, w0 = c :: w -> exists r', In r' (pderiv p c r) /\ matches r' (Some c) w n.
Proof.
  intros r p w0 n H.
  induction H as [ p n | a p n | a p n Ha | neg rs a p n Ha | r1 r2 p w1 w2 n H1 IH1 H2 IH2
                 | r1 r2 p v n H1 IH1 | r1 r2 p v n H1 IH1 | r p n | r p w1 w2 n H1 IH1 H2 IH2
                 | r p w1 w2 n H1 IH1 H2 IH2 | r p n | r p v n H1 IH1 | r mx p n
                 | r mn mx p w1 w2 n Hmx H1 IH1 H2 IH2 | a p n Ha | r p v n H1 IH1 ];
    intros c w E; try discriminate E; cbn [pderiv].
  - inversion E; subst. rewrite N.eqb_refl. exists REmpty. split; [left; reflexivity|constructor].
  - inversion E; subst. destruct (N.eqb_spec c 10) as [|_]; [contradiction|].
    exists REmpty. split; [left; reflexivity|constructor].
  - inversion E; subst. rewrite Ha. exists REmpty. split; [left; reflexivity|constructor].
  - destruct w1 as [|c1 w1']; cbn in E.
    + subst w2. cbn in *. destruct (IH2 _ _ eq_refl) as (q & Hq & Hm).
      exists q. split; [|exact Hm]. apply in_or_app. right.
      rewrite (nullable_complete _ _ _ _ H1 eq_refl). exact Hq.
    + inversion E; subst. destruct (IH1 _ _ eq_refl) as (q & Hq & Hm).
      exists (mkcat q r2). split.
      * apply in_or_app. left. apply in_map_iff. exists q. split; [reflexivity|exact Hq].
      * apply mkcat_matches. apply MCat; [exact Hm|exact H2].
  - destruct (IH1 _ _ E) as (q & Hq & Hm). exists q. split; [apply in_or_app; left; exact Hq|exact Hm].
  - destruct (IH1 _ _ E) as (q & Hq & Hm). exists q. split; [apply in_or_app; right; exact Hq|exact Hm].
  - destruct w1 as [|c1 w1']; cbn in E.
    + subst w2. cbn in *. exact (IH2 _ _ eq_refl).
    + inversion E; subst. destruct (IH1 _ _ eq_refl) as (q & Hq & Hm).
      exists (mkcat q (RStar r)). split; [apply in_map_iff; exists q; split; [reflexivity|exact Hq]|].
      apply mkcat_matches. apply MCat; [exact Hm|exact H2].
  - destruct w1 as [|c1 w1']; cbn in E.
    + subst w2. cbn in *. destruct (IH2 _ _ eq_refl) as (q & Hq & Hm). exists q. split; [exact Hq|exact Hm].
    + inversion E; subst. destruct (IH1 _ _ eq_refl) as (q & Hq & Hm).
      exists (mkcat q (RStar r)). split; [apply in_map_iff; exists q; split; [reflexivity|exact Hq]|].
      apply mkcat_matches. apply MCat; [exact Hm|exact H2].
  - exact (IH1 _ _ E).
  - pose proof (matches_rep_ok _ _ _ _ (MRepS r mn mx p w1 w2 n Hmx H1 H2) r mn mx eq_refl) as Hok.
    rewrite Hok.
    destruct w1 as [|c1 w1']; cbn in E.
    + (* an empty iteration: [r] is nullable here, the rest owes at least 0 *)
      subst w2. cbn in *. destruct (IH2 _ _ eq_refl) as (q & Hq & Hm).
      pose proof (nullable_complete _ _ _ _ H1 eq_refl) as Hn. rewrite Hn in Hq |- *.
      destruct (rep_ok (Nat.pred mn) (option_map Nat.pred mx)) eqn:Hok'; [|contradiction].
      assert (Hq' : option_map Nat.pred mx <> Some O /\
                    In q (map (fun q0 => mkcat q0 (RRepeat r O (option_map Nat.pred (option_map Nat.pred mx)))) (pderiv p c r))).
      { destruct (option_map Nat.pred mx) as [[|m]|]; [contradiction|split; [discriminate|exact Hq]|split; [discriminate|exact Hq]]. }
      destruct Hq' as [Hmx' Hq']. apply in_map_iff in Hq'. destruct Hq' as (q0 & <- & Hq0).
      apply mkcat_matches, cat_inv in Hm. destruct Hm as (v1 & v2 & -> & Hv1 & Hv2).
      exists (mkcat q0 (RRepeat r O (option_map Nat.pred mx))). split.
      * destruct mx as [[|m]|]; [congruence| |]; (apply in_map_iff; exists q0; split; [reflexivity|exact Hq0]).
      * apply mkcat_matches. apply MCat; [exact Hv1|].
        eapply rep_mono; [exact Hv2|reflexivity|lia|].
        destruct mx as [[|[|m]]|]; cbn in *; try exact I; try congruence; lia.
    + inversion E; subst. destruct (IH1 _ _ eq_refl) as (q & Hq & Hm).
      exists (mkcat q (RRepeat r (if nullable p (Some c) r then O else Nat.pred mn) (option_map Nat.pred mx))). split.
      * destruct mx as [[|m]|]; [congruence| |]; (apply in_map_iff; exists q; split; [reflexivity|exact Hq]).
      * apply mkcat_matches. apply MCat; [exact Hm|].
        eapply rep_mono; [exact H2|reflexivity|destruct (nullable p (Some c) r); lia|].
        destruct mx as [m|]; cbn; [lia|exact I].
  - exact (IH1 _ _ E).
Qed.

Lemma pderiv_correct : forall r p c w n,
  matches r p (c :: w) n <-> exists r', In r' (pderiv p c r) /\ matches r' (Some c) w n.
Proof.
  intros; split.
  - intros H. exact (pderiv_complete _ _ _ _ H _ _ eq_refl).
  - intros (r' & Hin & Hm). eapply pderiv_sound; eassumption.
Qed.

(** *** the set of states *)

Lemma list_eqb_sound : forall {A} (eqb : A -> A -> bool), (forall a c, eqb a c = true -> a = c) ->
  forall x y, list_eqb eqb x y = true -> x = y.
Proof.
  intros A eqb Heq. induction x as [|a x IH]; intros [|c y] H; cbn in H; try discriminate H; [reflexivity|].
  apply andb_true_iff in H. destruct H as [H1 H2]. f_equal; [apply Heq; exact H1|apply IH; exact H2].
Qed.

Lemma re_eqb_sound : forall x y, re_eqb x y = true -> x = y.
Proof.
  induction x as [ | a | | neg rs | r1 IH1 r2 IH2 | r1 IH1 r2 IH2 | r IH | r IH | r IH | r IH mn mx | a | r IH ];
    intros y H; destruct y; cbn [re_eqb] in H; try discriminate H.
  - reflexivity.
  - apply N.eqb_eq in H. subst. reflexivity.
  - reflexivity.
  - apply andb_true_iff in H. destruct H as [H1 H2]. apply Bool.eqb_prop in H1. subst. f_equal.
    apply (list_eqb_sound _ (fun a c => proj1 (andb_true_iff _ _))) in H2 || idtac.
    revert H2. apply list_eqb_sound. intros [a1 a2] [c1 c2] Hp. cbn in Hp.
    apply andb_true_iff in Hp. destruct Hp as [Hp1 Hp2]. apply N.eqb_eq in Hp1, Hp2. subst. reflexivity.
  - apply andb_true_iff in H. destruct H as [H1 H2]. f_equal; [apply IH1|apply IH2]; assumption.
  - apply andb_true_iff in H. destruct H as [H1 H2]. f_equal; [apply IH1|apply IH2]; assumption.
  - f_equal. apply IH. exact H.
  - f_equal. apply IH. exact H.
  - f_equal. apply IH. exact H.
  - apply andb_true_iff in H. destruct H as [H H3]. apply andb_true_iff in H. destruct H as [H1 H2].
    apply Nat.eqb_eq in H2. subst. f_equal; [apply IH; exact H1|].
    destruct mx as [a|], max as [c|]; cbn in H3; try discriminate H3; [|reflexivity].
    apply Nat.eqb_eq in H3. subst. reflexivity.
  - destruct a, a0; cbn in H; try discriminate H; reflexivity.
  - f_equal. apply IH. exact H.
Qed.

Lemma dedup_in : forall l x, In x (dedup l) <-> In x l.
Proof.
  induction l as [|y t IH]; intros x; cbn [dedup]; [tauto|].
  destruct (existsb (re_eqb y) t) eqn:Hex.
  - rewrite IH. split; [right; assumption|]. intros [<-|H]; [|exact H].
    apply existsb_exists in Hex. destruct Hex as (z & Hz & Heq). apply re_eqb_sound in Heq. subst. exact Hz.
  - cbn. rewrite IH. tauto.
Qed.

(** *** the search *)

(** some attempt among [states] (begun earlier, the previous rune being [prev])
    or a new attempt of [r0] at this or a later position succeeds *)
Definition search_spec (r0 : re) (states : list re) (prev : option rune) (s : list rune) : Prop :=
  (exists q w post, In q states /\ s = w ++ post /\ matches q prev w (head_opt post))
  \/ (exists pre mid post, s = pre ++ mid ++ post /\ matches r0 (last_or prev pre) mid (head_opt post)).

Lemma search_loop_correct : forall s r0 states prev,
  search_loop r0 states prev s = true <-> search_spec r0 states prev s.
Proof.
  induction s as [|c t IH]; intros r0 states prev; cbn [search_loop].
  - rewrite existsb_exists. split.
    + intros (q & [<-|Hq] & Hn); apply nullable_sound in Hn.
      * right. exists [], [], []. split; [reflexivity|exact Hn].
      * left. exists q, [], []. split; [exact Hq|]. split; [reflexivity|exact Hn].
    + intros [(q & w & post & Hq & E & Hm)|(pre & mid & post & E & Hm)].
      * symmetry in E. apply app_eq_nil in E. destruct E; subst.
        exists q. split; [right; exact Hq|]. apply nullable_correct. exact Hm.
      * symmetry in E. apply app_eq_nil in E. destruct E as [-> E]. apply app_eq_nil in E. destruct E; subst.
        exists r0. split; [left; reflexivity|]. apply nullable_correct. exact Hm.
  - rewrite orb_true_iff, existsb_exists, IH. split.
    + intros [(q & Hq & Hn)|Hs].
      * apply nullable_sound in Hn. destruct Hq as [<-|Hq].
        -- right. exists [], [], (c :: t). split; [reflexivity|exact Hn].
        -- left. exists q, [], (c :: t). split; [exact Hq|]. split; [reflexivity|exact Hn].
      * destruct Hs as [(q & w & post & Hq & E & Hm)|(pre & mid & post & E & Hm)].
        -- apply dedup_in, in_flat_map in Hq. destruct Hq as (q0 & Hq0 & Hq).
           pose proof (pderiv_sound _ _ _ _ _ _ Hq Hm) as Hm0.
           destruct Hq0 as [<-|Hq0].
           ++ right. exists [], (c :: w), post. split; [cbn; rewrite E; reflexivity|exact Hm0].
           ++ left. exists q0, (c :: w), post. split; [exact Hq0|]. split; [cbn; rewrite E; reflexivity|exact Hm0].
        -- right. exists (c :: pre), mid, post. split; [cbn; rewrite E; reflexivity|exact Hm].
    + intros [(q & w & post & Hq & E & Hm)|(pre & mid & post & E & Hm)].
      * destruct w as [|c' w']; cbn in E.
        -- left. exists q. split; [right; exact Hq|]. subst post. apply nullable_correct. exact Hm.
        -- inversion E; subst. right. left.
           destruct (pderiv_complete _ _ _ _ Hm _ _ eq_refl) as (q' & Hq' & Hm').
           exists q', w', post. split; [|split; [reflexivity|exact Hm']].
           apply dedup_in, in_flat_map. exists q. split; [right; exact Hq|exact Hq'].
      * destruct pre as [|c' pre']; cbn in E.
        -- destruct mid as [|c' mid']; cbn in E.
           ++ left. exists r0. split; [left; reflexivity|]. subst post. apply nullable_correct. exact Hm.
           ++ inversion E; subst. right. left.
              destruct (pderiv_complete _ _ _ _ Hm _ _ eq_refl) as (q' & Hq' & Hm').
              exists q', mid', post. split; [|split; [reflexivity|exact Hm']].
              apply dedup_in, in_flat_map. exists r0. split; [left; reflexivity|exact Hq'].
        -- inversion E; subst. right. right. exists pre', mid, post. split; [reflexivity|exact Hm].
Qed.

(** [re_search_runes]: some substring matches, its neighbours being the runes
    around it in the text *)
Theorem re_search_runes_spec : forall r s,
  re_search_runes r s = true <->
  exists pre mid post, s = pre ++ mid ++ post /\ matches r (last_or None pre) mid (head_opt post).
Proof.
  intros r s. unfold re_search_runes. rewrite search_loop_correct. unfold search_spec. split.
  - intros [(q & w & post & [] & _)|H]; exact H.
  - intros H. right. exact H.
Qed.

(** [regexp.MatchString] on a name: the runes of the name are [rune_values] *)
Theorem re_search_spec : forall r name,
  re_search r name = true <->
  exists pre mid post, rune_values name = pre ++ mid ++ post /\ matches r (last_or None pre) mid (head_opt post).
Proof. intros r name. apply re_search_runes_spec. Qed.

(** *** expressions without assertions: the neighbours play no role *)

Lemma matches_anchor_free : forall r p w n, matches r p w n -> anchor_free r = true ->
  forall p' n', matches r p' w n'.
Proof.
  intros r p w n H.
  induction H as [ p n | a p n | a p n Ha | neg rs a p n Ha | r1 r2 p w1 w2 n H1 IH1 H2 IH2
                 | r1 r2 p w n H1 IH1 | r1 r2 p w n H1 IH1 | r p n | r p w1 w2 n H1 IH1 H2 IH2
                 | r p w1 w2 n H1 IH1 H2 IH2 | r p n | r p w n H1 IH1 | r mx p n
                 | r mn mx p w1 w2 n Hmx H1 IH1 H2 IH2 | a p n Ha | r p w n H1 IH1 ];
    intros Haf p' n'; cbn [anchor_free] in Haf; try discriminate Haf;
    try (apply andb_true_iff in Haf; destruct Haf as [Haf1 Haf2]).
  - constructor.
  - constructor.
  - constructor; exact Ha.
  - constructor; exact Ha.
  - apply MCat; auto.
  - apply MAltL; auto.
  - apply MAltR; auto.
  - constructor.
  - apply MStarS; auto.
  - apply MPlus; auto.
  - constructor.
  - apply MOptS; auto.
  - constructor.
  - apply MRepS; auto.
  - apply MGroup; auto.
Qed.

(** for such an expression the search is: some substring is in the language *)
Theorem re_search_spec_anchor_free : forall r name, anchor_free r = true ->
  (re_search r name = true <->
   exists pre mid post, rune_values name = pre ++ mid ++ post /\ matches r None mid None).
Proof.
  intros r name Haf. rewrite re_search_spec. split; intros (pre & mid & post & E & Hm); exists pre, mid, post; (split; [exact E|]).
  - exact (matches_anchor_free _ _ _ _ Hm Haf _ _).
  - exact (matches_anchor_free _ _ _ _ Hm Haf _ _).
Qed.
