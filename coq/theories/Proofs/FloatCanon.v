(** WP21, part A (axiom-free half) – [x * 1 = x] on the canonical binary64 values.

    [T B64] is all of [spec_float]; a finite [S754_finite s m e] is a binary64
    number only when [bounded 53 1024 m e] (the mantissa has exactly the number
    of digits its exponent prescribes, and the exponent is in range).  On those
    values – and on NaN, both zeros (the sign is kept), both infinities –
    multiplication by [one B64] is the identity.  Direct proof on
    [binary_round_aux]: [one = (2^52, -52)], the product mantissa is [m]
    shifted left by 52 bits with exponent [e - 52]; the first [shr_fexp] shifts
    the 52 zero bits out again (location stays exact), rounding an exact
    location changes nothing, the second [shr_fexp] shifts by 0.

    No Flocq, no reals: every theorem here is closed under the global context. *)
From Coq Require Import ZArith Lia Floats.SpecFloat.
From HP Require Import Base.Bytes Base.Num Base.GoFloat.
Open Scope Z_scope.

(** the values a binary64 variable can hold *)
Definition canonical (x : f64) : Prop :=
  match x with
  | S754_finite _ m e => bounded prec emax m e = true
  | _ => True
  end.

Lemma canonical_valid_binary : forall x, canonical x <-> valid_binary prec emax x = true.
Proof. intros [s|s| |s m e]; cbn [canonical valid_binary]; tauto. Qed.

Lemma f_one_eq : f_of_Z 1 = S754_finite false 4503599627370496 (-52).
Proof. vm_compute. reflexivity. Qed.

Lemma one_B64_eq : one B64 = S754_finite false 4503599627370496 (-52).
Proof. exact f_one_eq. Qed.

Lemma f_one_canonical : canonical (f_of_Z 1).
Proof. rewrite f_one_eq. vm_compute. reflexivity. Qed.

(** ** the bookkeeping of [binary_round_aux] on [m * 2^52] *)

(** 52 right shifts undo the multiplication by [2^52]; sticky bits stay clear *)
Lemma shr_52 : forall m : positive,
  SpecFloat.iter_pos shr_1 52 {| shr_m := Zpos (m * 4503599627370496); shr_r := false; shr_s := false |}
  = {| shr_m := Zpos m; shr_r := false; shr_s := false |}.
Proof.
  intro m. rewrite Pos.mul_comm. cbn [Pos.mul]. cbn [SpecFloat.iter_pos]. cbn [shr_1 orb]. reflexivity.
Qed.

Lemma digits2_pos_xO : forall p, Zpos (digits2_pos p~0) = Zpos (digits2_pos p) + 1.
Proof. intro p. cbn [digits2_pos]. lia. Qed.

Lemma digits2_mul_2p52 : forall m : positive,
  Zpos (digits2_pos (m * 4503599627370496)) = Zpos (digits2_pos m) + 52.
Proof.
  intro m. rewrite Pos.mul_comm. cbn [Pos.mul].
  repeat rewrite digits2_pos_xO. lia.
Qed.

Lemma bounded_inv : forall m e, bounded prec emax m e = true ->
  SpecFloat.fexp prec emax (Zpos (digits2_pos m) + e) = e /\ e <= emax - prec.
Proof.
  intros m e H. unfold bounded, canonical_mantissa in H.
  apply andb_prop in H. destruct H as [H1 H2].
  split; [apply Zeq_bool_eq; exact H1|apply Zle_bool_imp_le; exact H2].
Qed.

Lemma binary_round_aux_mul_2p52 : forall s m e,
  bounded prec emax m e = true ->
  binary_round_aux prec emax s (Zpos (m * 4503599627370496)) (e + -52) loc_Exact = S754_finite s m e.
Proof.
  intros s m e Hb. destruct (bounded_inv m e Hb) as [Hf He].
  unfold binary_round_aux.
  assert (E1 : shr_fexp prec emax (Zpos (m * 4503599627370496)) (e + -52) loc_Exact
               = ({| shr_m := Zpos m; shr_r := false; shr_s := false |}, e)).
  { unfold shr_fexp. cbn [Zdigits2 shr_record_of_loc]. rewrite digits2_mul_2p52.
    replace (Zpos (digits2_pos m) + 52 + (e + -52)) with (Zpos (digits2_pos m) + e) by lia.
    rewrite Hf. replace (e - (e + -52)) with 52 by lia.
    unfold shr. rewrite shr_52. f_equal. lia. }
  rewrite E1. cbn [shr_m loc_of_shr_record round_nearest_even].
  assert (E2 : shr_fexp prec emax (Zpos m) e loc_Exact
               = ({| shr_m := Zpos m; shr_r := false; shr_s := false |}, e)).
  { unfold shr_fexp. cbn [Zdigits2 shr_record_of_loc]. rewrite Hf.
    replace (e - e) with 0 by lia. reflexivity. }
  rewrite E2. cbn [shr_m].
  assert (E3 : Zle_bool e (emax - prec) = true) by (apply Zle_imp_le_bool; exact He).
  rewrite E3. reflexivity.
Qed.

(** ** [x * 1 = x] on canonical values: NaN, zeros (sign kept), infinities, finite *)
Theorem SFmul_one_canonical_lemma : forall x : f64,
  canonical x -> SFmul prec emax x (f_of_Z 1) = x.
Proof.
  intros x Hx. rewrite f_one_eq. destruct x as [s|s| |s m e]; cbn [SFmul].
  - destruct s; reflexivity.
  - destruct s; reflexivity.
  - reflexivity.
  - cbn [canonical] in Hx. replace (xorb s false) with s by (destruct s; reflexivity).
    apply binary_round_aux_mul_2p52. exact Hx.
Qed.

Corollary B64_mul_one_canonical : forall x : T B64, canonical x -> mul B64 x (one B64) = x.
Proof. exact SFmul_one_canonical_lemma. Qed.

(** the converse on finite values: [x * 1 = x] characterises the canonical ones
    among the finite ones whose digits do not exceed what the exponent allows
    (shown only by the witness below; the general law is false) *)
Example B64_mul_one_noncanonical :
  mul B64 (S754_finite false 1 0) (one B64) = S754_finite false 4503599627370496 (-52).
Proof. vm_compute. reflexivity. Qed.

(** ** the hypothesis of [ref_db_idempotent_computed] / [resolve_idempotent_computed]
    taken literally is FALSE at [B64]: it quantifies over products and sums of
    ARBITRARY elements of [T B64], and the product (or sum with a zero) of
    non-canonical values need not be canonical. *)
Theorem computed_hypothesis_refuted_B64 :
  ~ (forall x : T B64, (exists y z, x = mul B64 y z \/ x = add B64 y z) -> mul B64 x (one B64) = x).
Proof.
  intro H.
  assert (E : mul B64 (S754_finite false 1 0) (one B64) = S754_finite false 1 0).
  { apply H. exists (S754_finite false 1 0), (S754_finite false 1 0). left. vm_compute. reflexivity. }
  rewrite B64_mul_one_noncanonical in E. discriminate E.
Qed.

(** non-vacuity *)
Example parse_01_canonical : forall x, parse_float (b "0.1") = Some x -> canonical x.
Proof. intros x H. vm_compute in H. injection H as <-. vm_compute. reflexivity. Qed.

Example mul_one_parse_01 :
  option_map (fun x => SFmul prec emax x (f_of_Z 1)) (parse_float (b "0.1")) = parse_float (b "0.1").
Proof. vm_compute. reflexivity. Qed.

Example mul_one_by_theorem :
  SFmul prec emax (S754_finite true 7205759403792794 (-56)) (f_of_Z 1) = S754_finite true 7205759403792794 (-56).
Proof. apply SFmul_one_canonical_lemma. vm_compute. reflexivity. Qed.

Example mul_one_subnormal :   (* 4.9e-324, the smallest subnormal *)
  SFmul prec emax (S754_finite false 1 (-1074)) (f_of_Z 1) = S754_finite false 1 (-1074).
Proof. apply SFmul_one_canonical_lemma. vm_compute. reflexivity. Qed.

Example mul_one_neg_zero : SFmul prec emax (S754_zero true) (f_of_Z 1) = S754_zero true.
Proof. apply SFmul_one_canonical_lemma. exact I. Qed.
