(** WP01 – facts about the association lists ([lookup]/[set]/[keys]) that the
    resolver uses as Go maps.  Proof file; nothing of the model is redefined. *)
From Coq Require Import Lia Permutation.
From HP Require Import Base.Bytes Base.Num Model.Elements.

(** * byte-string equality *)
Lemma beq_refl : forall x, beq x x = true.
Proof.
  induction x as [|a x IH]; cbn [beq]; [reflexivity|].
  rewrite N.eqb_refl, IH. reflexivity.
Qed.

Lemma beq_true_iff : forall x y, beq x y = true <-> x = y.
Proof.
  induction x as [|a x IH]; intros [|c y]; cbn [beq]; split; intros H;
    try reflexivity; try discriminate.
  - apply andb_true_iff in H. destruct H as [Hac Hxy].
    apply N.eqb_eq in Hac. apply IH in Hxy. subst. reflexivity.
  - inversion H; subst. rewrite N.eqb_refl. cbn [andb]. apply beq_refl.
Qed.

Lemma beq_false_iff : forall x y, beq x y = false <-> x <> y.
Proof.
  intros x y. split.
  - intros H E. apply beq_true_iff in E. congruence.
  - intros H. destruct (beq x y) eqn:E; [|reflexivity].
    apply beq_true_iff in E. contradiction.
Qed.

Lemma beq_spec : forall x y, reflect (x = y) (beq x y).
Proof.
  intros x y. destruct (beq x y) eqn:E; constructor.
  - apply beq_true_iff; assumption.
  - apply beq_false_iff; assumption.
Qed.

Lemma bytes_eq_dec : forall x y : bytes, {x = y} + {x <> y}.
Proof.
  intros x y. destruct (beq x y) eqn:E; [left; apply beq_true_iff; exact E|right; apply beq_false_iff; exact E].
Qed.

(** * lookup / set / keys *)
Section Assoc.
  Context {V : Type}.
  Implicit Types (l : list (bytes * V)) (k : bytes) (v : V).

  Lemma lookup_set_eq : forall l k v, lookup k (set k v l) = Some v.
  Proof.
    induction l as [|[k' v'] l IH]; intros k v; cbn [set lookup].
    - rewrite beq_refl. reflexivity.
    - destruct (beq k k') eqn:E; cbn [lookup].
      + rewrite beq_refl. reflexivity.
      + rewrite E. apply IH.
  Qed.

  Lemma lookup_set_neq : forall l k k' v, k <> k' -> lookup k' (set k v l) = lookup k' l.
  Proof.
    induction l as [|[k0 v0] l IH]; intros k k' v Hne; cbn [set lookup].
    - destruct (beq_spec k' k) as [E|_]; [congruence|reflexivity].
    - destruct (beq_spec k k0) as [E|E]; cbn [lookup].
      + subst k0. destruct (beq_spec k' k) as [E'|_]; [congruence|reflexivity].
      + destruct (beq k' k0); [reflexivity|]. apply IH. exact Hne.
  Qed.

  Lemma lookup_set : forall l k k' v,
      lookup k' (set k v l) = if beq k k' then Some v else lookup k' l.
  Proof.
    intros l k k' v. destruct (beq_spec k k') as [E|E].
    - subst. apply lookup_set_eq.
    - apply lookup_set_neq. exact E.
  Qed.

  Lemma lookup_none_iff : forall l k, lookup k l = None <-> ~ In k (keys l).
  Proof.
    induction l as [|[k' v'] l IH]; intros k; cbn [lookup keys map In fst].
    - split; [intros _ []|reflexivity].
    - destruct (beq_spec k k') as [E|E].
      + subst. split; [discriminate|]. intros H. exfalso. apply H. left. reflexivity.
      + rewrite IH. unfold keys. split.
        * intros H [H1|H1]; [congruence|contradiction].
        * intros H H1. apply H. right. exact H1.
  Qed.

  Lemma lookup_some_in_keys : forall l k v, lookup k l = Some v -> In k (keys l).
  Proof.
    intros l k v H. destruct (in_dec bytes_eq_dec k (keys l)) as [Hin|Hn]; [exact Hin|].
    apply lookup_none_iff in Hn. congruence.
  Qed.

  Lemma in_keys_lookup : forall l k, In k (keys l) -> exists v, lookup k l = Some v.
  Proof.
    intros l k Hin. destruct (lookup k l) as [v|] eqn:E; [exists v; reflexivity|].
    apply lookup_none_iff in E. contradiction.
  Qed.

  Lemma lookup_in : forall l k v, lookup k l = Some v -> In (k, v) l.
  Proof.
    induction l as [|[k' v'] l IH]; intros k v; cbn [lookup]; [discriminate|].
    destruct (beq_spec k k') as [E|E]; intros H.
    - inversion H; subst. left. reflexivity.
    - right. apply IH. exact H.
  Qed.

  (** [set] on a key that is present keeps the key list (Go: assignment to an existing map entry) *)
  Lemma keys_set_present : forall l k v, lookup k l <> None -> keys (set k v l) = keys l.
  Proof.
    induction l as [|[k' v'] l IH]; intros k v H; cbn [lookup set keys map fst] in *.
    - congruence.
    - destruct (beq_spec k k') as [E|E]; cbn [map fst].
      + subst. reflexivity.
      + f_equal. apply IH. exact H.
  Qed.

  (** [set] on an absent key appends it *)
  Lemma keys_set_absent : forall l k v, lookup k l = None -> keys (set k v l) = keys l ++ [k].
  Proof.
    induction l as [|[k' v'] l IH]; intros k v H; cbn [lookup set keys map fst app] in *.
    - reflexivity.
    - destruct (beq k k') eqn:E; [discriminate|]. cbn [map fst]. f_equal. apply IH. exact H.
  Qed.

  (** books are built with [db_push] = [set]: keys stay unique *)
  Lemma keys_set_nodup : forall l k v, NoDup (keys l) -> NoDup (keys (set k v l)).
  Proof.
    intros l k v Hnd. destruct (lookup k l) as [x|] eqn:E.
    - rewrite keys_set_present; [exact Hnd|congruence].
    - rewrite keys_set_absent by exact E.
      apply NoDup_incl_NoDup with (l := k :: keys l).
      + constructor; [apply lookup_none_iff; exact E|exact Hnd].
      + rewrite app_length. cbn [length]. lia.
      + intros x Hx. apply in_or_app. destruct Hx as [Hx|Hx]; [right; left; exact Hx|left; exact Hx].
  Qed.

  (** two maps with the same unique key sequence and the same contents are the same list *)
  Lemma assoc_ext : forall l1 l2,
      keys l1 = keys l2 -> NoDup (keys l1) ->
      (forall k, In k (keys l1) -> lookup k l1 = lookup k l2) -> l1 = l2.
  Proof.
    induction l1 as [|[k1 v1] l1 IH]; intros [|[k2 v2] l2] Hk Hnd Hl;
      cbn [keys map fst] in Hk; try discriminate; [reflexivity|].
    inversion Hk as [[Hk1 Hk2]]. subst k2.
    cbn [keys map fst] in Hnd. inversion Hnd as [|x xs Hnin Hnd']; subst.
    assert (Hv : v1 = v2).
    { specialize (Hl k1 (or_introl eq_refl)). cbn [lookup] in Hl. rewrite beq_refl in Hl. congruence. }
    subst v2. f_equal. apply IH; [exact Hk2|exact Hnd'|].
    intros k Hin. specialize (Hl k (or_intror Hin)). cbn [lookup] in Hl.
    destruct (beq_spec k k1) as [E|E]; [subst; contradiction|exact Hl].
  Qed.

  (** ** maps that may differ only at the FIRST entry of each key.
      [set] on a present key rewrites the first entry with that key, the one
      [lookup] reads; later entries with the same key (impossible in a Go map,
      possible in an arbitrary list) are never touched.  [seen] = keys to the left. *)
  Inductive same_shadow : list bytes -> list (bytes * V) -> list (bytes * V) -> Prop :=
  | ss_nil : forall seen, same_shadow seen [] []
  | ss_cons : forall seen k v1 v2 l1 l2,
      (In k seen -> v1 = v2) -> same_shadow (k :: seen) l1 l2 ->
      same_shadow seen ((k, v1) :: l1) ((k, v2) :: l2).

  Lemma same_shadow_refl : forall l seen, same_shadow seen l l.
  Proof.
    induction l as [|[k v] l IH]; intros seen; constructor; [reflexivity|apply IH].
  Qed.

  Lemma same_shadow_sym : forall seen l1 l2, same_shadow seen l1 l2 -> same_shadow seen l2 l1.
  Proof.
    intros seen l1 l2 H. induction H as [seen|seen k v1 v2 l1 l2 Hv H IH]; constructor.
    - intros Hin. symmetry. apply Hv. exact Hin.
    - exact IH.
  Qed.

  Lemma same_shadow_trans : forall seen l1 l2 l3,
      same_shadow seen l1 l2 -> same_shadow seen l2 l3 -> same_shadow seen l1 l3.
  Proof.
    intros seen l1 l2 l3 H. revert l3.
    induction H as [seen|seen k v1 v2 l1 l2 Hv H IH]; intros l3 H3.
    - exact H3.
    - inversion H3 as [|seen' k' v2' v3 l2' l3' Hv' H' E1 E2 E3]; subst.
      constructor.
      + intros Hin. rewrite (Hv Hin). apply Hv'. exact Hin.
      + apply IH. exact H'.
  Qed.

  Lemma same_shadow_keys : forall seen l1 l2, same_shadow seen l1 l2 -> keys l1 = keys l2.
  Proof.
    intros seen l1 l2 H. induction H as [seen|seen k v1 v2 l1 l2 Hv H IH]; [reflexivity|].
    cbn [keys map fst]. f_equal. exact IH.
  Qed.

  Lemma same_shadow_set : forall l seen k v,
      ~ In k seen -> lookup k l <> None -> same_shadow seen l (set k v l).
  Proof.
    induction l as [|[k' v'] l IH]; intros seen k v Hns Hl; cbn [lookup set] in *.
    - congruence.
    - destruct (beq_spec k k') as [E|E].
      + subst k'. constructor; [intros Hin; contradiction|apply same_shadow_refl].
      + constructor; [reflexivity|]. apply IH; [|exact Hl].
        intros [Hin|Hin]; [congruence|contradiction].
  Qed.

  (** extensionality without uniqueness of keys *)
  Lemma assoc_ext_shadow : forall seen l1 l2,
      same_shadow seen l1 l2 ->
      (forall k, ~ In k seen -> lookup k l1 = lookup k l2) -> l1 = l2.
  Proof.
    intros seen l1 l2 H. induction H as [seen|seen k v1 v2 l1 l2 Hv H IH]; intros Hl; [reflexivity|].
    assert (Hv12 : v1 = v2).
    { destruct (in_dec bytes_eq_dec k seen) as [Hin|Hn]; [apply Hv; exact Hin|].
      specialize (Hl k Hn). cbn [lookup] in Hl. rewrite beq_refl in Hl. congruence. }
    subst v2. f_equal. apply IH. intros k' Hn.
    assert (Hne : k' <> k) by (intros E; apply Hn; left; congruence).
    assert (Hns : ~ In k' seen) by (intros Hin; apply Hn; right; exact Hin).
    specialize (Hl k' Hns). cbn [lookup] in Hl.
    destruct (beq_spec k' k) as [E|_]; [contradiction|exact Hl].
  Qed.
End Assoc.


(** [lookup] through a key-preserving [map] *)
Lemma lookup_map_val : forall {V W : Type} (g : bytes -> V -> W) (l : list (bytes * V)) k,
    lookup k (map (fun kv => (fst kv, g (fst kv) (snd kv))) l) = option_map (g k) (lookup k l).
Proof.
  intros V W g. induction l as [|[k' v'] l IH]; intros k; cbn [map lookup fst snd option_map]; [reflexivity|].
  destruct (beq_spec k k') as [E|E]; [subst; reflexivity|apply IH].
Qed.

Lemma keys_map_val : forall {V W : Type} (g : bytes -> V -> W) (l : list (bytes * V)),
    keys (map (fun kv => (fst kv, g (fst kv) (snd kv))) l) = keys l.
Proof.
  intros V W g l. unfold keys. rewrite map_map. cbn [fst]. reflexivity.
Qed.
