(** WP30: examples for Proofs/StackDepth.v at the exact-integer instance [ZNum]:
    what the instrumented depth counts, that the hypotheses of the theorems are
    met by concrete inputs, and that the bounds are attained. *)
From Coq Require Import Lia ZifyBool Permutation.
From HP Require Import Base.Bytes Base.Utf8 Base.Num Model.Scanner Model.Parser Model.Elements Model.Resolver
  Model.Dates Model.Tree Model.Writer Model.Reporters Model.Config Model.Cli.
From HP Require Import Spec.ResolverSpec Proofs.ResolverRef Proofs.Settings Proofs.NoCrash Proofs.StackDepth.
Import SettingsExample.
Local Open Scope nat_scope.

(** * the chain r0 -> r1 -> r2 -> r3 -> r4 -> r5 *)

Example ex_chain_book_2 :
  chain_book ZNum 2 = [(b "r", [(b "rr", 1%Z)]); (b "rr", [(b "rrr", 1%Z)])].
Proof. vm_compute. reflexivity. Qed.

(** enough fuel: success, the calls nest 5 levels below the first one (6 frames of resolveNode) *)
Example ex_chain5_fuel10 :
  snd (resolve_node_d ZNum 10 (chain_book ZNum 5, []) (cname 0)) = 5 /\
  option_map fst (fst (resolve_node_d ZNum 10 (chain_book ZNum 5, []) (cname 0))) = Some 5.
Proof. split; vm_compute; reflexivity. Qed.

(** fuel 3: "maximum resolution depth reached" after nesting 3 levels (the call
    at level 3 = maxDepth is made, and returns the error at once) *)
Example ex_chain5_fuel3 :
  resolve_node_d ZNum 3 (chain_book ZNum 5, []) (cname 0) = (None, 3).
Proof. vm_compute. reflexivity. Qed.

(** the same two facts from the theorems, not by computation *)
Example ex_chain5_by_theorem :
  snd (resolve_node_d ZNum 10 (chain_book ZNum 5, []) (cname 0)) = 5 /\
  resolve_node_d ZNum 3 (chain_book ZNum 5, []) (cname 0) = (None, 3).
Proof.
  split; [apply (chain_nesting ZNum 5 10); lia|apply (chain_nesting_limit_hit ZNum 5 3); lia].
Qed.

(** nesting for k = 0..5 under fuel 3: min k fuel *)
Example ex_chain_min :
  map (fun k => snd (resolve_node_d ZNum 3 (chain_book ZNum k, []) (cname 0))) [0; 1; 2; 3; 4; 5] = [0; 1; 2; 3; 3; 3].
Proof. vm_compute. reflexivity. Qed.

(** * the nesting of the whole [Resolve] depends on the order of map iteration:
      delivering r0 first nests 5 deep, delivering r4 first (then r3, ...) nests
      only 1 deep, because every later call finds its ingredient in the memo *)
Example ex_order_matters :
  snd (resolve_d ZNum 10 (fun l => l) (chain_book ZNum 5)) = 5 /\
  snd (resolve_d ZNum 10 (@rev bytes) (chain_book ZNum 5)) = 1 /\
  fst (resolve_d ZNum 10 (fun l => l) (chain_book ZNum 5)) = fst (resolve_d ZNum 10 (@rev bytes) (chain_book ZNum 5)).
Proof. repeat split; vm_compute; reflexivity. Qed.

(** * nesting <= longest chain: a diamond  top -> a -> c -> x, top -> c *)
Definition diamond : Resolver.db ZNum :=
  [(b "top", [(b "a", 2%Z); (b "c", 3%Z)]); (b "a", [(b "c", 5%Z); (b "y", 1%Z)]); (b "c", [(b "x", 7%Z)])].
(** the same recipes, [top] listing c before a *)
Definition diamond' : Resolver.db ZNum :=
  [(b "top", [(b "c", 3%Z); (b "a", 2%Z)]); (b "a", [(b "c", 5%Z); (b "y", 1%Z)]); (b "c", [(b "x", 7%Z)])].

(** the hypothesis of [nesting_le_longest_chain] holds with n = 3 (and not with n = 2) *)
Example ex_diamond_chain : reach ZNum diamond 3 (b "top") /\ ~ reach ZNum diamond 4 (b "top").
Proof. split; [apply reachb_spec|apply reachb_false_iff]; vm_compute; reflexivity. Qed.

(** the theorem, under the "unlimited" limit of KF1 (nothing is computed with this fuel) *)
Example ex_diamond_bound : snd (resolve_node_d ZNum (Z.to_nat 1000000000) (diamond, []) (b "top")) <= 3.
Proof. apply nesting_le_longest_chain. apply ex_diamond_chain. Qed.

(** the bound is attained by [diamond]; in [diamond'] the memo cuts the second
    descent short and the nesting (2) stays below the longest chain (3) *)
Example ex_diamond_nesting :
  snd (resolve_node_d ZNum 100 (diamond, []) (b "top")) = 3 /\
  snd (resolve_node_d ZNum 100 (diamond', []) (b "top")) = 2 /\
  ~ reach ZNum diamond' 4 (b "top") /\ reach ZNum diamond' 3 (b "top").
Proof.
  split; [vm_compute; reflexivity|]. split; [vm_compute; reflexivity|].
  split; [apply reachb_false_iff|apply reachb_spec]; vm_compute; reflexivity.
Qed.

(** a cycle: the limit is the only thing that stops the recursion -- nesting = fuel for every fuel tried *)
Definition loop2 : Resolver.db ZNum := [(b "p", [(b "q", 1%Z)]); (b "q", [(b "p", 1%Z)])].
Example ex_cycle : map (fun f => resolve_node_d ZNum f (loop2, []) (b "p")) [1; 2; 3; 50] = [(None, 1); (None, 2); (None, 2); (None, 2)].
Proof. vm_compute. reflexivity. Qed.

(** * the command line: a recipe book file holding the chain of 12 recipes *)
Definition nl : bytes := [c_lf].
Definition chain_text (k : nat) : bytes :=
  flat_map (fun i => cname i ++ b ":" ++ nl ++ b "  " ++ cname (S i) ++ b " 1" ++ nl) (seq 0 k).

Example ex_chain_text_parses : load_db ZNum (OData (chain_text 12) NoFault) = (chain_book ZNum 12, None).
Proof. vm_compute. reflexivity. Qed.

Definition wchain : world :=
  {| w_fs := [(b "food.yaml", FFile (chain_text 12)); (b "log.yaml", FFile (b "2021/01/01:" ++ nl ++ b "  r 3" ++ nl))];
     w_default_config := b "/home/u/.hranoprovod/config";
     w_tz := 0; w_clock := time_of_civil (2026, 10, 1)%Z; w_or := id_oracles; w_sink := None; w_read_fault := [] |}.

Definition inv (fdep : option Z) (cmd : command) : invocation :=
  mk_inv None None None None None None fdep None None None None false cmd.

(** no --maxdepth, no HR_MAXDEPTH, no configuration file: the hypotheses of
    [default_limit_nesting_le_10] hold; the theorem gives <= 10, computation
    shows that 10 is attained and that the command stops with the depth error *)
Example ex_default_limit :
  exists op, load wchain (inv None CTotals) = inr op /\ op_depth op = 10%Z /\
    open_file wchain (op_db op) = Some (OData (chain_text 12) NoFault) /\
    snd (resolved_db_d ZNum wchain op (OData (chain_text 12) NoFault)) <= 10 /\
    resolved_db_d ZNum wchain op (OData (chain_text 12) NoFault) = (inl EMaxDepth, 10) /\
    out_status (run ZNum wchain (inv None CTotals)) = Failed EMaxDepth.
Proof.
  eexists. split; [vm_compute; reflexivity|]. split; [reflexivity|]. split; [vm_compute; reflexivity|].
  split.
  - eapply (default_limit_nesting_le_10 ZNum wchain (inv None CTotals)); try reflexivity.
    intros cfg Hc. vm_compute in Hc. inversion Hc; subst cfg. left. reflexivity.
  - split; vm_compute; reflexivity.
Qed.

(** --maxdepth 100: the book resolves, the calls nest 12 deep; [flag_limit_nesting] gives <= 100 *)
Example ex_flag_limit :
  exists op, load wchain (inv (Some 100%Z) CTotals) = inr op /\
    snd (resolved_db_d ZNum wchain op (OData (chain_text 12) NoFault)) <= 100 /\
    snd (resolved_db_d ZNum wchain op (OData (chain_text 12) NoFault)) = 12 /\
    out_status (run ZNum wchain (inv (Some 100%Z) CTotals)) = Ok.
Proof.
  eexists. split; [vm_compute; reflexivity|]. split.
  - apply (flag_limit_nesting ZNum wchain (inv (Some 100%Z) CTotals) _ 100%Z); reflexivity.
  - split; vm_compute; reflexivity.
Qed.

(** ... and [resolved_db_nesting_le_longest_chain] gives <= 12 for ANY limit, without running the resolver *)
Example ex_cli_longest_chain : forall op,
  snd (resolved_db_d ZNum wchain op (OData (chain_text 12) NoFault)) <= 12.
Proof.
  intros op. apply (resolved_db_nesting_le_longest_chain ZNum wchain op _ (chain_book ZNum 12) 12).
  - exact ex_chain_text_parses.
  - intros l. apply Permutation_refl.
  - apply depth_ltb_spec. vm_compute. reflexivity.
Qed.

(** [nesting_le_recipes] needs no hypothesis: on the cyclic book the calls nest at
    most 2 deep under every fuel (attained, see [ex_cycle]) *)
Example ex_cycle_bound : forall fuel, snd (resolve_node_d ZNum fuel (loop2, []) (b "p")) <= 2.
Proof. intros fuel. apply (nesting_le_recipes ZNum loop2). Qed.
