(** WP23, Part B (generic half).  C14 at the level of the command, relative to
    an invariant [Q] of the amounts: [PrintRun.run_print_twice_log] under the
    restricted number law [FSO : FmtStableOn NM Q] and the hypothesis that the
    amounts of the days of the period (or of all the days) satisfy [Q]. *)
From Coq Require Import Lia ZifyBool ZifyNat ZifyN.
From HP Require Import Base.Bytes Base.Utf8 Base.Num Model.Scanner Model.Parser Model.Elements Model.Resolver
     Model.Dates Model.Tree Model.Writer Model.Reporters Model.Cli Spec.PrintSpec Spec.PrintOnSpec
     Proofs.PrintBytes Proofs.PrintMain Proofs.PrintRun Proofs.PrintOnMain.
Open Scope N_scope.

Section PrintOnRun.
  Context (NM : Num) (Q : T NM -> Prop) (FSO : FmtStableOn NM Q).
  Notation lognode := (lognode NM).

  (** the invariant of all the days is in particular the invariant of the days of the period *)
  Lemma days_in_filter (f : lognode -> bool) L : days_in NM Q L -> days_in NM Q (filter f L).
  Proof.
    intros HQ. unfold days_in in *. rewrite Forall_forall in *. intros d Hd.
    apply filter_In in Hd. destruct Hd as [Hd _]. apply (HQ d Hd).
  Qed.

  (** C14 at the level of the command, for every readable log and any period:
      feed the standard output of a run of print back as the log file, under
      the same options; the second run succeeds and writes the same bytes.
      Hypotheses: the number law on [Q], and for the days of the period: the
      amounts satisfy [Q], the documented note forms, the line-length limit. *)
  Theorem run_print_twice_log_on w1 w2 op c data toks L :
    rc_date c = toks -> stable_layout toks = true ->
    print_setting w1 op data toks -> read_log NM toks data = Some L ->
    days_in NM Q (filter (in_period NM op) L) ->
    Forall (fun d => Forall (fun mp => documented_note mp = true) (notes_of NM d)) (filter (in_period NM op) L) ->
    Forall (fun d => Forall (fun l => lengthN l < max_token) (day_lines NM c d)) (filter (in_period NM op) L) ->
    print_setting w2 op (out_stdout (run_log NM w1 op (rep_print NM c))) toks ->
    run_log NM w2 op (rep_print NM c) = run_log NM w1 op (rep_print NM c)
    /\ out_status (run_log NM w1 op (rep_print NM c)) = Ok.
  Proof.
    intros Hc Hst S1 H1 HQ Hn Hl S2. rewrite (run_print_output NM w1 op c data toks L S1 H1) in *. cbn [out_stdout] in S2.
    split; [|reflexivity].
    set (Ls := filter (in_period NM op) L) in *.
    assert (Hsafe : forallb safe_tok toks = true).
    { destruct S1 as (_ & _ & _ & _ & _ & Htok). apply (PrintDates.tokenize_safe _ _ Htok). }
    destruct (read_log_shape NM toks data L H1) as [Hshape Hlay].
    assert (Hr : read_log NM toks (print_output NM c Ls) = Some (map (reread_day NM) Ls)).
    { destruct Ls as [|d0 Ls0] eqn:ELs; [apply read_log_nil|].
      assert (HLne : L <> []) by (intros ->; discriminate).
      assert (HL : heading_layout (layout_core (rc_date c)) = true) by (rewrite Hc; apply Hlay; assumption).
      assert (Hsep : sep_ok toks = true) by (unfold stable_layout in Hst; apply andb_true_iff in Hst; apply Hst).
      subst toks. apply (print_reads_back_core_on NM Q FSO c (d0 :: Ls0) Hsafe Hsep HL); [|exact HQ].
      rewrite <- ELs in *. rewrite Forall_forall in *. intros d Hd.
      assert (HdL : In d L) by (unfold Ls in Hd; apply filter_In in Hd; tauto).
      destruct (Hshape d HdL) as [S1' [S2' [S3' S4']]].
      unfold day_ok. auto 10 using (Hn d Hd), (Hl d Hd). }
    rewrite (run_print_output NM w2 op c _ toks _ S2 Hr). f_equal.
    rewrite filter_all.
    - apply (print_output_reread_on NM Q FSO), HQ.
    - apply Forall_map. unfold Ls. apply Forall_forall. intros d Hd. apply filter_In in Hd.
      unfold in_period, reread_day. cbn [ln_time]. apply Hd.
  Qed.

  (** the same with the invariant assumed of all the days of the log *)
  Corollary run_print_twice_log_on_all w1 w2 op c data toks L :
    rc_date c = toks -> stable_layout toks = true ->
    print_setting w1 op data toks -> read_log NM toks data = Some L ->
    days_in NM Q L ->
    Forall (fun d => Forall (fun mp => documented_note mp = true) (notes_of NM d)) (filter (in_period NM op) L) ->
    Forall (fun d => Forall (fun l => lengthN l < max_token) (day_lines NM c d)) (filter (in_period NM op) L) ->
    print_setting w2 op (out_stdout (run_log NM w1 op (rep_print NM c))) toks ->
    run_log NM w2 op (rep_print NM c) = run_log NM w1 op (rep_print NM c)
    /\ out_status (run_log NM w1 op (rep_print NM c)) = Ok.
  Proof.
    intros Hc Hst S1 H1 HQ Hn Hl S2.
    apply (run_print_twice_log_on w1 w2 op c data toks L Hc Hst S1 H1 (days_in_filter _ L HQ) Hn Hl S2).
  Qed.
End PrintOnRun.
