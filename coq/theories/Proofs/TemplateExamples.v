(** WP24: examples.  Non-vacuity of the [exec_*] theorems (a two-food day with
    ingredients and totals, at the exact-integer instance [ZNum]); one-character
    changes of the template text are seen by the parser; the boundary of the
    subset (what makes [parse_template] answer [None]); the truth of pointers
    and the nil pointer under [range]; an instance of [lex_trim_spec]. *)
From HP Require Import Base.Bytes Base.Num Model.Elements Model.Dates Model.Reporters Model.Template.
From HP Require Import Proofs.TemplateEq Proofs.TemplateExec Proofs.TemplateLex.

Definition ex_cfg : rconfig :=
  {| rc_color := false; rc_totals_only := false; rc_totals := true; rc_date := [Y4; Lit 47; M2; Lit 47; D2];
     rc_single_element := []; rc_single_food := []; rc_collapse_last := false; rc_collapse := false;
     rc_group_food := false; rc_shorten := true; rc_old := false; rc_template := []; rc_csv := false |}.

(** 2024/03/09: bread 2 (fat 6, kcal 500), walk 1 (kcal -120); totals fat 6/0, kcal 500/-120 *)
Definition ex_day : report_item ZNum :=
  Build_report_item ZNum (time_of_civil (2024, 3, 9)%Z)
    ([(b "bread", 2%Z, [(b "fat", 6%Z); (b "kcal", 500%Z)]); (b "walk", 1%Z, [(b "kcal", (-120)%Z)])]
       : list (bytes * Z * list (bytes * Z)))
    (Some [(b "fat", 6%Z, 0%Z, 6%Z); (b "kcal", 500%Z, (-120)%Z, 380%Z)]).

Definition ex_default_out : bytes := nl
  [ b "2024/03/09";
    c_tab :: b "bread                       :         2";
    c_tab :: c_tab :: b "                 fat          6";
    c_tab :: c_tab :: b "                kcal        500";
    c_tab :: b "walk                        :         1";
    c_tab :: c_tab :: b "                kcal       -120";
    c_tab :: b "-- TOTAL  ----------------------------------------------------";
    c_tab :: c_tab :: b "                 fat          6          0 =         6";
    c_tab :: c_tab :: b "                kcal        500       -120 =       380" ].

Definition ex_left_out : bytes := nl
  [ b "2024/03/09";
    b "           2  bread";
    b "           6    fat";
    b "         500    kcal";
    b "           1  walk";
    b "        -120    kcal";
    b "------------------------------------------------------- TOTAL --";
    b "           6          0 =          6  fat";
    b "         500       -120 =        380  kcal" ].

Definition ex_summary_out : bytes := nl
  [ b "2024/03/09 :";
    b "         6 : fat";
    b "       500 : kcal";
    b "------------";
    b "         2 : bread";
    b "         1 : walk" ].

(** the evaluation of the tree and the renderer, both computed, both the expected text *)
Example ex_default :
  exec_template (template_funcs ZNum ex_cfg) default_ast (item_value ZNum ex_day) = Some ex_default_out
  /\ render_default ZNum ex_cfg ex_day = ex_default_out.
Proof. split; vm_compute; reflexivity. Qed.

Example ex_left :
  exec_template (template_funcs ZNum ex_cfg) left_ast (item_value ZNum ex_day) = Some ex_left_out
  /\ render_left ZNum ex_cfg ex_day = ex_left_out.
Proof. split; vm_compute; reflexivity. Qed.

Example ex_summary :
  exec_template (template_funcs ZNum ex_cfg) summary_ast (item_value ZNum ex_day) = Some ex_summary_out
  /\ render_summary ZNum ex_cfg ex_day = ex_summary_out.
Proof. split; vm_compute; reflexivity. Qed.

(** the whole chain from the TEXT: parse, evaluate *)
Example ex_from_text :
  option_bind (parse_template default_src)
              (fun a => exec_template (template_funcs ZNum ex_cfg) a (item_value ZNum ex_day))
  = Some ex_default_out.
Proof. vm_compute. reflexivity. Qed.

(** a long name is shortened in the middle (the [shorten] function is reached with 27 / 20) *)
Example ex_shorten :
  let it := Build_report_item ZNum (time_of_civil (2024, 3, 9)%Z)
              ([(b "a food with a name longer than twenty-seven runes", 1%Z,
                 [(b "an ingredient longer than twenty", 3%Z)])] : list (bytes * Z * list (bytes * Z))) None in
  exec_template (template_funcs ZNum ex_cfg) default_ast (item_value ZNum it)
  = Some (nl [ b "2024/03/09";
               c_tab :: b "a food with a" ++ [226; 128; 166] ++ b "y-seven runes :         1";
               c_tab :: c_tab :: b "an ingredi" ++ [226; 128; 166] ++ b "an twenty          3" ]).
Proof. vm_compute. reflexivity. Qed.

(** ** pointers: a non-nil pointer to an empty slice is true, nil is false *)

(** totals on, no contribution: the header IS printed (Go: [if .Totals] tests the pointer) *)
Example ex_empty_totals :
  let it := Build_report_item ZNum (time_of_civil (2024, 3, 9)%Z) [] (Some []) in
  exec_template (template_funcs ZNum ex_cfg) default_ast (item_value ZNum it)
  = Some (nl [ b "2024/03/09"; c_tab :: b "-- TOTAL  ----------------------------------------------------" ]).
Proof. vm_compute. reflexivity. Qed.

Example ex_no_totals :
  let it := Build_report_item ZNum (time_of_civil (2024, 3, 9)%Z) [] None in
  exec_template (template_funcs ZNum ex_cfg) default_ast (item_value ZNum it) = Some (nl [ b "2024/03/09" ]).
Proof. vm_compute. reflexivity. Qed.

(** [range] over a nil pointer is an execution error: the [if] around it is needed *)
Example ex_range_nil :
  let it := Build_report_item ZNum (time_of_civil (2024, 3, 9)%Z) [] None in
  option_bind (parse_template (b "{{range $t := .Totals}}x{{end}}"))
              (fun a => exec_template (template_funcs ZNum ex_cfg) a (item_value ZNum it)) = None
  /\ option_bind (parse_template (b "{{if .Totals}}{{range $t := .Totals}}x{{end}}{{end}}"))
                 (fun a => exec_template (template_funcs ZNum ex_cfg) a (item_value ZNum it)) = Some [].
Proof. split; vm_compute; reflexivity. Qed.

(** dot is the element inside [range]; [$] stays the data; a missing field or an unknown function is an error *)
Example ex_dot_in_range :
  option_bind (parse_template (b "{{range .Elements}}[{{.Name}}:{{formatDate $.Time}}]{{end}}"))
              (fun a => exec_template (template_funcs ZNum ex_cfg) a (item_value ZNum ex_day))
  = Some (b "[bread:2024/03/09][walk:2024/03/09]")
  /\ option_bind (parse_template (b "{{.Nope}}"))
                 (fun a => exec_template (template_funcs ZNum ex_cfg) a (item_value ZNum ex_day)) = None
  /\ option_bind (parse_template (b "{{nope .Time}}"))
                 (fun a => exec_template (template_funcs ZNum ex_cfg) a (item_value ZNum ex_day)) = None
  /\ option_bind (parse_template (b "{{formatDate .Elements}}"))
                 (fun a => exec_template (template_funcs ZNum ex_cfg) a (item_value ZNum ex_day)) = None.
Proof. repeat split; vm_compute; reflexivity. Qed.

(** a function that is not defined is an error even in a branch that is not executed
    (Go checks the names when the text is parsed), and literals Go cannot hold are rejected *)
Example ex_funcs_checked :
  let it := Build_report_item ZNum (time_of_civil (2024, 3, 9)%Z) [] None in
  option_bind (parse_template (b "{{if .Totals}}{{nope}}{{end}}"))
              (fun a => exec_template (template_funcs ZNum ex_cfg) a (item_value ZNum it)) = None
  /\ option_bind (parse_template (b "{{if .Totals}}{{formatDate .Time}}{{end}}"))
                 (fun a => exec_template (template_funcs ZNum ex_cfg) a (item_value ZNum it)) = Some []
  /\ parse_template (b "{{shorten .A 9223372036854775808}}") = None.
Proof. repeat split; vm_compute; reflexivity. Qed.

(** ** one-character changes of the template text are not silent *)

Definition subst_at (n : nat) (c : N) (s : bytes) : bytes := firstn n s ++ c :: skipn (S n) s.
Definition delete_at (n : nat) (s : bytes) : bytes := firstn n s ++ skipn (S n) s.

(** [%-27s] becomes [%-28s] (byte 86 of the default text is the 7) *)
Example ex_width_changed :
  nth 86 default_src 0 = 55
  /\ firstn 5 (skipn 83 (subst_at 86 56 default_src)) = b "%-28s"
  /\ tmpl_eqb (parse_template (subst_at 86 56 default_src)) (Some default_ast) = false
  /\ parse_template (subst_at 86 56 default_src) <> Some default_ast.
Proof.
  repeat split; try (vm_compute; reflexivity).
  apply tmpl_eqb_false. vm_compute. reflexivity.
Qed.

(** the trim marker of [{{- range $ing ...}}] removed (byte 145 is the minus): the
    line feed before it is now part of the output of every element *)
Example ex_marker_removed :
  firstn 4 (skipn 143 default_src) = b "{{- "
  /\ firstn 4 (skipn 143 (delete_at 145 default_src)) = b "{{ r"
  /\ tmpl_eqb (parse_template (delete_at 145 default_src)) (Some default_ast) = false
  /\ (exists a, parse_template (delete_at 145 default_src) = Some a
                /\ exec_template (template_funcs ZNum ex_cfg) a (item_value ZNum ex_day)
                   <> Some (render_default ZNum ex_cfg ex_day)).
Proof.
  split; [vm_compute; reflexivity|]. split; [vm_compute; reflexivity|]. split; [vm_compute; reflexivity|].
  destruct (parse_template (delete_at 145 default_src)) as [a|] eqn:E; [|vm_compute in E; discriminate].
  exists a. split; [reflexivity|].
  vm_compute in E. injection E as <-. vm_compute. discriminate.
Qed.

(** a changed field name, a changed literal text, a swapped pair of arguments *)
Example ex_other_changes :
  tmpl_eqb (parse_template (subst_at 14 116 default_src)) (Some default_ast) = false      (* .Time -> .time *)
  /\ tmpl_eqb (parse_template (subst_at 13 32 summary_src)) (Some summary_ast) = false    (* formatDate .Time -> formatDate  Time *)
  /\ tmpl_eqb (parse_template (subst_at 21 59 summary_src)) (Some summary_ast) = false.   (* " :" -> " ;" *)
Proof. repeat split; vm_compute; reflexivity. Qed.

(** ** outside the subset: no tree at all *)
Example ex_rejected :
  parse_template (b "{{if .A}}x{{else}}y{{end}}") = None          (* else *)
  /\ parse_template (b "{{.A | printf ""%s""}}") = None            (* pipe *)
  /\ parse_template (b "{{/* c */}}") = None                       (* comment *)
  /\ parse_template (b "{{with .A}}x{{end}}") = None               (* with *)
  /\ parse_template (b "{{$x := .A}}") = None                      (* declaration outside range *)
  /\ parse_template (b "{{$x.A}}") = None                          (* undefined variable *)
  /\ parse_template (b "{{range $x := .A}}{{end}}{{$x}}") = None   (* variable out of scope *)
  /\ parse_template (b "{{shorten .A 027}}") = None                (* octal literal *)
  /\ parse_template (b "{{shorten .A -1}}") = None                 (* sign *)
  /\ parse_template (b "{{printf ""%s"".A}}") = None               (* field of a literal *)
  /\ parse_template (b "{{printf ""%s""(f)}}") = None              (* operands not separated *)
  /\ parse_template (b "{{printf ""\x41""}}") = None               (* another escape *)
  /\ parse_template (b "{{.A}") = None                             (* unclosed action *)
  /\ parse_template (b "{{if .A}}x") = None                        (* unclosed if *)
  /\ parse_template (b "x{{end}}") = None                          (* stray end *)
  /\ parse_template (b "{{(f .A}}") = None                         (* unclosed parenthesis *)
  /\ parse_template (b "{{}}") = None                              (* empty action *)
  /\ parse_template (b "{{.A .B}}") = None.                        (* argument to a non-function *)
Proof. repeat split; vm_compute; reflexivity. Qed.

(** ** the trim markers, concretely and through [lex_trim_spec] *)

Example ex_trim :
  parse_template (b "a  {{- .X -}}  b") = Some [TText (b "a"); TAction (EField [b "X"]); TText (b "b")]
  /\ parse_template (b "a  {{.X}}  b") = Some [TText (b "a  "); TAction (EField [b "X"]); TText (b "  b")]
  /\ parse_template (b "a {{- .X}}") = parse_template (b "a{{- .X}}")
  /\ parse_template ([32; 9; 13; 10] ++ b "{{- .X -}}" ++ [10; 13; 9; 32]) = Some [TAction (EField [b "X"])].
Proof. repeat split; vm_compute; reflexivity. Qed.

(** the hypotheses of [lex_trim_spec] are met by the first line break of the default text *)
Example ex_trim_spec :
  let t := b "{{formatDate .Time}}" in
  let r := skipn 23 default_src in
  default_src = t ++ [c_lf] ++ 123 :: 123 :: r
  /\ no_ld t = false                                     (* the text before is not plain: it contains an action ... *)
  /\ no_ld (b "TOTAL --") = true /\ has_ltrim r = true   (* ... but a plain text is, and the marker is there *)
  /\ lex (b "TOTAL --" ++ [c_lf; c_tab; c_space] ++ 123 :: 123 :: r) = lex (b "TOTAL --" ++ 123 :: 123 :: r)
  /\ lex (b "TOTAL --" ++ 123 :: 123 :: r) <> None.
Proof.
  cbv zeta. split; [vm_compute; reflexivity|]. split; [vm_compute; reflexivity|].
  split; [vm_compute; reflexivity|]. split; [vm_compute; reflexivity|].
  split.
  - apply lex_trim_spec; [vm_compute; reflexivity | | vm_compute; reflexivity].
    repeat constructor.
  - vm_compute. discriminate.
Qed.

(** the hypothesis [no_ld t] of [lex_trim_spec] cannot be dropped: when the text ends with a brace,
    removing the white space moves the delimiter one byte to the left *)
Example ex_trim_spec_needs_no_ld :
  let t := b "a{" in
  let r := b "- .X}}" in
  no_ld t = false /\ all_ws [c_space] /\ has_ltrim r = true
  /\ lex (t ++ [c_space] ++ 123 :: 123 :: r) = Some [LText (b "a{"); LAct [KField [b "X"]]]
  /\ lex (t ++ 123 :: 123 :: r) = None.
Proof.
  cbv zeta. split; [vm_compute; reflexivity|]. split; [repeat constructor|].
  repeat split; vm_compute; reflexivity.
Qed.
