(** WP04 / C09 -- non-vacuity of [lint_unreadable]: a file with a line of 65536
    bytes.  SLOW (about 5 minutes): the model's scanner reverses the line with
    the quadratic [rev], and each evaluation of [scan] on it costs a minute. *)
From HP Require Import Base.Bytes Base.Utf8 Base.Num Model.Scanner Model.Parser Model.Elements Model.Resolver
  Model.Dates Model.Tree Model.Writer Model.Reporters Model.Cli.
From HP Require Import Proofs.MalformedBase Proofs.MalformedLint Proofs.MalformedExamples.
Open Scope N_scope.

(** an over-long line after a malformed one: the message is printed, the status is ErrTooLong *)
Definition long_line : bytes := repeat 97 (N.to_nat 65536).
Definition log_long : bytes := lines [b "2024/01/01"; b "  apple"; long_line; b "  pear"].

Example ex_lint_unreadable :
  ~ readable log_long
  /\ run_lint ZNum (mkw book_good log_long) (b "log.yaml") false
     = {| out_stdout := b "bad syntax on line 2, ""  apple""." ++ [c_lf]; out_status := Failed (EScan true) |}.
Proof.
  assert (H : ~ readable log_long) by (unfold readable; vm_compute; discriminate).
  split; [exact H|].
  rewrite (lint_unreadable ZNum (mkw book_good log_long) (b "log.yaml") log_long false).
  - vm_compute. reflexivity.
  - discriminate.
  - lazy - [log_long]. reflexivity.
  - lazy - [log_long]. reflexivity.
  - reflexivity.
  - exact H.
Qed.

