(** WP10: non-vacuity.  Exact integers ([ZNum]); two days; a food the book defines with two
    elements ("soup" = 50 kcal + 2 fat), an element logged directly ("kcal"), negative
    quantities, an undefined food ("bread"); oracles that are not the identity. *)
From Coq Require Import Lia Permutation.
From HP Require Import Base.Bytes Base.Num Model.Elements Model.Dates Model.Tree Model.Reporters Spec.AgreeSpec.
From HP Require Import Base.GoFloat.
From HP Require Import Proofs.AgreeTotals Proofs.AgreeTotalsAcc Proofs.AgreeTotalsMain Proofs.AgreeTotalsByFood.

Lemma ZNum_AddMonoid : AddMonoid ZNum.
Proof. split; cbn; intros; lia. Qed.

Definition ex_db : list (bytes * elements ZNum) :=
  [(b "soup", [(b "kcal", 50%Z); (b "fat", 2%Z)])].

Definition ex_day1 : lognode ZNum :=
  {| ln_time := time_of_civil (2024, 1, 1)%Z;
     ln_elems := ([(b "soup", 2%Z); (b "kcal", (-30)%Z)] : elements ZNum);
     ln_meta := None |}.
Definition ex_day2 : lognode ZNum :=
  {| ln_time := time_of_civil (2024, 1, 2)%Z;
     ln_elems := ([(b "soup", (-1)%Z); (b "kcal", 5%Z); (b "bread", 3%Z)] : elements ZNum);
     ln_meta := None |}.
Definition ex_L := [ex_day1; ex_day2].

Definition ex_c : rconfig :=
  {| rc_color := false; rc_totals_only := false; rc_totals := true; rc_date := [];
     rc_single_element := b "kcal"; rc_single_food := []; rc_collapse_last := false;
     rc_collapse := false; rc_group_food := false; rc_shorten := false; rc_old := false;
     rc_template := []; rc_csv := false |}.

(** a map order that is not the identity *)
Definition ex_π : list bytes -> list bytes := @rev bytes.
Lemma ex_π_perm : forall l, Permutation (ex_π l) l.
Proof. intros l. apply Permutation_sym, Permutation_rev. Qed.

(** the contributions: day 1 = kcal 100, fat 4, kcal -30; day 2 = kcal -50, fat -2, kcal 5, bread 3 *)
Example ex_contributions :
  map (contributions ZNum ex_db) ex_L
  = [[(b "kcal", 100%Z); (b "fat", 4%Z); (b "kcal", (-30)%Z)];
     [(b "kcal", (-50)%Z); (b "fat", (-2)%Z); (b "kcal", 5%Z); (b "bread", 3%Z)]].
Proof. vm_compute. reflexivity. Qed.

(** the three re-implementations select the same values *)
Example ex_single_contributions :
  map (single_contributions ZNum ex_db (b "kcal")) ex_L
  = [[(b "kcal", 100%Z); (b "kcal", (-30)%Z)]; [(b "kcal", (-50)%Z); (b "kcal", 5%Z)]].
Proof. vm_compute. reflexivity. Qed.

Example ex_bal_single_contributions :   (* other keys, same values *)
  map (bal_single_contributions ZNum ex_db (b "kcal")) ex_L
  = [[(b "soup", 100%Z); (b "kcal", (-30)%Z)]; [(b "soup", (-50)%Z); (b "kcal", 5%Z)]].
Proof. vm_compute. reflexivity. Qed.

(** the figures *)
Example ex_period_row :
  period_row ZNum ex_π (fun _ => ex_π) ex_db (b "kcal") ex_L = Some (105%Z, (-80)%Z).
Proof. vm_compute. reflexivity. Qed.

Example ex_day_rows :
  map (day_row ZNum ex_c ex_π ex_db (b "kcal")) ex_L = [Some (100%Z, (-30)%Z); Some (5%Z, (-50)%Z)].
Proof. vm_compute. reflexivity. Qed.

Example ex_single_rows :
  map (single_row ZNum ex_db (b "kcal")) ex_L = [Some (Some (100%Z, (-30)%Z)); Some (Some (5%Z, (-50)%Z))].
Proof. vm_compute. reflexivity. Qed.

Example ex_bal_single_total :
  bal_single_grand_total ZNum ex_c (fun _ => ex_π) ex_db ex_L = 25%Z.
Proof. vm_compute. reflexivity. Qed.

(** a day in which the element does not occur: no row in either report, counted as zero *)
Example ex_absent_day :
  day_row ZNum ex_c ex_π ex_db (b "bread") ex_day1 = None
  /\ single_row ZNum ex_db (b "bread") ex_day1 = None
  /\ period_row ZNum ex_π (fun _ => ex_π) ex_db (b "bread") ex_L = Some (3%Z, 0%Z).
Proof. vm_compute. repeat split; reflexivity. Qed.

(** the theorems' hypotheses hold of this input, and their two sides are the figures above *)
Example ex_totals_eq_sum_daily :
  period_row ZNum ex_π (fun _ => ex_π) ex_db (b "kcal") ex_L
  = Some (sum ZNum (map (day_pos ZNum ex_c ex_π ex_db (b "kcal")) ex_L),
          sum ZNum (map (day_neg ZNum ex_c ex_π ex_db (b "kcal")) ex_L))
  /\ sum ZNum (map (day_pos ZNum ex_c ex_π ex_db (b "kcal")) ex_L) = (100 + 5)%Z
  /\ sum ZNum (map (day_neg ZNum ex_c ex_π ex_db (b "kcal")) ex_L) = (-30 + -50)%Z.
Proof.
  split; [|vm_compute; split; reflexivity].
  rewrite (totals_eq_sum_daily ZNum ZNum_AddMonoid ex_c ex_π ex_π (fun _ => ex_π) ex_db (b "kcal") ex_L
             eq_refl ex_π_perm ex_π_perm).
  reflexivity.
Qed.

Example ex_totals_eq_sum_single :
  period_row ZNum ex_π (fun _ => ex_π) ex_db (b "kcal") ex_L
  = Some (sum ZNum (map (single_pos ZNum ex_db (b "kcal")) ex_L),
          sum ZNum (map (single_neg ZNum ex_db (b "kcal")) ex_L)).
Proof.
  destruct (totals_eq_sum_single ZNum ZNum_AddMonoid ex_c ex_π ex_π (fun _ => ex_π) ex_db (b "kcal") ex_L
              eq_refl ex_π_perm ex_π_perm) as [_ H].
  rewrite H. reflexivity.
Qed.

Example ex_bal_single_total_eq_totals :
  bal_single_grand_total ZNum ex_c (fun _ => ex_π) ex_db ex_L = (105 + -80)%Z.
Proof.
  rewrite (bal_single_total_eq_totals ZNum ZNum_AddMonoid ex_c ex_π (fun _ => ex_π) (fun _ => ex_π) ex_db ex_L ex_π_perm).
  vm_compute. reflexivity.
Qed.

(** [reg -s kcal -g] (by food) counts the element logged directly, under its own name (fix F26; before,
    it ignored it and its rows added up to 100 - 50 = 50, not to the period total 25) *)
Example ex_byfood_counts_direct :
  sum ZNum (map (row_sum ZNum) (byfood_rows ZNum ex_c ex_π (fun _ => ex_π) ex_db ex_L)) = 25%Z
  /\ byfood_contributions ZNum ex_db (b "kcal") ex_day1 = [(b "soup", 100%Z); (b "kcal", (-30)%Z)].
Proof. vm_compute. split; reflexivity. Qed.

(** ... the period total *)
Example ex_byfood_total :
  sum ZNum (map (row_sum ZNum) (byfood_rows ZNum ex_c ex_π (fun _ => ex_π) ex_db ex_L)) = (105 + -80)%Z
  /\ period_row ZNum ex_π (fun _ => ex_π) ex_db (b "kcal") ex_L = Some (105%Z, (-80)%Z).
Proof.
  split; [|vm_compute; reflexivity].
  rewrite (byfood_total ZNum ZNum_AddMonoid ex_c ex_π ex_π (fun _ => ex_π) (fun _ => ex_π) ex_db ex_L ex_π_perm ex_π_perm).
  vm_compute. reflexivity.
Qed.

(** * binary64: what survives without the laws, and what does not *)

Definition f01 : T B64 := SpecFloat.S754_finite false 7205759403792794 (-56).   (* 0.1 *)
Definition f02 : T B64 := SpecFloat.S754_finite false 7205759403792794 (-55).   (* 0.2 *)
Definition f03 : T B64 := SpecFloat.S754_finite false 5404319552844595 (-54).   (* 0.3 *)

Example f_lexemes : (of_lexeme B64 (b "0.1"), of_lexeme B64 (b "0.2"), of_lexeme B64 (b "0.3")) = (Some f01, Some f02, Some f03).
Proof. vm_compute. reflexivity. Qed.

Definition fx_db : list (bytes * elements B64) := [(b "f", [(b "x", one B64)])].
Definition fx_day1 : lognode B64 :=
  {| ln_time := time_of_civil (2024, 1, 1)%Z; ln_elems := ([(b "x", f01)] : elements B64); ln_meta := None |}.
Definition fx_day2 : lognode B64 :=
  {| ln_time := time_of_civil (2024, 1, 2)%Z; ln_elems := ([(b "x", f02); (b "f", f03)] : elements B64); ln_meta := None |}.
Definition fx_L := [fx_day1; fx_day2].

(** the day-level agreement is law-free, so it holds of floats *)
Example fx_single_row_is_day_row :
  map (single_row B64 fx_db (b "x")) fx_L = map (fun ln => option_map Some (day_row B64 ex_c ex_π fx_db (b "x") ln)) fx_L
  /\ single_row B64 fx_db (b "x") fx_day2 = Some (Some (f_add f02 f03, f_zero)).
Proof.
  split; [|vm_compute; reflexivity].
  apply map_ext. intros ln. apply (single_row_is_day_row_perm B64 ex_c ex_π fx_db (b "x") ln eq_refl ex_π_perm).
Qed.

(** the period-level agreement is not: (0.1 + 0.2) + 0.3 is not 0.1 + (0.2 + 0.3) in binary64, so
    the period total 0.6000000000000001 differs from the sum 0.6 of the two daily totals.  The
    [AddMonoid] hypothesis of [totals_eq_sum_daily] cannot be dropped. *)
Example fx_period_total_differs_from_sum_of_daily :
  fst_or_zero B64 (period_row B64 ex_π (fun _ => ex_π) fx_db (b "x") fx_L)
  <> sum B64 (map (day_pos B64 ex_c ex_π fx_db (b "x")) fx_L).
Proof. vm_compute. discriminate. Qed.

Example fx_the_two_figures :
  fst_or_zero B64 (period_row B64 ex_π (fun _ => ex_π) fx_db (b "x") fx_L) = f_add (f_add f01 f02) f03
  /\ sum B64 (map (day_pos B64 ex_c ex_π fx_db (b "x")) fx_L) = f_add f01 (f_add f02 f03).
Proof. vm_compute. split; reflexivity. Qed.
