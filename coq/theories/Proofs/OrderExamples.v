(** WP19 / C05, part 5: non-vacuity.  A concrete world (exact integers,
    [ZNum]) in which the oracles are really consulted and really differ, and in
    which every command prints the same bytes under the identity, the
    reversing and a rotating oracle bundle. *)
From Coq Require Import Lia Permutation.
From HP Require Import Base.Bytes Base.Num Model.Scanner Model.Elements Model.Resolver Model.Tree Model.Writer
  Model.Dates Model.Parser Model.Reporters Model.Cli.
From HP Require Import Spec.ResolverSpec Spec.TreeShared.
From HP Require Import Proofs.OrderSort Proofs.OrderSites Proofs.OrderInv Proofs.OrderRun.

Definition nl : bytes := [c_lf].

(** three foods with EQUAL total quantity (apple, pear, zucchini: 3 each), one recipe (soup) *)
Definition ex_log : bytes :=
  b "2021/01/01:" ++ nl ++ b "  - pear: 2" ++ nl ++ b "  - apple: 2" ++ nl ++ b "  - soup: 1" ++ nl ++
  b "2021/01/02:" ++ nl ++ b "  - zucchini: 3" ++ nl ++ b "  - apple: 1" ++ nl ++ b "  - pear: 1" ++ nl.

Definition ex_db : bytes :=
  b "soup:" ++ nl ++ b "  - water: 2" ++ nl ++ b "  - salt: 1" ++ nl ++ b "  - broth: 1" ++ nl ++
  b "broth:" ++ nl ++ b "  - water: 3" ++ nl ++ b "  - fat/animal: 1" ++ nl.

Definition ex_world (o : oracles) (sink : option nat) : world :=
  {| w_fs := [(b "food.yaml", FFile ex_db); (b "log.yaml", FFile ex_log)];
     w_default_config := b "/home/u/.hranoprovod/config"; w_tz := 0%Z;
     w_clock := time_of_civil (2021, 1, 5)%Z; w_or := o; w_sink := sink; w_read_fault := [] |}.

Definition ex_inv (c : command) (desc : bool) : invocation :=
  {| i_f_db := None; i_e_db := None; i_f_log := None; i_e_log := None; i_f_fmt := None; i_e_fmt := None;
     i_f_depth := None; i_e_depth := None; i_f_today := None; i_f_config := None; i_e_config := None;
     i_no_database := false; i_g_begin := None; i_g_end := None; i_l_begin := None; i_l_end := None;
     i_g_no_color := true; i_l_no_color := false; i_single_food := []; i_single_element := [];
     i_group_food := false; i_csv := false; i_no_totals := false; i_totals_only := false;
     i_shorten := false; i_old := false; i_template := None; i_collapse := false; i_collapse_last := false;
     i_desc := desc; i_silent := false; i_cmd := c |}.

(** the example world is an instance of [with_or] *)
Example ex_world_with_or : forall o s, ex_world o s = with_or (ex_world id_oracles s) o.
Proof. reflexivity. Qed.

(** ** report quantity: three equal quantities; ties come out in name order under every oracle *)
Example quantity_id :
  out_stdout (run ZNum (ex_world id_oracles None) (ex_inv CQuantity false))
  = b "1" ++ [c_tab] ++ b "soup" ++ nl ++ b "3" ++ [c_tab] ++ b "apple" ++ nl
    ++ b "3" ++ [c_tab] ++ b "pear" ++ nl ++ b "3" ++ [c_tab] ++ b "zucchini" ++ nl.
Proof. vm_compute. reflexivity. Qed.

Example quantity_id_rev :
  run ZNum (ex_world id_oracles None) (ex_inv CQuantity false)
  = run ZNum (ex_world rev_oracles None) (ex_inv CQuantity false).
Proof. vm_compute. reflexivity. Qed.

Example quantity_desc_id_rot :
  run ZNum (ex_world id_oracles None) (ex_inv CQuantity true)
  = run ZNum (ex_world (rot_oracles 1) None) (ex_inv CQuantity true).
Proof. vm_compute. reflexivity. Qed.

(** the oracle is really consulted at this site and really makes a difference
    before the sort: the quantity map of this log has the keys pear, apple,
    soup, zucchini; without the sort the rows would come out differently *)
Definition ex_qty_state : elements ZNum :=
  fold_left (fun a nv => qty_add ZNum (fst nv) (snd nv) a)
    ([(b "pear", 2%Z); (b "apple", 2%Z); (b "soup", 1%Z)] ++ [(b "zucchini", 3%Z); (b "apple", 1%Z); (b "pear", 1%Z)]) [].

Example ex_qty_keys : keys ex_qty_state = [b "pear"; b "apple"; b "soup"; b "zucchini"].
Proof. vm_compute. reflexivity. Qed.

Example oracle_matters_before_sort :
  o_flush rev_oracles (keys ex_qty_state) <> o_flush id_oracles (keys ex_qty_state)
  /\ sort_bytes (o_flush rev_oracles (keys ex_qty_state)) = sort_bytes (o_flush id_oracles (keys ex_qty_state)).
Proof. split; [vm_compute; discriminate|vm_compute; reflexivity]. Qed.

(** ** report unresolved: three names, one resolved recipe left out *)
Example unresolved_id :
  out_stdout (run ZNum (ex_world id_oracles None) (ex_inv CUnresolved false))
  = b "apple" ++ nl ++ b "pear" ++ nl ++ b "zucchini" ++ nl.
Proof. vm_compute. reflexivity. Qed.

Example unresolved_id_rev :
  run ZNum (ex_world id_oracles None) (ex_inv CUnresolved false)
  = run ZNum (ex_world rev_oracles None) (ex_inv CUnresolved false).
Proof. vm_compute. reflexivity. Qed.

(** ** every other command that reads an oracle, under three bundles, with a
       sink that never fails and with one that fails after 40 bytes (status
       [Failed EWrite] for the longer reports) *)
Definition ex_commands : list command :=
  [CReg; CBal; CUnresolved; CQuantity; CTotals; CCsvDbResolved; CElementTotal (b "water");
   CSummary (b "2021/01/01"); CCsvLog; CPrint; CCsvDb; CStats; CLint (b "log.yaml")].

Definition ex_outcomes (o : oracles) (sink : option nat) : list outcome :=
  map (fun c => run ZNum (ex_world o sink) (ex_inv c false)) ex_commands.

Example all_commands_id_rev_rot :
  ex_outcomes id_oracles None = ex_outcomes rev_oracles None /\
  ex_outcomes id_oracles None = ex_outcomes (rot_oracles 2) None /\
  ex_outcomes id_oracles (Some 40%nat) = ex_outcomes rev_oracles (Some 40%nat).
Proof. repeat split; vm_compute; reflexivity. Qed.

Example failing_sink_fails :
  out_status (run ZNum (ex_world rev_oracles (Some 40%nat)) (ex_inv CReg false)) = Failed EWrite.
Proof. vm_compute. reflexivity. Qed.

(** ** the hypotheses of the main theorem are met here *)
Example ex_oracles_ok : oracles_ok id_oracles /\ oracles_ok rev_oracles /\ oracles_ok (rot_oracles 1).
Proof. repeat split; intros; first [apply order_oracle_id|apply order_oracle_rev|apply order_oracle_rot]. Qed.

(** the resolver premise, on this book, by computation: same resolved book
    whichever way round the two recipes are visited, and the book has unique keys *)
Definition ex_book : Resolver.db ZNum := fst (load_db ZNum (OData ex_db NoFault)).

Example ex_book_keys : keys ex_book = [b "soup"; b "broth"].
Proof. vm_compute. reflexivity. Qed.

Example ex_resolver_premise :
  resolve ZNum 10 (o_resolve id_oracles) ex_book = resolve ZNum 10 (o_resolve rev_oracles) ex_book
  /\ resolve ZNum 10 (o_resolve id_oracles) ex_book <> None.
Proof. split; [vm_compute; reflexivity|vm_compute; discriminate]. Qed.

(** a database file that defines the same recipe twice: the map keeps one key *)
Example duplicate_heading_one_key :
  keys (fst (load_db ZNum (OData (b "a:" ++ nl ++ b "  - x: 1" ++ nl ++ b "b:" ++ nl ++ b "  - y: 1" ++ nl
                                  ++ b "a:" ++ nl ++ b "  - z: 2" ++ nl) NoFault)))
  = [b "a"; b "b"].
Proof. vm_compute. reflexivity. Qed.

(** ** trees: the balance tree of the example (fat/animal makes a two-level
       path) printed under two oracles, and the well-formedness invariant *)
Definition ex_tree : tree ZNum :=
  tree_add_all ZNum (tree_add_all ZNum (empty_root ZNum)
     [(b "pear", 2%Z); (b "apple", 2%Z); (b "fat/animal", 1%Z); (b "fat/plant", 1%Z)])
     [(b "zucchini", 3%Z); (b "apple", 1%Z)].

Example ex_tree_orders :
  order_tree ZNum (@rev bytes) ex_tree = order_tree ZNum (fun l => l) ex_tree
  /\ map (t_name ZNum) (t_children ZNum (order_tree ZNum (@rev bytes) ex_tree))
     = [b "apple"; b "fat"; b "pear"; b "zucchini"]
  /\ map (t_name ZNum) (t_children ZNum ex_tree) = [b "pear"; b "apple"; b "fat"; b "zucchini"].
Proof. repeat split; vm_compute; reflexivity. Qed.

Example ex_tree_wf : wf_tree ZNum ex_tree.
Proof. unfold ex_tree. apply tree_add_all_wf, tree_add_all_wf, empty_root_wf. Qed.

(** ** the clock: [run_deterministic] needs "--today given"; the premise is not
       superfluous (without it [stats] prints the clock's date) and it is met
       by an ordinary invocation *)
Definition ex_inv_today (c : command) (today : option bytes) : invocation :=
  {| i_f_db := None; i_e_db := None; i_f_log := None; i_e_log := None; i_f_fmt := None; i_e_fmt := None;
     i_f_depth := None; i_e_depth := None; i_f_today := today; i_f_config := None; i_e_config := None;
     i_no_database := false; i_g_begin := None; i_g_end := None; i_l_begin := Some (b "yesterday"); i_l_end := None;
     i_g_no_color := true; i_l_no_color := false; i_single_food := []; i_single_element := [];
     i_group_food := false; i_csv := false; i_no_totals := false; i_totals_only := false;
     i_shorten := false; i_old := false; i_template := None; i_collapse := false; i_collapse_last := false;
     i_desc := false; i_silent := false; i_cmd := c |}.

Example clock_matters_without_today :
  run ZNum (with_clock (ex_world id_oracles None) (time_of_civil (2021, 1, 2)%Z)) (ex_inv_today CStats None)
  <> run ZNum (with_clock (ex_world id_oracles None) (time_of_civil (2021, 1, 9)%Z)) (ex_inv_today CStats None).
Proof. vm_compute. discriminate. Qed.

Example clock_and_orders_irrelevant_with_today :
  map (fun c => run ZNum (with_clock (ex_world id_oracles None) (time_of_civil (2021, 1, 2)%Z))
                  (ex_inv_today c (Some (b "2021/01/03")))) ex_commands
  = map (fun c => run ZNum (with_clock (ex_world rev_oracles None) (time_of_civil (2030, 6, 9)%Z))
                  (ex_inv_today c (Some (b "2021/01/03")))) ex_commands
  /\ out_stdout (run ZNum (with_clock (ex_world rev_oracles None) (time_of_civil (2030, 6, 9)%Z))
                   (ex_inv_today CQuantity (Some (b "2021/01/03"))))
     = b "1" ++ [c_tab] ++ b "apple" ++ nl ++ b "1" ++ [c_tab] ++ b "pear" ++ nl ++ b "3" ++ [c_tab] ++ b "zucchini" ++ nl.
Proof. split; vm_compute; reflexivity. Qed.
