(** C15, layout: (2) the default output of a day is the no-totals and the
    totals-only outputs interleaved; (3) the default template, the left-aligned
    template and the old reporter are three layouts of the same [report_item]
    through one generic renderer that hands each number to [format_value]. *)
From Coq Require Import Lia.
From HP Require Import Base.Bytes Base.Utf8 Base.Num Model.Elements Model.Dates Model.Tree Model.Writer
  Model.Reporters Spec.PresentationSpec.
Local Open Scope N_scope.

Lemma flat_map_flat_map : forall {A B C} (f : B -> list C) (g : A -> list B) (l : list A),
  flat_map f (flat_map g l) = flat_map (fun x => flat_map f (g x)) l.
Proof.
  intros A B C f g l. induction l as [|a l IH]; [reflexivity|].
  cbn [flat_map]. rewrite flat_map_app, IH. reflexivity.
Qed.

Lemma flat_map_map : forall {A B C} (f : B -> list C) (g : A -> B) (l : list A),
  flat_map f (map g l) = flat_map (fun x => f (g x)) l.
Proof.
  intros A B C f g l. induction l as [|a l IH]; [reflexivity|].
  cbn [flat_map map]. rewrite IH. reflexivity.
Qed.

Lemma chunk_bytes_app : forall a c, chunk_bytes (a ++ c) = chunk_bytes a ++ chunk_bytes c.
Proof. intros a c. unfold chunk_bytes. rewrite map_app, concat_app. reflexivity. Qed.

Lemma chunk_bytes_map : forall {A} (f : A -> bytes) (flag : bool) (l : list A),
  chunk_bytes (map (fun x => (f x, flag)) l) = flat_map f l.
Proof.
  intros A f flag l. unfold chunk_bytes. induction l as [|a l IH]; [reflexivity|].
  cbn [map concat flat_map fst]. rewrite IH. reflexivity.
Qed.

Lemma chunk_bytes_flat_map : forall {A} (f : A -> list chunk) (l : list A),
  chunk_bytes (flat_map f l) = flat_map (fun x => chunk_bytes (f x)) l.
Proof.
  intros A f l. induction l as [|a l IH]; [reflexivity|].
  cbn [flat_map]. rewrite chunk_bytes_app, IH. reflexivity.
Qed.

Section Layout.
  Context (NM : Num).
  Notation T := (T NM).
  Notation elements := (elements NM).
  Notation db := (list (bytes * elements)).

  (** *** 3. one renderer, three layouts *)
  Lemma render_default_with : forall (c : rconfig) (it : report_item NM),
    render_default NM c it = render_with NM (layout_default) c it.
  Proof.
    intros c it. unfold render_default, render_with. cbn [layout_default ly_date ly_food ly_ing ly_header ly_total ly_end].
    f_equal. f_equal.
    - apply flat_map_ext. intros [[name v] ings]. cbn [fst snd]. rewrite <- !app_assoc. reflexivity.
    - f_equal. destruct (ri_totals NM it) as [ts|]; [|reflexivity].
      rewrite <- !app_assoc. f_equal. f_equal.
      apply flat_map_ext. intros [[[name p] n] s]. reflexivity.
  Qed.

  Lemma render_left_with : forall (c : rconfig) (it : report_item NM),
    render_left NM c it = render_with NM (layout_left) c it.
  Proof.
    intros c it. unfold render_left, render_with. cbn [layout_left ly_date ly_food ly_ing ly_header ly_total ly_end].
    f_equal. f_equal.
    - apply flat_map_ext. intros [[name v] ings]. cbn [fst snd]. rewrite <- !app_assoc. reflexivity.
    - f_equal. destruct (ri_totals NM it) as [ts|]; [|reflexivity].
      rewrite <- !app_assoc. f_equal. f_equal.
      apply flat_map_ext. intros [[[name p] n] s]. reflexivity.
  Qed.

  Theorem templates_same_rows : forall (c : rconfig) (it : report_item NM),
    render_default NM c it = render_with NM (layout_default) c it
    /\ render_left NM c it = render_with NM (layout_left) c it.
  Proof. intros c it. split; [apply render_default_with|apply render_left_with]. Qed.

  (** what [regReporterTemplate] writes for a day: the chosen layout of [get_report_item] *)
  Theorem templates_same_rows_process : forall (c : rconfig) (d : db) perm st (ln : lognode NM),
    process_bytes NM (rep_template NM c d) perm st ln
    = render_with NM (if beq (rc_template c) (b "left-aligned") then layout_left else layout_default) c
        (get_report_item NM c perm d ln).
  Proof.
    intros c d perm st ln. unfold process_bytes, process_chunks, rep_template.
    cbn [r_process fst snd chunk_bytes map concat checked]. rewrite app_nil_r.
    destruct (beq (rc_template c) (b "left-aligned")); [apply render_left_with|apply render_default_with].
  Qed.

  (** the old reporter's own accounting *)
  Lemma totals_of_acc_nil : forall perm, totals_of_acc NM perm [] = [].
  Proof.
    intros perm. unfold totals_of_acc.
    generalize (sort_bytes (perm (keys (@nil (bytes * (T * T)))))). intros l.
    induction l as [|x l IH]; [reflexivity|]. cbn [map lookup filter_some]. exact IH.
  Qed.

  Lemma old_rows_item : forall (c : rconfig) perm (d : db) (ln : lognode NM),
    chunk_bytes (old_rows NM c d ln)
    = flat_map (fun e => ly_food (layout_old true) (rc_shorten c) (fst (fst e)) (format_value NM (rc_color c) (snd (fst e)))
                         ++ flat_map (fun i => ly_ing (layout_old true) (rc_shorten c) (fst i)
                                                 (format_value NM (rc_color c) (snd i))) (snd e))
        (ri_elements NM (get_report_item NM c perm d ln)).
  Proof.
    intros c perm d ln. unfold old_rows, get_report_item. cbn [ri_elements].
    rewrite chunk_bytes_flat_map.
    destruct (rc_totals_only c).
    - cbn [app flat_map]. induction (ln_elems NM ln) as [|[name v] l IH]; [reflexivity|].
      cbn [flat_map]. exact IH.
    - unfold report_elements. rewrite flat_map_map. apply flat_map_ext. intros [name v].
      cbn [fst snd layout_old ly_food ly_ing]. rewrite chunk_bytes_app.
      unfold unchecked. rewrite (chunk_bytes_map _ false). unfold chunk_bytes. cbn [map concat fst].
      rewrite app_nil_r. reflexivity.
  Qed.

  Lemma old_totals_item : forall (c : rconfig) perm (d : db) (ln : lognode NM),
    chunk_bytes (old_totals NM c perm d ln)
    = match ri_totals NM (get_report_item NM c perm d ln) with
      | None => []
      | Some ts =>
          ly_header (layout_old (day_has_contributions NM d ln))
          ++ flat_map (fun t => ly_total (layout_old true) (rc_shorten c) (fst (fst (fst t)))
                                  (format_value NM (rc_color c) (snd (fst (fst t))))
                                  (format_value NM (rc_color c) (snd (fst t)))
                                  (format_value NM (rc_color c) (snd t))) ts
      end.
  Proof.
    intros c perm d ln. unfold old_totals, get_report_item, day_has_contributions. cbn [ri_totals].
    destruct (rc_totals c); [|reflexivity].
    destruct (accumulate NM (contributions NM d ln)) as [|a0 acc] eqn:Eacc.
    - rewrite totals_of_acc_nil. reflexivity.
    - cbn [layout_old ly_header ly_total].
      change (unchecked (total_header_default ++ [c_lf]) :: ?l) with ([unchecked (total_header_default ++ [c_lf])] ++ l).
      rewrite chunk_bytes_app. f_equal.
      unfold chunk_bytes. generalize (totals_of_acc NM perm (a0 :: acc)). intros l.
      induction l as [|[[[name p] n] s] l IH]; [reflexivity|].
      cbn [map concat flat_map fst snd unchecked]. rewrite IH. reflexivity.
  Qed.

  (** all bytes the old reporter writes for a day = the old layout of the SAME
      [report_item] the templates render *)
  Theorem templates_same_rows_old : forall (c : rconfig) (d : db) perm st (ln : lognode NM),
    process_bytes NM (rep_old NM c d) perm st ln
    = render_with NM (layout_old (day_has_contributions NM d ln)) c (get_report_item NM c perm d ln).
  Proof.
    intros c d perm st ln. unfold process_bytes, process_chunks, rep_old. cbn [r_process fst snd].
    change (unchecked (fdate c (ln_time NM ln) ++ [c_lf]) :: ?l)
      with ([unchecked (fdate c (ln_time NM ln) ++ [c_lf])] ++ l).
    rewrite !chunk_bytes_app, (old_rows_item c perm), old_totals_item.
    unfold render_with. cbn [layout_old ly_date ly_end ly_food ly_ing ly_total].
    rewrite app_nil_r. f_equal.
    unfold chunk_bytes. cbn [map concat fst unchecked]. rewrite app_nil_r. reflexivity.
  Qed.

  (** the generic renderer passes exactly [numbers_of_item], in order, through [format_value] *)
  Theorem render_with_numbers : forall (c : rconfig) (it : report_item NM),
    render_with NM (layout_trace) c it = flat_map (format_value NM (rc_color c)) (numbers_of_item NM it).
  Proof.
    intros c it. unfold render_with, numbers_of_item.
    cbn [layout_trace ly_date ly_food ly_ing ly_header ly_total ly_end app].
    rewrite app_nil_r, flat_map_app. f_equal.
    - rewrite flat_map_flat_map. apply flat_map_ext. intros [[name v] ings].
      cbn [fst snd flat_map]. f_equal. rewrite flat_map_map. reflexivity.
    - destruct (ri_totals NM it) as [ts|]; [|reflexivity].
      rewrite flat_map_flat_map. apply flat_map_ext. intros [[[name p] n] s].
      cbn [fst snd flat_map]. rewrite app_nil_r. reflexivity.
  Qed.

  (** *** 2. totals switches: default = no-totals and totals-only interleaved *)
  Theorem default_is_interleave_explicit : forall (c : rconfig) perm (d : db) (ln : lognode NM),
    let D := fdate c (ln_time NM ln) in
    let E := day_entries_default NM c d ln in
    let Tt := day_totals_default NM c perm d ln in
    render_default NM (set_totals c true false) (get_report_item NM (set_totals c true false) perm d ln)
      = D ++ E ++ Tt ++ [c_lf]
    /\ render_default NM (set_totals c false false) (get_report_item NM (set_totals c false false) perm d ln)
      = D ++ E ++ [c_lf]
    /\ render_default NM (set_totals c true true) (get_report_item NM (set_totals c true true) perm d ln)
      = D ++ Tt ++ [c_lf]
    /\ render_default NM (set_totals c false true) (get_report_item NM (set_totals c false true) perm d ln)
      = D ++ [c_lf].
  Proof. intros c perm d ln. cbv zeta. repeat split. Qed.

  Theorem default_is_interleave : forall (c : rconfig) perm (d : db) (ln : lognode NM),
    exists E Tt : bytes,
      let D := fdate c (ln_time NM ln) in
      render_default NM (set_totals c true false) (get_report_item NM (set_totals c true false) perm d ln)
        = D ++ E ++ Tt ++ [c_lf]
      /\ render_default NM (set_totals c false false) (get_report_item NM (set_totals c false false) perm d ln)
        = D ++ E ++ [c_lf]
      /\ render_default NM (set_totals c true true) (get_report_item NM (set_totals c true true) perm d ln)
        = D ++ Tt ++ [c_lf].
  Proof.
    intros c perm d ln. exists (day_entries_default NM c d ln), (day_totals_default NM c perm d ln).
    cbv zeta. repeat split.
  Qed.

  Theorem left_is_interleave_explicit : forall (c : rconfig) perm (d : db) (ln : lognode NM),
    let D := fdate c (ln_time NM ln) in
    let E := day_entries_left NM c d ln in
    let Tt := day_totals_left NM c perm d ln in
    render_left NM (set_totals c true false) (get_report_item NM (set_totals c true false) perm d ln)
      = D ++ E ++ Tt ++ [c_lf]
    /\ render_left NM (set_totals c false false) (get_report_item NM (set_totals c false false) perm d ln)
      = D ++ E ++ [c_lf]
    /\ render_left NM (set_totals c true true) (get_report_item NM (set_totals c true true) perm d ln)
      = D ++ Tt ++ [c_lf]
    /\ render_left NM (set_totals c false true) (get_report_item NM (set_totals c false true) perm d ln)
      = D ++ [c_lf].
  Proof. intros c perm d ln. cbv zeta. repeat split. Qed.

  Theorem left_is_interleave : forall (c : rconfig) perm (d : db) (ln : lognode NM),
    exists E Tt : bytes,
      let D := fdate c (ln_time NM ln) in
      render_left NM (set_totals c true false) (get_report_item NM (set_totals c true false) perm d ln)
        = D ++ E ++ Tt ++ [c_lf]
      /\ render_left NM (set_totals c false false) (get_report_item NM (set_totals c false false) perm d ln)
        = D ++ E ++ [c_lf]
      /\ render_left NM (set_totals c true true) (get_report_item NM (set_totals c true true) perm d ln)
        = D ++ Tt ++ [c_lf].
  Proof.
    intros c perm d ln. exists (day_entries_left NM c d ln), (day_totals_left NM c perm d ln).
    cbv zeta. repeat split.
  Qed.

  (** the old reporter: chunk lists (date chunk, row chunks, total chunks) *)
  Lemma old_rows_totals_only : forall (c : rconfig) (d : db) (ln : lognode NM),
    rc_totals_only c = true -> old_rows NM c d ln = [].
  Proof.
    intros c d ln H. unfold old_rows. rewrite H.
    induction (ln_elems NM ln) as [|[name v] l IH]; [reflexivity|]. cbn [flat_map app]. exact IH.
  Qed.

  Theorem old_is_interleave : forall (c : rconfig) (d : db) perm st (ln : lognode NM),
    let Dc := unchecked (fdate c (ln_time NM ln) ++ [c_lf]) in
    let Ec := old_rows NM (set_totals c true false) d ln in
    let Tc := old_totals NM (set_totals c true false) perm d ln in
    process_chunks NM (rep_old NM (set_totals c true false) d) perm st ln = Dc :: Ec ++ Tc
    /\ process_chunks NM (rep_old NM (set_totals c false false) d) perm st ln = Dc :: Ec
    /\ process_chunks NM (rep_old NM (set_totals c true true) d) perm st ln = Dc :: Tc
    /\ process_chunks NM (rep_old NM (set_totals c false true) d) perm st ln = [Dc].
  Proof.
    intros c d perm st ln. cbv zeta. unfold process_chunks, rep_old. cbn [r_process fst snd].
    repeat split.
    - change (old_totals NM (set_totals c false false) perm d ln) with (@nil chunk).
      rewrite app_nil_r. reflexivity.
    - rewrite (old_rows_totals_only (set_totals c true true)) by reflexivity. reflexivity.
    - rewrite (old_rows_totals_only (set_totals c false true)) by reflexivity. reflexivity.
  Qed.
End Layout.

(** *** non-vacuity *)
Definition exl_db : list (bytes * elements ZNum) :=
  [(b "soup", [(b "kcal", 150%Z); (b "salt", 2%Z)])].
Definition exl_ln : lognode ZNum :=
  Build_lognode ZNum {| inst := 0; off := 0; civ := (2024, 3, 1)%Z |} [(b "soup", 2%Z); (b "walk", (-3)%Z)] None.
Definition exl_cfg : rconfig :=
  {| rc_color := true; rc_totals_only := false; rc_totals := true;
     rc_date := [Y4; Lit 47; M2; Lit 47; D2];
     rc_single_element := []; rc_single_food := []; rc_collapse_last := false; rc_collapse := false;
     rc_group_food := false; rc_shorten := true; rc_old := false; rc_template := b "default"; rc_csv := false |}.

(** entries and totals are both non-empty here and the three outputs differ *)
Example exl_interleave :
  day_entries_default ZNum exl_cfg exl_db exl_ln <> []
  /\ day_totals_default ZNum exl_cfg (fun l => l) exl_db exl_ln <> []
  /\ numbers_of_item ZNum (get_report_item ZNum exl_cfg (fun l => l) exl_db exl_ln)
     = [2; 300; 4; -3; -3; 300; 0; 300; 4; 0; 4; 0; -3; -3]%Z.
Proof. vm_compute. repeat split; discriminate. Qed.

Example exl_old_same_item :
  process_bytes ZNum (rep_old ZNum exl_cfg exl_db) (fun l => l) tt exl_ln
  = render_with ZNum (layout_old true) exl_cfg (get_report_item ZNum exl_cfg (fun l => l) exl_db exl_ln).
Proof. vm_compute. reflexivity. Qed.
