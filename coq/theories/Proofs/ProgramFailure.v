(** WP25 (stretch): the register command under the negation of each "healthy" hypothesis:
    a file that does not open, a book that does not load or resolve, a malformed line in the log, a
    heading that is not a date - the error the command ends with and exactly what it has printed
    (the days before the failing record, nothing after). *)
From Coq Require Import Lia Permutation.
From HP Require Import Base.Bytes Base.Utf8 Base.Num Model.Scanner Model.Parser Model.Elements Model.Resolver
  Model.Dates Model.Tree Model.Writer Model.Reporters Model.Cli.
From HP Require Import Spec.RegisterSpec Spec.ProgramSpec.
From HP Require Import Proofs.Register Proofs.MalformedBase Proofs.MalformedLog Proofs.PresentationFlags
  Proofs.ProgramRegister.

Section Failure.
  Context (NM : Num).
  Notation T := (T NM).
  Notation db := (list (bytes * list (bytes * T))).

  (** *** the commands of the shape "resolve the book, walk the log": failures before the walk print nothing *)
  Lemma run_db_log_no_file : forall (w : world) (op : options) mk bt et,
    open_file w (op_db op) = None \/ open_file w (op_log op) = None ->
    run_db_log NM w op mk bt et = {| out_stdout := []; out_status := Failed EOpen |}.
  Proof.
    intros w op mk bt et H. unfold run_db_log. cbn [open_all].
    destruct (open_file w (op_db op)) as [odb|].
    - destruct H as [H|H]; [discriminate|]. rewrite H. reflexivity.
    - reflexivity.
  Qed.

  Lemma run_db_log_book_failure : forall (w : world) (op : options) mk bt et odb olog e,
    open_file w (op_db op) = Some odb -> open_file w (op_log op) = Some olog ->
    resolved_db NM w op odb = inl e ->
    run_db_log NM w op mk bt et = {| out_stdout := []; out_status := Failed e |}.
  Proof.
    intros w op mk bt et odb olog e H1 H2 H3. unfold run_db_log. cbn [open_all]. rewrite H1, H2. cbn [option_map].
    rewrite H3. reflexivity.
  Qed.

  Theorem program_no_file : forall (w : world) (i : invocation) (op : options),
    load w i = inr op -> In (i_cmd i) [CReg; CBal; CTotals; CUnresolved] ->
    open_file w (op_db op) = None \/ open_file w (op_log op) = None ->
    run NM w i = {| out_stdout := []; out_status := Failed EOpen |}.
  Proof.
    intros w i op Hload Hcmd H. unfold run. rewrite Hload.
    destruct Hcmd as [E|[E|[E|[E|[]]]]]; rewrite <- E; apply run_db_log_no_file; exact H.
  Qed.

  (** the book has a malformed line / cannot be read to its end / does not resolve within the depth:
      [resolved_db] says which ([Props/C09.v first_error_reported_book], [Props/C10.v], [Props/C11.v]) *)
  Theorem program_book_failure : forall (w : world) (i : invocation) (op : options) odb olog e,
    load w i = inr op -> In (i_cmd i) [CReg; CBal; CTotals; CUnresolved] ->
    open_file w (op_db op) = Some odb -> open_file w (op_log op) = Some olog ->
    resolved_db NM w op odb = inl e ->
    run NM w i = {| out_stdout := []; out_status := Failed e |}.
  Proof.
    intros w i op odb olog e Hload Hcmd H1 H2 H3. unfold run. rewrite Hload.
    destruct Hcmd as [E|[E|[E|[E|[]]]]]; rewrite <- E; apply (run_db_log_book_failure w op _ _ _ odb olog e H1 H2 H3).
  Qed.

  (** *** the walk of the template reporter over records that all carry a date *)
  Lemma nodes_of_fix : forall evs : list (event NM), MalformedBase.nodes_of NM evs = Agree2Spec.nodes_of NM evs.
  Proof.
    induction evs as [|[n|e] r IH]; [reflexivity| |]; unfold MalformedBase.nodes_of in *; cbn [flat_map Agree2Spec.nodes_of app];
      rewrite IH; reflexivity.
  Qed.

  Lemma walk_days_template : forall c (d : db) π toks bt et (ns : list (pnode NM)),
    (forall j : nat, oracle (π j)) ->
    Forall (dated NM toks) ns ->
    forall rs i,
      snd (walk_days NM (rep_template NM c d) π toks bt et ns rs i)
      = map (fun r => template_day_chunk NM c d (rec_time NM r) (rec_entries NM r)) (period_records NM toks bt et ns).
  Proof.
    intros c d π toks bt et ns Hπ Hd. induction Hd as [|n r Hn Hr IH]; intros rs i; [reflexivity|].
    cbn [walk_days]. unfold period_records. cbn [flat_map]. unfold in_period at 1.
    unfold dated in Hn. destruct (parse_date toks (header n)) as [cv|]; [|contradiction].
    destruct (in_interval bt et (time_of_civil cv)).
    - rewrite (template_process_spec NM c d (π i) rs (time_of_civil cv) (elems n) (meta n) (Hπ i)).
      specialize (IH tt (S i)).
      destruct (walk_days NM (rep_template NM c d) π toks bt et r tt (S i)) as [[rs'' i'] cs] eqn:E.
      cbn [snd] in *. cbn [app map]. rewrite IH. reflexivity.
    - apply IH.
  Qed.

  Section Run.
    Context (w : world) (i : invocation) (op : options) (odb : opened) (d : db) (ldata : bytes).
    Hypothesis Hload : load w i = inr op.
    Hypothesis Hsink : w_sink w = None.
    Hypothesis Hodb : open_file w (op_db op) = Some odb.
    Hypothesis Hres : resolved_db NM w op odb = inr d.
    Hypothesis Hlog : open_file w (op_log op) = Some (OData ldata NoFault).
    Hypothesis Hday : forall j : nat, oracle (o_day (w_or w) j).
    Hypothesis Hcmd : i_cmd i = CReg.
    Hypothesis Hse : i_single_element i = [].
    Hypothesis Hsf : i_single_food i = [].
    Hypothesis Hold : i_old i = false.

    Let c := op_rc op.
    Let toks := rc_date (op_rc op).

    Let Htoks : tokenize (op_fmt op) = Some toks.
    Proof. destruct (load_rc w i op Hload) as (tk & E & Ht). unfold toks. rewrite E. exact Ht. Qed.

    Let text (pre : list (event NM)) : bytes :=
      register_text NM c d (period_records NM toks (op_begin op) (op_end op) (Agree2Spec.nodes_of NM pre)).

    Let days_text_template : forall pre,
      Forall (dated NM toks) (MalformedBase.nodes_of NM pre) ->
      days_text NM (rep_template NM c d) (o_day (w_or w)) toks (op_begin op) (op_end op) pre = text pre.
    Proof.
      intros pre Hd. unfold days_text, text, register_text.
      rewrite (walk_days_template c d _ toks _ _ _ Hday Hd), nodes_of_fix.
      unfold chunk_bytes. rewrite map_map. reflexivity.
    Qed.

    Let Hmk : reg_reporter NM c d = rep_template NM c d.
    Proof. exact (reg_picks_template NM w i op d Hload Hse Hsf Hold). Qed.

    (** a malformed line in the log: the records before it are printed, then the command fails with
        that line's message (the first malformed line; every heading before it is a date) *)
    Theorem register_program_parse_error : forall pre e post,
      events NM ldata = pre ++ EErr e :: post ->
      errors_of NM pre = [] ->
      Forall (dated NM toks) (MalformedBase.nodes_of NM pre) ->
      run NM w i
      = {| out_stdout := register_text NM c d (period_records NM toks (op_begin op) (op_end op) (Agree2Spec.nodes_of NM pre));
           out_status := Failed (EParse (perr_message e)) |}.
    Proof.
      intros pre e post Hev Hpre Hd. unfold run. rewrite Hload, Hcmd. fold c.
      unfold run_db_log. cbn [open_all]. rewrite Hodb, Hlog. cbn [option_map]. rewrite Hres, Htoks.
      destruct (MalformedLog.new_writer_ok w Hsink) as [Hwr Hc].
      assert (Hproc : process_total NM (reg_reporter NM c d)) by (rewrite Hmk; apply total_template).
      destruct (walk_and_finish_first_error NM (reg_reporter NM c d) (o_day (w_or w)) (o_flush (w_or w)) toks
                  (op_begin op) (op_end op) Hproc ldata pre e post (new_writer w) Hev Hpre Hd Hwr) as (w3 & E3 & G3).
      rewrite E3. rewrite Hc in G3. cbn [app] in G3.
      revert G3. rewrite Hmk. intro G3. cbn [rep_template r_panic r_flush] in *.
      unfold finish, status_of. rewrite G3, (days_text_template pre Hd).
      unfold chunk_bytes. cbn [map concat]. rewrite app_nil_r. reflexivity.
    Qed.

    (** a heading that is not a date under the configured layout: the records before it are printed,
        then the command fails with the date error *)
    Theorem register_program_bad_date : forall pre n post,
      events NM ldata = pre ++ ENode n :: post ->
      errors_of NM pre = [] ->
      Forall (dated NM toks) (MalformedBase.nodes_of NM pre) ->
      parse_date toks (header n) = None ->
      post <> [] \/ snd (scan ldata NoFault) = ScanEOF ->
      run NM w i
      = {| out_stdout := register_text NM c d (period_records NM toks (op_begin op) (op_end op) (Agree2Spec.nodes_of NM pre));
           out_status := Failed EBadDate |}.
    Proof.
      intros pre n post Hev Hpre Hd Hbad Hpost. unfold run. rewrite Hload, Hcmd. fold c.
      unfold run_db_log. cbn [open_all]. rewrite Hodb, Hlog. cbn [option_map]. rewrite Hres, Htoks.
      destruct (MalformedLog.new_writer_ok w Hsink) as [Hwr Hc].
      assert (Hproc : process_total NM (reg_reporter NM c d)) by (rewrite Hmk; apply total_template).
      destruct (walk_and_finish_bad_date NM (reg_reporter NM c d) (o_day (w_or w)) (o_flush (w_or w)) toks
                  (op_begin op) (op_end op) Hproc ldata pre n post (new_writer w) Hev Hpre Hd Hbad Hpost Hwr)
        as (w3 & E3 & G3).
      rewrite E3. rewrite Hc in G3. cbn [app] in G3.
      revert G3. rewrite Hmk. intro G3. cbn [rep_template r_panic r_flush] in *.
      unfold finish, status_of. rewrite G3, (days_text_template pre Hd).
      unfold chunk_bytes. cbn [map concat]. rewrite app_nil_r. reflexivity.
    Qed.
  End Run.
End Failure.
