(** WP09, part 4: the theorems of C03 (second half) / C15 (collapse clause) for
    every tree, every [Num]; lifted to [balance_rows]; the necessity of the
    "no logged name is a path-prefix of another" hypothesis; examples. *)
From Coq Require Import Lia ZifyBool ZifyNat ZifyN.
From HP Require Import Base.Bytes Base.Num Model.Elements Model.Tree Model.Reporters
  Spec.TreeShared Spec.BalancePrintSpec
  Proofs.BalancePrintBase Proofs.BalancePrintDecode Proofs.BalancePrintModes.

Section Theorems.
  Context (NM : Num).
  Notation T := (T NM).
  Notation tree := (tree NM).
  Notation row := (row NM).

  Lemma tree_paths_eq (t : tree) :
    tree_paths NM t = flat_map (child_paths NM []) (t_children NM t).
  Proof. destruct t as [n x ch]. reflexivity. Qed.

  Lemma tree_leaves_eq (t : tree) :
    tree_leaves NM t = flat_map (child_leaves NM []) (t_children NM t).
  Proof. destruct t as [n x ch]. reflexivity. Qed.

  Lemma tree_forks_eq (t : tree) :
    tree_forks NM t = flat_map (child_forks NM []) (t_children NM t).
  Proof. destruct t as [n x ch]. reflexivity. Qed.

  Lemma nodes_below_children (t : tree) :
    nodes_below NM [] t = flat_map (child_nodes NM []) (t_children NM t).
  Proof. destruct t as [n x ch]. reflexivity. Qed.

  Lemma cl_nodes_children (t : tree) :
    cl_nodes NM [] t = flat_map (cl_child NM []) (t_children NM t).
  Proof. destruct t as [n x ch]. reflexivity. Qed.

  (** * Plain mode *)

  (** plain mode shows every category path exactly once with its total, in pre-order *)
  Theorem plain_rows_are_nodes (t : tree) :
    slash_free_below NM t ->
    map (fun '(p, x, _) => (p, x)) (decode NM (print_node NM false 0 t)) = tree_paths NM t.
  Proof.
    intros Hsf. rewrite decode_plain by assumption.
    rewrite nodes_below_children, tree_paths_eq.
    change (fun '(p, x, _) => (p, x)) with (dec_pa NM).
    rewrite map_flat_map. apply flat_map_ext_Forall.
    apply Forall_forall. intros c _. apply child_nodes_paths.
  Qed.

  Theorem plain_leaves (t : tree) :
    slash_free_below NM t ->
    leaf_rows NM (print_node NM false 0 t) = tree_leaves NM t.
  Proof.
    intros Hsf. rewrite leaf_rows_eq, decode_plain by assumption.
    rewrite nodes_below_children, tree_leaves_eq.
    rewrite flat_map_flat_map. apply flat_map_ext_Forall.
    apply Forall_forall. intros c _. apply child_nodes_leaves.
  Qed.

  (** * Collapse-last mode *)
  Theorem collapse_last_leaves (t : tree) :
    slash_free_below NM t -> chain_const_below NM t ->
    leaf_rows NM (print_node NM true 0 t) = tree_leaves NM t.
  Proof.
    intros Hsf Hcc. rewrite leaf_rows_eq, decode_collapse_last by assumption.
    rewrite cl_nodes_children, tree_leaves_eq.
    rewrite flat_map_flat_map. apply flat_map_ext_Forall.
    eapply Forall_impl; [|exact Hcc]. intros c Hc. apply cl_child_leaves, Hc.
  Qed.

  (** without any hypothesis on the totals the leaf PATHS are still the same *)
  Theorem collapse_last_leaf_paths (t : tree) :
    slash_free_below NM t ->
    map fst (leaf_rows NM (print_node NM true 0 t)) = map fst (tree_leaves NM t).
  Proof.
    intros Hsf. rewrite leaf_rows_eq, decode_collapse_last by assumption.
    rewrite cl_nodes_children, tree_leaves_eq.
    rewrite flat_map_flat_map, !map_flat_map. apply flat_map_ext_Forall.
    apply Forall_forall. intros c _. apply cl_child_leaf_paths.
  Qed.

  (** * Collapsed mode *)
  Theorem collapsed_leaves (t : tree) :
    slash_free_below NM t -> chain_const_below NM t ->
    leaf_rows NM (print_collapsed NM t) = tree_leaves NM t.
  Proof.
    intros Hsf Hcc. rewrite leaf_rows_eq, decode_collapsed by assumption.
    rewrite tree_leaves_eq.
    rewrite flat_map_flat_map. apply flat_map_ext_Forall.
    eapply Forall_impl; [|exact Hcc]. intros c Hc. unfold dj_child.
    apply dj_leaves; [exact Hc|reflexivity].
  Qed.

  Theorem collapsed_leaf_paths (t : tree) :
    slash_free_below NM t ->
    map fst (leaf_rows NM (print_collapsed NM t)) = map fst (tree_leaves NM t).
  Proof.
    intros Hsf. rewrite leaf_rows_eq, decode_collapsed by assumption.
    rewrite tree_leaves_eq.
    rewrite flat_map_flat_map, !map_flat_map. apply flat_map_ext_Forall.
    apply Forall_forall. intros c _. unfold dj_child. apply dj_leaf_paths.
  Qed.

  (** * The three modes show the same leaves *)
  Theorem modes_agree (t : tree) :
    slash_free_below NM t -> chain_const_below NM t ->
    leaf_rows NM (rows_plain NM t) = tree_leaves NM t /\
    leaf_rows NM (rows_collapse_last NM t) = leaf_rows NM (rows_plain NM t) /\
    leaf_rows NM (rows_collapsed NM t) = leaf_rows NM (rows_plain NM t).
  Proof.
    intros Hsf Hcc. unfold rows_plain, rows_collapse_last, rows_collapsed.
    rewrite plain_leaves, collapse_last_leaves, collapsed_leaves by assumption.
    repeat split.
  Qed.

  (** * No branch is dropped *)
  Lemma leaf_paths_cover (t : tree) (rows : list row) :
    map fst (leaf_rows NM rows) = map fst (tree_leaves NM t) ->
    forall p x, In (p, x) (tree_paths NM t) -> In p (all_paths NM rows).
  Proof.
    intros Hleaf p x Hp. rewrite tree_paths_eq in Hp.
    destruct (paths_under_leaves NM _ _ _ Hp) as [Hne [s [y Hin]]].
    rewrite <- tree_leaves_eq in Hin.
    assert (Hq : In (p ++ s) (map fst (leaf_rows NM rows))).
    { rewrite Hleaf. apply in_map_iff. exists (p ++ s, y). split; [reflexivity|assumption]. }
    apply in_map_iff in Hq. destruct Hq as [[q y'] [Eq Hq]]. cbn [fst] in Eq. subst q.
    rewrite leaf_rows_eq in Hq. apply leaf_sel_path in Hq.
    unfold all_paths. apply in_flat_map. exists (p ++ s). split.
    - rewrite row_paths_eq. exact Hq.
    - apply In_prefixes, Hne.
  Qed.

  Theorem never_drops_branch (t : tree) :
    slash_free_below NM t ->
    forall p x, In (p, x) (tree_paths NM t) ->
      In p (all_paths NM (print_node NM false 0 t)) /\
      In p (all_paths NM (print_node NM true 0 t)) /\
      In p (all_paths NM (print_collapsed NM t)).
  Proof.
    intros Hsf p x Hp. repeat split.
    - eapply leaf_paths_cover; [|exact Hp]. rewrite plain_leaves by assumption. reflexivity.
    - eapply leaf_paths_cover; [|exact Hp]. apply collapse_last_leaf_paths, Hsf.
    - eapply leaf_paths_cover; [|exact Hp]. apply collapsed_leaf_paths, Hsf.
  Qed.

  (** * Collapse options only join path segments *)
  Lemma leaf_paths_kept (t : tree) (rows : list row) :
    map fst (leaf_rows NM rows) = map fst (tree_leaves NM t) ->
    forall p, In p (map fst (tree_leaves NM t)) -> In p (row_paths NM rows).
  Proof.
    intros Hleaf p Hp. rewrite <- Hleaf in Hp.
    apply in_map_iff in Hp. destruct Hp as [[q y] [Eq Hq]]. cbn [fst] in Eq. subst q.
    rewrite leaf_rows_eq in Hq. apply leaf_sel_path in Hq. rewrite row_paths_eq. exact Hq.
  Qed.

  Theorem plain_only_joins (t : tree) :
    slash_free_below NM t -> only_joins NM t (print_node NM false 0 t).
  Proof.
    intros Hsf.
    assert (Hrp : row_paths NM (print_node NM false 0 t) = map fst (tree_paths NM t)).
    { rewrite <- (plain_rows_are_nodes t Hsf). rewrite row_paths_eq, map_map.
      apply map_ext. intros [[p x] lf]. reflexivity. }
    split; [|split].
    - rewrite Hrp. apply subseq_refl.
    - apply leaf_paths_kept. rewrite plain_leaves by assumption. reflexivity.
    - intros p Hp. rewrite Hrp. rewrite tree_forks_eq in Hp. rewrite tree_paths_eq.
      apply in_flat_map in Hp. destruct Hp as [c [Hc Hp]].
      rewrite map_flat_map. apply in_flat_map. exists c. split; [assumption|].
      clear Hc Hsf Hrp. revert p Hp. generalize (@nil bytes) as prefix.
      induction c as [n x ch IH] using tree_ind'. intros prefix p Hp.
      rewrite child_forks_node in Hp. rewrite child_paths_node. cbn [map fst].
      apply in_app_or in Hp. destruct Hp as [Hp|Hp].
      + left. destruct ch as [|a [|a2 r]]; cbn [In] in Hp; try contradiction.
        destruct Hp as [Hp|[]]. exact Hp.
      + right. rewrite map_flat_map.
        eapply In_flat_map_Forall; [|exact Hp].
        eapply Forall_impl; [|exact IH]. intros a Ha. apply Ha.
  Qed.

  Theorem collapse_last_only_joins (t : tree) :
    slash_free_below NM t -> only_joins NM t (print_node NM true 0 t).
  Proof.
    intros Hsf. split; [|split].
    - rewrite row_paths_eq, decode_collapse_last by assumption.
      rewrite cl_nodes_children, tree_paths_eq, !map_flat_map.
      apply subseq_flat_map. apply Forall_forall. intros c _. apply cl_child_subseq.
    - apply leaf_paths_kept, collapse_last_leaf_paths, Hsf.
    - intros p Hp. rewrite row_paths_eq, decode_collapse_last by assumption.
      rewrite cl_nodes_children, map_flat_map. rewrite tree_forks_eq in Hp.
      eapply In_flat_map_Forall; [|exact Hp].
      apply Forall_forall. intros c _. apply cl_child_forks.
  Qed.

  Theorem collapsed_only_joins (t : tree) :
    slash_free_below NM t -> only_joins NM t (print_collapsed NM t).
  Proof.
    intros Hsf. split; [|split].
    - rewrite row_paths_eq, decode_collapsed by assumption.
      rewrite tree_paths_eq, !map_flat_map.
      apply subseq_flat_map. apply Forall_forall. intros c _. unfold dj_child. apply dj_subseq.
    - apply leaf_paths_kept, collapsed_leaf_paths, Hsf.
    - intros p Hp. rewrite row_paths_eq, decode_collapsed by assumption.
      rewrite map_flat_map. rewrite tree_forks_eq in Hp.
      eapply In_flat_map_Forall; [|exact Hp].
      apply Forall_forall. intros c _. unfold dj_child. apply dj_forks.
  Qed.

  Theorem collapse_only_joins (t : tree) :
    slash_free_below NM t ->
    only_joins NM t (rows_plain NM t) /\
    only_joins NM t (rows_collapse_last NM t) /\
    only_joins NM t (rows_collapsed NM t).
  Proof.
    intros Hsf. split; [|split].
    - apply plain_only_joins, Hsf.
    - apply collapse_last_only_joins, Hsf.
    - apply collapsed_only_joins, Hsf.
  Qed.

  (** with constant chains every row (inner joined rows included) carries the
      total of the node its full path names *)
  Theorem collapse_last_rows_are_nodes (t : tree) :
    slash_free_below NM t -> chain_const_below NM t ->
    subseq (map (fun '(p, x, _) => (p, x)) (decode NM (print_node NM true 0 t))) (tree_paths NM t).
  Proof.
    intros Hsf Hcc. rewrite decode_collapse_last by assumption.
    change (fun '(p, x, _) => (p, x)) with (dec_pa NM).
    rewrite cl_nodes_children, tree_paths_eq, map_flat_map.
    apply subseq_flat_map. eapply Forall_impl; [|exact Hcc].
    intros c Hc. apply cl_child_subseq_amounts, Hc.
  Qed.

  Theorem collapsed_rows_are_nodes (t : tree) :
    slash_free_below NM t -> chain_const_below NM t ->
    subseq (map (fun '(p, x, _) => (p, x)) (decode NM (print_collapsed NM t))) (tree_paths NM t).
  Proof.
    intros Hsf Hcc. rewrite decode_collapsed by assumption.
    change (fun '(p, x, _) => (p, x)) with (dec_pa NM).
    rewrite tree_paths_eq, map_flat_map.
    apply subseq_flat_map. eapply Forall_impl; [|exact Hcc].
    intros c Hc. unfold dj_child. apply dj_subseq_amounts; [exact Hc|reflexivity].
  Qed.

  (** * Lifted to the reporter: [balance_rows] on the ordered tree *)
  Lemma balance_rows_eq (pi : list bytes -> list bytes) (collapse cl : bool) (root : tree) :
    balance_rows NM pi collapse cl root =
    if collapse then rows_collapsed NM (order_tree NM pi root)
    else if cl then rows_collapse_last NM (order_tree NM pi root)
         else rows_plain NM (order_tree NM pi root).
  Proof. unfold balance_rows. destruct collapse, cl; reflexivity. Qed.

  Theorem balance_rows_leaves (pi : list bytes -> list bytes) (collapse cl : bool) (root : tree) :
    slash_free_below NM (order_tree NM pi root) ->
    chain_const_below NM (order_tree NM pi root) ->
    leaf_rows NM (balance_rows NM pi collapse cl root) = tree_leaves NM (order_tree NM pi root).
  Proof.
    intros Hsf Hcc. rewrite balance_rows_eq.
    destruct collapse; [|destruct cl].
    - apply collapsed_leaves; assumption.
    - apply collapse_last_leaves; assumption.
    - apply plain_leaves; assumption.
  Qed.

  (** every display mode shows the same leaf paths with the same amounts *)
  Theorem balance_rows_modes_agree (pi : list bytes -> list bytes) (root : tree) :
    slash_free_below NM (order_tree NM pi root) ->
    chain_const_below NM (order_tree NM pi root) ->
    forall collapse cl collapse' cl',
      leaf_rows NM (balance_rows NM pi collapse cl root) =
      leaf_rows NM (balance_rows NM pi collapse' cl' root).
  Proof.
    intros Hsf Hcc collapse cl collapse' cl'.
    rewrite !balance_rows_leaves by assumption. reflexivity.
  Qed.

  (** ... and never drops a branch (no hypothesis on the totals) *)
  Theorem balance_rows_never_drops (pi : list bytes -> list bytes) (collapse cl : bool) (root : tree) :
    slash_free_below NM (order_tree NM pi root) ->
    forall p x, In (p, x) (tree_paths NM (order_tree NM pi root)) ->
      In p (all_paths NM (balance_rows NM pi collapse cl root)).
  Proof.
    intros Hsf p x Hp. rewrite balance_rows_eq.
    destruct (never_drops_branch _ Hsf p x Hp) as [H1 [H2 H3]].
    destruct collapse; [|destruct cl]; assumption.
  Qed.

  Theorem balance_rows_only_joins (pi : list bytes -> list bytes) (collapse cl : bool) (root : tree) :
    slash_free_below NM (order_tree NM pi root) ->
    only_joins NM (order_tree NM pi root) (balance_rows NM pi collapse cl root).
  Proof.
    intros Hsf. rewrite balance_rows_eq.
    destruct (collapse_only_joins _ Hsf) as [H1 [H2 H3]].
    destruct collapse; [|destruct cl]; assumption.
  Qed.
End Theorems.

(** * Examples ([ZNum], by computation) *)
Notation ZN := (@Node ZNum) (only parsing).


(** the tree of [a/b/c:1, a/b/d:2, a/e/f:4, x/y:8] *)
Definition ex_root : tree ZNum :=
  tree_add_all ZNum (empty_root ZNum)
    [(b "a/b/c", 1%Z); (b "a/b/d", 2%Z); (b "a/e/f", 4%Z); (b "x/y", 8%Z)].
Definition ex_tree : tree ZNum := order_tree ZNum (fun l => l) ex_root.

Example ex_tree_value :
  ex_tree = ZN [] 0%Z
              [ZN (b "a") 7%Z
                 [ZN (b "b") 3%Z [ZN (b "c") 1%Z []; ZN (b "d") 2%Z []];
                  ZN (b "e") 4%Z [ZN (b "f") 4%Z []]];
               ZN (b "x") 8%Z [ZN (b "y") 8%Z []]].
Proof. vm_compute. reflexivity. Qed.

(** it meets the hypotheses of the theorems *)
Example ex_tree_hyps :
  slash_free_below ZNum ex_tree /\ chain_const_below ZNum ex_tree /\ wf_tree ZNum ex_tree.
Proof.
  rewrite ex_tree_value. split; [|split].
  - unfold slash_free_below. cbn [t_children].
    repeat (constructor; cbn [slash_free]);
      repeat split; try (intros H; cbn in H; repeat (destruct H as [H|H]; [discriminate H|]); exact H).
  - unfold chain_const_below. cbn [t_children].
    repeat (constructor; cbn [chain_const t_total]); repeat split.
  - cbn [wf_tree map t_name]. repeat split;
      repeat (constructor; [cbn [In]; intros H; repeat (destruct H as [H|H]; [discriminate H|]); exact H|]);
      constructor.
Qed.

Example ex_rows_plain :
  rows_plain ZNum ex_tree =
  [(7%Z, 0%nat, b "a"); (3%Z, 1%nat, b "b"); (1%Z, 2%nat, b "c"); (2%Z, 2%nat, b "d");
   (4%Z, 1%nat, b "e"); (4%Z, 2%nat, b "f"); (8%Z, 0%nat, b "x"); (8%Z, 1%nat, b "y")].
Proof. vm_compute. reflexivity. Qed.

Example ex_rows_collapse_last :
  rows_collapse_last ZNum ex_tree =
  [(7%Z, 0%nat, b "a"); (3%Z, 1%nat, b "b"); (1%Z, 2%nat, b "c"); (2%Z, 2%nat, b "d");
   (4%Z, 1%nat, b "e/f"); (8%Z, 0%nat, b "x/y")].
Proof. vm_compute. reflexivity. Qed.

Example ex_rows_collapsed :
  rows_collapsed ZNum ex_tree =
  [(7%Z, 0%nat, b "a"); (3%Z, 1%nat, b "b"); (1%Z, 2%nat, b "c"); (2%Z, 2%nat, b "d");
   (4%Z, 1%nat, b "e/f"); (8%Z, 0%nat, b "x/y")].
Proof. vm_compute. reflexivity. Qed.

Example ex_decode_collapsed :
  decode ZNum (rows_collapsed ZNum ex_tree) =
  [([b "a"], 7%Z, false); ([b "a"; b "b"], 3%Z, false);
   ([b "a"; b "b"; b "c"], 1%Z, true); ([b "a"; b "b"; b "d"], 2%Z, true);
   ([b "a"; b "e"; b "f"], 4%Z, true); ([b "x"; b "y"], 8%Z, true)].
Proof. vm_compute. reflexivity. Qed.

Example ex_leaves :
  tree_leaves ZNum ex_tree =
  [([b "a"; b "b"; b "c"], 1%Z); ([b "a"; b "b"; b "d"], 2%Z);
   ([b "a"; b "e"; b "f"], 4%Z); ([b "x"; b "y"], 8%Z)].
Proof. vm_compute. reflexivity. Qed.

Example ex_modes_equal :
  leaf_rows ZNum (rows_plain ZNum ex_tree) = tree_leaves ZNum ex_tree /\
  leaf_rows ZNum (rows_collapse_last ZNum ex_tree) = tree_leaves ZNum ex_tree /\
  leaf_rows ZNum (rows_collapsed ZNum ex_tree) = tree_leaves ZNum ex_tree.
Proof. vm_compute. repeat split. Qed.

(** the same through the general theorem (hypotheses met, mechanism exercised) *)
Example ex_modes_agree_by_theorem :
  leaf_rows ZNum (rows_collapsed ZNum ex_tree) = leaf_rows ZNum (rows_plain ZNum ex_tree).
Proof.
  destruct ex_tree_hyps as [Hsf [Hcc _]].
  exact (proj2 (proj2 (modes_agree ZNum ex_tree Hsf Hcc))).
Qed.

(** a deeper chain, a chain below a fork and an empty segment:
    [m/n/o/p:1, m/n/o/q:2, m//r:4] *)
Definition ex_tree2 : tree ZNum :=
  order_tree ZNum (fun l => l)
    (tree_add_all ZNum (empty_root ZNum)
       [(b "m/n/o/p", 1%Z); (b "m/n/o/q", 2%Z); (b "m//r", 4%Z)]).

Example ex2_rows_collapsed :
  rows_collapsed ZNum ex_tree2 =
  [(7%Z, 0%nat, b "m"); (4%Z, 1%nat, b "/r"); (3%Z, 1%nat, b "n/o");
   (1%Z, 2%nat, b "p"); (2%Z, 2%nat, b "q")].
Proof. vm_compute. reflexivity. Qed.

Example ex2_modes_equal :
  leaf_rows ZNum (rows_collapsed ZNum ex_tree2) =
    [([b "m"; []; b "r"], 4%Z); ([b "m"; b "n"; b "o"; b "p"], 1%Z); ([b "m"; b "n"; b "o"; b "q"], 2%Z)] /\
  leaf_rows ZNum (rows_plain ZNum ex_tree2) = leaf_rows ZNum (rows_collapsed ZNum ex_tree2) /\
  leaf_rows ZNum (rows_collapse_last ZNum ex_tree2) = leaf_rows ZNum (rows_collapsed ZNum ex_tree2).
Proof. vm_compute. repeat split. Qed.

(** * The hypothesis is necessary: a logged name that IS a path-prefix of another

    entries [a:1, a/b:2]: node [a] has total 3 and the sole child [b] with total 2 *)
Definition bad_tree : tree ZNum :=
  order_tree ZNum (fun l => l)
    (tree_add_all ZNum (empty_root ZNum) [(b "a", 1%Z); (b "a/b", 2%Z)]).

Example bad_tree_value : bad_tree = ZN [] 0%Z [ZN (b "a") 3%Z [ZN (b "b") 2%Z []]].
Proof. vm_compute. reflexivity. Qed.

Example prefix_name_breaks_chain_const :
  slash_free_below ZNum bad_tree /\ wf_tree ZNum bad_tree /\ ~ chain_const_below ZNum bad_tree.
Proof.
  rewrite bad_tree_value. split; [|split].
  - unfold slash_free_below. cbn [t_children].
    repeat (constructor; cbn [slash_free]);
      repeat split; try (intros H; cbn in H; repeat (destruct H as [H|H]; [discriminate H|]); exact H).
  - cbn [wf_tree map t_name]. repeat split;
      repeat (constructor; [cbn [In]; intros H; repeat (destruct H as [H|H]; [discriminate H|]); exact H|]);
      constructor.
  - unfold chain_const_below. cbn [t_children]. intros H.
    inversion H as [|c r Hc _]. cbn [chain_const t_total] in Hc.
    destruct Hc as [Hc _]. discriminate Hc.
Qed.

(** collapsed (and collapse-last) mode print the leaf [a/b] with amount 3, plain mode with 2 *)
Example collapsed_leaves_refuted :
  leaf_rows ZNum (rows_plain ZNum bad_tree) = [([b "a"; b "b"], 2%Z)] /\
  leaf_rows ZNum (rows_collapsed ZNum bad_tree) = [([b "a"; b "b"], 3%Z)] /\
  leaf_rows ZNum (rows_collapse_last ZNum bad_tree) = [([b "a"; b "b"], 3%Z)] /\
  leaf_rows ZNum (rows_collapsed ZNum bad_tree) <> tree_leaves ZNum bad_tree /\
  leaf_rows ZNum (rows_collapse_last ZNum bad_tree) <> tree_leaves ZNum bad_tree /\
  leaf_rows ZNum (rows_collapsed ZNum bad_tree) <> leaf_rows ZNum (rows_plain ZNum bad_tree).
Proof.
  vm_compute. repeat split; intros H; discriminate H.
Qed.

(** so the theorems without [chain_const_below] are false *)
Theorem collapsed_leaves_without_hypothesis_refuted :
  ~ (forall t : tree ZNum, slash_free_below ZNum t ->
       leaf_rows ZNum (print_collapsed ZNum t) = tree_leaves ZNum t).
Proof.
  intros H. destruct prefix_name_breaks_chain_const as [Hsf _].
  specialize (H bad_tree Hsf). revert H. vm_compute. intros H. discriminate H.
Qed.

Theorem collapse_last_leaves_without_hypothesis_refuted :
  ~ (forall t : tree ZNum, slash_free_below ZNum t ->
       leaf_rows ZNum (print_node ZNum true 0 t) = tree_leaves ZNum t).
Proof.
  intros H. destruct prefix_name_breaks_chain_const as [Hsf _].
  specialize (H bad_tree Hsf). revert H. vm_compute. intros H. discriminate H.
Qed.

(** the paths are still all there *)
Example bad_tree_paths_kept :
  all_paths ZNum (rows_collapsed ZNum bad_tree) = [[b "a"]; [b "a"; b "b"]].
Proof. vm_compute. reflexivity. Qed.
