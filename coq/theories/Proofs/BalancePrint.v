(** WP09, part 4: the theorems of C03 (second half) / C15 (collapse clause) for
    every tree, every [Num]; lifted to [balance_rows]; what the "no logged name
    is a path-prefix of another" hypothesis is still needed for after fix
    3cc3ec3 (joining only while the totals are Go-equal) and what holds
    without it; examples. *)
From Coq Require Import Lia ZifyBool ZifyNat ZifyN.
From HP Require Import Base.Bytes Base.Num Base.GoFloat Model.Elements Model.Tree Model.Reporters
  Spec.TreeShared Spec.BalancePrintSpec Spec.PresentationSpec
  Proofs.BalancePrintBase Proofs.BalancePrintDecode Proofs.BalancePrintModes.
From HP Require Proofs.PresentationFloatOrder.

Section Theorems.
  Context (NM : Num).
  Notation T := (T NM).
  Notation tree := (tree NM).
  Notation row := (row NM).

  Lemma tree_paths_eq (t : tree) :
    tree_paths NM t = flat_map (child_paths NM []) (t_children NM t).
  Proof. destruct t as [n x ch]. reflexivity. Qed.

  Lemma tree_leaves_eq (t : tree) :
    tree_leaves NM t = flat_map (child_leaves NM []) (t_children NM t).
  Proof. destruct t as [n x ch]. reflexivity. Qed.

  Lemma tree_forks_eq (t : tree) :
    tree_forks NM t = flat_map (child_forks NM []) (t_children NM t).
  Proof. destruct t as [n x ch]. reflexivity. Qed.

  Lemma nodes_below_children (t : tree) :
    nodes_below NM [] t = flat_map (child_nodes NM []) (t_children NM t).
  Proof. destruct t as [n x ch]. reflexivity. Qed.

  Lemma cl_nodes_children (t : tree) :
    cl_nodes NM [] t = flat_map (cl_child NM []) (t_children NM t).
  Proof. destruct t as [n x ch]. reflexivity. Qed.

  (** * Plain mode *)

  (** plain mode shows every category path exactly once with its total, in pre-order *)
  Theorem plain_rows_are_nodes (t : tree) :
    slash_free_below NM t ->
    map (fun '(p, x, _) => (p, x)) (decode NM (print_node NM false 0 t)) = tree_paths NM t.
  Proof.
    intros Hsf. rewrite decode_plain by assumption.
    rewrite nodes_below_children, tree_paths_eq.
    change (fun '(p, x, _) => (p, x)) with (dec_pa NM).
    rewrite map_flat_map. apply flat_map_ext_Forall.
    apply Forall_forall. intros c _. apply child_nodes_paths.
  Qed.

  Theorem plain_leaves (t : tree) :
    slash_free_below NM t ->
    leaf_rows NM (print_node NM false 0 t) = tree_leaves NM t.
  Proof.
    intros Hsf. rewrite leaf_rows_eq, decode_plain by assumption.
    rewrite nodes_below_children, tree_leaves_eq.
    rewrite flat_map_flat_map. apply flat_map_ext_Forall.
    apply Forall_forall. intros c _. apply child_nodes_leaves.
  Qed.

  (** * Collapse-last mode *)
  Theorem collapse_last_leaves (t : tree) :
    slash_free_below NM t -> chain_const_below NM t ->
    leaf_rows NM (print_node NM true 0 t) = tree_leaves NM t.
  Proof.
    intros Hsf Hcc. rewrite leaf_rows_eq, decode_collapse_last by assumption.
    rewrite cl_nodes_children, tree_leaves_eq.
    rewrite flat_map_flat_map. apply flat_map_ext_Forall.
    eapply Forall_impl; [|exact Hcc]. intros c Hc. apply cl_child_leaves, Hc.
  Qed.

  (** without any hypothesis on the totals the leaf PATHS are still the same *)
  Theorem collapse_last_leaf_paths (t : tree) :
    slash_free_below NM t ->
    map fst (leaf_rows NM (print_node NM true 0 t)) = map fst (tree_leaves NM t).
  Proof.
    intros Hsf. rewrite leaf_rows_eq, decode_collapse_last by assumption.
    rewrite cl_nodes_children, tree_leaves_eq.
    rewrite flat_map_flat_map, !map_flat_map. apply flat_map_ext_Forall.
    apply Forall_forall. intros c _. apply cl_child_leaf_paths.
  Qed.

  (** * Collapsed mode *)
  Theorem collapsed_leaves (t : tree) :
    slash_free_below NM t -> chain_const_below NM t ->
    leaf_rows NM (print_collapsed NM t) = tree_leaves NM t.
  Proof.
    intros Hsf Hcc. rewrite leaf_rows_eq, decode_collapsed by assumption.
    rewrite tree_leaves_eq.
    rewrite flat_map_flat_map. apply flat_map_ext_Forall.
    eapply Forall_impl; [|exact Hcc]. intros c Hc. unfold dj_child.
    apply dj_leaves; [exact Hc|reflexivity].
  Qed.

  Theorem collapsed_leaf_paths (t : tree) :
    slash_free_below NM t ->
    map fst (leaf_rows NM (print_collapsed NM t)) = map fst (tree_leaves NM t).
  Proof.
    intros Hsf. rewrite leaf_rows_eq, decode_collapsed by assumption.
    rewrite tree_leaves_eq.
    rewrite flat_map_flat_map, !map_flat_map. apply flat_map_ext_Forall.
    apply Forall_forall. intros c _. unfold dj_child. apply dj_leaf_paths.
  Qed.

  (** * The three modes show the same leaves *)
  Theorem modes_agree (t : tree) :
    slash_free_below NM t -> chain_const_below NM t ->
    leaf_rows NM (rows_plain NM t) = tree_leaves NM t /\
    leaf_rows NM (rows_collapse_last NM t) = leaf_rows NM (rows_plain NM t) /\
    leaf_rows NM (rows_collapsed NM t) = leaf_rows NM (rows_plain NM t).
  Proof.
    intros Hsf Hcc. unfold rows_plain, rows_collapse_last, rows_collapsed.
    rewrite plain_leaves, collapse_last_leaves, collapsed_leaves by assumption.
    repeat split.
  Qed.

  (** * No branch is dropped *)
  Lemma leaf_paths_cover (t : tree) (rows : list row) :
    map fst (leaf_rows NM rows) = map fst (tree_leaves NM t) ->
    forall p x, In (p, x) (tree_paths NM t) -> In p (all_paths NM rows).
  Proof.
    intros Hleaf p x Hp. rewrite tree_paths_eq in Hp.
    destruct (paths_under_leaves NM _ _ _ Hp) as [Hne [s [y Hin]]].
    rewrite <- tree_leaves_eq in Hin.
    assert (Hq : In (p ++ s) (map fst (leaf_rows NM rows))).
    { rewrite Hleaf. apply in_map_iff. exists (p ++ s, y). split; [reflexivity|assumption]. }
    apply in_map_iff in Hq. destruct Hq as [[q y'] [Eq Hq]]. cbn [fst] in Eq. subst q.
    rewrite leaf_rows_eq in Hq. apply leaf_sel_path in Hq.
    unfold all_paths. apply in_flat_map. exists (p ++ s). split.
    - rewrite row_paths_eq. exact Hq.
    - apply In_prefixes, Hne.
  Qed.

  Theorem never_drops_branch (t : tree) :
    slash_free_below NM t ->
    forall p x, In (p, x) (tree_paths NM t) ->
      In p (all_paths NM (print_node NM false 0 t)) /\
      In p (all_paths NM (print_node NM true 0 t)) /\
      In p (all_paths NM (print_collapsed NM t)).
  Proof.
    intros Hsf p x Hp. repeat split.
    - eapply leaf_paths_cover; [|exact Hp]. rewrite plain_leaves by assumption. reflexivity.
    - eapply leaf_paths_cover; [|exact Hp]. apply collapse_last_leaf_paths, Hsf.
    - eapply leaf_paths_cover; [|exact Hp]. apply collapsed_leaf_paths, Hsf.
  Qed.

  (** * Collapse options only join path segments *)
  Lemma leaf_paths_kept (t : tree) (rows : list row) :
    map fst (leaf_rows NM rows) = map fst (tree_leaves NM t) ->
    forall p, In p (map fst (tree_leaves NM t)) -> In p (row_paths NM rows).
  Proof.
    intros Hleaf p Hp. rewrite <- Hleaf in Hp.
    apply in_map_iff in Hp. destruct Hp as [[q y] [Eq Hq]]. cbn [fst] in Eq. subst q.
    rewrite leaf_rows_eq in Hq. apply leaf_sel_path in Hq. rewrite row_paths_eq. exact Hq.
  Qed.

  Theorem plain_only_joins (t : tree) :
    slash_free_below NM t -> only_joins NM t (print_node NM false 0 t).
  Proof.
    intros Hsf.
    assert (Hrp : row_paths NM (print_node NM false 0 t) = map fst (tree_paths NM t)).
    { rewrite <- (plain_rows_are_nodes t Hsf). rewrite row_paths_eq, map_map.
      apply map_ext. intros [[p x] lf]. reflexivity. }
    split; [|split].
    - rewrite Hrp. apply subseq_refl.
    - apply leaf_paths_kept. rewrite plain_leaves by assumption. reflexivity.
    - intros p Hp. rewrite Hrp. rewrite tree_forks_eq in Hp. rewrite tree_paths_eq.
      apply in_flat_map in Hp. destruct Hp as [c [Hc Hp]].
      rewrite map_flat_map. apply in_flat_map. exists c. split; [assumption|].
      clear Hc Hsf Hrp. revert p Hp. generalize (@nil bytes) as prefix.
      induction c as [n x ch IH] using tree_ind'. intros prefix p Hp.
      rewrite child_forks_node in Hp. rewrite child_paths_node. cbn [map fst].
      apply in_app_or in Hp. destruct Hp as [Hp|Hp].
      + left. destruct ch as [|a [|a2 r]]; cbn [In] in Hp; try contradiction.
        destruct Hp as [Hp|[]]. exact Hp.
      + right. rewrite map_flat_map.
        eapply In_flat_map_Forall; [|exact Hp].
        eapply Forall_impl; [|exact IH]. intros a Ha. apply Ha.
  Qed.

  Theorem collapse_last_only_joins (t : tree) :
    slash_free_below NM t -> only_joins NM t (print_node NM true 0 t).
  Proof.
    intros Hsf. split; [|split].
    - rewrite row_paths_eq, decode_collapse_last by assumption.
      rewrite cl_nodes_children, tree_paths_eq, !map_flat_map.
      apply subseq_flat_map. apply Forall_forall. intros c _. apply cl_child_subseq.
    - apply leaf_paths_kept, collapse_last_leaf_paths, Hsf.
    - intros p Hp. rewrite row_paths_eq, decode_collapse_last by assumption.
      rewrite cl_nodes_children, map_flat_map. rewrite tree_forks_eq in Hp.
      eapply In_flat_map_Forall; [|exact Hp].
      apply Forall_forall. intros c _. apply cl_child_forks.
  Qed.

  Theorem collapsed_only_joins (t : tree) :
    slash_free_below NM t -> only_joins NM t (print_collapsed NM t).
  Proof.
    intros Hsf. split; [|split].
    - rewrite row_paths_eq, decode_collapsed by assumption.
      rewrite tree_paths_eq, !map_flat_map.
      apply subseq_flat_map. apply Forall_forall. intros c _. unfold dj_child. apply dj_subseq.
    - apply leaf_paths_kept, collapsed_leaf_paths, Hsf.
    - intros p Hp. rewrite row_paths_eq, decode_collapsed by assumption.
      rewrite map_flat_map. rewrite tree_forks_eq in Hp.
      eapply In_flat_map_Forall; [|exact Hp].
      apply Forall_forall. intros c _. unfold dj_child. apply dj_forks.
  Qed.

  Theorem collapse_only_joins (t : tree) :
    slash_free_below NM t ->
    only_joins NM t (rows_plain NM t) /\
    only_joins NM t (rows_collapse_last NM t) /\
    only_joins NM t (rows_collapsed NM t).
  Proof.
    intros Hsf. split; [|split].
    - apply plain_only_joins, Hsf.
    - apply collapse_last_only_joins, Hsf.
    - apply collapsed_only_joins, Hsf.
  Qed.

  (** with constant chains every row (inner joined rows included) carries the
      total of the node its full path names *)
  Theorem collapse_last_rows_are_nodes (t : tree) :
    slash_free_below NM t -> chain_const_below NM t ->
    subseq (map (fun '(p, x, _) => (p, x)) (decode NM (print_node NM true 0 t))) (tree_paths NM t).
  Proof.
    intros Hsf Hcc. rewrite decode_collapse_last by assumption.
    change (fun '(p, x, _) => (p, x)) with (dec_pa NM).
    rewrite cl_nodes_children, tree_paths_eq, map_flat_map.
    apply subseq_flat_map. eapply Forall_impl; [|exact Hcc].
    intros c Hc. apply cl_child_subseq_amounts, Hc.
  Qed.

  Theorem collapsed_rows_are_nodes (t : tree) :
    slash_free_below NM t -> chain_const_below NM t ->
    subseq (map (fun '(p, x, _) => (p, x)) (decode NM (print_collapsed NM t))) (tree_paths NM t).
  Proof.
    intros Hsf Hcc. rewrite decode_collapsed by assumption.
    change (fun '(p, x, _) => (p, x)) with (dec_pa NM).
    rewrite tree_paths_eq, map_flat_map.
    apply subseq_flat_map. eapply Forall_impl; [|exact Hcc].
    intros c Hc. unfold dj_child. apply dj_subseq_amounts; [exact Hc|reflexivity].
  Qed.

  (** * Fix 3cc3ec3: joining never hides an amount (every tree, no hypothesis on the totals) *)
  Notation rdec := (list bytes * list (bytes * T) * T * bool)%type.
  Notation same := (same_path_go_equal NM).

  Lemma flat_map_map {A B C} (f : B -> list C) (g : A -> B) (l : list A) :
    flat_map f (map g l) = flat_map (fun a => f (g a)) l.
  Proof. induction l as [|a l IH]; cbn [map flat_map]; [reflexivity|]. rewrite IH. reflexivity. Qed.

  (** Go's [==] is symmetric by its definition *)
  Lemma t_eqb_sym (a c : T) : t_eqb NM a c = t_eqb NM c a.
  Proof.
    unfold t_eqb. destruct (ltb NM a c), (ltb NM c a), (is_nan NM a), (is_nan NM c); reflexivity.
  Qed.

  Lemma go_eq_chain_trans :
    go_eq_transitive NM -> forall y x, go_eq_chain NM y x -> y = x \/ t_eqb NM y x = true.
  Proof.
    intros Htr y x H. induction H as [y|y x z _ IH Hz]; [left; reflexivity|]. right.
    destruct IH as [E|E].
    - subst x. rewrite t_eqb_sym. exact Hz.
    - apply (Htr y x z); [exact E|]. rewrite t_eqb_sym. exact Hz.
  Qed.

  Lemma go_eq_chain_eq : go_eq_is_eq NM -> forall y x, go_eq_chain NM y x -> y = x.
  Proof.
    intros Heq y x H. induction H as [y|y x z _ IH Hz]; [reflexivity|].
    subst x. symmetry. apply Heq, Hz.
  Qed.

  Lemma go_eq_is_eq_transitive : go_eq_is_eq NM -> go_eq_transitive NM.
  Proof. intros Heq a c d Hac Hcd. apply Heq in Hac. subst c. exact Hcd. Qed.

  (** from the full read-back of a mode to the statement of the Spec *)
  Lemma account_of_full (t : tree) (rows : list row) (rds : list rdec) :
    decode_full_from NM [] rows = map (strip NM) rds ->
    Forall (rd_ok NM) rds -> flat_map (rd_nodes NM) rds = tree_paths NM t ->
    rows_account_for NM t rows.
  Proof.
    intros Hdec Hok Hnodes.
    exists (map (fun rd : rdec => let '(pp, chain, y, lf) := rd in (pp, chain, y)) rds).
    split; [|split].
    - unfold decode_own. rewrite decode_own_from_full, Hdec, !map_map.
      apply map_ext. intros [[[pp chain] y] lf]. reflexivity.
    - apply Forall_map. eapply Forall_impl; [|exact Hok]. intros [[[pp chain] y] lf] H. exact H.
    - rewrite flat_map_map, <- Hnodes. apply flat_map_ext. intros [[[pp chain] y] lf]. reflexivity.
  Qed.

  (** in each mode the rows account for the whole tree: every row is an honest
      joined row (its amount is the total of its first node, every further
      node's total is Go-equal to its parent's) and the nodes behind the rows
      are exactly the nodes of the tree, each once, in pre-order *)
  Theorem plain_accounts (t : tree) :
    slash_free_below NM t -> rows_account_for NM t (print_node NM false 0 t).
  Proof.
    intros Hsf. apply (account_of_full t _ _ (decode_full_plain NM t Hsf)).
    - apply Forall_flat_map, Forall_forall. intros c _. apply rchild_nodes_ok.
    - rewrite tree_paths_eq, flat_map_flat_map. apply flat_map_ext. intros c. apply rchild_nodes_paths.
  Qed.

  Theorem collapse_last_accounts (t : tree) :
    slash_free_below NM t -> rows_account_for NM t (print_node NM true 0 t).
  Proof.
    intros Hsf. apply (account_of_full t _ _ (decode_full_collapse_last NM t Hsf)).
    - apply Forall_flat_map, Forall_forall. intros c _. apply rcl_child_ok.
    - rewrite tree_paths_eq, flat_map_flat_map. apply flat_map_ext. intros c. apply rcl_child_paths.
  Qed.

  Theorem collapsed_accounts (t : tree) :
    slash_free_below NM t -> rows_account_for NM t (print_collapsed NM t).
  Proof.
    intros Hsf. apply (account_of_full t _ _ (decode_full_collapsed NM t Hsf)).
    - apply Forall_flat_map, Forall_forall. intros c _. apply rdj_child_ok.
    - rewrite tree_paths_eq, flat_map_flat_map. apply flat_map_ext. intros c. apply rdj_child_paths.
  Qed.

  Theorem modes_account_for_tree (t : tree) :
    slash_free_below NM t ->
    rows_account_for NM t (rows_plain NM t) /\
    rows_account_for NM t (rows_collapse_last NM t) /\
    rows_account_for NM t (rows_collapsed NM t).
  Proof.
    intros Hsf. split; [|split].
    - apply plain_accounts, Hsf.
    - apply collapse_last_accounts, Hsf.
    - apply collapsed_accounts, Hsf.
  Qed.

  (** ** a joined row: the totals of the nodes on the joined path *)
  Lemma eq_from_pairs (r : list (bytes * T)) :
    go_eq_transitive NM -> forall n x, eq_from NM x r ->
      ForallOrdPairs (fun a c => t_eqb NM (snd c) (snd a) = true) ((n, x) :: r).
  Proof.
    intros Htr. induction r as [|[m z] r IH]; intros n x H.
    - constructor; constructor.
    - cbn [eq_from] in H. destruct H as [Hz Hr]. specialize (IH m z Hr).
      constructor; [|exact IH]. constructor; [exact Hz|].
      inversion IH as [|a l Hall _]; subst a l.
      eapply Forall_impl; [|exact Hall]. cbn [snd]. intros e He.
      apply (Htr (snd e) z x); assumption.
  Qed.

  Lemma joined_ok_pairwise (y : T) (chain : list (bytes * T)) :
    go_eq_transitive NM -> joined_ok NM y chain ->
    ForallOrdPairs (fun a c => t_eqb NM (snd c) (snd a) = true) chain.
  Proof.
    intros Htr H. destruct chain as [|[n x] r]; [destruct H|].
    destruct H as [_ H]. apply eq_from_pairs; assumption.
  Qed.

  Lemma account_rows_joined (t : tree) (rows : list row) :
    rows_account_for NM t rows ->
    forall pp own y, In (pp, own, y) (decode_own NM rows) ->
      exists chain : list (bytes * T),
        map fst chain = own /\ joined_ok NM y chain /\
        incl (chain_paths NM pp chain) (tree_paths NM t) /\
        (go_eq_transitive NM -> ForallOrdPairs (fun a c => t_eqb NM (snd c) (snd a) = true) chain).
  Proof.
    intros [rds [Hdec [Hok Hnodes]]] pp own y Hin.
    rewrite <- Hdec in Hin. apply in_map_iff in Hin. destruct Hin as [[[pp' chain] y'] [E Hrd]].
    inversion E; subst pp' own y'. exists chain.
    rewrite Forall_forall in Hok. specialize (Hok _ Hrd). cbn beta iota in Hok.
    split; [reflexivity|]. split; [exact Hok|]. split.
    - intros e He. rewrite <- Hnodes. apply in_flat_map. exists (pp, chain, y). split; assumption.
    - intros Htr. apply (joined_ok_pairwise y); assumption.
  Qed.

  (** every row printed in collapse-last or collapsed mode, in particular one
      whose label joins several segments, stands for a chain of nodes of the
      tree (parent, only child, ...) in which every total is Go-equal to the
      one before; the amount shown is the total of the first; when [==] is
      transitive (float64, exact numbers) all totals of the chain are pairwise
      Go-equal: no amount is hidden by joining *)
  Theorem collapse_joins_equal_totals (t : tree) :
    slash_free_below NM t ->
    forall rows, rows = print_node NM true 0 t \/ rows = print_collapsed NM t ->
    forall pp own y, In (pp, own, y) (decode_own NM rows) ->
      exists chain : list (bytes * T),
        map fst chain = own /\ joined_ok NM y chain /\
        incl (chain_paths NM pp chain) (tree_paths NM t) /\
        (go_eq_transitive NM -> ForallOrdPairs (fun a c => t_eqb NM (snd c) (snd a) = true) chain).
  Proof.
    intros Hsf rows [E|E]; subst rows; apply account_rows_joined.
    - apply collapse_last_accounts, Hsf.
    - apply collapsed_accounts, Hsf.
  Qed.

  (** ** every node's (path, total) can be read from the rows of every mode *)
  Definition rd_shown (rd : rdec) : list (list bytes * T) :=
    let '(pp, chain, y, lf) := rd in map (fun o => (pp ++ o, y)) (prefixes (map fst chain)).

  Lemma shown_of_full (rows : list row) (rds : list rdec) :
    decode_full_from NM [] rows = map (strip NM) rds ->
    shown_paths NM rows = flat_map rd_shown rds.
  Proof.
    intros Hdec. unfold shown_paths, decode_own.
    rewrite decode_own_from_full, Hdec, map_map, flat_map_map.
    apply flat_map_ext. intros [[[pp chain] y] lf]. reflexivity.
  Qed.

  Lemma chain_shown (chain : list (bytes * T)) :
    forall pp y x0, go_eq_chain NM y x0 -> eq_from NM x0 chain ->
      Forall2 same (map (fun o => (pp ++ o, y)) (prefixes (map fst chain))) (chain_paths NM pp chain).
  Proof.
    induction chain as [|[n z] r IH]; intros pp y x0 Hy H; [constructor|].
    cbn [eq_from] in H. destruct H as [Hz Hr].
    cbn [map fst prefixes chain_paths]. constructor.
    - split; [reflexivity|]. cbn [snd]. eapply gec_step; [exact Hy|exact Hz].
    - rewrite map_map.
      rewrite (map_ext _ (fun o => ((pp ++ [n]) ++ o, y))).
      + apply (IH (pp ++ [n]) y z); [|exact Hr]. eapply gec_step; [exact Hy|exact Hz].
      + intros o. rewrite <- app_assoc. reflexivity.
  Qed.

  Lemma joined_shown (pp : list bytes) (chain : list (bytes * T)) (y : T) :
    joined_ok NM y chain ->
    Forall2 same (map (fun o => (pp ++ o, y)) (prefixes (map fst chain))) (chain_paths NM pp chain).
  Proof.
    destruct chain as [|[n x] r]; intros H; [destruct H|]. destruct H as [E Hr]. subst x.
    cbn [map fst prefixes chain_paths]. constructor.
    - split; [reflexivity|apply gec_refl].
    - rewrite map_map.
      rewrite (map_ext _ (fun o => ((pp ++ [n]) ++ o, y))).
      + apply (chain_shown r (pp ++ [n]) y y); [apply gec_refl|exact Hr].
      + intros o. rewrite <- app_assoc. reflexivity.
  Qed.

  Theorem shown_of_account (t : tree) (rows : list row) :
    rows_account_for NM t rows -> Forall2 same (shown_paths NM rows) (tree_paths NM t).
  Proof.
    intros [rds [Hdec [Hok Hnodes]]]. unfold shown_paths. rewrite <- Hdec, <- Hnodes, flat_map_map.
    apply Forall2_flat_map. eapply Forall_impl; [|exact Hok].
    intros [[pp chain] y] H. apply joined_shown, H.
  Qed.

  Lemma Forall2_In_r {A B} (R : A -> B -> Prop) (l : list A) (m : list B) (y : B) :
    Forall2 R l m -> In y m -> exists x, In x l /\ R x y.
  Proof.
    induction 1 as [|a c l m Hac _ IH]; intros Hin; [destruct Hin|].
    destruct Hin as [E|Hin].
    - subst c. exists a. split; [left; reflexivity|exact Hac].
    - destruct (IH Hin) as [x [Hx HR]]. exists x. split; [right; exact Hx|exact HR].
  Qed.

  Lemma Forall2_In_l {A B} (R : A -> B -> Prop) (l : list A) (m : list B) (x : A) :
    Forall2 R l m -> In x l -> exists y, In y m /\ R x y.
  Proof.
    induction 1 as [|a c l m Hac _ IH]; intros Hin; [destruct Hin|].
    destruct Hin as [E|Hin].
    - subst a. exists c. split; [left; reflexivity|exact Hac].
    - destruct (IH Hin) as [y [Hy HR]]. exists y. split; [right; exact Hy|exact HR].
  Qed.

  (** [shown_paths rows] = every category path the reader sees, once, with the
      amount of the row in which its last segment is printed.  In plain mode
      that IS the list of the nodes of the tree; in the two collapsing modes it
      is that list up to Go-equality of the amounts: same paths, same order,
      each amount linked to the node's total by a chain of [==] *)
  Theorem modes_show_every_path_total (t : tree) :
    slash_free_below NM t ->
    shown_paths NM (rows_plain NM t) = tree_paths NM t /\
    Forall2 same (shown_paths NM (rows_collapse_last NM t)) (tree_paths NM t) /\
    Forall2 same (shown_paths NM (rows_collapsed NM t)) (tree_paths NM t).
  Proof.
    intros Hsf. split; [|split].
    - unfold rows_plain. rewrite (shown_of_full _ _ (decode_full_plain NM t Hsf)).
      rewrite tree_paths_eq, flat_map_flat_map. apply flat_map_ext. intros c.
      rewrite <- rchild_nodes_paths. apply flat_map_ext_Forall.
      eapply Forall_impl; [|apply rchild_nodes_single].
      intros [[[pp chain] y] lf] [n E]. subst chain. reflexivity.
    - apply shown_of_account, collapse_last_accounts, Hsf.
    - apply shown_of_account, collapsed_accounts, Hsf.
  Qed.

  (** the same, node by node: every node of the tree is shown in every mode, in
      the row in which its last segment is printed, with an amount equal (the
      node starts the row) or Go-equal (the node was joined to its parent's
      row) to its total - when [==] is transitive *)
  Theorem every_node_total_shown (t : tree) :
    slash_free_below NM t -> go_eq_transitive NM ->
    forall rows, rows = print_node NM false 0 t \/ rows = print_node NM true 0 t \/ rows = print_collapsed NM t ->
    forall p x, In (p, x) (tree_paths NM t) ->
      exists y, In (p, y) (shown_paths NM rows) /\ (y = x \/ t_eqb NM y x = true).
  Proof.
    intros Hsf Htr rows Hrows p x Hp.
    assert (H : Forall2 same (shown_paths NM rows) (tree_paths NM t)).
    { destruct Hrows as [E|[E|E]]; subst rows; apply shown_of_account.
      - apply plain_accounts, Hsf.
      - apply collapse_last_accounts, Hsf.
      - apply collapsed_accounts, Hsf. }
    destruct (Forall2_In_r _ _ _ _ H Hp) as [[q y] [Hq [Hpath Hamt]]].
    cbn [fst snd] in Hpath, Hamt. subst q. exists y. split; [exact Hq|].
    apply go_eq_chain_trans; assumption.
  Qed.

  (** ** every ROW carries an amount Go-equal-linked to the total of the node its full path names *)
  Lemma split_on_ne (c : N) (s0 : bytes) : split_on c s0 <> [].
  Proof.
    induction s0 as [|a r IH]; cbn [split_on]; [discriminate|].
    destruct (N.eqb a c); [discriminate|]. destruct (split_on c r); [congruence|discriminate].
  Qed.

  Lemma decode_in_own_from (rows : list row) :
    forall st p y lf, In (p, y, lf) (decode_from NM st rows) ->
      exists pp own, p = pp ++ own /\ own <> [] /\ In (pp, own, y) (decode_own_from NM st rows).
  Proof.
    induction rows as [|[[x lvl] lab] rest IH]; intros st p y lf Hin; [destruct Hin|].
    cbn [decode_from decode_own_from] in *. destruct Hin as [E|Hin].
    - inversion E; subst p y lf. eexists _, _. split; [reflexivity|]. split; [apply split_on_ne|].
      left. reflexivity.
    - destruct (IH _ _ _ _ Hin) as [pp [own [E [Hne Ho]]]]. exists pp, own.
      split; [exact E|]. split; [exact Hne|]. right. exact Ho.
  Qed.

  Lemma decode_in_shown (rows : list row) p y lf :
    In (p, y, lf) (decode NM rows) -> In (p, y) (shown_paths NM rows).
  Proof.
    intros Hin. destruct (decode_in_own_from rows [] p y lf Hin) as [pp [own [E [Hne Ho]]]]. subst p.
    unfold shown_paths. apply in_flat_map. exists (pp, own, y). split; [exact Ho|].
    apply in_map_iff. exists own. split; [reflexivity|].
    rewrite <- (app_nil_r own) at 2. apply In_prefixes, Hne.
  Qed.

  (** [collapse_last_rows_are_nodes] / [collapsed_rows_are_nodes] without
      [chain_const_below], up to Go-equality of the amount *)
  Theorem rows_are_nodes_go_equal (t : tree) :
    slash_free_below NM t ->
    forall rows, rows = print_node NM false 0 t \/ rows = print_node NM true 0 t \/ rows = print_collapsed NM t ->
    forall p y lf, In (p, y, lf) (decode NM rows) ->
      exists x, In (p, x) (tree_paths NM t) /\ go_eq_chain NM y x.
  Proof.
    intros Hsf rows Hrows p y lf Hin. apply decode_in_shown in Hin.
    assert (H : Forall2 same (shown_paths NM rows) (tree_paths NM t)).
    { destruct Hrows as [E|[E|E]]; subst rows; apply shown_of_account.
      - apply plain_accounts, Hsf.
      - apply collapse_last_accounts, Hsf.
      - apply collapsed_accounts, Hsf. }
    destruct (Forall2_In_l _ _ _ _ H Hin) as [[q x] [Hq [Hpath Hamt]]].
    cbn [fst snd] in Hpath, Hamt. subst q. exists x. split; assumption.
  Qed.

  (** ** the leaves without any hypothesis on the totals *)
  Theorem collapse_last_leaves_go_equal (t : tree) :
    slash_free_below NM t ->
    Forall2 same (leaf_rows NM (print_node NM true 0 t)) (tree_leaves NM t).
  Proof.
    intros Hsf. rewrite leaf_rows_eq, decode_collapse_last by assumption.
    rewrite cl_nodes_children, tree_leaves_eq, flat_map_flat_map.
    apply Forall2_flat_map, Forall_forall. intros c _. apply cl_child_leaves_go.
  Qed.

  Theorem collapsed_leaves_go_equal (t : tree) :
    slash_free_below NM t ->
    Forall2 same (leaf_rows NM (print_collapsed NM t)) (tree_leaves NM t).
  Proof.
    intros Hsf. rewrite leaf_rows_eq, decode_collapsed by assumption.
    rewrite tree_leaves_eq, flat_map_flat_map.
    apply Forall2_flat_map, Forall_forall. intros c _. unfold dj_child.
    apply dj_leaves_go, gec_refl.
  Qed.

  Lemma same_eq (l m : list (list bytes * T)) : go_eq_is_eq NM -> Forall2 same l m -> l = m.
  Proof.
    intros Heq H. induction H as [|[p y] [q x] l m [Hp Hx] _ IH]; [reflexivity|].
    cbn [fst snd] in Hp, Hx. subst q. rewrite (go_eq_chain_eq Heq y x Hx), IH. reflexivity.
  Qed.

  (** where Go-equal amounts are equal ([ZNum]; not float64: [-0 == +0]) the
      hypothesis "no logged name is a path-prefix of another" is no longer
      needed for the leaves *)
  Theorem collapse_last_leaves_exact (t : tree) :
    go_eq_is_eq NM -> slash_free_below NM t ->
    leaf_rows NM (print_node NM true 0 t) = tree_leaves NM t.
  Proof. intros Heq Hsf. apply same_eq; [exact Heq|]. apply collapse_last_leaves_go_equal, Hsf. Qed.

  Theorem collapsed_leaves_exact (t : tree) :
    go_eq_is_eq NM -> slash_free_below NM t ->
    leaf_rows NM (print_collapsed NM t) = tree_leaves NM t.
  Proof. intros Heq Hsf. apply same_eq; [exact Heq|]. apply collapsed_leaves_go_equal, Hsf. Qed.

  Theorem modes_agree_exact (t : tree) :
    go_eq_is_eq NM -> slash_free_below NM t ->
    leaf_rows NM (rows_plain NM t) = tree_leaves NM t /\
    leaf_rows NM (rows_collapse_last NM t) = leaf_rows NM (rows_plain NM t) /\
    leaf_rows NM (rows_collapsed NM t) = leaf_rows NM (rows_plain NM t).
  Proof.
    intros Heq Hsf. unfold rows_plain, rows_collapse_last, rows_collapsed.
    rewrite plain_leaves, collapse_last_leaves_exact, collapsed_leaves_exact by assumption.
    repeat split.
  Qed.

  (** without any law: the three modes show the same leaf paths, the amounts
      of the two collapsing modes are linked to the plain ones by Go-equalities *)
  Theorem modes_agree_go_equal (t : tree) :
    slash_free_below NM t ->
    leaf_rows NM (rows_plain NM t) = tree_leaves NM t /\
    Forall2 same (leaf_rows NM (rows_collapse_last NM t)) (leaf_rows NM (rows_plain NM t)) /\
    Forall2 same (leaf_rows NM (rows_collapsed NM t)) (leaf_rows NM (rows_plain NM t)).
  Proof.
    intros Hsf. unfold rows_plain, rows_collapse_last, rows_collapsed.
    rewrite plain_leaves by assumption. split; [reflexivity|]. split.
    - apply collapse_last_leaves_go_equal, Hsf.
    - apply collapsed_leaves_go_equal, Hsf.
  Qed.

  (** * Lifted to the reporter: [balance_rows] on the ordered tree *)
  Lemma balance_rows_eq (pi : list bytes -> list bytes) (collapse cl : bool) (root : tree) :
    balance_rows NM pi collapse cl root =
    if collapse then rows_collapsed NM (order_tree NM pi root)
    else if cl then rows_collapse_last NM (order_tree NM pi root)
         else rows_plain NM (order_tree NM pi root).
  Proof. unfold balance_rows. destruct collapse, cl; reflexivity. Qed.

  Theorem balance_rows_leaves (pi : list bytes -> list bytes) (collapse cl : bool) (root : tree) :
    slash_free_below NM (order_tree NM pi root) ->
    chain_const_below NM (order_tree NM pi root) ->
    leaf_rows NM (balance_rows NM pi collapse cl root) = tree_leaves NM (order_tree NM pi root).
  Proof.
    intros Hsf Hcc. rewrite balance_rows_eq.
    destruct collapse; [|destruct cl].
    - apply collapsed_leaves; assumption.
    - apply collapse_last_leaves; assumption.
    - apply plain_leaves; assumption.
  Qed.

  (** every display mode shows the same leaf paths with the same amounts *)
  Theorem balance_rows_modes_agree (pi : list bytes -> list bytes) (root : tree) :
    slash_free_below NM (order_tree NM pi root) ->
    chain_const_below NM (order_tree NM pi root) ->
    forall collapse cl collapse' cl',
      leaf_rows NM (balance_rows NM pi collapse cl root) =
      leaf_rows NM (balance_rows NM pi collapse' cl' root).
  Proof.
    intros Hsf Hcc collapse cl collapse' cl'.
    rewrite !balance_rows_leaves by assumption. reflexivity.
  Qed.

  (** ... and never drops a branch (no hypothesis on the totals) *)
  Theorem balance_rows_never_drops (pi : list bytes -> list bytes) (collapse cl : bool) (root : tree) :
    slash_free_below NM (order_tree NM pi root) ->
    forall p x, In (p, x) (tree_paths NM (order_tree NM pi root)) ->
      In p (all_paths NM (balance_rows NM pi collapse cl root)).
  Proof.
    intros Hsf p x Hp. rewrite balance_rows_eq.
    destruct (never_drops_branch _ Hsf p x Hp) as [H1 [H2 H3]].
    destruct collapse; [|destruct cl]; assumption.
  Qed.

  (** ... and in every mode the rows account for the whole ordered tree, every
      node's total can be read from the rows (no hypothesis on the totals) *)
  Theorem balance_rows_account (pi : list bytes -> list bytes) (collapse cl : bool) (root : tree) :
    slash_free_below NM (order_tree NM pi root) ->
    rows_account_for NM (order_tree NM pi root) (balance_rows NM pi collapse cl root).
  Proof.
    intros Hsf. rewrite balance_rows_eq.
    destruct (modes_account_for_tree _ Hsf) as [H1 [H2 H3]].
    destruct collapse; [|destruct cl]; assumption.
  Qed.

  Theorem balance_rows_show_every_total (pi : list bytes -> list bytes) (collapse cl : bool) (root : tree) :
    slash_free_below NM (order_tree NM pi root) ->
    Forall2 same (shown_paths NM (balance_rows NM pi collapse cl root))
            (tree_paths NM (order_tree NM pi root)).
  Proof. intros Hsf. apply shown_of_account, balance_rows_account, Hsf. Qed.

  Theorem balance_rows_leaves_go_equal (pi : list bytes -> list bytes) (collapse cl : bool) (root : tree) :
    slash_free_below NM (order_tree NM pi root) ->
    Forall2 same (leaf_rows NM (balance_rows NM pi collapse cl root))
            (tree_leaves NM (order_tree NM pi root)).
  Proof.
    intros Hsf. rewrite balance_rows_eq.
    destruct collapse; [|destruct cl].
    - apply collapsed_leaves_go_equal, Hsf.
    - apply collapse_last_leaves_go_equal, Hsf.
    - unfold rows_plain. rewrite plain_leaves by assumption.
      clear. induction (tree_leaves NM (order_tree NM pi root)) as [|a l IH]; constructor;
        [split; [reflexivity|apply gec_refl]|exact IH].
  Qed.

  Theorem balance_rows_leaves_exact (pi : list bytes -> list bytes) (collapse cl : bool) (root : tree) :
    go_eq_is_eq NM -> slash_free_below NM (order_tree NM pi root) ->
    leaf_rows NM (balance_rows NM pi collapse cl root) = tree_leaves NM (order_tree NM pi root).
  Proof.
    intros Heq Hsf. apply same_eq; [exact Heq|]. apply balance_rows_leaves_go_equal, Hsf.
  Qed.

  Theorem balance_rows_only_joins (pi : list bytes -> list bytes) (collapse cl : bool) (root : tree) :
    slash_free_below NM (order_tree NM pi root) ->
    only_joins NM (order_tree NM pi root) (balance_rows NM pi collapse cl root).
  Proof.
    intros Hsf. rewrite balance_rows_eq.
    destruct (collapse_only_joins _ Hsf) as [H1 [H2 H3]].
    destruct collapse; [|destruct cl]; assumption.
  Qed.
End Theorems.

(** * Examples ([ZNum], by computation) *)
Notation ZN := (@Node ZNum) (only parsing).


(** the tree of [a/b/c:1, a/b/d:2, a/e/f:4, x/y:8] *)
Definition ex_root : tree ZNum :=
  tree_add_all ZNum (empty_root ZNum)
    [(b "a/b/c", 1%Z); (b "a/b/d", 2%Z); (b "a/e/f", 4%Z); (b "x/y", 8%Z)].
Definition ex_tree : tree ZNum := order_tree ZNum (fun l => l) ex_root.

Example ex_tree_value :
  ex_tree = ZN [] 0%Z
              [ZN (b "a") 7%Z
                 [ZN (b "b") 3%Z [ZN (b "c") 1%Z []; ZN (b "d") 2%Z []];
                  ZN (b "e") 4%Z [ZN (b "f") 4%Z []]];
               ZN (b "x") 8%Z [ZN (b "y") 8%Z []]].
Proof. vm_compute. reflexivity. Qed.

(** it meets the hypotheses of the theorems *)
Example ex_tree_hyps :
  slash_free_below ZNum ex_tree /\ chain_const_below ZNum ex_tree /\ wf_tree ZNum ex_tree.
Proof.
  rewrite ex_tree_value. split; [|split].
  - unfold slash_free_below. cbn [t_children].
    repeat (constructor; cbn [slash_free]);
      repeat split; try (intros H; cbn in H; repeat (destruct H as [H|H]; [discriminate H|]); exact H).
  - unfold chain_const_below. cbn [t_children].
    repeat (constructor; cbn [chain_const t_total]); repeat split.
  - cbn [wf_tree map t_name]. repeat split;
      repeat (constructor; [cbn [In]; intros H; repeat (destruct H as [H|H]; [discriminate H|]); exact H|]);
      constructor.
Qed.

Example ex_rows_plain :
  rows_plain ZNum ex_tree =
  [(7%Z, 0%nat, b "a"); (3%Z, 1%nat, b "b"); (1%Z, 2%nat, b "c"); (2%Z, 2%nat, b "d");
   (4%Z, 1%nat, b "e"); (4%Z, 2%nat, b "f"); (8%Z, 0%nat, b "x"); (8%Z, 1%nat, b "y")].
Proof. vm_compute. reflexivity. Qed.

Example ex_rows_collapse_last :
  rows_collapse_last ZNum ex_tree =
  [(7%Z, 0%nat, b "a"); (3%Z, 1%nat, b "b"); (1%Z, 2%nat, b "c"); (2%Z, 2%nat, b "d");
   (4%Z, 1%nat, b "e/f"); (8%Z, 0%nat, b "x/y")].
Proof. vm_compute. reflexivity. Qed.

Example ex_rows_collapsed :
  rows_collapsed ZNum ex_tree =
  [(7%Z, 0%nat, b "a"); (3%Z, 1%nat, b "b"); (1%Z, 2%nat, b "c"); (2%Z, 2%nat, b "d");
   (4%Z, 1%nat, b "e/f"); (8%Z, 0%nat, b "x/y")].
Proof. vm_compute. reflexivity. Qed.

Example ex_decode_collapsed :
  decode ZNum (rows_collapsed ZNum ex_tree) =
  [([b "a"], 7%Z, false); ([b "a"; b "b"], 3%Z, false);
   ([b "a"; b "b"; b "c"], 1%Z, true); ([b "a"; b "b"; b "d"], 2%Z, true);
   ([b "a"; b "e"; b "f"], 4%Z, true); ([b "x"; b "y"], 8%Z, true)].
Proof. vm_compute. reflexivity. Qed.

Example ex_leaves :
  tree_leaves ZNum ex_tree =
  [([b "a"; b "b"; b "c"], 1%Z); ([b "a"; b "b"; b "d"], 2%Z);
   ([b "a"; b "e"; b "f"], 4%Z); ([b "x"; b "y"], 8%Z)].
Proof. vm_compute. reflexivity. Qed.

Example ex_modes_equal :
  leaf_rows ZNum (rows_plain ZNum ex_tree) = tree_leaves ZNum ex_tree /\
  leaf_rows ZNum (rows_collapse_last ZNum ex_tree) = tree_leaves ZNum ex_tree /\
  leaf_rows ZNum (rows_collapsed ZNum ex_tree) = tree_leaves ZNum ex_tree.
Proof. vm_compute. repeat split. Qed.

(** the same through the general theorem (hypotheses met, mechanism exercised) *)
Example ex_modes_agree_by_theorem :
  leaf_rows ZNum (rows_collapsed ZNum ex_tree) = leaf_rows ZNum (rows_plain ZNum ex_tree).
Proof.
  destruct ex_tree_hyps as [Hsf [Hcc _]].
  exact (proj2 (proj2 (modes_agree ZNum ex_tree Hsf Hcc))).
Qed.

(** a deeper chain, a chain below a fork and an empty segment:
    [m/n/o/p:1, m/n/o/q:2, m//r:4] *)
Definition ex_tree2 : tree ZNum :=
  order_tree ZNum (fun l => l)
    (tree_add_all ZNum (empty_root ZNum)
       [(b "m/n/o/p", 1%Z); (b "m/n/o/q", 2%Z); (b "m//r", 4%Z)]).

Example ex2_rows_collapsed :
  rows_collapsed ZNum ex_tree2 =
  [(7%Z, 0%nat, b "m"); (4%Z, 1%nat, b "/r"); (3%Z, 1%nat, b "n/o");
   (1%Z, 2%nat, b "p"); (2%Z, 2%nat, b "q")].
Proof. vm_compute. reflexivity. Qed.

Example ex2_modes_equal :
  leaf_rows ZNum (rows_collapsed ZNum ex_tree2) =
    [([b "m"; []; b "r"], 4%Z); ([b "m"; b "n"; b "o"; b "p"], 1%Z); ([b "m"; b "n"; b "o"; b "q"], 2%Z)] /\
  leaf_rows ZNum (rows_plain ZNum ex_tree2) = leaf_rows ZNum (rows_collapsed ZNum ex_tree2) /\
  leaf_rows ZNum (rows_collapse_last ZNum ex_tree2) = leaf_rows ZNum (rows_collapsed ZNum ex_tree2).
Proof. vm_compute. repeat split. Qed.

(** * The laws of Go's [==] at the two instances *)

(** exact numbers: Go-equal amounts are equal *)
Lemma ZNum_go_eq_is_eq : go_eq_is_eq ZNum.
Proof.
  intros a c H. unfold t_eqb in H. cbn [ltb is_nan ZNum] in H.
  destruct (Z.ltb_spec a c), (Z.ltb_spec c a); cbn in H; try discriminate H. lia.
Qed.

Lemma ZNum_go_eq_transitive : go_eq_transitive ZNum.
Proof. apply go_eq_is_eq_transitive, ZNum_go_eq_is_eq. Qed.

(** float64 (what the program computes in): [==] is transitive ... *)
Lemma B64_go_eq_transitive : go_eq_transitive B64.
Proof.
  intros a c d Hac Hcd. unfold t_eqb in *.
  destruct (ltb B64 a c) eqn:L1; [discriminate Hac|].
  destruct (ltb B64 c a) eqn:L2; [discriminate Hac|].
  destruct (is_nan B64 a) eqn:Na; [discriminate Hac|].
  destruct (is_nan B64 c) eqn:Nc; [discriminate Hac|].
  destruct (ltb B64 c d) eqn:L3; [discriminate Hcd|].
  destruct (ltb B64 d c) eqn:L4; [discriminate Hcd|].
  destruct (is_nan B64 d) eqn:Nd; [cbn in Hcd; discriminate Hcd|].
  pose proof PresentationFloatOrder.B64_weak_order as W.
  rewrite (lwo_incomp B64 _ W a c d Na Nc Nd L1 L2 L3 L4).
  rewrite (lwo_incomp B64 _ W d c a Nd Nc Na L4 L3 L2 L1).
  reflexivity.
Qed.

(** ... but Go-equal amounts need not be equal: [-0 == +0] *)
Example B64_go_eq_is_not_eq : ~ go_eq_is_eq B64.
Proof.
  intros H. specialize (H (f_of_Z 0) (mul B64 (neg_one B64) (f_of_Z 0))).
  assert (E : t_eqb B64 (f_of_Z 0) (mul B64 (neg_one B64) (f_of_Z 0)) = true) by (vm_compute; reflexivity).
  specialize (H E). vm_compute in H. discriminate H.
Qed.

(** * A logged name that IS a path-prefix of another, after fix 3cc3ec3

    entries [a:1, a/b:2]: node [a] has total 3 and the sole child [b] with
    total 2.  Before the fix the two collapsing modes printed the single row
    [3 | a/b]; now the chain ends at [a], which gets its own row. *)
Definition bad_tree : tree ZNum :=
  order_tree ZNum (fun l => l)
    (tree_add_all ZNum (empty_root ZNum) [(b "a", 1%Z); (b "a/b", 2%Z)]).

Example bad_tree_value : bad_tree = ZN [] 0%Z [ZN (b "a") 3%Z [ZN (b "b") 2%Z []]].
Proof. vm_compute. reflexivity. Qed.

(** the tree is not [chain_const_below] (so the theorems with that hypothesis do not apply) ... *)
Example prefix_name_breaks_chain_const :
  slash_free_below ZNum bad_tree /\ wf_tree ZNum bad_tree /\ ~ chain_const_below ZNum bad_tree.
Proof.
  rewrite bad_tree_value. split; [|split].
  - unfold slash_free_below. cbn [t_children].
    repeat (constructor; cbn [slash_free]);
      repeat split; try (intros H; cbn in H; repeat (destruct H as [H|H]; [discriminate H|]); exact H).
  - cbn [wf_tree map t_name]. repeat split;
      repeat (constructor; [cbn [In]; intros H; repeat (destruct H as [H|H]; [discriminate H|]); exact H|]);
      constructor.
  - unfold chain_const_below. cbn [t_children]. intros H.
    inversion H as [|c r Hc _]. cbn [chain_const t_total] in Hc.
    destruct Hc as [Hc _]. discriminate Hc.
Qed.

(** ... and yet all three modes now print the same two rows and show the leaf
    [a/b] with 2 (replaces [collapsed_leaves_refuted], which recorded the
    amounts 2 / 3 / 3 of the program before the fix) *)
Example bad_tree_rows_after_fix :
  rows_plain ZNum bad_tree = [(3%Z, 0%nat, b "a"); (2%Z, 1%nat, b "b")] /\
  rows_collapsed ZNum bad_tree = rows_plain ZNum bad_tree /\
  rows_collapse_last ZNum bad_tree = rows_plain ZNum bad_tree.
Proof. vm_compute. repeat split. Qed.

Example bad_tree_modes_agree_after_fix :
  leaf_rows ZNum (rows_plain ZNum bad_tree) = [([b "a"; b "b"], 2%Z)] /\
  leaf_rows ZNum (rows_collapsed ZNum bad_tree) = [([b "a"; b "b"], 2%Z)] /\
  leaf_rows ZNum (rows_collapse_last ZNum bad_tree) = [([b "a"; b "b"], 2%Z)] /\
  leaf_rows ZNum (rows_collapsed ZNum bad_tree) = tree_leaves ZNum bad_tree /\
  leaf_rows ZNum (rows_collapse_last ZNum bad_tree) = tree_leaves ZNum bad_tree.
Proof. vm_compute. repeat split. Qed.

(** the same through the general theorem, which does not ask for [chain_const_below] *)
Example bad_tree_modes_agree_by_theorem :
  leaf_rows ZNum (rows_collapsed ZNum bad_tree) = leaf_rows ZNum (rows_plain ZNum bad_tree).
Proof.
  destruct prefix_name_breaks_chain_const as [Hsf _].
  exact (proj2 (proj2 (modes_agree_exact ZNum bad_tree ZNum_go_eq_is_eq Hsf))).
Qed.

(** so at exact numbers the theorems hold WITHOUT [chain_const_below] (these
    replace [collapsed_leaves_without_hypothesis_refuted] and
    [collapse_last_leaves_without_hypothesis_refuted], which are false of the
    repaired program) *)
Theorem collapsed_leaves_without_hypothesis :
  forall t : tree ZNum, slash_free_below ZNum t ->
    leaf_rows ZNum (print_collapsed ZNum t) = tree_leaves ZNum t.
Proof. intros t Hsf. apply collapsed_leaves_exact; [exact ZNum_go_eq_is_eq|exact Hsf]. Qed.

Theorem collapse_last_leaves_without_hypothesis :
  forall t : tree ZNum, slash_free_below ZNum t ->
    leaf_rows ZNum (print_node ZNum true 0 t) = tree_leaves ZNum t.
Proof. intros t Hsf. apply collapse_last_leaves_exact; [exact ZNum_go_eq_is_eq|exact Hsf]. Qed.

(** the paths are all there ([a] is a prefix of both rows' full paths) *)
Example bad_tree_paths_kept :
  all_paths ZNum (rows_collapsed ZNum bad_tree) = [[b "a"]; [b "a"]; [b "a"; b "b"]] /\
  shown_paths ZNum (rows_collapsed ZNum bad_tree) = [([b "a"], 3%Z); ([b "a"; b "b"], 2%Z)].
Proof. vm_compute. split; reflexivity. Qed.

(** at float64 the exact statement still needs the hypothesis, but only for the
    sign of a zero: entries [a:0, a/b:-0] give [a] the total [+0] and [b] the
    total [-0]; [-0 == +0], so the chain is joined and the row of the leaf
    [a/b] shows [+0] where plain mode shows [-0] *)
Definition b64_zero : T B64 := f_of_Z 0.
Definition b64_neg_zero : T B64 := mul B64 (neg_one B64) (f_of_Z 0).
Definition signed_zero_tree : tree B64 :=
  order_tree B64 (fun l => l)
    (tree_add_all B64 (empty_root B64) [(b "a", b64_zero); (b "a/b", b64_neg_zero)]).

Example collapsed_leaves_without_hypothesis_refuted_b64 :
  leaf_rows B64 (rows_plain B64 signed_zero_tree) = [([b "a"; b "b"], b64_neg_zero)] /\
  leaf_rows B64 (rows_collapsed B64 signed_zero_tree) = [([b "a"; b "b"], b64_zero)] /\
  leaf_rows B64 (rows_collapse_last B64 signed_zero_tree) = [([b "a"; b "b"], b64_zero)] /\
  b64_zero <> b64_neg_zero /\ t_eqb B64 b64_neg_zero b64_zero = true.
Proof. vm_compute. repeat split. intros H. discriminate H. Qed.

(** * The example of fix 3cc3ec3: categories with entries of their own

    log [coffee 1, coffee/latte/large 2, tea/green/cup 4, milk 1, milk/whole 2] *)
Definition fix_log : list (bytes * Z) :=
  [(b "coffee", 1%Z); (b "coffee/latte/large", 2%Z); (b "tea/green/cup", 4%Z);
   (b "milk", 1%Z); (b "milk/whole", 2%Z)].
Definition fix_tree : tree ZNum :=
  order_tree ZNum (fun l => l) (tree_add_all ZNum (empty_root ZNum) fix_log).

Example fix_tree_value :
  fix_tree = ZN [] 0%Z
               [ZN (b "coffee") 3%Z [ZN (b "latte") 2%Z [ZN (b "large") 2%Z []]];
                ZN (b "milk") 3%Z [ZN (b "whole") 2%Z []];
                ZN (b "tea") 4%Z [ZN (b "green") 4%Z [ZN (b "cup") 4%Z []]]].
Proof. vm_compute. reflexivity. Qed.

Example fix_rows_plain :
  rows_plain ZNum fix_tree =
  [(3%Z, 0%nat, b "coffee"); (2%Z, 1%nat, b "latte"); (2%Z, 2%nat, b "large");
   (3%Z, 0%nat, b "milk"); (2%Z, 1%nat, b "whole");
   (4%Z, 0%nat, b "tea"); (4%Z, 1%nat, b "green"); (4%Z, 2%nat, b "cup")].
Proof. vm_compute. reflexivity. Qed.

(** [coffee] and [milk] have entries of their own: they keep their row, the
    sub-category is printed below with ITS amount; [tea/green/cup] is one chain *)
Example fix_rows_collapsed :
  rows_collapsed ZNum fix_tree =
  [(3%Z, 0%nat, b "coffee"); (2%Z, 1%nat, b "latte/large");
   (3%Z, 0%nat, b "milk"); (2%Z, 1%nat, b "whole");
   (4%Z, 0%nat, b "tea/green/cup")].
Proof. vm_compute. reflexivity. Qed.

Example fix_rows_collapse_last :
  rows_collapse_last ZNum fix_tree =
  [(3%Z, 0%nat, b "coffee"); (2%Z, 1%nat, b "latte/large");
   (3%Z, 0%nat, b "milk"); (2%Z, 1%nat, b "whole");
   (4%Z, 0%nat, b "tea"); (4%Z, 1%nat, b "green/cup")].
Proof. vm_compute. reflexivity. Qed.

(** every node's total is readable from the collapsed output: the visible
    paths with the amount of their row are exactly the nodes of the tree *)
Example fix_shown_collapsed :
  shown_paths ZNum (rows_collapsed ZNum fix_tree) =
  [([b "coffee"], 3%Z); ([b "coffee"; b "latte"], 2%Z); ([b "coffee"; b "latte"; b "large"], 2%Z);
   ([b "milk"], 3%Z); ([b "milk"; b "whole"], 2%Z);
   ([b "tea"], 4%Z); ([b "tea"; b "green"], 4%Z); ([b "tea"; b "green"; b "cup"], 4%Z)] /\
  shown_paths ZNum (rows_collapsed ZNum fix_tree) = tree_paths ZNum fix_tree /\
  shown_paths ZNum (rows_collapse_last ZNum fix_tree) = tree_paths ZNum fix_tree.
Proof. vm_compute. repeat split. Qed.

Example fix_tree_slash_free : slash_free_below ZNum fix_tree.
Proof.
  rewrite fix_tree_value. unfold slash_free_below. cbn [t_children].
  repeat (constructor; cbn [slash_free]);
    repeat split; try (intros H; cbn in H; repeat (destruct H as [H|H]; [discriminate H|]); exact H).
Qed.

(** the same through the general theorems (hypothesis met, mechanism exercised):
    the joined row [4 | tea/green/cup] stands for three nodes with equal totals *)
Example fix_joined_row_by_theorem :
  exists chain : list (bytes * Z),
    map fst chain = [b "tea"; b "green"; b "cup"] /\ joined_ok ZNum 4%Z chain /\
    incl (chain_paths ZNum [] chain) (tree_paths ZNum fix_tree).
Proof.
  destruct (collapse_joins_equal_totals ZNum fix_tree fix_tree_slash_free
              (print_collapsed ZNum fix_tree) (or_intror eq_refl)
              [] [b "tea"; b "green"; b "cup"] 4%Z) as [chain [H1 [H2 [H3 _]]]].
  - vm_compute. tauto.
  - exists chain. repeat split; assumption.
Qed.

Example fix_node_shown_by_theorem :
  exists y, In ([b "coffee"; b "latte"], y) (shown_paths ZNum (print_collapsed ZNum fix_tree)) /\
            (y = 2%Z \/ t_eqb ZNum y 2%Z = true).
Proof.
  apply (every_node_total_shown ZNum fix_tree fix_tree_slash_free ZNum_go_eq_transitive).
  - right. right. reflexivity.
  - vm_compute. tauto.
Qed.
