(** C15 at the level of a whole run: when standard output never fails, what a
    register-like command prints is the concatenation, over the days the walk
    selects (a list that does not depend on the reporter or on any presentation
    option), of what the reporter writes for each day, then its Flush output.
    Hence the per-day theorems (colour, totals switches, templates) lift to
    the complete output of [run_db_log]. *)
From Coq Require Import Lia.
From HP Require Import Base.Bytes Base.Utf8 Base.Num Model.Scanner Model.Parser Model.Elements Model.Resolver
  Model.Dates Model.Tree Model.Writer Model.Reporters Model.Cli Spec.PresentationSpec.
From HP Require Import Proofs.PresentationStrip Proofs.PresentationColour Proofs.PresentationLayout.
Local Open Scope N_scope.

(** *** the buffered writer in front of a sink that never fails *)
Definition nfw (g buf : bytes) : bw :=
  {| bw_buf := buf; bw_err := false; bw_sink := {| s_limit := None; s_got := g |} |}.

Lemma bw_flush_nfw : forall g buf, bw_flush (nfw g buf) = (nfw (g ++ buf) [], false).
Proof.
  intros g buf. unfold bw_flush, nfw. cbn [bw_err bw_buf bw_sink].
  destruct buf as [|c buf]; [rewrite app_nil_r; reflexivity|].
  unfold sink_write. cbn [s_limit s_got]. reflexivity.
Qed.

Lemma bw_write_nfw : forall g buf p, exists g' buf',
  bw_write (nfw g buf) p = (nfw g' buf', false) /\ g' ++ buf' = g ++ buf ++ p.
Proof.
  intros g buf p. unfold bw_write. cbn [nfw bw_err bw_buf bw_sink].
  destruct (Nat.leb (length p) (buf_size - length buf)).
  - exists g, (buf ++ p). split; reflexivity.
  - destruct buf as [|c buf].
    + exists (g ++ p), []. split; [reflexivity|]. rewrite app_nil_r. reflexivity.
    + set (avail := (buf_size - length (c :: buf))%nat).
      change {| bw_buf := (c :: buf) ++ firstn avail p; bw_err := false; bw_sink := {| s_limit := None; s_got := g |} |}
        with (nfw g ((c :: buf) ++ firstn avail p)).
      rewrite bw_flush_nfw. cbn [nfw bw_sink].
      destruct (Nat.leb (length (skipn avail p)) buf_size).
      * exists (g ++ (c :: buf) ++ firstn avail p), (skipn avail p). split; [reflexivity|].
        rewrite <- !app_assoc. rewrite firstn_skipn. reflexivity.
      * exists ((g ++ (c :: buf) ++ firstn avail p) ++ skipn avail p), []. split; [reflexivity|].
        rewrite app_nil_r. rewrite <- !app_assoc. rewrite firstn_skipn. reflexivity.
Qed.

Lemma bw_chunks_nfw : forall cs g buf, exists g' buf',
  bw_chunks (nfw g buf) cs = (nfw g' buf', false) /\ g' ++ buf' = g ++ buf ++ chunk_bytes cs.
Proof.
  induction cs as [|[p chk] cs IH]; intros g buf.
  - exists g, buf. split; [reflexivity|]. unfold chunk_bytes. cbn. rewrite app_nil_r. reflexivity.
  - cbn [bw_chunks]. destruct (bw_write_nfw g buf p) as (g1 & buf1 & E1 & C1). rewrite E1.
    cbn [andb]. destruct (IH g1 buf1) as (g2 & buf2 & E2 & C2).
    exists g2, buf2. split; [exact E2|].
    rewrite C2. unfold chunk_bytes. cbn [map concat fst]. fold (chunk_bytes cs).
    rewrite app_assoc, C1, <- !app_assoc. reflexivity.
Qed.

Section Run.
  Context (NM : Num).
  Notation T := (T NM).
  Notation elements := (elements NM).
  Notation db := (list (bytes * elements)).

  Section Walk.
    Context (R : reporter NM) (HR : process_never_fails NM R)
            (perm_day : nat -> list bytes -> list bytes) (perm_flush : list bytes -> list bytes)
            (toks : list ltoken) (bt et : option time).

    Notation cb := (walk_cb NM R perm_day toks bt et).

    (** the callback stops exactly when it returns an error *)
    Lemma walk_cb_stop : forall st ev,
      snd (fst (cb st ev)) = match snd (cb st ev) with Some _ => true | None => false end.
    Proof.
      intros [[rs i] wr] ev. unfold walk_cb. destruct ev as [n|e]; [|reflexivity].
      destruct (parse_date toks (header n)) as [c|]; [|reflexivity].
      destruct (in_interval bt et (time_of_civil c)); [|reflexivity].
      destruct (r_process NM R (perm_day i) rs _) as [[rs' chunks] perr].
      destruct (bw_chunks wr chunks) as [wr' werr]. reflexivity.
    Qed.

    Lemma walk_loop : forall evs rs i g buf,
      exists g' buf',
        fst (drive_loop NM cb evs (rs, i, nfw g buf))
        = (fst (feed_days NM R perm_day (fst (days_loop NM toks bt et evs i)) rs),
           (i + length (fst (days_loop NM toks bt et evs i)))%nat, nfw g' buf')
        /\ g' ++ buf' = g ++ buf ++ snd (feed_days NM R perm_day (fst (days_loop NM toks bt et evs i)) rs)
        /\ snd (drive_loop NM cb evs (rs, i, nfw g buf))
           = match snd (days_loop NM toks bt et evs i) with Some x => Some (Some x) | None => None end.
    Proof.
      induction evs as [|ev evs IH]; intros rs i g buf.
      - exists g, buf. cbn [drive_loop days_loop feed_days fst snd length].
        rewrite Nat.add_0_r, !app_nil_r. repeat split.
      - cbn [drive_loop days_loop]. unfold walk_cb at 1 3. unfold day_step.
        destruct ev as [n|e].
        + destruct (parse_date toks (header n)) as [c|].
          * destruct (in_interval bt et (time_of_civil c)).
            -- set (ln := Build_lognode NM (time_of_civil c) (merge_elements NM (elems n)) (meta n)).
               pose proof (HR (perm_day i) rs ln) as Hnf.
               destruct (r_process NM R (perm_day i) rs ln) as [[rs' chunks] perr] eqn:EP.
               cbn [snd] in Hnf. subst perr.
               destruct (bw_chunks_nfw chunks g buf) as (g1 & buf1 & E1 & C1). rewrite E1.
               destruct (IH rs' (S i) g1 buf1) as (g2 & buf2 & F1 & F2 & F3).
               destruct (days_loop NM toks bt et evs (S i)) as [l e] eqn:EL.
               cbn [fst snd] in F1, F2, F3 |- *. cbn [feed_days].
               rewrite EP. cbn [fst snd].
               destruct (feed_days NM R perm_day l rs') as [stf out] eqn:EF.
               cbn [fst snd] in F1, F2 |- *.
               exists g2, buf2. split; [|split].
               ++ rewrite F1. cbn [length]. f_equal. f_equal. lia.
               ++ rewrite F2. unfold process_bytes, process_chunks. rewrite EP. cbn [fst snd].
                  rewrite app_assoc, C1, <- !app_assoc. reflexivity.
               ++ exact F3.
            -- apply IH.
          * exists g, buf. cbn [fst snd feed_days length]. rewrite Nat.add_0_r, !app_nil_r. repeat split.
        + exists g, buf. cbn [fst snd feed_days length]. rewrite Nat.add_0_r, !app_nil_r. repeat split.
    Qed.

    Lemma drive_loop_app : forall {S E} (f : S -> event NM -> S * bool * option E) a c s,
      drive_loop NM f (a ++ c) s
      = match drive_loop NM f a s with
        | (s', Some e) => (s', Some e)
        | (s', None) => drive_loop NM f c s'
        end.
    Proof.
      intros S E f a c. induction a as [|ev a IH]; intros s; [reflexivity|].
      cbn [app drive_loop]. destruct (f s ev) as [[s' stop] e]. destruct stop; [reflexivity|apply IH].
    Qed.

    (** [drive] with the pending last record = the loop over all events *)
    Lemma drive_eof : forall evs last s,
      drive NM cb evs last ScanEOF s
      = (fst (drive_loop NM cb (evs ++ match last with Some n => [ENode n] | None => [] end) s),
         match snd (drive_loop NM cb (evs ++ match last with Some n => [ENode n] | None => [] end) s) with
         | Some e => option_map inl e
         | None => None
         end).
    Proof.
      intros evs last s. unfold drive. rewrite drive_loop_app.
      destruct (drive_loop NM cb evs s) as [s' [e|]]; [reflexivity|].
      destruct last as [n|]; [|reflexivity].
      cbn [drive_loop]. pose proof (walk_cb_stop s' (ENode n)) as Hs.
      destruct (cb s' (ENode n)) as [[s'' stop] e]. cbn [fst snd] in Hs. subst stop.
      destruct e; reflexivity.
    Qed.

    Definition map_err (r : option (cerr + scan_end)) : option cerr :=
      match r with
      | None => None
      | Some (inl e) => Some e
      | Some (inr ScanTooLong) => Some (EScan true)
      | Some (inr _) => Some (EScan false)
      end.

    Lemma walk_stream : forall data f rs g buf,
      exists g' buf' i',
        fst (parse_stream NM cb data f (rs, O, nfw g buf))
        = (fst (feed_days NM R perm_day (fst (stream_days NM toks bt et data f)) rs), i', nfw g' buf')
        /\ map_err (snd (parse_stream NM cb data f (rs, O, nfw g buf))) = snd (stream_days NM toks bt et data f)
        /\ g' ++ buf' = g ++ buf ++ snd (feed_days NM R perm_day (fst (stream_days NM toks bt et data f)) rs).
    Proof.
      intros data f rs g buf. unfold parse_stream, stream_days.
      destruct (scan data f) as [lines fin].
      destruct (parse_lines NM lines) as [evs last].
      destruct fin.
      - rewrite drive_eof. cbn [fst snd].
        destruct (walk_loop (evs ++ match last with Some n => [ENode n] | None => [] end) rs O g buf)
          as (g' & buf' & F1 & F2 & F3).
        exists g', buf', (0 + length (fst (days_loop NM toks bt et (evs ++ match last with Some n => [ENode n] | None => [] end) O)))%nat.
        rewrite F1, F3. split; [reflexivity|]. split; [|exact F2].
        destruct (snd (days_loop NM toks bt et (evs ++ match last with Some n => [ENode n] | None => [] end) O)) as [x|];
          reflexivity.
      - unfold drive. destruct (walk_loop evs rs O g buf) as (g' & buf' & F1 & F2 & F3).
        destruct (drive_loop NM cb evs (rs, O, nfw g buf)) as [s' res]. cbn [fst snd] in F1, F3. subst s' res.
        destruct (days_loop NM toks bt et evs O) as [l e]. cbn [fst snd] in *.
        exists g', buf', (0 + length l)%nat.
        destruct e as [x|]; cbn [fst snd]; (split; [reflexivity|]); (split; [reflexivity|exact F2]).
      - unfold drive. destruct (walk_loop evs rs O g buf) as (g' & buf' & F1 & F2 & F3).
        destruct (drive_loop NM cb evs (rs, O, nfw g buf)) as [s' res]. cbn [fst snd] in F1, F3. subst s' res.
        destruct (days_loop NM toks bt et evs O) as [l e]. cbn [fst snd] in *.
        exists g', buf', (0 + length l)%nat.
        destruct e as [x|]; cbn [fst snd]; (split; [reflexivity|]); (split; [reflexivity|exact F2]).
    Qed.
    Lemma walk_opened : forall o rs g buf,
      exists g' buf' i',
        parse_opened NM cb o (rs, O, nfw g buf)
        = ((fst (feed_days NM R perm_day (fst (opened_days NM toks bt et o)) rs), i', nfw g' buf'),
           snd (opened_days NM toks bt et o))
        /\ g' ++ buf' = g ++ buf ++ snd (feed_days NM R perm_day (fst (opened_days NM toks bt et o)) rs).
    Proof.
      intros o rs g buf.
      assert (G : forall data f, exists g' buf' i',
        (let '(s', r) := parse_stream NM cb data f (rs, O, nfw g buf) in
         (s', match r with
              | None => None
              | Some (inl e) => Some e
              | Some (inr ScanTooLong) => Some (EScan true)
              | Some (inr _) => Some (EScan false)
              end))
        = ((fst (feed_days NM R perm_day (fst (stream_days NM toks bt et data f)) rs), i', nfw g' buf'),
           snd (stream_days NM toks bt et data f))
        /\ g' ++ buf' = g ++ buf ++ snd (feed_days NM R perm_day (fst (stream_days NM toks bt et data f)) rs)).
      { intros data f. destruct (walk_stream data f rs g buf) as (g' & buf' & i' & F1 & F2 & F3).
        exists g', buf', i'. split; [|exact F3].
        destruct (parse_stream NM cb data f (rs, O, nfw g buf)) as [s' r]. cbn [fst snd] in F1, F2.
        rewrite <- F1, <- F2. reflexivity. }
      unfold parse_opened, opened_days. destruct o as [data f|]; apply G.
    Qed.

    (** the walk and FinishReport: final sink contents, returned error, final reporter state *)
    Theorem walk_and_finish_nofail : forall o g buf,
      exists wr3,
        walk_and_finish NM R perm_day perm_flush toks bt et o (nfw g buf)
        = (wr3, snd (opened_days NM toks bt et o),
           fst (feed_days NM R perm_day (fst (opened_days NM toks bt et o)) (r_init NM R)))
        /\ s_got (bw_sink wr3)
           = g ++ buf ++ snd (feed_days NM R perm_day (fst (opened_days NM toks bt et o)) (r_init NM R))
             ++ chunk_bytes (r_flush NM R perm_flush
                               (fst (feed_days NM R perm_day (fst (opened_days NM toks bt et o)) (r_init NM R)))).
    Proof.
      intros o g buf. unfold walk_and_finish.
      destruct (walk_opened o (r_init NM R) g buf) as (g1 & buf1 & i1 & E1 & C1). rewrite E1.
      set (rsf := fst (feed_days NM R perm_day (fst (opened_days NM toks bt et o)) (r_init NM R))) in *.
      destruct (bw_chunks_nfw (r_flush NM R perm_flush rsf) g1 buf1) as (g2 & buf2 & E2 & C2). rewrite E2.
      rewrite bw_flush_nfw.
      exists (nfw (g2 ++ buf2) []). split.
      - destruct (snd (opened_days NM toks bt et o)); reflexivity.
      - cbn [nfw bw_sink s_got]. rewrite C2. rewrite app_assoc, C1, <- !app_assoc. reflexivity.
    Qed.
  End Walk.

  (** *** [run_db_log] when standard output never fails *)
  Theorem run_db_log_nofail : forall (w : world) (op : options) (mk : db -> reporter NM) bt et odb olog d toks,
    w_sink w = None ->
    (forall d', process_never_fails NM (mk d')) ->
    open_all w [op_db op; op_log op] = Some [odb; olog] ->
    resolved_db NM w op odb = inr d ->
    tokenize (op_fmt op) = Some toks ->
    let days := fst (opened_days NM toks bt et olog) in
    let fd := feed_days NM (mk d) (o_day (w_or w)) days (r_init NM (mk d)) in
    out_stdout (run_db_log NM w op mk bt et)
      = snd fd ++ chunk_bytes (r_flush NM (mk d) (o_flush (w_or w)) (fst fd))
    /\ out_status (run_db_log NM w op mk bt et)
       = match r_panic NM (mk d) (fst fd) with
         | Some site => Panicked site
         | None => status_of (snd (opened_days NM toks bt et olog))
         end.
  Proof.
    intros w op mk bt et odb olog d toks Hs Hnf Ho Hr Ht days fd.
    unfold run_db_log. rewrite Ho, Hr, Ht.
    assert (Hw : new_writer w = nfw [] []).
    { unfold new_writer, bw_new, nfw. rewrite Hs. reflexivity. }
    rewrite Hw.
    destruct (walk_and_finish_nofail (mk d) (Hnf d) (o_day (w_or w)) (o_flush (w_or w)) toks bt et olog [] [])
      as (wr3 & E & C).
    rewrite E. fold days. fold fd.
    destruct (r_panic NM (mk d) (fst fd)) as [site|]; cbn [finish out_stdout out_status]; (split; [exact C|reflexivity]).
  Qed.

  (** before the walk starts nothing is written, whatever the reporter *)
  Lemma run_db_log_early : forall (w : world) (op : options) (mk1 mk2 : db -> reporter NM) bt et,
    (forall odb olog d toks,
       open_all w [op_db op; op_log op] = Some [odb; olog] -> resolved_db NM w op odb = inr d ->
       tokenize (op_fmt op) = Some toks -> False) ->
    run_db_log NM w op mk1 bt et = run_db_log NM w op mk2 bt et.
  Proof.
    intros w op mk1 mk2 bt et H. unfold run_db_log.
    destruct (open_all w [op_db op; op_log op]) as [[|odb [|olog [|x l]]]|] eqn:Ho; try reflexivity.
    destruct (resolved_db NM w op odb) as [e|d] eqn:Hr; [reflexivity|].
    destruct (tokenize (op_fmt op)) as [toks|] eqn:Ht; [|reflexivity].
    exfalso. exact (H odb olog d toks eq_refl Hr eq_refl).
  Qed.
End Run.
