(** WP28, part 4: the configuration file as text inside [Cli.load_config] / [Cli.load] / [Cli.run]:
    a world whose configuration file is the regular file [render_config e] behaves as the world
    with the entry [FConfig e]; the settings precedence of C16 for every text of the modelled
    subset; a text gcfg rejects fails the command. *)
From Coq Require Import Lia ZifyBool.
From HP Require Import Base.Bytes Base.Utf8 Base.Num Model.Scanner Model.Parser Model.Elements Model.Resolver
  Model.Dates Model.Tree Model.Writer Model.Reporters Model.Config Model.Cli Spec.ConfigSpec.
From HP Require Import Proofs.Settings Proofs.SettingsNoDb Proofs.ConfigLine Proofs.ConfigRun Proofs.ConfigRender.

(** * [load_config] on a regular file *)
Theorem load_config_text : forall w i data,
  lookup (config_path w i) (w_fs w) = Some (FFile data) ->
  load_config w i = match parse_config data with
                    | CfgOk f => inr (cfg_of_fields f)
                    | CfgError => inl EConfigSyntax
                    | CfgUnmodelled => inl (EUnmodelled (b "config file syntax"))
                    end.
Proof. intros w i data H. rewrite load_config_spec, H. reflexivity. Qed.

Lemma load_config_text_ok : forall w i data f,
  lookup (config_path w i) (w_fs w) = Some (FFile data) -> parse_config data = CfgOk f ->
  load_config w i = inr (cfg_of_fields f).
Proof. intros w i data f H E. rewrite (load_config_text w i data H), E. reflexivity. Qed.

(** * a text gcfg rejects: the command fails before it reads or prints anything *)
Theorem config_text_error : forall NM w i data,
  lookup (config_path w i) (w_fs w) = Some (FFile data) -> parse_config data = CfgError ->
  load w i = inl EConfigSyntax /\
  run NM w i = {| out_stdout := []; out_status := Failed EConfigSyntax |}.
Proof.
  intros NM w i data H E.
  assert (L : load w i = inl EConfigSyntax).
  { apply load_config_inl. rewrite (load_config_text w i data H), E. reflexivity. }
  split; [exact L|]. unfold run. rewrite L. reflexivity.
Qed.

(** a text outside the modelled subset: the model says so and nothing else *)
Theorem config_text_unmodelled : forall NM w i data,
  lookup (config_path w i) (w_fs w) = Some (FFile data) -> parse_config data = CfgUnmodelled ->
  run NM w i = {| out_stdout := []; out_status := Failed (EUnmodelled (b "config file syntax")) |}.
Proof.
  intros NM w i data H E.
  assert (L : load w i = inl (EUnmodelled (b "config file syntax"))).
  { apply load_config_inl. rewrite (load_config_text w i data H), E. reflexivity. }
  unfold run. rewrite L. reflexivity.
Qed.

(** * settings precedence (Props/C16.v) for a configuration file given as text *)
Theorem settings_precedence_text : forall w i op data f,
  lookup (config_path w i) (w_fs w) = Some (FFile data) -> parse_config data = CfgOk f ->
  load w i = inr op ->
  op_db op = (if i_no_database i then dev_null
              else or_default (first_some [i_f_db i; i_e_db i; file_string (cf_db f)]) default_db) /\
  op_log op = or_default (first_some [i_f_log i; i_e_log i; file_string (cf_log f)]) default_log /\
  op_fmt op = or_default (first_some [i_f_fmt i; i_e_fmt i; file_string (cf_fmt f)]) default_fmt /\
  op_depth op = or_default (first_some [i_f_depth i; i_e_depth i; nonzero (cf_depth f)]) default_depth /\
  exists toks, tokenize (op_fmt op) = Some toks /\
    match i_f_today i with
    | Some s => exists c, parse_date toks s = Some c /\ op_now op = time_of_civil c
    | None => op_now op = time_of_civil (civ (or_default (first_some [cf_now f]) (w_clock w)))
    end.
Proof.
  intros w i op data f H E Hl.
  exact (settings_precedence w i op (cfg_of_fields f) Hl (load_config_text_ok w i data f H E)).
Qed.

(** * the harness's rendering of five values *)
Theorem load_config_rendered : forall w i e, cfg_plain e = true ->
  lookup (config_path w i) (w_fs w) = Some (FFile (render_config e)) ->
  load_config w i = inr e.
Proof.
  intros w i e He H. rewrite load_config_spec, H. apply read_config_render. exact He.
Qed.

Lemma load_of_load_config : forall w w' i,
  w_tz w' = w_tz w -> w_clock w' = w_clock w ->
  load_config w' i = load_config w i -> load w' i = load w i.
Proof.
  intros w w' i Htz Hck Hc. unfold load. rewrite Hc.
  destruct (load_config w i) as [e|cfg]; [reflexivity|]. cbv zeta. rewrite Hck.
  destruct (tokenize (pick_string (i_f_fmt i) (i_e_fmt i) (ce_fmt cfg) default_fmt)) as [toks|]; [|reflexivity].
  destruct (i_f_today i) as [s|].
  - destruct (parse_date toks s) as [c|]; [|reflexivity].
    rewrite !(pick_period_frame w w') by assumption. reflexivity.
  - rewrite !(pick_period_frame w w') by assumption. reflexivity.
Qed.

(** the world with the text file and the world with the entries load alike *)
Theorem load_config_file_eq_entries : forall w w' i e,
  cfg_plain e = true ->
  same_but_fs w w' ->
  lookup (config_path w i) (w_fs w) = Some (FFile (render_config e)) ->
  lookup (config_path w i) (w_fs w') = Some (FConfig e) ->
  load_config w i = inr e /\ load_config w' i = inr e /\ load w' i = load w i.
Proof.
  intros w w' i e He (Hd & Htz & Hck & _) H H'.
  assert (L : load_config w i = inr e) by (apply load_config_rendered; assumption).
  assert (Hp : config_path w' i = config_path w i) by (unfold config_path; rewrite Hd; reflexivity).
  assert (L' : load_config w' i = inr e) by (rewrite load_config_spec, Hp, H'; reflexivity).
  split; [exact L|]. split; [exact L'|]. apply load_of_load_config; [exact Htz|exact Hck|]. rewrite L, L'. reflexivity.
Qed.

(** ... and every command runs alike, when the configuration file is not also the recipe book, the
    log or the linted file (these are opened as data: a regular file gives its bytes, an entry of
    the model's file system gives none) *)
Theorem run_config_file_eq_entries : forall NM w w' i e,
  cfg_plain e = true ->
  agree_off (config_path w i) w w' ->
  lookup (config_path w i) (w_fs w) = Some (FFile (render_config e)) ->
  lookup (config_path w i) (w_fs w') = Some (FConfig e) ->
  (forall op, load w i = inr op ->
     (op_db op = dev_null \/ config_path w i <> op_db op) /\ config_path w i <> op_log op) ->
  (forall f, i_cmd i = CLint f -> config_path w i <> f) ->
  run NM w' i = run NM w i.
Proof.
  intros NM w w' i e He Ha H H' Hfiles Hlint. pose proof Ha as (Hs & Hoff).
  assert (Hof : forall q, q <> config_path w i -> open_file w' q = open_file w q)
    by (intros q Hq; eapply open_file_frame; eassumption).
  destruct (load_config_file_eq_entries w w' i e He Hs H H') as (_ & _ & Hload).
  unfold run. rewrite Hload.
  destruct (load w i) as [er|op] eqn:El; [reflexivity|].
  destruct (Hfiles op eq_refl) as [Hdb Hlg].
  assert (Hl : open_file w' (op_log op) = open_file w (op_log op)).
  { apply Hof. intros Heq. apply Hlg. symmetry. exact Heq. }
  assert (Hdd : open_file w' (op_db op) = open_file w (op_db op)).
  { destruct Hdb as [Hdb|Hdb]; [rewrite Hdb; reflexivity|]. apply Hof. intros Heq. apply Hdb. symmetry. exact Heq. }
  destruct (i_cmd i) as [| |file|arg| | | | | | | |arg| ] eqn:Ec.
  - apply run_db_log_frame; assumption.
  - apply run_db_log_frame; assumption.
  - apply run_lint_frame; [assumption|]. apply Hof. intros Heq. apply (Hlint file eq_refl). symmetry. exact Heq.
  - apply run_element_total_frame; assumption.
  - apply run_db_log_frame; assumption.
  - apply run_log_frame; assumption.
  - apply run_db_log_frame; assumption.
  - apply run_log_frame; assumption.
  - apply run_csv_db_frame; assumption.
  - apply run_csv_db_resolved_frame; assumption.
  - apply run_stats_frame; assumption.
  - pose proof Hs as (_ & Htz & _). rewrite (time_from_string_frame w w') by assumption.
    destruct (time_from_string w (op_now op) (rc_date (op_rc op)) arg) as [er|t]; [reflexivity|].
    apply run_db_log_frame; assumption.
  - apply run_log_frame; assumption.
Qed.

(** the five settings, the configuration file being the text the harness writes for [e] *)
Theorem settings_precedence_rendered : forall w i op e,
  cfg_plain e = true ->
  lookup (config_path w i) (w_fs w) = Some (FFile (render_config e)) ->
  load w i = inr op ->
  op_db op = (if i_no_database i then dev_null
              else or_default (first_some [i_f_db i; i_e_db i; file_string (ce_db e)]) default_db) /\
  op_log op = or_default (first_some [i_f_log i; i_e_log i; file_string (ce_log e)]) default_log /\
  op_fmt op = or_default (first_some [i_f_fmt i; i_e_fmt i; file_string (ce_fmt e)]) default_fmt /\
  op_depth op = or_default (first_some [i_f_depth i; i_e_depth i; nonzero (ce_depth e)]) default_depth /\
  exists toks, tokenize (op_fmt op) = Some toks /\
    match i_f_today i with
    | Some s => exists c, parse_date toks s = Some c /\ op_now op = time_of_civil c
    | None => op_now op = time_of_civil (civ (or_default (first_some [ce_now e]) (w_clock w)))
    end.
Proof.
  intros w i op e He H Hl. exact (settings_precedence w i op e Hl (load_config_rendered w i e He H)).
Qed.
