(** WP02 (C01) – non-vacuity: concrete books over [ZNum] meet the hypotheses of the
    theorems and exercise the mechanisms; the hypotheses that cannot be dropped. *)
From Coq Require Import Lia ZifyBool ZifyNat ZifyN Permutation Sorted.
From Coq Require Import Floats.SpecFloat.
From HP Require Import Base.Bytes Base.Num Base.GoFloat Model.Elements Model.Resolver Spec.ResolverSpec.
From HP Require Import Proofs.ResolverValueBytes Proofs.ResolverValueStruct Proofs.ResolverValueSum
  Proofs.ResolverValueIdem Proofs.ResolverValueOrder Proofs.ResolverValuePaths.

(** ** [ZNum] is a lawful instance *)
Lemma ZNum_CSemiring : CSemiring ZNum.
Proof.
  constructor; cbn [T add mul zero one ZNum]; intros; lia.
Qed.

Lemma ZNum_mul1 : forall x : T ZNum, mul ZNum x (one ZNum) = x.
Proof. cbn [T mul one ZNum]. intros; lia. Qed.

(** ** the boolean mirrors of [reach] / [depth_lt] *)
Section Mirror.
  Context (NM : Num) (B : db NM).

  Lemma reachb_iff : forall n r, reachb NM B n r = true <-> reach NM B n r.
  Proof.
    induction n as [|n IH]; intro r; cbn [reachb reach]; [split; auto|].
    destruct (lookup r B) as [els|].
    - rewrite existsb_exists. split.
      + intros [[e v] [Hin Hr]]. exists els. split; [reflexivity|]. exists e, v. split; [exact Hin|].
        apply IH. exact Hr.
      + intros [els' [Heq [e [v [Hin Hr]]]]]. injection Heq as Heq. subst els'.
        exists (e, v). split; [exact Hin|]. apply IH. exact Hr.
    - split; [discriminate|]. intros [els' [Heq _]]. discriminate.
  Qed.

  Lemma depth_ltb_sound : forall N, depth_ltb NM B N = true -> depth_lt NM B N.
  Proof.
    intros N H r Hin Hr. unfold depth_ltb in H. rewrite forallb_forall in H.
    specialize (H r Hin). apply reachb_iff in Hr. rewrite Hr in H. discriminate.
  Qed.
End Mirror.

Local Open Scope Z_scope.

(** ** a diamond: a -> 2 b, 3 c;  b -> 5 d;  c -> 7 d.  Declared "bottom last". *)
Definition diamond : db ZNum :=
  [ (b "a", [(b "b", 2); (b "c", 3)]);
    (b "c", [(b "d", 7)]);
    (b "b", [(b "d", 5)]) ].

Example diamond_value :
  ref_node ZNum diamond 10 (b "a") = Some (2%nat, Some [(b "d", 31)]).
Proof. vm_compute. reflexivity. Qed.

Example diamond_paths :
  paths ZNum diamond 10 (b "a") = [(b "d", 1 * 5 * 2); (b "d", 1 * 7 * 3)].
Proof. vm_compute. reflexivity. Qed.

Example diamond_sum_of_paths :
  sum_of ZNum (b "d") (paths ZNum diamond 10 (b "a")) = 31.
Proof. vm_compute. reflexivity. Qed.

Example diamond_depth : depth_lt ZNum diamond 10.
Proof. apply depth_ltb_sound. vm_compute. reflexivity. Qed.

(** the theorem applied to the diamond (hypotheses are met, conclusion is the
    computed equality) *)
Example diamond_by_theorem :
  forall a, lookup (b "d") [(b "d", 31)] = Some a ->
            a = sum_of ZNum (b "d") (paths ZNum diamond 10 (b "a")).
Proof.
  intros a. apply (ref_value_sum_of_paths_lemma ZNum ZNum_CSemiring diamond 10 (b "a") 2%nat).
  exact diamond_value.
Qed.

(** ** a repeated ingredient and two leaves out of order: merged and sorted *)
Definition repeated : db ZNum :=
  [ (b "mix", [(b "y", 1); (b "x", 2); (b "y", 4); (b "x", 3)]) ].

Example repeated_value :
  ref_node ZNum repeated 10 (b "mix") = Some (1%nat, Some [(b "x", 5); (b "y", 5)]).
Proof. vm_compute. reflexivity. Qed.

(** ** an empty recipe used as an ingredient contributes nothing *)
Definition with_empty : db ZNum :=
  [ (b "air", []); (b "cake", [(b "air", 2); (b "z", 1)]) ].

Example empty_value : ref_node ZNum with_empty 10 (b "air") = Some (0%nat, Some []).
Proof. vm_compute. reflexivity. Qed.

Example cake_value : ref_node ZNum with_empty 10 (b "cake") = Some (1%nat, Some [(b "z", 1)]).
Proof. vm_compute. reflexivity. Qed.

(** fuel 1 resolves the empty recipe (so [N = 1] is not excluded by idempotence) *)
Example empty_value_fuel1 : ref_node ZNum with_empty 1 (b "air") = Some (0%nat, Some []).
Proof. vm_compute. reflexivity. Qed.

(** ** an undefined name stands for itself *)
Example undefined_example :
  paths ZNum diamond 3 (b "d") = [(b "d", 1)] /\ ref_node ZNum diamond 3 (b "d") = Some (0%nat, None).
Proof. apply undefined_is_itself_lemma. vm_compute. reflexivity. Qed.

(** ** idempotence on a concrete book *)
Example diamond_resolved :
  ref_db ZNum diamond 10 =
  [ (b "a", [(b "d", 31)]); (b "c", [(b "d", 7)]); (b "b", [(b "d", 5)]) ].
Proof. vm_compute. reflexivity. Qed.

Example diamond_idempotent : ref_db ZNum (ref_db ZNum diamond 10) 10 = ref_db ZNum diamond 10.
Proof. apply (ref_db_idempotent_eq ZNum diamond 10 diamond_depth). intros x _. apply ZNum_mul1. Qed.

(** the smallest limit the diamond fits under is 3, and idempotence holds there too *)
Example diamond_depth3 : depth_lt ZNum diamond 3 /\ ~ depth_lt ZNum diamond 2.
Proof.
  split; [apply depth_ltb_sound; vm_compute; reflexivity|].
  intro H. apply (H (b "a")); [left; reflexivity|]. apply reachb_iff. vm_compute. reflexivity.
Qed.

(** ** [depth_lt] cannot be dropped from idempotence: a chain a -> b -> c -> d under
    the limit 3.  "a" is too deep and is left as it is; once "b" is resolved in
    place the chain below "a" is short enough, so a second run changes "a". *)
Definition chain : db ZNum :=
  [ (b "a", [(b "b", 2)]); (b "b", [(b "c", 3)]); (b "c", [(b "d", 5)]) ].

Example idempotence_needs_depth :
  ~ depth_lt ZNum chain 3 /\ ref_db ZNum (ref_db ZNum chain 3) 3 <> ref_db ZNum chain 3.
Proof.
  split.
  - intro H. apply (H (b "a")); [left; reflexivity|]. apply reachb_iff. vm_compute. reflexivity.
  - vm_compute. discriminate.
Qed.

(** ** [x * 1 = x] and binary64.  [T B64] is all of [spec_float]; on a
    non-canonical finite value (mantissa not normalised) multiplication by one
    normalises, so the law fails on the raw type; it holds on the canonical
    representative of the same number. *)
Example B64_mul1_noncanonical :
  mul B64 (S754_finite false 1 0) (one B64) <> S754_finite false 1 0.
Proof. vm_compute. discriminate. Qed.

Example B64_mul1_canonical :
  mul B64 (S754_finite false 4503599627370496 (-52)) (one B64) = S754_finite false 4503599627370496 (-52)
  /\ mul B64 S754_nan (one B64) = S754_nan
  /\ mul B64 (S754_zero true) (one B64) = S754_zero true
  /\ mul B64 (S754_infinity true) (one B64) = S754_infinity true.
Proof. vm_compute. repeat split; reflexivity. Qed.

(** ** order of declarations and of ingredients *)
Definition diamond_shuffled : db ZNum :=
  [ (b "b", [(b "d", 5)]);
    (b "a", [(b "c", 3); (b "b", 2)]);
    (b "c", [(b "d", 7)]) ].

Example diamond_shuffled_same : forall f r, ref_node ZNum diamond f r = ref_node ZNum diamond_shuffled f r.
Proof.
  apply (ref_value_order_independent_lemma ZNum ZNum_CSemiring). intro k.
  cbn [diamond diamond_shuffled lookup].
  destruct (beq k (b "a")) eqn:Ea.
  - apply beq_true_iff in Ea. subst k. vm_compute. apply perm_swap.
  - destruct (beq k (b "c")) eqn:Ec.
    + apply beq_true_iff in Ec. subst k. vm_compute. apply Permutation_refl.
    + destruct (beq k (b "b")) eqn:Eb; [|exact I].
      apply beq_true_iff in Eb. subst k. vm_compute. apply Permutation_refl.
Qed.

Example diamond_leads_to : leads_to ZNum diamond (b "a") (b "d").
Proof.
  apply (ref_value_names_reachable_lemma ZNum diamond 10 (b "a") 2%nat [(b "d", 31)] (b "d") diamond_value).
  left. reflexivity.
Qed.

(** without associativity (binary64) the order of the ingredients inside one
    recipe does matter: 2^53 + 1 + 1 = 2^53 but 1 + 1 + 2^53 = 2^53 + 2 *)
Definition big_first : db B64 :=
  [ (b "mix", [(b "x", f_of_Z 9007199254740992); (b "x", f_of_Z 1); (b "x", f_of_Z 1)]) ].
Definition big_last : db B64 :=
  [ (b "mix", [(b "x", f_of_Z 1); (b "x", f_of_Z 1); (b "x", f_of_Z 9007199254740992)]) ].

Example B64_ingredient_order_matters :
  ref_node B64 big_first 10 (b "mix") = Some (1%nat, Some [(b "x", f_of_Z 9007199254740992)]) /\
  ref_node B64 big_last 10 (b "mix") = Some (1%nat, Some [(b "x", f_of_Z 9007199254740994)]).
Proof. split; vm_compute; reflexivity. Qed.

(** a binary64 book that contains a non-canonical amount: the first resolution
    normalises it (so [ref_db] differs from the book in the amount), the second
    changes nothing – idempotence only needs [x * 1 = x] on computed amounts *)
Definition noncanonical_book : db B64 :=
  [ (b "a", [(b "x", S754_finite false 1 0)]) ].

Example noncanonical_idempotent :
  ref_db B64 noncanonical_book 10 <> noncanonical_book /\
  ref_db B64 (ref_db B64 noncanonical_book 10) 10 = ref_db B64 noncanonical_book 10.
Proof. split; [vm_compute; discriminate|vm_compute; reflexivity]. Qed.

(** the law [x * 1 = x] cannot be dropped from idempotence: an (unlawful) [Num]
    whose multiplication is addition *)
Definition OddNum : Num := {|
  T := Z; zero := 0; one := 1; neg_one := -1;
  add := Z.add; mul := Z.add; ltb := Z.ltb; is_nan := fun _ => false;
  of_lexeme := Z_of_lexeme; fmt_fixed := fun _ z => dec_of_Z z
|}.

Example idempotence_needs_mul1 :
  let B : db OddNum := [ (b "a", [(b "x", 5)]) ] in
  depth_lt OddNum B 10 /\ ref_db OddNum (ref_db OddNum B 10) 10 <> ref_db OddNum B 10.
Proof.
  split; [apply depth_ltb_sound; vm_compute; reflexivity|vm_compute; discriminate].
Qed.
