(** WP04 / C09, stretch -- tie to the abstract syntax of Model/Syntax.v.

    WP03's round-trip statement is a Section hypothesis here ([roundtrip]); after
    the section it is an explicit premise of every theorem.  Under it, lint on
    [render f] prints the message of every [IBadNoSep] / [IBadNum] item that
    follows a heading, with line number = its 0-based index + 1, in file order,
    and the book-reading commands fail with the first of them. *)
From Coq Require Import Lia.
From HP Require Import Base.Bytes Base.Utf8 Base.Num Model.Scanner Model.Parser Model.Elements Model.Resolver
  Model.Dates Model.Tree Model.Writer Model.Reporters Model.Cli Model.Syntax.
From HP Require Import Proofs.MalformedBase Proofs.MalformedLint Proofs.MalformedBook.
Open Scope N_scope.

(** the error for the malformed item [it] on physical line [ln] (1-based) *)
Definition err_on_line (ln : N) (it : item) : perr :=
  match it with
  | IBadNum _ _ _ t _ => Conversion t ln (render_line it)
  | _ => BadSyntax ln (render_line it)
  end.

Definition is_heading (it : item) : bool := match it with IHeading _ _ => true | _ => false end.

(** the errors of a file, by one pass over its items: [ln] = lines already
    passed, [opened] = a heading has been seen *)
Fixpoint bad_errors (items : list item) (ln : N) (opened : bool) : list perr :=
  match items with
  | [] => []
  | it :: r =>
      let ln' := ln + 1 in
      if is_heading it then bad_errors r ln' true
      else if is_bad it then (if opened then [err_on_line ln' it] else []) ++ bad_errors r ln' opened
      else bad_errors r ln' opened
  end.

Lemma bad_errors_app : forall l1 l2 ln opened,
  bad_errors (l1 ++ l2) ln opened
  = bad_errors l1 ln opened ++ bad_errors l2 (ln + lengthN l1) (opened || existsb is_heading l1).
Proof.
  induction l1 as [|it r IH]; intros l2 ln opened.
  - cbn. rewrite N.add_0_r, orb_false_r. reflexivity.
  - cbn [app bad_errors lengthN existsb]. rewrite !IH.
    replace (ln + 1 + lengthN r) with (ln + N.succ (lengthN r)) by lia.
    destruct (is_heading it) eqn:Eh.
    + rewrite orb_true_r. reflexivity.
    + cbn [orb]. destruct (is_bad it); [rewrite <- app_assoc|]; reflexivity.
Qed.

(** membership: exactly the malformed items that come after a heading, each with its line number *)
Lemma bad_errors_In : forall items ln opened e,
  In e (bad_errors items ln opened) <->
  exists i it, nth_error items i = Some it /\ is_bad it = true
               /\ (opened = true \/ exists j h, (j < i)%nat /\ nth_error items j = Some h /\ is_heading h = true)
               /\ e = err_on_line (ln + N.of_nat i + 1) it.
Proof.
  induction items as [|it r IH]; intros ln opened e.
  - cbn. split; [intros []|]. intros (i & it & H & _). destruct i; discriminate.
  - cbn [bad_errors]. split.
    + intros H.
      assert (Hrec : forall op', (op' = true -> opened = true \/ is_heading it = true) ->
                 In e (bad_errors r (ln + 1) op') ->
                 exists i it0, nth_error (it :: r) i = Some it0 /\ is_bad it0 = true
                   /\ (opened = true \/ exists j h, (j < i)%nat /\ nth_error (it :: r) j = Some h /\ is_heading h = true)
                   /\ e = err_on_line (ln + N.of_nat i + 1) it0).
      { intros op' Hop Hin. apply IH in Hin. destruct Hin as (i & it0 & H1 & H2 & H3 & H4).
        exists (S i), it0. split; [exact H1|]. split; [exact H2|]. split.
        - destruct H3 as [H3|(j & h & Hj & Hh & Hhh)].
          + destruct (Hop H3) as [Ho|Ho]; [left; exact Ho|].
            right. exists O, it. split; [lia|]. split; [reflexivity|exact Ho].
          + right. exists (S j), h. split; [lia|]. split; assumption.
        - rewrite H4. f_equal. lia. }
      destruct (is_heading it) eqn:Eh.
      * apply (Hrec true); [intros _; right; reflexivity|exact H].
      * destruct (is_bad it) eqn:Eb.
        -- apply in_app_or in H. destruct H as [H|H].
           ++ destruct opened; [|destruct H]. destruct H as [H|[]].
              exists O, it. split; [reflexivity|]. split; [exact Eb|]. split; [left; reflexivity|].
              rewrite <- H. f_equal. lia.
           ++ apply (Hrec opened); [intros Ho; left; exact Ho|exact H].
        -- apply (Hrec opened); [intros Ho; left; exact Ho|exact H].
    + intros (i & it0 & H1 & H2 & H3 & H4).
      destruct i as [|i].
      * cbn in H1. inversion H1; subst it0.
        assert (Eh : is_heading it = false) by (destruct it; try discriminate; reflexivity).
        rewrite Eh, H2.
        destruct H3 as [H3|(j & h & Hj & _)]; [|lia]. rewrite H3.
        apply in_or_app. left. left. rewrite H4. f_equal. lia.
      * cbn [nth_error] in H1.
        assert (Hin : forall op', (opened = true -> op' = true) -> (is_heading it = true -> op' = true) ->
                        In e (bad_errors r (ln + 1) op')).
        { intros op' Ho1 Ho2. apply IH. exists i, it0. split; [exact H1|]. split; [exact H2|]. split.
          - destruct H3 as [H3|(j & h & Hj & Hh & Hhh)].
            + left. apply Ho1. exact H3.
            + destruct j as [|j].
              * cbn in Hh. inversion Hh; subst h. left. apply Ho2. exact Hhh.
              * right. exists j, h. split; [lia|]. split; [exact Hh|exact Hhh].
          - rewrite H4. f_equal. lia. }
        destruct (is_heading it) eqn:Eh.
        -- apply Hin; reflexivity.
        -- destruct (is_bad it).
           ++ apply in_or_app. right. apply Hin; [tauto|discriminate].
           ++ apply Hin; [tauto|discriminate].
Qed.

Section Syntax.
  Context (NM : Num).
  Variable short_lines : file -> Prop.
  Hypothesis roundtrip : forall f, wf_file NM f = true -> short_lines f ->
                                   events NM (render f) = expected_events NM f.

  Definition is_some {A} (o : option A) : bool := match o with Some _ => true | None => false end.

  Lemma errors_of_expect : forall items ln cur,
    errors_of NM (expect NM items ln cur) = bad_errors items ln (is_some cur).
  Proof.
    induction items as [|it r IH]; intros ln cur.
    - cbn. destruct cur; reflexivity.
    - cbn [expect bad_errors]. destruct it; cbn [is_heading is_bad]; rewrite ?errors_of_app, ?IH.
      + reflexivity.
      + reflexivity.
      + destruct cur; reflexivity.
      + destruct cur; reflexivity.
      + destruct cur; reflexivity.
      + destruct cur; reflexivity.
      + destruct cur; reflexivity.
  Qed.

  (** the errors of a rendered file *)
  Definition file_errors (f : file) : list perr := bad_errors (map fst (f_items f)) 0 false.

  Theorem errors_of_rendered : forall f, wf_file NM f = true -> short_lines f ->
    errors_of NM (events NM (render f)) = file_errors f.
  Proof.
    intros f Hwf Hs. rewrite (roundtrip f Hwf Hs). unfold expected_events. apply errors_of_expect.
  Qed.

  (** every malformed item after a heading, with line number = index + 1; nothing else *)
  Theorem file_errors_spec : forall f e,
    In e (file_errors f) <->
    exists i it, nth_error (map fst (f_items f)) i = Some it /\ is_bad it = true
                 /\ (exists j h, (j < i)%nat /\ nth_error (map fst (f_items f)) j = Some h /\ is_heading h = true)
                 /\ e = err_on_line (N.of_nat i + 1) it.
  Proof.
    intros f e. unfold file_errors. rewrite bad_errors_In. split.
    - intros (i & it & H1 & H2 & [H3|H3] & H4); [discriminate|]. exists i, it. repeat split; assumption.
    - intros (i & it & H1 & H2 & H3 & H4). exists i, it. split; [exact H1|]. split; [exact H2|].
      split; [right; exact H3|exact H4].
  Qed.

  (** lint on the rendered file *)
  Theorem lint_on_rendered : forall (w : world) (file : bytes) (f : Syntax.file) (silent : bool),
    wf_file NM f = true -> short_lines f -> readable (render f) ->
    file <> [] ->
    file <> dev_null ->
    lookup file (w_fs w) = Some (FFile (render f)) ->
    lookup file (w_read_fault w) = None ->
    w_sink w = None ->
    run_lint NM w file silent =
      {| out_stdout := concat (map (fun e => perr_message e ++ [c_lf]) (file_errors f))
                       ++ (if (is_nil (file_errors f) && negb silent)%bool
                           then b "No errors found" ++ [c_lf] else []);
         out_status := Ok |}.
  Proof.
    intros w file f silent Hwf Hs Hr Hne Hnd Hfs Hrf Hsink.
    rewrite (lint_reports_all NM w file (render f) silent Hne Hnd Hfs Hrf Hsink Hr).
    rewrite (errors_of_rendered f Hwf Hs). reflexivity.
  Qed.

  (** the book-reading commands on a rendered book fail with the first malformed item after a heading *)
  Theorem resolved_db_on_rendered : forall (w : world) (op : options) (f : Syntax.file) e es,
    wf_file NM f = true -> short_lines f ->
    file_errors f = e :: es ->
    resolved_db NM w op (OData (render f) NoFault) = inl (EParse (perr_message e)).
  Proof.
    intros w op f e es Hwf Hs He.
    apply (resolved_db_first_error NM w op (render f) e es).
    rewrite (errors_of_rendered f Hwf Hs). exact He.
  Qed.
End Syntax.

(** non-vacuity of the mechanism (no round-trip needed): a six-item file *)
Example ex_bad_errors :
  bad_errors [IComment (b " diary"); IBlank []; IHeading (b "2024/01/01") [];
              IBadNoSep (b "  ") (b "apple"); IEntry (b "  ") (b "bread") (b " ") (b "2") [];
              IBadNum (b "  ") (b "milk") (b " ") (b "x2") []] 0 false
  = [BadSyntax 4 (b "  apple"); Conversion (b "x2") 6 (b "  milk x2")].
Proof. vm_compute. reflexivity. Qed.

(** a malformed line before any heading is not an error (the parser skips it) *)
Example ex_bad_before_heading :
  bad_errors [IBadNoSep (b "  ") (b "apple"); IHeading (b "h") []] 0 false = [].
Proof. vm_compute. reflexivity. Qed.
