(** WP25, part B: the totals sentence of C07 between COMMANDS: [report totals], [reg -s X],
    [bal -s X] and [reg] as functions from the bytes of the two files to the bytes on stdout, and
    the relations between the numbers these outputs are rendered from. *)
From Coq Require Import Lia Permutation.
From HP Require Import Base.Bytes Base.Utf8 Base.Num Model.Scanner Model.Parser Model.Elements Model.Resolver
  Model.Dates Model.Tree Model.Writer Model.Reporters Model.Cli.
From HP Require Import Spec.RegisterSpec Spec.Agree2Spec Spec.AgreeSpec Spec.ProgramSpec.
From HP Require Import Proofs.RegisterSort Proofs.RegisterAssoc Proofs.Register Proofs.RegisterExtra.
From HP Require Import Proofs.AgreeTotals Proofs.AgreeTotalsAcc Proofs.AgreeTotalsMain.
From HP Require Import Proofs.AgreeMiscBase Proofs.AgreeMiscStats Proofs.AgreeMiscWalk Proofs.AgreeMiscProgram
  Proofs.PresentationFlags Proofs.ProgramBase Proofs.ProgramRegister.

Section Lists.
  Context (NM : Num).
  Notation T := (T NM).
  Notation db := (list (bytes * list (bytes * T))).
  Notation record := (record NM).

  Lemma id_oracle : oracle (fun l : list bytes => l).
  Proof. intro l. apply Permutation_refl. Qed.

  Lemma id_keeps_keys : keeps_keys (fun l : list bytes => l).
  Proof. intros l y H. exact H. Qed.

  (** the contributions the reporters see on the walk are those of the reference semantics *)
  Lemma contributions_record : forall (d : db) (r : record),
    contributions NM d (day_node NM r) = contributed NM d (rec_entries NM r).
  Proof. intros d [[t es] m]. unfold day_node, rec_entries. cbn [fst snd]. apply contributions_spec. Qed.

  Lemma contributions_records : forall (d : db) (recs : list record),
    flat_map (contributions NM d) (map (day_node NM) recs) = period_contributed NM d recs.
  Proof.
    intros d recs. unfold period_contributed. induction recs as [|r rest IH]; [reflexivity|].
    cbn [map flat_map]. rewrite IH, contributions_record. reflexivity.
  Qed.

  (** reading a row off the reference totals = reading the accumulator *)
  Lemma row_of_totals_of : forall (cs : list (bytes * T)) x,
    row_of NM x (totals_of NM cs) = lookup x (accumulate NM cs).
  Proof.
    intros cs x. rewrite <- (totals_of_acc_spec NM (fun l => l) cs id_oracle).
    apply row_of_totals. exact id_keeps_keys.
  Qed.

  Lemma row_total_of_totals_of : forall (cs : list (bytes * T)) x,
    row_total_of NM x (totals_of NM cs) = option_map (fun pn => add NM (fst pn) (snd pn)) (lookup x (accumulate NM cs)).
  Proof.
    intros cs x. rewrite <- (totals_of_acc_spec NM (fun l => l) cs id_oracle).
    apply row_total_of_totals. exact id_keeps_keys.
  Qed.

  (** ... explicitly: the row of [x] exists iff [x] was contributed, and shows [pos_of], [neg_of] *)
  Lemma row_of_totals_of_in : forall (cs : list (bytes * T)) x, In x (map fst cs) ->
    row_of NM x (totals_of NM cs) = Some (pos_of NM cs x, neg_of NM cs x).
  Proof.
    intros cs x H. rewrite row_of_totals_of, accumulate_spec.
    apply (lookup_kmap_in (fun y => (pos_of NM cs y, neg_of NM cs y))). apply first_occurrences_in. exact H.
  Qed.

  Lemma row_of_totals_of_notin : forall (cs : list (bytes * T)) x, ~ In x (map fst cs) ->
    row_of NM x (totals_of NM cs) = None.
  Proof.
    intros cs x H. rewrite row_of_totals_of, accumulate_spec.
    apply (lookup_kmap_notin (fun y => (pos_of NM cs y, neg_of NM cs y))). rewrite first_occurrences_in. exact H.
  Qed.

  Lemma occurs_in_iff : forall (cs : list (bytes * T)) x, occurs_in NM x cs = true <-> In x (map fst cs).
  Proof.
    intros cs x. unfold occurs_in. rewrite existsb_exists. split.
    - intros [nv [Hin E]]. apply RegisterSort.beq_true_iff in E. subst x. apply in_map. exact Hin.
    - intro H. apply in_map_iff in H. destruct H as [nv [E Hin]]. exists nv. split; [exact Hin|].
      apply RegisterSort.beq_true_iff. exact E.
  Qed.

  Lemma has_row_totals_of : forall (cs : list (bytes * T)) x, has_row NM x (totals_of NM cs) = occurs_in NM x cs.
  Proof.
    intros cs x. unfold has_row. destruct (occurs_in NM x cs) eqn:E.
    - apply occurs_in_iff in E. rewrite (row_of_totals_of_in cs x E). reflexivity.
    - rewrite row_of_totals_of_notin; [reflexivity|]. intro H. apply occurs_in_iff in H. congruence.
  Qed.

  (** [reg -s x]: the row of a day *)
  Lemma single_row_record : forall (d : db) x (r : record),
    single_row NM d x (day_node NM r) = option_map Some (row_of NM x (day_totals NM d (rec_entries NM r))).
  Proof.
    intros d x r. rewrite single_row_lookup, contributions_record. unfold day_totals.
    rewrite row_of_totals_of.
    destruct (occurs_in NM x (contributed NM d (rec_entries NM r))) eqn:E.
    - destruct (lookup_accumulate_occurs NM _ _ E) as [pn Hpn]. rewrite Hpn. reflexivity.
    - rewrite (lookup_accumulate_absent NM _ _ E). reflexivity.
  Qed.

  (** [bal -s x]: what a record adds to the tree *)
  Lemma bal_row_eq : forall (o : option (list (bytes * T))) (f : bytes) (q : T) (x : bytes),
    match o with
    | Some els => flat_map (fun r => if beq (fst r) x then [(f, mul NM (snd r) q)] else []) els
    | None => if beq f x then [(f, q)] else []
    end
    = map (fun i : bytes * T => (f, snd i))
          (filter (fun i => beq (fst i) x)
                  match o with
                  | Some els => map (fun xc => (fst xc, mul NM (snd xc) q)) els
                  | None => [(f, q)]
                  end).
  Proof.
    intros [els|] f q x.
    - induction els as [|[e v] rest IH]; [reflexivity|].
      cbn [flat_map map filter fst snd]. destruct (beq e x); cbn [map app fst snd]; rewrite IH; reflexivity.
    - cbn [filter fst]. destruct (beq f x); reflexivity.
  Qed.

  Lemma bal_single_contributions_record : forall (d : db) x (r : record),
    bal_single_contributions NM d x (day_node NM r) = bal_single_entries NM d x (rec_entries NM r).
  Proof.
    intros d x [[t es] m]. unfold day_node, rec_entries, bal_single_contributions, bal_single_entries, day_rows.
    cbn [fst snd ln_elems]. rewrite merge_elements_spec. unfold merged. rewrite !Register.flat_map_map.
    apply flat_map_ext. intro f. cbn [fst snd]. unfold ingredients. apply bal_row_eq.
  Qed.

  Lemma bal_single_contributions_records : forall (d : db) x (recs : list record),
    flat_map (bal_single_contributions NM d x) (map (day_node NM) recs)
    = flat_map (fun r => bal_single_entries NM d x (rec_entries NM r)) recs.
  Proof.
    intros d x recs. induction recs as [|r rest IH]; [reflexivity|].
    cbn [map flat_map]. rewrite IH, bal_single_contributions_record. reflexivity.
  Qed.

  Lemma tree_add_all_app : forall (t : tree NM) (l1 l2 : list (bytes * T)),
    tree_add_all NM t (l1 ++ l2) = tree_add_all NM (tree_add_all NM t l1) l2.
  Proof. intros t l1 l2. unfold tree_add_all. apply fold_left_app. Qed.

  Lemma walk_from_bal_single_fst : forall c (d : db) π (L : list (lognode NM)) i st,
    fst (Agree2Spec.walk_from NM (rep_balance_single NM c d) π i L st)
    = tree_add_all NM (fst st) (flat_map (bal_single_contributions NM d (rc_single_element c)) L).
  Proof.
    intros c d π L. induction L as [|ln rest IH]; intros i st; [reflexivity|].
    cbn [Agree2Spec.walk_from flat_map]. rewrite IH, tree_add_all_app. reflexivity.
  Qed.

  Lemma walk_chunks_from_records_any : forall (R : reporter NM) (g : record -> list chunk) π,
    (forall p st r, snd (fst (r_process NM R p st (day_node NM r))) = g r) ->
    forall (recs : list record) i st,
      walk_chunks_from NM R π i (map (day_node NM) recs) st = flat_map g recs.
  Proof.
    intros R g π Hg recs. induction recs as [|r rest IH]; intros i st; [reflexivity|].
    cbn [map walk_chunks_from flat_map]. rewrite Hg. f_equal. apply IH.
  Qed.

  (** the text of [report totals] from the accumulator *)
  Lemma totals_flush_text : forall (d : db) πf (cs : list (bytes * T)), oracle πf ->
    Agree2Spec.chunk_bytes (r_flush NM (rep_totals NM d) πf (accumulate NM cs)) = totals_text NM (totals_of NM cs).
  Proof.
    intros d πf cs Hπ. cbn [rep_totals r_flush].
    destruct (accumulate NM cs) as [|a acc] eqn:Ea.
    - apply Register.accumulate_nil_iff in Ea. rewrite Ea. reflexivity.
    - rewrite <- Ea, (totals_of_acc_spec NM πf cs Hπ).
      destruct (totals_of NM cs) as [|row rows] eqn:Et.
      + apply Register.accumulate_nil_iff in Et. congruence.
      + unfold Agree2Spec.chunk_bytes, totals_text. cbn [map concat fst unchecked checked]. unfold totals_header_text.
        rewrite <- !app_assoc. do 7 f_equal. f_equal.
        * destruct row as [[[name p] n] s]. reflexivity.
        * rewrite map_map. f_equal. apply map_ext. intros [[[name p] n] s]. reflexivity.
  Qed.
End Lists.

Section Totals.
  Context (NM : Num).
  Notation T := (T NM).
  Notation db := (list (bytes * list (bytes * T))).
  Notation record := (record NM).

  Context (w : world) (i : invocation) (op : options) (odb : opened) (d : db) (ldata : bytes).
  Hypothesis Hload : load w i = inr op.
  Hypothesis Hsink : w_sink w = None.
  Hypothesis Hodb : open_file w (op_db op) = Some odb.
  Hypothesis Hres : resolved_db NM w op odb = inr d.
  Hypothesis Hlog : open_file w (op_log op) = Some (OData ldata NoFault).
  Hypothesis Hfin : snd (scan ldata NoFault) = ScanEOF.
  Hypothesis Hne : no_parse_error NM (events NM ldata).
  Hypothesis Hdated : all_dated NM (rc_date (op_rc op)) (log_records NM ldata).

  Let c := op_rc op.
  Let toks := rc_date (op_rc op).
  Let Htoks : tokenize (op_fmt op) = Some toks := proj1 (load_now w i op Hload).
  Let recs := command_records NM op ldata.
  Let L := selected_days NM toks (op_begin op) (op_end op) (nodes_of NM (events NM ldata)).

  Let HL : L = map (day_node NM) recs.
  Proof. unfold L, recs, command_records, log_records. apply selected_days_records. Qed.

  (** *** report totals *)
  Theorem totals_program :
    i_cmd i = CTotals -> oracle (o_flush (w_or w)) ->
    run NM w i = {| out_stdout := totals_text NM (totals_rows_of NM d recs); out_status := Ok |}.
  Proof.
    intros Hcmd Hπ. unfold run. rewrite Hload, Hcmd.
    rewrite (run_db_log_ok NM w op (rep_totals NM) (op_begin op) (op_end op) toks odb d ldata
               (never_fails_totals NM d) (fun _ => eq_refl) Hsink Hodb Hres Hlog Htoks Hfin Hne Hdated).
    fold L. rewrite walk_chunks_silent by reflexivity.
    rewrite walk_state_is_walk, walk_totals, HL, contributions_records.
    rewrite (totals_flush_text NM d _ _ Hπ). reflexivity.
  Qed.

  (** *** reg -s X [--csv] (not -g) *)
  Theorem reg_single_program :
    i_cmd i = CReg -> i_single_element i <> [] -> i_group_food i = false ->
    let x := i_single_element i in
    run NM w i
    = {| out_stdout := concat (map (single_row_text NM (i_csv i) toks x) (single_rows_of NM d x recs));
         out_status := Ok |}.
  Proof.
    intros Hcmd Hx Hg x. unfold run. rewrite Hload, Hcmd. fold c.
    destruct (color_flag_any_level w i op Hload) as (_ & _ & _ & _ & _ & _ & _ & _ & Hgf & Hcsv & He & _).
    fold c in Hgf, Hcsv, He.
    assert (Hmk : reg_reporter NM c d = rep_single NM c d).
    { unfold reg_reporter. rewrite He, Hgf, Hg. destruct (i_single_element i); [congruence | reflexivity]. }
    rewrite (run_db_log_ok_at NM w op (reg_reporter NM c) (op_begin op) (op_end op) toks odb d ldata);
      try assumption.
    - fold L. rewrite Hmk, HL. unfold walk_chunks.
      rewrite (walk_chunks_from_records_any NM (rep_single NM c d)
                 (fun r => match row_of NM x (day_totals NM d (rec_entries NM r)) with
                           | Some (p, n) => [unchecked (render_single NM c (rec_time NM r) p n)]
                           | None => []
                           end)).
      + cbn [rep_single r_flush]. unfold Agree2Spec.chunk_bytes at 2. cbn [map concat]. rewrite app_nil_r.
        f_equal. unfold single_rows_of. generalize recs as rs. intro rs.
        induction rs as [|r rest IH]; [reflexivity|].
        cbn [flat_map]. rewrite chunk_bytes_app, map_app, concat_app, IH. f_equal.
        destruct (row_of NM x (day_totals NM d (rec_entries NM r))) as [[p n]|]; [|reflexivity].
        unfold Agree2Spec.chunk_bytes. cbn [map concat fst unchecked]. f_equal.
        unfold render_single, single_row_text, fdate, sr_time, sr_pos, sr_neg. cbn [fst snd].
        rewrite Hcsv, He. reflexivity.
      + intros p st r. cbn [rep_single r_process]. rewrite He. fold x. rewrite single_row_record.
        destruct (row_of NM x (day_totals NM d (rec_entries NM r))) as [[pp nn]|]; reflexivity.
    - rewrite Hmk. apply never_fails_single.
    - cbv zeta. rewrite Hmk, walk_state_is_walk. apply rep_single_never_panics.
  Qed.

  (** *** bal -s X *)
  Theorem bal_single_program :
    i_cmd i = CBal -> i_single_element i <> [] ->
    let x := i_single_element i in
    run NM w i
    = {| out_stdout := concat (map (render_row NM)
                                   (balance_rows NM (o_flush (w_or w)) (i_collapse i) (i_collapse_last i)
                                                 (bal_single_tree NM d x recs)))
                       ++ bal_single_footer_text NM x (bal_single_total_of NM d x recs);
         out_status := Ok |}.
  Proof.
    intros Hcmd Hx x. unfold run. rewrite Hload, Hcmd. fold c.
    destruct (color_flag_any_level w i op Hload) as (_ & _ & _ & _ & _ & _ & Hco & Hcl & _ & _ & He & _).
    fold c in Hco, Hcl, He.
    assert (Hmk : bal_reporter NM c d = rep_balance_single NM c d).
    { unfold bal_reporter. rewrite He. destruct (i_single_element i); [congruence | reflexivity]. }
    rewrite (run_db_log_ok NM w op (bal_reporter NM c) (op_begin op) (op_end op) toks odb d ldata);
      try assumption; try (rewrite Hmk; try apply never_fails_balance_single; reflexivity).
    fold L. rewrite Hmk. rewrite walk_chunks_silent by reflexivity.
    cbn [rep_balance_single r_flush]. cbn [app]. rewrite chunk_bytes_app.
    assert (Hfst : fst (walk_state NM (rep_balance_single NM c d) (o_day (w_or w)) L) = bal_single_tree NM d x recs).
    { unfold walk_state. rewrite walk_from_bal_single_fst. cbn [rep_balance_single r_init fst].
      rewrite He, HL. fold x. rewrite bal_single_contributions_records. reflexivity. }
    assert (Hsnd : snd (walk_state NM (rep_balance_single NM c d) (o_day (w_or w)) L) = bal_single_total_of NM d x recs).
    { rewrite walk_state_is_walk.
      change (snd (walk NM (rep_balance_single NM c d) (o_day (w_or w)) L))
        with (bal_single_grand_total NM c (o_day (w_or w)) d L).
      rewrite bal_single_total_is_sum, He, HL, contributions_records. reflexivity. }
    rewrite Hfst, Hsnd, Hco, Hcl, He. fold x.
    unfold Agree2Spec.chunk_bytes, bal_single_footer_text. rewrite map_map. cbn [map concat fst checked].
    rewrite app_nil_r, <- !app_assoc. reflexivity.
  Qed.
End Totals.
