(** The number law [FmtStable] holds for the exact-integer instance [ZNum]:
    the decimal numeral of an integer reads back to the same integer.  This
    makes the hypothesis of the C14 theorems non-vacuous and lets the examples
    go through the theorems. *)
From Coq Require Import Lia ZifyBool ZifyNat ZifyN.
From HP Require Import Base.Bytes Base.Utf8 Base.Num Model.Parser Spec.PrintSpec Proofs.PrintBytes.
Open Scope N_scope.

Lemma digits_val_app x : forall y a,
  digits_val (x ++ y) a = match digits_val x a with Some a' => digits_val y a' | None => None end.
Proof.
  induction x as [|c x IH]; intros y a; [reflexivity|]. cbn [app digits_val].
  destruct (is_digit c); [apply IH|reflexivity].
Qed.

Lemma ddf_unfold f n acc :
  dec_digits_fuel (S f) n acc
  = if n / 10 =? 0 then (48 + n mod 10) :: acc else dec_digits_fuel f (n / 10) ((48 + n mod 10) :: acc).
Proof. reflexivity. Qed.

Lemma ddf_spec fuel : forall n acc, n < 2 ^ N.of_nat fuel ->
  exists ds, dec_digits_fuel (S fuel) n acc = ds ++ acc /\ ds <> [] /\ forallb is_digit ds = true
             /\ forall a, digits_val ds a = Some (a * 10 ^ N.of_nat (length ds) + n).
Proof.
  induction fuel as [|fuel IH]; intros n acc Hn.
  - assert (n = 0) by (cbn in Hn; lia). subst n. exists [48]. split; [reflexivity|].
    split; [discriminate|]. split; [reflexivity|]. intros a. cbn. f_equal; lia.
  - rewrite ddf_unfold.
    assert (Hm : n mod 10 < 10) by (apply N.mod_lt; lia).
    assert (Hdm : n = 10 * (n / 10) + n mod 10) by (apply N.div_mod'; lia).
    assert (Hd : is_digit (48 + n mod 10) = true) by (unfold is_digit; lia).
    destruct (N.eqb_spec (n / 10) 0) as [Hq|Hq].
    + exists [48 + n mod 10]. split; [reflexivity|]. split; [discriminate|].
      split; [cbn [forallb]; rewrite Hd; reflexivity|]. intros a. cbn [digits_val length]. rewrite Hd.
      f_equal. change (10 ^ N.of_nat 1) with 10. lia.
    + assert (Hq2 : n / 10 < 2 ^ N.of_nat fuel).
      { apply N.div_lt_upper_bound; [lia|]. rewrite Nat2N.inj_succ, N.pow_succ_r' in Hn. lia. }
      destruct (IH (n / 10) ((48 + n mod 10) :: acc) Hq2) as [ds' [E [Hne [Hdig Hval]]]].
      exists (ds' ++ [48 + n mod 10]). split; [rewrite E; rewrite <- app_assoc; reflexivity|].
      split; [destruct ds'; discriminate|]. split; [rewrite forallb_app, Hdig; cbn [forallb]; rewrite Hd; reflexivity|].
      intros a. rewrite digits_val_app, Hval. cbn [digits_val]. rewrite Hd. f_equal.
      rewrite app_length. cbn [length]. rewrite Nat.add_1_r, Nat2N.inj_succ, N.pow_succ_r'.
      set (P := 10 ^ N.of_nat (length ds')) in *. lia.
Qed.

Lemma dec_of_N_spec n :
  dec_of_N n <> [] /\ forallb is_digit (dec_of_N n) = true /\ digits_val (dec_of_N n) 0 = Some n.
Proof.
  unfold dec_of_N.
  destruct (ddf_spec (N.to_nat (N.size n)) n []) as [ds [E [Hne [Hdig Hval]]]].
  - rewrite N2Nat.id. apply N.size_gt.
  - rewrite E. rewrite app_nil_r. split; [exact Hne|]. split; [exact Hdig|]. rewrite Hval. reflexivity.
Qed.

Lemma Z_of_lexeme_dec z : Z_of_lexeme (dec_of_Z z) = Some z.
Proof.
  destruct z as [|p|p]; [reflexivity| |].
  - cbn [dec_of_Z]. destruct (dec_of_N_spec (Npos p)) as [Hne [Hdig Hval]].
    destruct (dec_of_N (Npos p)) as [|c r] eqn:E; [congruence|].
    unfold Z_of_lexeme. cbn [forallb] in Hdig. apply andb_true_iff in Hdig. destruct Hdig as [Hc _].
    assert (H45 : (c =? 45) = false) by (unfold is_digit in Hc; lia).
    assert (H43 : (c =? 43) = false) by (unfold is_digit in Hc; lia).
    rewrite H45, H43, Hval. reflexivity.
  - cbn [dec_of_Z]. destruct (dec_of_N_spec (Npos p)) as [Hne [Hdig Hval]].
    unfold Z_of_lexeme. change (c_dash =? 45) with true. cbv iota.
    destruct (dec_of_N (Npos p)) as [|c r] eqn:E; [congruence|]. rewrite Hval. reflexivity.
Qed.

Lemma digits_clean ds : ds <> [] -> forallb is_digit ds = true ->
  qty_clean ds = true /\ qty_clean (c_dash :: ds) = true.
Proof.
  intros Hne Hdig.
  assert (H1 : forallb (fun c => negb (memb c [c_tab; c_space; c_lf])) ds = true).
  { rewrite forallb_forall in *. intros c Hc. specialize (Hdig c Hc).
    unfold is_digit in Hdig. cbv [memb existsb c_tab c_space c_lf]. lia. }
  assert (H2 : first_outside trim_qty ds = true).
  { destruct ds as [|c r]; [congruence|]. cbn [forallb] in Hdig. apply andb_true_iff in Hdig.
    destruct Hdig as [Hc _]. unfold is_digit in Hc.
    cbv [first_outside memb existsb trim_qty c_tab c_space c_lf c_colon c_quote]. lia. }
  assert (H3 : forall pre, last_outside (c_cr :: trim_text) (pre ++ ds) = true).
  { intros pre. destruct (snoc_cases ds) as [->|[s [c ->]]]; [congruence|].
    rewrite app_assoc, last_outside_snoc. rewrite forallb_app in Hdig. apply andb_true_iff in Hdig.
    destruct Hdig as [_ Hc]. cbn in Hc. rewrite andb_true_r in Hc. unfold is_digit in Hc.
    cbv [memb existsb trim_text c_cr c_tab c_space c_lf c_colon c_quote c_dash]. lia. }
  unfold qty_clean. split.
  - pose proof (H3 []) as H4. cbn [app] in H4. rewrite H1, H2, H4. reflexivity.
  - pose proof (H3 [c_dash]) as H4. cbn [app] in H4. cbn [forallb]. rewrite H1, H4. reflexivity.
Qed.

Theorem FmtStable_ZNum : FmtStable ZNum.
Proof.
  split.
  - intros v. exists v. split; [apply Z_of_lexeme_dec|reflexivity].
  - intros v. cbn [fmt_fixed ZNum]. destruct v as [|p|p].
    + reflexivity.
    + destruct (dec_of_N_spec (Npos p)) as [Hne [Hdig _]]. apply (digits_clean _ Hne Hdig).
    + destruct (dec_of_N_spec (Npos p)) as [Hne [Hdig _]]. apply (digits_clean _ Hne Hdig).
Qed.

(** with exact integers the quantity read back is the quantity printed *)
Lemma reread_ZNum v : reread ZNum v = v.
Proof. unfold reread. cbn [fmt_fixed of_lexeme ZNum]. rewrite Z_of_lexeme_dec. reflexivity. Qed.
