(** The number law [FmtStable] holds for the exact-integer instance [ZNum]:
    the decimal numeral of an integer reads back to the same integer.  This
    makes the hypothesis of the C14 theorems non-vacuous and lets the examples
    go through the theorems. *)
From Coq Require Import Lia ZifyBool ZifyNat ZifyN.
From HP Require Import Base.Bytes Base.Utf8 Base.Num Model.Parser Spec.PrintSpec Proofs.PrintBytes Proofs.PrintDecimal.
Open Scope N_scope.

Lemma Z_of_lexeme_dec z : Z_of_lexeme (dec_of_Z z) = Some z.
Proof.
  destruct z as [|p|p]; [reflexivity| |].
  - cbn [dec_of_Z]. destruct (dec_of_N_spec (Npos p)) as [Hne [Hdig [Hval _]]].
    destruct (dec_of_N (Npos p)) as [|c r] eqn:E; [congruence|].
    unfold Z_of_lexeme. cbn [forallb] in Hdig. apply andb_true_iff in Hdig. destruct Hdig as [Hc _].
    assert (H45 : (c =? 45) = false) by (unfold is_digit in Hc; lia).
    assert (H43 : (c =? 43) = false) by (unfold is_digit in Hc; lia).
    rewrite H45, H43, Hval. reflexivity.
  - cbn [dec_of_Z]. destruct (dec_of_N_spec (Npos p)) as [Hne [Hdig [Hval _]]].
    unfold Z_of_lexeme. change (c_dash =? 45) with true. cbv iota.
    destruct (dec_of_N (Npos p)) as [|c r] eqn:E; [congruence|]. rewrite Hval. reflexivity.
Qed.

Lemma digits_clean ds : ds <> [] -> forallb is_digit ds = true ->
  qty_clean ds = true /\ qty_clean (c_dash :: ds) = true.
Proof.
  intros Hne Hdig.
  assert (H1 : forallb (fun c => negb (memb c [c_tab; c_space; c_lf])) ds = true).
  { rewrite forallb_forall in *. intros c Hc. specialize (Hdig c Hc).
    unfold is_digit in Hdig. cbv [memb existsb c_tab c_space c_lf]. lia. }
  assert (H2 : first_outside trim_qty ds = true).
  { destruct ds as [|c r]; [congruence|]. cbn [forallb] in Hdig. apply andb_true_iff in Hdig.
    destruct Hdig as [Hc _]. unfold is_digit in Hc.
    cbv [first_outside memb existsb trim_qty c_tab c_space c_lf c_colon c_quote]. lia. }
  assert (H3 : forall pre, last_outside (c_cr :: trim_text) (pre ++ ds) = true).
  { intros pre. destruct (snoc_cases ds) as [->|[s [c ->]]]; [congruence|].
    rewrite app_assoc, last_outside_snoc. rewrite forallb_app in Hdig. apply andb_true_iff in Hdig.
    destruct Hdig as [_ Hc]. cbn in Hc. rewrite andb_true_r in Hc. unfold is_digit in Hc.
    cbv [memb existsb trim_text c_cr c_tab c_space c_lf c_colon c_quote c_dash]. lia. }
  unfold qty_clean. split.
  - pose proof (H3 []) as H4. cbn [app] in H4. rewrite H1, H2, H4. reflexivity.
  - pose proof (H3 [c_dash]) as H4. cbn [app] in H4. cbn [forallb]. rewrite H1, H4. reflexivity.
Qed.

Theorem FmtStable_ZNum : FmtStable ZNum.
Proof.
  split.
  - intros v. exists v. split; [apply Z_of_lexeme_dec|reflexivity].
  - intros v. cbn [fmt_fixed ZNum]. destruct v as [|p|p].
    + reflexivity.
    + destruct (dec_of_N_spec (Npos p)) as [Hne [Hdig _]]. apply (digits_clean _ Hne Hdig).
    + destruct (dec_of_N_spec (Npos p)) as [Hne [Hdig _]]. apply (digits_clean _ Hne Hdig).
Qed.

(** with exact integers the quantity read back is the quantity printed *)
Lemma reread_ZNum v : reread ZNum v = v.
Proof. unfold reread. cbn [fmt_fixed of_lexeme ZNum]. rewrite Z_of_lexeme_dec. reflexivity. Qed.
