(** WP04 / C09 -- the statements lifted to the program [run]: one theorem per
    command family, book side and log side. *)
From Coq Require Import Lia.
From HP Require Import Base.Bytes Base.Utf8 Base.Num Model.Scanner Model.Parser Model.Elements Model.Resolver
  Model.Dates Model.Tree Model.Writer Model.Regex Model.Reporters Model.Cli.
From HP Require Import Proofs.MalformedBase Proofs.MalformedLint Proofs.MalformedBook Proofs.MalformedLog.
Open Scope N_scope.

(** the settings computed by [load] carry the tokenised date layout *)
Lemma load_tokens : forall w i op, load w i = inr op -> tokenize (op_fmt op) = Some (rc_date (op_rc op)).
Proof.
  intros w i op H. unfold load in H.
  destruct (load_config w i) as [e|cfg]; [discriminate|].
  destruct (tokenize (pick_string (i_f_fmt i) (i_e_fmt i) (ce_fmt cfg) default_fmt)) as [toks|] eqn:Et;
    [|discriminate].
  destruct (match i_f_today i with
            | Some s => match parse_date toks s with Some c => inr (time_of_civil c) | None => inl EBadDate end
            | None => inr (time_of_civil (civ (or_default (ce_now cfg) (w_clock w))))
            end) as [e|now]; [discriminate|].
  destruct (pick_period w now toks (i_g_begin i) (i_l_begin i)) as [e|bt]; [discriminate|].
  destruct (pick_period w now toks (i_g_end i) (i_l_end i)) as [e|et]; [discriminate|].
  inversion H; subst op. cbn. exact Et.
Qed.

Section Run.
  Context (NM : Num).
  Notation errors_of := (errors_of NM).
  Notation nodes_of := (nodes_of NM).

  (** * item 4: "the first malformed line" is well defined *)
  Theorem first_error_is_first : forall (evs : list (event NM)) e es,
    errors_of evs = e :: es ->
    exists pre post,
      evs = pre ++ EErr e :: post /\ errors_of pre = [] /\ errors_of post = es
      /\ forall pre' e' post', evs = pre' ++ EErr e' :: post' -> errors_of pre' = [] ->
                               pre' = pre /\ e' = e /\ post' = post.
  Proof.
    intros evs e es H. destruct (first_error_split NM evs e es H) as (pre & post & E1 & E2 & E3).
    exists pre, post. split; [exact E1|]. split; [exact E2|]. split; [exact E3|].
    intros pre' e' post' E1' E2'. subst evs.
    destruct (first_error_split_unique NM _ _ _ _ _ _ E1' E2 E2') as (A1 & A2 & A3).
    subst. repeat split.
  Qed.

  (** a prefix of a file whose headings are all dates has dated headings *)
  Lemma dated_prefix : forall toks (pre : list (event NM)) ev post,
    Forall (dated NM toks) (nodes_of (pre ++ ev :: post)) -> Forall (dated NM toks) (nodes_of pre).
  Proof.
    intros toks pre ev post H. rewrite nodes_of_app in H. apply Forall_app in H. tauto.
  Qed.

  (** * malformed line in the book *)

  (** reg, bal, report totals, report unresolved *)
  Theorem run_book_error_db_log : forall (w : world) (i : invocation) (op : options) data e es,
    load w i = inr op ->
    In (i_cmd i) [CReg; CBal; CTotals; CUnresolved] ->
    op_db op <> [] ->
    op_db op <> dev_null ->
    lookup (op_db op) (w_fs w) = Some (FFile data) ->
    lookup (op_db op) (w_read_fault w) = None ->
    open_file w (op_log op) <> None ->
    errors_of (events NM data) = e :: es ->
    run NM w i = {| out_stdout := []; out_status := Failed (EParse (perr_message e)) |}.
  Proof.
    intros w i op data e es Hl Hc Hne Hnd Hfs Hrf Hlog He.
    destruct (open_file w (op_log op)) as [olog|] eqn:Eo; [|contradiction].
    unfold run. rewrite Hl.
    destruct Hc as [Hc|[Hc|[Hc|[Hc|[]]]]]; rewrite <- Hc;
      eapply run_db_log_first_error_book; eassumption.
  Qed.

  (** summary DAY *)
  Theorem run_book_error_summary : forall (w : world) (i : invocation) (op : options) arg t data e es,
    load w i = inr op ->
    i_cmd i = CSummary arg ->
    time_from_string w (op_now op) (rc_date (op_rc op)) arg = inr t ->
    op_db op <> [] ->
    op_db op <> dev_null ->
    lookup (op_db op) (w_fs w) = Some (FFile data) ->
    lookup (op_db op) (w_read_fault w) = None ->
    open_file w (op_log op) <> None ->
    errors_of (events NM data) = e :: es ->
    run NM w i = {| out_stdout := []; out_status := Failed (EParse (perr_message e)) |}.
  Proof.
    intros w i op arg t data e es Hl Hc Ht Hne Hnd Hfs Hrf Hlog He.
    destruct (open_file w (op_log op)) as [olog|] eqn:Eo; [|contradiction].
    unfold run. rewrite Hl, Hc, Ht.
    eapply run_db_log_first_error_book; eassumption.
  Qed.

  (** report element-total X *)
  Theorem run_book_error_element_total : forall (w : world) (i : invocation) (op : options) x data e es,
    load w i = inr op ->
    i_cmd i = CElementTotal x -> x <> [] ->
    op_db op <> [] ->
    op_db op <> dev_null ->
    lookup (op_db op) (w_fs w) = Some (FFile data) ->
    lookup (op_db op) (w_read_fault w) = None ->
    errors_of (events NM data) = e :: es ->
    run NM w i = {| out_stdout := []; out_status := Failed (EParse (perr_message e)) |}.
  Proof.
    intros w i op x data e es Hl Hc Hx Hne Hnd Hfs Hrf He.
    unfold run. rewrite Hl, Hc. eapply run_element_total_first_error_book; eassumption.
  Qed.

  (** csv database-resolved *)
  Theorem run_book_error_csv_db_resolved : forall (w : world) (i : invocation) (op : options) data e es,
    load w i = inr op ->
    i_cmd i = CCsvDbResolved ->
    op_db op <> [] ->
    op_db op <> dev_null ->
    lookup (op_db op) (w_fs w) = Some (FFile data) ->
    lookup (op_db op) (w_read_fault w) = None ->
    errors_of (events NM data) = e :: es ->
    run NM w i = {| out_stdout := []; out_status := Failed (EParse (perr_message e)) |}.
  Proof.
    intros w i op data e es Hl Hc Hne Hnd Hfs Hrf He.
    unfold run. rewrite Hl, Hc. eapply run_csv_db_resolved_first_error_book; eassumption.
  Qed.

  (** csv database: the rows of the records before the malformed line are printed *)
  Theorem run_book_error_csv_db : forall (w : world) (i : invocation) (op : options) data pre e post,
    load w i = inr op ->
    i_cmd i = CCsvDb ->
    op_db op <> [] ->
    op_db op <> dev_null ->
    lookup (op_db op) (w_fs w) = Some (FFile data) ->
    lookup (op_db op) (w_read_fault w) = None ->
    w_sink w = None ->
    events NM data = pre ++ EErr e :: post -> errors_of pre = [] ->
    run NM w i = {| out_stdout := csv_db_text NM (nodes_of pre);
                    out_status := Failed (EParse (perr_message e)) |}.
  Proof.
    intros w i op data pre e post Hl Hc Hne Hnd Hfs Hrf Hsink Hev Hpre.
    unfold run. rewrite Hl, Hc. eapply run_csv_db_first_error_book; eassumption.
  Qed.

  (** stats: the log is read first and must itself be fine *)
  Theorem run_book_error_stats : forall (w : world) (i : invocation) (op : options) ldata data e es,
    load w i = inr op ->
    i_cmd i = CStats ->
    op_log op <> [] ->
    op_log op <> dev_null ->
    lookup (op_log op) (w_fs w) = Some (FFile ldata) ->
    lookup (op_log op) (w_read_fault w) = None ->
    errors_of (events NM ldata) = [] -> readable ldata ->
    Forall (fun n => parse_date (rc_date (op_rc op)) (header n) <> None) (nodes_of (events NM ldata)) ->
    op_db op <> [] ->
    op_db op <> dev_null ->
    lookup (op_db op) (w_fs w) = Some (FFile data) ->
    lookup (op_db op) (w_read_fault w) = None ->
    errors_of (events NM data) = e :: es ->
    run NM w i = {| out_stdout := []; out_status := Failed (EParse (perr_message e)) |}.
  Proof.
    intros w i op ldata data e es Hl Hc Hlne Hlnd Hlfs Hlrf Hlc Hlr Hld Hne Hnd Hfs Hrf He.
    unfold run. rewrite Hl, Hc. eapply run_stats_first_error_book; eassumption.
  Qed.

  (** * malformed line in the log *)

  (** reg, bal, report totals, report unresolved *)
  Theorem run_log_error_db_log : forall (w : world) (i : invocation) (op : options) odb d data pre e post,
    load w i = inr op ->
    In (i_cmd i) [CReg; CBal; CTotals; CUnresolved] ->
    (* reg: the -f pattern compiles, and not the single-element reporter (the one with a partial operation) *)
    (i_cmd i = CReg -> pattern_ok (rc_single_food (op_rc op)) = true
                       /\ (rc_single_element (op_rc op) = [] \/ rc_group_food (op_rc op) = true)) ->
    open_file w (op_db op) = Some odb ->
    resolved_db NM w op odb = inr d ->
    op_log op <> [] ->
    op_log op <> dev_null ->
    lookup (op_log op) (w_fs w) = Some (FFile data) ->
    lookup (op_log op) (w_read_fault w) = None ->
    w_sink w = None ->
    events NM data = pre ++ EErr e :: post ->
    errors_of pre = [] ->
    Forall (fun n => parse_date (rc_date (op_rc op)) (header n) <> None) (nodes_of pre) ->
    out_status (run NM w i) = Failed (EParse (perr_message e)).
  Proof.
    intros w i op odb d data pre e post Hl Hc Hreg Hdb Hres Hne Hnd Hfs Hrf Hsink Hev Hpre Hd.
    pose proof (load_tokens w i op Hl) as Htok.
    unfold run. rewrite Hl.
    destruct Hc as [Hc|[Hc|[Hc|[Hc|[]]]]]; rewrite <- Hc.
    - destruct (Hreg (eq_sym Hc)) as [Hp Hs].
      eapply run_db_log_first_error_log_status; try eassumption.
      + apply total_reg. exact Hp.
      + apply nopanic_reg. exact Hs.
    - eapply run_db_log_first_error_log_status; try eassumption.
      + apply total_bal.
      + apply nopanic_bal.
    - eapply run_db_log_first_error_log_status; try eassumption.
      + apply total_totals.
      + apply nopanic_totals.
    - eapply run_db_log_first_error_log_status; try eassumption.
      + apply total_unresolved.
      + apply nopanic_unresolved.
  Qed.

  (** summary DAY *)
  Theorem run_log_error_summary : forall (w : world) (i : invocation) (op : options) arg t odb d data pre e post,
    load w i = inr op ->
    i_cmd i = CSummary arg ->
    time_from_string w (op_now op) (rc_date (op_rc op)) arg = inr t ->
    open_file w (op_db op) = Some odb ->
    resolved_db NM w op odb = inr d ->
    op_log op <> [] ->
    op_log op <> dev_null ->
    lookup (op_log op) (w_fs w) = Some (FFile data) ->
    lookup (op_log op) (w_read_fault w) = None ->
    w_sink w = None ->
    events NM data = pre ++ EErr e :: post ->
    errors_of pre = [] ->
    Forall (fun n => parse_date (rc_date (op_rc op)) (header n) <> None) (nodes_of pre) ->
    out_status (run NM w i) = Failed (EParse (perr_message e)).
  Proof.
    intros w i op arg t odb d data pre e post Hl Hc Ht Hdb Hres Hne Hnd Hfs Hrf Hsink Hev Hpre Hd.
    pose proof (load_tokens w i op Hl) as Htok.
    unfold run. rewrite Hl, Hc, Ht.
    eapply run_db_log_first_error_log_status; try eassumption.
    - apply total_summary.
    - apply nopanic_summary.
  Qed.

  (** report quantity, csv log, print: only the log is read *)
  Theorem run_log_error_log_only : forall (w : world) (i : invocation) (op : options) data pre e post,
    load w i = inr op ->
    In (i_cmd i) [CQuantity; CCsvLog; CPrint] ->
    op_log op <> [] ->
    op_log op <> dev_null ->
    lookup (op_log op) (w_fs w) = Some (FFile data) ->
    lookup (op_log op) (w_read_fault w) = None ->
    w_sink w = None ->
    events NM data = pre ++ EErr e :: post ->
    errors_of pre = [] ->
    Forall (fun n => parse_date (rc_date (op_rc op)) (header n) <> None) (nodes_of pre) ->
    out_status (run NM w i) = Failed (EParse (perr_message e)).
  Proof.
    intros w i op data pre e post Hl Hc Hne Hnd Hfs Hrf Hsink Hev Hpre Hd.
    pose proof (load_tokens w i op Hl) as Htok.
    unfold run. rewrite Hl.
    destruct Hc as [Hc|[Hc|[Hc|[]]]]; rewrite <- Hc.
    - erewrite run_log_first_error_log; try eassumption; [reflexivity|apply total_quantity].
    - erewrite run_log_first_error_log; try eassumption; [reflexivity|apply total_csv_log].
    - erewrite run_log_first_error_log; try eassumption; [reflexivity|apply total_print].
  Qed.

  (** stats: the headings before the malformed line must be dates here too (fix F27: before, no date was
      required of the headings); the book is not reached *)
  Theorem run_log_error_stats : forall (w : world) (i : invocation) (op : options) data pre e post,
    load w i = inr op ->
    i_cmd i = CStats ->
    op_log op <> [] ->
    op_log op <> dev_null ->
    lookup (op_log op) (w_fs w) = Some (FFile data) ->
    lookup (op_log op) (w_read_fault w) = None ->
    events NM data = pre ++ EErr e :: post ->
    errors_of pre = [] ->
    Forall (fun n => parse_date (rc_date (op_rc op)) (header n) <> None) (nodes_of pre) ->
    run NM w i = {| out_stdout := []; out_status := Failed (EParse (perr_message e)) |}.
  Proof.
    intros w i op data pre e post Hl Hc Hne Hnd Hfs Hrf Hev Hpre Hd.
    unfold run. rewrite Hl, Hc. eapply run_stats_first_error_log; eassumption.
  Qed.

  (** stats: and the first heading that is not a date (before any malformed line) ends the run with the date
      error, nothing printed (fix F27: before, such a heading was counted and shown as the zero time) *)
  Theorem run_bad_date_stats : forall (w : world) (i : invocation) (op : options) data pre n post,
    load w i = inr op ->
    i_cmd i = CStats ->
    op_log op <> [] ->
    op_log op <> dev_null ->
    lookup (op_log op) (w_fs w) = Some (FFile data) ->
    lookup (op_log op) (w_read_fault w) = None ->
    events NM data = pre ++ ENode n :: post ->
    errors_of pre = [] ->
    Forall (fun m => parse_date (rc_date (op_rc op)) (header m) <> None) (nodes_of pre) ->
    parse_date (rc_date (op_rc op)) (header n) = None ->
    post <> [] \/ readable data ->
    run NM w i = {| out_stdout := []; out_status := Failed EBadDate |}.
  Proof.
    intros w i op data pre n post Hl Hc Hne Hnd Hfs Hrf Hev Hpre Hd Hbad Hpost.
    unfold run. rewrite Hl, Hc. eapply run_stats_bad_date_first; eassumption.
  Qed.

  (** lint at program level *)
  Theorem run_lint_reports_all : forall (w : world) (i : invocation) (op : options) file data,
    load w i = inr op ->
    i_cmd i = CLint file ->
    file <> [] ->
    file <> dev_null ->
    lookup file (w_fs w) = Some (FFile data) ->
    lookup file (w_read_fault w) = None ->
    w_sink w = None ->
    readable data ->
    run NM w i =
      {| out_stdout := concat (map (fun e => perr_message e ++ [c_lf]) (errors_of (events NM data)))
                       ++ (if (is_nil (errors_of (events NM data)) && negb (i_silent i))%bool
                           then b "No errors found" ++ [c_lf] else []);
         out_status := Ok |}.
  Proof.
    intros w i op file data Hl Hc Hne Hnd Hfs Hrf Hsink Hr.
    unfold run. rewrite Hl, Hc. apply lint_reports_all; assumption.
  Qed.
End Run.
