(** C06, part 2: walking a log with a period = walking the log with the days outside the
    period deleted and no period. *)
From Coq Require Import Lia.
From HP Require Import Base.Bytes Base.Num Model.Scanner Model.Parser Model.Dates Model.Writer Model.Reporters Model.Cli
  Spec.PeriodSpec Proofs.PeriodInterval.
Open Scope Z_scope.

Section Filter.
  Context (NM : Num) (R : reporter NM) (pd : nat -> list bytes -> list bytes) (pf : list bytes -> list bytes)
          (toks : list ltoken) (bt et : option time).

  Notation cb_p := (walk_cb NM R pd toks bt et).
  Notation cb_0 := (walk_cb NM R pd toks None None).
  Notation keep := (keep_ev NM toks bt et).

  (** a record outside the period leaves everything as it was and does not stop the walk *)
  Lemma walk_cb_skip : forall st n, sel NM toks bt et n = false -> cb_p st (ENode n) = (st, false, None).
  Proof.
    intros [[rs i] wr] n Hs. unfold sel in Hs. unfold walk_cb.
    destruct (parse_date toks (header n)) as [c|]; [|discriminate].
    rewrite Hs. reflexivity.
  Qed.

  (** on everything else the period is not looked at *)
  Lemma walk_cb_keep : forall st ev, keep ev = true -> cb_p st ev = cb_0 st ev.
  Proof.
    intros [[rs i] wr] [n|e] Hk; [|reflexivity].
    unfold keep_ev, sel in Hk. unfold walk_cb.
    destruct (parse_date toks (header n)) as [c|]; [|reflexivity].
    rewrite Hk. reflexivity.
  Qed.

  (** the core: same reporter state, same day counter, same writer, same stop/error *)
  Theorem period_is_filter_loop : forall evs st,
    drive_loop NM cb_p evs st = drive_loop NM cb_0 (filter keep evs) st.
  Proof.
    induction evs as [|ev evs IH]; intros st; [reflexivity|].
    cbn [filter]. destruct (keep ev) eqn:Hk.
    - cbn [drive_loop]. rewrite (walk_cb_keep st ev Hk).
      destruct (cb_0 st ev) as [[st' stop] e]. destruct stop; [reflexivity|apply IH].
    - destruct ev as [n|e]; [|discriminate Hk].
      cbn [drive_loop]. rewrite (walk_cb_skip st n Hk). apply IH.
  Qed.

  (** the record pending at the end of the file *)
  Lemma period_is_filter_last : forall last fin st,
    drive NM cb_p [] last fin st = drive NM cb_0 [] (keep_last NM toks bt et last) fin st.
  Proof.
    intros last fin st. unfold drive. cbn [drive_loop].
    destruct fin; try reflexivity.
    destruct last as [n|]; [|reflexivity]. cbn [keep_last].
    destruct (sel NM toks bt et n) eqn:Hs.
    - rewrite (walk_cb_keep st (ENode n) Hs). reflexivity.
    - rewrite (walk_cb_skip st n Hs). reflexivity.
  Qed.

  (** the whole callback protocol of ParseStreamCallback *)
  Theorem period_is_filter_drive : forall evs last fin st,
    drive NM cb_p evs last fin st = drive NM cb_0 (filter keep evs) (keep_last NM toks bt et last) fin st.
  Proof.
    intros evs last fin st. unfold drive. rewrite period_is_filter_loop.
    destruct (drive_loop NM cb_0 (filter keep evs) st) as [st' [e|]]; [reflexivity|].
    generalize (period_is_filter_last last fin st'). unfold drive. cbn [drive_loop]. intros H; exact H.
  Qed.

  (** with the hypothesis that every heading is a date, "kept" is literally
      "the date lies in the period" *)
  Lemma keep_strict_when_headings_parse : forall evs,
    headings_parse NM toks evs -> filter keep evs = filter (keep_ev_strict NM toks bt et) evs.
  Proof.
    induction evs as [|ev evs IH]; intros Hp; [reflexivity|].
    cbn [filter]. rewrite IH.
    - assert (Hk : keep ev = keep_ev_strict NM toks bt et ev).
      { destruct ev as [n|e]; [|reflexivity]. unfold keep_ev, keep_ev_strict, sel, sel_strict.
        destruct (parse_date toks (header n)) eqn:E; [reflexivity|].
        exfalso. apply (Hp n); [left; reflexivity|exact E]. }
      rewrite Hk. reflexivity.
    - intros n Hn. apply Hp. right. exact Hn.
  Qed.

  (** a checkable form of the hypothesis *)
  Definition headings_parse_b (evs : list (event NM)) : bool :=
    forallb (fun ev => match ev with
                       | ENode n => match parse_date toks (header n) with Some _ => true | None => false end
                       | EErr _ => true
                       end) evs.

  Lemma headings_parse_b_ok : forall evs, headings_parse_b evs = true -> headings_parse NM toks evs.
  Proof.
    intros evs H n Hn. unfold headings_parse_b in H. rewrite forallb_forall in H.
    specialize (H _ Hn). cbn in H. destruct (parse_date toks (header n)); [discriminate|discriminate H].
  Qed.

  Theorem period_is_filter_strict : forall evs st,
    headings_parse NM toks evs ->
    drive_loop NM cb_p evs st = drive_loop NM cb_0 (filter (keep_ev_strict NM toks bt et) evs) st.
  Proof.
    intros evs st Hp. rewrite period_is_filter_loop, keep_strict_when_headings_parse by assumption. reflexivity.
  Qed.

  (** [parse_opened] in terms of the stream *)
  Lemma parse_opened_stream : forall (S : Type) (cb : S -> event NM -> S * bool * option cerr) o s evs last fin,
    stream_of NM o = (evs, last, fin) ->
    parse_opened NM cb o s =
    let '(s', r) := drive NM cb evs last fin s in
    (s', match r with
         | None => None
         | Some (inl e) => Some e
         | Some (inr ScanTooLong) => Some (EScan true)
         | Some (inr _) => Some (EScan false)
         end).
  Proof.
    intros S cb o s evs last fin Hs. unfold parse_opened, stream_of, parse_stream in *.
    destruct o as [d f|].
    - destruct (scan d f) as [lines fin0]. destruct (parse_lines NM lines) as [evs0 last0].
      inversion Hs; subst. reflexivity.
    - destruct (scan [] (FailAt 0)) as [lines fin0]. destruct (parse_lines NM lines) as [evs0 last0].
      inversion Hs; subst. reflexivity.
  Qed.

  (** Hence the same report: if the file [o'] parses into the stream of [o] with the records
      outside the period deleted, the walk over [o] with the period and the walk over [o']
      without one end with the same writer, the same error and the same reporter state. *)
  Theorem period_is_filter_report : forall o o' evs last fin wr,
    stream_of NM o = (evs, last, fin) ->
    stream_of NM o' = (filter keep evs, keep_last NM toks bt et last, fin) ->
    walk_and_finish NM R pd pf toks bt et o wr = walk_and_finish NM R pd pf toks None None o' wr.
  Proof.
    intros o o' evs last fin wr Ho Ho'. unfold walk_and_finish.
    rewrite (parse_opened_stream _ cb_p o _ _ _ _ Ho).
    rewrite (parse_opened_stream _ cb_0 o' _ _ _ _ Ho').
    rewrite period_is_filter_drive. reflexivity.
  Qed.
End Filter.
