(** WP11: the quantity report, the CSV log, and their agreement (law-free). *)
From HP Require Import Base.Bytes Base.Num Model.Elements Model.Dates Model.Tree Model.Writer Model.Reporters
  Spec.Agree2Spec Proofs.AgreeMiscBase.
From Coq Require Import Lia Permutation.

Section Qty.
  Context (NM : Num).
  Notation T := (T NM).
  Notation elements := (elements NM).
  Notation lognode := (lognode NM).

  (** *** merge_elements gives pairwise distinct names *)
  Lemma keys_add_to : forall name v (el : elements),
    keys (add_to NM name v el) = if existsb (beq name) (keys el) then keys el else keys el ++ [name].
  Proof.
    intros name v el. induction el as [|[n x] r IH]; cbn [add_to keys map fst existsb app]; [reflexivity|].
    rewrite (beq_sym name n). destruct (beq n name); cbn [map fst orb]; [reflexivity|].
    unfold keys in IH. rewrite IH. destruct (existsb (beq name) (map fst r)); reflexivity.
  Qed.

  Lemma NoDup_snoc : forall {A} (l : list A) x, NoDup l -> ~ In x l -> NoDup (l ++ [x]).
  Proof.
    intros A l x H Hx. induction H as [|y r Hy Hr IH]; cbn [app].
    - constructor; [intros [] | constructor].
    - constructor.
      + rewrite in_app_iff. intros [K|[K|[]]]; [contradiction|]. subst. apply Hx. left. reflexivity.
      + apply IH. intro K. apply Hx. right. exact K.
  Qed.

  Lemma add_to_NoDup : forall name v (el : elements), NoDup (keys el) -> NoDup (keys (add_to NM name v el)).
  Proof.
    intros name v el H. rewrite keys_add_to. destruct (existsb (beq name) (keys el)) eqn:E; [exact H|].
    apply NoDup_snoc; [exact H|]. intro K. apply existsb_beq_In in K. congruence.
  Qed.

  Lemma merge_elements_NoDup : forall es : elements, NoDup (map fst (merge_elements NM es)).
  Proof.
    intro es. unfold merge_elements.
    assert (G : forall (acc : elements), NoDup (keys acc) ->
                NoDup (keys (fold_left (fun acc nv => add_to NM (fst nv) (snd nv) acc) es acc))).
    { induction es as [|e r IH]; intros acc H; cbn [fold_left]; [exact H|].
      apply IH. apply add_to_NoDup. exact H. }
    apply (G []). constructor.
  Qed.

  (** names of a merged day: the first occurrences of the names written in the file *)
  Lemma merge_elements_keys : forall es : elements, map fst (merge_elements NM es) = first_occ (map fst es).
  Proof.
    intro es. unfold merge_elements. induction es as [|e r IH] using rev_ind; [reflexivity|].
    rewrite fold_left_app. cbn [fold_left]. change (map fst ?l) with (keys l) at 1. rewrite keys_add_to.
    unfold keys. rewrite IH, map_app. cbn [map]. rewrite first_occ_snoc. reflexivity.
  Qed.

  Lemma existsb_first_occ : forall x l, existsb (beq x) (first_occ l) = existsb (beq x) l.
  Proof.
    intros x l. destruct (existsb (beq x) l) eqn:E.
    - apply (proj2 (existsb_beq_In _ _)). apply (proj2 (first_occ_In _ _)). apply (proj1 (existsb_beq_In _ _)). exact E.
    - destruct (existsb (beq x) (first_occ l)) eqn:E'; [|reflexivity].
      apply (proj1 (existsb_beq_In _ _)) in E'. apply (proj1 (first_occ_In _ _)) in E'.
      apply (proj2 (existsb_beq_In _ _)) in E'. congruence.
  Qed.

  (** *** the walk of the quantity reporter is one fold over all entries *)
  Definition qty_fold (es acc : elements) : elements :=
    fold_left (fun a nv => qty_add NM (fst nv) (snd nv) a) es acc.

  Lemma walk_quantity_from : forall desc π L i st,
    walk_from NM (rep_quantity NM desc) π i L st = qty_fold (entries NM L) st.
  Proof.
    intros desc π L. induction L as [|ln r IH]; intros i st; cbn [walk_from entries flat_map].
    - reflexivity.
    - rewrite IH. unfold qty_fold, entries. rewrite fold_left_app. reflexivity.
  Qed.

  (** *** characterisation of the fold *)
  Lemma qtys_of_app : forall f (l1 l2 : elements), qtys_of NM f (l1 ++ l2) = qtys_of NM f l1 ++ qtys_of NM f l2.
  Proof. intros f l1 l2. unfold qtys_of. rewrite filter_app, map_app. reflexivity. Qed.

  Lemma qtys_of_snoc : forall f k v (l : elements),
    qtys_of NM f (l ++ [(k, v)]) = qtys_of NM f l ++ (if beq k f then [v] else []).
  Proof.
    intros f k v l. rewrite qtys_of_app. f_equal. unfold qtys_of. cbn [filter fst].
    destruct (beq k f); reflexivity.
  Qed.

  Lemma qtys_of_nil_iff : forall f (es : elements), ~ In f (map fst es) -> qtys_of NM f es = [].
  Proof.
    intros f es H. unfold qtys_of. induction es as [|[k v] r IH]; cbn [filter map fst]; [reflexivity|].
    destruct (beq_spec k f) as [E|E].
    - exfalso. apply H. left. exact E.
    - apply IH. intro K. apply H. right. exact K.
  Qed.

  Lemma lookup_map_key : forall {V} (g : bytes -> V) l k,
    lookup k (map (fun f => (f, g f)) l) = if existsb (beq k) l then Some (g k) else None.
  Proof.
    intros V g l k. induction l as [|x r IH]; cbn [map lookup existsb]; [reflexivity|].
    destruct (beq_spec k x) as [E|E]; cbn [orb]; [subst; reflexivity | exact IH].
  Qed.

  Lemma set_map_key : forall {V} (g : bytes -> V) l k v,
    NoDup l -> In k l ->
    set k v (map (fun f => (f, g f)) l) = map (fun f => (f, if beq f k then v else g f)) l.
  Proof.
    intros V g l k v ND. induction ND as [|x r Hx Hr IH]; intro Hin; [contradiction|].
    cbn [map set]. destruct (beq_spec k x) as [E|E].
    - subst x. rewrite beq_refl. f_equal. apply map_ext_in. intros y Hy.
      destruct (beq_spec y k) as [E'|E']; [subst; contradiction | reflexivity].
    - destruct (beq_spec x k) as [E'|E']; [congruence|]. f_equal. apply IH.
      destruct Hin as [Hin|Hin]; [congruence | exact Hin].
  Qed.

  Lemma sum_from_zero_snoc : forall qs v, sum_from_zero NM (qs ++ [v]) = add NM (sum_from_zero NM qs) v.
  Proof. intros qs v. unfold sum_from_zero. rewrite fold_left_app. reflexivity. Qed.

  Theorem qty_fold_spec : forall es : elements,
    qty_fold es [] = map (fun f => (f, sum_from_zero NM (qtys_of NM f es))) (first_occ (map fst es)).
  Proof.
    intro es. induction es as [|[f v] r IH] using rev_ind; [reflexivity|].
    unfold qty_fold in *. rewrite fold_left_app. cbn [fold_left fst snd]. rewrite IH. clear IH.
    rewrite map_app. cbn [map fst]. rewrite first_occ_snoc.
    unfold qty_add. rewrite lookup_map_key.
    destruct (existsb (beq f) (first_occ (map fst r))) eqn:E.
    - rewrite set_map_key; [| apply first_occ_NoDup | apply existsb_beq_In; exact E].
      apply map_ext. intro g. f_equal. rewrite qtys_of_snoc.
      rewrite (beq_sym f g). destruct (beq g f) eqn:Eg.
      + apply beq_true_iff in Eg. subst g. rewrite sum_from_zero_snoc. reflexivity.
      + rewrite app_nil_r. reflexivity.
    - rewrite map_app. cbn [map]. f_equal.
      + apply map_ext_in. intros g Hg. f_equal. rewrite qtys_of_snoc.
        destruct (beq_spec f g) as [Eg|Eg].
        * subst g. apply existsb_beq_In in Hg. congruence.
        * rewrite app_nil_r. reflexivity.
      + f_equal. f_equal. rewrite qtys_of_snoc, beq_refl. rewrite qtys_of_nil_iff; [reflexivity|].
        intro K. apply first_occ_In in K. apply existsb_beq_In in K. congruence.
  Qed.

  (** *** days with distinct names: the per-food list is one quantity per day *)
  Lemma qtys_of_day : forall f (els : elements),
    NoDup (map fst els) ->
    qtys_of NM f els = match lookup f els with Some q => [q] | None => [] end.
  Proof.
    intros f els. induction els as [|[k v] r IH]; intro ND; [reflexivity|].
    cbn [map fst] in ND. inversion ND as [|? ? Hk ND']; subst.
    unfold qtys_of in *. cbn [filter fst lookup]. rewrite (beq_sym f k).
    destruct (beq_spec k f) as [E|E].
    - subst k. cbn [map snd]. f_equal. fold (qtys_of NM f r). apply qtys_of_nil_iff. exact Hk.
    - apply IH. exact ND'.
  Qed.

  Lemma qtys_of_days : forall f (L : list lognode),
    Forall (fun ln => NoDup (map fst (ln_elems NM ln))) L ->
    qtys_of NM f (entries NM L) = day_qtys NM f L.
  Proof.
    intros f L H. induction H as [|ln r Hln Hr IH]; [reflexivity|].
    unfold entries, day_qtys in *. cbn [flat_map]. rewrite qtys_of_app, IH, qtys_of_day by exact Hln. reflexivity.
  Qed.

  (** *** quantity_spec *)
  Theorem quantity_spec_entries : forall desc π (L : list lognode),
    walk_state NM (rep_quantity NM desc) π L
    = map (fun f => (f, sum_from_zero NM (qtys_of NM f (entries NM L)))) (first_occ (map fst (entries NM L))).
  Proof.
    intros desc π L. unfold walk_state. rewrite walk_quantity_from. apply qty_fold_spec.
  Qed.

  Theorem quantity_spec : forall desc π (L : list lognode),
    Forall (fun ln => NoDup (map fst (ln_elems NM ln))) L ->
    walk_state NM (rep_quantity NM desc) π L
    = map (fun f => (f, fold_left (add NM) (day_qtys NM f L) (zero NM))) (first_occ (map fst (entries NM L))).
  Proof.
    intros desc π L H. rewrite quantity_spec_entries. apply map_ext. intro f.
    rewrite qtys_of_days by exact H. reflexivity.
  Qed.

  (** the brief's form of the walk (one oracle) is the same state *)
  Lemma walk_state_const_eq : forall (R : reporter NM) π (L : list lognode),
    walk_state_const NM R π L = walk_state NM R (fun _ => π) L.
  Proof.
    intros R π L. unfold walk_state_const, walk_state. generalize (r_init NM R) as st. generalize O as i.
    induction L as [|ln r IH]; intros i st; cbn [fold_left walk_from]; [reflexivity|]. apply IH.
  Qed.

  (** consequences read off the list equality *)
  Corollary quantity_keys : forall desc π (L : list lognode),
    keys (walk_state NM (rep_quantity NM desc) π L) = first_occ (map fst (entries NM L)).
  Proof.
    intros desc π L. rewrite quantity_spec_entries. unfold keys. rewrite map_map. cbn [fst]. apply map_id.
  Qed.

  Corollary quantity_lookup : forall desc π (L : list lognode) f,
    lookup f (walk_state NM (rep_quantity NM desc) π L)
    = if existsb (beq f) (map fst (entries NM L)) then Some (sum_from_zero NM (qtys_of NM f (entries NM L))) else None.
  Proof.
    intros desc π L f. rewrite quantity_spec_entries, lookup_map_key.
    rewrite existsb_first_occ. reflexivity.
  Qed.

  (** what Flush prints: the figures by name in sorted order (before the stable sort by value),
      whatever order the runtime delivers the map keys in *)
  Lemma named_in_order_spec : forall (π : list bytes -> list bytes) (acc : elements),
    (forall l, Permutation (π l) l) ->
    named_in_order NM π acc
    = filter_some (map (fun n => option_map (fun v => (n, v)) (lookup n acc)) (sort_bytes (keys acc))).
  Proof.
    intros π acc Hπ. unfold named_in_order. rewrite (sort_bytes_perm_eq _ _ (Hπ (keys acc))). reflexivity.
  Qed.

  Lemma filter_some_map_Some : forall {A B} (g : A -> B) l, filter_some (map (fun x => Some (g x)) l) = map g l.
  Proof. intros A B g l. induction l as [|x r IH]; cbn [map filter_some]; [reflexivity|]. rewrite IH. reflexivity. Qed.

  Theorem quantity_flush_rows : forall desc π πf (L : list lognode),
    (forall l, Permutation (πf l) l) ->
    let es := entries NM L in
    named_in_order NM πf (walk_state NM (rep_quantity NM desc) π L)
    = map (fun f => (f, sum_from_zero NM (qtys_of NM f es))) (sort_bytes (first_occ (map fst es))).
  Proof.
    intros desc π πf L Hπ es. rewrite named_in_order_spec by exact Hπ.
    rewrite quantity_keys. fold es.
    rewrite <- (filter_some_map_Some (fun f => (f, sum_from_zero NM (qtys_of NM f es)))).
    f_equal. apply map_ext_in. intros f Hf.
    rewrite quantity_lookup. fold es.
    apply (proj1 (sort_bytes_In _ _)) in Hf. apply (proj1 (first_occ_In _ _)) in Hf.
    apply (proj2 (existsb_beq_In _ _)) in Hf. rewrite Hf. reflexivity.
  Qed.

  (** *** the CSV log *)
  Lemma csv_log_rows_spec : forall ln : lognode,
    csv_log_rows NM ln = map (csv_row_of NM) (csv_entries NM [ln]).
  Proof.
    intro ln. unfold csv_log_rows, csv_entries. cbn [flat_map]. rewrite app_nil_r, map_map. reflexivity.
  Qed.

  Lemma csv_entries_cons : forall ln (L : list lognode),
    csv_entries NM (ln :: L) = csv_entries NM [ln] ++ csv_entries NM L.
  Proof. intros ln L. unfold csv_entries. cbn [flat_map]. rewrite app_nil_r. reflexivity. Qed.

  Lemma walk_csv_log_chunks : forall π (L : list lognode),
    walk_chunks NM (rep_csv_log NM) π L
    = map (fun e => checked (csv_record (csv_row_of NM e))) (csv_entries NM L).
  Proof.
    intros π L. unfold walk_chunks. generalize (r_init NM (rep_csv_log NM)) as st. generalize O as i.
    induction L as [|ln r IH]; intros i st; [reflexivity|].
    rewrite csv_entries_cons, map_app. cbn [walk_chunks_from]. rewrite IH. f_equal.
    cbn [rep_csv_log r_process fst snd]. rewrite csv_log_rows_spec, map_map. reflexivity.
  Qed.

  (** the (food, quantity) columns of the CSV entries are the logged entries *)
  Lemma csv_entries_entries : forall L : list lognode,
    map (fun e => (ce_food NM e, ce_qty NM e)) (csv_entries NM L) = entries NM L.
  Proof.
    intro L. unfold csv_entries, entries. induction L as [|ln r IH]; [reflexivity|].
    cbn [flat_map]. rewrite map_app, IH, map_map. f_equal.
    unfold ce_food, ce_qty. cbn [fst snd]. rewrite <- (map_id (ln_elems NM ln)) at 2.
    apply map_ext. intros [k v]. reflexivity.
  Qed.

  (** the rows whose food field is [f] are the renderings of the entries of [f] *)
  Lemma csv_rows_of_food : forall f (ces : list (time * bytes * T)),
    filter (fun row => beq (field 1 row) f) (map (csv_row_of NM) ces)
    = map (csv_row_of NM) (filter (fun e => beq (ce_food NM e) f) ces).
  Proof.
    intros f ces. induction ces as [|e r IH]; cbn [map filter]; [reflexivity|].
    change (field 1 (csv_row_of NM e)) with (ce_food NM e).
    destruct (beq (ce_food NM e) f); cbn [map]; rewrite IH; reflexivity.
  Qed.

  Lemma qtys_of_csv : forall f (L : list lognode),
    map (ce_qty NM) (filter (fun e => beq (ce_food NM e) f) (csv_entries NM L)) = qtys_of NM f (entries NM L).
  Proof.
    intros f L. rewrite <- csv_entries_entries. unfold qtys_of.
    induction (csv_entries NM L) as [|e r IH]; cbn [filter map fst]; [reflexivity|].
    destruct (beq (ce_food NM e) f); cbn [map snd]; rewrite IH; reflexivity.
  Qed.

  Lemma foods_of_csv : forall L : list lognode, map (ce_food NM) (csv_entries NM L) = map fst (entries NM L).
  Proof. intro L. rewrite <- csv_entries_entries, map_map. reflexivity. Qed.

  (** quantity_eq_csv, law-free: the CSV log is one row per (day, food) in file order; the quantity
      report's figure for [f] is the left fold from zero, in file order, of the [q] values of the CSV
      rows whose food field is [f]; foods appear in order of their first CSV row *)
  Theorem quantity_eq_csv : forall desc π π' (L : list lognode),
    let ces := csv_entries NM L in
    (forall ln, csv_log_rows NM ln
                = map (fun nv => [format_date iso_date (civ (ln_time NM ln)); fst nv; f3 NM (snd nv)]) (ln_elems NM ln))
    /\ walk_chunks NM (rep_csv_log NM) π' L = map (fun e => checked (csv_record (csv_row_of NM e))) ces
    /\ (forall f, filter (fun row => beq (field 1 row) f) (map (csv_row_of NM) ces)
                  = map (csv_row_of NM) (filter (fun e => beq (ce_food NM e) f) ces))
    /\ walk_state NM (rep_quantity NM desc) π L
       = map (fun f => (f, fold_left (add NM) (map (ce_qty NM) (filter (fun e => beq (ce_food NM e) f) ces)) (zero NM)))
             (first_occ (map (ce_food NM) ces)).
  Proof.
    intros desc π π' L ces. split; [reflexivity|]. split; [apply walk_csv_log_chunks|].
    split; [intro f; apply csv_rows_of_food|].
    rewrite quantity_spec_entries. subst ces. rewrite foods_of_csv. apply map_ext. intro f.
    rewrite qtys_of_csv. reflexivity.
  Qed.

  (** *** with the additive laws the left fold from zero is the plain sum, in any order *)
  Lemma sum_from_zero_right : AddMonoid NM -> forall qs, sum_from_zero NM qs = sum_right NM qs.
  Proof.
    intros AM qs. unfold sum_from_zero, sum_right. apply fold_symmetric.
    - apply (am_assoc NM AM).
    - intro y. apply (am_comm NM AM).
  Qed.

  Lemma fold_left_add_perm : AddMonoid NM -> forall qs qs' a,
    Permutation qs qs' -> fold_left (add NM) qs a = fold_left (add NM) qs' a.
  Proof.
    intros AM qs qs' a H. revert a. induction H as [|x l l' H IH|x y l|l l' l'' H1 IH1 H2 IH2]; intro a; cbn [fold_left].
    - reflexivity.
    - apply IH.
    - f_equal. rewrite <- !(am_assoc NM AM). f_equal. apply (am_comm NM AM).
    - rewrite IH1. apply IH2.
  Qed.

  (** AddMonoid form (uses [am_assoc] and [am_comm]): the figure is the sum [q1 + (q2 + ... + 0)] of the
      CSV values of [f], and does not depend on the order of the rows *)
  Theorem quantity_eq_csv_sum : AddMonoid NM -> forall desc π (L : list lognode),
    let ces := csv_entries NM L in
    walk_state NM (rep_quantity NM desc) π L
    = map (fun f => (f, sum_right NM (map (ce_qty NM) (filter (fun e => beq (ce_food NM e) f) ces))))
          (first_occ (map (ce_food NM) ces)).
  Proof.
    intros AM desc π L ces. destruct (quantity_eq_csv desc π π L) as [_ [_ [_ H]]]. rewrite H.
    apply map_ext. intro f. f_equal. apply (sum_from_zero_right AM).
  Qed.
End Qty.

(** *** non-vacuity: two days with a repeated food *)
Section QtyExample.
  Let d1 : time := time_of_civil (2021, 1, 1)%Z.
  Let d2 : time := time_of_civil (2021, 1, 2)%Z.
  Definition ex_L : list (lognode ZNum) :=
    [ {| ln_time := d1; ln_elems := merge_elements ZNum [(b "bread", 2%Z); (b "milk/whole", 3%Z); (b "bread", 5%Z)]; ln_meta := None |};
      {| ln_time := d2; ln_elems := merge_elements ZNum [(b "milk/whole", 4%Z); (b "bread", 1%Z); (b "egg", 6%Z)]; ln_meta := None |} ].

  Example ex_L_days_distinct : Forall (fun ln => NoDup (map fst (ln_elems ZNum ln))) ex_L.
  Proof. constructor; [apply merge_elements_NoDup|]. constructor; [apply merge_elements_NoDup|]. constructor. Qed.

  Example ex_quantity_state :
    walk_state ZNum (rep_quantity ZNum false) (fun _ l => l) ex_L
    = [(b "bread", 8%Z); (b "milk/whole", 7%Z); (b "egg", 6%Z)].
  Proof. vm_compute. reflexivity. Qed.

  Example ex_day_qtys : day_qtys ZNum (b "bread") ex_L = [7%Z; 1%Z] /\ day_qtys ZNum (b "egg") ex_L = [6%Z].
  Proof. vm_compute. split; reflexivity. Qed.

  Example ex_csv_rows :
    map (csv_row_of ZNum) (filter (fun e => beq (ce_food ZNum e) (b "bread")) (csv_entries ZNum ex_L))
    = [[b "2021-01-01"; b "bread"; b "7"]; [b "2021-01-02"; b "bread"; b "1"]].
  Proof. vm_compute. reflexivity. Qed.
End QtyExample.
