(** WP12: the balance tree of a concatenated history: at every path the total
    is the sum of the totals of the parts, and the paths are the union. *)
From Coq Require Import Lia.
From HP Require Import Base.Bytes Base.Utf8 Base.Num Model.Scanner Model.Parser Model.Elements Model.Dates
  Model.Tree Model.Writer Model.Reporters Model.Cli Spec.ComposeSpec
  Proofs.ComposeWriter Proofs.ComposeWalk Proofs.ComposeAssoc Proofs.ComposePeriod Proofs.ComposeAdd.

Section TreeObs.
  Context (NM : Num).
  Notation T := (T NM).
  Notation tree := (tree NM).

  (** [p] is a prefix of the segment list [names] *)
  Fixpoint lprefix (p names : list bytes) : bool :=
    match p, names with
    | [], _ => true
    | q :: p', n :: r => beq q n && lprefix p' r
    | _ :: _, [] => false
    end.

  (** the loop inside [add_deep], named *)
  Fixpoint upd_child (n : bytes) (v : T) (rest : list bytes) (l : list tree) : list tree :=
    match l with
    | [] => [Node n v (add_deep NM rest v [])]
    | Node n' t c :: r =>
        if beq n n' then Node n' (add NM t v) (add_deep NM rest v c) :: r
        else Node n' t c :: upd_child n v rest r
    end.

  Lemma add_deep_cons : forall n rest v ch, add_deep NM (n :: rest) v ch = upd_child n v rest ch.
  Proof.
    intros n rest v. induction ch as [|[n' t c] r IH]; [reflexivity|].
    cbn [upd_child]. rewrite <- IH. cbn. destruct (beq n n'); reflexivity.
  Qed.

  (** an observation of the node at a path, valued in a monoid *)
  Section Obs.
    Context {X : Type} (op : X -> X -> X) (e : X).
    Hypothesis op_assoc : forall a b c, op a (op b c) = op (op a b) c.
    Hypothesis op_e_l : forall a, op e a = a.
    Hypothesis op_e_r : forall a, op a e = a.
    Context (val : T -> X) (wv : T -> X).
    Hypothesis val_add : forall t v, val (add NM t v) = op (val t) (wv v).
    Hypothesis val_new : forall v, val v = op e (wv v).

    Definition obs (p : list bytes) (t : tree) : X :=
      match node_at NM p t with Some c => val (t_total NM c) | None => e end.

    Definition below (q : bytes) (p' : list bytes) (ch : list tree) : X :=
      match find_child NM q ch with Some c => obs p' c | None => e end.

    Lemma obs_cons : forall q p' t, obs (q :: p') t = below q p' (t_children NM t).
    Proof.
      intros q p' t. unfold obs, below. cbn [node_at].
      destruct (find_child NM q (t_children NM t)); reflexivity.
    Qed.

    Lemma below_add_deep : forall names v ch q p',
      below q p' (add_deep NM names v ch)
      = op (below q p' ch) (if lprefix (q :: p') names then wv v else e).
    Proof.
      induction names as [|n rest IH]; intros v ch q p'.
      - cbn. symmetry. apply op_e_r.
      - (* entering an existing node / a new node *)
        assert (Hnode : forall p1 n' t c,
                  obs p1 (Node n' (add NM t v) (add_deep NM rest v c))
                  = op (obs p1 (Node n' t c)) (if lprefix p1 rest then wv v else e)).
        { intros [|q1 p1] n' t c.
          - unfold obs. cbn. apply val_add.
          - rewrite !obs_cons. cbn [t_children]. apply IH. }
        assert (Hnew : forall p1, obs p1 (Node n v (add_deep NM rest v []))
                                  = op e (if lprefix p1 rest then wv v else e)).
        { intros [|q1 p1].
          - unfold obs. cbn. apply val_new.
          - rewrite obs_cons. cbn [t_children]. rewrite IH. unfold below. cbn [find_child]. reflexivity. }
        rewrite add_deep_cons. cbn [lprefix].
        induction ch as [|[n' t c] r IHch].
        + unfold below. cbn [upd_child find_child t_name].
          destruct (beq q n); cbn [andb].
          * apply Hnew.
          * symmetry. apply op_e_l.
        + cbn [upd_child].
          destruct (beq_spec n n') as [<-|Hne].
          * unfold below. cbn [find_child t_name].
            destruct (beq q n); cbn [andb].
            -- apply Hnode.
            -- symmetry. apply op_e_r.
          * unfold below in *. cbn [find_child t_name].
            destruct (beq_spec q n') as [->|Hq].
            -- assert (Hb : beq n' n = false) by (apply beq_false_iff; congruence).
               rewrite Hb. cbn [andb]. symmetry. apply op_e_r.
            -- exact IHch.
    Qed.

    Definition path_weight (p : list bytes) (nv : bytes * T) : X :=
      match p with
      | [] => e
      | _ => if lprefix p (split_on c_slash (fst nv)) then wv (snd nv) else e
      end.

    Lemma obs_tree_add : forall p t nv,
      obs p (tree_add NM t (fst nv) (snd nv)) = op (obs p t) (path_weight p nv).
    Proof.
      intros [|q p'] [n0 t0 ch] [name v]; cbn [fst snd path_weight tree_add].
      - unfold obs. cbn. symmetry. apply op_e_r.
      - rewrite !obs_cons. cbn [t_children]. apply below_add_deep.
    Qed.

    Lemma obs_fold : forall p cs t,
      obs p (tree_add_all NM t cs) = op (obs p t) (wsum op e (path_weight p) cs).
    Proof.
      intros p cs t. unfold tree_add_all.
      exact (fold_get op e op_assoc op_e_r (obs p) (fun t nv => tree_add NM t (fst nv) (snd nv))
                      (path_weight p) (obs_tree_add p) cs t).
    Qed.
  End Obs.
End TreeObs.

Section TreeAdd.
  Context (NM : Num).
  Notation T := (T NM).
  Notation tree := (tree NM).

  Definition has_pathb (p : list bytes) (t : tree) : bool :=
    match node_at NM p t with Some _ => true | None => false end.

  Lemma has_path_b : forall p t, has_path NM p t <-> has_pathb p t = true.
  Proof.
    intros p t. unfold has_path, has_pathb. destruct (node_at NM p t); split; congruence.
  Qed.

  Lemma orb_assoc' : forall a c d, a || (c || d) = (a || c) || d.
  Proof. intros [] [] []; reflexivity. Qed.

  (** paths (no law needed) *)
  Lemma has_pathb_fold : forall p cs t,
    has_pathb p (tree_add_all NM t cs)
    = has_pathb p t || wsum orb false (path_weight NM false (fun _ => true) p) cs.
  Proof.
    intros p cs t.
    exact (obs_fold NM orb false orb_assoc' orb_false_l orb_false_r (fun _ => true) (fun _ => true)
                    (fun _ _ => eq_refl) (fun _ => eq_refl) p cs t).
  Qed.

  Theorem tree_paths_union : forall cs t1 p,
    has_path NM p (tree_add_all NM t1 cs)
    <-> has_path NM p t1 \/ has_path NM p (tree_add_all NM (empty_root NM) cs).
  Proof.
    intros cs t1 p. rewrite !has_path_b, !has_pathb_fold.
    destruct p as [|q p'].
    - cbn. tauto.
    - replace (has_pathb (q :: p') (empty_root NM)) with false by reflexivity.
      rewrite orb_false_l, orb_true_iff. tauto.
  Qed.

  Context (AM : AddMonoid NM).

  Lemma total_at_fold : forall p cs t,
    total_at NM p (tree_add_all NM t cs)
    = add NM (total_at NM p t) (wsum (add NM) (zero NM) (path_weight NM (zero NM) (fun v => v) p) cs).
  Proof.
    intros p cs t.
    exact (obs_fold NM (add NM) (zero NM) (am_assoc NM AM) (am_0_l NM AM) (add_0_r NM AM) (fun x => x) (fun v => v)
                    (fun _ _ => eq_refl) (fun v => eq_sym (am_0_l NM AM v)) p cs t).
  Qed.

  Lemma total_at_empty : forall p, total_at NM p (empty_root NM) = zero NM.
  Proof. intros [|q p']; reflexivity. Qed.

  Theorem tree_totals_add : forall cs t1 p,
    total_at NM p (tree_add_all NM t1 cs)
    = add NM (total_at NM p t1) (total_at NM p (tree_add_all NM (empty_root NM) cs)).
  Proof.
    intros cs t1 p. rewrite (total_at_fold p cs t1), (total_at_fold p cs (empty_root NM)).
    rewrite total_at_empty, (am_0_l NM AM). reflexivity.
  Qed.

  (** *** the balance reporters *)
  Theorem period_reports_add_balance :
    forall (pd pd1 pd2 : nat -> list bytes -> list bytes) (pf pf1 pf2 : list bytes -> list bytes)
           toks bt et c evs1 evs2,
      snd (report NM (rep_balance NM c) pd pf toks bt et evs1) = None ->
      let t1 : tree := report_state NM (rep_balance NM c) pd1 pf1 toks bt et evs1 in
      let t2 : tree := report_state NM (rep_balance NM c) pd2 pf2 toks bt et evs2 in
      let t12 : tree := report_state NM (rep_balance NM c) pd pf toks bt et (evs1 ++ evs2) in
      (forall p, total_at NM p t12 = add NM (total_at NM p t1) (total_at NM p t2))
      /\ (forall p, has_path NM p t12 <-> has_path NM p t1 \/ has_path NM p t2).
  Proof.
    intros pd pd1 pd2 pf pf1 pf2 toks bt et c evs1 evs2 Hok t1 t2 t12.
    destruct (period_state_fold NM _ (PR_balance NM c) pd pf pd1 pf1 toks bt et evs1 evs2 Hok) as [H12 _].
    destruct (period_report NM _ (PR_balance NM c) pd2 pf2 toks bt et evs2) as [H2 _].
    unfold t12, t2, t1. rewrite H12, H2.
    set (l2 := fst (walked_nodes NM toks bt et evs2)).
    set (s1 := report_state NM (rep_balance NM c) pd1 pf1 toks bt et evs1).
    change (pstep NM (rep_balance NM c))
      with (fun (t : tree) (ln : lognode NM) =>
              fold_left (fun t nv => tree_add NM t (fst nv) (snd nv)) (ln_elems NM ln) t).
    change (r_init NM (rep_balance NM c)) with (empty_root NM).
    rewrite !fold_left_flat_map. split; intros p.
    - apply tree_totals_add.
    - apply tree_paths_union.
  Qed.

  Theorem period_reports_add_balance_single_tree :
    forall (pd pd1 pd2 : nat -> list bytes -> list bytes) (pf pf1 pf2 : list bytes -> list bytes)
           toks bt et c d evs1 evs2,
      snd (report NM (rep_balance_single NM c d) pd pf toks bt et evs1) = None ->
      let t1 : tree := fst (report_state NM (rep_balance_single NM c d) pd1 pf1 toks bt et evs1 : tree * T) in
      let t2 : tree := fst (report_state NM (rep_balance_single NM c d) pd2 pf2 toks bt et evs2 : tree * T) in
      let t12 : tree := fst (report_state NM (rep_balance_single NM c d) pd pf toks bt et (evs1 ++ evs2) : tree * T) in
      (forall p, total_at NM p t12 = add NM (total_at NM p t1) (total_at NM p t2))
      /\ (forall p, has_path NM p t12 <-> has_path NM p t1 \/ has_path NM p t2).
  Proof.
    intros pd pd1 pd2 pf pf1 pf2 toks bt et c d evs1 evs2 Hok t1 t2 t12.
    destruct (period_state_fold NM _ (PR_balance_single NM c d) pd pf pd1 pf1 toks bt et evs1 evs2 Hok) as [H12 _].
    destruct (period_report NM _ (PR_balance_single NM c d) pd2 pf2 toks bt et evs2) as [H2 _].
    unfold t12, t2, t1. rewrite H12, H2.
    set (l2 := fst (walked_nodes NM toks bt et evs2)).
    destruct (report_state NM (rep_balance_single NM c d) pd1 pf1 toks bt et evs1) as [s1 x1].
    set (cs := fun ln => bal_single_contributions NM d (rc_single_element c) ln).
    change (pstep NM (rep_balance_single NM c d))
      with (fun (st : tree * T) (ln : lognode NM) =>
              (fold_left (fun t nv => tree_add NM t (fst nv) (snd nv)) (cs ln) (fst st),
               fold_left (grand_step NM) (cs ln) (snd st))).
    change (r_init NM (rep_balance_single NM c d)) with (empty_root NM, zero NM).
    rewrite !(fold_pair_fst (fun t ln => fold_left (fun t nv => tree_add NM t (fst nv) (snd nv)) (cs ln) t)
                            (fun x ln => fold_left (grand_step NM) (cs ln) x)).
    rewrite !fold_left_flat_map. cbn [fst]. split; intros p.
    - apply tree_totals_add.
    - apply tree_paths_union.
  Qed.
End TreeAdd.
