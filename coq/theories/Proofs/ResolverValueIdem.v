(** WP02 (C01) – resolving an already resolved book changes nothing.
    Only law used: [x * 1 = x], and only for amounts [x] that are themselves the
    result of a multiplication or an addition ([Hmul1c]); the brief's [Hmul1]
    (for all [x]) is a special case.  [0 + x = x] is NOT needed: a name that is
    not yet in the list being built is appended, not added to a zero. *)
From Coq Require Import Lia ZifyBool ZifyNat ZifyN Permutation Sorted.
From HP Require Import Base.Bytes Base.Num Model.Elements Model.Resolver Spec.ResolverSpec.
From HP Require Import Proofs.ResolverValueBytes Proofs.ResolverValueStruct.

Section Idem.
  Context (NM : Num).
  Notation T := (T NM).
  Notation elements := (elements NM).
  Notation db := (db NM).

  (** ** books whose values are rewritten key by key *)
  Lemma lookup_map_values : forall (g : bytes -> elements -> elements) r (D : db),
    lookup r (map (fun kv => (fst kv, g (fst kv) (snd kv))) D) = option_map (g r) (lookup r D).
  Proof.
    intros g r D. induction D as [|[k els] D IH]; cbn [map lookup fst snd option_map]; [reflexivity|].
    destruct (beq_spec r k) as [E|E]; [subst; reflexivity|exact IH].
  Qed.

  Lemma keys_map_values : forall (g : bytes -> elements -> elements) (D : db),
    keys (map (fun kv => (fst kv, g (fst kv) (snd kv))) D) = keys D.
  Proof.
    intros g D. unfold keys. rewrite map_map. apply map_ext. intros [k els]. reflexivity.
  Qed.

  Lemma keys_ref_db : forall (B : db) N, keys (ref_db NM B N) = keys B.
  Proof. intros B N. apply keys_map_values. Qed.

  Lemma lookup_ref_db : forall (B : db) N r,
    lookup r (ref_db NM B N) = option_map (ref_value NM B N r) (lookup r B).
  Proof. intros B N r. apply (lookup_map_values (ref_value NM B N)). Qed.

  (** with fuel 1 only the empty recipe resolves *)
  Lemma ref_node_one_empty : forall (B : db) r h v, ref_node NM B 1%nat r = Some (h, Some v) -> v = [].
  Proof.
    intros B r h v H. apply ref_node_Some_inv in H.
    destruct H as [f' [els [nel [Hf [_ [Hloop Hv]]]]]]. injection Hf as Hf. subst f'.
    destruct els as [|[e a] els]; cbn [ref_loop ref_node] in Hloop; [|discriminate].
    injection Hloop as H1 H2. subst. reflexivity.
  Qed.

  (** ** amounts that come out of the arithmetic *)
  Definition computed (x : T) : Prop := exists y z, x = mul NM y z \/ x = add NM y z.

  Lemma add_to_amounts : forall (Q : T -> Prop) n v (el : elements),
    (forall p, In p el -> Q (snd p)) -> Q v -> (forall x, Q (add NM x v)) ->
    forall p, In p (add_to NM n v el) -> Q (snd p).
  Proof.
    intros Q n v el Hel Hv Hadd. induction el as [|[k x] el IH]; cbn [add_to]; intros p Hin.
    - destruct Hin as [Hin|[]]. subst p. exact Hv.
    - destruct (beq k n).
      + destruct Hin as [Hin|Hin]; [subst p; apply Hadd|]. apply Hel. right. exact Hin.
      + destruct Hin as [Hin|Hin]; [subst p; apply (Hel (k, x)); left; reflexivity|].
        apply IH; [|exact Hin]. intros q Hq. apply Hel. right. exact Hq.
  Qed.

  Lemma merge_into_amounts : forall (Q : T -> Prop),
    (forall x y, Q (add NM x y)) ->
    forall l acc, (forall p, In p acc -> Q (snd p)) -> (forall p, In p l -> Q (snd p)) ->
    forall p, In p (merge_into NM acc l) -> Q (snd p).
  Proof.
    intros Q Hadd. induction l as [|[n v] l IH]; intros acc Hacc Hl p Hin.
    - apply Hacc. exact Hin.
    - rewrite merge_into_cons in Hin. cbn [fst snd] in Hin. eapply IH; [| |exact Hin].
      + apply add_to_amounts; [exact Hacc|apply (Hl (n, v)); left; reflexivity|intro x; apply Hadd].
      + intros q Hq. apply Hl. right. exact Hq.
  Qed.

  (** every amount of a value is a product or a sum *)
  Lemma ref_value_amounts_computed : forall (B : db) f r h v x a,
    ref_node NM B f r = Some (h, Some v) -> In (x, a) v -> computed a.
  Proof.
    intros B f r h v x a H Hin. apply ref_node_value_char in H.
    destruct H as [f' [els [cs [_ [_ [HF Hv]]]]]]. subst v.
    apply (Permutation_in _ (sort_elements_perm NM _)) in Hin.
    apply (merge_into_amounts computed) with (p := (x, a)) in Hin; [exact Hin| | |].
    - intros y z. exists y, z. right. reflexivity.
    - intros p [].
    - intros p Hp. apply in_concat in Hp. destruct Hp as [c [Hc Hp]].
      destruct (Forall2_In_r _ _ _ _ HF Hc) as [[e w] [_ [he [res [_ [_ Hcon]]]]]].
      cbn [fst snd] in Hcon. subst c. destruct res as [found|]; cbn [contrib] in Hp.
      + apply in_map_iff in Hp. destruct Hp as [[k y] [Hp _]]. subst p. cbn [scale fst snd].
        exists y, w. left. reflexivity.
      + destruct Hp as [Hp|[]]. subst p. cbn [snd]. exists w, (one NM). left. reflexivity.
  Qed.

  (** ** resolving a recipe whose ingredients are all undefined, distinct and sorted *)
  Lemma resolved_loop : forall (D : db) f0 l acc ht,
    (forall x a, In (x, a) l -> mul NM a (one NM) = a) ->
    (forall x, In x (map fst l) -> lookup x D = None) ->
    NoDup (map fst l) ->
    (forall x, In x (map fst l) -> ~ In x (map fst acc)) ->
    exists h', ref_loop NM (ref_node NM D (S f0)) l acc ht = Some (h', acc ++ l).
  Proof.
    intros D f0. induction l as [|[x a] l IH]; intros acc ht Hm1 Hund Hnd Hdisj; cbn [ref_loop].
    - exists ht. rewrite app_nil_r. reflexivity.
    - cbn [map fst] in Hund, Hnd, Hdisj. inversion Hnd as [|k ks Hout Hnd']; subst.
      rewrite ref_node_S, (Hund x (or_introl eq_refl)).
      rewrite sum_merge_cons, sum_merge_nil, (Hm1 x a (or_introl eq_refl)).
      rewrite add_to_fresh by (apply Hdisj; left; reflexivity).
      destruct (IH (acc ++ [(x, a)]) (Nat.max ht 1)) as [h' Hh'].
      + intros y c Hy. apply (Hm1 y c). right. exact Hy.
      + intros y Hy. apply Hund. right. exact Hy.
      + exact Hnd'.
      + intros y Hy. rewrite map_app, in_app_iff. cbn [map fst In]. intros [H|[H|[]]].
        * apply (Hdisj y); [right; exact Hy|exact H].
        * subst. contradiction.
      + exists h'. rewrite Hh', <- app_assoc. reflexivity.
  Qed.

  Lemma resolved_node : forall (D : db) g r v,
    lookup r D = Some v ->
    (forall x a, In (x, a) v -> mul NM a (one NM) = a) ->
    StronglySorted (lt_name NM) v ->
    (forall x, In x (map fst v) -> lookup x D = None) ->
    (1 <= g)%nat -> (v = [] \/ 2 <= g)%nat ->
    exists h', ref_node NM D g r = Some (h', Some v).
  Proof.
    intros D g r v Hl Hm1 Hs Hund Hg1 Hg2.
    destruct g as [|g]; [lia|]. rewrite ref_node_S, Hl.
    destruct Hg2 as [Hv|Hg2].
    - subst v. exists O. reflexivity.
    - destruct g as [|f0]; [lia|].
      destruct (resolved_loop D f0 v [] O Hm1 Hund (sorted_names_NoDup NM v Hs)) as [h' Hh'].
      + intros x _ [].
      + exists h'. rewrite Hh'. cbn [app]. rewrite sort_elements_sorted_id by exact Hs. reflexivity.
  Qed.

  (** ** the resolved book *)
  Variable B : db.
  Variable N : nat.
  Hypothesis Hdepth : depth_lt NM B N.
  Hypothesis Hmul1c : forall x : T, computed x -> mul NM x (one NM) = x.

  Lemma ref_db_entry : forall r v, In (r, v) (ref_db NM B N) ->
    exists h, ref_node NM B N r = Some (h, Some v).
  Proof.
    intros r v Hin. unfold ref_db in Hin. apply in_map_iff in Hin.
    destruct Hin as [[k els] [Heq Hin]]. cbn [fst snd] in Heq. injection Heq as H1 H2. subst k.
    assert (Hk : In r (keys B)) by (apply (in_map fst) in Hin; exact Hin).
    destruct (ref_node_recipe_defined NM B N r Hdepth Hk) as [h [v' Hv']].
    exists h. unfold ref_value in H2. rewrite Hv' in H2. subst v'. exact Hv'.
  Qed.

  Lemma ref_db_lookup_entry : forall r v, In (r, v) (ref_db NM B N) -> lookup r (ref_db NM B N) = Some v.
  Proof.
    intros r v Hin. destruct (ref_db_entry r v Hin) as [h Hh].
    rewrite lookup_ref_db. destruct (ref_node_defined_is_recipe NM B _ _ _ _ Hh) as [els El].
    rewrite El. cbn [option_map]. unfold ref_value. rewrite Hh. reflexivity.
  Qed.

  Lemma ref_db_undefined : forall x, lookup x B = None -> lookup x (ref_db NM B N) = None.
  Proof. intros x H. rewrite lookup_ref_db, H. reflexivity. Qed.

  (** every recipe of the resolved book has only undefined ingredients *)
  Lemma ref_db_leaves_undefined : forall r v x a,
    In (r, v) (ref_db NM B N) -> In (x, a) v -> lookup x (ref_db NM B N) = None.
  Proof.
    intros r v x a Hin Hx. destruct (ref_db_entry r v Hin) as [h Hh].
    apply ref_db_undefined. eapply ref_value_leaves_undefined_lemma; eassumption.
  Qed.

  Lemma ref_db_entry_resolves_again : forall r v, In (r, v) (ref_db NM B N) ->
    exists h', ref_node NM (ref_db NM B N) N r = Some (h', Some v).
  Proof.
    intros r v Hin. destruct (ref_db_entry r v Hin) as [h Hh].
    apply resolved_node.
    - apply ref_db_lookup_entry. exact Hin.
    - intros x a Hx. apply Hmul1c. eapply ref_value_amounts_computed; eassumption.
    - eapply ref_value_sorted_lemma. exact Hh.
    - intros x Hx. apply ref_db_undefined. eapply ref_value_leaves_undefined_names; eassumption.
    - apply ref_node_height_lt in Hh. lia.
    - destruct N as [|[|n]]; [discriminate|left|right; lia].
      eapply ref_node_one_empty. exact Hh.
  Qed.

  Lemma ref_db_idempotent_eq : ref_db NM (ref_db NM B N) N = ref_db NM B N.
  Proof.
    transitivity (map (fun kv : bytes * elements => kv) (ref_db NM B N)); [|apply map_id].
    unfold ref_db at 1. apply map_ext_in. intros [r v] Hin. cbn [fst snd].
    destruct (ref_db_entry_resolves_again r v Hin) as [h' Hh'].
    unfold ref_value. rewrite Hh'. reflexivity.
  Qed.

  (** the resolved book is again nested less deeply than the limit *)
  Lemma ref_db_depth_lt : depth_lt NM (ref_db NM B N) N.
  Proof.
    intros r Hin Hr. apply in_map_iff in Hin. destruct Hin as [[r' v] [Hr' Hin]]. cbn [fst] in Hr'. subst r'.
    destruct (ref_db_entry_resolves_again r v Hin) as [h' Hh'].
    apply reach_ref_node_None in Hr. congruence.
  Qed.

  (** the same, structurally: no law needed *)
  Lemma ref_db_depth_lt_nolaw : depth_lt NM (ref_db NM B N) N.
  Proof.
    intros r Hin Hr. apply in_map_iff in Hin. destruct Hin as [[r' v] [Hr' Hin]]. cbn [fst] in Hr'. subst r'.
    destruct (ref_db_entry r v Hin) as [h Hh]. pose proof (ref_db_lookup_entry r v Hin) as Hl.
    assert (HN : (N = 0 \/ N = 1 \/ 2 <= N)%nat) by lia. destruct HN as [HN|[HN|HN]].
    - rewrite HN in Hh. discriminate.
    - rewrite HN in Hh. apply ref_node_one_empty in Hh. subst v.
      apply (reach_le NM _ 1%nat) in Hr; [|lia].
      apply reach_S in Hr. destruct Hr as [els [El [e [a [He _]]]]]. rewrite Hl in El.
      injection El as El. subst els. destruct He.
    - apply (reach_le NM _ 2%nat) in Hr; [|exact HN].
      apply reach_S in Hr. destruct Hr as [els [El [e [a [He Hre]]]]]. rewrite Hl in El.
      injection El as El. subst els. apply reach_S in Hre. destruct Hre as [els' [El' _]].
      rewrite (ref_db_leaves_undefined r v e a Hin He) in El'. discriminate.
  Qed.

  Lemma ref_db_idempotent_computed_lemma :
    keys (ref_db NM B N) = keys B /\
    (forall r v x a, In (r, v) (ref_db NM B N) -> In (x, a) v -> lookup x (ref_db NM B N) = None) /\
    ref_db NM (ref_db NM B N) N = ref_db NM B N.
  Proof.
    split; [apply keys_ref_db|]. split; [exact ref_db_leaves_undefined|exact ref_db_idempotent_eq].
  Qed.
End Idem.

(** the statement of the brief: [x * 1 = x] for all [x] *)
Lemma ref_db_idempotent_lemma : forall (NM : Num),
  (forall x : T NM, mul NM x (one NM) = x) ->
  forall (B : db NM) (N : nat),
    depth_lt NM B N ->
    keys (ref_db NM B N) = keys B /\
    (forall r v x a, In (r, v) (ref_db NM B N) -> In (x, a) v -> lookup x (ref_db NM B N) = None) /\
    ref_db NM (ref_db NM B N) N = ref_db NM B N.
Proof.
  intros NM Hmul1 B N Hd. apply ref_db_idempotent_computed_lemma; [exact Hd|].
  intros x _. apply Hmul1.
Qed.
