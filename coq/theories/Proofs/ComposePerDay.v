(** WP12: per-day reporters.  Their reports of a concatenated history are the
    concatenation of the reports of the parts. *)
From Coq Require Import Lia.
From HP Require Import Base.Bytes Base.Utf8 Base.Num Model.Scanner Model.Parser Model.Elements Model.Dates
  Model.Tree Model.Writer Model.Reporters Model.Cli Spec.ComposeSpec
  Proofs.ComposeWriter Proofs.ComposeWalk Proofs.ComposeAssoc.

Section PerDay.
  Context (NM : Num).
  Notation T := (T NM).

  (** *** the named reporters are stateless *)
  Theorem perday_stateless : forall R, perday_reporter NM R -> stateless NM R.
  Proof.
    intros R HR. destruct HR as [c d|c d|c d| |c|c Hplain|c d]; (split; [intros pi st st' ln | intros pi st; reflexivity]).
    - split; reflexivity.
    - split; reflexivity.
    - split; reflexivity.
    - split; reflexivity.
    - split; reflexivity.
    - split; reflexivity.
    - cbn. destruct (single_row NM d (rc_single_element c) ln) as [[[p n]|]|]; split; reflexivity.
  Qed.

  (** days_independent: what [Process] writes and returns for a day does not
      depend on the state the earlier days left behind *)
  Theorem days_independent : forall R, perday_reporter NM R ->
    forall pi st st' ln,
      snd (fst (r_process NM R pi st ln)) = snd (fst (r_process NM R pi st' ln))
      /\ snd (r_process NM R pi st ln) = snd (r_process NM R pi st' ln).
  Proof. intros R HR. exact (proj1 (perday_stateless R HR)). Qed.

  (** *** the single-element register never takes the panicking branch *)
  Lemma acc_add_lookup_same : forall name v (acc : accumulator NM),
    lookup name (acc_add NM name v acc) <> None.
  Proof.
    intros name v acc. unfold acc_add.
    destruct (lookup name acc) as [[p n]|] eqn:E.
    - rewrite lookup_set_same. discriminate.
    - rewrite lookup_app, E. cbn. rewrite beq_refl. discriminate.
  Qed.

  Lemma acc_add_not_nil : forall name v (acc : accumulator NM), acc_add NM name v acc <> [].
  Proof.
    intros name v acc H. pose proof (acc_add_lookup_same name v acc) as L. rewrite H in L. apply L. reflexivity.
  Qed.

  Lemma fold_acc_add_key : forall x (cs : elements NM) (acc : accumulator NM),
    Forall (fun nv => fst nv = x) cs ->
    (acc = [] \/ lookup x acc <> None) ->
    let acc' := fold_left (fun a nv => acc_add NM (fst nv) (snd nv) a) cs acc in
    acc' = [] \/ lookup x acc' <> None.
  Proof.
    intros x cs. induction cs as [|[k v] r IH]; intros acc Hall Hacc; cbn [fold_left fst snd].
    - exact Hacc.
    - pose proof (Forall_inv Hall) as Hk. pose proof (Forall_inv_tail Hall) as Hr. cbn in Hk. subst k.
      apply IH; [exact Hr|]. right. apply acc_add_lookup_same.
  Qed.

  Lemma single_contributions_key : forall d x ln,
    Forall (fun nv => fst nv = x) (single_contributions NM d x ln).
  Proof.
    intros d x ln. unfold single_contributions.
    apply Forall_forall. intros [k v] Hin.
    apply in_flat_map in Hin. destruct Hin as ([name w] & _ & Hin).
    destruct (lookup name d) as [els|].
    - apply in_flat_map in Hin. destruct Hin as ([rk rv] & _ & Hin). cbn [fst snd] in Hin.
      destruct (beq rk x) eqn:E; [|contradiction].
      destruct Hin as [Heq|[]]. injection Heq as <- _. cbn. apply beq_true_iff. exact E.
    - destruct (beq name x) eqn:E; [|contradiction].
      destruct Hin as [Heq|[]]. injection Heq as <- _. cbn. apply beq_true_iff. exact E.
  Qed.

  Theorem single_row_no_panic : forall d x ln, single_row NM d x ln <> Some None.
  Proof.
    intros d x ln. unfold single_row, accumulate.
    pose proof (fold_acc_add_key x (single_contributions NM d x ln) []
                  (single_contributions_key d x ln) (or_introl eq_refl)) as H.
    cbv zeta in H.
    set (A := fold_left (fun a nv => acc_add NM (fst nv) (snd nv) a) (single_contributions NM d x ln) []) in *.
    destruct A as [|a acc] eqn:EA; [discriminate|].
    destruct H as [H|H]; [discriminate|]. intros E. injection E as E. contradiction.
  Qed.

  (** so its state stays [None] *)
  Lemma rep_single_state : forall c d pi st ln,
    fst (fst (r_process NM (rep_single NM c d) pi st ln)) = st.
  Proof.
    intros c d pi st ln. cbn.
    pose proof (single_row_no_panic d (rc_single_element c) ln) as H.
    destruct (single_row NM d (rc_single_element c) ln) as [[[p n]|]|]; try reflexivity. contradiction.
  Qed.

  (** *** generic facts about stateless reporters *)
  Section Generic.
    Context (R : reporter NM) (HS : stateless NM R).
    Context (toks : list ltoken) (bt et : option time).

    Lemma pstep_ev_stateless : forall pd rs rs' i ev,
      let '(_, i1, o1, e1) := pstep_ev NM R toks bt et pd rs i ev in
      let '(_, i2, o2, e2) := pstep_ev NM R toks bt et pd rs' i ev in
      i1 = i2 /\ o1 = o2 /\ e1 = e2.
    Proof.
      intros pd rs rs' i ev. unfold pstep_ev.
      destruct (classify_event NM toks bt et ev) as [e| |ln]; try (repeat split; reflexivity).
      destruct (proj1 HS (pd i) rs rs' ln) as [Hc He].
      destruct (r_process NM R (pd i) rs ln) as [[r1 c1] e1].
      destruct (r_process NM R (pd i) rs' ln) as [[r2 c2] e2].
      cbn [fst snd] in Hc, He. subst. repeat split; reflexivity.
    Qed.

    Lemma pwalk_stateless : forall pd evs rs rs' i,
      let '(_, i1, o1, e1) := pwalk NM R toks bt et pd evs rs i in
      let '(_, i2, o2, e2) := pwalk NM R toks bt et pd evs rs' i in
      i1 = i2 /\ o1 = o2 /\ e1 = e2.
    Proof.
      intros pd. induction evs as [|ev r IH]; intros rs rs' i.
      - cbn. repeat split; reflexivity.
      - cbn [pwalk].
        pose proof (pstep_ev_stateless pd rs rs' i ev) as H.
        destruct (pstep_ev NM R toks bt et pd rs i ev) as [[[r1 i1] o1] e1].
        destruct (pstep_ev NM R toks bt et pd rs' i ev) as [[[r2 i2] o2] e2].
        destruct H as (-> & -> & ->).
        destruct e2 as [e2|]; [repeat split; reflexivity|].
        specialize (IH r1 r2 i2).
        destruct (pwalk NM R toks bt et pd r r1 i2) as [[[r3 i3] o3] e3].
        destruct (pwalk NM R toks bt et pd r r2 i2) as [[[r4 i4] o4] e4].
        destruct IH as (-> & -> & ->). repeat split; reflexivity.
    Qed.

    Lemma report_stateless : forall pd pf evs,
      report NM R pd pf toks bt et evs =
      (let '(_, _, o, e) := pwalk NM R toks bt et pd evs (r_init NM R) O in (o, e)).
    Proof.
      intros pd pf evs. rewrite report_pwalk.
      destruct (pwalk NM R toks bt et pd evs (r_init NM R) O) as [[[rs i] o] e].
      rewrite (proj2 HS). cbn. rewrite app_nil_r. reflexivity.
    Qed.

    (** perday_reports_concat *)
    Theorem perday_reports_concat_gen : forall pd pf evs1 evs2,
      snd (report NM R pd pf toks bt et evs1) = None ->
      let k := selected_days NM toks bt et evs1 in
      fst (report NM R pd pf toks bt et (evs1 ++ evs2))
        = fst (report NM R pd pf toks bt et evs1)
          ++ fst (report NM R (fun i => pd (k + i)) pf toks bt et evs2)
      /\ snd (report NM R pd pf toks bt et (evs1 ++ evs2))
        = snd (report NM R (fun i => pd (k + i)) pf toks bt et evs2).
    Proof.
      intros pd pf evs1 evs2 Hok k.
      rewrite !report_stateless in *. rewrite pwalk_app.
      pose proof (pwalk_index NM R toks bt et pd evs1 (r_init NM R) O) as Hidx.
      destruct (pwalk NM R toks bt et pd evs1 (r_init NM R) O) as [[[rs1 i1] o1] e1].
      cbn [fst snd] in Hok, Hidx. subst e1. specialize (Hidx eq_refl). cbn in Hidx. fold k in Hidx. subst i1.
      replace k with (k + O) at 1 2 by lia. rewrite pwalk_shift.
      pose proof (pwalk_stateless (fun j => pd (k + j)) evs2 rs1 (r_init NM R) O) as Hst.
      destruct (pwalk NM R toks bt et (fun j => pd (k + j)) evs2 rs1 O) as [[[rs2 i2] o2] e2].
      destruct (pwalk NM R toks bt et (fun j => pd (k + j)) evs2 (r_init NM R) O) as [[[rs3 i3] o3] e3].
      destruct Hst as (_ & -> & ->). split; reflexivity.
    Qed.

    (** when the first part fails, the rest of the history is never looked at
        (this holds for every reporter, see [report_stops_at_error]) *)

    (** earlier_days_unchanged *)
    Theorem earlier_days_unchanged_gen : forall pd pf evs1 evs2,
      bprefix (fst (report NM R pd pf toks bt et evs1)) (fst (report NM R pd pf toks bt et (evs1 ++ evs2))).
    Proof.
      intros pd pf evs1 evs2.
      destruct (snd (report NM R pd pf toks bt et evs1)) as [e|] eqn:He.
      - rewrite !report_stateless in *. rewrite pwalk_app.
        destruct (pwalk NM R toks bt et pd evs1 (r_init NM R) O) as [[[rs1 i1] o1] e1].
        cbn [fst snd] in He. subst e1. exists []. cbn. rewrite app_nil_r. reflexivity.
      - destruct (perday_reports_concat_gen pd pf evs1 evs2 He) as [Ho _].
        eexists. exact Ho.
    Qed.

    (** the report of a history that walks without error is the concatenation
        of what is printed for each selected day, and that depends on the day
        (and its oracle) alone *)
    Lemma pwalk_days : forall pd evs rs i,
      snd (pwalk NM R toks bt et pd evs rs i) = None ->
      snd (fst (pwalk NM R toks bt et pd evs rs i)) = days_bytes NM R pd i (fst (walked_nodes NM toks bt et evs))
      /\ snd (walked_nodes NM toks bt et evs) = None.
    Proof.
      intros pd. induction evs as [|ev r IH]; intros rs i Hok.
      - cbn. split; reflexivity.
      - cbn [pwalk walked_nodes] in *. unfold pstep_ev in *.
        destruct (classify_event NM toks bt et ev) as [e| |ln].
        + discriminate Hok.
        + specialize (IH rs i).
          destruct (pwalk NM R toks bt et pd r rs i) as [[[rs2 i2] o2] e2]. cbn [fst snd] in *.
          destruct (IH Hok) as [-> He]. split; [reflexivity | exact He].
        + destruct (proj1 HS (pd i) rs (r_init NM R) ln) as [Hc _].
          destruct (r_process NM R (pd i) rs ln) as [[rs' chunks] perr]. cbn [fst snd] in Hc.
          destruct perr as [pe|]; [discriminate Hok|].
          specialize (IH rs' (S i)).
          destruct (pwalk NM R toks bt et pd r rs' (S i)) as [[[rs2 i2] o2] e2]. cbn [fst snd] in *.
          destruct (IH Hok) as [-> He].
          destruct (walked_nodes NM toks bt et r) as [l e]. cbn [fst snd days_bytes] in *.
          unfold day_bytes. rewrite <- Hc.
          split; [reflexivity | exact He].
    Qed.

    Theorem perday_report_days_gen : forall pd pf evs,
      snd (report NM R pd pf toks bt et evs) = None ->
      fst (report NM R pd pf toks bt et evs) = days_bytes NM R pd O (fst (walked_nodes NM toks bt et evs))
      /\ snd (walked_nodes NM toks bt et evs) = None.
    Proof.
      intros pd pf evs Hok. rewrite report_stateless in *.
      pose proof (pwalk_days pd evs (r_init NM R) O) as H.
      destruct (pwalk NM R toks bt et pd evs (r_init NM R) O) as [[[rs1 i1] o1] e1]. cbn [fst snd] in *.
      exact (H Hok).
    Qed.
  End Generic.

  (** every reporter: once the first part has failed, the rest is not looked at *)
  Theorem report_stops_at_error : forall R pd pf toks bt et evs1 evs2,
    snd (report NM R pd pf toks bt et evs1) <> None ->
    report NM R pd pf toks bt et (evs1 ++ evs2) = report NM R pd pf toks bt et evs1.
  Proof.
    intros R pd pf toks bt et evs1 evs2 Herr. rewrite !report_pwalk in *. rewrite pwalk_app.
    destruct (pwalk NM R toks bt et pd evs1 (r_init NM R) O) as [[[rs1 i1] o1] e1]. cbn [snd] in Herr.
    destruct e1 as [e1|]; [reflexivity | contradiction].
  Qed.

  (** *** the statements for the named reporters *)
  Theorem perday_reports_concat : forall R, perday_reporter NM R ->
    forall pd pf toks bt et evs1 evs2,
      snd (report NM R pd pf toks bt et evs1) = None ->
      let k := selected_days NM toks bt et evs1 in
      fst (report NM R pd pf toks bt et (evs1 ++ evs2))
        = fst (report NM R pd pf toks bt et evs1)
          ++ fst (report NM R (fun i => pd (k + i)) pf toks bt et evs2)
      /\ snd (report NM R pd pf toks bt et (evs1 ++ evs2))
        = snd (report NM R (fun i => pd (k + i)) pf toks bt et evs2).
  Proof. intros R HR pd pf toks bt et. apply perday_reports_concat_gen. apply perday_stateless. exact HR. Qed.

  Theorem earlier_days_unchanged : forall R, perday_reporter NM R ->
    forall pd pf toks bt et evs1 evs2,
      bprefix (fst (report NM R pd pf toks bt et evs1)) (fst (report NM R pd pf toks bt et (evs1 ++ evs2))).
  Proof. intros R HR pd pf toks bt et. apply earlier_days_unchanged_gen. apply perday_stateless. exact HR. Qed.

  Theorem perday_report_days : forall R, perday_reporter NM R ->
    forall pd pf toks bt et evs,
      snd (report NM R pd pf toks bt et evs) = None ->
      fst (report NM R pd pf toks bt et evs) = days_bytes NM R pd O (fst (walked_nodes NM toks bt et evs))
      /\ snd (walked_nodes NM toks bt et evs) = None.
  Proof. intros R HR pd pf toks bt et. apply perday_report_days_gen. apply perday_stateless. exact HR. Qed.

  (** no per-day reporter ever ends in a panic *)
  Lemma pwalk_state_inv : forall R toks bt et (P : RS NM R -> Prop),
    (forall pi st ln, P st -> P (fst (fst (r_process NM R pi st ln)))) ->
    forall pd evs rs i, P rs -> P (fst (fst (fst (pwalk NM R toks bt et pd evs rs i)))).
  Proof.
    intros R toks bt et P Hstep pd. induction evs as [|ev r IH]; intros rs i HP.
    - exact HP.
    - cbn [pwalk]. unfold pstep_ev.
      destruct (classify_event NM toks bt et ev) as [e| |ln].
      + exact HP.
      + specialize (IH rs i HP).
        destruct (pwalk NM R toks bt et pd r rs i) as [[[rs2 i2] o2] e2]. exact IH.
      + specialize (Hstep (pd i) rs ln HP).
        destruct (r_process NM R (pd i) rs ln) as [[rs' chunks] perr]. cbn [fst] in Hstep.
        destruct perr as [pe|]; [exact Hstep|].
        specialize (IH rs' (S i) Hstep).
        destruct (pwalk NM R toks bt et pd r rs' (S i)) as [[[rs2 i2] o2] e2]. exact IH.
  Qed.

  Theorem perday_no_panic : forall R, perday_reporter NM R ->
    forall pd pf toks bt et evs,
      r_panic NM R (report_state NM R pd pf toks bt et evs) = None.
  Proof.
    intros R HR pd pf toks bt et evs. rewrite report_state_pwalk.
    destruct HR as [c d|c d|c d| |c|c Hplain|c d]; try reflexivity.
    apply (pwalk_state_inv (rep_single NM c d) toks bt et (fun st => r_panic NM (rep_single NM c d) st = None)).
    - intros pi st ln Hst. rewrite rep_single_state. exact Hst.
    - reflexivity.
  Qed.
End PerDay.
