(** WP26, part 2: C06 on the bytes of the log file, at the level of the two command shapes
    [run_log] / [run_db_log]: the run with a period on the file [render f] equals the run
    without a period on the file with the other days deleted. *)
From Coq Require Import Lia.
From HP Require Import Base.Bytes Base.Utf8 Base.Num Model.Scanner Model.Parser Model.Syntax Model.Elements
  Model.Resolver Model.Dates Model.Tree Model.Writer Model.Reporters Model.Cli.
From HP Require Import Spec.PeriodSpec Spec.ComposeSpec Spec.PeriodBytesSpec.
From HP Require Import Proofs.ParserBytes Proofs.ParserScan Proofs.ParserRoundtrip Proofs.ParserCorollaries
  Proofs.PeriodFilter Proofs.ComposeWalk Proofs.PeriodBytesParse.

(** ** the walk over the events of a file *)

Section Walk.
  Context (NM : Num) (R : reporter NM) (pd : nat -> list bytes -> list bytes) (pf : list bytes -> list bytes)
          (toks : list ltoken) (bt et : option time).

  Lemma walk_events_filter : forall evs st,
    walk_events NM R pd toks bt et evs st
    = walk_events NM R pd toks None None (filter (keep_ev NM toks bt et) evs) st.
  Proof.
    intros evs st.
    rewrite <- (app_nil_r evs) at 1. rewrite walk_events_drive_loop.
    rewrite <- (app_nil_r (filter _ evs)). rewrite walk_events_drive_loop.
    rewrite (period_is_filter_loop NM R pd toks bt et evs st).
    destruct (drive_loop NM (walk_cb NM R pd toks None None) (filter (keep_ev NM toks bt et) evs) st) as [st' [e|]];
      reflexivity.
  Qed.

  Lemma report_from_filter : forall wr evs,
    report_from NM R pd pf toks bt et wr evs
    = report_from NM R pd pf toks None None wr (filter (keep_ev NM toks bt et) evs).
  Proof. intros wr evs. unfold report_from. rewrite walk_events_filter. reflexivity. Qed.

  (** the walk with a period over [data] = the walk without one over any [data'] that parses into
      the filtered events (both read to the end) *)
  Lemma walk_and_finish_filtered : forall data data' wr,
    snd (scan data NoFault) = ScanEOF -> snd (scan data' NoFault) = ScanEOF ->
    events NM data' = filter (keep_ev NM toks bt et) (events NM data) ->
    walk_and_finish NM R pd pf toks bt et (OData data NoFault) wr
    = walk_and_finish NM R pd pf toks None None (OData data' NoFault) wr.
  Proof.
    intros data data' wr Hs Hs' He.
    rewrite (walk_and_finish_events NM R pd pf toks bt et data wr Hs).
    rewrite (walk_and_finish_events NM R pd pf toks None None data' wr Hs').
    rewrite He. apply report_from_filter.
  Qed.

  Lemma filter_idem {A} (p : A -> bool) l : filter p (filter p l) = filter p l.
  Proof.
    induction l as [|x l IH]; [reflexivity|]. cbn [filter].
    destruct (p x) eqn:E; [cbn [filter]; rewrite E, IH; reflexivity | exact IH].
  Qed.

  (** giving the period again on the reduced file changes nothing *)
  Lemma walk_and_finish_filtered_same : forall data data' wr,
    snd (scan data NoFault) = ScanEOF -> snd (scan data' NoFault) = ScanEOF ->
    events NM data' = filter (keep_ev NM toks bt et) (events NM data) ->
    walk_and_finish NM R pd pf toks bt et (OData data NoFault) wr
    = walk_and_finish NM R pd pf toks bt et (OData data' NoFault) wr.
  Proof.
    intros data data' wr Hs Hs' He.
    rewrite (walk_and_finish_events NM R pd pf toks bt et data wr Hs).
    rewrite (walk_and_finish_events NM R pd pf toks bt et data' wr Hs').
    rewrite He. rewrite (report_from_filter wr (filter _ _)), filter_idem. apply report_from_filter.
  Qed.
End Walk.

(** ** the world with the log file replaced *)

Lemma beq_refl x : beq x x = true.
Proof. apply beq_true_iff. reflexivity. Qed.

Lemma beq_neq x y : x <> y -> beq x y = false.
Proof. intros H. destruct (beq x y) eqn:E; [|reflexivity]. apply beq_true_iff in E. contradiction. Qed.

Lemma lookup_fs_with_file_same w p data : lookup_fs (with_file w p data) p = Some (FFile data).
Proof. unfold lookup_fs, with_file. cbn [w_fs lookup]. rewrite beq_refl. reflexivity. Qed.

Lemma lookup_fs_with_file_other w p data q : q <> p -> lookup_fs (with_file w p data) q = lookup_fs w q.
Proof. intros H. unfold lookup_fs, with_file. cbn [w_fs lookup]. rewrite (beq_neq q p H). reflexivity. Qed.

Lemma open_file_is w p data : file_is w p data -> open_file w p = Some (OData data NoFault).
Proof.
  intros [Hne [Hnd [Hl Hf]]]. unfold open_file. rewrite (beq_neq p dev_null Hnd).
  destruct p as [|c p]; [congruence|].
  rewrite Hl, Hf. reflexivity.
Qed.

Lemma file_is_with_file w p data data' : file_is w p data -> file_is (with_file w p data') p data'.
Proof.
  intros [Hne [Hnd [Hl Hf]]]. split; [exact Hne|]. split; [exact Hnd|]. split; [apply lookup_fs_with_file_same | exact Hf].
Qed.

Lemma open_file_with_file_other w p data q : q <> p -> open_file (with_file w p data) q = open_file w q.
Proof.
  intros H. unfold open_file. destruct (beq q dev_null); [reflexivity|]. destruct q as [|c q]; [reflexivity|].
  rewrite (lookup_fs_with_file_other w p data (c :: q) H). reflexivity.
Qed.

(** ** the two command shapes *)

Section Run.
  Context (NM : Num).

  (** *** relational form: any two worlds, any bytes that parse into the filtered events *)

  Theorem run_log_filtered : forall w w' op R toks data data',
    same_but_files w w' ->
    tokenize (op_fmt op) = Some toks ->
    open_file w (op_log op) = Some (OData data NoFault) ->
    open_file w' (op_log op) = Some (OData data' NoFault) ->
    snd (scan data NoFault) = ScanEOF -> snd (scan data' NoFault) = ScanEOF ->
    events NM data' = filter (keep_ev NM toks (op_begin op) (op_end op)) (events NM data) ->
    run_log NM w op R = run_log NM w' (without_period op) R.
  Proof.
    intros w w' op R toks data data' [Hor Hsink] Ht Ho Ho' Hs Hs' He. unfold run_log.
    change (op_log (without_period op)) with (op_log op). change (op_fmt (without_period op)) with (op_fmt op).
    change (op_begin (without_period op)) with (@None time). change (op_end (without_period op)) with (@None time).
    cbn [open_all]. rewrite Ho, Ho'. cbn [option_map]. rewrite Ht.
    unfold new_writer. rewrite <- Hor, <- Hsink.
    rewrite (walk_and_finish_filtered NM R _ _ toks _ _ data data' _ Hs Hs' He). reflexivity.
  Qed.

  Theorem run_db_log_filtered : forall w w' op mk bt et toks data data',
    same_but_files w w' ->
    tokenize (op_fmt op) = Some toks ->
    open_file w' (op_db op) = open_file w (op_db op) ->
    open_file w (op_log op) = Some (OData data NoFault) ->
    open_file w' (op_log op) = Some (OData data' NoFault) ->
    snd (scan data NoFault) = ScanEOF -> snd (scan data' NoFault) = ScanEOF ->
    events NM data' = filter (keep_ev NM toks bt et) (events NM data) ->
    run_db_log NM w op mk bt et = run_db_log NM w' op mk None None.
  Proof.
    intros w w' op mk bt et toks data data' [Hor Hsink] Ht Hdb Ho Ho' Hs Hs' He. unfold run_db_log.
    cbn [open_all]. rewrite Hdb, Ho, Ho'.
    unfold new_writer. rewrite <- Hsink.
    destruct (open_file w (op_db op)) as [odb|]; [|reflexivity]. cbn [option_map].
    unfold resolved_db. rewrite <- Hor.
    destruct (load_db NM odb) as [d [e|]]; [reflexivity|].
    destruct (resolve NM (Z.to_nat (op_depth op)) (o_resolve (w_or w)) d) as [d'|]; [|reflexivity].
    rewrite Ht.
    rewrite (walk_and_finish_filtered NM (mk d') _ _ toks _ _ data data' _ Hs Hs' He). reflexivity.
  Qed.

  Theorem run_db_log_filtered_same : forall w w' op mk bt et toks data data',
    same_but_files w w' ->
    tokenize (op_fmt op) = Some toks ->
    open_file w' (op_db op) = open_file w (op_db op) ->
    open_file w (op_log op) = Some (OData data NoFault) ->
    open_file w' (op_log op) = Some (OData data' NoFault) ->
    snd (scan data NoFault) = ScanEOF -> snd (scan data' NoFault) = ScanEOF ->
    events NM data' = filter (keep_ev NM toks bt et) (events NM data) ->
    run_db_log NM w op mk bt et = run_db_log NM w' op mk bt et.
  Proof.
    intros w w' op mk bt et toks data data' [Hor Hsink] Ht Hdb Ho Ho' Hs Hs' He. unfold run_db_log.
    cbn [open_all]. rewrite Hdb, Ho, Ho'.
    unfold new_writer. rewrite <- Hsink.
    destruct (open_file w (op_db op)) as [odb|]; [|reflexivity]. cbn [option_map].
    unfold resolved_db. rewrite <- Hor.
    destruct (load_db NM odb) as [d [e|]]; [reflexivity|].
    destruct (resolve NM (Z.to_nat (op_depth op)) (o_resolve (w_or w)) d) as [d'|]; [|reflexivity].
    rewrite Ht.
    rewrite (walk_and_finish_filtered_same NM (mk d') _ _ toks _ _ data data' _ Hs Hs' He). reflexivity.
  Qed.

  (** *** the file with the other days deleted *)

  Section Deletion.
    Context (f : file) (toks : list ltoken).
    Hypothesis Hwf : wf_file NM f = true.
    Hypothesis Hshort : short_lines f.
    Hypothesis Hclean : clean_file f.

    Lemma scan_eof_f : snd (scan (render f) NoFault) = ScanEOF.
    Proof. apply (short_lines_exact NM f Hwf). exact Hshort. Qed.

    (** records with an undated heading left in place: no hypothesis on the headings *)
    Theorem period_is_deletion_or_undated_run_log : forall w op R,
      tokenize (op_fmt op) = Some toks ->
      file_is w (op_log op) (render f) ->
      run_log NM w op R
      = run_log NM (with_file w (op_log op)
                      (render (keep_records (in_period_or_undated toks (op_begin op) (op_end op)) f)))
                (without_period op) R.
    Proof.
      intros w op R Ht Hf.
      eapply (run_log_filtered w _ op R toks (render f) _).
      - split; reflexivity.
      - exact Ht.
      - apply open_file_is, Hf.
      - apply open_file_is. exact (file_is_with_file _ _ _ _ Hf).
      - exact scan_eof_f.
      - apply (keep_records_scan_eof NM); assumption.
      - apply delete_days_events_or_undated; assumption.
    Qed.

    Theorem period_is_deletion_or_undated_run_db_log : forall w op mk bt et,
      tokenize (op_fmt op) = Some toks ->
      file_is w (op_log op) (render f) ->
      op_db op <> op_log op ->
      run_db_log NM w op mk bt et
      = run_db_log NM (with_file w (op_log op) (render (keep_records (in_period_or_undated toks bt et) f)))
                   op mk None None.
    Proof.
      intros w op mk bt et Ht Hf Hne.
      eapply (run_db_log_filtered w _ op mk bt et toks (render f) _).
      - split; reflexivity.
      - exact Ht.
      - apply open_file_with_file_other, Hne.
      - apply open_file_is, Hf.
      - apply open_file_is. exact (file_is_with_file _ _ _ _ Hf).
      - exact scan_eof_f.
      - apply (keep_records_scan_eof NM); assumption.
      - apply delete_days_events_or_undated; assumption.
    Qed.

    (** the literal reading: every record whose heading is not a date of the period is deleted;
        needs every heading to be a date *)
    Hypothesis Hdated : headings_dated toks f.

    Theorem period_is_deletion_run_log : forall w op R,
      tokenize (op_fmt op) = Some toks ->
      file_is w (op_log op) (render f) ->
      run_log NM w op R
      = run_log NM (with_file w (op_log op) (render (keep_records (in_period toks (op_begin op) (op_end op)) f)))
                (without_period op) R.
    Proof.
      intros w op R Ht Hf. rewrite (keep_records_dated toks _ _ f Hdated).
      apply period_is_deletion_or_undated_run_log; assumption.
    Qed.

    Theorem period_is_deletion_run_db_log : forall w op mk bt et,
      tokenize (op_fmt op) = Some toks ->
      file_is w (op_log op) (render f) ->
      op_db op <> op_log op ->
      run_db_log NM w op mk bt et
      = run_db_log NM (with_file w (op_log op) (render (keep_records (in_period toks bt et) f))) op mk None None.
    Proof.
      intros w op mk bt et Ht Hf Hne. rewrite (keep_records_dated toks _ _ f Hdated).
      apply period_is_deletion_or_undated_run_db_log; assumption.
    Qed.

    (** the period given again on the reduced file (used for [summary], which cannot be run
        without its day) *)
    Theorem period_kept_run_db_log : forall w op mk bt et,
      tokenize (op_fmt op) = Some toks ->
      file_is w (op_log op) (render f) ->
      op_db op <> op_log op ->
      run_db_log NM w op mk bt et
      = run_db_log NM (with_file w (op_log op) (render (keep_records (in_period toks bt et) f))) op mk bt et.
    Proof.
      intros w op mk bt et Ht Hf Hne. rewrite (keep_records_dated toks _ _ f Hdated).
      eapply (run_db_log_filtered_same w _ op mk bt et toks (render f) _).
      - split; reflexivity.
      - exact Ht.
      - apply open_file_with_file_other, Hne.
      - apply open_file_is, Hf.
      - apply open_file_is. exact (file_is_with_file _ _ _ _ Hf).
      - exact scan_eof_f.
      - apply (keep_records_scan_eof NM); assumption.
      - apply delete_days_events_or_undated; assumption.
    Qed.

    (** *** stretch: the reduced file in ANY layout (other filler bytes, CRLF flags, final newline,
        blank and comment lines), and in any world that agrees on oracles and sink *)
    Theorem deletion_layout_free_run_log_gen : forall w w' op R f',
      no_bad_items f ->
      wf_file NM f' = true -> short_lines f' -> no_bad_items f' ->
      contents (map fst (f_items f'))
      = contents (map fst (f_items (keep_records (in_period toks (op_begin op) (op_end op)) f))) ->
      same_but_files w w' ->
      tokenize (op_fmt op) = Some toks ->
      file_is w (op_log op) (render f) ->
      file_is w' (op_log op) (render f') ->
      run_log NM w op R = run_log NM w' (without_period op) R.
    Proof.
      intros w w' op R f' Hnb Hwf' Hs' Hnb' Hcont Hsame Ht Hf Hf'.
      apply (run_log_filtered w w' op R toks (render f) (render f') Hsame Ht).
      - apply open_file_is, Hf.
      - apply open_file_is, Hf'.
      - exact scan_eof_f.
      - apply (short_lines_exact NM f' Hwf'). exact Hs'.
      - rewrite (layout_invariance NM f' (keep_records (in_period toks (op_begin op) (op_end op)) f)
                   Hwf' Hs' Hnb'
                   (keep_records_wf NM _ f Hwf) (keep_records_short _ f Hshort) (keep_records_no_bad _ f Hnb) Hcont).
        rewrite (keep_records_dated toks _ _ f Hdated).
        apply delete_days_events_or_undated; assumption.
    Qed.

    Theorem deletion_layout_free_run_db_log_gen : forall w w' op mk bt et f',
      no_bad_items f ->
      wf_file NM f' = true -> short_lines f' -> no_bad_items f' ->
      contents (map fst (f_items f')) = contents (map fst (f_items (keep_records (in_period toks bt et) f))) ->
      same_but_files w w' ->
      tokenize (op_fmt op) = Some toks ->
      open_file w' (op_db op) = open_file w (op_db op) ->
      file_is w (op_log op) (render f) ->
      file_is w' (op_log op) (render f') ->
      run_db_log NM w op mk bt et = run_db_log NM w' op mk None None.
    Proof.
      intros w w' op mk bt et f' Hnb Hwf' Hs' Hnb' Hcont Hsame Ht Hdb Hf Hf'.
      apply (run_db_log_filtered w w' op mk bt et toks (render f) (render f') Hsame Ht Hdb).
      - apply open_file_is, Hf.
      - apply open_file_is, Hf'.
      - exact scan_eof_f.
      - apply (short_lines_exact NM f' Hwf'). exact Hs'.
      - rewrite (layout_invariance NM f' (keep_records (in_period toks bt et) f)
                   Hwf' Hs' Hnb'
                   (keep_records_wf NM _ f Hwf) (keep_records_short _ f Hshort) (keep_records_no_bad _ f Hnb) Hcont).
        rewrite (keep_records_dated toks _ _ f Hdated).
        apply delete_days_events_or_undated; assumption.
    Qed.
  End Deletion.

  (** the same, with the redundant [clean_file] discharged from [no_bad_items] *)
  Theorem deletion_layout_free_run_log : forall f toks w w' op R f',
    wf_file NM f = true -> short_lines f -> no_bad_items f -> headings_dated toks f ->
    wf_file NM f' = true -> short_lines f' -> no_bad_items f' ->
    contents (map fst (f_items f'))
    = contents (map fst (f_items (keep_records (in_period toks (op_begin op) (op_end op)) f))) ->
    same_but_files w w' ->
    tokenize (op_fmt op) = Some toks ->
    file_is w (op_log op) (render f) ->
    file_is w' (op_log op) (render f') ->
    run_log NM w op R = run_log NM w' (without_period op) R.
  Proof.
    intros f toks w w' op R f' Hwf Hs Hnb Hd Hwf' Hs' Hnb' Hcont Hsame Ht Hf Hf'.
    exact (deletion_layout_free_run_log_gen f toks Hwf Hs (no_bad_items_clean f Hnb) Hd
             w w' op R f' Hnb Hwf' Hs' Hnb' Hcont Hsame Ht Hf Hf').
  Qed.

  Theorem deletion_layout_free_run_db_log : forall f toks w w' op mk bt et f',
    wf_file NM f = true -> short_lines f -> no_bad_items f -> headings_dated toks f ->
    wf_file NM f' = true -> short_lines f' -> no_bad_items f' ->
    contents (map fst (f_items f')) = contents (map fst (f_items (keep_records (in_period toks bt et) f))) ->
    same_but_files w w' ->
    tokenize (op_fmt op) = Some toks ->
    open_file w' (op_db op) = open_file w (op_db op) ->
    file_is w (op_log op) (render f) ->
    file_is w' (op_log op) (render f') ->
    run_db_log NM w op mk bt et = run_db_log NM w' op mk None None.
  Proof.
    intros f toks w w' op mk bt et f' Hwf Hs Hnb Hd Hwf' Hs' Hnb' Hcont Hsame Ht Hdb Hf Hf'.
    exact (deletion_layout_free_run_db_log_gen f toks Hwf Hs (no_bad_items_clean f Hnb) Hd
             w w' op mk bt et f' Hnb Hwf' Hs' Hnb' Hcont Hsame Ht Hdb Hf Hf').
  Qed.
End Run.
