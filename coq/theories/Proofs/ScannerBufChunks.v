(** WP27: the ways of delivering a file ([chunks_of]) and the corollaries of
    [ScannerBuf.scan_chunks_full_spec]: the result of the buffer-level scanner
    is [Model/Scanner.scan data fault] whatever the chunking. *)
From Coq Require Import List NArith Bool Lia ZifyBool ZifyNat ZifyN.
From HP Require Import Base.Bytes Base.Num Model.Scanner Model.ScannerBuf Model.Parser.
From HP Require Import Proofs.ScannerBuf.
Import ListNotations.
Open Scope N_scope.

(** * Ways of delivering a file *)

(** the bytes a reader with this fault delivers *)
Definition delivered (data : bytes) (f : read_fault) : bytes :=
  match f with NoFault => data | FailAt k => firstn k data end.

Definition fault_end (f : read_fault) : scan_end :=
  match f with NoFault => ScanEOF | FailAt _ => ScanReadErr end.

(** what follows the data in the list of read results: nothing (end of file),
    or the error followed by anything at all (never read) *)
Definition reader_tail (f : read_fault) (tl : list read_result) : Prop :=
  match f with NoFault => tl = [] | FailAt _ => exists junk, tl = RErr :: junk end.

(** [cs] delivers [data] under [fault] in non-empty chunks *)
Definition chunks_of (data : bytes) (f : read_fault) (cs : list read_result) : Prop :=
  exists (pieces : list bytes) (tl : list read_result),
    cs = map RChunk pieces ++ tl /\ reader_tail f tl /\
    concat pieces = delivered data f /\ Forall (fun p => p <> []) pieces.

(** every run of consecutive empty reads has at most [m] elements *)
Definition empty_runs_le (m : nat) (pieces : list bytes) : Prop :=
  forall pre run post, pieces = pre ++ run ++ post -> Forall (fun p => p = []) run ->
                       (length run <= m)%nat.

(** the same with empty reads allowed, at most 100 in a row *)
Definition chunks_of_gen (data : bytes) (f : read_fault) (cs : list read_result) : Prop :=
  exists (pieces : list bytes) (tl : list read_result),
    cs = map RChunk pieces ++ tl /\ reader_tail f tl /\
    concat pieces = delivered data f /\ empty_runs_le 100 pieces.

(** * [stream_of] on such lists *)

Fixpoint runs_ok (k : N) (pieces : list bytes) : Prop :=
  match pieces with
  | [] => True
  | [] :: r => k + 1 <= max_consecutive_empty_reads /\ runs_ok (k + 1) r
  | (_ :: _) :: r => runs_ok 0 r
  end.

Lemma stream_of_pieces pieces :
  forall k tl, runs_ok k pieces -> (forall k', stream_of k' tl = stream_of 0 tl) ->
  stream_of k (map RChunk pieces ++ tl) =
  (concat pieces ++ stream_data tl, stream_end tl, stream_glued tl).
Proof.
  unfold stream_data, stream_end, stream_glued.
  induction pieces as [|p pieces IH]; intros k tl HR HT.
  - cbn [map app concat]. rewrite HT. now destruct (stream_of 0 tl) as [[d e] g].
  - destruct p as [|c p]; cbn [map app concat stream_of runs_ok] in *.
    + destruct HR as [HK HR]. destruct (N.ltb_spec max_consecutive_empty_reads (k + 1)); [lia|].
      now apply IH.
    + rewrite (IH 0 tl HR HT). cbn [fst snd]. now rewrite <- app_assoc.
Qed.

Lemma empty_runs_ok pieces :
  forall k : nat,
  (forall run post, pieces = run ++ post -> Forall (fun p => p = []) run -> (k + length run <= 100)%nat) ->
  empty_runs_le 100 pieces -> runs_ok (N.of_nat k) pieces.
Proof.
  induction pieces as [|p pieces IH]; intros k HK HE; [exact I|].
  destruct p as [|c p]; cbn [runs_ok].
  - split.
    + specialize (HK [[]] pieces eq_refl (Forall_cons _ eq_refl (Forall_nil _))).
      cbn [length] in HK. unfold max_consecutive_empty_reads. lia.
    + replace (N.of_nat k + 1) with (N.of_nat (S k)) by lia. apply IH.
      * intros run post E HF. specialize (HK ([] :: run) post).
        cbn [app length] in HK. rewrite E in HK.
        specialize (HK eq_refl (Forall_cons _ eq_refl HF)). lia.
      * intros pre run post E HF. apply (HE ([] :: pre) run post); [|exact HF].
        cbn [app]. now rewrite E.
  - apply (IH 0%nat).
    + intros run post E HF. apply (HE [c :: p] run post); [|exact HF]. cbn [app]. now rewrite E.
    + intros pre run post E HF. apply (HE ((c :: p) :: pre) run post); [|exact HF].
      cbn [app]. now rewrite E.
Qed.

Lemma empty_runs_le_runs_ok pieces : empty_runs_le 100 pieces -> runs_ok 0 pieces.
Proof.
  intros H. apply (empty_runs_ok pieces 0%nat); [|exact H].
  intros run post E HF. cbn. apply (H [] run post); [exact E|exact HF].
Qed.

Lemma nonempty_empty_runs_le m pieces : Forall (fun p => p <> []) pieces -> empty_runs_le m pieces.
Proof.
  intros H pre run post E HF. destruct run as [|x run]; [cbn; lia|]. exfalso.
  inversion HF as [|x' run' Hx Hrun]; subst.
  rewrite Forall_forall in H. apply (H []); [|reflexivity].
  apply in_or_app. right. now left.
Qed.

(** a decidable criterion for [empty_runs_le] *)
Fixpoint lead_empties (pieces : list bytes) : nat :=
  match pieces with [] :: r => S (lead_empties r) | _ => O end.

Fixpoint runs_leb (m : nat) (pieces : list bytes) : bool :=
  match pieces with
  | [] => true
  | _ :: r => (lead_empties pieces <=? m)%nat && runs_leb m r
  end.

Lemma lead_empties_ge run post :
  Forall (fun p => p = []) run -> (length run <= lead_empties (run ++ post))%nat.
Proof.
  induction run as [|x run IH]; intros H; [cbn; lia|].
  inversion H as [|x' run' Hx Hr]; subst. cbn [app lead_empties length].
  specialize (IH Hr). lia.
Qed.

Lemma runs_leb_sound m pieces : runs_leb m pieces = true -> empty_runs_le m pieces.
Proof.
  intros H pre. revert pieces H. induction pre as [|p pre IH]; intros pieces H run post E HF.
  - cbn [app] in E. subst pieces. pose proof (lead_empties_ge run post HF) as HG.
    destruct run as [|x run]; [cbn; lia|].
    cbn [app runs_leb] in H. apply andb_true_iff in H. destruct H as [H _].
    apply Nat.leb_le in H. exact (Nat.le_trans _ _ _ HG H).
  - subst pieces. cbn [app runs_leb] in H. apply andb_true_iff in H. destruct H as [_ H].
    apply (IH _ H run post eq_refl HF).
Qed.

Lemma chunks_of_gen_of data f cs : chunks_of data f cs -> chunks_of_gen data f cs.
Proof.
  intros (pieces & tl & H1 & H2 & H3 & H4). exists pieces, tl. repeat split; try assumption.
  now apply nonempty_empty_runs_le.
Qed.

Lemma reader_tail_stream f tl :
  reader_tail f tl -> forall k, stream_of k tl = ([], CEnd (fault_end f), false).
Proof.
  destruct f as [|n]; cbn [reader_tail]; [intros -> k; reflexivity|].
  intros (junk & ->) k. reflexivity.
Qed.

Lemma chunks_of_gen_stream data f cs :
  chunks_of_gen data f cs -> stream_of 0 cs = (delivered data f, CEnd (fault_end f), false).
Proof.
  intros (pieces & tl & -> & HT & HC & HR).
  rewrite stream_of_pieces.
  - unfold stream_data, stream_end, stream_glued.
    rewrite (reader_tail_stream f tl HT 0). cbn [fst snd]. now rewrite app_nil_r, HC.
  - now apply empty_runs_le_runs_ok.
  - intros k'. now rewrite !(reader_tail_stream f tl HT).
Qed.

(** * [Model/Scanner.scan] in the vocabulary of the master theorem *)

Definition end_proj (e : chunk_end) : scan_end :=
  match e with CEnd e' => e' | CNoProgress => ScanReadErr end.

Lemma scan_chunks_spec cs :
  scan_chunks cs =
  (fst (spec_result_x (stream_glued cs) (stream_data cs) (stream_end cs)),
   end_proj (snd (spec_result_x (stream_glued cs) (stream_data cs) (stream_end cs)))).
Proof.
  unfold scan_chunks. rewrite scan_chunks_full_spec_x.
  now destruct (spec_result_x (stream_glued cs) (stream_data cs) (stream_end cs)) as [ls [e|]].
Qed.

Lemma scan_spec data f :
  scan data f =
  (fst (spec_result (delivered data f) (CEnd (fault_end f))),
   end_proj (snd (spec_result (delivered data f) (CEnd (fault_end f))))).
Proof.
  unfold scan, spec_result, delivered, fault_end.
  destruct f as [|k].
  - now destruct (take_lines (raw_lines [] data)) as [ls [|]].
  - now destruct (take_lines (raw_lines [] (firstn k data))) as [ls [|]].
Qed.

(** * The theorems *)

Theorem scan_chunking_independent_gen data f cs :
  chunks_of_gen data f cs -> scan_chunks cs = scan data f.
Proof.
  intros H. rewrite scan_chunks_spec, scan_spec. unfold stream_data, stream_end, stream_glued.
  rewrite (chunks_of_gen_stream _ _ _ H). cbn [fst snd]. now rewrite spec_result_x_false.
Qed.

Theorem scan_chunking_independent data f cs :
  chunks_of data f cs -> scan_chunks cs = scan data f.
Proof. intros H. apply scan_chunking_independent_gen. now apply chunks_of_gen_of. Qed.

(** the full result (with [io.ErrNoProgress] kept apart) never is [CNoProgress] either *)
Theorem scan_chunks_full_independent_gen data f cs :
  chunks_of_gen data f cs ->
  scan_chunks_full cs = (fst (scan data f), CEnd (snd (scan data f))).
Proof.
  intros H. rewrite scan_chunks_full_spec_x, scan_spec. unfold stream_data, stream_end, stream_glued.
  rewrite (chunks_of_gen_stream _ _ _ H). cbn [fst snd]. rewrite spec_result_x_false.
  unfold spec_result. now destruct (take_lines (raw_lines [] (delivered data f))) as [ls [|]].
Qed.

Theorem scan_chunks_deterministic_in_chunking data f cs1 cs2 :
  chunks_of data f cs1 -> chunks_of data f cs2 -> scan_chunks cs1 = scan_chunks cs2.
Proof.
  intros H1 H2. now rewrite (scan_chunking_independent _ _ _ H1), (scan_chunking_independent _ _ _ H2).
Qed.

Theorem scan_chunks_deterministic_in_chunking_gen data f cs1 cs2 :
  chunks_of_gen data f cs1 -> chunks_of_gen data f cs2 -> scan_chunks cs1 = scan_chunks cs2.
Proof.
  intros H1 H2.
  now rewrite (scan_chunking_independent_gen _ _ _ H1), (scan_chunking_independent_gen _ _ _ H2).
Qed.

(** * The result spelled out on the lines of the file *)

Definition terminated (ls : list bytes) : bytes := concat (map (fun l => l ++ [c_lf]) ls).

Definition short_line (l : bytes) : Prop := ~ In c_lf l /\ lengthN l < max_token.

Lemma spec_result_lines g ls tail e :
  Forall short_line ls ->
  spec_result_x g (terminated ls ++ tail) e =
  (map drop_cr ls ++ fst (spec_result_x g tail e), snd (spec_result_x g tail e)).
Proof.
  unfold terminated. induction ls as [|l ls IH]; intros H.
  - cbn [map concat app]. now destruct (spec_result_x g tail e).
  - inversion H as [|l' ls' [H1 H2] H3]; subst. cbn [map concat].
    rewrite <- !app_assoc. cbn [app]. rewrite spec_result_line by assumption.
    rewrite IH by assumption. reflexivity.
Qed.

Lemma scan_chunks_delivered data f cs :
  chunks_of_gen data f cs ->
  scan_chunks cs =
  (fst (spec_result_x false (delivered data f) (CEnd (fault_end f))),
   end_proj (snd (spec_result_x false (delivered data f) (CEnd (fault_end f))))).
Proof.
  intros H. rewrite (scan_chunking_independent_gen _ _ _ H), spec_result_x_false. apply scan_spec.
Qed.

(** all lines shorter than 65536 bytes: every line is delivered, the last
    unterminated piece too, and the scan ends as the reader does *)
Theorem short_lines_any_chunking_gen ls last data f cs :
  Forall short_line ls -> short_line last ->
  delivered data f = terminated ls ++ last ->
  chunks_of_gen data f cs ->
  scan_chunks cs = (map drop_cr ls ++ match last with [] => [] | _ => [drop_cr last] end, fault_end f).
Proof.
  intros HL [HN HS] HD HC. rewrite (scan_chunks_delivered _ _ _ HC), HD.
  rewrite spec_result_lines by exact HL.
  destruct last as [|c last].
  - now rewrite spec_result_nil.
  - rewrite spec_result_last; [reflexivity|exact HN|discriminate|now left].
Qed.

(** a raw line of 65536 bytes or more: the lines before it, then [ScanTooLong],
    however the bytes arrive and whatever follows (a fault after the first
    65536 bytes of the line included) *)
Theorem long_line_any_chunking_gen ls long rest data f cs :
  Forall short_line ls ->
  ~ In c_lf long -> max_token <= lengthN long ->
  delivered data f = terminated ls ++ long ++ rest ->
  chunks_of_gen data f cs ->
  scan_chunks cs = (map drop_cr ls, ScanTooLong).
Proof.
  intros HL HN HM HD HC. rewrite (scan_chunks_delivered _ _ _ HC), HD.
  rewrite spec_result_lines by exact HL.
  rewrite spec_result_too_long by (assumption || now left). cbn [fst snd end_proj]. now rewrite app_nil_r.
Qed.

Theorem short_lines_any_chunking ls last data f cs :
  Forall short_line ls -> short_line last ->
  delivered data f = terminated ls ++ last ->
  chunks_of data f cs ->
  scan_chunks cs = (map drop_cr ls ++ match last with [] => [] | _ => [drop_cr last] end, fault_end f).
Proof. intros H1 H2 H3 H4. eapply short_lines_any_chunking_gen; eauto using chunks_of_gen_of. Qed.

Theorem long_line_any_chunking ls long rest data f cs :
  Forall short_line ls ->
  ~ In c_lf long -> max_token <= lengthN long ->
  delivered data f = terminated ls ++ long ++ rest ->
  chunks_of data f cs ->
  scan_chunks cs = (map drop_cr ls, ScanTooLong).
Proof. intros H1 H2 H3 H4 H5. eapply long_line_any_chunking_gen; eauto using chunks_of_gen_of. Qed.

(** a reader failing at offset [k]: the lines of the first [k] bytes (as if the
    file ended there), never [ScanEOF] *)
Theorem read_error_any_chunking_gen data k cs :
  chunks_of_gen data (FailAt k) cs ->
  scan_chunks cs =
    (fst (scan (firstn k data) NoFault),
     match snd (scan (firstn k data) NoFault) with ScanTooLong => ScanTooLong | _ => ScanReadErr end)
  /\ snd (scan_chunks cs) <> ScanEOF.
Proof.
  intros H. rewrite (scan_chunking_independent_gen _ _ _ H). unfold scan.
  destruct (take_lines (raw_lines [] (firstn k data))) as [ls [|]]; cbn [fst snd]; split;
    (reflexivity || discriminate).
Qed.

Theorem read_error_any_chunking data k cs :
  chunks_of data (FailAt k) cs ->
  scan_chunks cs =
    (fst (scan (firstn k data) NoFault),
     match snd (scan (firstn k data) NoFault) with ScanTooLong => ScanTooLong | _ => ScanReadErr end)
  /\ snd (scan_chunks cs) <> ScanEOF.
Proof. intros H. apply read_error_any_chunking_gen. now apply chunks_of_gen_of. Qed.

(** * More than 100 empty reads in a row

    The scanner gives up with [io.ErrNoProgress]; what was delivered before is
    scanned as at end of file (last partial line included), exactly as for a
    reader error. *)

Lemma stream_of_empties n :
  forall k x, 100 < k + N.of_nat (S n) ->
  stream_of k (repeat (RChunk []) (S n) ++ x) = ([], CNoProgress, false).
Proof.
  induction n as [|n IH]; intros k x H.
  - cbn [repeat app stream_of]. unfold max_consecutive_empty_reads.
    destruct (N.ltb_spec 100 (k + 1)); [reflexivity|lia].
  - change (repeat (RChunk []) (S (S n))) with (RChunk [] :: repeat (RChunk []) (S n)).
    cbn [app stream_of]. unfold max_consecutive_empty_reads.
    destruct (N.ltb_spec 100 (k + 1)); [reflexivity|]. apply IH. lia.
Qed.

Theorem no_progress_any_chunking pieces x :
  empty_runs_le 100 pieces ->
  scan_chunks_full (map RChunk pieces ++ repeat (RChunk []) 101 ++ x) =
  spec_result (concat pieces) CNoProgress.
Proof.
  intros H. rewrite scan_chunks_full_spec_x. unfold stream_data, stream_end, stream_glued.
  assert (HT : forall k, stream_of k (repeat (RChunk []) 101 ++ x) = ([], CNoProgress, false)).
  { intros k. apply (stream_of_empties 100). lia. }
  rewrite stream_of_pieces.
  - unfold stream_data, stream_end, stream_glued.
    rewrite HT. cbn [fst snd]. now rewrite app_nil_r, spec_result_x_false.
  - now apply empty_runs_le_runs_ok.
  - intros k'. now rewrite !HT.
Qed.

(** in the vocabulary of [Model/Scanner]: 101 empty reads in a row after [k]
    bytes are a read error at offset [k] *)
Theorem no_progress_is_read_error data k pieces x :
  empty_runs_le 100 pieces -> concat pieces = firstn k data ->
  scan_chunks (map RChunk pieces ++ repeat (RChunk []) 101 ++ x) = scan data (FailAt k).
Proof.
  intros H HC. unfold scan_chunks. rewrite (no_progress_any_chunking _ _ H), HC.
  unfold scan, spec_result.
  now destruct (take_lines (raw_lines [] (firstn k data))) as [ls [|]].
Qed.

(** * The parser on a chunk-level reader *)

Section ParserOnChunks.
  Context (NM : Num) {S E : Type} (cb : S -> event NM -> S * bool * option E).

  (** [parse_stream] with the scanner replaced by the buffer-level one *)
  Definition parse_stream_chunks (cs : list read_result) (s : S) : S * option (E + scan_end) :=
    let '(lines, fin) := scan_chunks cs in
    let '(evs, last) := parse_lines NM lines in
    drive NM cb evs last fin s.

  Theorem parse_stream_chunking_independent_gen data f cs s :
    chunks_of_gen data f cs -> parse_stream_chunks cs s = parse_stream NM cb data f s.
  Proof.
    intros H. unfold parse_stream_chunks, parse_stream.
    now rewrite (scan_chunking_independent_gen _ _ _ H).
  Qed.

  Theorem parse_stream_chunking_independent data f cs s :
    chunks_of data f cs -> parse_stream_chunks cs s = parse_stream NM cb data f s.
  Proof. intros H. apply parse_stream_chunking_independent_gen. now apply chunks_of_gen_of. Qed.

  (** the callback never sets the stop flag without returning an error (true of
      the callback of every command: [Proofs/UnreadableCli.v]) *)
  Hypothesis cb_stops : forall s ev s' e, cb s ev = (s', true, e) -> e <> None.

  Lemma drive_loop_stop evs : forall s s' e, drive_loop NM cb evs s = (s', Some e) -> e <> None.
  Proof.
    induction evs as [|ev evs IH]; intros s s' e H; cbn [drive_loop] in H; [discriminate|].
    destruct (cb s ev) as [[s1 stop] e1] eqn:EC. destruct stop.
    - injection H as <- <-. now apply (cb_stops _ _ _ _ EC).
    - now apply (IH _ _ _ H).
  Qed.

  Lemma drive_not_eof evs last fin s : fin <> ScanEOF -> snd (drive NM cb evs last fin s) <> None.
  Proof.
    intros HF. unfold drive. destruct (drive_loop NM cb evs s) as [s' [e|]] eqn:ED.
    - apply drive_loop_stop in ED. destruct e; [discriminate|contradiction].
    - destruct fin; [contradiction|discriminate|discriminate].
  Qed.

  (** C10 on chunks: the read fails at ANY byte offset, the bytes before it
      arriving in ANY chunking: [ParseStreamCallback] returns an error *)
  Theorem read_fault_is_error_any_chunking data k cs s :
    chunks_of data (FailAt k) cs -> snd (parse_stream_chunks cs s) <> None.
  Proof.
    intros H. unfold parse_stream_chunks.
    destruct (read_error_any_chunking _ _ _ H) as [_ HE].
    destruct (scan_chunks cs) as [lines fin]. destruct (parse_lines NM lines) as [evs last].
    now apply drive_not_eof.
  Qed.

  (** C10 on chunks: a raw line of 65536 bytes or more, arriving in ANY chunking *)
  Theorem long_line_is_error_any_chunking ls long rest data f cs s :
    Forall short_line ls -> ~ In c_lf long -> max_token <= lengthN long ->
    delivered data f = terminated ls ++ long ++ rest ->
    chunks_of data f cs -> snd (parse_stream_chunks cs s) <> None.
  Proof.
    intros H1 H2 H3 H4 H5. unfold parse_stream_chunks.
    rewrite (long_line_any_chunking _ _ _ _ _ _ H1 H2 H3 H4 H5).
    destruct (parse_lines NM (map drop_cr ls)) as [evs last].
    now apply drive_not_eof.
  Qed.
End ParserOnChunks.

(** * Readers that return their last bytes TOGETHER with the error or io.EOF

    Allowed by the [io.Reader] contract; [os.File] never does it.  Then the
    chunking matters at exactly one point: when the delivered bytes end in an
    unterminated raw line of exactly 65536 bytes, the scanner delivers that line
    (it fills the buffer at the very moment the error arrives and the split
    function is asked with [atEOF = true] before the capacity is looked at),
    whereas with the error arriving in a call of its own it is [ErrTooLong]. *)

Definition failing_of (f : read_fault) : bool := match f with NoFault => false | FailAt _ => true end.

(** [cs] delivers [data] under [fault], the last non-empty piece together with
    the end of file / the error; empty reads allowed before it, at most 100 in a row *)
Definition chunks_glued (data : bytes) (f : read_fault) (cs : list read_result) : Prop :=
  exists (pieces : list bytes) (last : bytes) (junk : list read_result),
    cs = map RChunk pieces ++ RLast last (failing_of f) :: junk /\
    concat pieces ++ last = delivered data f /\ last <> [] /\ empty_runs_le 100 pieces.

(** the delivered bytes end in an unterminated raw line of exactly 65536 bytes *)
Definition ends_in_exact_line (seen : bytes) : Prop :=
  exists pre l, seen = pre ++ l /\ (pre = [] \/ exists p, pre = p ++ [c_lf]) /\
                ~ In c_lf l /\ lengthN l = max_token.

Lemma chunks_glued_stream data f cs :
  chunks_glued data f cs -> stream_of 0 cs = (delivered data f, CEnd (fault_end f), true).
Proof.
  intros (pieces & last & junk & -> & HC & HN & HR).
  rewrite stream_of_pieces.
  - unfold stream_data, stream_end, stream_glued. cbn [stream_of fst snd]. rewrite HC.
    destruct last; [contradiction|]. now destruct f.
  - now apply empty_runs_le_runs_ok.
  - reflexivity.
Qed.

Lemma scan_chunks_glued data f cs :
  chunks_glued data f cs ->
  scan_chunks cs =
  (fst (spec_result_x true (delivered data f) (CEnd (fault_end f))),
   end_proj (snd (spec_result_x true (delivered data f) (CEnd (fault_end f))))).
Proof.
  intros H. rewrite scan_chunks_spec. unfold stream_data, stream_end, stream_glued.
  now rewrite (chunks_glued_stream _ _ _ H).
Qed.

Lemma take_lines_x_eq l :
  (forall raw, In (raw, false) l -> lengthN raw <> max_token) -> take_lines_x true l = take_lines l.
Proof.
  induction l as [|[raw t] l IH]; intros H; [reflexivity|].
  cbn [take_lines_x take_lines]. rewrite IH by (intros raw' HI; apply H; now right).
  destruct t; cbn [negb andb]; [now rewrite andb_true_r|].
  destruct (N.eqb_spec (lengthN raw) max_token) as [E|E].
  - exfalso. apply (H raw); [now left|exact E].
  - now rewrite andb_true_r.
Qed.

Lemma raw_lines_unterminated s :
  forall cur raw, In (raw, false) (raw_lines cur s) ->
  exists pre l, s = pre ++ l /\ ~ In c_lf l /\
    ((pre = [] /\ raw = rev cur ++ l) \/ ((exists p, pre = p ++ [c_lf]) /\ raw = l)).
Proof.
  induction s as [|c r IH]; intros cur raw HI.
  - cbn [raw_lines] in HI. exists [], []. split; [reflexivity|]. split; [intros []|]. left.
    split; [reflexivity|]. rewrite app_nil_r.
    destruct cur as [|y cur]; [destruct HI|].
    destruct HI as [HI|[]]. now injection HI as <-.
  - cbn [raw_lines] in HI. destruct (N.eqb_spec c c_lf) as [E|E].
    + destruct HI as [HI|HI]; [discriminate HI|].
      destruct (IH _ _ HI) as (pre & l & -> & HN & HC). subst c.
      exists (c_lf :: pre), l. split; [reflexivity|]. split; [exact HN|]. right.
      destruct HC as [[-> HR]|[(p & ->) HR]]; cbn [rev app] in HR; subst raw.
      * split; [now exists []|reflexivity].
      * split; [now exists (c_lf :: p)|reflexivity].
    + destruct (IH _ _ HI) as (pre & l & -> & HN & HC).
      destruct HC as [[-> HR]|[(p & ->) HR]].
      * exists [], (c :: l). split; [reflexivity|]. split.
        -- intros [HX|HX]; [now apply E|now apply HN].
        -- left. split; [reflexivity|]. rewrite HR. cbn [rev]. now rewrite <- app_assoc.
      * exists (c :: p ++ [c_lf]), l. split; [reflexivity|]. split; [exact HN|]. right.
        split; [now exists (c :: p)|exact HR].
Qed.

Lemma spec_result_x_true seen e :
  ~ ends_in_exact_line seen -> spec_result_x true seen e = spec_result seen e.
Proof.
  intros H. unfold spec_result_x, spec_result. rewrite take_lines_x_eq; [reflexivity|].
  intros raw HI HL. apply H.
  destruct (raw_lines_unterminated _ _ _ HI) as (pre & l & -> & HN & HC).
  exists pre, l. cbn [rev app] in HC.
  destruct HC as [[-> ->]|[HP ->]]; repeat split; try assumption; [now left|now right].
Qed.

(** the strongest true variant of [scan_chunking_independent] for such readers *)
Theorem glued_chunking_independent data f cs :
  chunks_glued data f cs -> ~ ends_in_exact_line (delivered data f) ->
  scan_chunks cs = scan data f.
Proof.
  intros H HE. rewrite (scan_chunks_glued _ _ _ H), scan_spec.
  now rewrite spec_result_x_true by exact HE.
Qed.

(** ... and the exception: the 65536-byte final line is delivered, and the scan
    ends as the reader does (in [ScanEOF] without a fault: the parser succeeds),
    where [Model/Scanner.scan] says [ScanTooLong] *)
Theorem glued_exact_line ls l data f cs :
  Forall short_line ls -> ~ In c_lf l -> lengthN l = max_token ->
  delivered data f = terminated ls ++ l ->
  chunks_glued data f cs ->
  scan_chunks cs = (map drop_cr ls ++ [drop_cr l], fault_end f) /\
  scan data f = (map drop_cr ls, ScanTooLong).
Proof.
  intros HL HN HM HD HC. split.
  - rewrite (scan_chunks_glued _ _ _ HC), HD. rewrite spec_result_lines by exact HL.
    rewrite spec_result_last; [reflexivity|exact HN| |now right].
    intros ->. discriminate HM.
  - rewrite scan_spec, HD, <- spec_result_x_false. rewrite spec_result_lines by exact HL.
    rewrite <- (app_nil_r l). rewrite spec_result_too_long; [|exact HN|rewrite HM; apply N.le_refl|now left].
    cbn [fst snd end_proj]. now rewrite app_nil_r.
Qed.

(** every line shorter than 65536 bytes, the last unterminated piece AT MOST
    65536: all delivered *)
Theorem glued_short_lines ls last data f cs :
  Forall short_line ls -> ~ In c_lf last -> lengthN last <= max_token ->
  delivered data f = terminated ls ++ last ->
  chunks_glued data f cs ->
  scan_chunks cs = (map drop_cr ls ++ match last with [] => [] | _ => [drop_cr last] end, fault_end f).
Proof.
  intros HL HN HM HD HC. rewrite (scan_chunks_glued _ _ _ HC), HD.
  rewrite spec_result_lines by exact HL.
  destruct last as [|c last].
  - now rewrite spec_result_nil.
  - rewrite spec_result_last; [reflexivity|exact HN|discriminate|].
    apply N.le_lteq in HM. destruct HM; [now left|now right].
Qed.

(** a raw line of more than 65536 bytes, or of 65536 followed by anything: [ScanTooLong] as ever *)
Theorem glued_long_line ls long rest data f cs :
  Forall short_line ls -> ~ In c_lf long -> max_token <= lengthN long ->
  rest <> [] \/ max_token < lengthN long ->
  delivered data f = terminated ls ++ long ++ rest ->
  chunks_glued data f cs ->
  scan_chunks cs = (map drop_cr ls, ScanTooLong).
Proof.
  intros HL HN HM HR HD HC. rewrite (scan_chunks_glued _ _ _ HC), HD.
  rewrite spec_result_lines by exact HL.
  rewrite spec_result_too_long; [|exact HN|exact HM|now right].
  cbn [fst snd end_proj]. now rewrite app_nil_r.
Qed.

(** a failing reader of this kind still never ends in [ScanEOF] *)
Theorem glued_read_error_not_eof data k cs :
  chunks_glued data (FailAt k) cs -> snd (scan_chunks cs) <> ScanEOF.
Proof.
  intros H. rewrite (scan_chunks_glued _ _ _ H). cbn [snd fault_end]. unfold spec_result_x.
  destruct (take_lines_x true (raw_lines [] (delivered data (FailAt k)))) as [ls [|]]; discriminate.
Qed.
