(** WP18 / C18, part 3: non-vacuity examples on the [ZNum] instance. *)
From Coq Require Import List Arith Lia ZArith.
From HP Require Import Base.Bytes Base.Num Model.Scanner Model.Parser Model.Channel.
From HP Require Import Proofs.ChannelLTS Proofs.ChannelStream.
Import ListNotations.
Local Open Scope nat_scope.
Local Open Scope list_scope.

(** the brief's input: the syntax error on line 3 is met while record "a" is
    still open, so the callback parser reports the error BEFORE any record *)
Definition ex_early : bytes := b "a
  x 1
  bad
b
  y 2
".

(** a record is complete before the bad line is met *)
Definition ex_late : bytes := b "a
  x 1
b
  y 2
  bad
c
  z 3
".

Definition ex_clean : bytes := b "a
  x 1
b
  y 2
".

Definition node_a : pnode ZNum := Build_pnode ZNum (b "a") [(b "x", 1%Z)] None.
Definition node_b : pnode ZNum := Build_pnode ZNum (b "b") [(b "y", 2%Z)] None.
Definition bad3 : cherr := ChParse (BadSyntax 3 (b "  bad")).
Definition bad5 : cherr := ChParse (BadSyntax 5 (b "  bad")).

Example ex_early_sends : stream_sends ZNum ex_early NoFault = [MErr bad3; MDone].
Proof. vm_compute. reflexivity. Qed.

Example ex_early_callback : callback_result ZNum ex_early NoFault = ([], Some (inl (BadSyntax 3 (b "  bad")))).
Proof. vm_compute. reflexivity. Qed.

Example ex_early_spec_stop : spec ZNum StopAtFirstError (stream_sends ZNum ex_early NoFault) = [MErr bad3].
Proof. vm_compute. reflexivity. Qed.

Example ex_early_spec_drain : spec ZNum DrainUntilDone (stream_sends ZNum ex_early NoFault) = [MErr bad3; MDone].
Proof. vm_compute. reflexivity. Qed.

Example ex_late_sends : stream_sends ZNum ex_late NoFault = [MNode node_a; MErr bad5; MDone].
Proof. vm_compute. reflexivity. Qed.

Example ex_late_callback : callback_result ZNum ex_late NoFault = ([node_a], Some (inl (BadSyntax 5 (b "  bad")))).
Proof. vm_compute. reflexivity. Qed.

Example ex_late_events :
  events ZNum ex_late =
  [ENode node_a; EErr (BadSyntax 5 (b "  bad")); ENode node_b;
   ENode (Build_pnode ZNum (b "c") [(b "z", 3%Z)] None)].
Proof. vm_compute. reflexivity. Qed.

Example ex_late_spec_stop :
  spec ZNum StopAtFirstError (stream_sends ZNum ex_late NoFault) = [MNode node_a; MErr bad5].
Proof. vm_compute. reflexivity. Qed.

Example ex_late_spec_drain :
  spec ZNum DrainUntilDone (stream_sends ZNum ex_late NoFault) = [MNode node_a; MErr bad5; MDone].
Proof. vm_compute. reflexivity. Qed.

Example ex_late_run_consumer :
  run_consumer ZNum StopAtFirstError (stream_sends ZNum ex_late NoFault) = ([MNode node_a; MErr bad5], [MDone]).
Proof. vm_compute. reflexivity. Qed.

Example ex_clean_sends : stream_sends ZNum ex_clean NoFault = [MNode node_a; MNode node_b; MDone].
Proof. vm_compute. reflexivity. Qed.

(** a reader that fails after 12 bytes: the records of the loop, not the open
    last record, then the scanner's error *)
Example ex_fault_sends : stream_sends ZNum ex_clean (FailAt 12) = [MNode node_a; MErr (ChScan ScanReadErr); MDone].
Proof. vm_compute. reflexivity. Qed.

Example ex_fault_callback : callback_result ZNum ex_clean (FailAt 12) = ([node_a], Some (inr ScanReadErr)).
Proof. vm_compute. reflexivity. Qed.

(** ** concrete schedules *)

Ltac rendezvous :=
  eapply steps_S; [ eapply step_rendezvous; reflexivity | cbn ].
Ltac prod_tau :=
  eapply steps_S; [ eapply step_prod_tau; reflexivity | cbn ].
Ltac cons_tau :=
  eapply steps_S; [ eapply step_cons_tau; reflexivity | cbn ].

(** documented loop on [ex_late], budgets 1/1: rendezvous (record a), consumer
    τ, rendezvous (the error: the consumer returns), producer τ.  The end
    state is maximal, the consumer has returned having seen the record and the
    error; the producer is left with the unsent [MDone]. *)
Example ex_late_schedule_stop :
  exists s,
    steps ZNum StopAtFirstError 4 (init ZNum (stream_sends ZNum ex_late NoFault) 1 1) s /\
    maximal ZNum StopAtFirstError s /\
    cons ZNum s = Returned /\
    obs ZNum s = [MNode node_a; MErr bad5] /\
    pending ZNum s = [MDone].
Proof.
  rewrite ex_late_sends. eexists. split.
  - unfold init. rendezvous. cons_tau. rendezvous. prod_tau. apply steps_O.
  - split; [apply final_maximal; split; [reflexivity | left; reflexivity]|].
    repeat split.
Qed.

(** the hypotheses of the end-to-end theorem are met by that schedule, and its
    conclusion is the same observation *)
Example ex_late_end_to_end :
  forall pt ct s,
    reachable ZNum StopAtFirstError (init ZNum (stream_sends ZNum ex_late NoFault) pt ct) s ->
    maximal ZNum StopAtFirstError s ->
    cons ZNum s = Returned /\ obs ZNum s = [MNode node_a; MErr bad5] /\ pending ZNum s = [MDone].
Proof.
  intros pt ct s H Hmax.
  destruct (documented_loop_end_to_end ZNum _ _ _ _ _ H Hmax) as [Hc [Ho Hp]].
  rewrite ex_late_callback in Ho, Hp. auto.
Qed.

(** draining consumer on [ex_late], budgets 0/0: three rendezvous *)
Example ex_late_schedule_drain :
  exists s,
    steps ZNum DrainUntilDone 3 (init ZNum (stream_sends ZNum ex_late NoFault) 0 0) s /\
    maximal ZNum DrainUntilDone s /\
    cons ZNum s = Returned /\
    obs ZNum s = [MNode node_a; MErr bad5; MDone] /\
    pending ZNum s = [] /\
    count_errs ZNum (obs ZNum s) = 1.
Proof.
  rewrite ex_late_sends. eexists. split.
  - unfold init. rendezvous. rendezvous. rendezvous. apply steps_O.
  - split; [apply final_maximal; split; [reflexivity | left; reflexivity]|].
    repeat split.
Qed.

(** a different interleaving (budgets 2/1, τ steps first) ends with the same
    observation, as [any_schedule_same_observation] says it must *)
Example ex_late_schedule_drain' :
  exists s,
    steps ZNum DrainUntilDone 6 (init ZNum (stream_sends ZNum ex_late NoFault) 2 1) s /\
    maximal ZNum DrainUntilDone s /\
    obs ZNum s = [MNode node_a; MErr bad5; MDone].
Proof.
  rewrite ex_late_sends. eexists. split.
  - unfold init. prod_tau. cons_tau. rendezvous. prod_tau. rendezvous. rendezvous. apply steps_O.
  - split; [apply final_maximal; split; [reflexivity | left; reflexivity] | reflexivity].
Qed.

(** [ParseFile] on an unreadable path (after F23: the error, then Done), draining
    consumer: two rendezvous, the consumer has returned, the producer has exited *)
Example ex_unreadable_sends : file_sends ZNum None = [MErr ChIO; MDone].
Proof. reflexivity. Qed.

Example ex_unreadable_drain :
  exists s,
    steps ZNum DrainUntilDone 2 (init ZNum (file_sends ZNum None) 0 0) s /\
    maximal ZNum DrainUntilDone s /\ ~ deadlocked ZNum s /\ cons ZNum s = Returned /\
    obs ZNum s = [MErr ChIO; MDone] /\ pending ZNum s = [] /\ count_errs ZNum (obs ZNum s) = 1.
Proof.
  eexists. split.
  - unfold init, file_sends. rendezvous. rendezvous. apply steps_O.
  - split; [apply final_maximal; split; [reflexivity | left; reflexivity]|].
    split; [intros [Hc _]; discriminate|]. repeat split.
Qed.

(** another interleaving (budgets 1/2) of the same: the hypotheses of
    [drain_unreadable_file_terminates] are met, its conclusion is that observation *)
Example ex_unreadable_drain' :
  exists s,
    steps ZNum DrainUntilDone 5 (init ZNum (file_sends ZNum None) 1 2) s /\
    maximal ZNum DrainUntilDone s /\ cons ZNum s = Returned /\ obs ZNum s = [MErr ChIO; MDone].
Proof.
  eexists. split.
  - unfold init, file_sends. cons_tau. rendezvous. prod_tau. cons_tau. rendezvous. apply steps_O.
  - split; [apply final_maximal; split; [reflexivity | left; reflexivity]|].
    repeat split.
Qed.

Example ex_unreadable_drain_end_to_end :
  forall pt ct s,
    reachable ZNum DrainUntilDone (init ZNum (file_sends ZNum None) pt ct) s ->
    maximal ZNum DrainUntilDone s ->
    cons ZNum s = Returned /\ obs ZNum s = [MErr ChIO; MDone] /\ pending ZNum s = [] /\ ~ deadlocked ZNum s.
Proof. exact (drain_unreadable_file_terminates ZNum). Qed.

(** same path, documented loop: returns on the error; the producer keeps the
    [MDone] it cannot deliver (as after every [ParseStream] error) *)
Example ex_unreadable_stop :
  exists s,
    steps ZNum StopAtFirstError 1 (init ZNum (file_sends ZNum None) 0 0) s /\
    maximal ZNum StopAtFirstError s /\ cons ZNum s = Returned /\ obs ZNum s = [MErr ChIO] /\
    pending ZNum s = [MDone].
Proof.
  eexists. split.
  - unfold init, file_sends. rendezvous. apply steps_O.
  - split; [apply final_maximal; split; [reflexivity | left; reflexivity]|].
    repeat split.
Qed.

(** [drain_file] on a readable file with a late syntax error *)
Example ex_late_drain_file :
  forall pt ct s,
    reachable ZNum DrainUntilDone (init ZNum (file_sends ZNum (Some (ex_late, NoFault))) pt ct) s ->
    maximal ZNum DrainUntilDone s ->
    cons ZNum s = Returned /\ pending ZNum s = [] /\ obs ZNum s = [MNode node_a; MErr bad5; MDone].
Proof.
  intros pt ct s H Hmax.
  destruct (drain_file ZNum _ _ _ _ H Hmax) as [Hc [Hp [Ho _]]].
  cbn [file_sends] in Ho. rewrite ex_late_sends in Ho. auto.
Qed.
