(** WP20 (assembly) - non-vacuity of the end-to-end balance theorems: a log
    with entries out of name order, a name logged twice and chains of single
    children of different lengths (so that the three display modes print
    different rows), the reversing map-order oracle. *)
From Coq Require Import Lia ZArith Sorted Permutation.
From HP Require Import Base.Bytes Base.Num Model.Elements Model.Tree Model.Reporters.
From HP Require Import Spec.TreeShared Spec.TreeSpec Spec.BalancePrintSpec.
From HP Require Import Proofs.TreeChain Proofs.TreeExamples Proofs.AssemblyBalance.

Definition exA : list (bytes * Z) :=
  [(b "x/y", 8%Z); (b "a/e/f", 4%Z); (b "a/b/d", 2%Z); (b "a/b/c", 1%Z); (b "m/n/o/p", 32%Z); (b "a/b/c", 16%Z)].

Example exA_prefix_free : prefix_free ZNum exA.
Proof. apply prefix_freeb_iff. vm_compute. reflexivity. Qed.

(** the rows of the three modes differ ... *)
Example exA_rows :
  balance_rows ZNum (@rev bytes) false false (built exA)
  = [(23%Z, 0, b "a"); (19%Z, 1, b "b"); (17%Z, 2, b "c"); (2%Z, 2, b "d"); (4%Z, 1, b "e"); (4%Z, 2, b "f");
     (32%Z, 0, b "m"); (32%Z, 1, b "n"); (32%Z, 2, b "o"); (32%Z, 3, b "p"); (8%Z, 0, b "x"); (8%Z, 1, b "y")]%nat /\
  balance_rows ZNum (@rev bytes) false true (built exA)
  = [(23%Z, 0, b "a"); (19%Z, 1, b "b"); (17%Z, 2, b "c"); (2%Z, 2, b "d"); (4%Z, 1, b "e/f");
     (32%Z, 0, b "m"); (32%Z, 1, b "n"); (32%Z, 2, b "o/p"); (8%Z, 0, b "x/y")]%nat /\
  balance_rows ZNum (@rev bytes) true false (built exA)
  = [(23%Z, 0, b "a"); (19%Z, 1, b "b"); (17%Z, 2, b "c"); (2%Z, 2, b "d"); (4%Z, 1, b "e/f");
     (32%Z, 0, b "m/n/o/p"); (8%Z, 0, b "x/y")]%nat.
Proof. vm_compute. repeat split; reflexivity. Qed.

(** ... their leaves do not: by the theorem (hypotheses met), and the common
    list computed: the logged names, sorted, "a/b/c" once with 1 + 16 *)
Definition exA_leaves : list (list bytes * Z) :=
  [([b "a"; b "b"; b "c"], 17%Z); ([b "a"; b "b"; b "d"], 2%Z); ([b "a"; b "e"; b "f"], 4%Z);
   ([b "m"; b "n"; b "o"; b "p"], 32%Z); ([b "x"; b "y"], 8%Z)].

Example exA_same_leaves_by_theorem : forall collapse collapse_last,
  leaf_rows ZNum (balance_rows ZNum (@rev bytes) collapse collapse_last (built exA)) = exA_leaves.
Proof.
  intros collapse cl.
  destruct (balance_modes_same_leaves ZNum exA (@rev bytes) rev_is_perm exA_prefix_free) as [H _].
  rewrite H. vm_compute. reflexivity.
Qed.

Example exA_leaf_amount_by_theorem :
  In ([b "a"; b "b"; b "c"], 17%Z) (tree_leaves ZNum (order_tree ZNum (@rev bytes) (built exA))).
Proof.
  destruct (balance_modes_same_leaves ZNum exA (@rev bytes) rev_is_perm exA_prefix_free) as (_ & _ & _ & H).
  apply H. split; [exists (b "a/b/c"), 1%Z; split; [vm_compute; tauto|vm_compute; reflexivity]|vm_compute; reflexivity].
Qed.

(** no logged food is dropped in collapsed mode, although "m", "m/n", "m/n/o" have no row of their own *)
Example exA_never_drops_by_theorem :
  In [b "m"; b "n"; b "o"; b "p"] (all_paths ZNum (balance_rows ZNum (@rev bytes) true false (built exA))) /\
  In [b "m"; b "n"] (all_paths ZNum (balance_rows ZNum (@rev bytes) true false (built exA))).
Proof.
  split.
  - apply (balance_never_drops_a_logged_food ZNum exA (@rev bytes) true false rev_is_perm (b "m/n/o/p") 32%Z).
    vm_compute. tauto.
  - apply (balance_visible_paths ZNum exA (@rev bytes) true false rev_is_perm). split; [discriminate|].
    exists (b "m/n/o/p"), 32%Z. split; [vm_compute; tauto|vm_compute; reflexivity].
Qed.

(** plain mode read back: every category path with its total, in order *)
Example exA_plain_decoded :
  map (fun '(p, x, _) => (p, x)) (decode ZNum (balance_rows ZNum (@rev bytes) false false (built exA)))
  = [([b "a"], 23%Z); ([b "a"; b "b"], 19%Z); ([b "a"; b "b"; b "c"], 17%Z); ([b "a"; b "b"; b "d"], 2%Z);
     ([b "a"; b "e"], 4%Z); ([b "a"; b "e"; b "f"], 4%Z);
     ([b "m"], 32%Z); ([b "m"; b "n"], 32%Z); ([b "m"; b "n"; b "o"], 32%Z); ([b "m"; b "n"; b "o"; b "p"], 32%Z);
     ([b "x"], 8%Z); ([b "x"; b "y"], 8%Z)]
  /\ total_at ZNum exA [b "a"; b "b"] = 19%Z.
Proof. vm_compute. split; reflexivity. Qed.

(** without [prefix_free] (log [a:1, a/b:2], [ex4] of Proofs/TreeExamples.v):
    before fix 3cc3ec3 the two collapsing modes showed the leaf [a/b] with 3
    (the category's total under the sub-category's path; the example
    [ex4_modes_differ] recorded 2 / 3 / 3); now the category [a], which has an
    entry of its own, keeps its row and all modes show the leaf with 2 *)
Example ex4_not_prefix_free : ~ prefix_free ZNum ex4.
Proof. intros H. apply prefix_freeb_iff in H. vm_compute in H. discriminate. Qed.

Example ex4_modes_agree_after_fix :
  leaf_rows ZNum (balance_rows ZNum (@rev bytes) false false (built ex4)) = [([b "a"; b "b"], 2%Z)] /\
  leaf_rows ZNum (balance_rows ZNum (@rev bytes) true false (built ex4)) = [([b "a"; b "b"], 2%Z)] /\
  leaf_rows ZNum (balance_rows ZNum (@rev bytes) false true (built ex4)) = [([b "a"; b "b"], 2%Z)] /\
  balance_rows ZNum (@rev bytes) true false (built ex4) = [(3%Z, 0, b "a"); (2%Z, 1, b "b")]%nat /\
  balance_rows ZNum (@rev bytes) false true (built ex4) = [(3%Z, 0, b "a"); (2%Z, 1, b "b")]%nat.
Proof. vm_compute. repeat split; reflexivity. Qed.

(** by the theorem that needs no [prefix_free] (exact numbers) *)
Example ex4_same_leaves_by_theorem : forall collapse collapse_last,
  leaf_rows ZNum (balance_rows ZNum (@rev bytes) collapse collapse_last (built ex4)) =
  leaf_rows ZNum (balance_rows ZNum (@rev bytes) false false (built ex4)).
Proof.
  intros collapse cl.
  destruct (balance_modes_same_leaves_any_log ZNum ex4 (@rev bytes) rev_is_perm) as [_ H].
  rewrite !(H BalancePrint.ZNum_go_eq_is_eq). reflexivity.
Qed.

(** the log of the fix: every mode, every visible category path with its specified total *)
Example fix_log_collapsed_rows :
  balance_rows ZNum (@rev bytes) true false (built BalancePrint.fix_log) =
  [(3%Z, 0, b "coffee"); (2%Z, 1, b "latte/large"); (3%Z, 0, b "milk"); (2%Z, 1, b "whole");
   (4%Z, 0, b "tea/green/cup")]%nat /\
  total_at ZNum BalancePrint.fix_log [b "coffee"; b "latte"] = 2%Z /\
  total_at ZNum BalancePrint.fix_log [b "coffee"] = 3%Z.
Proof. vm_compute. repeat split; reflexivity. Qed.

Example fix_log_joined_row_by_theorem :
  go_eq_chain ZNum 2%Z (total_at ZNum BalancePrint.fix_log [b "coffee"; b "latte"; b "large"]).
Proof.
  apply (balance_joined_row_totals ZNum BalancePrint.fix_log (@rev bytes) true false rev_is_perm
           [b "coffee"] [b "latte"; b "large"] 2%Z).
  - vm_compute. tauto.
  - vm_compute. tauto.
Qed.

Example ex4_still_visible : forall collapse collapse_last,
  In [b "a"] (all_paths ZNum (balance_rows ZNum (@rev bytes) collapse collapse_last (built ex4))).
Proof.
  intros collapse cl.
  apply (balance_never_drops_a_logged_food ZNum ex4 (@rev bytes) collapse cl rev_is_perm (b "a") 1%Z).
  vm_compute. tauto.
Qed.
