(** WP04 / C09, stretch -- [MalformedSyntax.lint_on_rendered] with its premise
    discharged by WP03's theorem [ParserRoundtrip.parse_render_roundtrip]
    (this file, unlike the others of WP04, depends on WP03's files). *)
From HP Require Import Base.Bytes Base.Utf8 Base.Num Model.Scanner Model.Parser Model.Elements Model.Resolver
  Model.Dates Model.Tree Model.Writer Model.Reporters Model.Cli Model.Syntax.
From HP Require Import Proofs.ParserScan Proofs.ParserRoundtrip.
From HP Require Import Proofs.MalformedBase Proofs.MalformedLint Proofs.MalformedBook Proofs.MalformedSyntax.
Open Scope N_scope.

Theorem lint_on_rendered_closed :
  forall (NM : Num) (w : world) (file : bytes) (f : Syntax.file) (silent : bool),
  wf_file NM f = true -> short_lines f ->
  file <> [] ->
  file <> dev_null ->
  lookup file (w_fs w) = Some (FFile (render f)) ->
  lookup file (w_read_fault w) = None ->
  w_sink w = None ->
  run_lint NM w file silent =
    {| out_stdout := concat (map (fun e => perr_message e ++ [c_lf]) (file_errors f))
                     ++ (if (is_nil (file_errors f) && negb silent)%bool
                         then b "No errors found" ++ [c_lf] else []);
       out_status := Ok |}.
Proof.
  intros NM w file f silent Hwf Hs Hne Hnd Hfs Hrf Hsink.
  apply (lint_on_rendered NM short_lines (parse_render_roundtrip NM)); try assumption.
  unfold readable. apply (short_lines_exact NM f Hwf). exact Hs.
Qed.

Theorem resolved_db_on_rendered_closed :
  forall (NM : Num) (w : world) (op : options) (f : Syntax.file) (e : perr) (es : list perr),
  wf_file NM f = true -> short_lines f ->
  file_errors f = e :: es ->
  resolved_db NM w op (OData (render f) NoFault) = inl (EParse (perr_message e)).
Proof.
  intros NM w op f e es Hwf Hs He.
  exact (resolved_db_on_rendered NM short_lines (parse_render_roundtrip NM) w op f e es Hwf Hs He).
Qed.

(** a six-line file: comment, blank, heading, and two malformed entries (YAML-style dashes, CRLF on one line) *)
Definition f6 : Syntax.file :=
  {| f_items := [(IComment (b " diary"), false); (IBlank [], false); (IHeading (b "2024/01/01") (b ":"), true);
                 (IBadNoSep (b "  - ") (b "apple"), false);
                 (IEntry (b "  - ") (b "bread") (b ": ") (b "2") [], false);
                 (IBadNum (b "  - ") (b "milk") (b ": ") (b "x2") [], false)];
     f_final_newline := false |}.

Definition w6 : world :=
  {| w_fs := [(b "log.yaml", FFile (render f6))]; w_default_config := b "/c"; w_tz := 0%Z;
     w_clock := time_of_civil (2000, 1, 1)%Z;
     w_or := {| o_resolve := fun l => l; o_day := fun _ l => l; o_flush := fun l => l |};
     w_sink := None; w_read_fault := [] |}.

Example ex_lint_on_rendered :
  run_lint ZNum w6 (b "log.yaml") false
  = {| out_stdout := b "bad syntax on line 4, ""  - apple""." ++ [c_lf]
                     ++ b "error converting ""x2"" to float on line 6 ""  - milk: x2""." ++ [c_lf];
       out_status := Ok |}.
Proof.
  assert (Hwf : wf_file ZNum f6 = true) by (vm_compute; reflexivity).
  rewrite (lint_on_rendered_closed ZNum w6 (b "log.yaml") f6 false Hwf).
  - vm_compute. reflexivity.
  - apply (short_lines_exact ZNum f6 Hwf). vm_compute. reflexivity.
  - discriminate.
  - intro H; vm_compute in H; discriminate H.
  - reflexivity.
  - reflexivity.
  - reflexivity.
Qed.

Print Assumptions lint_on_rendered_closed.
Print Assumptions ex_lint_on_rendered.
