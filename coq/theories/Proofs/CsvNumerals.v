(** WP14 / C13: decimal numerals ([dec_of_N] is correct), ISO dates, and the
    fixed-precision rendering of binary64 amounts. *)
From Coq Require Import Lia ZifyBool ZifyNat ZifyN.
From Coq Require Import Floats.SpecFloat.
From HP Require Import Base.Bytes Base.Num Base.GoFloat Model.Dates Model.Reporters.

(** * [dec_of_N] *)
Section Dec.
Open Scope N_scope.

Lemma ddf_unfold : forall f n acc,
  dec_digits_fuel (S f) n acc
  = if n / 10 =? 0 then (48 + n mod 10) :: acc else dec_digits_fuel f (n / 10) ((48 + n mod 10) :: acc).
Proof. reflexivity. Qed.

Lemma ddf_acc : forall f n acc, dec_digits_fuel f n acc = dec_digits_fuel f n [] ++ acc.
Proof.
  induction f as [|f IH]; intros n acc; [reflexivity|].
  rewrite !ddf_unfold. destruct (n / 10 =? 0); [reflexivity|].
  rewrite IH. rewrite (IH _ [_]). rewrite <- app_assoc. reflexivity.
Qed.

Lemma div10_lt_pow : forall n f, n < 2 ^ N.of_nat (S f) -> n / 10 < 2 ^ N.of_nat f.
Proof.
  intros n f H. rewrite Nat2N.inj_succ, N.pow_succ_r' in H.
  apply N.div_lt_upper_bound; lia.
Qed.

Lemma ddf_fuel : forall f f' n, n < 2 ^ N.of_nat f -> n < 2 ^ N.of_nat f' ->
  dec_digits_fuel (S f) n [] = dec_digits_fuel (S f') n [].
Proof.
  induction f as [|f IH]; intros f' n H H'.
  - change (2 ^ N.of_nat 0) with 1 in H. assert (n = 0) by lia. subst n.
    rewrite !ddf_unfold. reflexivity.
  - rewrite (ddf_unfold (S f) n), (ddf_unfold f' n). destruct (n / 10 =? 0) eqn:E; [reflexivity|].
    destruct f' as [|g'].
    + change (2 ^ N.of_nat 0) with 1 in H'. assert (n = 0) by lia. subst n. discriminate.
    + rewrite ddf_acc. rewrite (ddf_acc (S g')). f_equal.
      apply IH; apply div10_lt_pow; assumption.
Qed.

Lemma dec_of_N_small : forall n, n < 10 -> dec_of_N n = [48 + n].
Proof.
  intros n H. unfold dec_of_N. rewrite ddf_unfold.
  rewrite N.div_small by exact H. rewrite N.mod_small by exact H. reflexivity.
Qed.

Lemma dec_of_N_step : forall n, 10 <= n -> dec_of_N n = dec_of_N (n / 10) ++ [48 + n mod 10].
Proof.
  intros n H. unfold dec_of_N. rewrite (ddf_unfold _ n).
  assert (Q : n / 10 <> 0).
  { intros E. apply N.div_small_iff in E; lia. }
  apply N.eqb_neq in Q. rewrite Q.
  pose proof (N.size_gt n) as G.
  destruct (N.to_nat (N.size n)) as [|k] eqn:K.
  - assert (N.size n = 0) by lia. rewrite H0 in G. change (2 ^ 0) with 1 in G. lia.
  - rewrite ddf_acc. f_equal.
    apply ddf_fuel.
    + apply div10_lt_pow. rewrite <- K. rewrite N2Nat.id. exact G.
    + rewrite N2Nat.id. apply N.size_gt.
Qed.

(** induction along the decimal digits *)
Lemma dec_ind : forall P : N -> Prop,
  (forall n, n < 10 -> P n) -> (forall n, 10 <= n -> P (n / 10) -> P n) -> forall n, P n.
Proof.
  intros P H0 HS n. induction n as [n IH] using (well_founded_induction N.lt_wf_0).
  destruct (N.ltb_spec n 10) as [L|L].
  - apply H0. exact L.
  - apply HS; [exact L|]. apply IH. apply N.div_lt; lia.
Qed.

Lemma digits_val_app : forall s t acc,
  digits_val (s ++ t) acc = match digits_val s acc with Some v => digits_val t v | None => None end.
Proof.
  induction s as [|c s IH]; intros t acc; [reflexivity|].
  cbn [app digits_val]. destruct (is_digit c); [apply IH|reflexivity].
Qed.

Lemma is_digit_48 : forall d, d < 10 -> is_digit (48 + d) = true.
Proof. intros d H. unfold is_digit. lia. Qed.

(** the numeral consists of digits ... *)
Lemma dec_of_N_digits : forall n, forallb is_digit (dec_of_N n) = true.
Proof.
  apply dec_ind.
  - intros n H. rewrite dec_of_N_small by exact H. cbn [forallb]. rewrite is_digit_48 by exact H. reflexivity.
  - intros n H IH. rewrite dec_of_N_step by exact H. rewrite forallb_app, IH. cbn [forallb].
    rewrite is_digit_48; [reflexivity|]. apply N.mod_lt. lia.
Qed.

(** ... whose value is [n] ... *)
Lemma dec_of_N_value : forall n, digits_val (dec_of_N n) 0 = Some n.
Proof.
  apply dec_ind.
  - intros n H. rewrite dec_of_N_small by exact H. cbn [digits_val]. rewrite is_digit_48 by exact H.
    f_equal. lia.
  - intros n H IH. rewrite dec_of_N_step by exact H. rewrite digits_val_app, IH.
    cbn [digits_val]. rewrite is_digit_48 by (apply N.mod_lt; lia). f_equal.
    pose proof (N.div_mod n 10). lia.
Qed.

(** ... it is never empty and has no leading zero except for 0 itself *)
Lemma dec_of_N_head : forall n, exists c r, dec_of_N n = c :: r /\ (n <> 0 -> c <> 48).
Proof.
  apply dec_ind.
  - intros n H. rewrite dec_of_N_small by exact H. exists (48 + n), []. split; [reflexivity|lia].
  - intros n H (c & r & E & Hc). rewrite dec_of_N_step by exact H. rewrite E.
    exists c, (r ++ [48 + n mod 10]). split; [reflexivity|]. intros _. apply Hc.
    intros Z. apply N.div_small_iff in Z; lia.
Qed.

Lemma dec_of_N_length_pos : forall n, (1 <= length (dec_of_N n))%nat.
Proof. intros n. destruct (dec_of_N_head n) as (c & r & E & _). rewrite E. cbn [length]. lia. Qed.

(** explicit forms up to four digits *)
Lemma dec_of_N_2 : forall n, 10 <= n < 100 -> dec_of_N n = [48 + n / 10; 48 + n mod 10].
Proof.
  intros n H. rewrite dec_of_N_step by lia. rewrite dec_of_N_small; [reflexivity|].
  apply N.div_lt_upper_bound; lia.
Qed.

Lemma dec_of_N_3 : forall n, 100 <= n < 1000 ->
  dec_of_N n = [48 + n / 100; 48 + (n / 10) mod 10; 48 + n mod 10].
Proof.
  intros n H. rewrite dec_of_N_step by lia. rewrite dec_of_N_2.
  - rewrite N.div_div by lia. reflexivity.
  - split; [apply N.div_le_lower_bound; lia|apply N.div_lt_upper_bound; lia].
Qed.

Lemma dec_of_N_4 : forall n, 1000 <= n < 10000 ->
  dec_of_N n = [48 + n / 1000; 48 + (n / 100) mod 10; 48 + (n / 10) mod 10; 48 + n mod 10].
Proof.
  intros n H. rewrite dec_of_N_step by lia. rewrite dec_of_N_3.
  - rewrite !N.div_div by lia. reflexivity.
  - split; [apply N.div_le_lower_bound; lia|apply N.div_lt_upper_bound; lia].
Qed.
End Dec.

(** * ISO dates *)
Section Iso.
Open Scope Z_scope.

(** the [k]-th decimal digit (from the right, 0-based) of [v] as an ASCII byte *)
Definition digit_at (v : Z) (k : Z) : N := (48 + Z.to_N ((v / 10 ^ k) mod 10))%N.

Lemma to_N_div : forall v k, 0 <= v -> 0 < k -> Z.to_N (v / k) = (Z.to_N v / Z.to_N k)%N.
Proof. intros v k Hv Hk. rewrite Z2N.inj_div by lia. reflexivity. Qed.

Lemma to_N_mod : forall v k, 0 <= v -> 0 < k -> Z.to_N (v mod k) = (Z.to_N v mod Z.to_N k)%N.
Proof. intros v k Hv Hk. rewrite Z2N.inj_mod by lia. reflexivity. Qed.

Lemma digit_at_N : forall v k, 0 <= v -> 0 <= k ->
  digit_at v k = (48 + (Z.to_N v / Z.to_N (10 ^ k)) mod 10)%N.
Proof.
  intros v k Hv Hk. unfold digit_at.
  assert (0 < 10 ^ k) by (apply Z.pow_pos_nonneg; lia).
  rewrite to_N_mod; [|apply Z.div_pos; lia|lia].
  rewrite to_N_div by lia. reflexivity.
Qed.

Lemma small_div_mod : forall n d : N, (n / d < 10 -> (n / d) mod 10 = n / d)%N.
Proof. intros n d H. apply N.mod_small. exact H. Qed.

Lemma fmt_num_2 : forall v, 0 <= v <= 99 -> fmt_num 2 v = [digit_at v 1; digit_at v 0].
Proof.
  intros v H. unfold fmt_num. rewrite !digit_at_N by lia.
  change (Z.to_N (10 ^ 1)) with 10%N. change (Z.to_N (10 ^ 0)) with 1%N. rewrite N.div_1_r.
  set (n := Z.to_N v). assert (Hn : (n <= 99)%N) by lia. clearbody n.
  destruct (N.ltb_spec n 10) as [L|L].
  - rewrite dec_of_N_small by exact L. cbn [length Nat.sub brepeat app].
    rewrite (N.div_small n 10) by exact L. rewrite (N.mod_small n 10) by exact L. reflexivity.
  - rewrite dec_of_N_2 by lia. cbn [length Nat.sub brepeat app].
    rewrite (N.mod_small (n / 10) 10); [reflexivity|]. apply N.div_lt_upper_bound; lia.
Qed.

Lemma fmt_num_4 : forall v, 0 <= v <= 9999 ->
  fmt_num 4 v = [digit_at v 3; digit_at v 2; digit_at v 1; digit_at v 0].
Proof.
  intros v H. unfold fmt_num. rewrite !digit_at_N by lia.
  change (Z.to_N (10 ^ 3)) with 1000%N. change (Z.to_N (10 ^ 2)) with 100%N.
  change (Z.to_N (10 ^ 1)) with 10%N. change (Z.to_N (10 ^ 0)) with 1%N. rewrite N.div_1_r.
  set (n := Z.to_N v). assert (Hn : (n <= 9999)%N) by lia. clearbody n.
  destruct (N.ltb_spec n 10) as [L1|L1]; [|destruct (N.ltb_spec n 100) as [L2|L2]; [|destruct (N.ltb_spec n 1000) as [L3|L3]]].
  - rewrite dec_of_N_small by exact L1. cbn [length Nat.sub brepeat app].
    rewrite (N.div_small n 1000), (N.div_small n 100), (N.div_small n 10) by lia.
    rewrite (N.mod_small n 10) by lia. reflexivity.
  - rewrite dec_of_N_2 by lia. cbn [length Nat.sub brepeat app].
    rewrite (N.div_small n 1000), (N.div_small n 100) by lia.
    rewrite (N.mod_small (n / 10) 10); [reflexivity|]. apply N.div_lt_upper_bound; lia.
  - rewrite dec_of_N_3 by lia. cbn [length Nat.sub brepeat app].
    rewrite (N.div_small n 1000) by lia.
    rewrite (N.mod_small (n / 100) 10); [reflexivity|]. apply N.div_lt_upper_bound; lia.
  - rewrite dec_of_N_4 by lia. cbn [length Nat.sub brepeat app].
    rewrite (N.mod_small (n / 1000) 10); [reflexivity|]. apply N.div_lt_upper_bound; lia.
Qed.

Lemma digit_at_is_digit : forall v k, is_digit (digit_at v k) = true.
Proof.
  intros v k. unfold digit_at, is_digit.
  pose proof (Z.mod_pos_bound (v / 10 ^ k) 10 ltac:(lia)). lia.
Qed.

(** the decimal expansion the digits stand for *)
Lemma digits_sum_2 : forall v, 0 <= v <= 99 -> v = 10 * ((v / 10 ^ 1) mod 10) + (v / 10 ^ 0) mod 10.
Proof.
  intros v H. change (10 ^ 1) with 10. change (10 ^ 0) with 1. rewrite Z.div_1_r.
  rewrite (Z.mod_small (v / 10)) by (split; [apply Z.div_pos; lia|apply Z.div_lt_upper_bound; lia]).
  pose proof (Z.div_mod v 10). lia.
Qed.

Lemma digits_sum_4 : forall v, 0 <= v <= 9999 ->
  v = 1000 * ((v / 10 ^ 3) mod 10) + 100 * ((v / 10 ^ 2) mod 10) + 10 * ((v / 10 ^ 1) mod 10) + (v / 10 ^ 0) mod 10.
Proof.
  intros v H. change (10 ^ 3) with 1000. change (10 ^ 2) with 100. change (10 ^ 1) with 10. change (10 ^ 0) with 1.
  rewrite Z.div_1_r.
  rewrite (Z.mod_small (v / 1000)) by (split; [apply Z.div_pos; lia|apply Z.div_lt_upper_bound; lia]).
  Z.div_mod_to_equations. lia.
Qed.

(** C13 "dates are ISO formatted": YYYY-MM-DD, ten bytes, '-' at positions 4 and 7, the
    others the decimal digits of year, month and day *)
Theorem dates_iso : forall y m d, 0 <= y <= 9999 -> 1 <= m <= 12 -> 1 <= d <= 31 ->
  format_date iso_date (y, m, d)
  = [digit_at y 3; digit_at y 2; digit_at y 1; digit_at y 0; 45%N;
     digit_at m 1; digit_at m 0; 45%N; digit_at d 1; digit_at d 0]
  /\ y = 1000 * ((y / 10 ^ 3) mod 10) + 100 * ((y / 10 ^ 2) mod 10) + 10 * ((y / 10 ^ 1) mod 10) + (y / 10 ^ 0) mod 10
  /\ m = 10 * ((m / 10 ^ 1) mod 10) + (m / 10 ^ 0) mod 10
  /\ d = 10 * ((d / 10 ^ 1) mod 10) + (d / 10 ^ 0) mod 10.
Proof.
  intros y m d Hy Hm Hd. split; [|split; [|split]].
  - unfold format_date, iso_date. cbn [map concat format_tok].
    rewrite fmt_num_4 by lia. rewrite !fmt_num_2 by lia. reflexivity.
  - apply digits_sum_4. lia.
  - apply digits_sum_2. lia.
  - apply digits_sum_2. lia.
Qed.

(** the model's own date reader ([time.Parse] with the ISO layout) reads the text back *)
Theorem dates_iso_parse_back : forall y m d, 0 <= y <= 9999 -> 1 <= m <= 12 -> 1 <= d <= days_in y m ->
  parse_date iso_date (format_date iso_date (y, m, d)) = Some (y, m, d).
Proof.
  intros y m d Hy Hm Hd.
  assert (Hd31 : 1 <= d <= 31).
  { unfold days_in in Hd. destruct (m =? 2); [destruct (is_leap y)|destruct ((m =? 4) || (m =? 6) || (m =? 9) || (m =? 11))%bool]; lia. }
  destruct (dates_iso y m d Hy Hm Hd31) as (E & Ey & Em & Ed).
  rewrite E. unfold parse_date, iso_date.
  assert (DV : forall v k, digit_val (digit_at v k) = Some ((v / 10 ^ k) mod 10)).
  { intros v k. unfold digit_val. rewrite digit_at_is_digit. unfold digit_at. f_equal.
    pose proof (Z.mod_pos_bound (v / 10 ^ k) 10 ltac:(lia)). lia. }
  cbn [parse_tokens take_digits]. rewrite !DV.
  replace ((((0 * 10 + (y / 10 ^ 3) mod 10) * 10 + (y / 10 ^ 2) mod 10) * 10 + (y / 10 ^ 1) mod 10) * 10 + (y / 10 ^ 0) mod 10) with y by lia.
  replace ((0 * 10 + (m / 10 ^ 1) mod 10) * 10 + (m / 10 ^ 0) mod 10) with m by lia.
  replace ((0 * 10 + (d / 10 ^ 1) mod 10) * 10 + (d / 10 ^ 0) mod 10) with d by lia.
  change (45 =? 32)%N with false. cbv iota. rewrite N.eqb_refl.
  replace ((1 <=? m) && (m <=? 12))%bool with true by lia.
  replace ((1 <=? d) && (d <=? days_in y m))%bool with true by lia.
  reflexivity.
Qed.

Example dates_iso_example : format_date iso_date (2021, 3, 7) = b "2021-03-07".
Proof. vm_compute. reflexivity. Qed.

Example dates_iso_example_year_7 : format_date iso_date (7, 12, 31) = b "0007-12-31".
Proof. vm_compute. reflexivity. Qed.
End Iso.
