(** WP01 – the in-place memoising algorithm of Model/Resolver.v refines the
    reference semantics of Spec/ResolverSpec.v.  For every [Num], every book,
    every depth limit, every visiting order. *)
From Coq Require Import Lia Permutation.
From HP Require Import Base.Bytes Base.Num Model.Elements Model.Resolver Spec.ResolverSpec.
From HP Require Import Proofs.ResolverAssoc Proofs.ResolverRef.
Local Open Scope nat_scope.

Section Refine.
  Context (NM : Num).
  Notation T := (T NM).
  Notation elements := (elements NM).
  Notation db := (db NM).
  Variable B : db.

  Notation reach := (reach NM B).
  Notation refs := (refs NM B).
  Notation ref_node := (ref_node NM B).
  Notation ref_loop := (ref_loop NM).
  Notation resolve_node := (resolve_node NM).
  Notation ingredients_loop := (ingredients_loop NM).
  Notation resolve_all := (resolve_all NM).

  Definition state := (db * memo)%type.

  (** * the invariant that ties the mutated book and the memo to the unmodified book [B] *)
  Definition Inv (st : state) : Prop :=
    same_shadow [] B (fst st) /\
    forall r, match lookup r (snd st) with
              | Some (Done h) =>
                  exists v, lookup r (fst st) = Some v /\ ref_node (S h) r = Some (h, Some v)
              | _ => lookup r (fst st) = lookup r B
              end.

  (** the set of in-progress marks is the same *)
  Definition SameIP (st st' : state) : Prop :=
    forall p, lookup p (snd st') = Some InProgress <-> lookup p (snd st) = Some InProgress.
  (** finished entries are never touched again *)
  Definition DoneMono (st st' : state) : Prop :=
    forall p h, lookup p (snd st) = Some (Done h) -> lookup p (snd st') = Some (Done h).
  (** every recipe in progress refers (transitively) to the name about to be resolved:
      the marks are the call stack *)
  Definition Stack (st : state) (r : bytes) : Prop :=
    forall p, lookup p (snd st) = Some InProgress -> refs p r.
  Definition NoIP (st : state) : Prop := forall p, lookup p (snd st) <> Some InProgress.

  Lemma SameIP_refl : forall st, SameIP st st.
  Proof. intros st p. reflexivity. Qed.
  Lemma SameIP_trans : forall a c d, SameIP a c -> SameIP c d -> SameIP a d.
  Proof. intros a c d H1 H2 p. rewrite (H2 p). apply H1. Qed.
  Lemma DoneMono_refl : forall st, DoneMono st st.
  Proof. intros st p h H. exact H. Qed.
  Lemma DoneMono_trans : forall a c d, DoneMono a c -> DoneMono c d -> DoneMono a d.
  Proof. intros a c d H1 H2 p h H. apply H2. apply H1. exact H. Qed.

  Lemma Inv_init : Inv (B, []).
  Proof. split; [apply same_shadow_refl|]. intros r. reflexivity. Qed.

  Lemma Inv_keys : forall st, Inv st -> keys (fst st) = keys B.
  Proof. intros st [Hs _]. symmetry. eapply same_shadow_keys. exact Hs. Qed.

  Lemma NoIP_init : NoIP (B, []).
  Proof. intros p. cbn. discriminate. Qed.

  Lemma Inv_done : forall st r h,
      Inv st -> lookup r (snd st) = Some (Done h) ->
      exists v, lookup r (fst st) = Some v /\ ref_node (S h) r = Some (h, Some v).
  Proof. intros st r h [_ H] Hm. specialize (H r). rewrite Hm in H. exact H. Qed.

  Lemma Inv_notdone : forall st r,
      Inv st -> (forall h, lookup r (snd st) <> Some (Done h)) -> lookup r (fst st) = lookup r B.
  Proof.
    intros st r [_ H] Hm. specialize (H r).
    destruct (lookup r (snd st)) as [[|h]|]; try exact H. exfalso. eapply Hm. reflexivity.
  Qed.

  Lemma Inv_undefined : forall st r, Inv st -> lookup r (fst st) = None -> lookup r B = None.
  Proof.
    intros st r HI Hd. rewrite <- Hd. symmetry. apply Inv_notdone; [exact HI|].
    intros h Hm. destruct (Inv_done _ _ _ HI Hm) as (v & Hv & _). congruence.
  Qed.

  Lemma Inv_defined : forall st r els, Inv st -> lookup r (fst st) = Some els -> lookup r B <> None.
  Proof.
    intros st r els HI Hd Hn. pose proof (Inv_keys st HI) as Hk.
    apply lookup_none_iff in Hn. rewrite <- Hk in Hn.
    apply lookup_none_iff in Hn. congruence.
  Qed.

  (** * what one call of [resolve_node] guarantees *)
  Definition Post (f : nat) (st : state) (r : bytes) (res : option (nat * state)) : Prop :=
    match res with
    | None => ref_node f r = None
    | Some (h, st') =>
        ref_node f r = Some (h, lookup r (fst st')) /\ Inv st' /\ SameIP st st' /\ DoneMono st st' /\
        (lookup r B = None \/ lookup r (snd st') = Some (Done h))
    end.

  Definition LoopPost (f : nat) (els : elements) (st : state) (nel : elements) (h0 : nat)
             (res : option (nat * state * elements)) : Prop :=
    match res with
    | None => ref_loop (ref_node f) els nel h0 = None
    | Some (h, st', nel') =>
        ref_loop (ref_node f) els nel h0 = Some (h, nel') /\ Inv st' /\ SameIP st st' /\ DoneMono st st'
    end.

  Lemma loop_correct : forall f,
      (forall st r, Inv st -> Stack st r -> Post f st r (resolve_node f st r)) ->
      forall els st nel h0,
        Inv st -> (forall e v, In (e, v) els -> Stack st e) ->
        LoopPost f els st nel h0 (ingredients_loop (resolve_node f) els st nel h0).
  Proof.
    intros f IHf. induction els as [|[e v] rest IH]; intros st nel h0 HI HS;
      cbn [Resolver.ingredients_loop].
    - cbn [LoopPost ResolverSpec.ref_loop]. split; [reflexivity|].
      split; [exact HI|]. split; [apply SameIP_refl|apply DoneMono_refl].
    - pose proof (IHf st e HI (HS e v (or_introl eq_refl))) as HP.
      destruct (resolve_node f st e) as [[h st1]|] eqn:Er; cbn [Post] in HP.
      + destruct HP as (Href & HI1 & HIP1 & HD1 & _).
        assert (HS1 : forall e' v', In (e', v') rest -> Stack st1 e').
        { intros e' v' Hin p Hp. apply HIP1 in Hp. eapply HS; [right; exact Hin|exact Hp]. }
        specialize (IH st1
                       (match lookup e (fst st1) with
                        | Some found => sum_merge NM nel found v
                        | None => sum_merge NM nel [(e, v)] (one NM)
                        end) (Nat.max h0 (S h)) HI1 HS1).
        destruct (ingredients_loop (resolve_node f) rest st1 _ _) as [[[h' st'] nel']|];
          cbn [LoopPost ResolverSpec.ref_loop] in IH |- *; rewrite Href.
        * destruct IH as (Hl & HI' & HIP' & HD'). split; [exact Hl|]. split; [exact HI'|].
          split; [eapply SameIP_trans; eassumption|eapply DoneMono_trans; eassumption].
        * exact IH.
      + cbn [LoopPost ResolverSpec.ref_loop]. rewrite HP. reflexivity.
  Qed.

  (** the central lemma: soundness and completeness of one call, by induction on the fuel *)
  Lemma rn_correct : forall f st r, Inv st -> Stack st r -> Post f st r (resolve_node f st r).
  Proof.
    induction f as [|f IHf]; intros [d m] r HI HS; cbn [Resolver.resolve_node fst snd].
    - reflexivity.
    - destruct (lookup r d) as [els|] eqn:Hd.
      + destruct (lookup r m) as [[|h]|] eqn:Hm.
        * (* in progress: [r] is on a cycle *)
          cbn [Post]. apply ref_node_fails_iff_reach. apply on_cycle_reach. apply HS. exact Hm.
        * (* already resolved *)
          destruct (Inv_done (d, m) r h HI Hm) as (v & Hv & Href). cbn [fst] in Hv.
          rewrite Hd in Hv. inversion Hv; subst v. clear Hv.
          pose proof (ref_node_fuel NM B _ _ _ _ Href (S f)) as Hfu.
          destruct (Nat.leb (S f) h); cbn [Post fst snd].
          -- exact Hfu.
          -- rewrite Hd. split; [exact Hfu|]. split; [exact HI|].
             split; [apply SameIP_refl|]. split; [apply DoneMono_refl|]. right. exact Hm.
        * (* first visit *)
          assert (HB : lookup r B = Some els).
          { rewrite <- Hd. symmetry. apply (Inv_notdone (d, m) r HI). cbn [snd]. intros h. congruence. }
          set (st1 := (d, set r InProgress m) : state).
          assert (HI1 : Inv st1).
          { destruct HI as [Hk Hi]. split; [exact Hk|]. intros p. cbn [fst snd st1].
            rewrite lookup_set. destruct (beq_spec r p) as [E|E].
            - subst p. exact (eq_trans Hd (eq_sym HB)).
            - apply Hi. }
          assert (HS1 : forall e v, In (e, v) els -> Stack st1 e).
          { intros e v Hin p. cbn [snd st1]. rewrite lookup_set. destruct (beq_spec r p) as [E|E]; intros Hp.
            - subst p. eapply refs_one; eassumption.
            - eapply refs_trans; [apply HS; exact Hp|]. eapply refs_one; eassumption. }
          pose proof (loop_correct f IHf els st1 [] 0 HI1 HS1) as HL.
          destruct (ingredients_loop (resolve_node f) els st1 [] 0) as [[[height [d' m']] nel]|];
            cbn [LoopPost] in HL; cbn [Post fst snd].
          -- destruct HL as (Hl & HI' & HIP' & HD').
             assert (Href : ref_node (S f) r = Some (height, Some (sort_elements NM nel))).
             { cbn [ResolverSpec.ref_node]. rewrite HB, Hl. reflexivity. }
             assert (Hrm' : lookup r m' = Some InProgress).
             { apply (HIP' r). cbn [snd st1]. apply lookup_set_eq. }
             assert (Hrd' : lookup r d' = Some els).
             { rewrite <- HB. apply (Inv_notdone (d', m') r HI'). cbn [snd]. intros h. congruence. }
             rewrite lookup_set_eq. split; [exact Href|]. split; [|split; [|split]].
             ++ (* invariant *)
                destruct HI' as [Hk' Hi']. cbn [fst snd] in Hk', Hi'. split; cbn [fst snd].
                ** eapply same_shadow_trans; [exact Hk'|].
                   apply same_shadow_set; [intros []|congruence].
                ** intros p. rewrite !lookup_set. destruct (beq_spec r p) as [E|E].
                   --- subst p. exists (sort_elements NM nel). split; [reflexivity|].
                       rewrite (ref_node_fuel NM B _ _ _ _ Href (S height)).
                       destruct (Nat.leb_spec (S height) height) as [Hle|_]; [lia|reflexivity].
                   --- apply Hi'.
             ++ (* in-progress marks *)
                intros p. cbn [snd]. rewrite lookup_set. destruct (beq_spec r p) as [E|E].
                ** subst p. rewrite Hm. split; discriminate.
                ** rewrite (HIP' p). cbn [snd st1]. rewrite lookup_set_neq by exact E. reflexivity.
             ++ (* finished entries *)
                intros p h Hp. cbn [snd] in Hp |- *. rewrite lookup_set.
                destruct (beq_spec r p) as [E|E]; [subst p; congruence|].
                apply (HD' p h). cbn [snd st1]. rewrite lookup_set_neq by exact E. exact Hp.
             ++ right. apply lookup_set_eq.
          -- cbn [ResolverSpec.ref_node]. rewrite HB, HL. reflexivity.
      + (* not a recipe *)
        cbn [Post fst snd]. rewrite Hd.
        pose proof (Inv_undefined (d, m) r HI Hd) as HB.
        split; [apply ref_node_undefined; exact HB|]. split; [exact HI|].
        split; [apply SameIP_refl|]. split; [apply DoneMono_refl|]. left. exact HB.
  Qed.

  (** * the outer loop *)
  Lemma NoIP_Stack : forall st r, NoIP st -> Stack st r.
  Proof. intros st r H p Hp. exfalso. eapply H. exact Hp. Qed.

  Lemma resolve_all_correct : forall N order st,
      Inv st -> NoIP st ->
      match resolve_all N order st with
      | None => exists r, In r order /\ reach N r
      | Some st' =>
          Inv st' /\ NoIP st' /\ DoneMono st st' /\
          forall r, In r order ->
                    ~ reach N r /\ (lookup r B = None \/ exists h, lookup r (snd st') = Some (Done h))
      end.
  Proof.
    intros N. induction order as [|r rest IH]; intros st HI HN; cbn [Resolver.resolve_all].
    - split; [exact HI|]. split; [exact HN|]. split; [apply DoneMono_refl|]. intros r [].
    - pose proof (rn_correct N st r HI (NoIP_Stack st r HN)) as HP.
      destruct (resolve_node N st r) as [[h st1]|]; cbn [Post] in HP.
      + destruct HP as (Href & HI1 & HIP1 & HD1 & Hdone).
        assert (HN1 : NoIP st1). { intros p Hp. apply HIP1 in Hp. eapply HN. exact Hp. }
        specialize (IH st1 HI1 HN1).
        destruct (resolve_all N rest st1) as [st'|].
        * destruct IH as (HI' & HN' & HD' & Hall). split; [exact HI'|]. split; [exact HN'|].
          split; [eapply DoneMono_trans; eassumption|].
          intros r' [Hr'|Hr'].
          -- subst r'. split.
             ++ intros Hr. apply ref_node_fails_iff_reach in Hr. congruence.
             ++ destruct Hdone as [Hu|Hdn]; [left; exact Hu|right]. exists h. apply HD'. exact Hdn.
          -- apply Hall. exact Hr'.
        * destruct IH as (r' & Hin & Hr). exists r'. split; [right; exact Hin|exact Hr].
      + exists r. split; [left; reflexivity|]. apply ref_node_fails_iff_reach. exact HP.
  Qed.

  (** * C11: failure exactly on a chain of [N] references – for ANY visiting order *)
  Theorem resolve_fails_iff_chain_order : forall N (perm : list bytes -> list bytes),
      resolve NM N perm B = None <-> exists r, In r (perm (keys B)) /\ reach N r.
  Proof.
    intros N perm. unfold resolve.
    pose proof (resolve_all_correct N (perm (keys B)) (B, []) Inv_init NoIP_init) as H.
    destruct (resolve_all N (perm (keys B)) (B, [])) as [st'|]; cbn [option_map].
    - split; [discriminate|]. intros (r & Hin & Hr). exfalso.
      destruct H as (_ & _ & _ & Hall). destruct (Hall r Hin) as [Hn _]. contradiction.
    - split; [intros _; exact H|reflexivity].
  Qed.

  Theorem resolve_fails_iff_chain : forall N (perm : list bytes -> list bytes),
      NoDup (keys B) -> Permutation (perm (keys B)) (keys B) ->
      (resolve NM N perm B = None <-> exists r, In r (keys B) /\ reach N r).
  Proof.
    intros N perm _ Hp. rewrite resolve_fails_iff_chain_order. split; intros (r & Hin & Hr); exists r; (split; [|exact Hr]).
    - eapply Permutation_in; eassumption.
    - eapply Permutation_in; [apply Permutation_sym|]; eassumption.
  Qed.

  Corollary resolve_succeeds_iff_depth_lt : forall N (perm : list bytes -> list bytes),
      Permutation (perm (keys B)) (keys B) ->
      (resolve NM N perm B <> None <-> depth_lt NM B N).
  Proof.
    intros N perm Hp. rewrite resolve_fails_iff_chain_order. unfold depth_lt. split.
    - intros H r Hin Hr. apply H. exists r. split; [|exact Hr].
      eapply Permutation_in; [apply Permutation_sym|]; eassumption.
    - intros H (r & Hin & Hr). apply (H r); [|exact Hr]. eapply Permutation_in; eassumption.
  Qed.

  (** * C01: on success the book is the reference book *)
  Lemma ref_db_keys : forall N, keys (ref_db NM B N) = keys B.
  Proof. intros N. unfold ref_db. apply (keys_map_val (fun k d => ref_value NM B N k d)). Qed.

  Lemma ref_db_lookup : forall N r,
      lookup r (ref_db NM B N) = option_map (ref_value NM B N r) (lookup r B).
  Proof. intros N r. unfold ref_db. apply (lookup_map_val (fun k d => ref_value NM B N k d)). Qed.

  (** pointwise form; needs no uniqueness of keys *)
  Theorem resolve_success_lookup : forall N (perm : list bytes -> list bytes) B',
      Permutation (perm (keys B)) (keys B) ->
      resolve NM N perm B = Some B' ->
      keys B' = keys B /\ forall r, lookup r B' = lookup r (ref_db NM B N).
  Proof.
    intros N perm B' Hp Hres. unfold resolve in Hres.
    pose proof (resolve_all_correct N (perm (keys B)) (B, []) Inv_init NoIP_init) as H.
    destruct (resolve_all N (perm (keys B)) (B, [])) as [[d' m']|]; cbn [option_map] in Hres; [|discriminate].
    inversion Hres; subst d'. clear Hres. cbn [fst] in *.
    destruct H as (HI & _ & _ & Hall). split; [exact (Inv_keys _ HI)|].
    intros r. rewrite ref_db_lookup. destruct (lookup r B) as [els|] eqn:HB; cbn [option_map].
    - assert (Hin : In r (perm (keys B))).
      { eapply Permutation_in; [apply Permutation_sym; exact Hp|]. eapply lookup_some_in_keys. exact HB. }
      destruct (Hall r Hin) as [Hnr [Hu|[h Hdn]]]; [congruence|].
      destruct (Inv_done _ _ _ HI Hdn) as (v & Hv & Href). cbn [fst] in Hv. rewrite Hv. f_equal.
      unfold ref_value. rewrite (ref_node_fuel NM B _ _ _ _ Href N).
      destruct (Nat.leb_spec N h) as [Hle|_]; [|reflexivity]. exfalso. apply Hnr.
      apply ref_node_fails_iff_reach. rewrite (ref_node_fuel NM B _ _ _ _ Href N).
      destruct (Nat.leb_spec N h) as [_|Hlt]; [reflexivity|lia].
    - pose proof (Inv_keys _ HI) as Hk. cbn [fst] in Hk.
      apply lookup_none_iff. rewrite Hk. apply lookup_none_iff. exact HB.
  Qed.

  (** whole-book equality *)
  Theorem resolve_success_value : forall N (perm : list bytes -> list bytes) B',
      NoDup (keys B) -> Permutation (perm (keys B)) (keys B) ->
      resolve NM N perm B = Some B' -> B' = ref_db NM B N.
  Proof.
    intros N perm B' Hnd Hp Hres.
    destruct (resolve_success_lookup N perm B' Hp Hres) as [Hk Hl].
    apply assoc_ext.
    - rewrite ref_db_keys. exact Hk.
    - rewrite Hk. exact Hnd.
    - intros k _. apply Hl.
  Qed.

  (** * order independence: outcome and value *)
  Theorem resolve_order_indep : forall N (perm1 perm2 : list bytes -> list bytes),
      NoDup (keys B) ->
      Permutation (perm1 (keys B)) (keys B) -> Permutation (perm2 (keys B)) (keys B) ->
      resolve NM N perm1 B = resolve NM N perm2 B.
  Proof.
    intros N perm1 perm2 Hnd H1 H2.
    destruct (resolve NM N perm1 B) as [B1|] eqn:E1; destruct (resolve NM N perm2 B) as [B2|] eqn:E2.
    - f_equal. rewrite (resolve_success_value N perm1 B1 Hnd H1 E1).
      rewrite (resolve_success_value N perm2 B2 Hnd H2 E2). reflexivity.
    - exfalso. apply (resolve_fails_iff_chain N perm2 Hnd H2) in E2.
      apply (resolve_fails_iff_chain N perm1 Hnd H1) in E2. congruence.
    - exfalso. apply (resolve_fails_iff_chain N perm1 Hnd H1) in E1.
      apply (resolve_fails_iff_chain N perm2 Hnd H2) in E1. congruence.
    - reflexivity.
  Qed.

  (** the same for ARBITRARY books (keys possibly repeated): entries shadowed by an
      earlier entry with the same key are never touched, the others are as in [ref_db] *)
  Theorem resolve_success_shadow : forall N (perm : list bytes -> list bytes) B',
      Permutation (perm (keys B)) (keys B) ->
      resolve NM N perm B = Some B' ->
      same_shadow [] B B' /\ forall r, lookup r B' = lookup r (ref_db NM B N).
  Proof.
    intros N perm B' Hp Hres. split; [|apply (resolve_success_lookup N perm B' Hp Hres)].
    unfold resolve in Hres.
    pose proof (resolve_all_correct N (perm (keys B)) (B, []) Inv_init NoIP_init) as H.
    destruct (resolve_all N (perm (keys B)) (B, [])) as [[d' m']|]; cbn [option_map] in Hres; [|discriminate].
    inversion Hres; subst d'. destruct H as (HI & _). exact (proj1 HI).
  Qed.

  Theorem resolve_order_indep_gen : forall N (perm1 perm2 : list bytes -> list bytes),
      Permutation (perm1 (keys B)) (keys B) -> Permutation (perm2 (keys B)) (keys B) ->
      resolve NM N perm1 B = resolve NM N perm2 B.
  Proof.
    intros N perm1 perm2 H1 H2.
    destruct (resolve NM N perm1 B) as [B1|] eqn:E1; destruct (resolve NM N perm2 B) as [B2|] eqn:E2.
    - f_equal.
      destruct (resolve_success_shadow N perm1 B1 H1 E1) as [Hs1 Hl1].
      destruct (resolve_success_shadow N perm2 B2 H2 E2) as [Hs2 Hl2].
      apply (assoc_ext_shadow []).
      + eapply same_shadow_trans; [apply same_shadow_sym; exact Hs1|exact Hs2].
      + intros k _. rewrite Hl1, Hl2. reflexivity.
    - exfalso. apply resolve_fails_iff_chain_order in E2. destruct E2 as (r & Hin & Hr).
      assert (E : resolve NM N perm1 B = None).
      { apply resolve_fails_iff_chain_order. exists r. split; [|exact Hr].
        eapply Permutation_in; [apply Permutation_sym; exact H1|]. eapply Permutation_in; [exact H2|exact Hin]. }
      congruence.
    - exfalso. apply resolve_fails_iff_chain_order in E1. destruct E1 as (r & Hin & Hr).
      assert (E : resolve NM N perm2 B = None).
      { apply resolve_fails_iff_chain_order. exists r. split; [|exact Hr].
        eapply Permutation_in; [apply Permutation_sym; exact H2|]. eapply Permutation_in; [exact H1|exact Hin]. }
      congruence.
    - reflexivity.
  Qed.

  (** complete description of the outcome, with no reference to the order *)
  Theorem resolve_outcome : forall N (perm : list bytes -> list bytes),
      NoDup (keys B) -> Permutation (perm (keys B)) (keys B) ->
      resolve NM N perm B = if depth_ltb NM B N then Some (ref_db NM B N) else None.
  Proof.
    intros N perm Hnd Hp. destruct (depth_ltb NM B N) eqn:Ed.
    - apply depth_ltb_spec in Ed. apply (resolve_succeeds_iff_depth_lt N perm Hp) in Ed.
      destruct (resolve NM N perm B) as [B'|] eqn:E; [|congruence].
      f_equal. eapply resolve_success_value; eassumption.
    - destruct (resolve NM N perm B) as [B'|] eqn:E; [|reflexivity]. exfalso.
      assert (Hs : resolve NM N perm B <> None) by congruence.
      apply (resolve_succeeds_iff_depth_lt N perm Hp) in Hs. apply depth_ltb_spec in Hs. congruence.
  Qed.

  (** * cycles *)
  Theorem cyclic_fails : forall r, on_cycle NM B r -> In r (keys B) -> forall n, reach n r.
  Proof. intros r Hc _. apply on_cycle_reach. exact Hc. Qed.

  Corollary cyclic_resolve_fails : forall r N (perm : list bytes -> list bytes),
      on_cycle NM B r -> Permutation (perm (keys B)) (keys B) -> resolve NM N perm B = None.
  Proof.
    intros r N perm Hc Hp. apply resolve_fails_iff_chain_order. exists r. split.
    - eapply Permutation_in; [apply Permutation_sym; exact Hp|]. eapply refs_in_keys. exact Hc.
    - apply on_cycle_reach. exact Hc.
  Qed.

  (** ... and cycles are the only reason to fail for a limit above the number of
      recipes (pigeonhole): with such a limit, failure means exactly "cyclic" *)
  Theorem resolve_fails_iff_cyclic : forall N (perm : list bytes -> list bytes),
      Permutation (perm (keys B)) (keys B) -> length (keys B) < N ->
      (resolve NM N perm B = None <-> exists c, on_cycle NM B c).
  Proof.
    intros N perm Hp Hlt. split.
    - intros H. apply resolve_fails_iff_chain_order in H. destruct H as (r & _ & Hr).
      eapply long_chain_cyclic; eassumption.
    - intros (c & Hc). eapply cyclic_resolve_fails; eassumption.
  Qed.

  Corollary acyclic_resolves : forall N (perm : list bytes -> list bytes),
      NoDup (keys B) -> Permutation (perm (keys B)) (keys B) ->
      (forall c, ~ on_cycle NM B c) -> length (keys B) < N ->
      resolve NM N perm B = Some (ref_db NM B N).
  Proof.
    intros N perm Hnd Hp Hac Hlt. destruct (resolve NM N perm B) as [B'|] eqn:E.
    - f_equal. eapply resolve_success_value; eassumption.
    - exfalso. apply (resolve_fails_iff_cyclic N perm Hp Hlt) in E. destruct E as [c Hc].
      eapply Hac. exact Hc.
  Qed.
End Refine.

(** the order-independence statement with the argument order used by the CLI work package *)
Lemma resolve_order_indep_cli : forall (NM : Num) N (B : db NM) (p1 p2 : list bytes -> list bytes),
    NoDup (keys B) -> Permutation (p1 (keys B)) (keys B) -> Permutation (p2 (keys B)) (keys B) ->
    resolve NM N p1 B = resolve NM N p2 B.
Proof. intros NM N B p1 p2. apply resolve_order_indep. Qed.
