(** WP08: the statements of property C03 (first half) about the tree that the
    balance reporters build, and the interface promised to WP09. *)
From HP Require Import Base.Bytes Base.Num Model.Elements Model.Tree Model.Reporters.
From HP Require Import Spec.TreeShared Spec.TreeSpec.
From HP Require Import Proofs.TreeBytes Proofs.TreeBuild Proofs.TreeChain Proofs.TreeOrder Proofs.TreeSums Proofs.TreeLeaves.
From Coq Require Import Lia Sorted Permutation.

Section TreeMain.
  Context (NM : Num).
  Notation T := (T NM).
  Notation tree := (tree NM).
  Notation entries := (list (bytes * T)).
  Notation built es := (tree_add_all NM (empty_root NM) es).

  (** siblings sorted, same nodes, no dependence on the map order *)
  Theorem order_tree_sorted : forall (es : entries) (pi1 pi2 : list bytes -> list bytes),
    (forall l, Permutation (pi1 l) l) -> (forall l, Permutation (pi2 l) l) ->
    sorted_tree NM (order_tree NM pi1 (built es)) /\
    Permutation (tree_paths NM (order_tree NM pi1 (built es))) (tree_paths NM (built es)) /\
    order_tree NM pi1 (built es) = order_tree NM pi2 (built es).
  Proof.
    intros es pi1 pi2 H1 H2. split; [|split].
    - apply order_tree_sorted_gen; [exact H1|apply tree_wf].
    - apply order_tree_paths_perm; [exact H1|apply tree_wf].
    - apply order_tree_oracle_independent; assumption.
  Qed.

  Theorem order_tree_wf : forall (es : entries) pi,
    (forall l, Permutation (pi l) l) -> wf_tree NM (order_tree NM pi (built es)).
  Proof. intros es pi Hpi. apply order_tree_wf_gen; [exact Hpi|apply tree_wf]. Qed.

  Lemma below_through_order : forall (P : tree -> Prop) pi t,
    (forall l, Permutation (pi l) l) -> wf_tree NM t ->
    (forall c, wf_tree NM c -> P c -> P (order_tree NM pi c)) ->
    Forall P (t_children NM t) -> Forall P (t_children NM (order_tree NM pi t)).
  Proof.
    intros P pi t Hpi Hwf Hstep H. apply wf_forest_children in Hwf. destruct Hwf as [Hnd Hall].
    apply order_children_Forall; [exact Hpi|exact Hnd|].
    rewrite Forall_forall in *. intros c Hc. apply Hstep; [apply Hall; exact Hc|apply H; exact Hc].
  Qed.

  Theorem segments_slash_free : forall (es : entries) pi,
    (forall l, Permutation (pi l) l) ->
    slash_free_below NM (built es) /\ slash_free_below NM (order_tree NM pi (built es)).
  Proof.
    intros es pi Hpi. pose proof (built_slash_free NM es) as H. split; [exact H|].
    unfold slash_free_below in *. apply below_through_order; [exact Hpi|apply tree_wf| |exact H].
    intros c Hwf Hc. apply order_tree_slash_free; assumption.
  Qed.

  Theorem prefix_free_chain_const : forall (es : entries) pi,
    (forall l, Permutation (pi l) l) -> prefix_free NM es ->
    chain_const_below NM (built es) /\ chain_const_below NM (order_tree NM pi (built es)).
  Proof.
    intros es pi Hpi Hpf. pose proof (built_chain_const NM es Hpf) as H. split; [exact H|].
    unfold chain_const_below in *. apply below_through_order; [exact Hpi|apply tree_wf| |exact H].
    intros c Hwf Hc. apply order_tree_chain_const; assumption.
  Qed.

  Theorem order_tree_leaves : forall (es : entries) pi,
    (forall l, Permutation (pi l) l) ->
    Permutation (tree_leaves NM (order_tree NM pi (built es))) (tree_leaves NM (built es)) /\
    StronglySorted (fun p q => path_ltb p q = true) (map fst (tree_leaves NM (order_tree NM pi (built es)))).
  Proof.
    intros es pi Hpi. split.
    - apply order_tree_leaves_perm; [exact Hpi|apply tree_wf].
    - apply sorted_tree_leaves_sorted. apply order_tree_sorted_gen; [exact Hpi|apply tree_wf].
  Qed.

  (** the rows of the ordered tree: each path once, in lexicographic order, with the specified total *)
  Theorem ordered_paths_spec : forall (es : entries) pi,
    (forall l, Permutation (pi l) l) ->
    let ot := order_tree NM pi (built es) in
    NoDup (map fst (tree_paths NM ot)) /\
    StronglySorted (fun p q => path_ltb p q = true) (map fst (tree_paths NM ot)) /\
    (forall p x, In (p, x) (tree_paths NM ot) <->
                 p <> [] /\ (exists f q, In (f, q) es /\ is_prefix_path p (segs f) = true) /\ x = total_at NM es p).
  Proof.
    intros es pi Hpi ot. subst ot.
    pose proof (order_tree_paths_perm NM pi (built es) Hpi (tree_wf NM es)) as HP.
    destruct (tree_paths_once NM es) as [Hnd Hin]. split; [|split].
    - eapply Permutation_NoDup; [apply Permutation_map; apply Permutation_sym; exact HP|exact Hnd].
    - apply sorted_tree_paths_sorted. apply order_tree_sorted_gen; [exact Hpi|apply tree_wf].
    - intros p x. split.
      + intro H. apply (Permutation_in _ HP) in H. pose proof (tree_total_spec NM es p x H) as Ex.
        assert (Hp : In p (map fst (tree_paths NM (built es)))) by (apply in_map_iff; exists (p, x); split; [reflexivity|exact H]).
        apply Hin in Hp. destruct Hp as [Hne Hex]. repeat split; assumption.
      + intros [Hne [[f [q [Hf Hp]]] Ex]]. apply (Permutation_in _ (Permutation_sym HP)). rewrite Ex.
        eapply tree_total_complete; eassumption.
  Qed.

  (** the state of the plain balance reporter after any days is the tree of all logged entries, in order *)
  Theorem bal_run_is_built : forall c perms (lns : list (lognode NM)),
    bal_run NM c perms lns = built (flat_map (ln_elems NM) lns).
  Proof. apply bal_run_tree. Qed.
End TreeMain.
