(** WP21, part B, last step (Flocq) – "the correctly rounded value of its number".

    THIS FILE USES FLOCQ AND THE REAL NUMBERS.  Its theorems depend on the
    standard library's axioms behind the reals and Flocq
    ([ClassicalDedekindReals.sig_forall_dec], [ClassicalDedekindReals.sig_not_dec],
    [FunctionalExtensionality.functional_extensionality_dep], and
    [Classical_Prop.classic] – the last one through Flocq's own
    [BinarySingleNaN.binary_round_aux_correct], whose [Print Assumptions] already
    lists all four) and on nothing else; none is declared here.
    [exact_triple_inbetween] (the part proved here from scratch) needs only
    [sig_forall_dec] and [functional_extensionality_dep].

    Proofs/FloatExact.v shows (axiom-free) that for a plain decimal lexeme
    [parse_float] returns [binary_round_aux 53 1024 neg q e loc] on an exact
    integer description [(q, e, loc)] of the lexeme's rational value with enough
    bits.  Here that description is turned into Flocq's [inbetween_float] for the
    real number  m * 10^e10,  and Flocq's [binary_round_aux_correct] concludes:
    the result is [round radix2 (FLT_exp (-1074) 53) ZnearestE] of that real
    number (round to nearest, ties to even), or the range error when the rounded
    value is not below [2^1024]. *)
From Coq Require Import ZArith Reals Lia Lra Floats.SpecFloat.
From Flocq Require Import Core.Core Calc.Bracket IEEE754.BinarySingleNaN.
From HP Require Import Base.Bytes Base.Num Base.GoFloat.
From HP Require Import Proofs.FloatExact.
Open Scope Z_scope.

Definition radix10 : radix := Build_radix 10 eq_refl.

Local Instance prec_gt_0_64 : Prec_gt_0 prec := eq_refl.
Local Instance prec_lt_emax_64 : Prec_lt_emax prec emax := eq_refl.

(** the binary64 format as Flocq names it *)
Lemma fexp_is_FLT : forall t, SpecFloat.fexp prec emax t = FLT_exp (-1074) 53 t.
Proof. intro t. reflexivity. Qed.

(** the standard library's [binary_round_aux] is Flocq's at [mode_NE]
    (Flocq proves this in IEEE754/PrimFloat.v, which we do not import because it
    also brings the primitive-float axioms) *)
Lemma round_nearest_even_choice : forall s m l, round_nearest_even m l = choice_mode mode_NE s m l.
Proof.
  intros s m [|[| |]]; try reflexivity. cbn. unfold Round.cond_incr. destruct (Z.even m); reflexivity.
Qed.

Lemma binary_round_aux_flocq : forall sx mx ex lx,
  SpecFloat.binary_round_aux prec emax sx mx ex lx = BinarySingleNaN.binary_round_aux prec emax mode_NE sx mx ex lx.
Proof.
  intros sx mx ex lx. unfold SpecFloat.binary_round_aux, BinarySingleNaN.binary_round_aux.
  destruct (shr_fexp prec emax mx ex lx) as [mrs' e']. rewrite (round_nearest_even_choice sx).
  destruct (shr_fexp prec emax (choice_mode mode_NE sx (shr_m mrs') (loc_of_shr_record mrs')) e' loc_Exact) as [mrs'' e''].
  reflexivity.
Qed.

(** * from the integer description to Flocq's bracket *)

Lemma IZR_pow10 : forall k, 0 <= k -> IZR (10 ^ k) = bpow radix10 k.
Proof. intros k Hk. exact (IZR_Zpower radix10 k Hk). Qed.

Lemma IZR_pow2 : forall k, 0 <= k -> IZR (2 ^ k) = bpow radix2 k.
Proof. intros k Hk. exact (IZR_Zpower radix2 k Hk). Qed.

Theorem exact_triple_inbetween : forall (M e10 q e : Z) (loc : location),
  0 < M -> exact_triple M e10 q e loc ->
  inbetween_float radix2 q e (IZR M * bpow radix10 e10) loc.
Proof.
  intros M e10 q e loc HM (He & r & Heq & Hr & Hloc).
  set (a := Z.max 0 e10) in *. set (k := Z.max 0 (- e10)) in *.
  assert (Ha : 0 <= a) by (unfold a; lia). assert (Hk : 0 <= k) by (unfold k; lia).
  assert (Hak : e10 = a - k) by (unfold a, k; lia).
  (* the real quantities *)
  set (A := bpow radix10 a). set (D := bpow radix10 k). set (W := bpow radix2 (- e)).
  assert (HA : (0 < A)%R) by apply bpow_gt_0. assert (HD : (0 < D)%R) by apply bpow_gt_0.
  assert (HW : (0 < W)%R) by apply bpow_gt_0.
  assert (Hx : bpow radix10 e10 = (A / D)%R).
  { rewrite Hak. unfold Zminus. rewrite bpow_plus, bpow_opp. reflexivity. }
  assert (HP : bpow radix2 e = (/ W)%R).
  { unfold W. rewrite bpow_opp. rewrite Rinv_inv. reflexivity. }
  assert (HeqR : (IZR M * A * W = IZR q * D + IZR r)%R).
  { unfold A, D, W. rewrite <- IZR_pow10 by exact Ha. rewrite <- IZR_pow10 by exact Hk.
    rewrite <- IZR_pow2 by lia. rewrite <- !mult_IZR, <- plus_IZR. f_equal. exact Heq. }
  assert (HrR : (0 <= IZR r < D)%R).
  { unfold D. rewrite <- IZR_pow10 by exact Hk. split; [apply IZR_le; lia|apply IZR_lt; lia]. }
  set (t := (IZR r / D)%R).
  assert (Ht : (t * D = IZR r)%R) by (unfold t; field; lra).
  assert (Hval : (IZR M * bpow radix10 e10 = (IZR q + t) * / W)%R).
  { rewrite Hx. unfold t. apply Rmult_eq_reg_r with (r := (W * D)%R); [|apply Rgt_not_eq; apply Rmult_lt_0_compat; assumption].
    transitivity (IZR M * A * W)%R; [field; lra|]. rewrite HeqR. field. split; lra. }
  unfold inbetween_float, F2R. cbn [Fnum Fexp]. rewrite HP, Hval. rewrite Hloc.
  assert (HiW : (0 < / W)%R) by (apply Rinv_0_lt_compat; exact HW).
  destruct (Z.eqb_spec r 0) as [Er|Er].
  - (* exact *)
    constructor. assert (t = 0%R) by (unfold t; rewrite Er; field; lra). rewrite H. ring.
  - (* inexact *)
    assert (Hrpos : (0 < IZR r)%R) by (apply IZR_lt; lia).
    assert (Htpos : (0 < t)%R) by (unfold t; apply Rdiv_lt_0_compat; assumption).
    assert (Htlt : (t < 1)%R).
    { apply Rmult_lt_reg_r with (r := D); [exact HD|]. rewrite Ht. lra. }
    constructor.
    + split.
      * apply Rmult_lt_compat_r; [exact HiW|lra].
      * rewrite plus_IZR. apply Rmult_lt_compat_r; [exact HiW|]. simpl. lra.
    + replace ((IZR q * / W + IZR (q + 1) * / W) / 2)%R with ((IZR q + / 2) * / W)%R
        by (rewrite plus_IZR; simpl; field; lra).
      rewrite Rcompare_mult_r by exact HiW. rewrite Rcompare_plus_l.
      assert (H2D : IZR (10 ^ k) = D) by (apply IZR_pow10; exact Hk).
      destruct (Z.compare_spec (2 * r) (10 ^ k)) as [Ec|Ec|Ec].
      * apply Rcompare_Eq. apply (f_equal IZR) in Ec. rewrite mult_IZR, H2D in Ec.
        apply Rmult_eq_reg_r with (r := D); [|lra]. rewrite Ht. simpl in Ec. lra.
      * apply Rcompare_Lt. apply IZR_lt in Ec. rewrite mult_IZR, H2D in Ec.
        apply Rmult_lt_reg_r with (r := D); [exact HD|]. rewrite Ht. simpl in Ec. lra.
      * apply Rcompare_Gt. apply IZR_lt in Ec. rewrite mult_IZR, H2D in Ec.
        apply Rmult_lt_reg_r with (r := D); [exact HD|]. rewrite Ht. simpl in Ec. lra.
Qed.

(** * one rounding step on an exact bracket is the correct rounding *)

(** the real number denoted by sign [neg], integer [m], decimal exponent [e10] *)
Definition dec_real (neg : bool) (m : positive) (e10 : Z) : R :=
  cond_Ropp neg (IZR (Zpos m) * bpow radix10 e10).

(** [z] is the correctly rounded binary64 value of the real [x] with sign
    [neg] (round to nearest, ties to even, in the format [FLT_exp (-1074) 53]);
    when the rounded value is not below [2^1024], the infinity *)
Definition correctly_rounded (neg : bool) (x : R) (z : f64) : Prop :=
  valid_binary prec emax z = true /\
  if Rlt_bool (Rabs (round radix2 (FLT_exp (-1074) 53) ZnearestE x)) (bpow radix2 1024)
  then SF2R radix2 z = round radix2 (FLT_exp (-1074) 53) ZnearestE x /\
       is_finite_SF z = true /\ sign_SF z = neg
  else z = S754_infinity neg.

Theorem exact_triple_correctly_rounded : forall (neg : bool) (m : positive) (e10 q e : Z) (loc : location),
  0 < q -> exact_triple (Zpos m) e10 q e loc -> enough_bits q e ->
  correctly_rounded neg (dec_real neg m e10) (SpecFloat.binary_round_aux prec emax neg q e loc).
Proof.
  intros neg m e10 q e loc Hq Ht Hb.
  pose proof (exact_triple_inbetween (Zpos m) e10 q e loc ltac:(lia) Ht) as Hin.
  set (xa := (IZR (Zpos m) * bpow radix10 e10)%R) in *.
  assert (Hxa : (0 < xa)%R).
  { unfold xa. apply Rmult_lt_0_compat; [apply IZR_lt; lia|apply bpow_gt_0]. }
  set (x := dec_real neg m e10).
  assert (Habs : Rabs x = xa).
  { unfold x, dec_real. fold xa. destruct neg; cbn [cond_Ropp]; [rewrite Rabs_Ropp|]; apply Rabs_pos_eq; lra. }
  assert (Hsign : Rlt_bool x 0 = neg).
  { unfold x, dec_real. fold xa. destruct neg; cbn [cond_Ropp]; [apply Rlt_bool_true|apply Rlt_bool_false]; lra. }
  destruct q as [|qp|qp]; try lia.
  rewrite binary_round_aux_flocq.
  pose proof (binary_round_aux_correct prec emax _ _ mode_NE x qp e loc) as H.
  rewrite Habs, Hsign in H. specialize (H Hin).
  assert (Hb' : e <= SpecFloat.fexp prec emax (Zdigits radix2 (Zpos qp) + e)).
  { unfold enough_bits in Hb. cbn [Zdigits2] in Hb. rewrite Zpos_digits2_pos in Hb. exact Hb. }
  specialize (H Hb'). cbv zeta in H. destruct H as [Hv Hr].
  unfold correctly_rounded. split; [exact Hv|].
  change (round_mode mode_NE) with ZnearestE in Hr.
  change (binary_overflow prec emax mode_NE neg) with (S754_infinity neg) in Hr.
  exact Hr.
Qed.

(** * [parse_float_correctly_rounded] *)
Theorem parse_float_correctly_rounded_lemma : forall (d : dec_lexeme) (m : positive),
  dl_wf d -> dl_int d = Npos m ->
  let neg := sign_neg (dl_sign d) in
  let e10 := dl_exp10 d in
  exists nd : Z,
    10 ^ (nd - 1) <= Zpos m < 10 ^ nd /\
    (e10 <= 400 -> -400 <= e10 + nd ->
       exists z : f64,
         parse_float (dl_bytes d) = keep_finite z /\
         correctly_rounded neg (dec_real neg m e10) z).
Proof.
  intros d m Hwf Hm neg e10.
  destruct (parse_float_exact_description_lemma d m Hwf Hm) as (nd & Hnd & _ & _ & H).
  exists nd. split; [exact Hnd|]. intros H1 H2.
  destruct (H H1 H2) as (q & e & loc & Hq & Ht & Hb & Hpf).
  exists (SpecFloat.binary_round_aux prec emax neg q e loc). split; [exact Hpf|].
  apply exact_triple_correctly_rounded; assumption.
Qed.

(** the same for [round_scaled] alone: every [m], every [e10] *)
Theorem round_scaled_correctly_rounded : forall (neg : bool) (m : positive) (e10 : Z),
  correctly_rounded neg (dec_real neg m e10) (round_scaled neg m e10 0).
Proof.
  intros neg m e10. destruct (round_scaled_exact_lemma neg m e10) as (q & e & loc & E & Hq & Ht & Hb & _).
  rewrite E. apply exact_triple_correctly_rounded; assumption.
Qed.
