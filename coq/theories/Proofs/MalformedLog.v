(** WP04 / C09 -- a malformed line in the LOG file: the walk ends with the
    message of the first one, whatever the reporter. *)
From Coq Require Import Lia.
From HP Require Import Base.Bytes Base.Utf8 Base.Num Model.Scanner Model.Parser Model.Elements Model.Resolver
  Model.Dates Model.Tree Model.Writer Model.Regex Model.Reporters Model.Cli.
From HP Require Import Proofs.MalformedBase Proofs.RegexPlain.
Open Scope N_scope.

Section Log.
  Context (NM : Num).
  Notation event := (event NM).
  Notation pnode := (pnode NM).
  Notation errors_of := (errors_of NM).
  Notation nodes_of := (nodes_of NM).

  (** Process never returns an error / the reporter has no partial operation *)
  Definition process_total (R : reporter NM) : Prop :=
    forall pi s ln, snd (r_process NM R pi s ln) = None.
  Definition never_panics (R : reporter NM) : Prop := forall rs, r_panic NM R rs = None.

  Section Walk.
    Context (R : reporter NM) (perm_day : nat -> list bytes -> list bytes) (perm_flush : list bytes -> list bytes)
            (toks : list ltoken) (bt et : option time).

    Definition dated (n : pnode) : Prop := parse_date toks (header n) <> None.

    (** the days before the error, at reporter level: final state, number of selected days, chunks written *)
    Fixpoint walk_days (ns : list pnode) (rs : RS NM R) (i : nat) : RS NM R * nat * list chunk :=
      match ns with
      | [] => (rs, i, [])
      | n :: r =>
          match parse_date toks (header n) with
          | None => (rs, i, [])
          | Some c =>
              let t := time_of_civil c in
              if in_interval bt et t then
                let ln := {| ln_time := t; ln_elems := merge_elements NM (elems n); ln_meta := meta n |} in
                let '(rs', chunks, _) := r_process NM R (perm_day i) rs ln in
                let '(rs'', i', cs) := walk_days r rs' (S i) in
                (rs'', i', chunks ++ cs)
              else walk_days r rs i
          end
      end.

    Notation wcb := (walk_cb NM R perm_day toks bt et).

    Lemma walk_loop : process_total R -> forall ns rs i wr,
      Forall dated ns -> bw_ok wr ->
      exists wr',
        drive_loop NM wcb (map ENode ns) (rs, i, wr)
        = ((fst (fst (walk_days ns rs i)), snd (fst (walk_days ns rs i)), wr'), None)
        /\ bw_ok wr'
        /\ bw_content wr' = bw_content wr ++ chunk_bytes (snd (walk_days ns rs i)).
    Proof.
      intros Hproc. induction ns as [|n r IH]; intros rs i wr Hd Hwr.
      - exists wr. split; [reflexivity|]. split; [exact Hwr|]. symmetry. apply app_nil_r.
      - inversion Hd as [|n0 r0 Hn Hr]; subst n0 r0.
        cbn [map drive_loop walk_days]. unfold walk_cb at 1.
        unfold dated in Hn. destruct (parse_date toks (header n)) as [c|] eqn:Ed; [|contradiction].
        destruct (in_interval bt et (time_of_civil c)) eqn:Ei.
        + pose proof (Hproc (perm_day i) rs
                        {| ln_time := time_of_civil c; ln_elems := merge_elements NM (elems n);
                           ln_meta := meta n |}) as Hp.
          destruct (r_process NM R (perm_day i) rs
                      {| ln_time := time_of_civil c; ln_elems := merge_elements NM (elems n);
                         ln_meta := meta n |}) as [[rs' chunks] perr].
          cbn [snd] in Hp. subst perr.
          destruct (bw_chunks_ok chunks wr Hwr) as (w1 & E1 & Hw1 & C1). rewrite E1.
          destruct (IH rs' (S i) w1 Hr Hw1) as (w2 & E2 & Hw2 & C2).
          exists w2. rewrite E2.
          destruct (walk_days r rs' (S i)) as [[rs'' i'] cs]. cbn [fst snd] in *.
          split; [reflexivity|]. split; [exact Hw2|].
          rewrite C2, C1, chunk_bytes_app. symmetry. apply app_assoc.
        + apply IH; assumption.
    Qed.

    (** ** the walk stops at the first malformed line of the log *)
    Lemma walk_parse_first_error : process_total R -> forall data pre e post wr,
      events NM data = pre ++ EErr e :: post -> errors_of pre = [] -> Forall dated (nodes_of pre) ->
      bw_ok wr ->
      exists wr',
        parse_stream NM wcb data NoFault (r_init NM R, O, wr)
        = ((fst (fst (walk_days (nodes_of pre) (r_init NM R) O)),
            snd (fst (walk_days (nodes_of pre) (r_init NM R) O)), wr'),
           Some (inl (EParse (perr_message e))))
        /\ bw_ok wr'
        /\ bw_content wr' = bw_content wr ++ chunk_bytes (snd (walk_days (nodes_of pre) (r_init NM R) O)).
    Proof.
      intros Hproc data pre e post wr Hev Hpre Hd Hwr.
      destruct (events_split_loop NM data pre e post Hev) as (post' & Hl & _).
      rewrite parse_stream_NoFault, Hl.
      destruct (walk_loop Hproc (nodes_of pre) (r_init NM R) O wr Hd Hwr) as (w1 & E1 & Hw1 & C1).
      rewrite <- (errors_of_nil_nodes NM pre Hpre) in E1.
      exists w1. split; [|split; assumption].
      erewrite (drive_stops NM wcb pre (EErr e) post' _ _ _ _ _ (Some (EParse (perr_message e))) E1).
      - reflexivity.
      - reflexivity.
    Qed.

    (** ** ... and at the first heading that is not a date, with EBadDate *)
    Lemma walk_parse_bad_date : process_total R -> forall data pre n post wr,
      events NM data = pre ++ ENode n :: post -> errors_of pre = [] -> Forall dated (nodes_of pre) ->
      parse_date toks (header n) = None ->
      post <> [] \/ readable data ->
      bw_ok wr ->
      exists wr',
        parse_stream NM wcb data NoFault (r_init NM R, O, wr)
        = ((fst (fst (walk_days (nodes_of pre) (r_init NM R) O)),
            snd (fst (walk_days (nodes_of pre) (r_init NM R) O)), wr'),
           Some (inl EBadDate))
        /\ bw_ok wr'
        /\ bw_content wr' = bw_content wr ++ chunk_bytes (snd (walk_days (nodes_of pre) (r_init NM R) O)).
    Proof.
      intros Hproc data pre n post wr Hev Hpre Hd Hbad Hpost Hwr.
      destruct (walk_loop Hproc (nodes_of pre) (r_init NM R) O wr Hd Hwr) as (w1 & E1 & Hw1 & C1).
      rewrite <- (errors_of_nil_nodes NM pre Hpre) in E1.
      exists w1. split; [|split; assumption].
      rewrite parse_stream_NoFault.
      destruct (events_split_any NM data pre (ENode n) post Hev)
        as [(post' & Hl & _)|(Hp & Hl & m & Hm & Hnm)].
      - rewrite Hl.
        erewrite (drive_stops NM wcb pre (ENode n) post' _ _ _ _ _ (Some EBadDate) E1).
        + reflexivity.
        + unfold walk_cb. rewrite Hbad. reflexivity.
      - destruct Hpost as [Hpost|Hr]; [contradiction|].
        inversion Hnm; subst m. rewrite Hl, Hm, Hr. unfold drive. rewrite E1.
        unfold walk_cb. rewrite Hbad. reflexivity.
    Qed.

    (** ** walk + FinishReport *)
    Lemma finish_after_error : forall rs wr err,
      bw_ok wr ->
      exists wr3,
        (let '(wr2, e2) := bw_chunks wr (r_flush NM R perm_flush rs) in
         let '(wr3, ferr) := if e2 then (wr2, true) else bw_flush wr2 in
         (wr3, match Some err with Some e => Some e | None => if ferr then Some EWrite else None end, rs))
        = (wr3, Some err, rs)
        /\ s_got (bw_sink wr3) = bw_content wr ++ chunk_bytes (r_flush NM R perm_flush rs).
    Proof.
      intros rs wr err Hwr.
      destruct (bw_chunks_ok (r_flush NM R perm_flush rs) wr Hwr) as (w2 & E2 & Hw2 & C2). rewrite E2.
      destruct (bw_flush_ok w2 Hw2) as (w3 & E3 & Hw3 & B3 & G3). rewrite E3.
      exists w3. split; [reflexivity|]. rewrite G3, C2. reflexivity.
    Qed.

    Definition days_state (pre : list event) : RS NM R := fst (fst (walk_days (nodes_of pre) (r_init NM R) O)).
    Definition days_text (pre : list event) : bytes := chunk_bytes (snd (walk_days (nodes_of pre) (r_init NM R) O)).

    Theorem walk_and_finish_first_error : process_total R -> forall data pre e post wr,
      events NM data = pre ++ EErr e :: post -> errors_of pre = [] -> Forall dated (nodes_of pre) ->
      bw_ok wr ->
      exists wr',
        walk_and_finish NM R perm_day perm_flush toks bt et (OData data NoFault) wr
        = (wr', Some (EParse (perr_message e)), days_state pre)
        /\ s_got (bw_sink wr')
           = bw_content wr ++ days_text pre ++ chunk_bytes (r_flush NM R perm_flush (days_state pre)).
    Proof.
      intros Hproc data pre e post wr Hev Hpre Hd Hwr.
      unfold walk_and_finish. rewrite parse_opened_data.
      destruct (walk_parse_first_error Hproc data pre e post wr Hev Hpre Hd Hwr) as (w1 & E1 & Hw1 & C1).
      rewrite E1. cbn [fst snd].
      destruct (finish_after_error (days_state pre) w1 (EParse (perr_message e)) Hw1) as (w3 & E3 & G3).
      exists w3. split.
      - exact E3.
      - rewrite G3, C1. unfold days_text. symmetry. apply app_assoc.
    Qed.

    Theorem walk_and_finish_bad_date : process_total R -> forall data pre n post wr,
      events NM data = pre ++ ENode n :: post -> errors_of pre = [] -> Forall dated (nodes_of pre) ->
      parse_date toks (header n) = None ->
      post <> [] \/ readable data ->
      bw_ok wr ->
      exists wr',
        walk_and_finish NM R perm_day perm_flush toks bt et (OData data NoFault) wr
        = (wr', Some EBadDate, days_state pre)
        /\ s_got (bw_sink wr')
           = bw_content wr ++ days_text pre ++ chunk_bytes (r_flush NM R perm_flush (days_state pre)).
    Proof.
      intros Hproc data pre n post wr Hev Hpre Hd Hbad Hpost Hwr.
      unfold walk_and_finish. rewrite parse_opened_data.
      destruct (walk_parse_bad_date Hproc data pre n post wr Hev Hpre Hd Hbad Hpost Hwr) as (w1 & E1 & Hw1 & C1).
      rewrite E1. cbn [fst snd].
      destruct (finish_after_error (days_state pre) w1 EBadDate Hw1) as (w3 & E3 & G3).
      exists w3. split.
      - exact E3.
      - rewrite G3, C1. unfold days_text. symmetry. apply app_assoc.
    Qed.
  End Walk.

  Lemma new_writer_ok : forall w, w_sink w = None -> bw_ok (new_writer w) /\ bw_content (new_writer w) = [].
  Proof. intros w H. split; [apply bw_new_ok; exact H|reflexivity]. Qed.

  Lemma open_all_two : forall w p q o1 o2,
    open_file w p = Some o1 -> open_file w q = Some o2 -> open_all w [p; q] = Some [o1; o2].
  Proof. intros w p q o1 o2 H1 H2. cbn [open_all]. rewrite H1, H2. reflexivity. Qed.

  Lemma open_all_one : forall w p o, open_file w p = Some o -> open_all w [p] = Some [o].
  Proof. intros w p o H. cbn [open_all]. rewrite H. reflexivity. Qed.

  (** * commands that resolve the book and walk the log (reg, bal, report totals / unresolved, summary) *)
  Theorem run_db_log_first_error_log : forall (w : world) (op : options) mk bt et odb d toks data pre e post,
    open_file w (op_db op) = Some odb ->
    resolved_db NM w op odb = inr d ->                   (* the book is fine *)
    tokenize (op_fmt op) = Some toks ->
    op_log op <> [] ->
    op_log op <> dev_null ->
    lookup (op_log op) (w_fs w) = Some (FFile data) ->
    lookup (op_log op) (w_read_fault w) = None ->
    w_sink w = None ->
    events NM data = pre ++ EErr e :: post ->
    errors_of pre = [] ->                                 (* [e] is the first malformed line *)
    Forall (dated toks) (nodes_of pre) ->                 (* the headings before it are dates *)
    process_total (mk d) ->
    let R := mk d in
    let rs := days_state R (o_day (w_or w)) toks bt et pre in
    run_db_log NM w op mk bt et
    = {| out_stdout := days_text R (o_day (w_or w)) toks bt et pre
                       ++ chunk_bytes (r_flush NM R (o_flush (w_or w)) rs);
         out_status := match r_panic NM R rs with
                       | Some site => Panicked site
                       | None => Failed (EParse (perr_message e))
                       end |}.
  Proof.
    intros w op mk bt et odb d toks data pre e post Hdb Hres Htok Hne Hnd Hfs Hrf Hsink Hev Hpre Hd Hproc R rs.
    assert (Hopen : open_file w (op_log op) = Some (OData data NoFault))
      by (apply open_plain; repeat split; assumption).
    unfold run_db_log. rewrite (open_all_two _ _ _ _ _ Hdb Hopen), Hres, Htok.
    destruct (new_writer_ok w Hsink) as [Hwr Hc].
    destruct (walk_and_finish_first_error (mk d) (o_day (w_or w)) (o_flush (w_or w)) toks bt et
                Hproc data pre e post (new_writer w) Hev Hpre Hd Hwr) as (w3 & E3 & G3).
    rewrite E3. fold R. fold rs. rewrite Hc in G3. cbn [app] in G3.
    destruct (r_panic NM R rs); unfold finish; rewrite G3; reflexivity.
  Qed.

  Corollary run_db_log_first_error_log_status : forall (w : world) (op : options) mk bt et odb d toks data pre e post,
    open_file w (op_db op) = Some odb ->
    resolved_db NM w op odb = inr d ->
    tokenize (op_fmt op) = Some toks ->
    op_log op <> [] ->
    op_log op <> dev_null ->
    lookup (op_log op) (w_fs w) = Some (FFile data) ->
    lookup (op_log op) (w_read_fault w) = None ->
    w_sink w = None ->
    events NM data = pre ++ EErr e :: post ->
    errors_of pre = [] ->
    Forall (dated toks) (nodes_of pre) ->
    process_total (mk d) -> never_panics (mk d) ->
    out_status (run_db_log NM w op mk bt et) = Failed (EParse (perr_message e)).
  Proof.
    intros w op mk bt et odb d toks data pre e post Hdb Hres Htok Hne Hnd Hfs Hrf Hsink Hev Hpre Hd Hproc Hpan.
    rewrite (run_db_log_first_error_log w op mk bt et odb d toks data pre e post
               Hdb Hres Htok Hne Hnd Hfs Hrf Hsink Hev Hpre Hd Hproc).
    cbn [out_status]. rewrite Hpan. reflexivity.
  Qed.

  (** complement: a heading before the error that is not a date makes the command fail with EBadDate *)
  Theorem run_db_log_bad_date_first : forall (w : world) (op : options) mk bt et odb d toks data pre n post,
    open_file w (op_db op) = Some odb ->
    resolved_db NM w op odb = inr d ->
    tokenize (op_fmt op) = Some toks ->
    op_log op <> [] ->
    op_log op <> dev_null ->
    lookup (op_log op) (w_fs w) = Some (FFile data) ->
    lookup (op_log op) (w_read_fault w) = None ->
    w_sink w = None ->
    events NM data = pre ++ ENode n :: post ->
    errors_of pre = [] -> Forall (dated toks) (nodes_of pre) ->
    parse_date toks (header n) = None ->
    post <> [] \/ readable data ->                       (* e.g. [post] contains the malformed line *)
    process_total (mk d) -> never_panics (mk d) ->
    out_status (run_db_log NM w op mk bt et) = Failed EBadDate.
  Proof.
    intros w op mk bt et odb d toks data pre n post Hdb Hres Htok Hne Hnd Hfs Hrf Hsink Hev Hpre Hd Hbad Hpost
           Hproc Hpan.
    assert (Hopen : open_file w (op_log op) = Some (OData data NoFault))
      by (apply open_plain; repeat split; assumption).
    unfold run_db_log. rewrite (open_all_two _ _ _ _ _ Hdb Hopen), Hres, Htok.
    destruct (new_writer_ok w Hsink) as [Hwr Hc].
    destruct (walk_and_finish_bad_date (mk d) (o_day (w_or w)) (o_flush (w_or w)) toks bt et
                Hproc data pre n post (new_writer w) Hev Hpre Hd Hbad Hpost Hwr) as (w3 & E3 & G3).
    rewrite E3, Hpan. reflexivity.
  Qed.

  (** * commands that only walk the log (report quantity, csv log, print) *)
  Theorem run_log_first_error_log : forall (w : world) (op : options) (R : reporter NM) toks data pre e post,
    tokenize (op_fmt op) = Some toks ->
    op_log op <> [] ->
    op_log op <> dev_null ->
    lookup (op_log op) (w_fs w) = Some (FFile data) ->
    lookup (op_log op) (w_read_fault w) = None ->
    w_sink w = None ->
    events NM data = pre ++ EErr e :: post ->
    errors_of pre = [] ->
    Forall (dated toks) (nodes_of pre) ->
    process_total R ->
    let rs := days_state R (o_day (w_or w)) toks (op_begin op) (op_end op) pre in
    run_log NM w op R
    = {| out_stdout := days_text R (o_day (w_or w)) toks (op_begin op) (op_end op) pre
                       ++ chunk_bytes (r_flush NM R (o_flush (w_or w)) rs);
         out_status := Failed (EParse (perr_message e)) |}.
  Proof.
    intros w op R toks data pre e post Htok Hne Hnd Hfs Hrf Hsink Hev Hpre Hd Hproc rs.
    assert (Hopen : open_file w (op_log op) = Some (OData data NoFault))
      by (apply open_plain; repeat split; assumption).
    unfold run_log. rewrite (open_all_one _ _ _ Hopen), Htok.
    destruct (new_writer_ok w Hsink) as [Hwr Hc].
    destruct (walk_and_finish_first_error R (o_day (w_or w)) (o_flush (w_or w)) toks (op_begin op) (op_end op)
                Hproc data pre e post (new_writer w) Hev Hpre Hd Hwr) as (w3 & E3 & G3).
    rewrite E3. rewrite Hc in G3. cbn [app] in G3. unfold finish. rewrite G3. reflexivity.
  Qed.

  Theorem run_log_bad_date_first : forall (w : world) (op : options) (R : reporter NM) toks data pre n post,
    tokenize (op_fmt op) = Some toks ->
    op_log op <> [] ->
    op_log op <> dev_null ->
    lookup (op_log op) (w_fs w) = Some (FFile data) ->
    lookup (op_log op) (w_read_fault w) = None ->
    w_sink w = None ->
    events NM data = pre ++ ENode n :: post ->
    errors_of pre = [] -> Forall (dated toks) (nodes_of pre) ->
    parse_date toks (header n) = None ->
    post <> [] \/ readable data ->
    process_total R ->
    out_status (run_log NM w op R) = Failed EBadDate.
  Proof.
    intros w op R toks data pre n post Htok Hne Hnd Hfs Hrf Hsink Hev Hpre Hd Hbad Hpost Hproc.
    assert (Hopen : open_file w (op_log op) = Some (OData data NoFault))
      by (apply open_plain; repeat split; assumption).
    unfold run_log. rewrite (open_all_one _ _ _ Hopen), Htok.
    destruct (new_writer_ok w Hsink) as [Hwr Hc].
    destruct (walk_and_finish_bad_date R (o_day (w_or w)) (o_flush (w_or w)) toks (op_begin op) (op_end op)
                Hproc data pre n post (new_writer w) Hev Hpre Hd Hbad Hpost Hwr) as (w3 & E3 & G3).
    rewrite E3. reflexivity.
  Qed.

  (** * the reporters of the program *)
  Ltac total := intros pi s ln; cbn; reflexivity.

  Lemma total_template : forall c d, process_total (rep_template NM c d). Proof. intros c d. total. Qed.
  Lemma total_summary : forall c d, process_total (rep_summary NM c d). Proof. intros c d. total. Qed.
  Lemma total_old : forall c d, process_total (rep_old NM c d). Proof. intros c d. total. Qed.
  Lemma total_single : forall c d, process_total (rep_single NM c d).
  Proof.
    intros c d pi s ln. cbn [r_process rep_single].
    destruct (single_row NM d (rc_single_element c) ln) as [[[p n]|]|]; reflexivity.
  Qed.
  Lemma total_byfood : forall c d, process_total (rep_byfood NM c d). Proof. intros c d. total. Qed.
  (** [reg -f PATTERN]: the pattern compiles ([pattern_ok]: [parse_regex] answers [ReOk]) *)
  Lemma total_single_food : forall c, pattern_ok (rc_single_food c) = true -> process_total (rep_single_food NM c).
  Proof.
    intros c Hp pi s ln. cbn [r_process rep_single_food].
    destruct (ln_elems NM ln); [reflexivity|].
    destruct (plain_pattern (rc_single_food c) && valid_utf8_no_fffd (rc_single_food c)); [reflexivity|].
    unfold pattern_ok in Hp. destruct (parse_regex (rc_single_food c)); [reflexivity|discriminate Hp|discriminate Hp].
  Qed.
  Lemma total_balance : forall c, process_total (rep_balance NM c). Proof. intros c. total. Qed.
  Lemma total_balance_single : forall c d, process_total (rep_balance_single NM c d). Proof. intros c d. total. Qed.
  Lemma total_totals : forall d, process_total (rep_totals NM d). Proof. intros d. total. Qed.
  Lemma total_quantity : forall desc, process_total (rep_quantity NM desc). Proof. intros desc. total. Qed.
  Lemma total_unresolved : forall d, process_total (rep_unresolved NM d). Proof. intros d. total. Qed.
  Lemma total_csv_log : process_total (rep_csv_log NM). Proof. total. Qed.
  Lemma total_print : forall c, process_total (rep_print NM c). Proof. intros c. total. Qed.

  Lemma total_reg : forall c d, pattern_ok (rc_single_food c) = true -> process_total (reg_reporter NM c d).
  Proof.
    intros c d Hp. unfold reg_reporter.
    destruct (rc_single_element c).
    - destruct (rc_single_food c) eqn:Ef.
      + destruct (rc_old c); [apply total_old|apply total_template].
      + rewrite <- Ef in *. apply total_single_food. exact Hp.
    - destruct (rc_group_food c); [apply total_byfood|apply total_single].
  Qed.

  Lemma total_bal : forall c d, process_total (bal_reporter NM c d).
  Proof.
    intros c d. unfold bal_reporter.
    destruct (rc_single_element c); [apply total_balance|apply total_balance_single].
  Qed.

  (** the pattern of [reg -f] must compile: otherwise Process itself fails on the first
      non-empty selected day (with Go's regexp error for an invalid pattern; a pattern the
      model declines is outside the model) *)
  Lemma single_food_not_total : forall c, pattern_ok (rc_single_food c) = false ->
    ~ process_total (rep_single_food NM c).
  Proof.
    intros c Hp H.
    specialize (H (fun l => l) tt {| ln_time := zero_time; ln_elems := [([], zero NM)]; ln_meta := None |}).
    cbn [r_process rep_single_food ln_elems] in H. unfold pattern_ok in Hp.
    destruct (plain_pattern (rc_single_food c) && valid_utf8_no_fffd (rc_single_food c)) eqn:G.
    - apply andb_true_iff in G. destruct G as [G1 G2].
      rewrite (plain_parse_literal _ G1 G2) in Hp. discriminate Hp.
    - destruct (parse_regex (rc_single_food c)); [discriminate Hp|discriminate H|discriminate H].
  Qed.

  (** ... and with an invalid pattern the error is the regexp error *)
  Lemma single_food_invalid_pattern : forall c pi s ln,
    parse_regex (rc_single_food c) = ReError -> ln_elems NM ln <> [] ->
    r_process NM (rep_single_food NM c) pi s ln = (tt, [], Some ERegexp).
  Proof.
    intros c pi s ln Hp Hne. cbn [r_process rep_single_food].
    destruct (ln_elems NM ln) as [|e es]; [congruence|].
    destruct (plain_pattern (rc_single_food c) && valid_utf8_no_fffd (rc_single_food c)) eqn:G.
    - apply andb_true_iff in G. destruct G as [G1 G2].
      rewrite (plain_parse_literal _ G1 G2) in Hp. discriminate Hp.
    - rewrite Hp. reflexivity.
  Qed.

  Lemma nopanic_template : forall c d, never_panics (rep_template NM c d). Proof. intros c d rs. reflexivity. Qed.
  Lemma nopanic_summary : forall c d, never_panics (rep_summary NM c d). Proof. intros c d rs. reflexivity. Qed.
  Lemma nopanic_old : forall c d, never_panics (rep_old NM c d). Proof. intros c d rs. reflexivity. Qed.
  Lemma nopanic_byfood : forall c d, never_panics (rep_byfood NM c d). Proof. intros c d rs. reflexivity. Qed.
  Lemma nopanic_single_food : forall c, never_panics (rep_single_food NM c). Proof. intros c rs. reflexivity. Qed.
  Lemma nopanic_balance : forall c, never_panics (rep_balance NM c). Proof. intros c rs. reflexivity. Qed.
  Lemma nopanic_balance_single : forall c d, never_panics (rep_balance_single NM c d).
  Proof. intros c d rs. reflexivity. Qed.
  Lemma nopanic_totals : forall d, never_panics (rep_totals NM d). Proof. intros d rs. reflexivity. Qed.
  Lemma nopanic_unresolved : forall d, never_panics (rep_unresolved NM d). Proof. intros d rs. reflexivity. Qed.

  (** [reg -s X] without [-g] is the one reporter with a partial operation *)
  Lemma nopanic_reg : forall c d, rc_single_element c = [] \/ rc_group_food c = true ->
    never_panics (reg_reporter NM c d).
  Proof.
    intros c d H. unfold reg_reporter.
    destruct (rc_single_element c) eqn:Es.
    - destruct (rc_single_food c).
      + destruct (rc_old c); [apply nopanic_old|apply nopanic_template].
      + apply nopanic_single_food.
    - destruct H as [H|H]; [discriminate|]. rewrite H. apply nopanic_byfood.
  Qed.

  Lemma nopanic_bal : forall c d, never_panics (bal_reporter NM c d).
  Proof.
    intros c d. unfold bal_reporter.
    destruct (rc_single_element c); [apply nopanic_balance|apply nopanic_balance_single].
  Qed.
End Log.
