(** WP22 / C13 at run level, part 2: [csv database-resolved].  Under admissible
    map orders ([oracles_ok]) the export is one row per (recipe, resolved
    element), STRICTLY increasing in the lexicographic order of (recipe,
    element) by Go's [<] on strings, hence duplicate-free; every value is the
    resolved amount. *)
From Coq Require Import Lia Permutation Sorted.
From HP Require Import Base.Bytes Base.Utf8 Base.Num Model.Scanner Model.Parser Model.Elements Model.Resolver
  Model.Dates Model.Tree Model.Writer Model.Csv Model.Reporters Model.Cli
  Spec.ResolverSpec Spec.Agree2Spec
  Proofs.OrderSort Proofs.OrderSites Proofs.OrderInv Proofs.OrderRows Proofs.AssemblyResolver Proofs.AssemblyResolverCli
  Proofs.CsvCodec Proofs.CsvWalk Proofs.CsvRows.

(** strict lexicographic order on (recipe, element) *)
Definition key_lt (a c : bytes * bytes) : Prop :=
  bltb (fst a) (fst c) = true \/ (fst a = fst c /\ bltb (snd a) (snd c) = true).

Lemma key_lt_irrefl : forall a, ~ key_lt a a.
Proof.
  intros a [H|[_ H]]; rewrite bltb_irrefl in H; discriminate.
Qed.

Lemma StronglySorted_app : forall {A} (R : A -> A -> Prop) l1 l2,
  StronglySorted R l1 -> StronglySorted R l2 -> (forall x y, In x l1 -> In y l2 -> R x y) ->
  StronglySorted R (l1 ++ l2).
Proof.
  intros A R l1 l2 H1 H2 H. induction H1 as [|a l1 Hl IH Ha]; [exact H2|].
  cbn [app]. constructor.
  - apply IH. intros x y Hx Hy. apply H; [right; exact Hx|exact Hy].
  - apply Forall_app. split; [exact Ha|]. apply Forall_forall. intros y Hy. apply H; [left; reflexivity|exact Hy].
Qed.

Lemma StronglySorted_map : forall {A B} (f : A -> B) (R : B -> B -> Prop) l,
  StronglySorted (fun x y => R (f x) (f y)) l -> StronglySorted R (map f l).
Proof.
  intros A B f R l H. induction H as [|a l Hl IH Ha]; [constructor|].
  cbn [map]. constructor; [exact IH|]. apply Forall_forall. intros y Hy.
  apply in_map_iff in Hy. destruct Hy as (x & <- & Hx). rewrite Forall_forall in Ha. apply Ha, Hx.
Qed.

Lemma StronglySorted_irrefl_NoDup : forall {A} (R : A -> A -> Prop) l,
  (forall x, ~ R x x) -> StronglySorted R l -> NoDup l.
Proof.
  intros A R l Hirr H. induction H as [|a l Hl IH Ha]; constructor; [|exact IH].
  intros Hin. rewrite Forall_forall in Ha. apply (Hirr a), Ha, Hin.
Qed.

Section Assoc.
  Context {V : Type}.

  Lemma lookup_some_in : forall k (l : list (bytes * V)) v, lookup k l = Some v -> In (k, v) l.
  Proof.
    intros k l v. induction l as [|[k' v'] r IH]; cbn [lookup]; [discriminate|].
    destruct (beq_spec k k') as [E|E].
    - intros H. injection H as <-. subst k'. left. reflexivity.
    - intros H. right. apply IH, H.
  Qed.

  Lemma lookup_none_notin : forall k (l : list (bytes * V)), lookup k l = None -> ~ In k (keys l).
  Proof.
    intros k l. induction l as [|[k' v'] r IH]; cbn [lookup keys map fst In]; [tauto|].
    destruct (beq_spec k k') as [E|E]; [discriminate|].
    intros H [H1|H1]; [congruence|]. apply (IH H), H1.
  Qed.

  Lemma in_nodup_lookup : forall k v (l : list (bytes * V)), NoDup (keys l) -> In (k, v) l -> lookup k l = Some v.
  Proof.
    intros k v l. induction l as [|[k' v'] r IH]; intros ND H; [destruct H|].
    cbn [keys map fst] in ND. inversion ND as [|? ? Hni ND']; subst.
    cbn [lookup]. destruct H as [H|H].
    - injection H as -> ->. rewrite beq_refl. reflexivity.
    - destruct (beq_spec k k') as [E|E]; [|apply IH; assumption].
      subst k'. exfalso. apply Hni. apply in_map_iff. exists (k, v). split; [reflexivity|exact H].
  Qed.
End Assoc.

Section Resolved.
  Context (NM : Num).
  Notation T := (T NM).
  Notation db := (list (bytes * elements NM)).

  (** (recipe, element, amount) for the recipes [rs] in that order, the elements of each in list order *)
  Definition triples_of (d : db) (rs : list bytes) : list (bytes * bytes * T) :=
    flat_map (fun r => map (fun e => (r, fst e, snd e)) (get NM r d)) rs.

  Definition row_of_triple (t : bytes * bytes * T) : list bytes := [fst (fst t); snd (fst t); f2 NM (snd t)].

  Lemma triples_sorted : forall (d : db) rs,
    StronglySorted blt rs ->
    (forall r, StronglySorted (fun x y => bltb (fst x) (fst y) = true) (get NM r d)) ->
    StronglySorted (fun t u => key_lt (fst t) (fst u)) (triples_of d rs).
  Proof.
    intros d rs Hrs Hel. induction Hrs as [|r rs Hs IH Hr]; [constructor|].
    unfold triples_of. cbn [flat_map]. fold (triples_of d rs).
    apply StronglySorted_app; [|exact IH|].
    - specialize (Hel r). induction Hel as [|e l Hl IHl He]; [constructor|].
      cbn [map]. constructor; [exact IHl|]. apply Forall_forall. intros t Ht.
      apply in_map_iff in Ht. destruct Ht as (e' & <- & He'). rewrite Forall_forall in He.
      right. cbn [fst snd]. split; [reflexivity|apply He, He'].
    - intros t u Ht Hu. apply in_map_iff in Ht. destruct Ht as (e & <- & _).
      apply in_flat_map in Hu. destruct Hu as (r' & Hr' & Hu). apply in_map_iff in Hu. destruct Hu as (e' & <- & _).
      left. cbn [fst]. rewrite Forall_forall in Hr. apply Hr, Hr'.
  Qed.

  Lemma rows_of_triples : forall (d : db) rs,
    flat_map (fun name => match lookup name d with
                          | Some els => map (fun nv => [name; fst nv; f2 NM (snd nv)]) els
                          | None => []
                          end) rs
    = map row_of_triple (triples_of d rs).
  Proof.
    intros d rs. induction rs as [|r rs IH]; [reflexivity|].
    unfold triples_of. cbn [flat_map]. fold (triples_of d rs). rewrite map_app, <- IH. f_equal.
    unfold get. destruct (lookup r d) as [els|]; [|reflexivity]. rewrite map_map. reflexivity.
  Qed.

  (** what [resolved_db] returns under admissible orders: pairwise different
      recipe names, each list strictly sorted by element name.  Every [Num]. *)
  Lemma resolved_db_structure : forall (w : world) (op : options) (o : opened) (d : db),
    oracles_ok (w_or w) -> resolved_db NM w op o = inr d ->
    NoDup (keys d)
    /\ forall r v, lookup r d = Some v ->
         StronglySorted (fun x y => bltb (fst x) (fst y) = true) v /\ NoDup (map fst v).
  Proof.
    intros w op o d [Hor _] H. unfold resolved_db in H. pose proof (load_db_NoDup NM o) as Hnd.
    destruct (load_db NM o) as [B [e|]]; [discriminate|]. cbn [fst] in Hnd.
    destruct (resolve NM (Z.to_nat (op_depth op)) (o_resolve (w_or w)) B) as [d'|] eqn:E; [|discriminate].
    injection H as H. subst d'.
    destruct (resolve_end_to_end_structure NM B _ _ d Hnd (Hor (keys B)) E) as [Hk Hs].
    split; [rewrite Hk; exact Hnd|].
    intros r v Hl. destruct (Hs r v Hl) as (S1 & S2 & _). split; assumption.
  Qed.

  Lemma triples_in : forall (d : db) rs r x a,
    (forall r v, lookup r d = Some v -> NoDup (map fst v)) ->
    (In (r, x, a) (triples_of d rs) <-> In r rs /\ exists v, lookup r d = Some v /\ lookup x v = Some a).
  Proof.
    intros d rs r x a Hnd. unfold triples_of. rewrite in_flat_map. split.
    - intros (r' & Hr' & H). apply in_map_iff in H. destruct H as ([x' a'] & E & H). cbn [fst snd] in E.
      injection E as -> -> ->. split; [exact Hr'|]. unfold get in H.
      destruct (lookup r d) as [v|] eqn:L; [|destruct H]. exists v. split; [reflexivity|].
      apply in_nodup_lookup; [apply (Hnd r v L)|exact H].
    - intros (Hr & v & L & Lx). exists r. split; [exact Hr|]. apply in_map_iff. exists (x, a). split; [reflexivity|].
      unfold get. rewrite L. apply lookup_some_in, Lx.
  Qed.

  (** [csv database-resolved]: the book opens and resolves, the sink never fails, map orders admissible *)
  Theorem csv_db_resolved_rows_sorted : forall (w : world) (op : options) (o : opened) (d : db),
    oracles_ok (w_or w) ->
    w_sink w = None -> open_file w (op_db op) = Some o -> resolved_db NM w op o = inr d ->
    let ts := triples_of d (sort_bytes (keys d)) in
    let rows := map row_of_triple ts in
    out_stdout (run_csv_db_resolved NM w op) = concat (map csv_record rows)
    /\ csv_decode (out_stdout (run_csv_db_resolved NM w op)) = Some rows
    /\ out_status (run_csv_db_resolved NM w op) = Ok
    /\ StronglySorted key_lt (map fst ts)
    /\ NoDup (map fst ts)
    /\ (forall r x a, In (r, x, a) ts <-> exists v, lookup r d = Some v /\ lookup x v = Some a).
  Proof.
    intros w op o d Hok Hs Ho Hres ts rows.
    destruct (resolved_db_structure w op o d Hok Hres) as [ND Hel].
    destruct (csv_db_resolved_rows_spec NM w op o d Hs Ho Hres) as (E1 & E2 & E3).
    destruct Hok as (_ & _ & Hfl).
    rewrite (sort_oracle _ (keys d) Hfl) in E1, E2. rewrite rows_of_triples in E1, E2.
    split; [exact E1|]. split; [exact E2|]. split; [exact E3|].
    assert (SS : StronglySorted key_lt (map fst ts)).
    { apply StronglySorted_map. apply triples_sorted; [apply sort_bytes_strict, ND|].
      intros r. unfold get. destruct (lookup r d) as [v|] eqn:L; [apply (Hel r v L)|constructor]. }
    split; [exact SS|]. split; [apply (StronglySorted_irrefl_NoDup key_lt _ key_lt_irrefl SS)|].
    intros r x a. unfold ts. rewrite triples_in by (intros r' v' L'; apply (Hel r' v' L')).
    split; [intros [_ H]; exact H|]. intros (v & L & Lx). split; [|exists v; split; assumption].
    apply sort_bytes_in. destruct (lookup r d) eqn:L'; [|discriminate].
    destruct (in_dec (list_eq_dec N.eq_dec) r (keys d)) as [Hin|Hni]; [exact Hin|].
    exfalso. clear - L' Hni. induction d as [|[k v'] d IH]; [discriminate|].
    cbn [lookup] in L'. cbn [keys map fst In] in Hni. destruct (beq_spec r k) as [E|E]; [apply Hni; left; congruence|].
    apply IH; [exact L'|]. intros H. apply Hni. right. exact H.
  Qed.

  (** the same said on the expressions of [Props/C13.v csv_db_resolved_rows_spec]: the recipe
      list the command iterates over is the strictly increasing arrangement of the book's
      names, whatever the map order, and each recipe's element list is strictly increasing *)
  Theorem csv_db_resolved_recipes_strict : forall (w : world) (op : options) (o : opened) (d : db),
    oracles_ok (w_or w) -> resolved_db NM w op o = inr d ->
    let recipes := sort_bytes (o_flush (w_or w) (keys d)) in
    recipes = sort_bytes (keys d)
    /\ Permutation recipes (keys d)
    /\ StronglySorted (fun a c => bltb a c = true) recipes
    /\ (forall r, In r recipes -> exists v, lookup r d = Some v)
    /\ (forall r v, lookup r d = Some v ->
          StronglySorted (fun x y => bltb (fst x) (fst y) = true) v /\ NoDup (map fst v)).
  Proof.
    intros w op o d Hok Hres recipes.
    destruct (resolved_db_structure w op o d Hok Hres) as [ND Hel]. destruct Hok as (_ & _ & Hfl).
    unfold recipes. rewrite (sort_oracle _ (keys d) Hfl).
    split; [reflexivity|]. split; [apply sort_bytes_perm|]. split; [apply (sort_bytes_strict _ ND)|].
    split; [|exact Hel].
    intros r Hr. apply (proj1 (sort_bytes_in _ _)) in Hr.
    destruct (lookup r d) as [v|] eqn:L; [exists v; reflexivity|].
    exfalso. apply (lookup_none_notin r d L), Hr.
  Qed.

  (** the same for the program *)
  Theorem csv_db_resolved_run_sorted : forall (w : world) (i : invocation) (op : options) (o : opened) (d : db),
    load w i = inr op -> i_cmd i = CCsvDbResolved ->
    oracles_ok (w_or w) ->
    w_sink w = None -> open_file w (op_db op) = Some o -> resolved_db NM w op o = inr d ->
    let ts := triples_of d (sort_bytes (keys d)) in
    let rows := map row_of_triple ts in
    out_stdout (run NM w i) = concat (map csv_record rows)
    /\ csv_decode (out_stdout (run NM w i)) = Some rows
    /\ out_status (run NM w i) = Ok
    /\ StronglySorted key_lt (map fst ts)
    /\ NoDup (map fst ts)
    /\ (forall r x a, In (r, x, a) ts <-> exists v, lookup r d = Some v /\ lookup x v = Some a).
  Proof.
    intros w i op o d Hload Hcmd. unfold run. rewrite Hload, Hcmd. apply csv_db_resolved_rows_sorted.
  Qed.

  (** "each value is the resolved amount", in the words of C01: with commutative-semiring
      arithmetic every exported value is the sum over the ingredient paths from the recipe to
      the element of the products along the path, in the book [B] as loaded from the file, and
      the element is a basic (undefined) name of that book *)
  Theorem csv_db_resolved_values : CSemiring NM ->
    forall (w : world) (op : options) (o : opened) (d : db),
    oracles_ok (w_or w) -> resolved_db NM w op o = inr d ->
    exists B, load_db NM o = (B, None) /\ keys d = keys B
      /\ forall r x a, In (r, x, a) (triples_of d (sort_bytes (keys d))) ->
            In r (keys B) /\ lookup x B = None
            /\ a = sum_of NM x (paths NM B (Z.to_nat (op_depth op)) r).
  Proof.
    intros CS w op o d Hok Hres.
    destruct (resolved_db_end_to_end NM CS w op o d Hok Hres) as (B & HB & ND & _ & Hk & Hv).
    exists B. split; [exact HB|]. split; [exact Hk|].
    intros r x a H.
    apply triples_in in H; [|intros r' v' L'; apply (Hv r' v' L')].
    destruct H as (Hr & v & L & Lx). apply (proj1 (sort_bytes_in _ _)) in Hr. rewrite Hk in Hr.
    destruct (Hv r v L) as (_ & _ & H3 & _ & H5).
    split; [exact Hr|]. split; [apply (H3 x a), lookup_some_in, Lx|apply H5, Lx].
  Qed.
End Resolved.
