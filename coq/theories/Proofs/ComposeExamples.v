(** WP12: non-vacuity examples at the exact-integer instance [ZNum]: a two-day
    history followed by a one-day history that repeats the first date. *)
From Coq Require Import Lia.
From HP Require Import Base.Bytes Base.Utf8 Base.Num Model.Scanner Model.Parser Model.Elements Model.Dates
  Model.Tree Model.Writer Model.Reporters Model.Cli Spec.ComposeSpec
  Proofs.ComposeWriter Proofs.ComposeWalk Proofs.ComposeAssoc Proofs.ComposePerDay Proofs.ComposePeriod
  Proofs.ComposeAdd Proofs.ComposeTree.

Lemma ZNum_AddMonoid : AddMonoid ZNum.
Proof. constructor; cbn; intros; lia. Qed.

Definition lf : string := String (ascii_of_nat 10) "".

Definition part1 : bytes :=
  b ("2021/01/01" ++ lf ++ "  apple 2" ++ lf ++ "  bread 1" ++ lf ++
     "2021/01/02" ++ lf ++ "  apple 1" ++ lf ++ "  water 3" ++ lf)%string.
(** the first date again *)
Definition part2 : bytes := b ("2021/01/01" ++ lf ++ "  apple 3" ++ lf ++ "  fat/oil 4" ++ lf)%string.

Definition toks : list ltoken := match tokenize (b "2006/01/02") with Some t => t | None => [] end.

Definition d : list (bytes * elements ZNum) :=
  [(b "apple", [(b "kcal", 50%Z); (b "carb/sugar", 10%Z)]);
   (b "bread", [(b "kcal", 200%Z); (b "carb/starch", (-40)%Z)])].

Definition c : rconfig :=
  {| rc_color := false; rc_totals_only := false; rc_totals := true; rc_date := toks;
     rc_single_element := []; rc_single_food := []; rc_collapse_last := false; rc_collapse := false;
     rc_group_food := false; rc_shorten := false; rc_old := false; rc_template := b "default"; rc_csv := false |}.

Definition idp : list bytes -> list bytes := fun l => l.
(** a day oracle that really depends on the day number *)
Definition pd : nat -> list bytes -> list bytes := fun i l => if Nat.even i then l else rev l.

Definition evs1 := events ZNum part1.
Definition evs2 := events ZNum part2.

(** the byte-level history is the concatenation, and so are its events *)
Example ex_events_concat : events ZNum (part1 ++ part2) = evs1 ++ evs2.
Proof. vm_compute. reflexivity. Qed.

Example ex_sizes : length evs1 = 2 /\ length evs2 = 1 /\ selected_days ZNum toks None None evs1 = 2.
Proof. vm_compute. repeat split. Qed.

(** the connecting lemma applies to the file and gives the report on the events *)
Example ex_connect :
  let '(wr, e, rs) := walk_and_finish ZNum (rep_template ZNum c d) pd idp toks None None
                        (OData (part1 ++ part2) NoFault) fresh_writer in
  (s_got (bw_sink wr), e) = report ZNum (rep_template ZNum c d) pd idp toks None None (evs1 ++ evs2).
Proof.
  pose proof (walk_and_finish_report ZNum (rep_template ZNum c d) pd idp toks None None (part1 ++ part2)) as H.
  rewrite ex_events_concat in H.
  destruct (walk_and_finish ZNum (rep_template ZNum c d) pd idp toks None None
              (OData (part1 ++ part2) NoFault) fresh_writer) as [[wr e] rs].
  apply H. vm_compute. reflexivity.
Qed.

(** reg: hypotheses of [perday_reports_concat] hold, and the output is not trivial *)
Example ex_reg_first_part_ok :
  snd (report ZNum (rep_template ZNum c d) pd idp toks None None evs1) = None.
Proof. vm_compute. reflexivity. Qed.

Example ex_reg_concat :
  fst (report ZNum (rep_template ZNum c d) pd idp toks None None (evs1 ++ evs2))
  = fst (report ZNum (rep_template ZNum c d) pd idp toks None None evs1)
    ++ fst (report ZNum (rep_template ZNum c d) (fun i => pd (2 + i)) idp toks None None evs2)
  /\ length (fst (report ZNum (rep_template ZNum c d) pd idp toks None None evs1)) = 894
  /\ length (fst (report ZNum (rep_template ZNum c d) (fun i => pd (2 + i)) idp toks None None evs2)) = 430.
Proof. vm_compute. repeat split. Qed.

(** the same through the theorem *)
Example ex_reg_concat_thm :
  fst (report ZNum (rep_template ZNum c d) pd idp toks None None (evs1 ++ evs2))
  = fst (report ZNum (rep_template ZNum c d) pd idp toks None None evs1)
    ++ fst (report ZNum (rep_template ZNum c d) (fun i => pd (selected_days ZNum toks None None evs1 + i)) idp toks None None evs2).
Proof.
  apply (perday_reports_concat ZNum _ (PD_template ZNum c d) pd idp toks None None evs1 evs2 ex_reg_first_part_ok).
Qed.

(** the first lines of the register of the first part *)
Example ex_reg_shows :
  firstn 11 (fst (report ZNum (rep_template ZNum c d) pd idp toks None None evs1)) = b ("2021/01/01" ++ lf)%string.
Proof. vm_compute. reflexivity. Qed.

(** single-element register and print behave the same way *)
Definition c_kcal : rconfig :=
  {| rc_color := false; rc_totals_only := false; rc_totals := true; rc_date := toks;
     rc_single_element := b "kcal"; rc_single_food := []; rc_collapse_last := false; rc_collapse := false;
     rc_group_food := false; rc_shorten := false; rc_old := false; rc_template := b "default"; rc_csv := false |}.

Example ex_single_concat :
  fst (report ZNum (rep_single ZNum c_kcal d) pd idp toks None None (evs1 ++ evs2))
  = fst (report ZNum (rep_single ZNum c_kcal d) pd idp toks None None evs1)
    ++ fst (report ZNum (rep_single ZNum c_kcal d) (fun i => pd (2 + i)) idp toks None None evs2)
  /\ fst (report ZNum (rep_single ZNum c_kcal d) pd idp toks None None evs2)
     = b ("2021/01/01                 kcal        150          0 =       150" ++ lf)%string.
Proof. vm_compute. repeat split. Qed.

(** totals add up: kcal 350 + 150 = 500, starch only in the first part, fat/oil only in the second *)
Example ex_totals_add :
  let a1 := report_state ZNum (rep_totals ZNum d) pd idp toks None None evs1 in
  let a2 := report_state ZNum (rep_totals ZNum d) pd idp toks None None evs2 in
  let a12 := report_state ZNum (rep_totals ZNum d) pd idp toks None None (evs1 ++ evs2) in
  acc_get ZNum (b "kcal") a1 = (350, 0)%Z /\ acc_get ZNum (b "kcal") a2 = (150, 0)%Z
  /\ acc_get ZNum (b "kcal") a12 = (500, 0)%Z
  /\ acc_get ZNum (b "carb/starch") a12 = (0, -40)%Z /\ lookup (b "carb/starch") a2 = None
  /\ acc_get ZNum (b "fat/oil") a12 = (4, 0)%Z /\ lookup (b "fat/oil") a1 = None
  /\ keys a12 = union_keys (keys a1) (keys a2) /\ length (keys a12) = 5.
Proof. vm_compute. repeat split. Qed.

Example ex_totals_add_thm : forall x,
  acc_get ZNum x (report_state ZNum (rep_totals ZNum d) pd idp toks None None (evs1 ++ evs2))
  = pair_add ZNum (acc_get ZNum x (report_state ZNum (rep_totals ZNum d) pd idp toks None None evs1))
                  (acc_get ZNum x (report_state ZNum (rep_totals ZNum d) pd idp toks None None evs2)).
Proof.
  assert (Hok : snd (report ZNum (rep_totals ZNum d) pd idp toks None None evs1) = None)
    by (vm_compute; reflexivity).
  exact (proj1 (period_reports_add_totals ZNum ZNum_AddMonoid pd pd pd idp idp idp toks None None d evs1 evs2 Hok)).
Qed.

(** quantity: apple 3 + 3 = 6 *)
Example ex_quantity_add :
  let q1 := report_state ZNum (rep_quantity ZNum false) pd idp toks None None evs1 in
  let q2 := report_state ZNum (rep_quantity ZNum false) pd idp toks None None evs2 in
  let q12 := report_state ZNum (rep_quantity ZNum false) pd idp toks None None (evs1 ++ evs2) in
  qty_get ZNum (b "apple") q1 = 3%Z /\ qty_get ZNum (b "apple") q2 = 3%Z /\ qty_get ZNum (b "apple") q12 = 6%Z
  /\ keys q12 = [b "apple"; b "bread"; b "water"; b "fat/oil"].
Proof. vm_compute. repeat split. Qed.

(** balance: fat/oil is a new path of the second part; apple adds up *)
Example ex_balance_add :
  let t1 := report_state ZNum (rep_balance ZNum c) pd idp toks None None evs1 in
  let t2 := report_state ZNum (rep_balance ZNum c) pd idp toks None None evs2 in
  let t12 := report_state ZNum (rep_balance ZNum c) pd idp toks None None (evs1 ++ evs2) in
  total_at ZNum [b "apple"] t12 = 6%Z /\ total_at ZNum [b "apple"] t1 = 3%Z /\ total_at ZNum [b "apple"] t2 = 3%Z
  /\ total_at ZNum [b "fat"; b "oil"] t12 = 4%Z /\ node_at ZNum [b "fat"; b "oil"] t1 = None.
Proof. vm_compute. repeat split. Qed.

(** the Writer fact on a write that does not fit the buffer *)
Example ex_writer :
  let w := {| bw_buf := b "0123456789"; bw_err := false; bw_sink := {| s_limit := None; s_got := b "old" |} |} in
  let big := brepeat (b "x") 5000 in
  let '(w1, e1) := bw_chunks w [(b "ab", true); (big, false); (b "yz", true)] in
  let '(w2, e2) := bw_flush w1 in
  e1 = false /\ e2 = false /\ s_got (bw_sink w2) = b "old" ++ b "0123456789" ++ b "ab" ++ big ++ b "yz".
Proof. vm_compute. repeat split. Qed.

(** the other per-day reporters on the same history *)
Definition c_food : rconfig :=
  {| rc_color := false; rc_totals_only := false; rc_totals := true; rc_date := toks;
     rc_single_element := []; rc_single_food := b "app"; rc_collapse_last := false; rc_collapse := false;
     rc_group_food := false; rc_shorten := false; rc_old := true; rc_template := b "left-aligned"; rc_csv := false |}.

Example ex_perday_others :
  (fst (report ZNum (rep_csv_log ZNum) pd idp toks None None (evs1 ++ evs2))
   = fst (report ZNum (rep_csv_log ZNum) pd idp toks None None evs1)
     ++ fst (report ZNum (rep_csv_log ZNum) (fun i => pd (2 + i)) idp toks None None evs2))
  /\ (fst (report ZNum (rep_print ZNum c) pd idp toks None None (evs1 ++ evs2))
      = fst (report ZNum (rep_print ZNum c) pd idp toks None None evs1)
        ++ fst (report ZNum (rep_print ZNum c) (fun i => pd (2 + i)) idp toks None None evs2))
  /\ (fst (report ZNum (rep_old ZNum c_food d) pd idp toks None None (evs1 ++ evs2))
      = fst (report ZNum (rep_old ZNum c_food d) pd idp toks None None evs1)
        ++ fst (report ZNum (rep_old ZNum c_food d) (fun i => pd (2 + i)) idp toks None None evs2))
  /\ (fst (report ZNum (rep_template ZNum c_food d) pd idp toks None None (evs1 ++ evs2))
      = fst (report ZNum (rep_template ZNum c_food d) pd idp toks None None evs1)
        ++ fst (report ZNum (rep_template ZNum c_food d) (fun i => pd (2 + i)) idp toks None None evs2))
  /\ (fst (report ZNum (rep_single_food ZNum c_food) pd idp toks None None (evs1 ++ evs2))
      = fst (report ZNum (rep_single_food ZNum c_food) pd idp toks None None evs1)
        ++ fst (report ZNum (rep_single_food ZNum c_food) (fun i => pd (2 + i)) idp toks None None evs2))
  /\ plain_pattern (rc_single_food c_food) = true
  /\ fst (report ZNum (rep_single_food ZNum c_food) pd idp toks None None evs2)
     = b ("2021/01/01" ++ String (ascii_of_nat 9) "apple" ++ String (ascii_of_nat 9) "3" ++ lf)%string
  /\ fst (report ZNum (rep_csv_log ZNum) pd idp toks None None evs2)
     = b ("2021-01-01,apple,3" ++ lf ++ "2021-01-01,fat/oil,4" ++ lf)%string.
Proof. vm_compute. repeat split. Qed.

(** the repeated date: the two records of 2021/01/01 are rendered one after the other, each on its own *)
Example ex_repeated_date_days :
  fst (report ZNum (rep_print ZNum c) pd idp toks None None (evs1 ++ evs2))
  = days_bytes ZNum (rep_print ZNum c) pd 0 (fst (walked_nodes ZNum toks None None (evs1 ++ evs2)))
  /\ map (fun ln => civ (ln_time ZNum ln)) (fst (walked_nodes ZNum toks None None (evs1 ++ evs2)))
     = [(2021, 1, 1); (2021, 1, 2); (2021, 1, 1)]%Z.
Proof. vm_compute. repeat split. Qed.

(** a period that leaves the second day of the first part out: one selected day, oracle shifted by one *)
Definition jan1 : option time := Some (time_of_civil (2021, 1, 1)%Z).

Example ex_filtered_concat :
  selected_days ZNum toks None jan1 evs1 = 1
  /\ fst (report ZNum (rep_template ZNum c d) pd idp toks None jan1 (evs1 ++ evs2))
     = fst (report ZNum (rep_template ZNum c d) pd idp toks None jan1 evs1)
       ++ fst (report ZNum (rep_template ZNum c d) (fun i => pd (1 + i)) idp toks None jan1 evs2).
Proof. vm_compute. repeat split. Qed.

(** a first part that fails (bad date) hides the second *)
Definition bad : list (event ZNum) := [ENode {| header := b "yesterday"; elems := []; meta := None |}].

Example ex_first_part_fails :
  report ZNum (rep_print ZNum c) pd idp toks None None ((evs1 ++ bad) ++ evs2)
  = report ZNum (rep_print ZNum c) pd idp toks None None (evs1 ++ bad)
  /\ snd (report ZNum (rep_print ZNum c) pd idp toks None None (evs1 ++ bad)) = Some EBadDate.
Proof. vm_compute. repeat split. Qed.

(** by-food, single-element balance, unresolved *)
Example ex_period_others :
  let a1 := report_state ZNum (rep_byfood ZNum c_kcal d) pd idp toks None None evs1 in
  let a2 := report_state ZNum (rep_byfood ZNum c_kcal d) pd idp toks None None evs2 in
  let a12 := report_state ZNum (rep_byfood ZNum c_kcal d) pd idp toks None None (evs1 ++ evs2) in
  let s1 := report_state ZNum (rep_balance_single ZNum c_kcal d) pd idp toks None None evs1 in
  let s2 := report_state ZNum (rep_balance_single ZNum c_kcal d) pd idp toks None None evs2 in
  let s12 := report_state ZNum (rep_balance_single ZNum c_kcal d) pd idp toks None None (evs1 ++ evs2) in
  let u1 := report_state ZNum (rep_unresolved ZNum d) pd idp toks None None evs1 in
  let u2 := report_state ZNum (rep_unresolved ZNum d) pd idp toks None None evs2 in
  let u12 := report_state ZNum (rep_unresolved ZNum d) pd idp toks None None (evs1 ++ evs2) in
  acc_get ZNum (b "apple") a1 = (150, 0)%Z /\ acc_get ZNum (b "apple") a2 = (150, 0)%Z
  /\ acc_get ZNum (b "apple") a12 = (300, 0)%Z
  /\ snd s1 = 350%Z /\ snd s2 = 150%Z /\ snd s12 = 500%Z
  /\ total_at ZNum [b "apple"] (fst s12) = 300%Z
  /\ u1 = [b "water"] /\ u2 = [b "fat/oil"] /\ u12 = [b "water"; b "fat/oil"].
Proof. vm_compute. repeat split. Qed.
