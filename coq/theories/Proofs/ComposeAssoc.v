(** WP12: byte-string equality and association-list facts used by the
    composition proofs. *)
From Coq Require Import Lia.
From HP Require Import Base.Bytes Base.Num Model.Elements Spec.ComposeSpec.

Lemma beq_true_iff : forall x y, beq x y = true <-> x = y.
Proof.
  induction x as [|a x IH]; intros [|c y]; cbn; split; intros H; try reflexivity; try discriminate.
  - apply andb_true_iff in H. destruct H as [Hac Hxy].
    apply N.eqb_eq in Hac. apply IH in Hxy. subst. reflexivity.
  - injection H as Hac Hxy. subst. rewrite N.eqb_refl. cbn. apply IH. reflexivity.
Qed.

Lemma beq_refl : forall x, beq x x = true.
Proof. intros x. apply beq_true_iff. reflexivity. Qed.

Lemma beq_false_iff : forall x y, beq x y = false <-> x <> y.
Proof.
  intros x y. split.
  - intros H E. apply beq_true_iff in E. congruence.
  - intros H. destruct (beq x y) eqn:E; [|reflexivity]. apply beq_true_iff in E. contradiction.
Qed.

Lemma beq_sym : forall x y, beq x y = beq y x.
Proof.
  intros x y. destruct (beq x y) eqn:E.
  - apply beq_true_iff in E. subst. symmetry. apply beq_refl.
  - symmetry. apply beq_false_iff. apply beq_false_iff in E. congruence.
Qed.

Lemma beq_spec : forall x y, reflect (x = y) (beq x y).
Proof.
  intros x y. destruct (beq x y) eqn:E; constructor.
  - apply beq_true_iff. exact E.
  - apply beq_false_iff. exact E.
Qed.

(** membership *)
Lemma mem_In : forall k l, mem k l = true <-> In k l.
Proof.
  intros k l. unfold mem. rewrite existsb_exists. split.
  - intros (x & Hin & Hx). apply beq_true_iff in Hx. subst. exact Hin.
  - intros Hin. exists k. split; [exact Hin | apply beq_refl].
Qed.

Lemma mem_app : forall k l1 l2, mem k (l1 ++ l2) = mem k l1 || mem k l2.
Proof. intros. unfold mem. apply existsb_app. Qed.

Section Assoc.
  Context {V : Type}.
  Implicit Types (l : list (bytes * V)).

  Lemma lookup_app : forall k l1 l2,
    lookup k (l1 ++ l2) = match lookup k l1 with Some v => Some v | None => lookup k l2 end.
  Proof.
    intros k l1 l2. induction l1 as [|[k' v'] r IH]; cbn; [reflexivity|].
    destruct (beq k k'); [reflexivity | exact IH].
  Qed.

  Lemma lookup_set_same : forall k v l, lookup k (set k v l) = Some v.
  Proof.
    intros k v l. induction l as [|[k' v'] r IH]; cbn.
    - rewrite beq_refl. reflexivity.
    - destruct (beq k k') eqn:E; cbn.
      + rewrite beq_refl. reflexivity.
      + rewrite E. exact IH.
  Qed.

  Lemma lookup_set_other : forall x k v l, x <> k -> lookup x (set k v l) = lookup x l.
  Proof.
    intros x k v l Hne. apply beq_false_iff in Hne.
    induction l as [|[k' v'] r IH]; cbn.
    - rewrite Hne. reflexivity.
    - destruct (beq k k') eqn:E; cbn.
      + apply beq_true_iff in E. subst k'. rewrite Hne. reflexivity.
      + destruct (beq x k'); [reflexivity | exact IH].
  Qed.

  Lemma lookup_none_mem : forall k l, lookup k l = None <-> mem k (keys l) = false.
  Proof.
    intros k l. induction l as [|[k' v'] r IH]; cbn.
    - split; reflexivity.
    - destruct (beq k k'); cbn; [split; discriminate | exact IH].
  Qed.

  Lemma lookup_some_mem : forall k l, (exists v, lookup k l = Some v) <-> mem k (keys l) = true.
  Proof.
    intros k l. destruct (lookup k l) as [v|] eqn:E.
    - split; [|intros _; eauto]. intros _.
      destruct (mem k (keys l)) eqn:M; [reflexivity|]. apply lookup_none_mem in M. congruence.
    - apply lookup_none_mem in E. rewrite E. split; [intros [v H]; discriminate | discriminate].
  Qed.

  (** [set] on a present key keeps the keys *)
  Lemma keys_set_present : forall k v l, mem k (keys l) = true -> keys (set k v l) = keys l.
  Proof.
    intros k v l. induction l as [|[k' v'] r IH]; cbn; [discriminate|].
    destruct (beq k k') eqn:E; cbn.
    - intros _. apply beq_true_iff in E. subst. reflexivity.
    - intros H. f_equal. apply IH. exact H.
  Qed.

  Lemma keys_app : forall l1 l2, keys (l1 ++ l2) = keys l1 ++ keys l2.
  Proof. intros. unfold keys. apply map_app. Qed.
End Assoc.

(** *** first-appearance union of key lists *)

(** the names of [l] not in [seen], each once, in order of first appearance *)
Fixpoint new_keys (seen : list bytes) (l : list bytes) : list bytes :=
  match l with
  | [] => []
  | k :: r => if mem k seen then new_keys seen r else k :: new_keys (seen ++ [k]) r
  end.

Lemma mem_ext : forall s s', (forall k, mem k s = mem k s') ->
  forall l, new_keys s l = new_keys s' l.
Proof.
  intros s s' H l. revert s s' H. induction l as [|k r IH]; intros s s' H; cbn; [reflexivity|].
  rewrite <- H. destruct (mem k s); [apply IH; exact H|].
  f_equal. apply IH. intros x. rewrite !mem_app, H. reflexivity.
Qed.

(** dropping the names of [s1] from the new names over [s2] gives the new names over both *)
Lemma new_keys_filter : forall l s1 s2,
  filter (fun k => negb (mem k s1)) (new_keys s2 l) = new_keys (s1 ++ s2) l.
Proof.
  induction l as [|k r IH]; intros s1 s2; cbn; [reflexivity|].
  rewrite mem_app.
  destruct (mem k s2) eqn:M2.
  - rewrite orb_true_r. apply IH.
  - rewrite orb_false_r. cbn [filter].
    destruct (mem k s1) eqn:M1; cbn [negb].
    + rewrite IH. apply mem_ext. intros x. rewrite !mem_app.
      destruct (beq_spec x k) as [->|Hne].
      * rewrite M1. reflexivity.
      * unfold mem at 3. cbn. apply beq_false_iff in Hne. rewrite Hne. cbn. rewrite orb_false_r. reflexivity.
    + f_equal. rewrite IH. rewrite app_assoc. reflexivity.
Qed.

Lemma new_keys_nil_filter : forall l s,
  new_keys s l = filter (fun k => negb (mem k s)) (new_keys [] l).
Proof. intros l s. rewrite new_keys_filter, app_nil_r. reflexivity. Qed.

Lemma new_keys_app : forall l1 l2 s,
  new_keys s (l1 ++ l2) = new_keys s l1 ++ new_keys (s ++ new_keys s l1) l2.
Proof.
  induction l1 as [|k r IH]; intros l2 s; cbn.
  - rewrite app_nil_r. reflexivity.
  - destruct (mem k s) eqn:M.
    + apply IH.
    + cbn. f_equal. rewrite IH. f_equal. rewrite <- app_assoc. reflexivity.
Qed.

(** a generic "insert or update" step keeps the first-appearance key order *)
Section Upsert.
  Context {V W : Type} (upd : bytes -> W -> list (bytes * V) -> list (bytes * V)).
  Hypothesis upd_keys : forall k w l,
    keys (upd k w l) = if mem k (keys l) then keys l else keys l ++ [k].

  Lemma fold_upsert_keys : forall (cs : list (bytes * W)) l,
    keys (fold_left (fun a nv => upd (fst nv) (snd nv) a) cs l) = keys l ++ new_keys (keys l) (map fst cs).
  Proof.
    induction cs as [|[k w] r IH]; intros l; cbn [fold_left map new_keys fst snd].
    - rewrite app_nil_r. reflexivity.
    - rewrite IH, upd_keys. destruct (mem k (keys l)); [reflexivity|].
      rewrite <- app_assoc. reflexivity.
  Qed.

  (** keys after folding two lists one after the other = union of the keys of the separate folds *)
  Lemma fold_upsert_keys_union : forall (cs1 cs2 : list (bytes * W)),
    let f := fun a nv => upd (fst nv) (snd nv) a in
    keys (fold_left f cs2 (fold_left f cs1 [])) =
    union_keys (keys (fold_left f cs1 [])) (keys (fold_left f cs2 [])).
  Proof.
    intros cs1 cs2 f. unfold union_keys, f.
    rewrite (fold_upsert_keys cs2 (fold_left _ cs1 [])), (fold_upsert_keys cs2 []), (fold_upsert_keys cs1 []).
    cbn [keys map app]. f_equal.
    apply new_keys_nil_filter.
  Qed.

  (** the same from an arbitrary first map *)
  Lemma fold_upsert_keys_from : forall (cs : list (bytes * W)) l,
    let f := fun a nv => upd (fst nv) (snd nv) a in
    keys (fold_left f cs l) = union_keys (keys l) (keys (fold_left f cs [])).
  Proof.
    intros cs l f. unfold union_keys, f.
    rewrite (fold_upsert_keys cs l), (fold_upsert_keys cs []).
    cbn [keys map app]. f_equal.
    apply new_keys_nil_filter.
  Qed.
End Upsert.
