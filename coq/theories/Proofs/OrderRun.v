(** WP19 / C05, part 4: from the sites to the program.  The walk over the log,
    every command, and [run]: output bytes and status are the same under any
    two bundles of order oracles. *)
From Coq Require Import Lia Permutation Sorted.
From HP Require Import Base.Bytes Base.Num Model.Scanner Model.Elements Model.Resolver Model.Tree Model.Writer
  Model.Dates Model.Parser Model.Reporters Model.Cli.
From HP Require Import Spec.ResolverSpec.
From HP Require Import Proofs.OrderSort Proofs.OrderSites Proofs.OrderInv.

(** * callbacks that agree pointwise drive the parser to the same result
      (no functional extensionality) *)
Section DriveExt.
  Context (NM : Num) {S E : Type} (cb1 cb2 : S -> event NM -> S * bool * option E).
  Hypothesis cb_ext : forall s ev, cb1 s ev = cb2 s ev.

  Lemma drive_loop_ext : forall evs s, drive_loop NM cb1 evs s = drive_loop NM cb2 evs s.
  Proof.
    induction evs as [|ev r IH]; intros s; cbn [drive_loop]; [reflexivity|].
    rewrite cb_ext. destruct (cb2 s ev) as [[s' stop] e]. destruct stop; [reflexivity|apply IH].
  Qed.

  Lemma drive_ext : forall evs last fin s, drive NM cb1 evs last fin s = drive NM cb2 evs last fin s.
  Proof.
    intros evs last fin s; unfold drive. rewrite drive_loop_ext.
    destruct (drive_loop NM cb2 evs s) as [s' [e|]]; [reflexivity|].
    destruct fin; try reflexivity. destruct last as [n|]; [|reflexivity].
    rewrite cb_ext; reflexivity.
  Qed.

  Lemma parse_stream_ext : forall data f s, parse_stream NM cb1 data f s = parse_stream NM cb2 data f s.
  Proof.
    intros data f s; unfold parse_stream.
    destruct (scan data f) as [lines fin]. destruct (parse_lines NM lines) as [evs last].
    apply drive_ext.
  Qed.
End DriveExt.

Section Run.
  Context (NM : Num).
  Notation T := (T NM).
  Notation elements := (elements NM).
  Notation db := (list (bytes * elements)).

  Lemma parse_opened_ext : forall (S : Type) (cb1 cb2 : S -> event NM -> S * bool * option cerr),
    (forall s ev, cb1 s ev = cb2 s ev) -> forall o s, parse_opened NM cb1 o s = parse_opened NM cb2 o s.
  Proof.
    intros S cb1 cb2 H o s; unfold parse_opened.
    destruct o as [d f|]; rewrite (parse_stream_ext NM cb1 cb2 H); reflexivity.
  Qed.

  (** ** the walk *)
  Section Walk.
    Variable R : reporter NM.
    Hypothesis HR : rep_indep NM R.
    Variables pd1 pd2 : nat -> list bytes -> list bytes.
    Variables pf1 pf2 : list bytes -> list bytes.
    Hypothesis Hpd1 : forall i, order_oracle (pd1 i).
    Hypothesis Hpd2 : forall i, order_oracle (pd2 i).
    Hypothesis Hpf1 : order_oracle pf1.
    Hypothesis Hpf2 : order_oracle pf2.

    (** one callback call: state, stop flag and error agree, in every state, on every event *)
    Lemma walk_cb_independent : forall toks bt et st ev,
      walk_cb NM R pd1 toks bt et st ev = walk_cb NM R pd2 toks bt et st ev.
    Proof.
      intros toks bt et [[rs i] wr] ev; unfold walk_cb.
      destruct ev as [n|e]; [|reflexivity].
      destruct (parse_date toks (header n)) as [c|]; [|reflexivity].
      destruct (in_interval bt et (time_of_civil c)); [|reflexivity].
      destruct HR as [Hproc _]. rewrite (Hproc (pd1 i) (pd2 i) (Hpd1 i) (Hpd2 i)). reflexivity.
    Qed.

    Lemma walk_and_finish_independent : forall toks bt et o wr,
      walk_and_finish NM R pd1 pf1 toks bt et o wr = walk_and_finish NM R pd2 pf2 toks bt et o wr.
    Proof.
      intros toks bt et o wr; unfold walk_and_finish.
      rewrite (parse_opened_ext _ (walk_cb NM R pd1 toks bt et) (walk_cb NM R pd2 toks bt et)
                 (walk_cb_independent toks bt et)).
      destruct (parse_opened NM (walk_cb NM R pd2 toks bt et) o (r_init NM R, 0%nat, wr)) as [[[rs i] wr1] werr].
      destruct HR as [_ Hflush]. rewrite (Hflush pf1 pf2 Hpf1 Hpf2). reflexivity.
    Qed.
  End Walk.

  (** ** nothing but the walk, the resolver and the two end-of-command sites reads [w_or] *)
  Lemma load_with_or : forall w o i, load (with_or w o) i = load w i.
  Proof. reflexivity. Qed.

  Lemma open_file_with_or : forall w o p, open_file (with_or w o) p = open_file w p.
  Proof. reflexivity. Qed.

  Lemma open_all_with_or : forall w o ps, open_all (with_or w o) ps = open_all w ps.
  Proof.
    intros w o ps; induction ps as [|p r IH]; cbn [open_all]; [reflexivity|].
    rewrite open_file_with_or, IH. reflexivity.
  Qed.

  Lemma new_writer_with_or : forall w o, new_writer (with_or w o) = new_writer w.
  Proof. reflexivity. Qed.

  Lemma time_from_string_with_or : forall w o now toks s,
    time_from_string (with_or w o) now toks s = time_from_string w now toks s.
  Proof. reflexivity. Qed.

  Lemma run_csv_db_with_or : forall w o op, run_csv_db NM (with_or w o) op = run_csv_db NM w op.
  Proof.
    intros w o op; unfold run_csv_db. rewrite open_all_with_or, new_writer_with_or. reflexivity.
  Qed.

  Lemma run_lint_with_or : forall w o f s, run_lint NM (with_or w o) f s = run_lint NM w f s.
  Proof.
    intros w o f s; unfold run_lint. rewrite open_all_with_or. reflexivity.
  Qed.

  Lemma run_stats_with_or : forall w o op, run_stats NM (with_or w o) op = run_stats NM w op.
  Proof.
    intros w o op; unfold run_stats. rewrite !open_file_with_or, new_writer_with_or. reflexivity.
  Qed.

  (** ** the commands, given the resolver's order independence (WP01) *)
  Section WithResolver.
    Hypothesis resolve_order_indep :
      forall N (B : Resolver.db NM) π1 π2, NoDup (keys B) -> Permutation (π1 (keys B)) (keys B) ->
        Permutation (π2 (keys B)) (keys B) -> resolve NM N π1 B = resolve NM N π2 B.

    Variable w : world.
    Variables o1 o2 : oracles.
    Hypothesis Ho1 : oracles_ok o1.
    Hypothesis Ho2 : oracles_ok o2.

    (** WithResolvedDatabase: the resolved book, or the error, is the same *)
    Lemma resolved_db_independent : forall op o,
      resolved_db NM (with_or w o1) op o = resolved_db NM (with_or w o2) op o.
    Proof.
      intros op o; unfold resolved_db.
      pose proof (load_db_NoDup NM o) as Hnd.
      destruct (load_db NM o) as [d [e|]]; [reflexivity|]. cbn [fst] in Hnd.
      cbn [w_or with_or].
      destruct Ho1 as (Hr1 & _ & _), Ho2 as (Hr2 & _ & _).
      rewrite (resolve_order_indep (Z.to_nat (op_depth op)) d (o_resolve o1) (o_resolve o2) Hnd
                 (Hr1 (keys d)) (Hr2 (keys d))).
      reflexivity.
    Qed.

    (** reg, bal, report unresolved / totals, summary *)
    Lemma run_db_log_independent : forall op (mk : db -> reporter NM) bt et,
      (forall d, rep_indep NM (mk d)) ->
      run_db_log NM (with_or w o1) op mk bt et = run_db_log NM (with_or w o2) op mk bt et.
    Proof.
      intros op mk bt et Hmk; unfold run_db_log.
      rewrite !open_all_with_or, !new_writer_with_or.
      destruct (open_all w [op_db op; op_log op]) as [[|odb [|olog [|x r]]]|]; try reflexivity.
      rewrite resolved_db_independent.
      destruct (resolved_db NM (with_or w o2) op odb) as [e|d]; [reflexivity|].
      destruct (tokenize (op_fmt op)) as [toks|]; [|reflexivity].
      cbn [w_or with_or].
      destruct Ho1 as (_ & Hd1 & Hf1), Ho2 as (_ & Hd2 & Hf2).
      rewrite (walk_and_finish_independent (mk d) (Hmk d) (o_day o1) (o_day o2) (o_flush o1) (o_flush o2)
                 Hd1 Hd2 Hf1 Hf2).
      reflexivity.
    Qed.

    (** report quantity, csv log, print *)
    Lemma run_log_independent : forall op (R : reporter NM),
      rep_indep NM R -> run_log NM (with_or w o1) op R = run_log NM (with_or w o2) op R.
    Proof.
      intros op R HR; unfold run_log.
      rewrite !open_all_with_or, !new_writer_with_or.
      destruct (open_all w [op_log op]) as [[|olog [|x r]]|]; try reflexivity.
      destruct (tokenize (op_fmt op)) as [toks|]; [|reflexivity].
      cbn [w_or with_or].
      destruct Ho1 as (_ & Hd1 & Hf1), Ho2 as (_ & Hd2 & Hf2).
      rewrite (walk_and_finish_independent R HR (o_day o1) (o_day o2) (o_flush o1) (o_flush o2)
                 Hd1 Hd2 Hf1 Hf2).
      reflexivity.
    Qed.

    (** report element-total *)
    Lemma run_element_total_independent : forall op x desc,
      run_element_total NM (with_or w o1) op x desc = run_element_total NM (with_or w o2) op x desc.
    Proof.
      intros op x desc; unfold run_element_total.
      rewrite !open_all_with_or, !new_writer_with_or.
      destruct x as [|x0 xr]; [reflexivity|].
      destruct (open_all w [op_db op]) as [[|odb [|y r]]|]; try reflexivity.
      rewrite resolved_db_independent.
      destruct (resolved_db NM (with_or w o2) op odb) as [e|d]; [reflexivity|].
      cbn [w_or with_or].
      destruct Ho1 as (_ & _ & Hf1), Ho2 as (_ & _ & Hf2).
      rewrite (element_total_list_independent NM (o_flush o1) (o_flush o2) Hf1 Hf2).
      reflexivity.
    Qed.

    (** csv database-resolved *)
    Lemma run_csv_db_resolved_independent : forall op,
      run_csv_db_resolved NM (with_or w o1) op = run_csv_db_resolved NM (with_or w o2) op.
    Proof.
      intros op; unfold run_csv_db_resolved.
      rewrite !open_all_with_or, !new_writer_with_or.
      destruct (open_all w [op_db op]) as [[|odb [|y r]]|]; try reflexivity.
      rewrite resolved_db_independent.
      destruct (resolved_db NM (with_or w o2) op odb) as [e|d]; [reflexivity|].
      cbn [w_or with_or].
      destruct Ho1 as (_ & _ & Hf1), Ho2 as (_ & _ & Hf2).
      rewrite (sort_oracle2 (o_flush o1) (o_flush o2) (keys d) Hf1 Hf2).
      reflexivity.
    Qed.

    (** ** the program *)
    Theorem run_order_independent_sec : forall i,
      run NM (with_or w o1) i = run NM (with_or w o2) i.
    Proof.
      intros i; unfold run. rewrite !load_with_or.
      destruct (load w i) as [e|op]; [reflexivity|].
      destruct (i_cmd i) as [| |file|arg| | | | | | | |arg|].
      - apply run_db_log_independent; intros d; apply reg_reporter_indep.
      - apply run_db_log_independent; intros d; apply bal_reporter_indep.
      - rewrite !run_lint_with_or; reflexivity.
      - apply run_element_total_independent.
      - apply run_db_log_independent; intros d; apply rep_unresolved_indep.
      - apply run_log_independent; apply rep_quantity_indep.
      - apply run_db_log_independent; intros d; apply rep_totals_indep.
      - apply run_log_independent; apply rep_csv_log_indep.
      - rewrite !run_csv_db_with_or; reflexivity.
      - apply run_csv_db_resolved_independent.
      - rewrite !run_stats_with_or; reflexivity.
      - rewrite !time_from_string_with_or.
        destruct (time_from_string w (op_now op) (rc_date (op_rc op)) arg) as [e|t]; [reflexivity|].
        apply run_db_log_independent; intros d; apply rep_summary_indep.
      - apply run_log_independent; apply rep_print_indep.
    Qed.
  End WithResolver.
End Run.

(** * the final statements *)

(** the resolver premise, named so that it reads as one line in the theorems *)
Definition resolver_order_independent (NM : Num) : Prop :=
  forall N (B : Resolver.db NM) π1 π2, NoDup (keys B) -> Permutation (π1 (keys B)) (keys B) ->
    Permutation (π2 (keys B)) (keys B) -> resolve NM N π1 B = resolve NM N π2 B.

Theorem run_order_independent : forall NM : Num,
  (forall N (B : Resolver.db NM) π1 π2, NoDup (keys B) -> Permutation (π1 (keys B)) (keys B) ->
     Permutation (π2 (keys B)) (keys B) -> resolve NM N π1 B = resolve NM N π2 B) ->
  forall w i o1 o2, oracles_ok o1 -> oracles_ok o2 ->
    run NM (with_or w o1) i = run NM (with_or w o2) i.
Proof.
  intros NM Hres w i o1 o2 H1 H2. apply run_order_independent_sec; assumption.
Qed.

(** the same without the update function: any two worlds that agree on files,
    configuration path, time zone, clock, sink and read faults *)
Theorem run_order_independent_worlds : forall NM : Num,
  resolver_order_independent NM ->
  forall w1 w2 i, same_but_oracles w1 w2 -> oracles_ok (w_or w1) -> oracles_ok (w_or w2) ->
    run NM w1 i = run NM w2 i.
Proof.
  intros NM Hres w1 w2 i Hs H1 H2.
  rewrite (same_but_oracles_with_or w1 w2 Hs), <- (with_or_self w1) at 1.
  apply run_order_independent; assumption.
Qed.

(** "every run": a run under any admissible oracles equals THE run under the
    identity oracles, so the program denotes a function of (files, flags,
    environment, clock, sink, faults) alone *)
Theorem run_is_a_function_of_its_inputs : forall NM : Num,
  resolver_order_independent NM ->
  forall w i, oracles_ok (w_or w) -> run NM w i = run NM (with_or w id_oracles) i.
Proof.
  intros NM Hres w i H. rewrite <- (with_or_self w) at 1.
  apply run_order_independent; [exact Hres|exact H|apply id_oracles_ok].
Qed.

(** the commands that never call the resolver need no premise at all *)
Definition resolver_free (c : command) : bool :=
  match c with
  | CQuantity | CCsvLog | CPrint | CCsvDb | CLint _ | CStats => true
  | _ => false
  end.

Theorem run_order_independent_resolver_free : forall NM : Num,
  forall w i o1 o2, resolver_free (i_cmd i) = true -> oracles_ok o1 -> oracles_ok o2 ->
    run NM (with_or w o1) i = run NM (with_or w o2) i.
Proof.
  intros NM w i o1 o2 Hc H1 H2; unfold run. rewrite !load_with_or.
  destruct (load w i) as [e|op]; [reflexivity|].
  destruct (i_cmd i) as [| |file|arg| | | | | | | |arg|]; try discriminate Hc.
  - rewrite !run_lint_with_or; reflexivity.
  - apply run_log_independent; try assumption; apply rep_quantity_indep.
  - apply run_log_independent; try assumption; apply rep_csv_log_indep.
  - rewrite !run_csv_db_with_or; reflexivity.
  - rewrite !run_stats_with_or; reflexivity.
  - apply run_log_independent; try assumption; apply rep_print_indep.
Qed.

(** * the clock: with [--today] on the command line the program never looks at
      [time.Now()], so the "inputs" of C05 are files, flags, environment (time
      zone included) and the --today date; the clock and the map orders are not *)
Definition with_clock (w : world) (c : time) : world :=
  {| w_fs := w_fs w; w_default_config := w_default_config w; w_tz := w_tz w; w_clock := c;
     w_or := w_or w; w_sink := w_sink w; w_read_fault := w_read_fault w |}.

Lemma load_clock_independent : forall w i c1 c2 s, i_f_today i = Some s ->
  load (with_clock w c1) i = load (with_clock w c2) i.
Proof.
  intros w i c1 c2 s Ht; unfold load. rewrite Ht.
  change (load_config (with_clock w c1) i) with (load_config w i).
  change (load_config (with_clock w c2) i) with (load_config w i).
  destruct (load_config w i) as [e|cfg]; [reflexivity|].
  destruct (tokenize _) as [toks|]; [|reflexivity].
  destruct (parse_date toks s) as [c|]; reflexivity.
Qed.

Theorem run_clock_independent : forall NM : Num,
  forall w i c1 c2 s, i_f_today i = Some s ->
    run NM (with_clock w c1) i = run NM (with_clock w c2) i.
Proof.
  intros NM w i c1 c2 s Ht; unfold run. rewrite (load_clock_independent w i c1 c2 s Ht).
  destruct (load (with_clock w c2) i) as [e|op]; [reflexivity|].
  destruct (i_cmd i); reflexivity.
Qed.

(** C05 in one statement: two executions whose files, flags/environment
    (the invocation, the default configuration path, the time zone), output
    sink and read faults are the same and that are given a --today date
    produce the same bytes and the same status, whatever the clock shows and
    whatever orders the runtime picks for its maps *)
Theorem run_deterministic : forall NM : Num,
  resolver_order_independent NM ->
  forall w1 w2 i s,
    w_fs w1 = w_fs w2 -> w_default_config w1 = w_default_config w2 -> w_tz w1 = w_tz w2 ->
    w_sink w1 = w_sink w2 -> w_read_fault w1 = w_read_fault w2 ->
    i_f_today i = Some s ->
    oracles_ok (w_or w1) -> oracles_ok (w_or w2) ->
    run NM w1 i = run NM w2 i.
Proof.
  intros NM Hres [f1 c1 z1 k1 o1 s1 r1] [f2 c2 z2 k2 o2 s2 r2] i s; cbn.
  intros -> -> -> -> -> Ht H1 H2.
  set (w := {| w_fs := f2; w_default_config := c2; w_tz := z2; w_clock := k2; w_or := o2;
               w_sink := s2; w_read_fault := r2 |}).
  change ({| w_fs := f2; w_default_config := c2; w_tz := z2; w_clock := k1; w_or := o1;
             w_sink := s2; w_read_fault := r2 |}) with (with_clock (with_or w o1) k1).
  rewrite (run_clock_independent NM (with_or w o1) i k1 k2 s Ht).
  change (with_clock (with_or w o1) k2) with (with_or w o1).
  change w with (with_or w o2) at 2.
  apply run_order_independent; assumption.
Qed.

Print Assumptions run_order_independent.
Print Assumptions run_order_independent_worlds.
Print Assumptions run_order_independent_resolver_free.
Print Assumptions run_clock_independent.
Print Assumptions run_deterministic.
