(** WP01 – the reference semantics of Spec/ResolverSpec.v: chains ([reach]),
    cycles ([refs]) and the memo-free evaluator [ref_node].  For every [Num]. *)
From Coq Require Import Lia Permutation.
From HP Require Import Base.Bytes Base.Num Model.Elements Model.Resolver Spec.ResolverSpec.
From HP Require Import Proofs.ResolverAssoc.
Local Open Scope nat_scope.

Section Ref.
  Context (NM : Num).
  Notation T := (T NM).
  Notation elements := (elements NM).
  Notation db := (db NM).
  Variable B : db.

  Notation reach := (reach NM B).
  Notation reachb := (reachb NM B).
  Notation refs := (refs NM B).
  Notation ref_node := (ref_node NM B).
  Notation ref_loop := (ref_loop NM).

  (** * chains *)
  Lemma reach_S : forall n r, reach (S n) r -> reach n r.
  Proof.
    induction n as [|n IH]; intros r H; [exact I|].
    destruct H as (els & Hl & e & v & Hin & Hr).
    exists els. split; [exact Hl|]. exists e, v. split; [exact Hin|]. apply IH. exact Hr.
  Qed.

  Lemma reach_le : forall m n r, m <= n -> reach n r -> reach m r.
  Proof.
    intros m n r Hle. induction Hle as [|n Hle IH]; intros H; [exact H|].
    apply IH. apply reach_S. exact H.
  Qed.

  Lemma reach_step : forall n r els e v,
      lookup r B = Some els -> In (e, v) els -> reach n e -> reach (S n) r.
  Proof.
    intros n r els e v Hl Hin Hr. exists els. split; [exact Hl|]. exists e, v. split; assumption.
  Qed.

  Lemma reach_S_inv : forall n r els,
      lookup r B = Some els -> reach (S n) r -> exists e v, In (e, v) els /\ reach n e.
  Proof.
    intros n r els Hl (els' & Hl' & e & v & Hin & Hr).
    rewrite Hl in Hl'. inversion Hl'; subst. exists e, v. split; assumption.
  Qed.

  Lemma reach_S_undefined : forall n r, lookup r B = None -> ~ reach (S n) r.
  Proof. intros n r Hl (els & Hl' & _). congruence. Qed.

  (** the boolean mirror decides [reach] *)
  Lemma reachb_spec : forall n r, reachb n r = true <-> reach n r.
  Proof.
    induction n as [|n IH]; intros r; cbn [ResolverSpec.reachb ResolverSpec.reach].
    - split; intros _; [exact I|reflexivity].
    - destruct (lookup r B) as [els|] eqn:Hl.
      + rewrite existsb_exists. split.
        * intros ([e v] & Hin & Hb). cbn [fst] in Hb. exists els. split; [reflexivity|].
          exists e, v. split; [exact Hin|]. apply IH. exact Hb.
        * intros (els' & Hl' & e & v & Hin & Hr). inversion Hl'; subst els'.
          exists (e, v). split; [exact Hin|]. cbn [fst]. apply IH. exact Hr.
      + split; [discriminate|]. intros (els & Hl' & _). discriminate.
  Qed.

  Lemma reachb_false_iff : forall n r, reachb n r = false <-> ~ reach n r.
  Proof.
    intros n r. rewrite <- reachb_spec. destruct (reachb n r); split; congruence.
  Qed.

  Lemma reach_dec : forall n r, {reach n r} + {~ reach n r}.
  Proof.
    intros n r. destruct (reachb n r) eqn:E; [left; apply reachb_spec; exact E|right; apply reachb_false_iff; exact E].
  Qed.

  Lemma depth_ltb_spec : forall N, depth_ltb NM B N = true <-> depth_lt NM B N.
  Proof.
    intros N. unfold depth_ltb, depth_lt. rewrite forallb_forall. split.
    - intros H r Hin. apply reachb_false_iff. specialize (H r Hin).
      destruct (reachb N r); [discriminate|reflexivity].
    - intros H r Hin. apply H in Hin. apply reachb_false_iff in Hin. rewrite Hin. reflexivity.
  Qed.

  (** * cycles *)
  Lemma refs_defined : forall r e, refs r e -> exists els, lookup r B = Some els.
  Proof.
    intros r e H. induction H as [r els e v Hl Hin|r m e H1 IH1 H2 IH2]; [exists els; exact Hl|exact IH1].
  Qed.

  Lemma refs_in_keys : forall r e, refs r e -> In r (keys B).
  Proof.
    intros r e H. destruct (refs_defined r e H) as [els Hl]. eapply lookup_some_in_keys. exact Hl.
  Qed.

  Lemma refs_reach : forall r e, refs r e -> forall n, reach n e -> reach (S n) r.
  Proof.
    intros r e H. induction H as [r els e v Hl Hin|r m e H1 IH1 H2 IH2]; intros n Hr.
    - eapply reach_step; eassumption.
    - apply reach_S. apply IH1. apply IH2. exact Hr.
  Qed.

  (** a recipe on a cycle starts chains of every length *)
  Lemma on_cycle_reach : forall r, on_cycle NM B r -> forall n, reach n r.
  Proof.
    intros r Hc. induction n as [|n IH]; [exact I|].
    eapply refs_reach; [exact Hc|exact IH].
  Qed.

  (** ... and so does everything that refers to it *)
  Lemma refs_cycle_reach : forall p r, refs p r -> refs r p -> forall n, reach n r.
  Proof.
    intros p r Hpr Hrp. apply on_cycle_reach. unfold on_cycle. eapply refs_trans; eassumption.
  Qed.

  (** * the reference evaluator *)

  (** the loop fails exactly when the evaluation of some ingredient fails *)
  Lemma ref_loop_none_iff : forall (rec : bytes -> option (nat * option elements)) els nel h,
      ref_loop rec els nel h = None <-> exists e v, In (e, v) els /\ rec e = None.
  Proof.
    intros rec. induction els as [|[e v] rest IH]; intros nel h; cbn [ResolverSpec.ref_loop].
    - split; [discriminate|]. intros (e & v & [] & _).
    - destruct (rec e) as [[he res]|] eqn:Er.
      + rewrite IH. split.
        * intros (e' & v' & Hin & Hn). exists e', v'. split; [right; exact Hin|exact Hn].
        * intros (e' & v' & [Hin|Hin] & Hn).
          -- inversion Hin; subst. congruence.
          -- exists e', v'. split; assumption.
      + split; [|reflexivity]. intros _. exists e, v. split; [left; reflexivity|exact Er].
  Qed.

  (** C11, reference side: evaluation with fuel [f] hits the limit exactly when a
      chain of [f] references starts at the name *)
  Theorem ref_node_fails_iff_reach : forall f r, ref_node f r = None <-> reach f r.
  Proof.
    induction f as [|f IH]; intros r; cbn [ResolverSpec.ref_node].
    - split; intros _; [exact I|reflexivity].
    - destruct (lookup r B) as [els|] eqn:Hl.
      + destruct (ref_loop (ref_node f) els [] 0) as [[h nel]|] eqn:El.
        * split; [discriminate|]. intros Hr. exfalso.
          destruct (reach_S_inv _ _ _ Hl Hr) as (e & v & Hin & Hre).
          assert (Hn : ref_loop (ref_node f) els [] 0 = None).
          { apply ref_loop_none_iff. exists e, v. split; [exact Hin|]. apply IH. exact Hre. }
          congruence.
        * split; [|reflexivity]. intros _.
          apply ref_loop_none_iff in El. destruct El as (e & v & Hin & Hn).
          eapply reach_step; [exact Hl|exact Hin|]. apply IH. exact Hn.
      + split; [discriminate|]. intros Hr. exfalso. eapply reach_S_undefined; eassumption.
  Qed.

  (** the height returned is the length of the longest chain *)
  Lemma ref_loop_height : forall f,
      (forall r h x, ref_node f r = Some (h, x) -> reach h r /\ ~ reach (S h) r) ->
      forall els nel h0 h nel',
        ref_loop (ref_node f) els nel h0 = Some (h, nel') ->
        h0 <= h /\ (forall e v, In (e, v) els -> ~ reach h e) /\
        (h = h0 \/ exists e v k, In (e, v) els /\ h = S k /\ reach k e).
  Proof.
    intros f IHf. induction els as [|[e v] rest IH]; intros nel h0 h nel' H; cbn [ResolverSpec.ref_loop] in H.
    - inversion H; subst. split; [lia|]. split; [intros e v []|left; reflexivity].
    - destruct (ref_node f e) as [[he res]|] eqn:Er; [|discriminate].
      apply IH in H. destruct H as (Hle & Hno & Hex).
      destruct (IHf _ _ _ Er) as [Hre Hnre].
      split; [lia|]. split.
      + intros e' v' [Hin|Hin].
        * inversion Hin; subst. intros Hr. apply Hnre. eapply reach_le; [|exact Hr]. lia.
        * eapply Hno. exact Hin.
      + destruct Hex as [Hex|(e' & v' & k & Hin & Hk & Hr)].
        * destruct (Nat.max_spec h0 (S he)) as [[_ Hm]|[_ Hm]].
          -- right. exists e, v, he. split; [left; reflexivity|]. split; [lia|exact Hre].
          -- left. lia.
        * right. exists e', v', k. split; [right; exact Hin|]. split; assumption.
  Qed.

  Lemma ref_node_height : forall f r h x,
      ref_node f r = Some (h, x) -> reach h r /\ ~ reach (S h) r.
  Proof.
    induction f as [|f IH]; intros r h x H; cbn [ResolverSpec.ref_node] in H; [discriminate|].
    destruct (lookup r B) as [els|] eqn:Hl.
    - destruct (ref_loop (ref_node f) els [] 0) as [[h' nel]|] eqn:El; [|discriminate].
      inversion H; subst h' x. clear H.
      destruct (ref_loop_height f IH _ _ _ _ _ El) as (_ & Hno & Hex). split.
      + destruct Hex as [Hex|(e & v & k & Hin & Hk & Hr)]; [subst; exact I|].
        subst h. eapply reach_step; eassumption.
      + intros Hr. destruct (reach_S_inv _ _ _ Hl Hr) as (e & v & Hin & Hre).
        eapply Hno; eassumption.
    - inversion H; subst. split; [exact I|]. apply reach_S_undefined. exact Hl.
  Qed.

  Lemma ref_node_height_lt : forall f r h x, ref_node f r = Some (h, x) -> h < f.
  Proof.
    intros f r h x H. destruct (le_lt_dec f h) as [Hle|Hlt]; [|exact Hlt]. exfalso.
    destruct (ref_node_height _ _ _ _ H) as [Hr _].
    assert (Hn : ref_node f r = None) by (apply ref_node_fails_iff_reach; eapply reach_le; eassumption).
    congruence.
  Qed.

  (** once it succeeds, the result does not depend on the fuel *)
  Lemma ref_loop_agree : forall (rec1 rec2 : bytes -> option (nat * option elements)),
      (forall e a c, rec1 e = Some a -> rec2 e = Some c -> a = c) ->
      forall els nel h a c,
        ref_loop rec1 els nel h = Some a -> ref_loop rec2 els nel h = Some c -> a = c.
  Proof.
    intros rec1 rec2 Hag. induction els as [|[e v] rest IH]; intros nel h a c H1 H2;
      cbn [ResolverSpec.ref_loop] in H1, H2.
    - congruence.
    - destruct (rec1 e) as [[h1 r1]|] eqn:E1; [|discriminate].
      destruct (rec2 e) as [[h2 r2]|] eqn:E2; [|discriminate].
      specialize (Hag _ _ _ E1 E2). inversion Hag; subst h2 r2.
      eapply IH; eassumption.
  Qed.

  Lemma ref_node_agree : forall f g r a c,
      ref_node f r = Some a -> ref_node g r = Some c -> a = c.
  Proof.
    induction f as [|f IH]; intros g r a c H1 H2; [discriminate|].
    destruct g as [|g]; [discriminate|]. cbn [ResolverSpec.ref_node] in H1, H2.
    destruct (lookup r B) as [els|] eqn:Hl; [|congruence].
    destruct (ref_loop (ref_node f) els [] 0) as [[h1 n1]|] eqn:E1; [|discriminate].
    destruct (ref_loop (ref_node g) els [] 0) as [[h2 n2]|] eqn:E2; [|discriminate].
    assert (Heq : (h1, n1) = (h2, n2)).
    { eapply ref_loop_agree; [|exact E1|exact E2]. intros e a' c'. apply IH. }
    inversion Heq; subst. congruence.
  Qed.

  (** complete description of [ref_node] as a function of the fuel *)
  Theorem ref_node_fuel : forall f r h x,
      ref_node f r = Some (h, x) ->
      forall g, ref_node g r = if Nat.leb g h then None else Some (h, x).
  Proof.
    intros f r h x H g. destruct (ref_node_height _ _ _ _ H) as [Hr Hnr].
    destruct (Nat.leb_spec g h) as [Hle|Hlt].
    - apply ref_node_fails_iff_reach. eapply reach_le; eassumption.
    - destruct (ref_node g r) as [c|] eqn:Eg.
      + f_equal. symmetry. eapply ref_node_agree; eassumption.
      + exfalso. apply Hnr. apply ref_node_fails_iff_reach in Eg. eapply reach_le; [|exact Eg]. lia.
  Qed.

  Corollary ref_node_fuel_mono : forall f g r a, f <= g -> ref_node f r = Some a -> ref_node g r = Some a.
  Proof.
    intros f g r [h x] Hle H. rewrite (ref_node_fuel _ _ _ _ H g).
    pose proof (ref_node_height_lt _ _ _ _ H) as Hlt.
    destruct (Nat.leb_spec g h) as [Hgh|_]; [lia|reflexivity].
  Qed.

  Lemma ref_node_undefined : forall f r, lookup r B = None -> ref_node (S f) r = Some (0, None).
  Proof. intros f r Hl. cbn [ResolverSpec.ref_node]. rewrite Hl. reflexivity. Qed.

  Lemma ref_node_defined_value : forall f r els h x,
      lookup r B = Some els -> ref_node f r = Some (h, x) -> exists v, x = Some v.
  Proof.
    intros [|f] r els h x Hl H; cbn [ResolverSpec.ref_node] in H; [discriminate|].
    rewrite Hl in H. destruct (ref_loop (ref_node f) els [] 0) as [[h' nel]|]; [|discriminate].
    inversion H; subst. eexists. reflexivity.
  Qed.

  Lemma ref_node_value_defined : forall f r h v,
      ref_node f r = Some (h, Some v) -> exists els, lookup r B = Some els.
  Proof.
    intros [|f] r h v H; cbn [ResolverSpec.ref_node] in H; [discriminate|].
    destruct (lookup r B) as [els|]; [exists els; reflexivity|discriminate].
  Qed.

  (** "N or more references long": chains are downward closed, so [reach N r]
      says that some chain of at least [N] references starts at [r] *)
  Lemma reach_ge_iff : forall N r, (exists n, N <= n /\ reach n r) <-> reach N r.
  Proof.
    intros N r. split.
    - intros (n & Hle & Hr). eapply reach_le; eassumption.
    - intros Hr. exists N. split; [lia|exact Hr].
  Qed.

  (** * converse of [on_cycle_reach] (pigeonhole): in a book without cycles no
        chain is longer than the number of recipes *)
  Lemma reach_bound_or_cycle : forall n r seen,
      NoDup seen -> (forall s, In s seen -> refs s r) -> reach n r ->
      (exists c, on_cycle NM B c) \/ length seen + n <= length (keys B).
  Proof.
    induction n as [|n IH]; intros r seen Hnd Hseen Hr.
    - right. rewrite Nat.add_0_r. apply NoDup_incl_length; [exact Hnd|].
      intros s Hs. eapply refs_in_keys. apply Hseen. exact Hs.
    - destruct Hr as (els & Hl & e & v & Hin & Hre).
      destruct (in_dec bytes_eq_dec r seen) as [Hrs|Hrs].
      + left. exists r. apply Hseen. exact Hrs.
      + destruct (IH e (r :: seen)) as [Hc|Hb].
        * constructor; assumption.
        * intros s [Hs|Hs].
          -- subst s. eapply refs_one; eassumption.
          -- eapply refs_trans; [apply Hseen; exact Hs|]. eapply refs_one; eassumption.
        * exact Hre.
        * left. exact Hc.
        * right. cbn [length] in Hb. lia.
  Qed.

  Theorem long_chain_cyclic : forall n r,
      length (keys B) < n -> reach n r -> exists c, on_cycle NM B c.
  Proof.
    intros n r Hlt Hr.
    destruct (reach_bound_or_cycle n r [] (NoDup_nil _)) as [Hc|Hb]; [intros s []|exact Hr|exact Hc|].
    cbn [length] in Hb. lia.
  Qed.

  Corollary acyclic_reach_bound : forall n r,
      (forall c, ~ on_cycle NM B c) -> reach n r -> n <= length (keys B).
  Proof.
    intros n r Hac Hr. destruct (le_lt_dec n (length (keys B))) as [Hle|Hlt]; [exact Hle|].
    destruct (long_chain_cyclic n r Hlt Hr) as [c Hc]. exfalso. eapply Hac. exact Hc.
  Qed.
End Ref.
