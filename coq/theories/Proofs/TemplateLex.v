(** WP24: what the lexer's trim markers do.  One lexer step is characterised
    exactly ([lex_top_text], [lex_top_action]); the trimming functions get
    their specification ([trim_left_spec], [trim_right_spec]); the fuel of
    [lex_top] is shown sufficient ([lex_top_fuel]); and the general statement
    [lex_trim_spec]: white space between a text and a left delimiter with a trim
    marker is immaterial to the result of the lexer (hence of the parser). *)
From Coq Require Import Lia.
From HP Require Import Base.Bytes Model.Template.

(** * white space and the two trimming functions *)

Lemma is_ws_memb (c : N) : memb c ws_set = is_ws c.
Proof.
  unfold memb, ws_set, is_ws. cbn [existsb]. rewrite orb_false_r, !orb_assoc. reflexivity.
Qed.

Definition all_ws (w : bytes) : Prop := Forall (fun c => is_ws c = true) w.

Lemma trim_left_spec (set s : bytes) :
  exists w, s = w ++ trim_left set s
            /\ Forall (fun c => memb c set = true) w
            /\ match trim_left set s with c :: _ => memb c set = false | [] => True end.
Proof.
  induction s as [|c r IH]; cbn [trim_left].
  - exists []. repeat split. constructor.
  - destruct (memb c set) eqn:E.
    + destruct IH as [w [H1 [H2 H3]]]. exists (c :: w). repeat split.
      * cbn [app]. rewrite <- H1. reflexivity.
      * constructor; assumption.
      * exact H3.
    + exists []. repeat split; [constructor | exact E].
Qed.

Lemma trim_left_app_ws (w s : bytes) : all_ws w -> trim_left ws_set (w ++ s) = trim_left ws_set s.
Proof.
  intros H. induction H as [|c w Hc H IH]; [reflexivity|].
  cbn [app trim_left]. rewrite is_ws_memb, Hc. exact IH.
Qed.

Lemma trim_right_app_ws (t w : bytes) : all_ws w -> trim_right ws_set (t ++ w) = trim_right ws_set t.
Proof.
  intros H. unfold trim_right. rewrite rev_app_distr. rewrite trim_left_app_ws; [reflexivity|].
  apply Forall_rev. exact H.
Qed.

Lemma trim_right_spec (set s : bytes) :
  exists w, s = trim_right set s ++ w
            /\ Forall (fun c => memb c set = true) w
            /\ (trim_right set s = [] \/ exists p c, trim_right set s = p ++ [c] /\ memb c set = false).
Proof.
  unfold trim_right. destruct (trim_left_spec set (rev s)) as [w [H1 [H2 H3]]].
  exists (rev w). repeat split.
  - rewrite <- rev_app_distr, <- H1, rev_involutive. reflexivity.
  - apply Forall_rev. exact H2.
  - destruct (trim_left set (rev s)) as [|c r]; [left; reflexivity|].
    right. exists (rev r), c. split; [reflexivity | exact H3].
Qed.

Lemma trim_left_length (set s : bytes) : (length (trim_left set s) <= length s)%nat.
Proof.
  induction s as [|c r IH]; cbn [trim_left]; [lia|]. destruct (memb c set); cbn [length]; lia.
Qed.

(** * finding the left delimiter *)

(** no left brace of [u] is followed by a left brace or by the end of [u]:
    exactly the texts [u] after which a left delimiter is found at position [length u] *)
Fixpoint no_ld (u : bytes) : bool :=
  match u with
  | [] => true
  | c :: r => negb ((c =? 123) && (match r with c' :: _ => c' =? 123 | [] => true end)) && no_ld r
  end.

Lemma split_text_app (u r : bytes) : no_ld u = true -> split_text (u ++ 123 :: 123 :: r) = (u, Some r).
Proof.
  induction u as [|c u IH]; intros H.
  - reflexivity.
  - cbn [no_ld] in H. apply andb_true_iff in H. destruct H as [H1 H2].
    cbn [app split_text].
    replace ((c =? 123) && match u ++ 123 :: 123 :: r with c' :: _ => c' =? 123 | [] => false end) with false.
    + rewrite (IH H2). reflexivity.
    + symmetry. apply negb_true_iff in H1. destruct (c =? 123); [|reflexivity]. cbn [andb] in *.
      destruct u as [|c' u']; [discriminate|]. exact H1.
Qed.

Lemma split_text_some (s t r : bytes) :
  split_text s = (t, Some r) -> s = t ++ 123 :: 123 :: r /\ no_ld t = true.
Proof.
  revert t r. induction s as [|c s IH]; intros t r H; cbn [split_text] in H; [discriminate|].
  destruct ((c =? 123) && match s with c' :: _ => c' =? 123 | [] => false end) eqn:E.
  - injection H as <- <-. apply andb_true_iff in E. destruct E as [E1 E2].
    destruct s as [|c' s']; [discriminate|]. apply N.eqb_eq in E1, E2. subst. split; reflexivity.
  - destruct (split_text s) as [t' o] eqn:Es. injection H as <- ->.
    destruct (IH t' r eq_refl) as [H1 H2]. split.
    + cbn [app]. rewrite <- H1. reflexivity.
    + cbn [no_ld]. rewrite H2, andb_true_r. apply negb_true_iff.
      destruct (c =? 123); [|reflexivity]. cbn [andb] in *.
      destruct t' as [|c' t''].
      * cbn [app] in H1. subst s. discriminate.
      * cbn [app] in H1. subst s. exact E.
Qed.

Lemma split_text_none (s t : bytes) : split_text s = (t, None) -> t = s.
Proof.
  revert t. induction s as [|c s IH]; intros t H; cbn [split_text] in H.
  - injection H as <-. reflexivity.
  - destruct ((c =? 123) && match s with c' :: _ => c' =? 123 | [] => false end); [discriminate|].
    destruct (split_text s) as [t' o] eqn:Es. injection H as <- ->. rewrite (IH t' eq_refl). reflexivity.
Qed.

(** white space after a text keeps the position of the next delimiter *)
Lemma no_ld_app_ws (t w : bytes) : no_ld t = true -> w <> [] -> all_ws w -> no_ld (t ++ w) = true.
Proof.
  intros Ht Hw Hall. induction t as [|c t IH].
  - cbn [app]. clear Hw. induction Hall as [|c w Hc Hall IH]; [reflexivity|].
    cbn [no_ld]. rewrite IH, andb_true_r. apply negb_true_iff.
    destruct (c =? 123) eqn:E; [|reflexivity]. apply N.eqb_eq in E. subst. discriminate.
  - cbn [no_ld] in Ht. apply andb_true_iff in Ht. destruct Ht as [H1 H2].
    cbn [app no_ld]. rewrite (IH H2), andb_true_r. apply negb_true_iff. apply negb_true_iff in H1.
    destruct (c =? 123); [|reflexivity]. cbn [andb] in *.
    destruct t as [|c' t']; [discriminate|]. exact H1.
Qed.

(** * the remaining input only gets shorter *)

Lemma span_length (p : N -> bool) (s a rest : bytes) : span p s = (a, rest) -> (length rest <= length s)%nat.
Proof.
  revert a rest. induction s as [|c r IH]; intros a rest H; cbn [span] in H.
  - injection H as <- <-. cbn [length]. lia.
  - destruct (p c).
    + destruct (span p r) as [a' rest'] eqn:E. injection H as <- <-. specialize (IH a' rest' eq_refl). cbn [length]. lia.
    + injection H as <- <-. lia.
Qed.

Lemma lex_chain_length (fuel : nat) (s rest : bytes) (ch : list bytes) :
  lex_chain fuel s = Some (ch, rest) -> (length rest <= length s)%nat.
Proof.
  revert s rest ch. induction fuel as [|f IH]; intros s rest ch H; cbn [lex_chain] in H; [discriminate|].
  destruct s as [|c r]; [injection H as <- <-; lia|].
  destruct (c =? 46); [|injection H as <- <-; lia].
  destruct r as [|c1 r1]; [discriminate|].
  destruct (is_alpha c1); [|discriminate].
  destruct (span is_alnum (c1 :: r1)) as [w rest0] eqn:Es.
  destruct (lex_chain f rest0) as [[ch' rest']|] eqn:Ec; [|discriminate].
  injection H as <- <-. apply span_length in Es. apply IH in Ec. cbn [length] in *. lia.
Qed.

Lemma lex_string_length_aux (n : nat) (s str rest : bytes) :
  (length s <= n)%nat -> lex_string s = Some (str, rest) -> (length rest <= length s)%nat.
Proof.
  revert s str rest. induction n as [|n IH]; intros s str rest Hn H.
  - destruct s as [|c r]; [discriminate | cbn [length] in Hn; lia].
  - destruct s as [|c r]; cbn [lex_string] in H; [discriminate|]. cbn [length] in Hn.
    destruct (c =? 34); [injection H as <- <-; cbn [length]; lia|].
    destruct (c =? 92).
    + destruct r as [|e r']; [discriminate|]. cbn [length] in Hn.
      assert (Hr' : forall x, match lex_string r' with Some (str0, rest0) => Some (x :: str0, rest0) | None => None end
                              = Some (str, rest) -> (length rest <= length (c :: e :: r'))%nat).
      { intros x Hx. destruct (lex_string r') as [[str0 rest0]|] eqn:E; [|discriminate]. injection Hx as <- <-.
        apply IH in E; [cbn [length]; lia | lia]. }
      destruct (e =? 116); [apply (Hr' _ H)|].
      destruct (e =? 110); [apply (Hr' _ H)|].
      destruct (e =? 34); [apply (Hr' _ H)|].
      destruct (e =? 92); [apply (Hr' _ H)|]. discriminate.
    + destruct ((32 <=? c) && (c <=? 126)); [|discriminate].
      destruct (lex_string r) as [[str0 rest0]|] eqn:E; [|discriminate]. injection H as <- <-.
      apply IH in E; [cbn [length]; lia | lia].
Qed.

Lemma lex_string_length (s str rest : bytes) : lex_string s = Some (str, rest) -> (length rest <= length s)%nat.
Proof. apply (lex_string_length_aux (length s)). lia. Qed.

Lemma cons_tok_some (t : token) (o : option (list token * bool * bytes)) (ts : list token) (tr : bool) (rest : bytes) :
  cons_tok t o = Some (ts, tr, rest) -> exists ts', o = Some (ts', tr, rest).
Proof.
  destruct o as [[[ts' tr'] rest']|]; cbn [cons_tok]; intros H; [|discriminate].
  injection H as <- <- <-. exists ts'. reflexivity.
Qed.

Lemma skipn_length_le {A : Type} (n : nat) (l : list A) : (length (skipn n l) <= length l)%nat.
Proof. rewrite skipn_length. lia. Qed.

Lemma lex_action_length (fuel : nat) (s rest : bytes) (ts : list token) (tr : bool) :
  lex_action fuel s = Some (ts, tr, rest) -> (length rest <= length s)%nat.
Proof.
  revert s rest ts tr. induction fuel as [|f IH]; intros s rest ts tr H; cbn [lex_action] in H; [discriminate|].
  destruct s as [|c r]; [discriminate|].
  destruct (is_rtrim (c :: r)); [injection H as <- <- <-; apply (skipn_length_le 4 (c :: r))|].
  destruct (is_rdelim (c :: r)); [injection H as <- <- <-; apply (skipn_length_le 2 (c :: r))|].
  destruct (is_ws c); [apply IH in H; cbn [length]; lia|].
  destruct (c =? 40); [apply cons_tok_some in H; destruct H as [ts' H]; apply IH in H; cbn [length]; lia|].
  destruct (c =? 41).
  { destruct (ends_operand r); [|discriminate].
    apply cons_tok_some in H; destruct H as [ts' H]; apply IH in H; cbn [length]; lia. }
  destruct (c =? 58).
  { destruct r as [|e r']; [discriminate|]. destruct (e =? 61); [|discriminate].
    apply cons_tok_some in H; destruct H as [ts' H]; apply IH in H; cbn [length]; lia. }
  destruct (c =? 34).
  { destruct (lex_string r) as [[str rest0]|] eqn:E; [|discriminate].
    destruct (ends_operand rest0); [|discriminate].
    apply cons_tok_some in H; destruct H as [ts' H]; apply IH in H. apply lex_string_length in E. cbn [length]; lia. }
  destruct (c =? 36).
  { destruct (span is_alnum r) as [w r1] eqn:Es.
    destruct (lex_chain f r1) as [[ch rest0]|] eqn:Ec; [|discriminate].
    destruct (ends_operand rest0 || match rest0 with c' :: _ => c' =? 58 | [] => false end); [|discriminate].
    apply cons_tok_some in H; destruct H as [ts' H]; apply IH in H.
    apply span_length in Es. apply lex_chain_length in Ec. cbn [length]; lia. }
  destruct (c =? 46).
  { destruct r as [|c1 r1]; [discriminate|].
    destruct (is_alpha c1).
    - destruct (lex_chain f (c :: c1 :: r1)) as [[ch rest0]|] eqn:Ec; [|discriminate].
      destruct (ends_operand rest0); [|discriminate].
      apply cons_tok_some in H; destruct H as [ts' H]; apply IH in H. apply lex_chain_length in Ec. lia.
    - destruct (ends_operand (c1 :: r1)); [|discriminate].
      apply cons_tok_some in H; destruct H as [ts' H]; apply IH in H. cbn [length] in *; lia. }
  destruct (is_digit c).
  { destruct (span is_digit (c :: r)) as [ds rest0] eqn:Es.
    destruct (ends_operand rest0 && dec_ok ds); [|discriminate].
    apply cons_tok_some in H; destruct H as [ts' H]; apply IH in H. apply span_length in Es. lia. }
  destruct (is_alpha c); [|discriminate].
  destruct (span is_alnum (c :: r)) as [w rest0] eqn:Es.
  destruct (ends_operand rest0); [|discriminate].
  apply cons_tok_some in H; destruct H as [ts' H]; apply IH in H. apply span_length in Es. lia.
Qed.

(** * one step of the lexer, and its fuel *)

(** no further delimiter: the rest is one text (or nothing) *)
Lemma lex_top_text (f : nat) (s : bytes) :
  split_text s = (s, None) -> lex_top (S f) s = Some (text_item s).
Proof. intros H. cbn [lex_top]. rewrite H. reflexivity. Qed.

(** a delimiter after the text [t]: [{{- ] trims the white space at the end of
    [t] (and an emptied text is dropped); [ -}}] trims the white space at the
    start of what follows the action *)
Lemma lex_top_action (f : nat) (s t r : bytes) :
  split_text s = (t, Some r) ->
  lex_top (S f) s
  = let lt := has_ltrim r in
    let r' := if lt then skipn 2 r else r in
    match lex_action (S (length r')) r' with
    | Some (toks, rt, rest) =>
        match lex_top f (if rt then trim_left ws_set rest else rest) with
        | Some l => Some (text_item (if lt then trim_right ws_set t else t) ++ LAct toks :: l)
        | None => None
        end
    | None => None
    end.
Proof. intros H. cbn [lex_top]. rewrite H. reflexivity. Qed.

Lemma lex_top_fuel (f1 f2 : nat) (s : bytes) :
  (length s < f1)%nat -> (length s < f2)%nat -> lex_top f1 s = lex_top f2 s.
Proof.
  revert f2 s. induction f1 as [|f1 IH]; intros f2 s H1 H2; [lia|].
  destruct f2 as [|f2]; [lia|].
  destruct (split_text s) as [t [r|]] eqn:Es.
  - rewrite !(lex_top_action _ s t r Es). cbv zeta.
    destruct (split_text_some s t r Es) as [Hs _].
    assert (Hr : (length r + 2 <= length s)%nat).
    { rewrite Hs, app_length. cbn [length]. lia. }
    set (r' := if has_ltrim r then skipn 2 r else r).
    assert (Hr' : (length r' <= length r)%nat).
    { unfold r'. destruct (has_ltrim r); [apply skipn_length_le | lia]. }
    destruct (lex_action (S (length r')) r') as [[[toks rt] rest]|] eqn:Ea; [|reflexivity].
    apply lex_action_length in Ea.
    set (x := if rt then trim_left ws_set rest else rest).
    assert (Hx : (length x <= length rest)%nat).
    { unfold x. destruct rt; [apply trim_left_length | lia]. }
    clearbody x r'.
    rewrite (IH f2 x) by lia. reflexivity.
  - cbn [lex_top]. rewrite Es. reflexivity.
Qed.

(** * the general statement for the left trim marker *)

(** White space [w] between a text [t] and an action that opens with the trim
    marker does not reach the lexer's output: the input lexes exactly as the input
    without [w].  ([no_ld t]: the delimiter in question is the first one after
    [t]; [has_ltrim r]: what follows the two braces is a minus and a space.) *)
Theorem lex_trim_spec (t w r : bytes) :
  no_ld t = true -> all_ws w -> has_ltrim r = true ->
  lex (t ++ w ++ 123 :: 123 :: r) = lex (t ++ 123 :: 123 :: r).
Proof.
  intros Ht Hw Hr.
  destruct w as [|c0 w0]; [reflexivity|].
  set (w := c0 :: w0) in *.
  assert (Htw : no_ld (t ++ w) = true) by (apply no_ld_app_ws; [exact Ht | discriminate | exact Hw]).
  unfold lex.
  rewrite (lex_top_fuel (S (length (t ++ w ++ 123 :: 123 :: r))) (S (S (length (t ++ w ++ 123 :: 123 :: r))))) by lia.
  rewrite (lex_top_fuel (S (length (t ++ 123 :: 123 :: r))) (S (S (length (t ++ w ++ 123 :: 123 :: r))))).
  2: lia.
  2:{ rewrite !app_length. cbn [length]. lia. }
  rewrite (lex_top_action _ (t ++ w ++ 123 :: 123 :: r) (t ++ w) r).
  2:{ rewrite app_assoc. apply split_text_app. exact Htw. }
  rewrite (lex_top_action _ (t ++ 123 :: 123 :: r) t r) by (apply split_text_app; exact Ht).
  cbv zeta. rewrite Hr. rewrite (trim_right_app_ws t w Hw). reflexivity.
Qed.

(** the same for the parser *)
Corollary parse_trim_spec (t w r : bytes) :
  no_ld t = true -> all_ws w -> has_ltrim r = true ->
  parse_template (t ++ w ++ 123 :: 123 :: r) = parse_template (t ++ 123 :: 123 :: r).
Proof. intros Ht Hw Hr. unfold parse_template. rewrite (lex_trim_spec t w r Ht Hw Hr). reflexivity. Qed.

(** without the marker the text is kept as it is: white space and all *)
Lemma lex_top_keep (f : nat) (t r : bytes) :
  no_ld t = true -> has_ltrim r = false ->
  lex_top (S f) (t ++ 123 :: 123 :: r)
  = match lex_action (S (length r)) r with
    | Some (toks, rt, rest) =>
        match lex_top f (if rt then trim_left ws_set rest else rest) with
        | Some l => Some (text_item t ++ LAct toks :: l)
        | None => None
        end
    | None => None
    end.
Proof.
  intros Ht Hr. rewrite (lex_top_action f _ t r (split_text_app t r Ht)). cbv zeta. rewrite Hr. reflexivity.
Qed.

(** the right marker: white space after [ -}}] is immaterial to the text that follows *)
Lemma rtrim_ws_immaterial (w rest : bytes) :
  all_ws w -> trim_left ws_set (w ++ rest) = trim_left ws_set rest.
Proof. apply trim_left_app_ws. Qed.
