(** WP05 / property C10: non-vacuity.  Concrete worlds that meet the hypotheses
    of the theorems and exercise the mechanism (by computation, on the exact
    integers [ZNum] and on binary64 [B64]). *)
From HP Require Import Base.Bytes Base.Utf8 Base.Num Base.GoFloat Model.Scanner Model.Parser Model.Elements
  Model.Resolver Model.Dates Model.Tree Model.Writer Model.Reporters Model.Cli.
From HP Require Import Proofs.UnreadableParser Proofs.UnreadableCli Proofs.UnreadableWhole.

Definition nl : bytes := [c_lf].

(** a 30-byte log with one day and two entries, a 16-byte recipe book *)
Definition ex_log : bytes := b "2021/01/01" ++ nl ++ b "  apple 1" ++ nl ++ b "  pear 2" ++ nl.
Definition ex_book : bytes := b "apple" ++ nl ++ b "  kcal 52" ++ nl.

Example ex_log_length : length ex_log = 30%nat.
Proof. reflexivity. Qed.

Definition ex_inv (c : command) : invocation := {|
  i_f_db := None; i_e_db := None; i_f_log := None; i_e_log := None; i_f_fmt := None; i_e_fmt := None;
  i_f_depth := None; i_e_depth := None; i_f_today := None; i_f_config := None; i_e_config := None;
  i_no_database := false;
  i_g_begin := None; i_g_end := None; i_l_begin := None; i_l_end := None;
  i_g_no_color := true; i_l_no_color := false;
  i_single_food := []; i_single_element := [];
  i_group_food := false; i_csv := false; i_no_totals := false; i_totals_only := false;
  i_shorten := false; i_old := false; i_template := None;
  i_collapse := false; i_collapse_last := false; i_desc := false; i_silent := false;
  i_cmd := c |}.

Definition ex_world (fs : list (bytes * fentry)) (faults : list (bytes * nat)) : world := {|
  w_fs := fs;
  w_default_config := b "/home/u/.hranoprovod/config";
  w_tz := 0%Z;
  w_clock := time_of_civil (2021, 1, 5)%Z;
  w_or := {| o_resolve := fun l => l; o_day := fun _ l => l; o_flush := fun l => l |};
  w_sink := None;
  w_read_fault := faults |}.

Definition fs0 : list (bytes * fentry) := [(b "food.yaml", FFile ex_book); (b "log.yaml", FFile ex_log)].

Definition ex_options : options :=
  match load (ex_world fs0 []) (ex_inv CReg) with inr op => op | inl _ => Build_options [] [] [] 0 zero_time None None
    (Build_rconfig false false false [] [] [] false false false false false [] false) end.

(** * Parser level *)

(** the book's callback on a reader failing at byte 3: an error, and the part read (nothing complete) *)
Example ex_read_fault_parser :
  parse_stream ZNum (db_cb ZNum) ex_book (FailAt 3) [] = ([], Some (inr ScanReadErr)).
Proof. vm_compute. reflexivity. Qed.

(** the same file read completely: both lines taken into account *)
Example ex_whole_parser :
  parse_stream ZNum (db_cb ZNum) ex_book NoFault [] = ([(b "apple", [(b "kcal", 52%Z)])], None).
Proof. vm_compute. reflexivity. Qed.

(** [read_fault_is_error] applied (its hypothesis holds of the real callback) *)
Example ex_read_fault_is_error :
  snd (parse_stream ZNum (db_cb ZNum) ex_book (FailAt 3) []) <> None.
Proof. apply read_fault_is_error. apply db_cb_stops. Qed.

(** The hypothesis [stops_only_with_error] cannot be dropped: a callback that
    sets the stop flag without an error makes the parse succeed on a prefix
    (here after 1 of the 2 records). *)
Definition bad_cb : nat -> event ZNum -> nat * bool * option cerr := fun n _ => (S n, true, None).
Definition two_records : bytes := b "a" ++ nl ++ b "b" ++ nl.

Example ex_stop_without_error_succeeds_on_prefix :
  parse_stream ZNum bad_cb two_records NoFault O = (1%nat, None) /\
  length (events ZNum two_records) = 2%nat.
Proof. vm_compute. split; reflexivity. Qed.

(** * Over-long lines *)

(** a 65536-byte line between two short ones.  Nothing is computed on it (the
    model's [rev] is quadratic: [scan] on this input takes a minute in the VM);
    the characterisation [has_long_line_iff] gives the fact. *)
Definition ex_long : bytes := (b "x" ++ nl) ++ repeat 97%N (N.to_nat 65536) ++ (nl ++ b "y" ++ nl).

Example ex_has_long_line : has_long_line ex_long.
Proof.
  apply has_long_line_iff. exists (repeat 97%N (N.to_nat 65536)). split.
  - exists (b "x" ++ nl), (nl ++ b "y" ++ nl). split; [reflexivity|]. split.
    + intros Hin. apply repeat_spec in Hin. discriminate.
    + split; [right; exists (b "x"); reflexivity | right; exists (b "y" ++ nl); reflexivity].
  - rewrite repeat_length, N2Nat.id. discriminate.
Qed.

(** the same mechanism at a size that computes at once: [take_lines] stops
    before the first raw line that reaches the limit and reports it *)
Example ex_take_lines_small :
  take_lines [(b "ab", true); (b "cd", true)] = ([b "ab"; b "cd"], false) /\
  scan (b "x" ++ [c_cr] ++ nl ++ b "y") NoFault = ([b "x"; b "y"], ScanEOF).
Proof. vm_compute. split; reflexivity. Qed.

(** * Command level *)

Example ex_load : load (ex_world fs0 []) (ex_inv CReg) = inr ex_options.
Proof. vm_compute. reflexivity. Qed.

Example ex_files_read : files_read ex_options CReg = [b "food.yaml"; b "log.yaml"].
Proof. vm_compute. reflexivity. Qed.

(** the brief's example: [reg], reader of the log failing at byte 12 *)
Example ex_reg_fault_Z :
  out_status (run ZNum (ex_world fs0 [(b "log.yaml", 12%nat)]) (ex_inv CReg)) = Failed (EScan false).
Proof. vm_compute. reflexivity. Qed.

Example ex_reg_fault_B64 :
  out_status (run B64 (ex_world fs0 [(b "log.yaml", 12%nat)]) (ex_inv CReg)) = Failed (EScan false).
Proof. vm_compute. reflexivity. Qed.

(** the same log without the fault: success *)
Example ex_reg_ok_Z : out_status (run ZNum (ex_world fs0 []) (ex_inv CReg)) = Ok.
Proof. vm_compute. reflexivity. Qed.

Example ex_reg_ok_B64 : out_status (run B64 (ex_world fs0 []) (ex_inv CReg)) = Ok.
Proof. vm_compute. reflexivity. Qed.

(** the hypotheses of [command_read_fault_fails] are met by that world, so the
    theorem (not a computation) gives the failure, for every [Num] *)
Example ex_reg_fault_by_theorem : forall NM,
  out_status (run NM (ex_world fs0 [(b "log.yaml", 12%nat)]) (ex_inv CReg)) <> Ok.
Proof.
  intros NM.
  apply (command_read_fault_fails NM _ _ ex_options (b "log.yaml") ex_log 12%nat).
  - vm_compute. reflexivity.
  - vm_compute. right. left. reflexivity.
  - vm_compute. reflexivity.
  - vm_compute. reflexivity.
Qed.

(** a fault at an offset beyond the end of the file is met at the end: still an error *)
Example ex_fault_at_end :
  out_status (run ZNum (ex_world fs0 [(b "log.yaml", 30%nat)]) (ex_inv CReg)) = Failed (EScan false).
Proof. vm_compute. reflexivity. Qed.

(** a fault in the book is met first *)
Example ex_book_fault :
  out_status (run ZNum (ex_world fs0 [(b "food.yaml", 7%nat); (b "log.yaml", 12%nat)]) (ex_inv CBal))
  = Failed (EScan false).
Proof. vm_compute. reflexivity. Qed.

(** the other command shapes *)
Example ex_print_fault :
  out_status (run ZNum (ex_world fs0 [(b "log.yaml", 12%nat)]) (ex_inv CPrint)) = Failed (EScan false).
Proof. vm_compute. reflexivity. Qed.

Example ex_print_ok : out_status (run ZNum (ex_world fs0 []) (ex_inv CPrint)) = Ok.
Proof. vm_compute. reflexivity. Qed.

Example ex_csv_db_fault :
  out_status (run ZNum (ex_world fs0 [(b "food.yaml", 7%nat)]) (ex_inv CCsvDb)) = Failed (EScan false).
Proof. vm_compute. reflexivity. Qed.

Example ex_csv_db_ok : out_status (run ZNum (ex_world fs0 []) (ex_inv CCsvDb)) = Ok.
Proof. vm_compute. reflexivity. Qed.

Example ex_lint_fault :
  out_status (run ZNum (ex_world fs0 [(b "log.yaml", 12%nat)]) (ex_inv (CLint (b "log.yaml")))) = Failed (EScan false).
Proof. vm_compute. reflexivity. Qed.

Example ex_lint_ok : out_status (run ZNum (ex_world fs0 []) (ex_inv (CLint (b "log.yaml")))) = Ok.
Proof. vm_compute. reflexivity. Qed.

Example ex_stats_book_fault :
  out_status (run ZNum (ex_world fs0 [(b "food.yaml", 7%nat)]) (ex_inv CStats)) = Failed (EScan false).
Proof. vm_compute. reflexivity. Qed.

Example ex_stats_ok : out_status (run ZNum (ex_world fs0 []) (ex_inv CStats)) = Ok.
Proof. vm_compute. reflexivity. Qed.

Example ex_element_total_fault :
  out_status (run ZNum (ex_world fs0 [(b "food.yaml", 7%nat)]) (ex_inv (CElementTotal (b "kcal")))) = Failed (EScan false).
Proof. vm_compute. reflexivity. Qed.

Example ex_element_total_ok :
  out_status (run ZNum (ex_world fs0 []) (ex_inv (CElementTotal (b "kcal")))) = Ok.
Proof. vm_compute. reflexivity. Qed.

(** a directory in place of the log *)
Definition fs_dir : list (bytes * fentry) := [(b "food.yaml", FFile ex_book); (b "log.yaml", FDir)].

Example ex_directory :
  out_status (run ZNum (ex_world fs_dir []) (ex_inv CReg)) = Failed (EScan false).
Proof. vm_compute. reflexivity. Qed.

Example ex_directory_by_theorem : forall NM,
  out_status (run NM (ex_world fs_dir []) (ex_inv CReg)) <> Ok.
Proof.
  intros NM. apply (directory_is_error NM _ _ ex_options (b "log.yaml")).
  - vm_compute. reflexivity.
  - vm_compute. right. left. reflexivity.
  - vm_compute. reflexivity.
Qed.

(** an over-long line in the log, by the theorem (nothing of that size is computed with here) *)
Example ex_long_line_by_theorem : forall NM,
  out_status (run NM (ex_world [(b "food.yaml", FFile ex_book); (b "log.yaml", FFile ex_long)] []) (ex_inv CReg)) <> Ok.
Proof.
  intros NM. apply (command_long_line_fails NM _ _ ex_options (b "log.yaml") ex_long).
  - vm_compute. reflexivity.
  - vm_compute. right. left. reflexivity.
  - reflexivity.
  - exact ex_has_long_line.
Qed.

(** [command_success_whole_file] on the successful run: its conclusion, instantiated *)
Example ex_success_whole : forall p, In p [b "food.yaml"; b "log.yaml"] ->
  lookup p fs0 <> Some FDir /\
  forall data, lookup p fs0 = Some (FFile data) -> snd (scan data NoFault) = ScanEOF.
Proof.
  intros p Hin.
  destruct (command_success_whole_file ZNum (ex_world fs0 []) (ex_inv CReg) ex_reg_ok_Z) as [op [Hl Hall]].
  rewrite ex_load in Hl. injection Hl as <-.
  change (i_cmd (ex_inv CReg)) with CReg in Hall. rewrite ex_files_read in Hall.
  destruct (Hall p Hin) as [_ [Hnd Hd]]. split; [exact Hnd|].
  intros data Hdata. exact (proj2 (Hd data Hdata)).
Qed.

(** the hypotheses of [run_db_log_log_fault] (stretch) hold in the faulty world, and its third
    case is the one that applies: no callback stop on the part read, no long line, "read error" *)
Example ex_log_fault_hyps :
  let w := ex_world fs0 [(b "log.yaml", 12%nat)] in
  open_file w (op_db ex_options) = Some (OData ex_book NoFault) /\
  (exists d, resolved_db ZNum w ex_options (OData ex_book NoFault) = inr d) /\
  (exists toks, tokenize (op_fmt ex_options) = Some toks) /\
  op_log ex_options <> [] /\
  lookup (op_log ex_options) (w_fs w) = Some (FFile ex_log) /\
  lookup (op_log ex_options) (w_read_fault w) = Some 12%nat /\
  prefix_events ZNum ex_log 12 = [] /\
  ~ has_long_line (firstn 12 ex_log).
Proof.
  vm_compute. repeat split; try reflexivity; try discriminate.
  - eexists. reflexivity.
  - eexists. reflexivity.
Qed.

(** with the fault just after the second heading, the first record is an event of the part read *)
Definition ex_log2 : bytes := ex_log ++ b "2021/01/02" ++ nl ++ b "  fig 3" ++ nl.

Example ex_prefix_events : length (prefix_events ZNum ex_log2 42) = 1%nat.
Proof. vm_compute. reflexivity. Qed.

(** A fault in the middle of an entry line: the scanner hands the truncated
    line "  fi" to the parser before reporting the read error, so the command
    ends with the parser's "bad syntax" error (case 2 of
    [run_db_log_log_fault]), not with the read error. *)
Example ex_truncated_line :
  out_status (run ZNum (ex_world [(b "food.yaml", FFile ex_book); (b "log.yaml", FFile ex_log2)]
                                 [(b "log.yaml", 45%nat)]) (ex_inv CReg))
  = Failed (EParse (b "bad syntax on line 5, ""  fi"".")).
Proof. vm_compute. reflexivity. Qed.
