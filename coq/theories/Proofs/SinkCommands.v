(** WP17 / C17 — the remaining commands (element-total, csv database,
    csv database-resolved, lint, stats), the dispatcher [run], and the final
    theorems. *)
From Coq Require Import Lia Arith List.
From HP Require Import Base.Bytes Base.Utf8 Base.Num Model.Scanner Model.Parser Model.Elements Model.Resolver
  Model.Dates Model.Tree Model.Writer Model.Reporters Model.Cli.
From HP Require Import Proofs.SinkWriter Proofs.SinkDrive Proofs.SinkRun.
Open Scope nat_scope.

(** ** write some chunks, then flush, then report *)

(** [FinishReport]-like tail: abort on a checked error, otherwise flush *)
Lemma chunks_then_flush_sim : forall k cs wl wu, bsim k wl wu ->
  step_ok k (let '(w1, e1) := bw_chunks wl cs in if e1 then (w1, true) else bw_flush w1)
            (let '(w1, e1) := bw_chunks wu cs in if e1 then (w1, true) else bw_flush w1).
Proof.
  intros k cs wl wu H.
  destruct (bw_chunks_sim k cs wl wu H) as [(Hs & E1 & E2)|Hb];
    destruct (bw_chunks wl cs) as [wl1 el1]; destruct (bw_chunks wu cs) as [wu1 eu1]; cbn [fst snd] in *.
  - subst el1 eu1. now apply bw_flush_sim.
  - right.
    assert (Hl : (if el1 then (wl1, true) else bw_flush wl1) = (wl1, true)).
    { destruct el1; [reflexivity|]. apply bw_flush_err, Hb. }
    rewrite Hl. cbn [fst snd]. split; [|reflexivity].
    destruct eu1; [exact Hb|]. now apply bbad_flush_u.
Qed.

(** flushing whatever [bw_chunks] left behind is the same thing: an abort has set the sticky flag *)
Lemma flush_after_chunks : forall w cs,
  bw_flush (fst (bw_chunks w cs)) = (let '(w1, e1) := bw_chunks w cs in if e1 then (w1, true) else bw_flush w1).
Proof.
  intros w cs. pose proof (bw_chunks_abort_sets cs w) as H.
  destruct (bw_chunks w cs) as [w1 e1]. cbn [fst snd] in *. destruct e1; [|reflexivity].
  apply bw_flush_err. now apply H.
Qed.

Lemma step_ok_finish : forall k rl ru, step_ok k rl ru ->
  sink_cases k (finish (fst rl) (if snd rl then Failed EWrite else Ok))
               (finish (fst ru) (if snd ru then Failed EWrite else Ok)).
Proof.
  intros k [wl el] [wu eu] [(Hs & E1 & E2)|(Hb & E1)]; cbn [fst snd] in *.
  - subst el eu. now apply finish_sim.
  - subst el. apply finish_bad; [exact Hb|discriminate].
Qed.

Section SinkCommands.
  Context (NM : Num).

  (** ** report element-total *)
  Theorem run_element_total_cases : forall w op x desc k,
    sink_cases k (run_element_total NM (with_sink w (Some k)) op x desc)
                 (run_element_total NM (with_sink w None) op x desc).
  Proof.
    intros w op x desc k. unfold run_element_total.
    pose proof (bsim_new_writer w k) as H0.
    set (wl := new_writer (with_sink w (Some k))) in *. set (wu := new_writer (with_sink w None)) in *.
    destruct x as [|x0 xr]; [apply finish_sim; exact H0|].
    rewrite !open_all_with_sink.
    destruct (open_all w [op_db op]) as [[|odb [|y r]]|]; try (apply finish_sim; exact H0).
    rewrite !(resolved_db_with_sink NM). cbn [w_or with_sink].
    destruct (resolved_db NM w op odb) as [e|d]; [apply finish_sim; exact H0|].
    set (l := sort_by_value NM desc _).
    destruct (has_nan NM l && Nat.ltb 20 (length l))%bool; [apply finish_sim; exact H0|].
    match goal with |- context [bw_chunks wl ?c] => set (cs := c) end.
    pose proof (chunks_then_flush_sim k cs wl wu H0) as Hst.
    destruct (bw_chunks wl cs) as [wl1 el1]; destruct (bw_chunks wu cs) as [wu1 eu1].
    apply step_ok_finish in Hst.
    destruct (if el1 then (wl1, true) else bw_flush wl1) as [wl2 el2].
    destruct (if eu1 then (wu1, true) else bw_flush wu1) as [wu2 eu2]. exact Hst.
  Qed.

  (** ** csv database-resolved *)
  Theorem run_csv_db_resolved_cases : forall w op k,
    sink_cases k (run_csv_db_resolved NM (with_sink w (Some k)) op)
                 (run_csv_db_resolved NM (with_sink w None) op).
  Proof.
    intros w op k. unfold run_csv_db_resolved.
    pose proof (bsim_new_writer w k) as H0.
    set (wl := new_writer (with_sink w (Some k))) in *. set (wu := new_writer (with_sink w None)) in *.
    rewrite !open_all_with_sink.
    destruct (open_all w [op_db op]) as [[|odb [|y r]]|]; try (apply finish_sim; exact H0).
    rewrite !(resolved_db_with_sink NM). cbn [w_or with_sink].
    destruct (resolved_db NM w op odb) as [e|d]; [apply finish_sim; exact H0|].
    match goal with |- context [bw_chunks wl ?c] => set (cs := c) end.
    pose proof (chunks_then_flush_sim k cs wl wu H0) as Hst.
    destruct (bw_chunks wl cs) as [wl1 el1]; destruct (bw_chunks wu cs) as [wu1 eu1].
    apply step_ok_finish in Hst.
    destruct el1, eu1; cbn [fst snd] in Hst |- *;
      try destruct (bw_flush wl1) as [wl2 el2]; try destruct (bw_flush wu1) as [wu2 eu2]; exact Hst.
  Qed.

  (** ** csv database: the callback writes *)
  Definition csv_db_cb (wr : bw) (ev : event NM) : bw * bool * option cerr :=
    match ev with
    | EErr e => (wr, true, Some (EParse (perr_message e)))
    | ENode n =>
        let '(wr', werr) := bw_chunks wr (map (fun r => (csv_record r, true))
                                              (csv_db_rows NM (header n) (elems n))) in
        (wr', werr, if werr then Some EWrite else None)
    end.

  Lemma csv_db_cb_writer : forall wr ev, exists cs, fst (fst (csv_db_cb wr ev)) = fst (bw_chunks wr cs).
  Proof.
    intros wr [n|e]; [|exists []; reflexivity]. unfold csv_db_cb.
    exists (map (fun r => (csv_record r, true)) (csv_db_rows NM (header n) (elems n))).
    destruct (bw_chunks wr _) as [wr' werr]. reflexivity.
  Qed.

  Lemma csv_db_cb_step : forall k wl wu ev, bsim k wl wu ->
    (bsim k (fst (fst (csv_db_cb wl ev))) (fst (fst (csv_db_cb wu ev)))
     /\ snd (fst (csv_db_cb wl ev)) = snd (fst (csv_db_cb wu ev)) /\ snd (csv_db_cb wl ev) = snd (csv_db_cb wu ev))
    \/ (bbad k (fst (fst (csv_db_cb wl ev))) (fst (fst (csv_db_cb wu ev)))
        /\ (bw_err (fst (fst (csv_db_cb wl ev))) = true
            \/ (snd (fst (csv_db_cb wl ev)) = true /\ snd (csv_db_cb wl ev) <> None))).
  Proof.
    intros k wl wu [n|e] H; [|left; cbn; auto]. unfold csv_db_cb.
    match goal with |- context [bw_chunks wl ?c] => set (cs := c) end.
    destruct (bw_chunks_sim k cs wl wu H) as [(Hs & E1 & E2)|Hb];
      destruct (bw_chunks wl cs) as [wl1 el1]; destruct (bw_chunks wu cs) as [wu1 eu1]; cbn [fst snd] in *.
    - subst el1 eu1. left. auto.
    - right. split; [exact Hb|]. left. apply Hb.
  Qed.

  Theorem run_csv_db_cases : forall w op k,
    sink_cases k (run_csv_db NM (with_sink w (Some k)) op) (run_csv_db NM (with_sink w None) op).
  Proof.
    intros w op k. unfold run_csv_db.
    pose proof (bsim_new_writer w k) as H0.
    set (wl := new_writer (with_sink w (Some k))) in *. set (wu := new_writer (with_sink w None)) in *.
    rewrite !open_all_with_sink.
    destruct (open_all w [op_db op]) as [[|odb [|y r]]|]; try (apply finish_sim; exact H0).
    change (fun (wr : bw) (ev : event NM) => _) with csv_db_cb.
    assert (HB1 : forall s1 s2 ev, bbad k s1 s2 -> bbad k (fst (fst (csv_db_cb s1 ev))) s2).
    { intros s1 s2 ev Hb. destruct (csv_db_cb_writer s1 ev) as [cs ->]. now apply bbad_chunks_l. }
    assert (HB2 : forall s1 s2 ev, bbad k s1 s2 -> bbad k s1 (fst (fst (csv_db_cb s2 ev)))).
    { intros s1 s2 ev Hb. destruct (csv_db_cb_writer s2 ev) as [cs ->]. now apply bbad_chunks_u. }
    assert (HF : forall s1 ev, bw_err s1 = true -> bw_err (fst (fst (csv_db_cb s1 ev))) = true).
    { intros s1 ev Hb. destruct (csv_db_cb_writer s1 ev) as [cs ->]. now rewrite bw_chunks_err. }
    destruct (parse_opened_sim NM csv_db_cb csv_db_cb (bsim k) (bbad k) (fun s => bw_err s = true)
                HB1 HB2 HF (csv_db_cb_step k) odb wl wu H0) as [(Hs & Er)|(Hb & _)];
      destruct (parse_opened NM csv_db_cb odb wl) as [wl1 perr1];
      destruct (parse_opened NM csv_db_cb odb wu) as [wu1 perr2]; cbn [fst snd] in *.
    - subst perr2.
      destruct (bw_flush_sim k wl1 wu1 Hs) as [(Hs2 & E1 & E2)|(Hb2 & E1)];
        destruct (bw_flush wl1) as [wl2 el2]; destruct (bw_flush wu1) as [wu2 eu2]; cbn [fst snd] in *.
      + subst el2 eu2. now apply finish_sim.
      + subst el2. apply finish_bad; [exact Hb2|]. destruct perr1; discriminate.
    - rewrite (bw_flush_err wl1) by apply Hb.
      pose proof (bbad_flush_u k wl1 wu1 Hb) as Hb2. destruct (bw_flush wu1) as [wu2 eu2]. cbn [fst] in Hb2.
      apply finish_bad; [exact Hb2|]. destruct perr1; discriminate.
  Qed.

  (** ** lint: straight to the sink, every write checked *)
  Definition lint_cb (st : sink * bool) (ev : event NM) : sink * bool * bool * option cerr :=
    match ev with
    | EErr e =>
        let '(s', werr) := sink_write (fst st) (perr_message e ++ [c_lf]) in
        ((s', true), werr, if werr then Some EWrite else None)
    | ENode _ => (st, false, None)
    end.

  Definition lrel (k : nat) (s1 s2 : sink * bool) : Prop := ssim k (fst s1) (fst s2) /\ snd s1 = snd s2.
  Definition lbad (k : nat) (s1 s2 : sink * bool) : Prop := sbad k (fst s1) (fst s2).

  Lemma lint_cb_sink : forall st ev, exists p, fst (fst (fst (lint_cb st ev))) = fst (sink_write (fst st) p).
  Proof.
    intros st [n|e]; unfold lint_cb.
    - exists []. cbn [fst]. destruct st as [s f]. cbn [fst].
      unfold sink_write. destruct (s_limit s) as [k|] eqn:E.
      + cbn [length]. cbn [Nat.leb fst]. destruct s as [lim got]. cbn in *. subst lim. now rewrite app_nil_r.
      + cbn [fst]. destruct s as [lim got]. cbn in *. subst lim. now rewrite app_nil_r.
    - exists (perr_message e ++ [c_lf]). destruct (sink_write (fst st) _) as [s' werr]. reflexivity.
  Qed.

  Lemma lint_cb_step : forall k s1 s2 ev, lrel k s1 s2 ->
    (lrel k (fst (fst (lint_cb s1 ev))) (fst (fst (lint_cb s2 ev)))
     /\ snd (fst (lint_cb s1 ev)) = snd (fst (lint_cb s2 ev)) /\ snd (lint_cb s1 ev) = snd (lint_cb s2 ev))
    \/ (lbad k (fst (fst (lint_cb s1 ev))) (fst (fst (lint_cb s2 ev)))
        /\ (False \/ (snd (fst (lint_cb s1 ev)) = true /\ snd (lint_cb s1 ev) <> None))).
  Proof.
    intros k [sl fl] [su fu] [n|e] [Hs Hf]; cbn [fst snd] in Hs, Hf; subst fu; [left; cbn; unfold lrel; auto|].
    unfold lint_cb. cbn [fst].
    set (p := perr_message e ++ [c_lf]).
    destruct (sink_write_sim k sl su p Hs) as [(Hs' & E1 & E2)|(Hb & E1)];
      destruct (sink_write sl p) as [sl' el]; destruct (sink_write su p) as [su' eu]; cbn [fst snd] in *.
    - subst el eu. left. unfold lrel. cbn [fst snd]. auto.
    - subst el. right. unfold lbad. cbn [fst snd]. split; [exact Hb|]. right. split; [reflexivity|discriminate].
  Qed.

  Theorem run_lint_cases : forall w file silent k,
    sink_cases k (run_lint NM (with_sink w (Some k)) file silent) (run_lint NM (with_sink w None) file silent).
  Proof.
    intros w file silent k. unfold run_lint.
    destruct file as [|c0 fr]; [apply sink_cases_same; reflexivity|].
    rewrite !open_all_with_sink.
    match goal with |- context [open_all w ?l] => destruct (open_all w l) as [[|o [|y r]]|] end;
      try (apply sink_cases_same; reflexivity).
    cbn [w_sink with_sink].
    change (fun (st : sink * bool) (ev : event NM) => _) with lint_cb.
    set (sl0 := {| s_limit := Some k; s_got := [] |}). set (su0 := {| s_limit := None; s_got := [] |}).
    assert (H0 : lrel k (sl0, false) (su0, false)).
    { unfold lrel, ssim. cbn. repeat split; lia. }
    assert (HB1 : forall s1 s2 ev, lbad k s1 s2 -> lbad k (fst (fst (lint_cb s1 ev))) s2).
    { intros s1 s2 ev Hb. unfold lbad. destruct (lint_cb_sink s1 ev) as [p ->]. now apply sbad_step_l. }
    assert (HB2 : forall s1 s2 ev, lbad k s1 s2 -> lbad k s1 (fst (fst (lint_cb s2 ev)))).
    { intros s1 s2 ev Hb. unfold lbad. destruct (lint_cb_sink s2 ev) as [p ->]. now apply sbad_step_u. }
    assert (HF : forall (s1 : sink * bool) (ev : event NM), False -> False) by auto.
    destruct (parse_opened_sim NM lint_cb lint_cb (lrel k) (lbad k) (fun _ => False)
                HB1 HB2 HF (lint_cb_step k) o _ _ H0) as [(Hs & Er)|(Hb & [[]|Hne])];
      destruct (parse_opened NM lint_cb o (sl0, false)) as [[sl1 fl1] perr1];
      destruct (parse_opened NM lint_cb o (su0, false)) as [[su1 fu1] perr2]; cbn [fst snd] in *.
    - subst perr2. destruct Hs as [Hs Hf]. cbn [fst snd] in Hs, Hf. subst fu1.
      assert (Hsame : forall st, sink_cases k {| out_stdout := s_got sl1; out_status := st |}
                                              {| out_stdout := s_got su1; out_status := st |}).
      { intros st. left. destruct Hs as (_ & _ & Hg & Hk). cbn [out_stdout]. rewrite <- Hg. auto. }
      destruct perr1 as [e|]; [apply Hsame|].
      destruct (negb fl1 && negb silent)%bool; [|apply Hsame].
      set (p := b "No errors found" ++ [c_lf]).
      destruct (sink_write_sim k sl1 su1 p Hs) as [(Hs' & E1 & E2)|(Hb & E1)];
        destruct (sink_write sl1 p) as [sl2 el]; destruct (sink_write su1 p) as [su2 eu]; cbn [fst snd] in *.
      + subst el eu. left. destruct Hs' as (_ & _ & Hg & Hk). cbn [out_stdout]. rewrite <- Hg. auto.
      + subst el. right. destruct Hb as (_ & Hlt & Hg). cbn [out_stdout out_status]. repeat split; auto. discriminate.
    - unfold lbad in Hb. cbn [fst] in Hb. destruct perr1 as [e1|]; [|congruence].
      assert (Hu : forall su', (exists t, s_got su' = s_got su1 ++ t) -> forall st,
                   sink_cases k {| out_stdout := s_got sl1; out_status := Failed e1 |}
                                {| out_stdout := s_got su'; out_status := st |}).
      { intros su' Ht st. destruct (sbad_grow k sl1 su1 su' Hb Ht) as (_ & Hlt & Hg).
        right. cbn [out_stdout out_status]. repeat split; auto. discriminate. }
      assert (Hrefl : exists t, s_got su1 = s_got su1 ++ t) by (exists []; now rewrite app_nil_r).
      destruct perr2 as [e2|]; [now apply Hu|].
      destruct (negb fu1 && negb silent)%bool; [|now apply Hu].
      destruct (sink_write_ext su1 (b "No errors found" ++ [c_lf])) as [n Hn].
      destruct (sink_write su1 _) as [su2 eu]. cbn [fst] in Hn. apply Hu. eauto.
  Qed.

  (** ** stats: the result of [bw_chunks] is ignored, only the flush is looked at *)
  Lemma stats_tail_cases : forall k cs wl wu, bsim k wl wu ->
    sink_cases k (let '(wr1, _) := bw_chunks wl cs in
                  let '(wr2, e2) := bw_flush wr1 in finish wr2 (if e2 then Failed EWrite else Ok))
                 (let '(wr1, _) := bw_chunks wu cs in
                  let '(wr2, e2) := bw_flush wr1 in finish wr2 (if e2 then Failed EWrite else Ok)).
  Proof.
    intros k cs wl wu H. pose proof (chunks_then_flush_sim k cs wl wu H) as Hst.
    rewrite <- !flush_after_chunks in Hst. apply step_ok_finish in Hst.
    destruct (bw_chunks wl cs) as [wl1 el1]; destruct (bw_chunks wu cs) as [wu1 eu1]. cbn [fst] in Hst.
    destruct (bw_flush wl1) as [wl2 el2]; destruct (bw_flush wu1) as [wu2 eu2]. exact Hst.
  Qed.

  Theorem run_stats_cases : forall w op k,
    sink_cases k (run_stats NM (with_sink w (Some k)) op) (run_stats NM (with_sink w None) op).
  Proof.
    intros w op k. unfold run_stats.
    pose proof (bsim_new_writer w k) as H0.
    set (wl := new_writer (with_sink w (Some k))) in *. set (wu := new_writer (with_sink w None)) in *.
    rewrite !open_file_with_sink.
    destruct (open_file w (op_log op)) as [olog|]; [|apply finish_sim; exact H0].
    destruct (parse_opened NM _ _ (0, None, zero_time)) as [[[count_log first] last] e1].
    destruct e1 as [e|]; [apply finish_sim; exact H0|].
    match goal with
    | |- sink_cases k (match ?C with inl _ => _ | inr _ => _ end) _ => destruct C as [e|count_db]
    end; [apply finish_sim; exact H0|apply stats_tail_cases; exact H0].
  Qed.

  (** ** the program *)
  Theorem run_sink_cases : forall w i k,
    sink_cases k (run NM (with_sink w (Some k)) i) (run NM (with_sink w None) i).
  Proof.
    intros w i k. unfold run. rewrite !load_with_sink.
    destruct (load w i) as [e|op]; [apply sink_cases_same; reflexivity|].
    destruct (i_cmd i) as [| |file|arg| | | | | | | |arg|];
      try apply run_db_log_cases; try apply run_log_cases.
    - apply run_lint_cases.
    - apply run_element_total_cases.
    - apply run_csv_db_cases.
    - apply run_csv_db_resolved_cases.
    - apply run_stats_cases.
    - change (time_from_string (with_sink w (Some k))) with (time_from_string w).
      change (time_from_string (with_sink w None)) with (time_from_string w).
      destruct (time_from_string w (op_now op) (rc_date (op_rc op)) arg) as [e|t];
        [apply sink_cases_same; reflexivity|apply run_db_log_cases].
  Qed.

  (** * C17 *)

  (** success means nothing was lost: same status ([Ok]) and the same bytes *)
  Theorem success_means_complete : forall w i k,
    out_status (run NM (with_sink w (Some k)) i) = Ok ->
    run NM (with_sink w (Some k)) i = run NM (with_sink w None) i.
  Proof.
    intros w i k H. destruct (run_sink_cases w i k) as [[E _]|[Hne _]]; [exact E|contradiction].
  Qed.

  (** if the complete report does not fit below the failure offset, the exit status is not [Ok] *)
  Theorem lost_output_is_nonzero_exit : forall w i k,
    length (out_stdout (run NM (with_sink w None) i)) > k ->
    out_status (run NM (with_sink w (Some k)) i) <> Ok.
  Proof.
    intros w i k H. destruct (run_sink_cases w i k) as [[_ Hle]|[Hne _]]; [lia|exact Hne].
  Qed.

  (** a sink that fails only beyond the end of the report changes nothing *)
  Theorem no_loss_no_change : forall w i k,
    length (out_stdout (run NM (with_sink w None) i)) <= k ->
    run NM (with_sink w (Some k)) i = run NM (with_sink w None) i.
  Proof.
    intros w i k H. destruct (run_sink_cases w i k) as [[E _]|[_ [Hlt _]]]; [exact E|lia].
  Qed.

  (** what reaches a failing standard output is exactly the first [k] bytes of the complete report *)
  Theorem sink_truncates : forall w i k,
    out_stdout (run NM (with_sink w (Some k)) i) = firstn k (out_stdout (run NM (with_sink w None) i)).
  Proof.
    intros w i k. destruct (run_sink_cases w i k) as [[E Hle]|[_ [_ Hg]]]; [|exact Hg].
    rewrite E. symmetry. now apply firstn_all2.
  Qed.

  (** the same with the failing sink given by the world itself *)
  Corollary success_means_complete_world : forall w i k, w_sink w = Some k ->
    out_status (run NM w i) = Ok -> run NM w i = run NM (with_sink w None) i.
  Proof.
    intros w i k Hk H. rewrite <- (with_sink_same w) in H |- * at 1. rewrite Hk in *.
    now apply success_means_complete.
  Qed.
End SinkCommands.
