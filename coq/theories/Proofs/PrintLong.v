(** FALSE without the line-length hypothesis: a readable log (every line
    shorter than the scanner's 65536-byte limit, no notes) whose printed form
    the tool cannot read.  A day lists the same food twice, name of 65528
    bytes, quantity 9: both lines have 65535 bytes.  Print merges them into
    one line with quantity 18, which has 65536 bytes, and the scanner stops
    with ErrTooLong on it.  Proved symbolically (no large computation). *)
From Coq Require Import Lia ZifyBool ZifyNat ZifyN.
From HP Require Import Base.Bytes Base.Utf8 Base.Num Model.Scanner Model.Parser Model.Elements Model.Dates
     Model.Writer Model.Reporters Spec.PrintSpec
     Proofs.PrintBytes Proofs.PrintDates Proofs.PrintParse Proofs.PrintMain Proofs.PrintZNum Proofs.PrintExamples.
Open Scope N_scope.

Definition as_ (k : nat) : bytes := brepeat [97] k.

Lemma as_S k : as_ (S k) = 97 :: as_ k.
Proof. reflexivity. Qed.

Lemma as_snoc k : 97 :: as_ k = as_ k ++ [97].
Proof. induction k as [|k IH]; [reflexivity|]. rewrite as_S. cbn [app]. f_equal. exact IH. Qed.

Lemma memb_as c k : c <> 97 -> memb c (as_ k) = false.
Proof.
  intros H. induction k as [|k IH]; [reflexivity|]. rewrite as_S, memb_cons, IH.
  destruct (N.eqb_spec c 97); [contradiction|reflexivity].
Qed.

Lemma lengthN_as k : lengthN (as_ k) = N.of_nat k.
Proof. induction k as [|k IH]; [reflexivity|]. rewrite as_S. cbn [lengthN]. rewrite IH. lia. Qed.

Lemma lengthN_app {A} (a c : list A) : lengthN (a ++ c) = lengthN a + lengthN c.
Proof. rewrite !lengthN_length, app_length. lia. Qed.

Section Long.
  Context (k : nat) (Hk : N.of_nat k = 65527).

  Definition long_name : bytes := 97 :: as_ k.

  Lemma long_name_len : lengthN long_name = 65528.
  Proof. unfold long_name. cbn [lengthN]. rewrite lengthN_as, Hk. reflexivity. Qed.

  Lemma long_name_no_lf : memb c_lf long_name = false.
  Proof. unfold long_name. rewrite memb_cons. rewrite memb_as by discriminate. reflexivity. Qed.

  Lemma long_name_normal : normal_name long_name = true.
  Proof.
    unfold normal_name. rewrite long_name_no_lf. unfold long_name at 1. cbn [first_outside negb andb].
    unfold long_name. rewrite as_snoc. rewrite last_outside_snoc. reflexivity.
  Qed.

  Definition c0 : rconfig := cfg toks0.

  Definition day_dup : lognode ZNum :=
    {| ln_time := time_of_civil (2020, 1, 2)%Z;
       ln_elems := ([(long_name, 9%Z); (long_name, 9%Z)] : elements ZNum);
       ln_meta := None |}.

  Definition day_merged : lognode ZNum :=
    {| ln_time := time_of_civil (2020, 1, 2)%Z;
       ln_elems := ([(long_name, 18%Z)] : elements ZNum);
       ln_meta := None |}.

  Lemma fits0 : civil_fits toks0 (2020, 1, 2)%Z.
  Proof. unfold civil_fits, valid_civil. cbn. repeat split; try lia; intros HX; exfalso; apply HX; tauto. Qed.

  Definition head0 : bytes := b "2020/01/02:".

  Lemma heading_dup : heading_line ZNum c0 day_dup = head0.
  Proof. reflexivity. Qed.
  Lemma heading_merged : heading_line ZNum c0 day_merged = head0.
  Proof. reflexivity. Qed.

  Lemma entry_len q : lengthN (entry_line ZNum (long_name, q)) = 65534 + lengthN (dec_of_Z q).
  Proof.
    unfold entry_line. cbn [fst snd fmt_fixed ZNum]. rewrite !lengthN_app. rewrite long_name_len.
    change (lengthN (b "  - ")) with 4. change (lengthN (b ": ")) with 2. lia.
  Qed.

  Lemma day_dup_lines :
    day_lines ZNum c0 day_dup
    = [head0; entry_line ZNum (long_name, 9%Z); entry_line ZNum (long_name, 9%Z); []].
  Proof. reflexivity. Qed.

  Lemma day_merged_lines :
    day_lines ZNum c0 day_merged = [head0; entry_line ZNum (long_name, 18%Z); []].
  Proof. reflexivity. Qed.

  Lemma day_dup_printable : day_printable ZNum c0 day_dup.
  Proof.
    unfold day_printable. split; [exact fits0|]. split.
    { cbn [ln_elems day_dup]. repeat constructor; cbn [fst]; apply long_name_normal. }
    split; [constructor|]. rewrite day_dup_lines.
    constructor; [reflexivity|]. constructor; [rewrite entry_len; reflexivity|].
    constructor; [rewrite entry_len; reflexivity|]. constructor; [reflexivity|constructor].
  Qed.

  (** the log with the duplicated food *)
  Definition dup_data : bytes := print_output ZNum c0 [day_dup].

  Lemma dup_readable : read_log ZNum toks0 dup_data = Some [day_merged].
  Proof.
    assert (HP : Forall (day_printable ZNum c0) [day_dup]) by (constructor; [exact day_dup_printable|constructor]).
    unfold read_log, dup_data.
    rewrite (scan_print_output ZNum FmtStable_ZNum c0 [day_dup] eq_refl HP). cbn [snd].
    rewrite (events_print_output ZNum FmtStable_ZNum c0 [day_dup] eq_refl HP).
    cbn [map lognodes_of]. unfold reread_node at 1. cbn [header].
    change (fdate c0 (ln_time ZNum day_dup)) with (format_date toks0 (2020, 1, 2)%Z).
    rewrite (format_parse_date_fits toks0 _ eq_refl fits0). cbn [lognodes_of option_map]. f_equal. f_equal.
    unfold day_merged. f_equal.
    cbn [elems reread_node ln_elems day_dup reread_elems map fst snd]. rewrite !reread_ZNum.
    unfold merge_elements. cbn [fold_left add_to fst snd]. rewrite beq_refl. reflexivity.
  Qed.

  Lemma merged_entry_long : max_token <=? lengthN (entry_line ZNum (long_name, 18%Z)) = true.
  Proof. rewrite entry_len. reflexivity. Qed.

  Lemma merged_unreadable : read_log ZNum toks0 (print_output ZNum c0 [day_merged]) = None.
  Proof.
    unfold read_log. rewrite print_output_unlines. cbn [flat_map]. rewrite app_nil_r.
    rewrite day_merged_lines. unfold scan. rewrite raw_lines_unlines.
    - cbn [map take_lines]. rewrite merged_entry_long.
      change (max_token <=? lengthN head0) with false. reflexivity.
    - constructor; [reflexivity|]. constructor; [|constructor; [reflexivity|constructor]].
      unfold entry_line. cbn [fst snd]. rewrite !memb_app. rewrite long_name_no_lf. reflexivity.
  Qed.
End Long.

(** a readable log without notes whose printed form is not readable *)
Theorem print_reads_back_refuted_long_line :
  exists (data : bytes) (L : list (lognode ZNum)),
    read_log ZNum toks0 data = Some L
    /\ Forall (fun d => Forall (fun mp => documented_note mp = true) (notes_of ZNum d)) L
    /\ read_log ZNum toks0 (print_output ZNum (cfg toks0) L) = None.
Proof.
  assert (Hk : N.of_nat (N.to_nat 65527) = 65527) by apply N2Nat.id.
  exists (dup_data (N.to_nat 65527)), [day_merged (N.to_nat 65527)].
  split; [apply (dup_readable _ Hk)|]. split; [repeat constructor|]. apply (merged_unreadable _ Hk).
Qed.
