(** WP21, part A – idempotence of the resolver at the binary64 instance.

    [ref_db_idempotent_computed] (Props/C01_value.v) asks for [x * 1 = x] on every
    [x] that is a product or a sum of ARBITRARY elements of [T NM]; at [B64]
    that hypothesis is false (Proofs/FloatCanon.v,
    [computed_hypothesis_refuted_B64]: the product of two non-canonical values
    need not be canonical).  What holds is the same statement relative to an
    invariant [Q] of the amounts (here: [canonical]):

      - [Q] contains [one], is closed under [mul] and [add], and [x * 1 = x] on [Q];
      - every coefficient of the book satisfies [Q].

    First part: any [Num] and any such [Q] (no axiom, reuses WP02's lemmas).
    Second part: [NM := B64], [Q := canonical], coefficients read by
    [parse_float]; up to the book loaded from a file by the program. *)
From Coq Require Import Lia Permutation Sorted ZArith Floats.SpecFloat.
From HP Require Import Base.Bytes Base.Utf8 Base.Num Base.GoFloat.
From HP Require Import Model.Scanner Model.Parser Model.Elements Model.Resolver Spec.ResolverSpec.
From HP Require Import Proofs.ResolverValueBytes Proofs.ResolverValueStruct Proofs.ResolverValueIdem.
From HP Require Import Proofs.ResolverRef Proofs.ResolverRefine Proofs.AssemblyResolver.
From HP Require Import Proofs.FloatCanon Proofs.FloatValid.

Section IdemInv.
  Context (NM : Num).
  Notation T := (T NM).
  Notation elements := (elements NM).
  Notation db := (db NM).

  Variable Q : T -> Prop.
  Hypothesis Qone : Q (one NM).
  Hypothesis Qmul : forall y z, Q y -> Q z -> Q (mul NM y z).
  Hypothesis Qadd : forall y z, Q y -> Q z -> Q (add NM y z).
  Hypothesis Qmul1 : forall x, Q x -> mul NM x (one NM) = x.

  (** every coefficient of the book satisfies [Q] *)
  Definition book_in (B : db) : Prop :=
    forall r els x a, In (r, els) B -> In (x, a) els -> Q a.

  Lemma add_to_Q : forall n v (el : elements),
    (forall p, In p el -> Q (snd p)) -> Q v ->
    forall p, In p (add_to NM n v el) -> Q (snd p).
  Proof.
    intros n v el Hel Hv. induction el as [|[k x] el IH]; cbn [add_to]; intros p Hin.
    - destruct Hin as [Hin|[]]. subst p. exact Hv.
    - destruct (beq k n).
      + destruct Hin as [Hin|Hin].
        * subst p. cbn [snd]. apply Qadd; [apply (Hel (k, x)); left; reflexivity|exact Hv].
        * apply Hel. right. exact Hin.
      + destruct Hin as [Hin|Hin]; [subst p; apply (Hel (k, x)); left; reflexivity|].
        apply IH; [|exact Hin]. intros q Hq. apply Hel. right. exact Hq.
  Qed.

  Lemma merge_into_Q : forall l acc,
    (forall p, In p acc -> Q (snd p)) -> (forall p, In p l -> Q (snd p)) ->
    forall p, In p (merge_into NM acc l) -> Q (snd p).
  Proof.
    induction l as [|[n v] l IH]; intros acc Hacc Hl p Hin.
    - apply Hacc. exact Hin.
    - rewrite merge_into_cons in Hin. cbn [fst snd] in Hin. eapply IH; [| |exact Hin].
      + apply add_to_Q; [exact Hacc|apply (Hl (n, v)); left; reflexivity].
      + intros q Hq. apply Hl. right. exact Hq.
  Qed.

  (** every amount of a resolved value satisfies [Q] *)
  Lemma ref_node_Q : forall (B : db), book_in B ->
    forall f r h v x a, ref_node NM B f r = Some (h, Some v) -> In (x, a) v -> Q a.
  Proof.
    intros B HB. induction f as [|f IH]; intros r h v x a H Hin; [discriminate H|].
    apply ref_node_value_char in H. destruct H as [f' [els [cs [Hf [Hl [HF Hv]]]]]].
    injection Hf as <-. subst v.
    apply (Permutation_in _ (sort_elements_perm NM _)) in Hin.
    apply (merge_into_Q _ []) with (p := (x, a)) in Hin; [exact Hin| |].
    - intros p [].
    - intros p Hp. apply in_concat in Hp. destruct Hp as [c [Hc Hp]].
      destruct (Forall2_In_r _ _ _ _ HF Hc) as [[e w] [Hew [he [res [Hrec [_ Hcon]]]]]].
      cbn [fst snd] in Hcon, Hrec. subst c.
      assert (Hw : Q w) by (apply (HB r els e w); [apply lookup_In; exact Hl|exact Hew]).
      destruct res as [found|]; cbn [contrib] in Hp.
      + apply in_map_iff in Hp. destruct Hp as [[k y] [Hp Hky]]. subst p. cbn [scale fst snd].
        apply Qmul; [|exact Hw]. eapply IH; eassumption.
      + destruct Hp as [Hp|[]]. subst p. cbn [snd]. apply Qmul; assumption.
  Qed.

  Variable B : db.
  Variable N : nat.
  Hypothesis Hdepth : depth_lt NM B N.
  Hypothesis HB : book_in B.

  Lemma ref_db_entry_resolves_again_inv : forall r v, In (r, v) (ref_db NM B N) ->
    exists h', ref_node NM (ref_db NM B N) N r = Some (h', Some v).
  Proof.
    intros r v Hin. destruct (ref_db_entry NM B N Hdepth r v Hin) as [h Hh].
    apply resolved_node.
    - apply ref_db_lookup_entry; assumption.
    - intros x a Hx. apply Qmul1. eapply ref_node_Q; eassumption.
    - eapply ref_value_sorted_lemma. exact Hh.
    - intros x Hx. apply ref_db_undefined. eapply ref_value_leaves_undefined_names; eassumption.
    - apply ref_node_height_lt in Hh. lia.
    - destruct N as [|[|n]]; [discriminate|left|right; lia].
      eapply ref_node_one_empty. exact Hh.
  Qed.

  Lemma ref_db_idempotent_inv_eq : ref_db NM (ref_db NM B N) N = ref_db NM B N.
  Proof.
    transitivity (map (fun kv : bytes * elements => kv) (ref_db NM B N)); [|apply map_id].
    unfold ref_db at 1. apply map_ext_in. intros [r v] Hin. cbn [fst snd].
    destruct (ref_db_entry_resolves_again_inv r v Hin) as [h' Hh'].
    unfold ref_value. rewrite Hh'. reflexivity.
  Qed.

  (** the resolved book again has all its coefficients in [Q] *)
  Lemma ref_db_book_in : book_in (ref_db NM B N).
  Proof.
    intros r v x a Hin Hx. destruct (ref_db_entry NM B N Hdepth r v Hin) as [h Hh].
    eapply ref_node_Q; eassumption.
  Qed.

  Theorem ref_db_idempotent_inv :
    keys (ref_db NM B N) = keys B /\
    (forall r v x a, In (r, v) (ref_db NM B N) -> In (x, a) v -> lookup x (ref_db NM B N) = None) /\
    ref_db NM (ref_db NM B N) N = ref_db NM B N.
  Proof.
    split; [apply keys_ref_db|]. split; [apply ref_db_leaves_undefined; exact Hdepth|exact ref_db_idempotent_inv_eq].
  Qed.
End IdemInv.

(** the algorithm: running [resolve] on its own output returns it *)
Theorem resolve_idempotent_inv : forall (NM : Num) (Q : T NM -> Prop),
  Q (one NM) -> (forall y z, Q y -> Q z -> Q (mul NM y z)) -> (forall y z, Q y -> Q z -> Q (add NM y z)) ->
  (forall x, Q x -> mul NM x (one NM) = x) ->
  forall (B : db NM) N (perm perm' : list bytes -> list bytes) B',
    book_in NM Q B ->
    NoDup (keys B) -> Permutation (perm (keys B)) (keys B) -> Permutation (perm' (keys B)) (keys B) ->
    resolve NM N perm B = Some B' -> resolve NM N perm' B' = Some B' /\ book_in NM Q B'.
Proof.
  intros NM Q Q1 Qm Qa Qm1 B N perm perm' B' HB Hnd Hp Hp' Hres.
  destruct (resolve_success_shallow NM B N perm B' Hnd Hp Hres) as [Hd HB'].
  destruct (ref_db_idempotent_inv NM Q Q1 Qm Qa Qm1 B N Hd HB) as (Hk & _ & Hid).
  assert (Hd' : depth_lt NM B' N) by (subst B'; apply ref_db_depth_lt_nolaw; exact Hd).
  assert (Hk' : keys B' = keys B) by (subst B'; exact Hk).
  split.
  - rewrite (resolve_outcome NM B' N perm').
    + apply depth_ltb_spec in Hd'. rewrite Hd'. subst B'. rewrite Hid. reflexivity.
    + rewrite Hk'. exact Hnd.
    + rewrite Hk'. exact Hp'.
  - subst B'. apply (ref_db_book_in NM Q Q1 Qm Qa); assumption.
Qed.

(** * the binary64 instance *)

Definition canonical_book (B : db B64) : Prop :=
  forall r els x a, In (r, els) B -> In (x, a) els -> canonical a.

Lemma canonical_book_book_in : forall B, canonical_book B <-> book_in B64 canonical B.
Proof. intro B. unfold canonical_book, book_in. tauto. Qed.

(** "resolving an already resolved book changes nothing" for binary64: the
    reference book *)
Theorem B64_ref_db_idempotent : forall (B : db B64) (N : nat),
  depth_lt B64 B N -> canonical_book B ->
  keys (ref_db B64 B N) = keys B /\
  (forall r v x a, In (r, v) (ref_db B64 B N) -> In (x, a) v -> lookup x (ref_db B64 B N) = None) /\
  ref_db B64 (ref_db B64 B N) N = ref_db B64 B N.
Proof.
  intros B N Hd HB.
  apply (ref_db_idempotent_inv B64 canonical f_one_canonical SFmul_canonical_lemma SFadd_canonical_lemma
           B64_mul_one_canonical B N Hd). exact HB.
Qed.

(** ... and the algorithm, under any two visiting orders; the resolved book is canonical again *)
Theorem B64_resolve_idempotent : forall (B : db B64) (N : nat) (perm perm' : list bytes -> list bytes) (B' : db B64),
  canonical_book B ->
  NoDup (keys B) -> Permutation (perm (keys B)) (keys B) -> Permutation (perm' (keys B)) (keys B) ->
  resolve B64 N perm B = Some B' -> resolve B64 N perm' B' = Some B' /\ canonical_book B'.
Proof.
  intros B N perm perm' B' HB.
  apply (resolve_idempotent_inv B64 canonical f_one_canonical SFmul_canonical_lemma SFadd_canonical_lemma
           B64_mul_one_canonical B N perm perm' B' HB).
Qed.

(** the hypothesis is met when every coefficient was read by [parse_float] *)
Definition parsed_book (B : db B64) : Prop :=
  forall r els x a, In (r, els) B -> In (x, a) els -> exists l, of_lexeme B64 l = Some a.

Lemma parsed_book_canonical : forall B, parsed_book B -> canonical_book B.
Proof.
  intros B H r els x a Hin Hx. destruct (H r els x a Hin Hx) as [l Hl].
  eapply parse_float_canonical_lemma. exact Hl.
Qed.

Theorem B64_ref_db_idempotent_parsed : forall (B : db B64) (N : nat),
  depth_lt B64 B N ->
  (forall r els x a, In (r, els) B -> In (x, a) els -> exists l, of_lexeme B64 l = Some a) ->
  keys (ref_db B64 B N) = keys B /\
  (forall r v x a, In (r, v) (ref_db B64 B N) -> In (x, a) v -> lookup x (ref_db B64 B N) = None) /\
  ref_db B64 (ref_db B64 B N) N = ref_db B64 B N.
Proof. intros B N Hd Hp. apply B64_ref_db_idempotent; [exact Hd|apply parsed_book_canonical; exact Hp]. Qed.

(** * the book the program loads: every coefficient comes from [of_lexeme]

    For any [Num] and any property [P] of the results of [of_lexeme]: every
    coefficient of the book built by [load_db] satisfies [P].  (The parser
    stores a number only in [classify]'s [LEntry], straight from [of_lexeme].) *)
From HP Require Import Model.Dates Model.Tree Model.Writer Model.Reporters Model.Cli Proofs.OrderInv.

Section LoadInv.
  Context (NM : Num).
  Variable P : T NM -> Prop.
  Hypothesis HP : forall l v, of_lexeme NM l = Some v -> P v.

  Lemma classify_entry : forall ln line ir name v, classify NM ln line ir = LEntry NM name v -> P v.
  Proof.
    intros ln line ir name v H. unfold classify in H.
    destruct (trim (trim_text) line) as [|t0 t]; [discriminate H|].
    destruct line as [|l0 l]; [discriminate H|].
    destruct (l0 =? comment_char)%N; [discriminate H|].
    destruct (negb ((l0 =? c_space) || (l0 =? c_tab) || (l0 =? c_dash))%N); [discriminate H|].
    destruct (negb ir); [discriminate H|].
    destruct (t0 =? comment_char)%N; [discriminate H|].
    destruct (last_index_any blanks (t0 :: t)) as [sep|]; [|discriminate H].
    cbv zeta in H.
    destruct (of_lexeme NM (trim trim_qty (skipn sep (t0 :: t)))) as [v'|] eqn:E; [|discriminate H].
    injection H as _ <-. eapply HP. exact E.
  Qed.

  Definition node_ok (n : pnode NM) : Prop := forall x a, In (x, a) (elems n) -> P a.
  Definition event_ok (ev : event NM) : Prop := match ev with ENode n => node_ok n | EErr _ => True end.
  Definition cur_ok (cur : option (pnode NM)) : Prop := match cur with Some n => node_ok n | None => True end.

  Lemma parse_loop_events_ok : forall lines ln cur, cur_ok cur ->
    Forall event_ok (fst (parse_loop NM lines ln cur)) /\ cur_ok (snd (parse_loop NM lines ln cur)).
  Proof.
    induction lines as [|line rest IH]; intros ln cur Hcur; cbn [parse_loop].
    - split; [constructor|exact Hcur].
    - destruct (classify NM (ln + 1) line (match cur with Some _ => true | None => false end)) as [|h|mp|name v|e] eqn:Ecl.
      + apply IH. exact Hcur.
      + destruct (IH (ln + 1)%N (Some (new_node NM h))) as [H1 H2]; [intros x a []|].
        destruct (parse_loop NM rest (ln + 1) (Some (new_node NM h))) as [evs last]. cbn [fst snd] in *.
        split; [|exact H2]. destruct cur as [n|]; [constructor; [exact Hcur|exact H1]|exact H1].
      + apply IH. destruct cur as [n|]; [|exact I]. exact Hcur.
      + apply IH. destruct cur as [n|]; [|exact I]. cbn [option_map cur_ok]. intros x a Hin.
        cbn [add_elem elems] in Hin. apply in_app_or in Hin. destruct Hin as [Hin|[Hin|[]]].
        * eapply Hcur. exact Hin.
        * injection Hin as _ <-. eapply classify_entry. exact Ecl.
      + destruct (IH (ln + 1)%N cur Hcur) as [H1 H2].
        destruct (parse_loop NM rest (ln + 1) cur) as [evs last]. cbn [fst snd] in *.
        split; [constructor; [exact I|exact H1]|exact H2].
  Qed.

  Section Drive.
    Context {S E : Type} (cb : S -> event NM -> S * bool * option E) (Inv : S -> Prop).
    Hypothesis Hcb : forall s ev, event_ok ev -> Inv s -> Inv (fst (fst (cb s ev))).

    Lemma drive_loop_inv_ok : forall evs s, Forall event_ok evs -> Inv s -> Inv (fst (drive_loop NM cb evs s)).
    Proof.
      induction evs as [|ev r IH]; intros s Hevs Hs; cbn [drive_loop]; [exact Hs|].
      inversion Hevs as [|? ? Hev Hr]; subst.
      pose proof (Hcb s ev Hev Hs) as H1. destruct (cb s ev) as [[s' stop] e]. cbn [fst] in H1.
      destruct stop; [exact H1|apply IH; assumption].
    Qed.

    Lemma parse_stream_inv_ok : forall data f s, Inv s -> Inv (fst (parse_stream NM cb data f s)).
    Proof.
      intros data f s Hs. unfold parse_stream. destruct (scan data f) as [lines fin].
      unfold parse_lines. destruct (parse_loop_events_ok lines 0%N None I) as [Hevs Hlast].
      destruct (parse_loop NM lines 0 None) as [evs last]. cbn [fst snd] in Hevs, Hlast. unfold drive.
      pose proof (drive_loop_inv_ok evs s Hevs Hs) as H1.
      destruct (drive_loop NM cb evs s) as [s' [e|]]; cbn [fst] in *; [exact H1|].
      destruct fin; try exact H1. destruct last as [n|]; [|exact H1].
      pose proof (Hcb s' (ENode n) Hlast H1) as H2. destruct (cb s' (ENode n)) as [[s'' stop] e]. exact H2.
    Qed.
  End Drive.

  Lemma parse_opened_inv_ok : forall {S} (cb : S -> event NM -> S * bool * option cerr) (Inv : S -> Prop),
    (forall s ev, event_ok ev -> Inv s -> Inv (fst (fst (cb s ev)))) ->
    forall o s, Inv s -> Inv (fst (parse_opened NM cb o s)).
  Proof.
    intros S cb Inv Hcb o s Hs. unfold parse_opened. destruct o as [data f|].
    - pose proof (parse_stream_inv_ok cb Inv Hcb data f s Hs) as H. destruct (parse_stream NM cb data f s). exact H.
    - pose proof (parse_stream_inv_ok cb Inv Hcb [] (FailAt 0) s Hs) as H. destruct (parse_stream NM cb [] (FailAt 0) s). exact H.
  Qed.

  Lemma set_In : forall {V} k (v : V) l k' v', In (k', v') (set k v l) -> (k' = k /\ v' = v) \/ In (k', v') l.
  Proof.
    intros V k v l k' v'. induction l as [|[k0 v0] l IH]; cbn [set]; intro Hin.
    - destruct Hin as [Hin|[]]. injection Hin as <- <-. left. split; reflexivity.
    - destruct (beq k k0).
      + destruct Hin as [Hin|Hin]; [injection Hin as <- <-; left; split; reflexivity|right; right; exact Hin].
      + destruct Hin as [Hin|Hin]; [right; left; exact Hin|]. destruct (IH Hin) as [H|H]; [left; exact H|right; right; exact H].
  Qed.

  Theorem load_db_book_in : forall o, book_in NM P (fst (load_db NM o)).
  Proof.
    intro o. unfold load_db. apply (parse_opened_inv_ok _ (fun d : db NM => book_in NM P d)).
    - intros d [n|e] Hev Hd; cbn [fst]; [|exact Hd]. unfold db_push. intros r els x a Hin Hx.
      apply set_In in Hin. destruct Hin as [[_ ->]|Hin]; [eapply Hev; exact Hx|eapply Hd; eassumption].
    - intros r els x a [].
  Qed.
End LoadInv.

(** the book the program loads at [B64] is canonical *)
Theorem B64_load_db_canonical : forall o, canonical_book (fst (load_db B64 o)).
Proof.
  intro o. apply canonical_book_book_in. apply load_db_book_in.
  intros l v H. eapply parse_float_canonical_lemma. exact H.
Qed.

(** ** "resolving an already resolved book changes nothing", for the book the
    program resolves ([resolved_db], WithResolvedDatabase), in binary64:
    whatever the file, the read fault and the two visiting orders. *)
Theorem B64_resolved_db_idempotent :
  forall (w : world) (op : options) (o : opened) (B' : db B64) (perm' : list bytes -> list bytes),
    order_oracle (o_resolve (w_or w)) -> order_oracle perm' ->
    resolved_db B64 w op o = inr B' ->
    resolve B64 (Z.to_nat (op_depth op)) perm' B' = Some B' /\ canonical_book B'.
Proof.
  intros w op o B' perm' Hor Hp' H. unfold resolved_db in H.
  pose proof (B64_load_db_canonical o) as Hcan. pose proof (load_db_NoDup B64 o) as Hnd.
  destruct (load_db B64 o) as [B [e|]]; [discriminate H|]. cbn [fst] in Hcan, Hnd.
  destruct (resolve B64 (Z.to_nat (op_depth op)) (o_resolve (w_or w)) B) as [B1|] eqn:Eres; [|discriminate H].
  injection H as <-.
  apply (B64_resolve_idempotent B _ (o_resolve (w_or w)) perm' B1 Hcan Hnd (Hor _) (Hp' _) Eres).
Qed.

(** * non-vacuity *)

Definition lx (s : String.string) : T B64 := match parse_float (b s) with Some v => v | None => S754_nan end.

(* the four coefficients, evaluated once (the book below holds the literal binary64 values: [injection] on an
   equation between books must not have to reduce [parse_float]) *)
Definition v_0_1 : T B64 := Eval vm_compute in lx "0.1".
Definition v_0_2 : T B64 := Eval vm_compute in lx "0.2".
Definition v_0_3 : T B64 := Eval vm_compute in lx "0.3".
Definition v_2_675 : T B64 := Eval vm_compute in lx "2.675".
Definition n_cake : bytes := Eval vm_compute in b "cake".
Definition n_flour : bytes := Eval vm_compute in b "flour".
Definition n_icing : bytes := Eval vm_compute in b "icing".
Definition n_sugar : bytes := Eval vm_compute in b "sugar".
Definition n_butter : bytes := Eval vm_compute in b "butter".

(** cake -> 0.1 flour, 0.2 icing; icing -> 0.3 sugar, 2.675 butter *)
Definition cake_book : db B64 :=
  [ (n_cake, [(n_flour, v_0_1); (n_icing, v_0_2)]);
    (n_icing, [(n_sugar, v_0_3); (n_butter, v_2_675)]) ].

Example cake_book_parsed : parsed_book cake_book.
Proof.
  assert (H1 : of_lexeme B64 (b "0.1") = Some v_0_1) by (vm_compute; reflexivity).
  assert (H2 : of_lexeme B64 (b "0.2") = Some v_0_2) by (vm_compute; reflexivity).
  assert (H3 : of_lexeme B64 (b "0.3") = Some v_0_3) by (vm_compute; reflexivity).
  assert (H4 : of_lexeme B64 (b "2.675") = Some v_2_675) by (vm_compute; reflexivity).
  intros r els x a Hin Hx. unfold cake_book in Hin. cbn [In] in Hin.
  destruct Hin as [Hin|[Hin|[]]]; injection Hin as <- <-; cbn [In] in Hx;
    destruct Hx as [Hx|[Hx|[]]]; injection Hx as <- <-;
    [exists (b "0.1"); exact H1|exists (b "0.2"); exact H2|exists (b "0.3"); exact H3|exists (b "2.675"); exact H4].
Qed.

Example cake_book_depth : depth_lt B64 cake_book 10.
Proof. apply depth_ltb_spec. vm_compute. reflexivity. Qed.

(** the theorem applied: resolving the resolved cake book gives it back *)
Example cake_book_idempotent :
  ref_db B64 (ref_db B64 cake_book 10) 10 = ref_db B64 cake_book 10.
Proof.
  apply (B64_ref_db_idempotent cake_book 10 cake_book_depth).
  apply parsed_book_canonical. exact cake_book_parsed.
Qed.

(** ... and the resolution did something: cake = 0.1 flour + (0.3*0.2) sugar + (2.675*0.2) butter *)
Example cake_book_resolved :
  lookup n_cake (ref_db B64 cake_book 10)
  = Some [(n_butter, SFmul prec emax v_2_675 v_0_2);
          (n_flour, SFmul prec emax v_0_1 (f_of_Z 1));
          (n_sugar, SFmul prec emax v_0_3 v_0_2)].
Proof. vm_compute. reflexivity. Qed.
