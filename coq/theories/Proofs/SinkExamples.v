(** WP17 / C17 — non-vacuity: concrete worlds (exact integers, [ZNum]) that
    meet the hypotheses of the theorems and exercise each mechanism. *)
From Coq Require Import Arith List.
From HP Require Import Base.Bytes Base.Utf8 Base.Num Model.Scanner Model.Parser Model.Elements Model.Resolver
  Model.Dates Model.Tree Model.Writer Model.Reporters Model.Cli.
From HP Require Import Proofs.SinkWriter Proofs.SinkDrive Proofs.SinkRun Proofs.SinkCommands.
Open Scope nat_scope.

(** a log of [days] days, 2021/01/10 onwards, one entry each *)
Definition ex_log (days : nat) : bytes :=
  flat_map (fun d => b "2021/01/" ++ dec_of_N (N.of_nat d) ++ b ":
  apple: 2
") (seq 10 days).

Definition ex_world (days : nat) : world := {|
  w_fs := [(b "food.yaml", FFile (b "apple:
  kcal: 52
  sugar: 10
"));
           (b "log.yaml", FFile (ex_log days));
           (b "bad.yaml", FFile (b "2021/01/10:
  nonsense
"))];
  w_default_config := b "/home/u/.hranoprovod/config";
  w_tz := 0%Z; w_clock := time_of_civil (2000, 1, 1)%Z;
  w_or := {| o_resolve := fun l => l; o_day := fun _ l => l; o_flush := fun l => l |};
  w_sink := None; w_read_fault := [] |}.

Definition ex_inv (c : command) (old : bool) : invocation := {|
  i_f_db := None; i_e_db := None; i_f_log := None; i_e_log := None; i_f_fmt := None; i_e_fmt := None;
  i_f_depth := None; i_e_depth := None; i_f_today := None; i_f_config := None; i_e_config := None;
  i_no_database := false; i_g_begin := None; i_g_end := None; i_l_begin := None; i_l_end := None;
  i_g_no_color := true; i_l_no_color := false; i_single_food := []; i_single_element := [];
  i_group_food := false; i_csv := false; i_no_totals := false; i_totals_only := false;
  i_shorten := false; i_old := old; i_template := None; i_collapse := false; i_collapse_last := false;
  i_desc := false; i_silent := false; i_cmd := c |}.

Definition summary (o : outcome) : N * status := (N.of_nat (length (out_stdout o)), out_status o).

(** the sink fails from offset [n] on (binary numeral, to keep big unary numbers out of the terms) *)
Definition fails_at (n : N) : option nat := Some (N.to_nat n).

(** ** [reg] on a one-day log prints 298 bytes *)
Example ex_reg_complete :
  summary (run ZNum (with_sink (ex_world 1) None) (ex_inv CReg false)) = (298%N, Ok).
Proof. vm_compute. reflexivity. Qed.

(** the sink fails at offset 10: everything sat in the buffer, the error
    surfaces at the final flush; 10 bytes got out, the status is [EWrite] *)
Example ex_reg_sink_10 :
  summary (run ZNum (with_sink (ex_world 1) (fails_at 10)) (ex_inv CReg false)) = (10%N, Failed EWrite)
  /\ out_stdout (run ZNum (with_sink (ex_world 1) (fails_at 10)) (ex_inv CReg false))
     = firstn 10 (out_stdout (run ZNum (with_sink (ex_world 1) None) (ex_inv CReg false))).
Proof. vm_compute. split; reflexivity. Qed.

(** the hypothesis of [lost_output_is_nonzero_exit] holds there *)
Example ex_reg_sink_10_hyp :
  length (out_stdout (run ZNum (with_sink (ex_world 1) None) (ex_inv CReg false))) > 10.
Proof. apply Nat.ltb_lt. vm_compute. reflexivity. Qed.

(** the sink fails at offset 1000, beyond the report: nothing changes
    (hypothesis of [no_loss_no_change] and of [success_means_complete]) *)
Example ex_reg_sink_1000 :
  run ZNum (with_sink (ex_world 1) (fails_at 1000)) (ex_inv CReg false)
  = run ZNum (with_sink (ex_world 1) None) (ex_inv CReg false)
  /\ out_status (run ZNum (with_sink (ex_world 1) (fails_at 1000)) (ex_inv CReg false)) = Ok.
Proof. vm_compute. split; reflexivity. Qed.

(** exactly at the end of the report: still complete; one byte less: failure *)
Example ex_reg_sink_boundary :
  summary (run ZNum (with_sink (ex_world 1) (fails_at 298)) (ex_inv CReg false)) = (298%N, Ok)
  /\ summary (run ZNum (with_sink (ex_world 1) (fails_at 297)) (ex_inv CReg false)) = (297%N, Failed EWrite).
Proof. vm_compute. split; reflexivity. Qed.

(** ** a report longer than the 4096-byte buffer (20 days, 5960 bytes) *)
Example ex_reg_long_complete :
  summary (run ZNum (with_sink (ex_world 20) None) (ex_inv CReg false)) = (5960%N, Ok)
  /\ summary (run ZNum (with_sink (ex_world 20) None) (ex_inv CReg true)) = (5960%N, Ok).
Proof. vm_compute. split; reflexivity. Qed.

(** default template: every chunk is checked; the write that crosses offset
    3000 happens in the middle of the walk, [walk_cb] turns it into [EWrite]
    and stops the walk *)
Example ex_reg_long_checked :
  summary (run ZNum (with_sink (ex_world 20) (fails_at 3000)) (ex_inv CReg false)) = (3000%N, Failed EWrite).
Proof. vm_compute. reflexivity. Qed.

(** [--old] format: every chunk is unchecked ([Fprintf] results ignored); the
    walk goes on to the end and the sticky error resurfaces at the final flush *)
Example ex_reg_long_unchecked :
  summary (run ZNum (with_sink (ex_world 20) (fails_at 3000)) (ex_inv CReg true)) = (3000%N, Failed EWrite).
Proof. vm_compute. reflexivity. Qed.

(** the unchecked walk really goes on after the failure: the reporter state sees all 20 days *)
Example ex_unchecked_walk_continues :
  let w := with_sink (ex_world 20) (fails_at 3000) in
  let R := rep_quantity ZNum false in
  match tokenize default_fmt with
  | Some toks =>
      let '(_, e, rs) := walk_and_finish ZNum R (fun _ l => l) (fun l => l) toks None None
                           (OData (ex_log 20) NoFault) (new_writer w) in
      (e, rs) = (None, [(b "apple", 40%Z)])
  | None => False
  end.
Proof. vm_compute. reflexivity. Qed.

(** ** the other command shapes *)
Example ex_stats :
  summary (run ZNum (with_sink (ex_world 20) None) (ex_inv CStats false)) = (246%N, Ok)
  /\ summary (run ZNum (with_sink (ex_world 20) (fails_at 100)) (ex_inv CStats false)) = (100%N, Failed EWrite).
Proof. vm_compute. split; reflexivity. Qed.

Example ex_print_csv_totals :
  summary (run ZNum (with_sink (ex_world 20) (fails_at 100)) (ex_inv CPrint false)) = (100%N, Failed EWrite)
  /\ summary (run ZNum (with_sink (ex_world 20) (fails_at 5)) (ex_inv CCsvDb false)) = (5%N, Failed EWrite)
  /\ summary (run ZNum (with_sink (ex_world 20) (fails_at 5)) (ex_inv CCsvDbResolved false)) = (5%N, Failed EWrite)
  /\ summary (run ZNum (with_sink (ex_world 20) (fails_at 5)) (ex_inv CCsvLog false)) = (5%N, Failed EWrite)
  /\ summary (run ZNum (with_sink (ex_world 20) (fails_at 5)) (ex_inv (CElementTotal (b "kcal")) false)) = (5%N, Failed EWrite)
  /\ summary (run ZNum (with_sink (ex_world 20) (fails_at 5)) (ex_inv CBal false)) = (5%N, Failed EWrite)
  /\ summary (run ZNum (with_sink (ex_world 20) (fails_at 5)) (ex_inv CQuantity false)) = (5%N, Failed EWrite)
  /\ summary (run ZNum (with_sink (ex_world 20) (fails_at 5)) (ex_inv CTotals false)) = (5%N, Failed EWrite).
Proof. vm_compute. repeat split; reflexivity. Qed.

(** lint writes straight to the sink: a clean file, and a file with a syntax error *)
Example ex_lint :
  summary (run ZNum (with_sink (ex_world 1) None) (ex_inv (CLint (b "food.yaml")) false)) = (16%N, Ok)
  /\ summary (run ZNum (with_sink (ex_world 1) (fails_at 5)) (ex_inv (CLint (b "food.yaml")) false)) = (5%N, Failed EWrite)
  /\ summary (run ZNum (with_sink (ex_world 1) None) (ex_inv (CLint (b "bad.yaml")) false)) = (36%N, Ok)
  /\ summary (run ZNum (with_sink (ex_world 1) (fails_at 5)) (ex_inv (CLint (b "bad.yaml")) false)) = (5%N, Failed EWrite).
Proof. vm_compute. repeat split; reflexivity. Qed.

(** ** the writer alone *)
Definition ex_big : bytes := repeat 65%N (N.to_nat 5000).

(** a 5000-byte unchecked chunk goes straight to the sink, which takes 10
    bytes; [Write] reports the error, the caller ignores it; the following
    (checked) chunk finds the sticky error and aborts; nothing more reaches
    the sink; the flush reports *)
Example ex_bw_sticky :
  let w0 := bw_new {| s_limit := Some 10; s_got := [] |} in
  let '(w1, e1) := bw_chunks w0 [(ex_big, false); (b "tail", false)] in
  let '(w2, e2) := bw_chunks w1 [(b "more", true)] in
  (e1, bw_err w1, length (s_got (bw_sink w1)), e2, length (s_got (bw_sink w2)), snd (bw_flush w2))
  = (false, true, 10, true, 10, true).
Proof. vm_compute. reflexivity. Qed.

(** the simulation invariant holds initially and the step lemma's second
    alternative ([bbad]) is the one taken here *)
Example ex_bw_chunks_bad :
  let wl := bw_new {| s_limit := Some 10; s_got := [] |} in
  let wu := bw_new {| s_limit := None; s_got := [] |} in
  bsim 10 wl wu
  /\ bbad 10 (fst (bw_chunks wl [(ex_big, false); (b "tail", true)]))
             (fst (bw_chunks wu [(ex_big, false); (b "tail", true)])).
Proof.
  split; [apply bsim_new|]. unfold bbad, sbad. repeat split; try (vm_compute; reflexivity).
  apply Nat.ltb_lt. vm_compute. reflexivity.
Qed.

(** ... and the first alternative when the sink is large enough *)
Example ex_bw_chunks_sim :
  let wl := bw_new {| s_limit := fails_at 6000; s_got := [] |} in
  let wu := bw_new {| s_limit := None; s_got := [] |} in
  let cs := [(ex_big, false); (b "tail", true)] in
  bw_buf (fst (bw_chunks wl cs)) = b "tail"
  /\ s_got (bw_sink (fst (bw_chunks wl cs))) = ex_big
  /\ fst (bw_chunks wu cs) = {| bw_buf := b "tail"; bw_err := false; bw_sink := {| s_limit := None; s_got := ex_big |} |}.
Proof. vm_compute. repeat split; reflexivity. Qed.
