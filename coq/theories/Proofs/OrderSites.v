(** WP19 / C05, part 2: the vocabulary of the final theorem ([oracles_ok],
    [with_or]) and, site by site, the fact that each [range]-over-a-map site of
    the model delivers the same result under any two order oracles. *)
From Coq Require Import Lia Permutation Sorted.
From HP Require Import Base.Bytes Base.Num Model.Elements Model.Resolver Model.Tree Model.Writer
  Model.Dates Model.Parser Model.Reporters Model.Cli.
From HP Require Import Spec.ResolverSpec.
From HP Require Import Proofs.OrderSort.

(** * vocabulary *)
Section Defs.
  Context (NM : Num).

  (** every oracle of the bundle is an order oracle: what it returns for a key
      list is a permutation of that key list *)
  Definition oracles_ok (o : oracles) : Prop :=
    order_oracle (o_resolve o) /\ (forall i, order_oracle (o_day o i)) /\ order_oracle (o_flush o).

  (** [w with w_or := o] *)
  Definition with_or (w : world) (o : oracles) : world :=
    {| w_fs := w_fs w; w_default_config := w_default_config w; w_tz := w_tz w; w_clock := w_clock w;
       w_or := o; w_sink := w_sink w; w_read_fault := w_read_fault w |}.

  (** the same thing said without an update function: two worlds that agree on
      everything but the oracles *)
  Definition same_but_oracles (w1 w2 : world) : Prop :=
    w_fs w1 = w_fs w2 /\ w_default_config w1 = w_default_config w2 /\ w_tz w1 = w_tz w2 /\
    w_clock w1 = w_clock w2 /\ w_sink w1 = w_sink w2 /\ w_read_fault w1 = w_read_fault w2.

  Lemma with_or_self : forall w, with_or w (w_or w) = w.
  Proof. intros [f c z k o s r]; reflexivity. Qed.

  Lemma same_but_oracles_with_or : forall w1 w2, same_but_oracles w1 w2 -> w2 = with_or w1 (w_or w2).
  Proof.
    intros [f1 c1 z1 k1 o1 s1 r1] [f2 c2 z2 k2 o2 s2 r2] (H1 & H2 & H3 & H4 & H5 & H6);
      cbn in *; subst; reflexivity.
  Qed.

  Definition id_oracles : oracles :=
    {| o_resolve := fun l => l; o_day := fun _ l => l; o_flush := fun l => l |}.
  Definition rev_oracles : oracles :=
    {| o_resolve := @rev bytes; o_day := fun _ => @rev bytes; o_flush := @rev bytes |}.
  (** a different rotation at every site and on every day *)
  Definition rot_oracles (k : nat) : oracles :=
    {| o_resolve := fun l => skipn k l ++ firstn k l;
       o_day := fun i l => skipn (k + i) l ++ firstn (k + i) l;
       o_flush := fun l => skipn (S k) l ++ firstn (S k) l |}.

  Lemma id_oracles_ok : oracles_ok id_oracles.
  Proof. repeat split; intros; apply order_oracle_id. Qed.
  Lemma rev_oracles_ok : oracles_ok rev_oracles.
  Proof. repeat split; intros; apply order_oracle_rev. Qed.
  Lemma rot_oracles_ok : forall k, oracles_ok (rot_oracles k).
  Proof. intros k; repeat split; intros; apply order_oracle_rot. Qed.
End Defs.

(** * the sites *)
Section Sites.
  Context (NM : Num).
  Notation T := (T NM).
  Notation elements := (elements NM).
  Notation db := (list (bytes * elements)).
  Notation tree := (tree NM).

  Variables π1 π2 : list bytes -> list bytes.
  Hypothesis Hπ1 : order_oracle π1.
  Hypothesis Hπ2 : order_oracle π2.

  (** newTotalFromAccumulator, TotalReporter.Flush, elementByFoodReporter.Flush *)
  Theorem totals_order_independent : forall acc : accumulator NM,
    totals_of_acc NM π1 acc = totals_of_acc NM π2 acc.
  Proof.
    intros acc; unfold totals_of_acc. rewrite (sort_oracle2 π1 π2) by assumption. reflexivity.
  Qed.

  (** canonical form: the oracle can be dropped altogether *)
  Theorem totals_of_acc_canonical : forall acc : accumulator NM,
    totals_of_acc NM π1 acc = totals_of_acc NM (fun l => l) acc.
  Proof. intros acc; unfold totals_of_acc. rewrite sort_oracle by assumption. reflexivity. Qed.

  (** QuantityReporter.Flush: the list handed to the stable value sort *)
  Theorem named_in_order_independent : forall acc : elements,
    named_in_order NM π1 acc = named_in_order NM π2 acc.
  Proof.
    intros acc; unfold named_in_order. rewrite (sort_oracle2 π1 π2) by assumption. reflexivity.
  Qed.

  (** ... hence the value-sorted list: [sort_by_value] is a deterministic
      function of a list that does not depend on the oracle.  No law about the
      float comparison is used (NaN included). *)
  Theorem quantity_rows_independent : forall desc (acc : elements),
    sort_by_value NM desc (named_in_order NM π1 acc) = sort_by_value NM desc (named_in_order NM π2 acc).
  Proof. intros desc acc; rewrite named_in_order_independent; reflexivity. Qed.

  (** UnsolvedReporter.Flush *)
  Theorem unresolved_order_independent : forall l : list bytes,
    sort_bytes (π1 l) = sort_bytes (π2 l).
  Proof. intros l; apply sort_oracle2; assumption. Qed.

  (** ReportElement *)
  Theorem element_total_list_independent : forall (d : db) x,
    element_total_list NM π1 d x = element_total_list NM π2 d x.
  Proof.
    intros d x; unfold element_total_list. rewrite (sort_oracle2 π1 π2) by assumption. reflexivity.
  Qed.

  (** TreeNode.Keys at every node of the tree *)
  Theorem tree_order_independent : forall t : tree, order_tree NM π1 t = order_tree NM π2 t.
  Proof.
    fix IH 1. intros [n x ch]. cbn [order_tree].
    assert (E : map (order_tree NM π1) ch = map (order_tree NM π2) ch).
    { induction ch as [|c r IHr]; cbn [map]; [reflexivity|].
      f_equal; [apply IH|exact IHr]. }
    rewrite E. rewrite (sort_oracle2 π1 π2) by assumption. reflexivity.
  Qed.

  Theorem balance_rows_independent : forall collapse collapse_last (t : tree),
    balance_rows NM π1 collapse collapse_last t = balance_rows NM π2 collapse collapse_last t.
  Proof. intros c cl t; unfold balance_rows. rewrite tree_order_independent. reflexivity. Qed.

  (** GetReportItem (per day) *)
  Theorem report_item_independent : forall c (d : db) ln,
    get_report_item NM c π1 d ln = get_report_item NM c π2 d ln.
  Proof.
    intros c d ln; unfold get_report_item. rewrite totals_order_independent. reflexivity.
  Qed.

  Theorem old_totals_independent : forall c (d : db) ln,
    old_totals NM c π1 d ln = old_totals NM c π2 d ln.
  Proof.
    intros c d ln; unfold old_totals. rewrite totals_order_independent. reflexivity.
  Qed.
End Sites.

(** [order_tree] depends on the oracle only through [sort_bytes (π names)]:
    two arbitrary functions that agree after sorting give the same tree *)
Theorem order_tree_through_sort : forall NM (f g : list bytes -> list bytes),
  (forall l, sort_bytes (f l) = sort_bytes (g l)) ->
  forall t : tree NM, order_tree NM f t = order_tree NM g t.
Proof.
  intros NM f g Hfg. fix IH 1. intros [n x ch]. cbn [order_tree].
  assert (E : map (order_tree NM f) ch = map (order_tree NM g) ch).
  { induction ch as [|c r IHr]; cbn [map]; [reflexivity|].
    f_equal; [apply IH|exact IHr]. }
  rewrite E, Hfg. reflexivity.
Qed.

(** * reporters: a reporter is order independent when neither [Process] nor
      [Flush] can tell two order oracles apart, in ANY state *)
Section Reporters.
  Context (NM : Num).
  Notation elements := (elements NM).
  Notation db := (list (bytes * elements)).

  Definition rep_indep (R : reporter NM) : Prop :=
    (forall π1 π2, order_oracle π1 -> order_oracle π2 ->
       forall rs ln, r_process NM R π1 rs ln = r_process NM R π2 rs ln) /\
    (forall π1 π2, order_oracle π1 -> order_oracle π2 ->
       forall rs, r_flush NM R π1 rs = r_flush NM R π2 rs).

  Ltac triv := split; intros π1 π2 H1 H2; intros; cbn [r_process r_flush rep_template rep_summary rep_old rep_single rep_byfood rep_single_food
         rep_balance rep_balance_single rep_totals rep_quantity rep_unresolved rep_csv_log rep_print];
    try reflexivity.

  Lemma rep_template_indep : forall c (d : db), rep_indep (rep_template NM c d).
  Proof. intros c d; triv. rewrite (report_item_independent NM π1 π2) by assumption. reflexivity. Qed.

  Lemma rep_summary_indep : forall c (d : db), rep_indep (rep_summary NM c d).
  Proof. intros c d; triv. rewrite (report_item_independent NM π1 π2) by assumption. reflexivity. Qed.

  Lemma rep_old_indep : forall c (d : db), rep_indep (rep_old NM c d).
  Proof. intros c d; triv. rewrite (old_totals_independent NM π1 π2) by assumption. reflexivity. Qed.

  Lemma rep_single_indep : forall c (d : db), rep_indep (rep_single NM c d).
  Proof. intros c d; triv. Qed.

  Lemma rep_byfood_indep : forall c (d : db), rep_indep (rep_byfood NM c d).
  Proof. intros c d; triv. rewrite (totals_order_independent NM π1 π2) by assumption. reflexivity. Qed.

  Lemma rep_single_food_indep : forall c, rep_indep (rep_single_food NM c).
  Proof. intros c; triv. Qed.

  Lemma rep_balance_indep : forall c, rep_indep (rep_balance NM c).
  Proof. intros c; triv. rewrite (balance_rows_independent NM π1 π2) by assumption. reflexivity. Qed.

  Lemma rep_balance_single_indep : forall c (d : db), rep_indep (rep_balance_single NM c d).
  Proof. intros c d; triv. rewrite (balance_rows_independent NM π1 π2) by assumption. reflexivity. Qed.

  Lemma rep_totals_indep : forall d : db, rep_indep (rep_totals NM d).
  Proof. intros d; triv. rewrite (totals_order_independent NM π1 π2) by assumption. reflexivity. Qed.

  Lemma rep_quantity_indep : forall desc, rep_indep (rep_quantity NM desc).
  Proof. intros desc; triv. rewrite (named_in_order_independent NM π1 π2) by assumption. reflexivity. Qed.

  Lemma rep_unresolved_indep : forall d : db, rep_indep (rep_unresolved NM d).
  Proof. intros d; triv. rewrite (sort_oracle2 π1 π2) by assumption. reflexivity. Qed.

  Lemma rep_csv_log_indep : rep_indep (rep_csv_log NM).
  Proof. triv. Qed.

  Lemma rep_print_indep : forall c, rep_indep (rep_print NM c).
  Proof. intros c; triv. Qed.

  Lemma reg_reporter_indep : forall c (d : db), rep_indep (reg_reporter NM c d).
  Proof.
    intros c d; unfold reg_reporter.
    destruct (rc_single_element c) as [|e0 er].
    - destruct (rc_single_food c) as [|f0 fr].
      + destruct (rc_old c); [apply rep_old_indep|apply rep_template_indep].
      + apply rep_single_food_indep.
    - destruct (rc_group_food c); [apply rep_byfood_indep|apply rep_single_indep].
  Qed.

  Lemma bal_reporter_indep : forall c (d : db), rep_indep (bal_reporter NM c d).
  Proof.
    intros c d; unfold bal_reporter.
    destruct (rc_single_element c) as [|e0 er]; [apply rep_balance_indep|apply rep_balance_single_indep].
  Qed.
End Reporters.
