(** WP22 / C13 at run level, part 1: [csv log].  The rows of the export written
    directly on the RAW entries of the log file (as parsed, repeats allowed):
    one row per (selected day, distinct food of the day in order of first
    appearance), the quantity being the first-assign-then-add sum of the day's
    entries of that food ([qty_of], Spec/RegisterSpec.v). *)
From Coq Require Import Lia ZifyBool ZifyNat ZifyN.
From HP Require Import Base.Bytes Base.Utf8 Base.Num Model.Scanner Model.Parser Model.Elements Model.Resolver
  Model.Dates Model.Tree Model.Writer Model.Csv Model.Reporters Model.Cli
  Spec.RegisterSpec Spec.Agree2Spec
  Proofs.RegisterAssoc Proofs.CsvCodec Proofs.CsvWalk Proofs.CsvRows Proofs.AgreeMiscProgram.

Section Log.
  Context (NM : Num).
  Notation T := (T NM).

  (** the rows of one day: date [c], raw entries [es] *)
  Definition log_day_rows (c : Z * Z * Z) (es : list (bytes * T)) : list (list bytes) :=
    map (fun f => [format_date iso_date c; f; f3 NM (qty_of NM es f)]) (first_occurrences NM es).

  (** the rows of a file: records in file order, those whose date is in the period *)
  Definition log_rows (toks : list ltoken) (bt et : option time) (ns : list (pnode NM)) : list (list bytes) :=
    flat_map (fun n => match parse_date toks (header n) with
                       | Some c => if in_interval bt et (time_of_civil c) then log_day_rows c (elems n) else []
                       | None => []
                       end) ns.

  Lemma civ_time_of_civil : forall c, civ (time_of_civil c) = c.
  Proof. intros [[y m] d]. reflexivity. Qed.

  Lemma lognode_rows : forall n c,
    map (csv_row_of NM) (csv_entries NM [lognode_of NM n c]) = log_day_rows c (elems n).
  Proof.
    intros n c. unfold csv_entries. cbn [flat_map]. rewrite app_nil_r.
    unfold lognode_of. cbn [ln_time ln_elems]. rewrite merge_elements_spec. unfold merged, log_day_rows.
    rewrite !map_map. apply map_ext. intros f. unfold csv_row_of, ce_food, ce_qty. cbn [fst snd].
    rewrite civ_time_of_civil. reflexivity.
  Qed.

  Lemma csv_entries_app : forall L1 L2 : list (lognode NM),
    csv_entries NM (L1 ++ L2) = csv_entries NM L1 ++ csv_entries NM L2.
  Proof. intros L1 L2. unfold csv_entries. apply flat_map_app. Qed.

  Lemma selected_days_rows : forall toks bt et (ns : list (pnode NM)),
    map (csv_row_of NM) (csv_entries NM (selected_days NM toks bt et ns)) = log_rows toks bt et ns.
  Proof.
    intros toks bt et ns. induction ns as [|n ns IH]; [reflexivity|].
    unfold selected_days, log_rows. cbn [flat_map]. fold (selected_days NM toks bt et ns). fold (log_rows toks bt et ns).
    rewrite csv_entries_app, map_app, IH. f_equal.
    destruct (parse_date toks (header n)) as [c|]; [|reflexivity].
    destruct (in_interval bt et (time_of_civil c)); [|reflexivity].
    apply lognode_rows.
  Qed.

  Lemma log_rows_nonempty : forall toks bt et ns r, In r (log_rows toks bt et ns) -> r <> [].
  Proof.
    intros toks bt et ns r H. apply in_flat_map in H. destruct H as (n & _ & H).
    destruct (parse_date toks (header n)) as [c|]; [|destruct H].
    destruct (in_interval bt et (time_of_civil c)); [|destruct H].
    apply in_map_iff in H. destruct H as (f & <- & _). discriminate.
  Qed.

  (** the foods of a day's rows: each logged food once, in order of first appearance *)
  Lemma log_day_rows_foods : forall c es,
    map (fun r => nth 1 r []) (log_day_rows c es) = first_occurrences NM es
    /\ NoDup (first_occurrences NM es)
    /\ (forall f, In f (first_occurrences NM es) <-> In f (map fst es)).
  Proof.
    intros c es. split; [|split].
    - unfold log_day_rows. rewrite map_map. cbn [nth]. apply map_id.
    - apply first_occurrences_NoDup.
    - intros f. apply first_occurrences_in.
  Qed.

  (** [csv log] of the program on a readable log without malformed lines whose
      headings are dates, standard output never failing *)
  Theorem csv_log_run_reads_back : forall (w : world) (i : invocation) (op : options) (ldata : bytes),
    load w i = inr op -> i_cmd i = CCsvLog ->
    w_sink w = None ->
    open_file w (op_log op) = Some (OData ldata NoFault) ->
    snd (scan ldata NoFault) = ScanEOF ->
    no_parse_error NM (events NM ldata) ->
    all_dated NM (rc_date (op_rc op)) (nodes_of NM (events NM ldata)) ->
    let rows := log_rows (rc_date (op_rc op)) (op_begin op) (op_end op) (nodes_of NM (events NM ldata)) in
    out_status (run NM w i) = Ok
    /\ out_stdout (run NM w i) = concat (map csv_record rows)
    /\ csv_decode (out_stdout (run NM w i)) = Some rows.
  Proof.
    intros w i op ldata Hload Hcmd Hsink Hlog Hfin Hne Hdated rows.
    rewrite (csv_log_program NM w i op ldata Hload Hsink Hlog Hfin Hne Hdated Hcmd).
    cbn [out_status out_stdout].
    assert (E : concat (map (fun e => csv_record (csv_row_of NM e))
                            (csv_entries NM (selected_days NM (rc_date (op_rc op)) (op_begin op) (op_end op)
                                                           (nodes_of NM (events NM ldata)))))
                = concat (map csv_record rows)).
    { rewrite <- (map_map (csv_row_of NM) csv_record), selected_days_rows. reflexivity. }
    rewrite E. split; [reflexivity|]. split; [reflexivity|].
    apply csv_decode_encode. apply log_rows_nonempty.
  Qed.
End Log.
