(** WP21, part A – the results of the binary64 operations are canonical.
    Axiom-free (integer arithmetic on the standard library's [SpecFloat]
    definitions; Flocq proves the same through the reals).

    Main lemma [binary_round_aux_valid]: when the mantissa given to
    [binary_round_aux] has enough bits ([enough_bits], the hypothesis of Flocq's
    [binary_round_aux_correct]), the result satisfies [valid_binary].  Only the
    mantissa component of the shift register matters: a right shift by [n] is
    division by [2^n], rounding adds 0 or 1, and the number of digits follows.

    From it: [SFmul] of canonical values, [SFadd] of canonical values,
    [binary_round] / [binary_normalize] of anything, [round_scaled] and
    [parse_float] produce canonical values. *)
From Coq Require Import ZArith Lia ZifyBool List Floats.SpecFloat.
From HP Require Import Base.Bytes Base.Num Base.GoFloat.
From HP Require Import Proofs.FloatCanon Proofs.FloatExact.
Import ListNotations.
Open Scope Z_scope.

(** * number of binary digits *)

Lemma dg_bounds : forall m, 0 < m -> 2 ^ (Zdigits2 m - 1) <= m < 2 ^ Zdigits2 m.
Proof. intros [|p|p] H; try lia. cbn [Zdigits2]. apply digits2_pos_bounds. Qed.

Lemma dg_pos : forall m, 0 < m -> 1 <= Zdigits2 m.
Proof. intros [|p|p] H; try lia. cbn [Zdigits2]. lia. Qed.

Lemma dg_unique : forall m k, 0 < m -> 2 ^ (k - 1) <= m < 2 ^ k -> Zdigits2 m = k.
Proof.
  intros m k Hm [Hl Hu]. destruct (dg_bounds m Hm) as [Dl Du]. pose proof (dg_pos m Hm) as Hd.
  assert (Hk : 1 <= k).
  { destruct (Z_lt_le_dec k 1) as [Hk|Hk]; [|exact Hk]. exfalso.
    destruct (Z.eq_dec k 0) as [E|E].
    - rewrite E in Hu. change (2 ^ 0) with 1 in Hu. lia.
    - rewrite Z.pow_neg_r in Hu by lia. lia. }
  assert (H1 : 2 ^ (k - 1) < 2 ^ Zdigits2 m) by lia.
  assert (H2 : 2 ^ (Zdigits2 m - 1) < 2 ^ k) by lia.
  apply Z.pow_lt_mono_r_iff in H1; [|lia|lia]. apply Z.pow_lt_mono_r_iff in H2; [|lia|lia]. lia.
Qed.

Lemma dg_div : forall m n, 0 < m -> 0 <= n < Zdigits2 m -> Zdigits2 (m / 2 ^ n) = Zdigits2 m - n.
Proof.
  intros m n Hm Hn. destruct (dg_bounds m Hm) as [Dl Du]. set (d := Zdigits2 m) in *.
  assert (Hp : 0 < 2 ^ n) by (apply Z.pow_pos_nonneg; lia).
  assert (Hlow : 2 ^ (d - n - 1) <= m / 2 ^ n).
  { apply Z.div_le_lower_bound; [exact Hp|]. rewrite <- Z.pow_add_r by lia.
    replace (n + (d - n - 1)) with (d - 1) by lia. exact Dl. }
  assert (Hup : m / 2 ^ n < 2 ^ (d - n)).
  { apply Z.div_lt_upper_bound; [exact Hp|]. rewrite <- Z.pow_add_r by lia.
    replace (n + (d - n)) with d by lia. exact Du. }
  assert (H1 : 0 < 2 ^ (d - n - 1)) by (apply Z.pow_pos_nonneg; lia).
  apply dg_unique; [lia|]. split; [exact Hlow|exact Hup].
Qed.

Lemma div_small_dg : forall m n, 0 < m -> Zdigits2 m <= n -> m / 2 ^ n = 0.
Proof.
  intros m n Hm Hn. destruct (dg_bounds m Hm) as [_ Du]. apply Z.div_small. split; [lia|].
  assert (H : 2 ^ Zdigits2 m <= 2 ^ n) by (apply Z.pow_le_mono_r; lia). lia.
Qed.

Lemma dg_succ : forall m, 0 <= m ->
  Zdigits2 (m + 1) = Zdigits2 m \/ (m + 1 = 2 ^ Zdigits2 m /\ Zdigits2 (m + 1) = Zdigits2 m + 1).
Proof.
  intros m Hm. destruct (Z.eq_dec m 0) as [E|E].
  - subst m. right. split; reflexivity.
  - assert (Hpos : 0 < m) by lia. destruct (dg_bounds m Hpos) as [Dl Du]. pose proof (dg_pos m Hpos) as Hd.
    set (d := Zdigits2 m) in *.
    assert (Hd2 : 2 ^ d = 2 * 2 ^ (d - 1)).
    { replace d with (Z.succ (d - 1)) at 1 by lia. apply Z.pow_succ_r. lia. }
    destruct (Z.eq_dec (m + 1) (2 ^ d)) as [Eq|Ne].
    + right. split; [exact Eq|]. apply dg_unique; [lia|]. replace (d + 1 - 1) with d by lia.
      rewrite (Z.pow_add_r 2 d 1) by lia. change (2 ^ 1) with 2. lia.
    + left. apply dg_unique; [lia|]. lia.
Qed.

(** * the mantissa of the shift register *)

Lemma shr_1_m : forall mrs, 0 <= shr_m mrs -> shr_m (shr_1 mrs) = shr_m mrs / 2.
Proof.
  intros [m r s] H. cbn [shr_m] in H. destruct m as [|[p|p|]|p]; cbn [shr_1 shr_m].
  - reflexivity.
  - apply (Z.div_unique _ 2 _ 1); [lia|]. rewrite Pos2Z.inj_xI. lia.
  - apply (Z.div_unique _ 2 _ 0); [lia|]. rewrite Pos2Z.inj_xO. lia.
  - reflexivity.
  - lia.
Qed.

Lemma shr_1_m_nonneg : forall mrs, 0 <= shr_m mrs -> 0 <= shr_m (shr_1 mrs).
Proof. intros mrs H. rewrite shr_1_m by exact H. apply Z.div_pos; lia. Qed.

Lemma pow2_xO : forall p, 2 ^ Zpos p~0 = 2 ^ Zpos p * 2 ^ Zpos p.
Proof. intro p. replace (Zpos p~0) with (Zpos p + Zpos p) by lia. apply Z.pow_add_r; lia. Qed.

Lemma pow2_xI : forall p, 2 ^ Zpos p~1 = 2 * (2 ^ Zpos p * 2 ^ Zpos p).
Proof.
  intro p. replace (Zpos p~1) with (1 + (Zpos p + Zpos p)) by lia.
  rewrite !Z.pow_add_r by lia. reflexivity.
Qed.

Lemma iter_shr_m : forall p mrs, 0 <= shr_m mrs ->
  shr_m (SpecFloat.iter_pos shr_1 p mrs) = shr_m mrs / 2 ^ Zpos p.
Proof.
  induction p as [p IH|p IH|]; intros mrs H; cbn [SpecFloat.iter_pos].
  - assert (H1 : 0 <= shr_m (shr_1 mrs)) by (apply shr_1_m_nonneg; exact H).
    assert (Hp : 0 < 2 ^ Zpos p) by (apply Z.pow_pos_nonneg; lia).
    assert (H2 : 0 <= shr_m (SpecFloat.iter_pos shr_1 p (shr_1 mrs))).
    { rewrite IH by exact H1. apply Z.div_pos; lia. }
    rewrite IH by exact H2. rewrite IH by exact H1. rewrite shr_1_m by exact H.
    rewrite !Z.div_div by lia. rewrite pow2_xI. f_equal; lia.
  - assert (Hp : 0 < 2 ^ Zpos p) by (apply Z.pow_pos_nonneg; lia).
    assert (H2 : 0 <= shr_m (SpecFloat.iter_pos shr_1 p mrs)).
    { rewrite IH by exact H. apply Z.div_pos; lia. }
    rewrite IH by exact H2. rewrite IH by exact H. rewrite Z.div_div by lia. rewrite pow2_xO. reflexivity.
  - rewrite shr_1_m by exact H. reflexivity.
Qed.

Lemma shr_spec : forall mrs e n, 0 <= shr_m mrs -> 0 <= n ->
  shr_m (fst (shr mrs e n)) = shr_m mrs / 2 ^ n /\ snd (shr mrs e n) = e + n.
Proof.
  intros mrs e n Hm Hn. unfold shr. destruct n as [|p|p]; try lia; cbn [fst snd].
  - rewrite Z.pow_0_r, Z.div_1_r. lia.
  - split; [apply iter_shr_m; exact Hm|reflexivity].
Qed.

Lemma shr_m_of_loc : forall m l, shr_m (shr_record_of_loc m l) = m.
Proof. intros m [|[| |]]; reflexivity. Qed.

Lemma round_nearest_even_cases : forall m l, round_nearest_even m l = m \/ round_nearest_even m l = m + 1.
Proof. intros m [|[| |]]; cbn [round_nearest_even]; try (left; reflexivity); try (right; reflexivity).
  destruct (Z.even m); [left|right]; reflexivity. Qed.

(** * the main lemma *)

Notation fexp64 := (SpecFloat.fexp prec emax).

Lemma fexp64_eq : forall t, fexp64 t = Z.max (t - 53) (-1074).
Proof. intro t. reflexivity. Qed.

Lemma shr_fexp_spec : forall m e l, 0 <= m -> e <= fexp64 (Zdigits2 m + e) ->
  shr_m (fst (shr_fexp prec emax m e l)) = m / 2 ^ (fexp64 (Zdigits2 m + e) - e) /\
  snd (shr_fexp prec emax m e l) = fexp64 (Zdigits2 m + e).
Proof.
  intros m e l Hm He. unfold shr_fexp.
  destruct (shr_spec (shr_record_of_loc m l) e (fexp64 (Zdigits2 m + e) - e)) as [H1 H2].
  - rewrite shr_m_of_loc. exact Hm.
  - lia.
  - rewrite shr_m_of_loc in H1. split; [exact H1|]. rewrite H2. lia.
Qed.

Theorem binary_round_aux_valid : forall s mx ex lx,
  0 < mx -> enough_bits mx ex ->
  valid_binary prec emax (binary_round_aux prec emax s mx ex lx) = true.
Proof.
  intros s mx ex lx Hmx Hbits. unfold enough_bits in Hbits. unfold binary_round_aux.
  (* first shift *)
  destruct (shr_fexp_spec mx ex lx ltac:(lia) Hbits) as [A1 A2].
  destruct (shr_fexp prec emax mx ex lx) as [mrs1 e1]. cbn [fst snd] in A1, A2.
  set (d := Zdigits2 mx) in *. set (n := fexp64 (d + ex) - ex) in *.
  pose proof (dg_pos mx Hmx) as Hd. fold d in Hd.
  set (m1 := shr_m mrs1) in *.
  assert (Hm1 : 0 <= m1) by (rewrite A1; apply Z.div_pos; [lia|apply Z.pow_pos_nonneg; lia]).
  assert (P1 : fexp64 (Zdigits2 m1 + e1) = e1).
  { destruct (Z_lt_le_dec n d) as [Hn|Hn].
    - rewrite A1. unfold d. rewrite dg_div by (fold d; lia). fold d. rewrite A2.
      replace (d - n + fexp64 (d + ex)) with (d + ex) by (unfold n; lia). reflexivity.
    - assert (E0 : m1 = 0) by (rewrite A1; apply div_small_dg; [exact Hmx|fold d; lia]).
      rewrite E0. cbn [Zdigits2]. rewrite A2. unfold n in Hn. rewrite !fexp64_eq in *. lia. }
  (* rounding *)
  set (m2 := round_nearest_even m1 (loc_of_shr_record mrs1)).
  assert (Hm2 : m2 = m1 \/ m2 = m1 + 1) by apply round_nearest_even_cases.
  assert (Hm2pos : 0 <= m2) by lia.
  assert (Hd2 : Zdigits2 m2 = Zdigits2 m1 \/ (m2 = 2 ^ Zdigits2 m1 /\ Zdigits2 m2 = Zdigits2 m1 + 1)).
  { destruct Hm2 as [E|E]; rewrite E; [left; reflexivity|]. destruct (dg_succ m1 Hm1) as [H|[H1 H2]]; [left|right]; tauto. }
  (* second shift *)
  assert (Hbits2 : e1 <= fexp64 (Zdigits2 m2 + e1)).
  { destruct Hd2 as [E|[_ E]]; rewrite E; rewrite !fexp64_eq in *; lia. }
  destruct (shr_fexp_spec m2 e1 loc_Exact Hm2pos Hbits2) as [B1 B2].
  destruct (shr_fexp prec emax m2 e1 loc_Exact) as [mrs2 e2]. cbn [fst snd] in B1, B2.
  destruct (shr_m mrs2) as [|m3|m3] eqn:Em3; [reflexivity| |reflexivity].
  destruct (Zle_bool e2 (emax - prec)) eqn:Ee2; [|reflexivity].
  cbn [valid_binary]. unfold bounded. rewrite Ee2, Bool.andb_true_r.
  unfold canonical_mantissa. apply Zeq_is_eq_bool.
  change (Zpos (digits2_pos m3)) with (Zdigits2 (Zpos m3)). rewrite B1, B2.
  destruct Hd2 as [E|[Em2 E]].
  - (* same number of digits: no second shift *)
    rewrite E, P1. replace (e1 - e1) with 0 by lia. rewrite Z.pow_0_r, Z.div_1_r. rewrite E. exact P1.
  - (* the rounding carried into a new digit *)
    assert (Hm2p : 0 < m2) by (rewrite Em2; apply Z.pow_pos_nonneg; destruct m1; cbn [Zdigits2]; lia).
    rewrite E. set (d1 := Zdigits2 m1) in *.
    assert (Hd1 : 0 <= d1) by (unfold d1; destruct m1; cbn [Zdigits2]; lia).
    assert (Hcase : fexp64 (d1 + 1 + e1) = e1 \/ (fexp64 (d1 + 1 + e1) = e1 + 1 /\ 1 <= d1)).
    { rewrite !fexp64_eq in *. lia. }
    destruct Hcase as [Hc|[Hc Hd1']].
    + rewrite Hc. replace (e1 - e1) with 0 by lia. rewrite Z.pow_0_r, Z.div_1_r. rewrite E. exact Hc.
    + rewrite Hc. replace (e1 + 1 - e1) with 1 by lia.
      rewrite dg_div by (rewrite ?E; lia). rewrite E.
      replace (d1 + 1 - 1 + (e1 + 1)) with (d1 + 1 + e1) by lia. exact Hc.
Qed.

(** * consequences *)

Lemma valid_canonical : forall x, valid_binary prec emax x = true -> canonical x.
Proof. intros x H. apply canonical_valid_binary. exact H. Qed.

Theorem binary_round_canonical : forall s m e, canonical (binary_round prec emax s m e).
Proof.
  intros s m e. destruct (binary_round_as_aux s m e) as (mz & ez & E & _ & _ & Hb). rewrite E.
  apply valid_canonical, binary_round_aux_valid; [lia|exact Hb].
Qed.

Theorem binary_normalize_canonical : forall m e sz, canonical (binary_normalize prec emax m e sz).
Proof. intros [|p|p] e sz; cbn [binary_normalize]; [exact I|apply binary_round_canonical..]. Qed.

Corollary f_of_Z_canonical : forall z, canonical (f_of_Z z).
Proof. intro z. apply binary_normalize_canonical. Qed.

(** ** multiplication *)
Theorem SFmul_canonical_lemma : forall x y : f64,
  canonical x -> canonical y -> canonical (SFmul prec emax x y).
Proof.
  intros [sx|sx| |sx mx ex] [sy|sy| |sy my ey] Hx Hy; cbn [SFmul]; try exact I.
  cbn [canonical] in Hx, Hy. destruct (bounded_inv mx ex Hx) as [Fx _]. destruct (bounded_inv my ey Hy) as [Fy _].
  apply valid_canonical, binary_round_aux_valid; [lia|].
  unfold enough_bits. cbn [Zdigits2].
  destruct (digits2_pos_bounds mx) as [Lx _]. destruct (digits2_pos_bounds my) as [Ly _].
  set (dx := Zpos (digits2_pos mx)) in *. set (dy := Zpos (digits2_pos my)) in *.
  assert (Hdx : 1 <= dx) by (unfold dx; lia). assert (Hdy : 1 <= dy) by (unfold dy; lia).
  assert (Hprod : 2 ^ (dx + dy - 2) <= Zpos (mx * my)).
  { rewrite Pos2Z.inj_mul. replace (dx + dy - 2) with ((dx - 1) + (dy - 1)) by lia.
    rewrite Z.pow_add_r by lia. apply Z.mul_le_mono_nonneg; try assumption; apply Z.pow_nonneg; lia. }
  pose proof (digits2_pos_ge (mx * my) (dx + dy - 2) ltac:(lia) Hprod) as Hd.
  rewrite !fexp64_eq in *. lia.
Qed.

(** ** addition *)
Theorem SFadd_canonical_lemma : forall x y : f64,
  canonical x -> canonical y -> canonical (SFadd prec emax x y).
Proof.
  intros [sx|sx| |sx mx ex] [sy|sy| |sy my ey] Hx Hy; cbn [SFadd]; try exact I; try assumption.
  - destruct (Bool.eqb sx sy); exact I.
  - destruct (Bool.eqb sx sy); exact I.
  - apply binary_normalize_canonical.
Qed.

(** the sum of two finite values is canonical whatever the inputs; only the
    pass-through cases ([0 + y = y], [x + 0 = x]) hand a non-canonical input on *)
Lemma SFadd_finite_canonical : forall sx mx ex sy my ey,
  canonical (SFadd prec emax (S754_finite sx mx ex) (S754_finite sy my ey)).
Proof. intros. cbn [SFadd]. apply binary_normalize_canonical. Qed.

(** ** [round_scaled] and [parse_float] *)
Theorem round_scaled_canonical : forall neg m e10, canonical (round_scaled neg m e10 0).
Proof.
  intros neg m e10. destruct (round_scaled_exact_lemma neg m e10) as (q & e & loc & E & Hq & _ & Hb & _).
  rewrite E. apply valid_canonical, binary_round_aux_valid; assumption.
Qed.

Lemma special_canonical : forall s v, special s = Some v -> canonical v.
Proof.
  intros s v H. unfold special in H.
  destruct (match s with
            | [] => (false, false, s)
            | c :: r => if (c =? 43)%N then (false, true, r) else if (c =? 45)%N then (true, true, r) else (false, false, s)
            end) as [[neg signed] r].
  destruct (ieq r (b "inf") || ieq r (b "infinity"))%bool; [injection H as <-; exact I|].
  destruct (negb signed && ieq r (b "nan"))%bool; [injection H as <-; exact I|discriminate H].
Qed.

Definition all_canonical (o : option f64) : Prop := forall x, o = Some x -> canonical x.

Lemma ac_None : all_canonical None. Proof. intros x H. discriminate H. Qed.
Lemma ac_Some : forall v, canonical v -> all_canonical (Some v).
Proof. intros v Hv x H. injection H as <-. exact Hv. Qed.
Lemma ac_keep : forall v, canonical v ->
  all_canonical (match v with S754_infinity _ => None | _ => Some v end).
Proof. intros v Hv. destruct v; try apply ac_None; apply ac_Some; exact Hv. Qed.

Theorem parse_float_canonical_lemma : forall (s : bytes) (x : f64), parse_float s = Some x -> canonical x.
Proof.
  intro s. change (all_canonical (parse_float s)). unfold parse_float.
  destruct (special s) as [v|] eqn:Esp; [apply ac_Some; eapply special_canonical; exact Esp|].
  destruct s as [|c r0]; [apply ac_None|]. cbv zeta.
  repeat match goal with
         | |- all_canonical None => apply ac_None
         | |- all_canonical (Some _) => apply ac_Some; exact I
         | |- all_canonical (match ?x with _ => _ end) => first [apply ac_keep | destruct x]
         end.
  (* the value before the range check *)
  all: repeat match goal with
       | |- canonical (if ?x then _ else _) => destruct x
       end;
       try exact I; try apply binary_round_canonical; try apply round_scaled_canonical.
Qed.

Corollary B64_of_lexeme_canonical : forall (l : bytes) (x : T B64), of_lexeme B64 l = Some x -> canonical x.
Proof. exact parse_float_canonical_lemma. Qed.

(** ** what [ref_db_idempotent_computed] needs, restricted to canonical operands *)
Theorem B64_mul_one_computed : forall x y z : T B64,
  canonical y -> canonical z -> x = mul B64 y z \/ x = add B64 y z -> mul B64 x (one B64) = x.
Proof.
  intros x y z Hy Hz [E|E]; subst x; apply B64_mul_one_canonical.
  - apply SFmul_canonical_lemma; assumption.
  - apply SFadd_canonical_lemma; assumption.
Qed.

Example mul_canonical_example :   (* 0.1 * 0.1, inexact *)
  SFmul prec emax (S754_finite false 7205759403792794 (-56)) (S754_finite false 7205759403792794 (-56))
  = S754_finite false 5764607523034236 (-59)
  /\ bounded prec emax 5764607523034236 (-59) = true.
Proof. vm_compute. split; reflexivity. Qed.
