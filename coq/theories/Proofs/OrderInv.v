(** WP19 / C05, part 3: key-uniqueness invariants.  In the model a Go map is an
    association list; these lemmas show that every such list the program builds
    has pairwise different keys (so that "the runtime delivers the keys in some
    order" = "a permutation of [keys m]" is the right reading of an oracle), by
    induction over the operations that build the structure, for ANY input. *)
From Coq Require Import Lia Permutation Sorted.
From HP Require Import Base.Bytes Base.Num Model.Scanner Model.Elements Model.Resolver Model.Tree Model.Writer
  Model.Dates Model.Parser Model.Reporters Model.Cli.
From HP Require Import Spec.ResolverSpec Spec.TreeShared.
From HP Require Import Proofs.OrderSort.

(** * association lists *)
Section Assoc.
  Context {V : Type}.
  Implicit Types (l : list (bytes * V)) (k : bytes) (v : V).

  Lemma existsb_beq_In : forall k (ks : list bytes), existsb (beq k) ks = true <-> In k ks.
  Proof.
    intros k ks; rewrite existsb_exists; split.
    - intros (x & Hx & E); apply beq_true_iff in E; subst; exact Hx.
    - intros H; exists k; split; [exact H|apply beq_refl].
  Qed.

  Lemma existsb_beq_notIn : forall k (ks : list bytes), existsb (beq k) ks = false <-> ~ In k ks.
  Proof.
    intros k ks; rewrite <- existsb_beq_In. destruct (existsb (beq k) ks); split; congruence.
  Qed.

  Lemma lookup_Some_In : forall k l v, lookup k l = Some v -> In k (keys l).
  Proof.
    intros k l; induction l as [|[k' v'] r IH]; intros v H; cbn [lookup] in H; [discriminate|].
    cbn [keys map fst]. destruct (beq_spec k k') as [E|E]; [left; congruence|right; eapply IH; exact H].
  Qed.

  Lemma lookup_None_notIn : forall k l, lookup k l = None <-> ~ In k (keys l).
  Proof.
    intros k l; induction l as [|[k' v'] r IH]; cbn [lookup keys map fst In]; [tauto|].
    destruct (beq_spec k k') as [E|E].
    - split; [discriminate|]. intros H; exfalso; apply H; left; congruence.
    - fold (keys r). rewrite IH. split; [intros H [H'|H']; [congruence|tauto]|tauto].
  Qed.

  Lemma In_lookup_Some : forall k l, In k (keys l) -> exists v, lookup k l = Some v.
  Proof.
    intros k l H; destruct (lookup k l) as [v|] eqn:E; [eauto|].
    apply lookup_None_notIn in E; contradiction.
  Qed.

  (** [m[k] = v] replaces in place or appends: the key list changes only by a new last key *)
  Lemma keys_set : forall k v l,
    keys (set k v l) = if existsb (beq k) (keys l) then keys l else keys l ++ [k].
  Proof.
    intros k v l; induction l as [|[k' v'] r IH]; cbn [set keys map fst existsb]; [reflexivity|].
    destruct (beq_spec k k') as [E|E]; cbn [orb map fst].
    - subst; reflexivity.
    - fold (keys r). fold (keys (set k v r)). rewrite IH.
      destruct (existsb (beq k) (keys r)); reflexivity.
  Qed.

  Lemma keys_set_present : forall k v l, In k (keys l) -> keys (set k v l) = keys l.
  Proof. intros k v l H; rewrite keys_set. apply existsb_beq_In in H; rewrite H; reflexivity. Qed.

  Lemma keys_set_absent : forall k v l, ~ In k (keys l) -> keys (set k v l) = keys l ++ [k].
  Proof. intros k v l H; rewrite keys_set. apply existsb_beq_notIn in H; rewrite H; reflexivity. Qed.

  Lemma NoDup_snoc : forall (A : Type) (x : A) (ks : list A), ~ In x ks -> NoDup ks -> NoDup (ks ++ [x]).
  Proof.
    intros A x ks Hn Hd. eapply Permutation_NoDup; [apply Permutation_cons_append|].
    constructor; assumption.
  Qed.

  Lemma NoDup_keys_set : forall k v l, NoDup (keys l) -> NoDup (keys (set k v l)).
  Proof.
    intros k v l H; rewrite keys_set. destruct (existsb (beq k) (keys l)) eqn:E; [exact H|].
    apply NoDup_snoc; [apply existsb_beq_notIn; exact E|exact H].
  Qed.

  Lemma keys_app : forall l1 l2, keys (l1 ++ l2) = keys l1 ++ keys l2.
  Proof. intros l1 l2; unfold keys; apply map_app. Qed.
End Assoc.

(** * the parser's callback protocol preserves any invariant the callback preserves *)
Section Drive.
  Context (NM : Num) {S E : Type} (P : S -> Prop) (cb : S -> event NM -> S * bool * option E).
  Hypothesis cb_inv : forall s ev, P s -> P (fst (fst (cb s ev))).

  Lemma drive_loop_inv : forall evs s, P s -> P (fst (drive_loop NM cb evs s)).
  Proof.
    induction evs as [|ev r IH]; intros s Hs; cbn [drive_loop]; [exact Hs|].
    pose proof (cb_inv s ev Hs) as H. destruct (cb s ev) as [[s' stop] e]; cbn [fst] in H.
    destruct stop; [exact H|apply IH; exact H].
  Qed.

  Lemma drive_inv : forall evs last fin s, P s -> P (fst (drive NM cb evs last fin s)).
  Proof.
    intros evs last fin s Hs; unfold drive.
    pose proof (drive_loop_inv evs s Hs) as H.
    destruct (drive_loop NM cb evs s) as [s' [e|]]; cbn [fst] in *; [exact H|].
    destruct fin; try exact H.
    destruct last as [n|]; [|exact H].
    pose proof (cb_inv s' (ENode n) H) as H'. destruct (cb s' (ENode n)) as [[s'' stop] e]; exact H'.
  Qed.

  Lemma parse_stream_inv : forall data f s, P s -> P (fst (parse_stream NM cb data f s)).
  Proof.
    intros data f s Hs; unfold parse_stream.
    destruct (scan data f) as [lines fin]. destruct (parse_lines NM lines) as [evs last].
    apply drive_inv; exact Hs.
  Qed.
End Drive.

Section Inv.
  Context (NM : Num).
  Notation T := (T NM).
  Notation elements := (elements NM).
  Notation db := (list (bytes * elements)).

  Lemma parse_opened_inv : forall (S : Type) (P : S -> Prop) (cb : S -> event NM -> S * bool * option (cerr)),
    (forall s ev, P s -> P (fst (fst (cb s ev)))) ->
    forall o s, P s -> P (fst (parse_opened NM cb o s)).
  Proof.
    intros S P cb Hcb o s Hs; unfold parse_opened.
    destruct o as [d f|].
    - pose proof (parse_stream_inv NM P cb Hcb d f s Hs) as H.
      destruct (parse_stream NM cb d f s) as [s' r]; exact H.
    - pose proof (parse_stream_inv NM P cb Hcb [] (FailAt 0) s Hs) as H.
      destruct (parse_stream NM cb [] (FailAt 0) s) as [s' r]; exact H.
  Qed.

  (** ** the book: whatever the database file contains (any bytes, any read
         fault, a directory, a parse error half way), the map [load_db] builds
         has pairwise different keys *)
  Theorem load_db_NoDup : forall o, NoDup (keys (fst (load_db NM o))).
  Proof.
    intros o; unfold load_db.
    apply (parse_opened_inv db (fun d => NoDup (keys d))).
    - intros d [n|e] Hd; cbn [fst]; [|exact Hd].
      unfold db_push. apply NoDup_keys_set; exact Hd.
    - constructor.
  Qed.
End Inv.

(** * the resolver keeps the key list of the book *)
Section ResolveKeys.
  Context (NM : Num).
  Notation T := (T NM).
  Notation elements := (elements NM).
  Notation db := (Resolver.db NM).
  Notation memo := (Resolver.memo).

  Lemma ingredients_loop_keys :
    forall rec : db * memo -> bytes -> option (nat * (db * memo)),
      (forall st e h st', rec st e = Some (h, st') -> keys (fst st') = keys (fst st)) ->
      forall els st nel height h st' nel',
        ingredients_loop NM rec els st nel height = Some (h, st', nel') -> keys (fst st') = keys (fst st).
  Proof.
    intros rec Hrec els; induction els as [|[e v] rest IH]; intros st nel height h st' nel' H;
      cbn [ingredients_loop] in H.
    - injection H as _ E _; subst; reflexivity.
    - destruct (rec st e) as [[h1 st1]|] eqn:E1; [|discriminate].
      apply IH in H. rewrite H. eapply Hrec; exact E1.
  Qed.

  Lemma resolve_node_keys : forall fuel st name h st',
    resolve_node NM fuel st name = Some (h, st') -> keys (fst st') = keys (fst st).
  Proof.
    induction fuel as [|f IH]; intros st name h st' H; cbn [resolve_node] in H; [discriminate|].
    destruct (lookup name (fst st)) as [els|] eqn:El; [|injection H as _ E; subst; reflexivity].
    destruct (lookup name (snd st)) as [[|h0]|] eqn:Em.
    - discriminate.
    - destruct (Nat.leb (S f) h0); [discriminate|injection H as _ E; subst; reflexivity].
    - destruct (ingredients_loop NM (resolve_node NM f) els (fst st, set name InProgress (snd st)) [] 0)
        as [[[height [d m]] nel]|] eqn:Eloop; [|discriminate].
      injection H as _ E; subst st'. cbn [fst].
      apply (ingredients_loop_keys _ IH) in Eloop. cbn [fst] in Eloop.
      rewrite keys_set_present; [exact Eloop|].
      rewrite Eloop. eapply lookup_Some_In; exact El.
  Qed.

  Lemma resolve_all_keys : forall N order st st',
    resolve_all NM N order st = Some st' -> keys (fst st') = keys (fst st).
  Proof.
    intros N order; induction order as [|name rest IH]; intros st st' H; cbn [resolve_all] in H.
    - injection H as E; subst; reflexivity.
    - destruct (resolve_node NM N st name) as [[h st1]|] eqn:E1; [|discriminate].
      apply IH in H. rewrite H. eapply resolve_node_keys; exact E1.
  Qed.

  (** for ANY function [π] (not even a permutation) *)
  Theorem resolve_keys : forall N π (B B' : db), resolve NM N π B = Some B' -> keys B' = keys B.
  Proof.
    intros N π B B' H; unfold resolve in H.
    destruct (resolve_all NM N (π (keys B)) (B, [])) as [st'|] eqn:E; [|discriminate].
    injection H as E'; subst B'. apply resolve_all_keys in E. exact E.
  Qed.

  Corollary resolve_NoDup : forall N π (B B' : db),
    NoDup (keys B) -> resolve NM N π B = Some B' -> NoDup (keys B').
  Proof. intros N π B B' Hd H; rewrite (resolve_keys _ _ _ _ H); exact Hd. Qed.

  (** the book every command works with has pairwise different keys *)
  Corollary resolved_db_NoDup : forall w op o d, resolved_db NM w op o = inr d -> NoDup (keys d).
  Proof.
    intros w op o d H; unfold resolved_db in H.
    pose proof (load_db_NoDup NM o) as Hd.
    destruct (load_db NM o) as [d0 [e|]]; [discriminate|]. cbn [fst] in Hd.
    destruct (resolve NM (Z.to_nat (op_depth op)) (o_resolve (w_or w)) d0) as [d'|] eqn:E; [|discriminate].
    injection H as E'; subst d'. eapply resolve_NoDup; eassumption.
  Qed.
End ResolveKeys.

(** * accumulators, quantity maps, the unresolved list *)
Section Accs.
  Context (NM : Num).
  Notation T := (T NM).
  Notation elements := (elements NM).
  Notation db := (list (bytes * elements)).

  Lemma fold_left_inv : forall (A B : Type) (P : A -> Prop) (f : A -> B -> A),
    (forall a x, P a -> P (f a x)) -> forall l a, P a -> P (fold_left f l a).
  Proof.
    intros A B P f Hf l; induction l as [|x r IH]; intros a Ha; cbn [fold_left]; [exact Ha|].
    apply IH, Hf, Ha.
  Qed.

  Lemma acc_add_NoDup : forall name v (acc : accumulator NM),
    NoDup (keys acc) -> NoDup (keys (acc_add NM name v acc)).
  Proof.
    intros name v acc H; unfold acc_add.
    destruct (lookup name acc) as [[p n]|] eqn:E.
    - apply NoDup_keys_set; exact H.
    - rewrite keys_app. cbn [keys map fst]. apply NoDup_snoc; [|exact H].
      apply lookup_None_notIn; exact E.
  Qed.

  (** the key list of an accumulator only ever grows at the end *)
  Lemma acc_add_keys : forall name v (acc : accumulator NM),
    keys (acc_add NM name v acc) = if existsb (beq name) (keys acc) then keys acc else keys acc ++ [name].
  Proof.
    intros name v acc; unfold acc_add.
    destruct (lookup name acc) as [[p n]|] eqn:E.
    - apply keys_set.
    - rewrite keys_app. apply lookup_None_notIn, existsb_beq_notIn in E. rewrite E. reflexivity.
  Qed.

  Lemma acc_fold_NoDup : forall (cs : elements) (acc : accumulator NM),
    NoDup (keys acc) -> NoDup (keys (fold_left (fun a nv => acc_add NM (fst nv) (snd nv) a) cs acc)).
  Proof.
    intros cs acc H.
    apply (fold_left_inv _ _ (fun a : accumulator NM => NoDup (keys a))); [|exact H].
    intros a x Ha; apply acc_add_NoDup; exact Ha.
  Qed.

  (** the per-day accumulator of GetReportItem / the old reporter *)
  Theorem accumulate_NoDup : forall cs : elements, NoDup (keys (accumulate NM cs)).
  Proof. intros cs; unfold accumulate. apply acc_fold_NoDup. constructor. Qed.

  Lemma qty_add_NoDup : forall name v (acc : elements),
    NoDup (keys acc) -> NoDup (keys (qty_add NM name v acc)).
  Proof.
    intros name v acc H; unfold qty_add.
    destruct (lookup name acc) as [x|] eqn:E.
    - apply NoDup_keys_set; exact H.
    - rewrite keys_app. cbn [keys map fst]. apply NoDup_snoc; [|exact H].
      apply lookup_None_notIn; exact E.
  Qed.

  Lemma qty_fold_NoDup : forall (els acc : elements),
    NoDup (keys acc) -> NoDup (keys (fold_left (fun a nv => qty_add NM (fst nv) (snd nv) a) els acc)).
  Proof.
    intros els acc H.
    apply (fold_left_inv _ _ (fun a : elements => NoDup (keys a))); [|exact H].
    intros a x Ha; apply qty_add_NoDup; exact Ha.
  Qed.

  Lemma unresolved_step_NoDup : forall (d : db) (els : elements) (l : list bytes),
    NoDup l ->
    NoDup (fold_left (fun a nv => match lookup (fst nv) d with
                                  | Some _ => a
                                  | None => if existsb (beq (fst nv)) a then a else a ++ [fst nv]
                                  end) els l).
  Proof.
    intros d els l H.
    apply (fold_left_inv _ _ (fun a : list bytes => NoDup a)); [|exact H].
    intros a x Ha. destruct (lookup (fst x) d); [exact Ha|].
    destruct (existsb (beq (fst x)) a) eqn:E; [exact Ha|].
    apply NoDup_snoc; [apply existsb_beq_notIn; exact E|exact Ha].
  Qed.
End Accs.

(** * trees *)
Section Trees.
  Context (NM : Num).
  Notation T := (T NM).
  Notation tree := (tree NM).

  Definition wf_list (ch : list tree) : Prop := NoDup (map (t_name NM) ch) /\ Forall (wf_tree NM) ch.

  Lemma wf_all_Forall : forall ch : list tree,
    (fix all (l : list tree) : Prop := match l with [] => True | c :: r => wf_tree NM c /\ all r end) ch
    <-> Forall (wf_tree NM) ch.
  Proof.
    induction ch as [|c r IH]; split; intros H.
    - constructor.
    - exact I.
    - destruct H as [Hc Hr]. constructor; [exact Hc|apply IH; exact Hr].
    - inversion H as [|c' r' Hc Hr]; subst. split; [exact Hc|apply IH; exact Hr].
  Qed.

  Lemma wf_tree_Node : forall n x ch, wf_tree NM (Node n x ch) <-> wf_list ch.
  Proof.
    intros n x ch; unfold wf_list; cbn [wf_tree]. rewrite wf_all_Forall. reflexivity.
  Qed.

  Lemma add_deep_cons : forall n rest v (ch : list tree),
    add_deep NM (n :: rest) v ch =
    match ch with
    | [] => [Node n v (add_deep NM rest v [])]
    | Node n' t c :: r =>
        if beq n n' then Node n' (add NM t v) (add_deep NM rest v c) :: r
        else Node n' t c :: add_deep NM (n :: rest) v r
    end.
  Proof. intros n rest v [|[n' t c] r]; reflexivity. Qed.

  (** AddDeep changes the list of child names only by a new last name *)
  Lemma add_deep_names : forall n rest v (ch : list tree),
    map (t_name NM) (add_deep NM (n :: rest) v ch) =
    if existsb (beq n) (map (t_name NM) ch) then map (t_name NM) ch else map (t_name NM) ch ++ [n].
  Proof.
    intros n rest v ch; induction ch as [|[n' t c] r IH]; rewrite add_deep_cons.
    - reflexivity.
    - cbn [map t_name existsb]. destruct (beq n n') eqn:E; cbn [orb].
      + reflexivity.
      + cbn [map t_name]. rewrite IH. destruct (existsb (beq n) (map (t_name NM) r)); reflexivity.
  Qed.

  Lemma add_deep_wf : forall names v (ch : list tree), wf_list ch -> wf_list (add_deep NM names v ch).
  Proof.
    induction names as [|n rest IHn]; intros v ch Hwf; [exact Hwf|].
    split.
    - rewrite add_deep_names. destruct Hwf as [Hnd _].
      destruct (existsb (beq n) (map (t_name NM) ch)) eqn:E; [exact Hnd|].
      apply NoDup_snoc; [apply existsb_beq_notIn; exact E|exact Hnd].
    - destruct Hwf as [_ Hall]. induction Hall as [|[n' t c] r Hc Hr IHr]; rewrite add_deep_cons.
      + constructor; [|constructor]. apply wf_tree_Node. apply IHn. split; constructor.
      + destruct (beq n n').
        * constructor; [|exact Hr]. apply wf_tree_Node. apply IHn. apply wf_tree_Node in Hc. exact Hc.
        * constructor; [exact Hc|exact IHr].
  Qed.

  Lemma tree_add_wf : forall (root : tree) name v, wf_tree NM root -> wf_tree NM (tree_add NM root name v).
  Proof.
    intros [n t ch] name v H; unfold tree_add. apply wf_tree_Node. apply add_deep_wf.
    apply wf_tree_Node in H; exact H.
  Qed.

  Lemma empty_root_wf : wf_tree NM (empty_root NM).
  Proof. apply wf_tree_Node; split; constructor. Qed.

  Lemma tree_add_all_wf : forall (els : elements NM) (root : tree),
    wf_tree NM root -> wf_tree NM (tree_add_all NM root els).
  Proof.
    intros els root H; unfold tree_add_all.
    apply (fold_left_inv _ _ (wf_tree NM)); [|exact H].
    intros a x Ha; apply tree_add_wf; exact Ha.
  Qed.

  (** every node of every tree the balance reporters can build: children with pairwise different names *)
  Theorem built_tree_wf : forall days : list (elements NM),
    wf_tree NM (fold_left (fun t els => tree_add_all NM t els) days (empty_root NM)).
  Proof.
    intros days. apply (fold_left_inv _ _ (wf_tree NM)); [|apply empty_root_wf].
    intros a x Ha; apply tree_add_all_wf; exact Ha.
  Qed.
End Trees.

(** * reachable reporter states: the invariant holds initially and every
      [Process] call keeps it, whatever the oracle and the day *)
Section ReporterInv.
  Context (NM : Num).
  Notation elements := (elements NM).
  Notation db := (list (bytes * elements)).

  Definition rep_inv (R : reporter NM) (I : RS NM R -> Prop) : Prop :=
    I (r_init NM R) /\ forall π rs ln, I rs -> I (fst (fst (r_process NM R π rs ln))).

  Lemma rep_totals_inv : forall d : db,
    rep_inv (rep_totals NM d) (fun acc : accumulator NM => NoDup (keys acc)).
  Proof. intros d; split; [constructor|]. intros π rs ln H; cbn. apply acc_fold_NoDup; exact H. Qed.

  Lemma rep_byfood_inv : forall c (d : db),
    rep_inv (rep_byfood NM c d) (fun acc : accumulator NM => NoDup (keys acc)).
  Proof. intros c d; split; [constructor|]. intros π rs ln H; cbn. apply acc_fold_NoDup; exact H. Qed.

  Lemma rep_quantity_inv : forall desc,
    rep_inv (rep_quantity NM desc) (fun acc : elements => NoDup (keys acc)).
  Proof. intros desc; split; [constructor|]. intros π rs ln H; cbn. apply qty_fold_NoDup; exact H. Qed.

  Lemma rep_unresolved_inv : forall d : db,
    rep_inv (rep_unresolved NM d) (fun l : list bytes => NoDup l).
  Proof. intros d; split; [constructor|]. intros π rs ln H; cbn. apply unresolved_step_NoDup; exact H. Qed.

  Lemma rep_balance_inv : forall c, rep_inv (rep_balance NM c) (wf_tree NM).
  Proof. intros c; split; [apply empty_root_wf|]. intros π rs ln H; cbn. apply tree_add_all_wf; exact H. Qed.

  Lemma rep_balance_single_inv : forall c (d : db),
    rep_inv (rep_balance_single NM c d) (fun st => wf_tree NM (fst st)).
  Proof. intros c d; split; [apply empty_root_wf|]. intros π rs ln H; cbn. apply tree_add_all_wf; exact H. Qed.

  (** the state a walk hands to [Flush] satisfies the reporter's invariant:
      any log (any bytes), any oracles, any period, any sink *)
  Theorem walk_state_inv : forall (R : reporter NM) I, rep_inv R I ->
    forall pd toks bt et o wr,
      I (fst (fst (fst (parse_opened NM (walk_cb NM R pd toks bt et) o (r_init NM R, 0%nat, wr))))).
  Proof.
    intros R I [Hinit Hstep] pd toks bt et o wr.
    apply (parse_opened_inv NM (walk_state NM R) (fun st => I (fst (fst st)))); [|exact Hinit].
    intros [[rs i] wr0] ev Hs; cbn [fst] in Hs. unfold walk_cb.
    destruct ev as [n|e]; [|exact Hs].
    destruct (parse_date toks (header n)) as [c|]; [|exact Hs].
    destruct (in_interval bt et (time_of_civil c)); [|exact Hs].
    pose proof (Hstep (pd i) rs
                  {| ln_time := time_of_civil c; ln_elems := merge_elements NM (elems n); ln_meta := meta n |} Hs) as H.
    destruct (r_process NM R (pd i) rs _) as [[rs' chunks] perr]. cbn [fst] in H.
    destruct (bw_chunks wr0 chunks) as [wr' werr]. exact H.
  Qed.
End ReporterInv.
