(** WP20 (assembly) - non-vacuity of the end-to-end resolver theorems: the
    diamond book of Proofs/ResolverExamples.v (exact integers), visited in
    reverse order, limit 4 (its longest chain has 3 references). *)
From Coq Require Import Lia ZArith Sorted Permutation.
From HP Require Import Base.Bytes Base.Num Model.Elements Model.Resolver Spec.ResolverSpec.
From HP Require Import Proofs.ResolverExamples Proofs.AssemblyResolver.
From HP Require Proofs.ResolverValueExamples.

(** the algorithm succeeds on it, in reverse visiting order, and returns this book *)
Example diamond_resolves : resolve ZNum 4 revp diamond = Some diamond_resolved.
Proof. vm_compute. reflexivity. Qed.

(** ... with limit 3 it fails: the hypothesis [resolve = Some _] is not always met *)
Example diamond_limit3_fails : resolve ZNum 3 revp diamond = None.
Proof. vm_compute. reflexivity. Qed.

(** the theorem applied: hypotheses are met, the conclusion speaks about the
    entry of "top" that the ALGORITHM computed *)
Example diamond_top_by_theorem :
  lookup (b "top") diamond_resolved = Some [(b "salt", 2%Z); (b "x", 341%Z); (b "y", 403%Z)] /\
  341%Z = sum_of ZNum (b "x") (paths ZNum diamond 4 (b "top")) /\
  paths ZNum diamond 4 (b "top")
  = [(b "x", 1 * 11 * 5 * 2)%Z; (b "y", 1 * 13 * 5 * 2)%Z; (b "salt", 1 * 1 * 2)%Z;
     (b "x", 1 * 11 * 7 * 3)%Z; (b "y", 1 * 13 * 7 * 3)%Z].
Proof.
  split; [vm_compute; reflexivity|]. split; [|vm_compute; reflexivity].
  destruct (resolve_end_to_end ZNum ResolverValueExamples.ZNum_CSemiring diamond 4 revp diamond_resolved
              diamond_nodup (revp_perm _) diamond_resolves) as [_ H].
  destruct (H (b "top") [(b "salt", 2%Z); (b "x", 341%Z); (b "y", 403%Z)]) as (_ & _ & _ & _ & Hsum).
  - vm_compute. reflexivity.
  - apply Hsum. vm_compute. reflexivity.
Qed.

Example diamond_shallow_iff : depth_lt ZNum diamond 4 /\ ~ depth_lt ZNum diamond 3.
Proof.
  split.
  - apply (resolve_succeeds_iff_shallow ZNum diamond 4 revp diamond_nodup (revp_perm _)).
    exists diamond_resolved. exact diamond_resolves.
  - intros H. apply (resolve_succeeds_iff_shallow ZNum diamond 3 revp diamond_nodup (revp_perm _)) in H.
    destruct H as [B' HB']. rewrite diamond_limit3_fails in HB'. discriminate.
Qed.

(** idempotence of the algorithm, by the theorem and by computation; the second
    run uses the other visiting order *)
Example diamond_idempotent_by_theorem : resolve ZNum 4 idp diamond_resolved = Some diamond_resolved.
Proof.
  apply (resolve_idempotent ZNum ResolverValueExamples.ZNum_mul1 diamond 4 revp idp diamond_resolved
           diamond_nodup (revp_perm _) (idp_perm _) diamond_resolves).
Qed.
Example diamond_idempotent_computed : resolve ZNum 4 idp diamond_resolved = Some diamond_resolved.
Proof. vm_compute. reflexivity. Qed.
