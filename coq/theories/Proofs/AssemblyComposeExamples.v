(** WP20 (assembly) - non-vacuity of the byte-level composition theorems: two
    rendered logs (the first with every layout variant of
    Proofs/ParserExamples.v and a final newline, the second starting with a
    comment line), three worlds with three different oracle bundles, the
    commands csv log, print and reg. *)
From Coq Require Import Lia Permutation.
From HP Require Import Base.Bytes Base.Utf8 Base.Num Model.Scanner Model.Parser Model.Syntax Model.Elements
  Model.Dates Model.Writer Model.Reporters Model.Cli.
From HP Require Import Proofs.ParserScan Proofs.ParserCorollaries Proofs.ParserConcat Proofs.ParserExamples.
From HP Require Import Proofs.OrderSites Proofs.OrderExamples.
From HP Require Import Proofs.AssemblyCompose.

Definition part1 : file := {| f_items := ex_items; f_final_newline := true |}.
Definition part2 : file :=
  {| f_items := [(IComment (b " appended later"), false);
                 (IHeading (b "2021/01/26") (b ":"), false);
                 (IEntry (b "  - ") (b "soup") (b ": ") (b "2") [], false);
                 (IEntry [c_tab] (b "bread") (b " ") (b "1") [], false)];
     f_final_newline := false |}.

Example parts_appendable : appendable ZNum part1 part2.
Proof.
  unfold appendable. repeat split; try (vm_compute; reflexivity);
    apply short_lines_simple; repeat constructor.
Qed.

Definition world_with (log : bytes) (o : oracles) : world :=
  {| w_fs := [(b "food.yaml", FFile ex_db); (b "log.yaml", FFile log)];
     w_default_config := b "/home/u/.hranoprovod/config"; w_tz := 0%Z;
     w_clock := time_of_civil (2021, 1, 30)%Z; w_or := o; w_sink := None; w_read_fault := [] |}.

Definition w1 := world_with (render part1) id_oracles.
Definition w2 := world_with (render part2) rev_oracles.
Definition w12 := world_with (render part1 ++ render part2) (rot_oracles 1).

(** the outputs of the two parts by computation (csv log) ... *)
Example csv_outputs :
  out_stdout (run ZNum w1 (ex_inv CCsvLog false))
  = b "2021-01-24,apple pie,150" ++ [c_lf] ++ b "2021-01-24,milk,-2" ++ [c_lf] ++ b "2021-01-25,bread,3" ++ [c_lf] /\
  out_stdout (run ZNum w2 (ex_inv CCsvLog false))
  = b "2021-01-26,soup,2" ++ [c_lf] ++ b "2021-01-26,bread,1" ++ [c_lf] /\
  out_status (run ZNum w1 (ex_inv CCsvLog false)) = Ok.
Proof. vm_compute. repeat split; reflexivity. Qed.

Example three_oracles_ok : oracles_ok id_oracles /\ oracles_ok rev_oracles /\ oracles_ok (rot_oracles 1).
Proof. exact ex_oracles_ok. Qed.

(** ... and the output on the concatenated bytes by the theorem: csv log, print *)
Example csv_print_concat_by_theorem : forall c, c = CCsvLog \/ c = CPrint ->
  out_stdout (run ZNum w12 (ex_inv c false))
  = out_stdout (run ZNum w1 (ex_inv c false)) ++ out_stdout (run ZNum w2 (ex_inv c false))
  /\ out_status (run ZNum w12 (ex_inv c false)) = out_status (run ZNum w2 (ex_inv c false)).
Proof.
  intros c Hc. destruct ex_oracles_ok as (Hid & Hrev & Hrot).
  eapply (run_bytes_concat_log ZNum w1 w2 w12 (ex_inv c false) _ part1 part2).
  - exact Hc.
  - destruct Hc as [-> | ->]; vm_compute; reflexivity.
  - destruct Hc as [-> | ->]; vm_compute; reflexivity.
  - destruct Hc as [-> | ->]; vm_compute; reflexivity.
  - exact parts_appendable.
  - reflexivity.
  - reflexivity.
  - reflexivity.
  - exact Hid.
  - exact Hrev.
  - exact Hrot.
  - vm_compute. reflexivity.
  - vm_compute. reflexivity.
  - vm_compute. reflexivity.
  - destruct Hc as [-> | ->]; vm_compute; reflexivity.
Qed.

(** reg: the book (soup, broth) is resolved in each of the three runs, in three different orders *)
Example reg_concat_by_theorem :
  out_stdout (run ZNum w12 (ex_inv CReg false))
  = out_stdout (run ZNum w1 (ex_inv CReg false)) ++ out_stdout (run ZNum w2 (ex_inv CReg false))
  /\ out_status (run ZNum w12 (ex_inv CReg false)) = out_status (run ZNum w2 (ex_inv CReg false)).
Proof.
  destruct ex_oracles_ok as (Hid & Hrev & Hrot).
  eapply (run_bytes_concat_reg ZNum w1 w2 w12 (ex_inv CReg false) _ _ part1 part2).
  - reflexivity.
  - shelve.
  - vm_compute; reflexivity.
  - vm_compute; reflexivity.
  - vm_compute; reflexivity.
  - exact parts_appendable.
  - reflexivity.
  - reflexivity.
  - reflexivity.
  - exact Hid.
  - exact Hrev.
  - exact Hrot.
  - vm_compute. reflexivity.
  - vm_compute. reflexivity.
  - vm_compute. reflexivity.
  - vm_compute. reflexivity.
  - vm_compute. reflexivity.
  - vm_compute. reflexivity.
  - vm_compute. reflexivity.
  Unshelve. vm_compute. left. reflexivity.
Qed.

(** the second part's share of the register really needs the book: soup is a recipe *)
Example reg_part2_output :
  out_stdout (run ZNum w2 (ex_inv CReg false)) <> [] /\ out_status (run ZNum w2 (ex_inv CReg false)) = Ok.
Proof. vm_compute. split; [discriminate|reflexivity]. Qed.
