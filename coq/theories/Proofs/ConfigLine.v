(** WP28, part 1: one line of a configuration text.  Facts about the scanner-level checks of
    Model/Config.v ([utf8_ok], [strip_comment], [span_ident], trimming) and the characterisation
    of [classify_line] on every spelling of a blank / comment line, a section header and a
    variable line. *)
From Coq Require Import Lia ZifyBool ZifyN.
From HP Require Import Base.Bytes Model.Dates Model.Reporters Model.Config Model.Cli Spec.ConfigSpec.
Open Scope N_scope.

(** * byte strings *)
Lemma beq_refl : forall x, beq x x = true.
Proof. induction x as [|a x IH]; [reflexivity|]. cbn [beq]. rewrite N.eqb_refl. exact IH. Qed.

Lemma beq_true_iff : forall x y, beq x y = true <-> x = y.
Proof.
  induction x as [|a x IH]; intros [|c y]; cbn [beq]; split; intros H; try reflexivity; try discriminate.
  - apply andb_true_iff in H as [H1 H2]. apply N.eqb_eq in H1. apply IH in H2. subst. reflexivity.
  - injection H as -> ->. rewrite N.eqb_refl. apply beq_refl.
Qed.

Lemma forallb_imp : forall (P Q : N -> bool) l,
  (forall c, P c = true -> Q c = true) -> forallb P l = true -> forallb Q l = true.
Proof.
  intros P Q l H. induction l as [|c l IH]; [reflexivity|]. cbn [forallb]. intros E.
  apply andb_true_iff in E as [E1 E2]. rewrite (H _ E1), (IH E2). reflexivity.
Qed.

Lemma memb_cblanks : forall c, memb c cblanks = ((c =? 32) || (c =? 9) || (c =? 13)).
Proof. intros c. unfold memb, cblanks. cbn [existsb]. rewrite orb_false_r, orb_assoc. reflexivity. Qed.

(** * blanks *)
Lemma trim_left_blank_app : forall p s, all_blank p = true -> trim_left cblanks (p ++ s) = trim_left cblanks s.
Proof.
  induction p as [|c p IH]; intros s H; [reflexivity|].
  cbn [all_blank forallb] in H. apply andb_true_iff in H as [H1 H2].
  cbn [app trim_left]. rewrite H1. apply IH. exact H2.
Qed.

Lemma trim_left_all_blank : forall p, all_blank p = true -> trim_left cblanks p = [].
Proof. intros p H. rewrite <- (app_nil_r p). rewrite trim_left_blank_app by exact H. reflexivity. Qed.

Lemma trim_left_first : forall v, not_blank_first v = true -> trim_left cblanks v = v.
Proof.
  intros [|c v] H; [reflexivity|]. cbn [not_blank_first] in H. apply negb_true_iff in H.
  cbn [trim_left]. rewrite H. reflexivity.
Qed.

Lemma all_blank_app : forall p q, all_blank (p ++ q) = all_blank p && all_blank q.
Proof. intros p q. apply forallb_app. Qed.

Lemma all_blank_rev : forall p, all_blank (rev p) = all_blank p.
Proof.
  induction p as [|c p IH]; [reflexivity|]. cbn [rev]. rewrite all_blank_app, IH.
  cbn [all_blank forallb]. rewrite andb_true_r. apply andb_comm.
Qed.

(** blanks around a value that neither begins nor ends with one *)
Lemma trim_value : forall p v q,
  all_blank p = true -> all_blank q = true -> not_blank_first v = true -> not_blank_first (rev v) = true ->
  trim cblanks (p ++ v ++ q) = v.
Proof.
  intros p v q Hp Hq Hf Hl. unfold trim. rewrite trim_left_blank_app by exact Hp.
  destruct v as [|c v].
  - cbn [app]. rewrite trim_left_all_blank by exact Hq. reflexivity.
  - change ((c :: v) ++ q) with (c :: (v ++ q)). rewrite (trim_left_first (c :: v ++ q)) by exact Hf.
    unfold trim_right. change (c :: v ++ q) with ((c :: v) ++ q). rewrite rev_app_distr.
    rewrite trim_left_blank_app by (rewrite all_blank_rev; exact Hq).
    rewrite trim_left_first by exact Hl. apply rev_involutive.
Qed.

(** * [utf8_ok] *)
Lemma utf8_ok_cons : forall c0 r0,
  utf8_ok (c0 :: r0) =
  if c0 <? 128 then negb (c0 =? 0) && utf8_ok r0
  else if (194 <=? c0) && (c0 <=? 223) then
    match r0 with c1 :: r1 => cont c1 && utf8_ok r1 | [] => false end
  else if (224 <=? c0) && (c0 <=? 239) then
    match r0 with
    | c1 :: c2 :: r2 =>
        ((if c0 =? 224 then 160 else 128) <=? c1) && (c1 <=? (if c0 =? 237 then 159 else 191)) && cont c2 && utf8_ok r2
    | _ => false
    end
  else if (240 <=? c0) && (c0 <=? 244) then
    match r0 with
    | c1 :: c2 :: c3 :: r3 =>
        ((if c0 =? 240 then 144 else 128) <=? c1) && (c1 <=? (if c0 =? 244 then 143 else 191)) && cont c2 && cont c3
        && utf8_ok r3
    | _ => false
    end
  else false.
Proof. reflexivity. Qed.

(** a valid prefix can be dropped *)
Lemma utf8_ok_app_len : forall n a r, (length a <= n)%nat -> utf8_ok a = true -> utf8_ok (a ++ r) = utf8_ok r.
Proof.
  induction n as [|n IH]; intros a r Hl Ha.
  - destruct a; [reflexivity|cbn [length] in Hl; lia].
  - destruct a as [|c0 a0]; [reflexivity|]. cbn [length] in Hl.
    cbn [app]. rewrite utf8_ok_cons in Ha. rewrite utf8_ok_cons.
    destruct (c0 <? 128).
    { apply andb_true_iff in Ha as [H1 H2]. rewrite H1. cbn [andb]. apply IH; [lia|exact H2]. }
    destruct ((194 <=? c0) && (c0 <=? 223)).
    { destruct a0 as [|c1 a1]; [discriminate Ha|]. cbn [app]. cbn [length] in Hl.
      apply andb_true_iff in Ha as [H1 H2]. rewrite H1. cbn [andb]. apply IH; [lia|exact H2]. }
    destruct ((224 <=? c0) && (c0 <=? 239)).
    { destruct a0 as [|c1 [|c2 a2]]; try discriminate Ha. cbn [app]. cbn [length] in Hl.
      apply andb_true_iff in Ha as [H1 H2]. rewrite H1. cbn [andb]. apply IH; [lia|exact H2]. }
    destruct ((240 <=? c0) && (c0 <=? 244)); [|discriminate Ha].
    destruct a0 as [|c1 [|c2 [|c3 a3]]]; try discriminate Ha. cbn [app]. cbn [length] in Hl.
    apply andb_true_iff in Ha as [H1 H2]. rewrite H1. cbn [andb]. apply IH; [lia|exact H2].
Qed.

Lemma utf8_ok_app : forall a r, utf8_ok a = true -> utf8_ok (a ++ r) = utf8_ok r.
Proof. intros a r. apply (utf8_ok_app_len (length a)). lia. Qed.

(** ASCII without NUL *)
Definition ascii_char (c : N) : bool := (0 <? c) && (c <? 128).

Lemma utf8_ok_ascii : forall a, forallb ascii_char a = true -> utf8_ok a = true.
Proof.
  induction a as [|c a IH]; [reflexivity|]. cbn [forallb]. intros H. apply andb_true_iff in H as [H1 H2].
  rewrite utf8_ok_cons. unfold ascii_char in H1.
  assert (E1 : c <? 128 = true) by lia. assert (E2 : c =? 0 = false) by lia.
  rewrite E1, E2. cbn [negb andb]. exact (IH H2).
Qed.

Lemma utf8_ok_ascii_app : forall a r, forallb ascii_char a = true -> utf8_ok (a ++ r) = utf8_ok r.
Proof. intros a r H. apply utf8_ok_app. apply utf8_ok_ascii. exact H. Qed.

Lemma ascii_blank : forall p, all_blank p = true -> forallb ascii_char p = true.
Proof.
  intros p. apply forallb_imp. intros c H. rewrite memb_cblanks in H. unfold ascii_char. lia.
Qed.

Lemma ascii_ident : forall n, forallb is_ident_char n = true -> forallb ascii_char n = true.
Proof.
  intros n. apply forallb_imp. intros c H. unfold is_ident_char, is_letter, is_digit in H. unfold ascii_char. lia.
Qed.

Lemma is_ident_chars : forall n, is_ident n = true -> forallb is_ident_char n = true.
Proof.
  intros [|c r] H; [discriminate H|]. cbn [is_ident] in H. apply andb_true_iff in H as [H1 H2].
  cbn [forallb]. unfold is_ident_char at 1. rewrite H1, H2. reflexivity.
Qed.

Lemma utf8_ok_comment : forall cm, is_comment cm = true -> utf8_ok cm = true.
Proof.
  intros [|c r] H; [reflexivity|]. cbn [is_comment] in H.
  apply andb_true_iff in H as [H H3]. apply andb_true_iff in H as [H1 H2].
  rewrite utf8_ok_cons. unfold is_comment_start in H1.
  assert (E1 : c <? 128 = true) by lia. assert (E2 : c =? 0 = false) by lia.
  rewrite E1, E2. cbn [negb andb]. exact H2.
Qed.

(** * comments and quoting *)

(** neither a comment start nor a quoting character *)
Definition clean_char (c : N) : bool := negb (is_comment_start c) && negb (is_quoting c).

Lemma strip_comment_clean : forall a cm,
  forallb clean_char a = true -> is_comment cm = true -> strip_comment (a ++ cm) = a.
Proof.
  induction a as [|c a IH]; intros cm Ha Hc.
  - cbn [app]. destruct cm as [|c r]; [reflexivity|]. cbn [is_comment] in Hc.
    apply andb_true_iff in Hc as [Hc _]. apply andb_true_iff in Hc as [Hc _].
    cbn [strip_comment]. rewrite Hc. reflexivity.
  - cbn [forallb] in Ha. apply andb_true_iff in Ha as [H1 H2].
    unfold clean_char in H1. apply andb_true_iff in H1 as [H1 _]. apply negb_true_iff in H1.
    cbn [app strip_comment]. rewrite H1. f_equal. apply IH; assumption.
Qed.

Lemma no_quoting_clean : forall a, forallb clean_char a = true -> existsb is_quoting a = false.
Proof.
  induction a as [|c a IH]; [reflexivity|]. cbn [forallb existsb]. intros H.
  apply andb_true_iff in H as [H1 H2]. unfold clean_char in H1. apply andb_true_iff in H1 as [_ H1].
  apply negb_true_iff in H1. rewrite H1, (IH H2). reflexivity.
Qed.

Lemma clean_blank : forall p, all_blank p = true -> forallb clean_char p = true.
Proof.
  intros p. apply forallb_imp. intros c H. rewrite memb_cblanks in H.
  unfold clean_char, is_comment_start, is_quoting. lia.
Qed.

Lemma clean_ident : forall n, forallb is_ident_char n = true -> forallb clean_char n = true.
Proof.
  intros n. apply forallb_imp. intros c H. unfold is_ident_char, is_letter, is_digit in H.
  unfold clean_char, is_comment_start, is_quoting. lia.
Qed.

Lemma clean_plain : forall v, forallb plain_char v = true -> forallb clean_char v = true.
Proof.
  intros v. apply forallb_imp. intros c H. unfold plain_char in H.
  unfold clean_char, is_comment_start, is_quoting. lia.
Qed.

Lemma no_cr_plain : forall v, forallb plain_char v = true -> memb 13 v = false.
Proof.
  induction v as [|c v IH]; [reflexivity|]. cbn [forallb]. intros H. apply andb_true_iff in H as [H1 H2].
  unfold memb in *. cbn [existsb]. rewrite (IH H2). unfold plain_char in H1.
  assert (E : 13 =? c = false) by lia. rewrite E. reflexivity.
Qed.

(** * identifiers *)
Lemma span_ident_app : forall n r,
  forallb is_ident_char n = true ->
  match r with c :: _ => is_ident_char c = false | [] => True end ->
  span_ident (n ++ r) = (n, r).
Proof.
  induction n as [|c n IH]; intros r Hn Hr.
  - cbn [app]. destruct r as [|c r]; [reflexivity|]. cbn [span_ident]. rewrite Hr. reflexivity.
  - cbn [forallb] in Hn. apply andb_true_iff in Hn as [H1 H2].
    cbn [app span_ident]. rewrite H1. rewrite (IH r H2 Hr). reflexivity.
Qed.

Lemma blank_not_ident : forall c, memb c cblanks = true -> is_ident_char c = false.
Proof. intros c H. rewrite memb_cblanks in H. unfold is_ident_char, is_letter, is_digit. lia. Qed.

Lemma letter_not_blank : forall c, is_letter c = true -> memb c cblanks = false.
Proof. intros c H. rewrite memb_cblanks. unfold is_letter in H. lia. Qed.

(** what follows an identifier in a well-spelled line: blanks, then a byte that is no identifier
    character *)
Lemma after_ident_head : forall p c rest, all_blank p = true -> is_ident_char c = false ->
  match p ++ c :: rest with c' :: _ => is_ident_char c' = false | [] => True end.
Proof.
  intros [|c0 p] c rest Hp Hc; [exact Hc|]. cbn [app]. cbn [all_blank forallb] in Hp.
  apply andb_true_iff in Hp as [Hp _]. apply blank_not_ident. exact Hp.
Qed.

(** * the three kinds of well-spelled lines *)

Theorem classify_line_skippable : forall p cm,
  all_blank p = true -> is_comment cm = true -> classify_line (p ++ cm) = LBlank.
Proof.
  intros p cm Hp Hc. unfold classify_line.
  rewrite (strip_comment_clean p cm (clean_blank p Hp) Hc).
  rewrite (no_quoting_clean p (clean_blank p Hp)).
  rewrite trim_left_all_blank by exact Hp. reflexivity.
Qed.

Theorem classify_line_var_spelled : forall n v p1 p2 p3 p4 cm,
  is_ident n = true -> is_value v = true ->
  all_blank p1 = true -> all_blank p2 = true -> all_blank p3 = true -> all_blank p4 = true -> is_comment cm = true ->
  classify_line (p1 ++ n ++ p2 ++ [61] ++ p3 ++ v ++ p4 ++ cm) = LVar n (Some v).
Proof.
  intros n v p1 p2 p3 p4 cm Hn Hv H1 H2 H3 H4 Hc.
  unfold is_value, plain_value in Hv.
  apply andb_true_iff in Hv as [Hv Hvl]. apply andb_true_iff in Hv as [Hv Hvf]. apply andb_true_iff in Hv as [Hvu Hvp].
  pose proof (is_ident_chars n Hn) as Hnc.
  set (a := p1 ++ n ++ p2 ++ [61] ++ p3 ++ v ++ p4).
  assert (Ea : p1 ++ n ++ p2 ++ [61] ++ p3 ++ v ++ p4 ++ cm = a ++ cm).
  { unfold a. rewrite <- !app_assoc. reflexivity. }
  assert (Ca : forallb clean_char a = true).
  { unfold a. rewrite !forallb_app.
    rewrite (clean_blank p1 H1), (clean_ident n Hnc), (clean_blank p2 H2), (clean_blank p3 H3), (clean_plain v Hvp),
      (clean_blank p4 H4). reflexivity. }
  rewrite Ea. unfold classify_line. rewrite (strip_comment_clean a cm Ca Hc), (no_quoting_clean a Ca).
  unfold a. rewrite trim_left_blank_app by exact H1.
  destruct n as [|c n']; [discriminate Hn|].
  cbn [is_ident] in Hn. apply andb_true_iff in Hn as [Hl Hn'].
  change ((c :: n') ++ p2 ++ [61] ++ p3 ++ v ++ p4) with (c :: (n' ++ p2 ++ [61] ++ p3 ++ v ++ p4)).
  cbn [trim_left]. rewrite (letter_not_blank c Hl).
  assert (E91 : c =? 91 = false) by (unfold is_letter in Hl; lia).
  rewrite E91, Hl.
  change (c :: n' ++ p2 ++ [61] ++ p3 ++ v ++ p4) with ((c :: n') ++ (p2 ++ 61 :: p3 ++ v ++ p4)).
  rewrite (span_ident_app (c :: n') (p2 ++ 61 :: p3 ++ v ++ p4) Hnc)
    by (apply after_ident_head; [exact H2|reflexivity]).
  unfold classify_var. rewrite trim_left_blank_app by exact H2.
  cbn [trim_left]. change (memb 61 cblanks) with false. cbv iota. rewrite N.eqb_refl.
  rewrite (trim_value p3 v p4 H3 H4 Hvf Hvl). rewrite (no_cr_plain v Hvp). reflexivity.
Qed.

Theorem classify_line_section_spelled : forall n p1 p2 p3 p4 cm,
  is_ident n = true ->
  all_blank p1 = true -> all_blank p2 = true -> all_blank p3 = true -> all_blank p4 = true -> is_comment cm = true ->
  classify_line (p1 ++ [91] ++ p2 ++ n ++ p3 ++ [93] ++ p4 ++ cm) = LSection n.
Proof.
  intros n p1 p2 p3 p4 cm Hn H1 H2 H3 H4 Hc.
  pose proof (is_ident_chars n Hn) as Hnc.
  set (a := p1 ++ [91] ++ p2 ++ n ++ p3 ++ [93] ++ p4).
  assert (Ea : p1 ++ [91] ++ p2 ++ n ++ p3 ++ [93] ++ p4 ++ cm = a ++ cm).
  { unfold a. rewrite <- !app_assoc. reflexivity. }
  assert (Ca : forallb clean_char a = true).
  { unfold a. rewrite !forallb_app.
    rewrite (clean_blank p1 H1), (clean_ident n Hnc), (clean_blank p2 H2), (clean_blank p3 H3), (clean_blank p4 H4).
    reflexivity. }
  rewrite Ea. unfold classify_line. rewrite (strip_comment_clean a cm Ca Hc), (no_quoting_clean a Ca).
  unfold a. rewrite trim_left_blank_app by exact H1.
  cbn [app trim_left]. change (memb 91 cblanks) with false. cbv iota. rewrite N.eqb_refl.
  unfold classify_section. rewrite trim_left_blank_app by exact H2.
  destruct n as [|c n']; [discriminate Hn|].
  cbn [is_ident] in Hn. apply andb_true_iff in Hn as [Hl Hn'].
  change ((c :: n') ++ p3 ++ 93 :: p4) with (c :: (n' ++ p3 ++ 93 :: p4)).
  cbn [trim_left]. rewrite (letter_not_blank c Hl). rewrite Hl.
  change (c :: n' ++ p3 ++ 93 :: p4) with ((c :: n') ++ (p3 ++ 93 :: p4)).
  rewrite (span_ident_app (c :: n') (p3 ++ 93 :: p4) Hnc) by (apply after_ident_head; [exact H3|reflexivity]).
  rewrite trim_left_blank_app by exact H3.
  cbn [trim_left]. change (memb 93 cblanks) with false. cbv iota. rewrite N.eqb_refl.
  rewrite trim_left_all_blank by exact H4. reflexivity.
Qed.

(** the scanner accepts these lines when it accepts the value and the comment *)
Lemma utf8_ok_var_spelled : forall n v p1 p2 p3 p4 cm,
  is_ident n = true -> is_value v = true ->
  all_blank p1 = true -> all_blank p2 = true -> all_blank p3 = true -> all_blank p4 = true -> is_comment cm = true ->
  utf8_ok (p1 ++ n ++ p2 ++ [61] ++ p3 ++ v ++ p4 ++ cm) = true.
Proof.
  intros n v p1 p2 p3 p4 cm Hn Hv H1 H2 H3 H4 Hc.
  unfold is_value, plain_value in Hv.
  apply andb_true_iff in Hv as [Hv _]. apply andb_true_iff in Hv as [Hv _]. apply andb_true_iff in Hv as [Hvu _].
  rewrite (utf8_ok_ascii_app p1) by (apply ascii_blank; exact H1).
  rewrite (utf8_ok_ascii_app n) by (apply ascii_ident, is_ident_chars; exact Hn).
  rewrite (utf8_ok_ascii_app p2) by (apply ascii_blank; exact H2).
  rewrite (utf8_ok_ascii_app [61]) by reflexivity.
  rewrite (utf8_ok_ascii_app p3) by (apply ascii_blank; exact H3).
  rewrite (utf8_ok_app v) by exact Hvu.
  rewrite (utf8_ok_ascii_app p4) by (apply ascii_blank; exact H4).
  apply utf8_ok_comment. exact Hc.
Qed.

Lemma utf8_ok_section_spelled : forall n p1 p2 p3 p4 cm,
  is_ident n = true ->
  all_blank p1 = true -> all_blank p2 = true -> all_blank p3 = true -> all_blank p4 = true -> is_comment cm = true ->
  utf8_ok (p1 ++ [91] ++ p2 ++ n ++ p3 ++ [93] ++ p4 ++ cm) = true.
Proof.
  intros n p1 p2 p3 p4 cm Hn H1 H2 H3 H4 Hc.
  rewrite (utf8_ok_ascii_app p1) by (apply ascii_blank; exact H1).
  rewrite (utf8_ok_ascii_app [91]) by reflexivity.
  rewrite (utf8_ok_ascii_app p2) by (apply ascii_blank; exact H2).
  rewrite (utf8_ok_ascii_app n) by (apply ascii_ident, is_ident_chars; exact Hn).
  rewrite (utf8_ok_ascii_app p3) by (apply ascii_blank; exact H3).
  rewrite (utf8_ok_ascii_app [93]) by reflexivity.
  rewrite (utf8_ok_ascii_app p4) by (apply ascii_blank; exact H4).
  apply utf8_ok_comment. exact Hc.
Qed.

Lemma utf8_ok_skippable : forall p cm, all_blank p = true -> is_comment cm = true -> utf8_ok (p ++ cm) = true.
Proof.
  intros p cm Hp Hc. rewrite (utf8_ok_ascii_app p) by (apply ascii_blank; exact Hp). apply utf8_ok_comment. exact Hc.
Qed.

(** * signatures of the well-spelled lines *)
Lemma line_sig_skippable : forall l, skippable l -> line_sig_of l = KSkip.
Proof.
  intros l (p & cm & -> & Hp & Hc). unfold line_sig_of.
  rewrite (utf8_ok_skippable p cm Hp Hc), (classify_line_skippable p cm Hp Hc). reflexivity.
Qed.

Lemma line_sig_var_spelled : forall n v p1 p2 p3 p4 cm,
  is_ident n = true -> is_value v = true ->
  all_blank p1 = true -> all_blank p2 = true -> all_blank p3 = true -> all_blank p4 = true -> is_comment cm = true ->
  line_sig_of (p1 ++ n ++ p2 ++ [61] ++ p3 ++ v ++ p4 ++ cm) = KVar (lower_name n) (Some v).
Proof.
  intros n v p1 p2 p3 p4 cm Hn Hv H1 H2 H3 H4 Hc. unfold line_sig_of.
  rewrite (utf8_ok_var_spelled n v p1 p2 p3 p4 cm Hn Hv H1 H2 H3 H4 Hc).
  rewrite (classify_line_var_spelled n v p1 p2 p3 p4 cm Hn Hv H1 H2 H3 H4 Hc). reflexivity.
Qed.

Lemma line_sig_section_spelled : forall n p1 p2 p3 p4 cm,
  is_ident n = true ->
  all_blank p1 = true -> all_blank p2 = true -> all_blank p3 = true -> all_blank p4 = true -> is_comment cm = true ->
  line_sig_of (p1 ++ [91] ++ p2 ++ n ++ p3 ++ [93] ++ p4 ++ cm) = KSection (lower_name n).
Proof.
  intros n p1 p2 p3 p4 cm Hn H1 H2 H3 H4 Hc. unfold line_sig_of.
  rewrite (utf8_ok_section_spelled n p1 p2 p3 p4 cm Hn H1 H2 H3 H4 Hc).
  rewrite (classify_line_section_spelled n p1 p2 p3 p4 cm Hn H1 H2 H3 H4 Hc). reflexivity.
Qed.

(** two spellings of one line have one signature *)
Theorem same_line_sig : forall l l', same_line l l' -> line_sig_of l = line_sig_of l'.
Proof.
  intros l l' H. destruct H as
    [p cm p' cm' Hp Hc Hp' Hc'
    |n p1 p2 p3 p4 cm n' p1' p2' p3' p4' cm' Hn Hn' Hnn H1 H2 H3 H4 Hc H1' H2' H3' H4' Hc'
    |n v p1 p2 p3 p4 cm n' p1' p2' p3' p4' cm' Hn Hn' Hnn Hv H1 H2 H3 H4 Hc H1' H2' H3' H4' Hc'
    |l0].
  - rewrite (line_sig_skippable (p ++ cm)) by (exists p, cm; auto).
    rewrite (line_sig_skippable (p' ++ cm')) by (exists p', cm'; auto). reflexivity.
  - rewrite line_sig_section_spelled by assumption. rewrite line_sig_section_spelled by assumption.
    rewrite Hnn. reflexivity.
  - rewrite line_sig_var_spelled by assumption. rewrite line_sig_var_spelled by assumption.
    rewrite Hnn. reflexivity.
  - reflexivity.
Qed.
