(** WP23, part A, step 1 (axiom-free) -- the ERROR BOUND of [binary_round_aux].

    Proofs/FloatValid.v shows that the result of the standard library's
    [binary_round_aux 53 1024] is a valid binary64 value; here we show WHICH
    value: the integer counterpart of the value half of Flocq's
    [binary_round_aux_correct].  Everything is integer arithmetic on the
    [SpecFloat] definitions (no reals, no Flocq, no axioms).

    The shift register [{| shr_m; shr_r; shr_s |}] describes a non-negative
    rational [num / dn] ([shr_repr]): [shr_m] is its integer part, [shr_r] says
    that the fractional part is at least one half and [shr_s] that it is
    neither 0 nor one half.  One right shift ([shr_1]) halves the rational
    ([shr_1_repr]); [round_nearest_even] on the register returns the integer
    nearest to the rational, ties to even ([rne_repr]).

    [binary_round_aux_spec]: for [0 < q] with enough bits and a location [loc]
    describing the fraction [r/den], the result of
    [binary_round_aux s q e loc] is the number [m2 * 2^e1] where
    [e1 = fexp (digits q + e)] and [m2] is the integer nearest (ties to even)
    to [(q + r/den) * 2^e / 2^e1] -- returned as a zero when [m2 = 0], as the
    canonical pair [(m3, e2)] with [m3 * 2^(e2 - e1) = m2] otherwise, or as an
    infinity when [e2] is out of range. *)
From Coq Require Import ZArith Lia ZifyBool List Floats.SpecFloat.
From HP Require Import Base.Bytes Base.Num Base.GoFloat.
From HP Require Import Proofs.FloatCanon Proofs.FloatExact Proofs.FloatValid.
Import ListNotations.
Open Scope Z_scope.

(** * the shift register as a rational number *)

Definition shr_repr (mrs : shr_record) (num dn : Z) : Prop :=
  0 < dn /\ 0 <= num /\
  shr_m mrs = num / dn /\
  shr_r mrs = (dn <=? 2 * (num mod dn)) /\
  shr_s mrs = negb ((num mod dn =? 0) || (2 * (num mod dn) =? dn)).

(** the location [parse_float] / [binary_round] hand over: where [r/den] lies
    relative to 0 and 1/2 *)
Definition loc_of_frac (r den : Z) : location :=
  if r =? 0 then loc_Exact else loc_Inexact (2 * r ?= den).

Lemma shr_record_of_loc_repr : forall q r den,
  0 <= q -> 0 <= r < den ->
  shr_repr (shr_record_of_loc q (loc_of_frac r den)) (q * den + r) den.
Proof.
  intros q r den Hq Hr. unfold shr_repr.
  assert (Ed : (q * den + r) / den = q).
  { symmetry. apply (Z.div_unique _ den q r); lia. }
  assert (Em : (q * den + r) mod den = r).
  { symmetry. apply (Z.mod_unique _ den q r); lia. }
  rewrite Ed, Em. split; [lia|]. split; [nia|].
  unfold loc_of_frac. destruct (Z.eqb_spec r 0) as [E0|E0].
  - cbn [shr_record_of_loc shr_m shr_r shr_s]. split; [reflexivity|]. split; lia.
  - destruct (Z.compare_spec (2 * r) den) as [C|C|C]; cbn [shr_record_of_loc shr_m shr_r shr_s];
      (split; [reflexivity|]); split; lia.
Qed.

Lemma shr_1_repr : forall mrs num dn, shr_repr mrs num dn -> shr_repr (shr_1 mrs) num (2 * dn).
Proof.
  intros [m rb sb] num dn (Hdn & Hnum & Hm & Hr & Hs). cbn [shr_m shr_r shr_s] in *.
  pose proof (Z.div_mod num dn ltac:(lia)) as DM.
  pose proof (Z.mod_pos_bound num dn Hdn) as MB.
  assert (Hm0 : 0 <= num / dn) by (apply Z.div_pos; lia).
  set (m0 := num / dn) in *. set (rem := num mod dn) in *. clearbody m0 rem.
  (* m0 = 2 * m' + bit *)
  assert (Hcase : exists m' bit, (bit = 0 \/ bit = 1) /\ m0 = 2 * m' + bit /\ 0 <= m' /\
                    shr_m (shr_1 {| shr_m := m; shr_r := rb; shr_s := sb |}) = m' /\
                    shr_r (shr_1 {| shr_m := m; shr_r := rb; shr_s := sb |}) = (bit =? 1) /\
                    shr_s (shr_1 {| shr_m := m; shr_r := rb; shr_s := sb |}) = (rb || sb)%bool).
  { subst m. destruct m0 as [|[p|p|]|p]; cbn [shr_1 shr_m shr_r shr_s].
    - exists 0, 0. repeat split; try lia.
    - exists (Zpos p), 1. repeat split; try lia.
    - exists (Zpos p), 0. repeat split; try lia.
    - exists 0, 1. repeat split; try lia.
    - lia. }
  destruct Hcase as (m' & bit & Hbit & Em0 & Hm' & S1 & S2 & S3).
  assert (Ed : num / (2 * dn) = m').
  { symmetry. apply (Z.div_unique _ (2 * dn) m' (bit * dn + rem)); [nia|nia]. }
  assert (Em : num mod (2 * dn) = bit * dn + rem).
  { symmetry. apply (Z.mod_unique _ (2 * dn) m' (bit * dn + rem)); [nia|nia]. }
  unfold shr_repr. rewrite Ed, Em, S1, S2, S3. split; [lia|]. split; [exact Hnum|]. split; [reflexivity|].
  subst rb sb. destruct Hbit as [-> | ->]; split; lia.
Qed.

Lemma iter_shr_repr : forall p mrs num dn, shr_repr mrs num dn ->
  shr_repr (SpecFloat.iter_pos shr_1 p mrs) num (2 ^ Zpos p * dn).
Proof.
  induction p as [p IH|p IH|]; intros mrs num dn H; cbn [SpecFloat.iter_pos].
  - apply shr_1_repr in H. apply IH in H. apply IH in H.
    rewrite pow2_xI. replace (2 * (2 ^ Zpos p * 2 ^ Zpos p) * dn) with (2 ^ Zpos p * (2 ^ Zpos p * (2 * dn))) by ring.
    exact H.
  - apply IH in H. apply IH in H. rewrite pow2_xO.
    replace (2 ^ Zpos p * 2 ^ Zpos p * dn) with (2 ^ Zpos p * (2 ^ Zpos p * dn)) by ring. exact H.
  - apply shr_1_repr in H. exact H.
Qed.

Lemma shr_repr_shift : forall mrs e n num dn, shr_repr mrs num dn -> 0 <= n ->
  shr_repr (fst (shr mrs e n)) num (2 ^ n * dn) /\ snd (shr mrs e n) = e + n.
Proof.
  intros mrs e n num dn H Hn. unfold shr. destruct n as [|p|p]; try lia; cbn [fst snd].
  - rewrite Z.pow_0_r, Z.mul_1_l. split; [exact H|lia].
  - split; [apply iter_shr_repr; exact H|reflexivity].
Qed.

(** * rounding the register to the nearest integer, ties to even *)
Lemma rne_repr : forall mrs num dn, shr_repr mrs num dn ->
  let m2 := round_nearest_even (shr_m mrs) (loc_of_shr_record mrs) in
  2 * Z.abs (m2 * dn - num) <= dn /\
  (2 * Z.abs (m2 * dn - num) = dn -> Z.even m2 = true) /\
  (m2 = num / dn \/ m2 = num / dn + 1).
Proof.
  intros [m rb sb] num dn (Hdn & Hnum & Hm & Hr & Hs). cbn [shr_m shr_r shr_s] in *.
  pose proof (Z.div_mod num dn ltac:(lia)) as DM.
  pose proof (Z.mod_pos_bound num dn Hdn) as MB.
  set (m0 := num / dn) in *. set (rem := num mod dn) in *. clearbody m0 rem. subst m.
  assert (E0 : m0 * dn - num = - rem) by lia.
  assert (E1 : (m0 + 1) * dn - num = dn - rem) by lia.
  destruct rb, sb; cbn [loc_of_shr_record round_nearest_even]; cbv zeta.
  - (* more than half *) rewrite E1. split; [lia|]. split; [lia|]. right. reflexivity.
  - (* exactly half *)
    assert (Hh : 2 * rem = dn) by lia.
    destruct (Z.even m0) eqn:Ev.
    + rewrite E0. split; [lia|]. split; [intros _; exact Ev|]. left. reflexivity.
    + rewrite E1. split; [lia|]. split; [|right; reflexivity]. intros _.
      replace (m0 + 1) with (Z.succ m0) by lia. rewrite Z.even_succ, <- Z.negb_even, Ev. reflexivity.
  - (* less than half, not zero *) rewrite E0. split; [lia|]. split; [lia|]. left. reflexivity.
  - (* exact *) rewrite E0. split; [lia|]. split; [lia|]. left. reflexivity.
Qed.

(** * the first shift of [binary_round_aux], with the register's meaning *)
Lemma shr_fexp_repr : forall q e r den,
  0 <= q -> 0 <= r < den -> e <= fexp64 (Zdigits2 q + e) ->
  let e1 := fexp64 (Zdigits2 q + e) in
  shr_repr (fst (shr_fexp prec emax q e (loc_of_frac r den))) (q * den + r) (2 ^ (e1 - e) * den)
  /\ snd (shr_fexp prec emax q e (loc_of_frac r den)) = e1.
Proof.
  intros q e r den Hq Hr He e1. unfold shr_fexp. fold e1.
  destruct (shr_repr_shift (shr_record_of_loc q (loc_of_frac r den)) e (e1 - e) (q * den + r) den) as [H1 H2].
  - apply shr_record_of_loc_repr; assumption.
  - unfold e1. lia.
  - split; [exact H1|]. rewrite H2. lia.
Qed.

(** * the theorem *)

Lemma fexp_first : forall d e1 e n, e1 = fexp64 (d + e) -> n = e1 - e -> d <= n -> 1 <= d ->
  fexp64 (0 + e1) = e1.
Proof. intros d e1 e n H1 H2 H3 H4. rewrite !fexp64_eq in *. lia. Qed.

Lemma fexp_same_or_carry : forall d1 e1, fexp64 (d1 + e1) = e1 ->
  e1 <= fexp64 (d1 + e1) /\ e1 <= fexp64 (d1 + 1 + e1).
Proof. intros d1 e1 H. rewrite !fexp64_eq in *. lia. Qed.

Lemma fexp_carry : forall d1 e1, 0 <= d1 -> fexp64 (d1 + e1) = e1 ->
  fexp64 (d1 + 1 + e1) = e1 \/ (fexp64 (d1 + 1 + e1) = e1 + 1 /\ 1 <= d1).
Proof. intros d1 e1 H0 H. rewrite !fexp64_eq in *. lia. Qed.

(** what [binary_round_aux] returns for the rounded integer [m2] at exponent [e1] *)
Definition packs (s : bool) (m2 e1 : Z) (z : f64) : Prop :=
  (m2 = 0 /\ z = S754_zero s) \/
  (0 < m2 /\ exists (m3 : positive) (e2 : Z),
      e2 = fexp64 (Zdigits2 m2 + e1) /\ e1 <= e2 <= e1 + 1 /\ Zpos m3 * 2 ^ (e2 - e1) = m2 /\
      ((e2 <= emax - prec /\ z = S754_finite s m3 e2 /\ bounded prec emax m3 e2 = true)
       \/ (emax - prec < e2 /\ z = S754_infinity s))).

Theorem binary_round_aux_spec : forall (s : bool) (q e r den : Z),
  0 < q -> enough_bits q e -> 0 <= r < den ->
  let e1 := fexp64 (Zdigits2 q + e) in
  let dn := 2 ^ (e1 - e) * den in
  exists m2 : Z,
    2 * Z.abs (m2 * dn - (q * den + r)) <= dn /\
    (2 * Z.abs (m2 * dn - (q * den + r)) = dn -> Z.even m2 = true) /\
    (m2 = q / 2 ^ (e1 - e) \/ m2 = q / 2 ^ (e1 - e) + 1) /\
    packs s m2 e1 (binary_round_aux prec emax s q e (loc_of_frac r den)).
Proof.
  intros s q e r den Hq Hbits Hr e1 dn. unfold enough_bits in Hbits.
  pose proof (binary_round_aux_valid s q e (loc_of_frac r den) Hq Hbits) as Hvalid.
  unfold binary_round_aux in *.
  destruct (shr_fexp_repr q e r den ltac:(lia) Hr Hbits) as [R1 R2].
  destruct (shr_fexp_spec q e (loc_of_frac r den) ltac:(lia) Hbits) as [A1 A2].
  fold e1 in R1, R2, A1, A2. fold dn in R1.
  destruct (shr_fexp prec emax q e (loc_of_frac r den)) as [mrs1 e1'] eqn:Esh. cbn [fst snd] in *.
  subst e1'.
  destruct (rne_repr mrs1 _ _ R1) as (B1 & B2 & B3).
  set (m2 := round_nearest_even (shr_m mrs1) (loc_of_shr_record mrs1)) in *.
  set (m1 := shr_m mrs1) in *.
  assert (Hn : 0 <= e1 - e) by (unfold e1; lia).
  assert (Hm1 : 0 <= m1) by (rewrite A1; apply Z.div_pos; [lia|apply Z.pow_pos_nonneg; lia]).
  assert (Hm2c : m2 = m1 \/ m2 = m1 + 1) by apply round_nearest_even_cases.
  assert (Hm2 : 0 <= m2) by lia.
  exists m2. split; [exact B1|]. split; [exact B2|]. split; [rewrite <- A1; exact Hm2c|].
  (* digits of m1: fexp (digits m1 + e1) = e1 *)
  pose proof (dg_pos q Hq) as Hd. set (d := Zdigits2 q) in *. set (n := e1 - e) in *.
  assert (P1 : fexp64 (Zdigits2 m1 + e1) = e1).
  { destruct (Z_lt_le_dec n d) as [Hlt|Hge].
    - rewrite A1. unfold d. rewrite dg_div by (fold d; lia). fold d.
      replace (d - n + e1) with (d + e) by (unfold n; lia). reflexivity.
    - assert (E0 : m1 = 0) by (rewrite A1; apply div_small_dg; [exact Hq|fold d; lia]).
      rewrite E0. cbn [Zdigits2]. apply (fexp_first d e1 e n); [reflexivity|reflexivity|exact Hge|exact Hd]. }
  assert (Hd2 : Zdigits2 m2 = Zdigits2 m1 \/ (m2 = 2 ^ Zdigits2 m1 /\ Zdigits2 m2 = Zdigits2 m1 + 1)).
  { destruct Hm2c as [E|E]; rewrite E; [left; reflexivity|].
    destruct (dg_succ m1 Hm1) as [H|[H1 H2]]; [left|right]; tauto. }
  assert (Hbits2 : e1 <= fexp64 (Zdigits2 m2 + e1)).
  { destruct (fexp_same_or_carry _ _ P1) as [F1 F2]. destruct Hd2 as [E|[_ E]]; rewrite E; assumption. }
  destruct (shr_fexp_spec m2 e1 loc_Exact Hm2 Hbits2) as [C1 C2].
  destruct (shr_fexp prec emax m2 e1 loc_Exact) as [mrs2 e2] eqn:Esh2. cbn [fst snd] in C1, C2.
  (* the second shift is by 0 or by 1 (exactly) *)
  assert (Hshift : (e2 = e1 /\ shr_m mrs2 = m2) \/ (e2 = e1 + 1 /\ 2 * shr_m mrs2 = m2 /\ 0 < m2)).
  { destruct Hd2 as [E|[Em2 E]].
    - left. rewrite C2, E, P1. split; [reflexivity|]. rewrite C1, E, P1.
      replace (e1 - e1) with 0 by lia. rewrite Z.pow_0_r, Z.div_1_r. reflexivity.
    - set (d1 := Zdigits2 m1) in *.
      assert (Hd1 : 0 <= d1) by (unfold d1; destruct m1; cbn [Zdigits2]; lia).
      assert (Hcase : fexp64 (d1 + 1 + e1) = e1 \/ (fexp64 (d1 + 1 + e1) = e1 + 1 /\ 1 <= d1)).
      { apply fexp_carry; [exact Hd1|exact P1]. }
      rewrite E in C1, C2. destruct Hcase as [Hc|[Hc Hd1']].
      + left. rewrite C2, Hc. split; [reflexivity|]. rewrite C1, Hc.
        replace (e1 - e1) with 0 by lia. rewrite Z.pow_0_r, Z.div_1_r. reflexivity.
      + right. rewrite C2, Hc. split; [reflexivity|]. rewrite C1, Hc.
        replace (e1 + 1 - e1) with 1 by lia. change (2 ^ 1) with 2.
        assert (Hp : 2 ^ d1 = 2 * 2 ^ (d1 - 1)).
        { replace d1 with (Z.succ (d1 - 1)) at 1 by lia. apply Z.pow_succ_r. lia. }
        assert (Hpp : 0 < 2 ^ (d1 - 1)) by (apply Z.pow_pos_nonneg; lia).
        rewrite Em2, Hp. split; [|clear - Hpp; lia].
        replace (2 * 2 ^ (d1 - 1)) with (2 ^ (d1 - 1) * 2) by ring. rewrite Z.div_mul by lia. ring. }
  (* only [Hshift], [C2], [Hm2] and [Hvalid] are needed from here on (a small context keeps [lia] fast) *)
  clearbody m2 m1. clear - Hshift C2 Hm2 Hvalid.
  unfold packs.
  destruct (shr_m mrs2) as [|m3|m3] eqn:Em3.
  - left. split; [clear - Hshift; lia|reflexivity].
  - right. split; [clear - Hshift; lia|]. exists m3, e2. split; [exact C2|].
    split; [clear - Hshift; lia|]. split.
    { clear - Hshift. destruct Hshift as [[-> ->]|[-> [H2 _]]].
      - replace (e1 - e1) with 0 by lia. rewrite Z.pow_0_r. lia.
      - replace (e1 + 1 - e1) with 1 by lia. change (2 ^ 1) with 2. lia. }
    destruct (Zle_bool e2 (emax - prec)) eqn:Ee2.
    + left. split; [apply Zle_bool_imp_le; exact Ee2|]. split; [reflexivity|].
      cbn [valid_binary] in Hvalid. exact Hvalid.
    + right. split; [|reflexivity]. apply Z.leb_gt. exact Ee2.
  - exfalso. clear - Hshift Hm2. destruct Hshift as [[_ H]|[_ [H _]]]; lia.
Qed.

(** the location clause of [exact_triple] is [loc_of_frac] *)
Lemma exact_triple_loc : forall M e10 q e loc, exact_triple M e10 q e loc ->
  e <= 0 /\ exists r, M * 10 ^ (Z.max 0 e10) * 2 ^ (- e) = q * 10 ^ (Z.max 0 (- e10)) + r /\
                      0 <= r < 10 ^ (Z.max 0 (- e10)) /\ loc = loc_of_frac r (10 ^ (Z.max 0 (- e10))).
Proof. intros M e10 q e loc H. exact H. Qed.

(** non-vacuity: "0.1" = (q + 8/10) * 2^-71 with q = 236118324143482260684:
    [m2] = 7205759403792794 is the nearest integer to (10 q + 8) / (2^18 * 10) *)
Example spec_0_1 :
  binary_round_aux prec emax false 236118324143482260684 (-71) (loc_of_frac 8 10)
  = S754_finite false 7205759403792794 (-56)
  /\ fexp64 (Zdigits2 236118324143482260684 + -71) = -56
  /\ 2 * Z.abs (7205759403792794 * (2 ^ (-56 - -71) * 10) - (236118324143482260684 * 10 + 8)) <= 2 ^ (-56 - -71) * 10.
Proof. vm_compute. repeat split; discriminate. Qed.
