(** C06: from instants back to calendar days.  Record headings, --today and period values
    written as dates are all valid civil dates at UTC midnight, on which the order of
    instants is the calendar order; so "begin <= d <= end" can be read on the dates. *)
From Coq Require Import Lia ZifyBool.
From HP Require Import Base.Bytes Base.Num Model.Dates Model.Reporters Model.Cli Spec.PeriodSpec
  Proofs.PeriodInterval Proofs.PeriodSummary Proofs.PeriodCivil.
Open Scope Z_scope.

Lemma midnight_le_iff : forall c1 c2, valid_civil c1 -> valid_civil c2 ->
  (inst (time_of_civil c1) <= inst (time_of_civil c2) <-> civil_le c1 c2).
Proof.
  intros c1 c2 H1 H2. rewrite !inst_time_of_civil. unfold civil_le, ns_per_day.
  pose proof (day_number_mono_iff c1 c2 (valid_civil_md _ H1) (valid_civil_md _ H2)) as Hlt.
  pose proof (days_from_civil_injective c1 c2 H1 H2) as Hinj.
  split.
  - intros Hle. destruct (Z.eq_dec (day_number c1) (day_number c2)) as [E|E]; [left; auto|right; apply Hlt; lia].
  - intros [E|Hl]; [subst; lia|apply Hlt in Hl; lia].
Qed.

(** a period given by two dates selects exactly the headings between them in calendar order, both included *)
Theorem period_dates_calendar_order : forall cb ce d, valid_civil cb -> valid_civil ce -> valid_civil d ->
  (in_interval (Some (time_of_civil cb)) (Some (time_of_civil ce)) (time_of_civil d) = true
   <-> civil_le cb d /\ civil_le d ce).
Proof.
  intros cb ce d Hb He Hd. rewrite in_interval_both.
  rewrite (midnight_le_iff cb d Hb Hd), (midnight_le_iff d ce Hd He). reflexivity.
Qed.

(** general lemma about windows: a midnight re-labelled with a fixed zone offset (see PeriodSummary) *)
Lemma window_midnight_in_zone_calendar_day : forall D tz d, valid_civil D -> valid_civil d ->
  let t := to_local (time_of_civil D) tz in
  (in_interval (Some (summary_begin t)) (Some (summary_end t)) (time_of_civil d) = true <-> d = D).
Proof.
  intros D tz d HD Hd t. unfold t. rewrite (window_filter_midnight_in_zone D tz d). rewrite Z.eqb_eq.
  split; [apply days_from_civil_injective; assumption|intros; subst; reflexivity].
Qed.

(** [summary D]: exactly the calendar day D *)
Theorem summary_date_selects_calendar_day : forall D d, valid_civil D -> valid_civil d ->
  let t := time_of_civil D in
  (in_interval (Some (summary_begin t)) (Some (summary_end t)) (time_of_civil d) = true <-> d = D).
Proof.
  intros D d HD Hd t. unfold t. rewrite (summary_filter_explicit D d). rewrite Z.eqb_eq.
  split; [apply days_from_civil_injective; assumption|intros; subst; reflexivity].
Qed.

(** [summary today] under --today D, in EVERY process zone (any offset, no bound): exactly the
    calendar day D.  The keyword is the date as given (fix 4fa5d57), so this is [summary D]. *)
Theorem summary_selects_calendar_day : forall w tz toks D d, valid_civil D -> valid_civil d ->
  exists t, time_from_string (with_tz w tz) (time_of_civil D) toks (b "today") = inr t /\
            (in_interval (Some (summary_begin t)) (Some (summary_end t)) (time_of_civil d) = true <-> d = D).
Proof.
  intros w tz toks D d HD Hd. exists (time_of_civil D). split; [reflexivity|].
  apply summary_date_selects_calendar_day; assumption.
Qed.

Example calendar_order_ex :
  in_interval (Some (time_of_civil (2020, 12, 31))) (Some (time_of_civil (2021, 1, 1))) (time_of_civil (2021, 1, 1)) = true
  /\ civil_le (2020, 12, 31) (2021, 1, 1).
Proof. split; [vm_compute; reflexivity|right; cbn; lia]. Qed.
