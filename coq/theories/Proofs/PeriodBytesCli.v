(** WP26, part 3: C06 on the bytes of the log file through the whole program [Cli.run]:
    the invocation with period flags on [render f] equals the invocation without any period flag
    on the file with the other days deleted. *)
From Coq Require Import Lia.
From HP Require Import Base.Bytes Base.Utf8 Base.Num Model.Scanner Model.Parser Model.Syntax Model.Elements
  Model.Resolver Model.Dates Model.Tree Model.Writer Model.Reporters Model.Cli.
From HP Require Import Spec.PeriodSpec Spec.PeriodBytesSpec.
From HP Require Import Proofs.ParserBytes Proofs.ParserScan Proofs.ParserCorollaries Proofs.PeriodPick
  Proofs.PeriodBytesParse Proofs.PeriodBytesRun.
From HP Require Proofs.Settings.
Notation config_path := Settings.config_path.

Section Cli.
  Context (NM : Num).

  (** replacing a regular file other than the configuration file does not change what [load]
      reads: the configuration is found (or not) at the same path with the same contents.
      (WP28: a regular file at the configuration path is now read as text, so the file replaced
      must not be the configuration file itself.) *)
  Lemma load_config_with_file : forall w i p data',
    config_path w i <> p ->
    load_config (with_file w p data') (without_period_flags i) = load_config w i.
  Proof.
    intros w i p data' Hne. unfold load_config.
    change (i_f_config (without_period_flags i)) with (i_f_config i).
    change (i_e_config (without_period_flags i)) with (i_e_config i).
    change (w_default_config (with_file w p data')) with (w_default_config w).
    change (or_default (first_some [i_f_config i; i_e_config i]) (w_default_config w)) with (config_path w i).
    rewrite lookup_fs_with_file_other; [reflexivity|exact Hne].
  Qed.

  Theorem load_without_period : forall w i op p data',
    load w i = inr op ->
    config_path w i <> p ->
    load (with_file w p data') (without_period_flags i) = inr (without_period op).
  Proof.
    intros w i op p data' Hl Hp. unfold load in *.
    rewrite (load_config_with_file w i p data' Hp).
    destruct (load_config w i) as [e|cfg]; [discriminate Hl|].
    unfold without_period_flags.
    cbn [i_f_db i_e_db i_f_log i_e_log i_f_fmt i_e_fmt i_f_depth i_e_depth i_f_today i_f_config i_e_config
         i_no_database i_g_begin i_g_end i_l_begin i_l_end i_g_no_color i_l_no_color i_single_food
         i_single_element i_group_food i_csv i_no_totals i_totals_only i_shorten i_old i_template i_collapse
         i_collapse_last i_desc i_silent i_cmd].
    change (w_clock (with_file w p data')) with (w_clock w).
    destruct (tokenize (pick_string (i_f_fmt i) (i_e_fmt i) (ce_fmt cfg) default_fmt)) as [toks|]; [|discriminate Hl].
    destruct (match i_f_today i with
              | Some s => match parse_date toks s with Some c => inr (time_of_civil c) | None => inl EBadDate end
              | None => inr (time_of_civil (civ (or_default (ce_now cfg) (w_clock w))))
              end) as [e|now]; [discriminate Hl|].
    cbn [pick_period].
    destruct (pick_period w now toks (i_g_begin i) (i_l_begin i)) as [e|bt]; [discriminate Hl|].
    destruct (pick_period w now toks (i_g_end i) (i_l_end i)) as [e|et]; [discriminate Hl|].
    injection Hl as <-. reflexivity.
  Qed.

  Lemma run_db_log_without_period : forall w op mk bt et,
    run_db_log NM w (without_period op) mk bt et = run_db_log NM w op mk bt et.
  Proof. reflexivity. Qed.

  (** *** the whole program, every command whose walk uses the period of the options *)
  Theorem period_is_deletion_run : forall w i op f,
    load w i = inr op ->
    period_command (i_cmd i) = true ->
    wf_file NM f = true -> short_lines f -> clean_file f ->
    headings_dated (rc_date (op_rc op)) f ->
    file_is w (op_log op) (render f) ->
    op_db op <> op_log op ->
    config_path w i <> op_log op ->
    run NM w i
    = run NM (with_file w (op_log op)
                (render (keep_records (in_period (rc_date (op_rc op)) (op_begin op) (op_end op)) f)))
          (without_period_flags i).
  Proof.
    intros w i op f Hl Hc Hwf Hs Hcl Hd Hf Hne Hcp.
    pose proof (load_period w i op Hl) as [Ht _].
    destruct Hf as [Hp0 [Hpd [Hp Hfault]]].
    unfold run.
    rewrite (load_without_period w i op (op_log op) _ Hl Hcp). rewrite Hl.
    change (op_rc (without_period op)) with (op_rc op).
    change (i_cmd (without_period_flags i)) with (i_cmd i).
    change (i_desc (without_period_flags i)) with (i_desc i).
    change (op_begin (without_period op)) with (@None time).
    change (op_end (without_period op)) with (@None time).
    assert (Hf : file_is w (op_log op) (render f)) by (split; [exact Hp0 | split; [exact Hpd | split; [exact Hp | exact Hfault]]]).
    destruct (i_cmd i); try discriminate Hc; rewrite ?run_db_log_without_period.
    - apply (period_is_deletion_run_db_log NM f _ Hwf Hs Hcl Hd); assumption.
    - apply (period_is_deletion_run_db_log NM f _ Hwf Hs Hcl Hd); assumption.
    - apply (period_is_deletion_run_db_log NM f _ Hwf Hs Hcl Hd); assumption.
    - apply (period_is_deletion_run_log NM f _ Hwf Hs Hcl Hd); assumption.
    - apply (period_is_deletion_run_db_log NM f _ Hwf Hs Hcl Hd); assumption.
    - apply (period_is_deletion_run_log NM f _ Hwf Hs Hcl Hd); assumption.
    - apply (period_is_deletion_run_log NM f _ Hwf Hs Hcl Hd); assumption.
  Qed.

  (** the same without a hypothesis on the headings, for the deletion that leaves records with an
      undated heading in place *)
  Theorem period_is_deletion_or_undated_run : forall w i op f,
    load w i = inr op ->
    period_command (i_cmd i) = true ->
    wf_file NM f = true -> short_lines f -> clean_file f ->
    file_is w (op_log op) (render f) ->
    op_db op <> op_log op ->
    config_path w i <> op_log op ->
    run NM w i
    = run NM (with_file w (op_log op)
                (render (keep_records (in_period_or_undated (rc_date (op_rc op)) (op_begin op) (op_end op)) f)))
          (without_period_flags i).
  Proof.
    intros w i op f Hl Hc Hwf Hs Hcl Hf Hne Hcp.
    pose proof (load_period w i op Hl) as [Ht _].
    destruct Hf as [Hp0 [Hpd [Hp Hfault]]].
    unfold run.
    rewrite (load_without_period w i op (op_log op) _ Hl Hcp). rewrite Hl.
    change (op_rc (without_period op)) with (op_rc op).
    change (i_cmd (without_period_flags i)) with (i_cmd i).
    change (i_desc (without_period_flags i)) with (i_desc i).
    change (op_begin (without_period op)) with (@None time).
    change (op_end (without_period op)) with (@None time).
    assert (Hf : file_is w (op_log op) (render f)) by (split; [exact Hp0 | split; [exact Hpd | split; [exact Hp | exact Hfault]]]).
    destruct (i_cmd i); try discriminate Hc; rewrite ?run_db_log_without_period.
    - apply (period_is_deletion_or_undated_run_db_log NM f _ Hwf Hs Hcl); assumption.
    - apply (period_is_deletion_or_undated_run_db_log NM f _ Hwf Hs Hcl); assumption.
    - apply (period_is_deletion_or_undated_run_db_log NM f _ Hwf Hs Hcl); assumption.
    - apply (period_is_deletion_or_undated_run_log NM f _ Hwf Hs Hcl); assumption.
    - apply (period_is_deletion_or_undated_run_db_log NM f _ Hwf Hs Hcl); assumption.
    - apply (period_is_deletion_or_undated_run_log NM f _ Hwf Hs Hcl); assumption.
    - apply (period_is_deletion_or_undated_run_log NM f _ Hwf Hs Hcl); assumption.
  Qed.

  (** *** [summary DAY]: it builds its own period from its argument and ignores the flags, so the
      statement keeps the invocation: the output equals what the same command prints for the file
      with the other days deleted *)
  Lemma load_with_file : forall w i p data',
    config_path w i <> p ->
    load (with_file w p data') i = load w i.
  Proof.
    intros w i p data' Hp. unfold load.
    assert (Hc : load_config (with_file w p data') i = load_config w i).
    { unfold load_config.
      change (w_default_config (with_file w p data')) with (w_default_config w).
      change (or_default (first_some [i_f_config i; i_e_config i]) (w_default_config w)) with (config_path w i).
      rewrite lookup_fs_with_file_other; [reflexivity|exact Hp]. }
    rewrite Hc. reflexivity.
  Qed.

  Theorem summary_is_deletion_run : forall w i op f arg t,
    load w i = inr op ->
    i_cmd i = CSummary arg ->
    time_from_string w (op_now op) (rc_date (op_rc op)) arg = inr t ->
    wf_file NM f = true -> short_lines f -> clean_file f ->
    headings_dated (rc_date (op_rc op)) f ->
    file_is w (op_log op) (render f) ->
    op_db op <> op_log op ->
    config_path w i <> op_log op ->
    run NM w i
    = run NM (with_file w (op_log op)
                (render (keep_records (in_period (rc_date (op_rc op))
                                         (Some (summary_begin t)) (Some (summary_end t))) f)))
          i.
  Proof.
    intros w i op f arg t Hl Hc Ht' Hwf Hs Hcl Hd Hf Hne Hcp.
    pose proof (load_period w i op Hl) as [Ht _].
    pose proof Hf as [Hp0 [Hp Hfault]].
    unfold run. rewrite (load_with_file w i (op_log op) _ Hcp). rewrite Hl, Hc.
    change (time_from_string (with_file w (op_log op) _) (op_now op) (rc_date (op_rc op)) arg)
      with (time_from_string w (op_now op) (rc_date (op_rc op)) arg).
    rewrite Ht'.
    exact (period_kept_run_db_log NM f _ Hwf Hs Hcl Hd w op _ (Some (summary_begin t)) (Some (summary_end t))
             Ht Hf Hne).
  Qed.
End Cli.
