(** C15 end to end for [hranoprovod-cli reg ...]: with a standard output that
    never fails, giving [--no-color] (at either level) changes the complete
    output of the program only by escape sequences and does not change the exit
    status.  With a failing standard output this is false (witness below). *)
From Coq Require Import Lia.
From HP Require Import Base.Bytes Base.Utf8 Base.Num Model.Scanner Model.Parser Model.Elements Model.Resolver
  Model.Dates Model.Tree Model.Writer Model.Reporters Model.Cli Spec.PresentationSpec.
From HP Require Import Proofs.PresentationStrip Proofs.PresentationColour Proofs.PresentationLayout
  Proofs.PresentationFlags Proofs.PresentationRun Proofs.PresentationRunC15.
Local Open Scope N_scope.

Definition op_set_color (op : options) (col : bool) : options :=
  {| op_db := op_db op; op_log := op_log op; op_fmt := op_fmt op; op_depth := op_depth op; op_now := op_now op;
     op_begin := op_begin op; op_end := op_end op; op_rc := set_color (op_rc op) col |}.

Lemma load_with_no_color : forall (w : world) (i : invocation) (g l : bool),
  load w (with_no_color i g l)
  = match load w i with
    | inl e => inl e
    | inr op => inr (op_set_color op (negb (g || l)))
    end.
Proof.
  intros w i g l. unfold load.
  change (load_config w (with_no_color i g l)) with (load_config w i).
  destruct (load_config w i) as [e|cfg]; [reflexivity|].
  cbn [with_no_color i_f_db i_e_db i_f_log i_e_log i_f_fmt i_e_fmt i_f_depth i_e_depth i_f_today i_no_database
       i_g_begin i_g_end i_l_begin i_l_end i_g_no_color i_l_no_color i_single_food i_single_element i_group_food
       i_csv i_no_totals i_totals_only i_shorten i_old i_template i_collapse i_collapse_last].
  destruct (tokenize (pick_string (i_f_fmt i) (i_e_fmt i) (ce_fmt cfg) default_fmt)) as [toks|]; [|reflexivity].
  destruct (match i_f_today i with
            | Some s => match parse_date toks s with Some c => inr (time_of_civil c) | None => inl EBadDate end
            | None => inr (time_of_civil (civ (or_default (ce_now cfg) (w_clock w))))
            end) as [e|now]; [reflexivity|].
  destruct (pick_period w now toks (i_g_begin i) (i_l_begin i)) as [e|bt]; [reflexivity|].
  destruct (pick_period w now toks (i_g_end i) (i_l_end i)) as [e|et]; [reflexivity|].
  reflexivity.
Qed.

Section RunReg.
  Context (NM : Num).
  Notation T := (T NM).
  Notation elements := (elements NM).
  Notation db := (list (bytes * elements)).

  Lemma run_db_log_ext : forall (w : world) (op : options) (mk1 mk2 : db -> reporter NM) bt et,
    (forall d, mk1 d = mk2 d) -> run_db_log NM w op mk1 bt et = run_db_log NM w op mk2 bt et.
  Proof.
    intros w op mk1 mk2 bt et H. unfold run_db_log.
    destruct (open_all w [op_db op; op_log op]) as [[|odb [|olog [|x l]]]|]; try reflexivity.
    destruct (resolved_db NM w op odb) as [e|d]; [reflexivity|].
    rewrite (H d). reflexivity.
  Qed.

  (** only the log and database names, format, period and depth of [op] matter to [run_db_log] *)
  Lemma run_db_log_op_color : forall (w : world) (op : options) (mk : db -> reporter NM) bt et col,
    run_db_log NM w (op_set_color op col) mk bt et = run_db_log NM w op mk bt et.
  Proof. intros w op mk bt et col. reflexivity. Qed.

  (** the choice NewRegReporter makes does not depend on colour; the reporters it can
      choose either ignore colour altogether or are the two C15 is about *)
  Lemma reg_reporter_color : forall (c : rconfig) (col : bool),
    (forall d : db, reg_reporter NM (set_color c col) d = reg_reporter NM (set_color c false) d)
    \/ (exists k, forall (col' : bool) (d : db), reg_reporter NM (set_color c col') d = reg_rep NM k (set_color c col') d).
  Proof.
    intros c col. unfold reg_reporter. cbn [set_color rc_single_element rc_single_food rc_group_food rc_old].
    destruct (rc_single_element c) as [|x xs].
    - destruct (rc_single_food c) as [|y ys].
      + right. destruct (rc_old c).
        * exists KOld. intros col' d. reflexivity.
        * exists KTemplate. intros col' d. reflexivity.
      + left. intros d. reflexivity.
    - left. intros d. destruct (rc_group_food c); reflexivity.
  Qed.

  Lemma color_strip_reg_cfg : forall (c : rconfig) (w : world) (op : options) bt et (col : bool),
    w_sink w = None ->
    strip_sgr (out_stdout (run_db_log NM w op (reg_reporter NM (set_color c col)) bt et))
    = strip_sgr (out_stdout (run_db_log NM w op (reg_reporter NM (set_color c false)) bt et))
    /\ out_status (run_db_log NM w op (reg_reporter NM (set_color c col)) bt et)
       = out_status (run_db_log NM w op (reg_reporter NM (set_color c false)) bt et).
  Proof.
    intros c w op bt et col Hs. destruct (reg_reporter_color c col) as [H|[k H]].
    - rewrite (run_db_log_ext w op _ _ bt et H). split; reflexivity.
    - rewrite (run_db_log_ext w op _ _ bt et (H col)), (run_db_log_ext w op _ _ bt et (H false)).
      destruct col; [|split; reflexivity].
      apply color_strip_run_db_log. exact Hs.
  Qed.

  Lemma set_color_set_color : forall c a b', set_color (set_color c a) b' = set_color c b'.
  Proof. intros c a b'. reflexivity. Qed.

  (** *** the program: [reg] with any flags, colour switched at either level *)
  Theorem color_strip_run_reg : forall (w : world) (i : invocation) (g1 l1 g2 l2 : bool),
    w_sink w = None -> i_cmd i = CReg ->
    strip_sgr (out_stdout (run NM w (with_no_color i g1 l1)))
    = strip_sgr (out_stdout (run NM w (with_no_color i g2 l2)))
    /\ out_status (run NM w (with_no_color i g1 l1)) = out_status (run NM w (with_no_color i g2 l2)).
  Proof.
    intros w i g1 l1 g2 l2 Hs Hc. unfold run. rewrite !load_with_no_color.
    destruct (load w i) as [e|op]; [split; reflexivity|].
    cbn [with_no_color i_cmd]. rewrite Hc.
    cbn [op_set_color op_rc op_begin op_end].
    rewrite !run_db_log_op_color.
    destruct (color_strip_reg_cfg (op_rc op) w op (op_begin op) (op_end op) (negb (g1 || l1)) Hs) as [A1 A2].
    destruct (color_strip_reg_cfg (op_rc op) w op (op_begin op) (op_end op) (negb (g2 || l2)) Hs) as [B1 B2].
    rewrite A1, A2, B1, B2. split; reflexivity.
  Qed.

  (** the same for [summary <day>] *)
  Theorem color_strip_run_summary : forall (w : world) (i : invocation) (arg : bytes) (g1 l1 g2 l2 : bool),
    w_sink w = None -> i_cmd i = CSummary arg ->
    strip_sgr (out_stdout (run NM w (with_no_color i g1 l1)))
    = strip_sgr (out_stdout (run NM w (with_no_color i g2 l2)))
    /\ out_status (run NM w (with_no_color i g1 l1)) = out_status (run NM w (with_no_color i g2 l2)).
  Proof.
    intros w i arg g1 l1 g2 l2 Hs Hc. unfold run. rewrite !load_with_no_color.
    destruct (load w i) as [e|op]; [split; reflexivity|].
    cbn [with_no_color i_cmd]. rewrite Hc.
    cbn [op_set_color op_rc op_begin op_end op_now set_color rc_date].
    destruct (time_from_string w (op_now op) (rc_date (op_rc op)) arg) as [e|t]; [split; reflexivity|].
    rewrite !run_db_log_op_color.
    set (bt := Some {| inst := day_begin t; off := off t; civ := civ t |}).
    set (et := Some {| inst := day_end t; off := off t; civ := civ t |}).
    assert (G : forall col,
      strip_sgr (out_stdout (run_db_log NM w op (rep_summary NM (set_color (op_rc op) col)) bt et))
      = strip_sgr (out_stdout (run_db_log NM w op (rep_summary NM (set_color (op_rc op) false)) bt et))
      /\ out_status (run_db_log NM w op (rep_summary NM (set_color (op_rc op) col)) bt et)
         = out_status (run_db_log NM w op (rep_summary NM (set_color (op_rc op) false)) bt et)).
    { intros [|]; [|split; reflexivity].
      exact (color_strip_run_db_log NM KSummary (op_rc op) w op bt et Hs). }
    destruct (G (negb (g1 || l1))) as [A1 A2]. destruct (G (negb (g2 || l2))) as [B1 B2].
    rewrite A1, A2, B1, B2. split; reflexivity.
  Qed.
End RunReg.

(** *** the hypothesis [w_sink w = None] is necessary *)
Definition exr_lf : bytes := [10].
Definition exr_world (k : option nat) : world :=
  {| w_fs := [(b "food.yaml", FFile (b "soup:" ++ exr_lf ++ b "  kcal: 150" ++ exr_lf));
              (b "log.yaml", FFile (b "2024/03/01:" ++ exr_lf ++ b "  - soup: 2" ++ exr_lf ++ b "  - walk: -3" ++ exr_lf))];
     w_default_config := b "/home/u/.hranoprovod/config"; w_tz := 0%Z;
     w_clock := time_of_civil (2024, 3, 1)%Z;
     w_or := {| o_resolve := fun l => l; o_day := fun _ l => l; o_flush := fun l => l |};
     w_sink := k; w_read_fault := [] |}.

(** never-failing output: the theorem's instance, checked by computation as well *)
Example exr_ok :
  strip_sgr (out_stdout (run ZNum (exr_world None) (exf_inv false false)))
  = out_stdout (run ZNum (exr_world None) (exf_inv true false))
  /\ out_stdout (run ZNum (exr_world None) (exf_inv false false))
     <> out_stdout (run ZNum (exr_world None) (exf_inv true false))
  /\ out_status (run ZNum (exr_world None) (exf_inv false false)) = Ok.
Proof. vm_compute. repeat split. discriminate. Qed.

(** standard output accepting only 400 bytes: the plain run succeeds, the coloured run
    fails with a write error and has shown less *)
Example color_strip_run_failing_sink_refuted :
  strip_sgr (out_stdout (run ZNum (exr_world (Some 400%nat)) (exf_inv false false)))
  <> strip_sgr (out_stdout (run ZNum (exr_world (Some 400%nat)) (exf_inv true false)))
  /\ out_status (run ZNum (exr_world (Some 400%nat)) (exf_inv false false)) = Failed EWrite
  /\ out_status (run ZNum (exr_world (Some 400%nat)) (exf_inv true false)) = Ok.
Proof. vm_compute. repeat split. discriminate. Qed.

(** the hypotheses of the whole-run theorems ([default_is_interleave_run], [templates_same_rows_run])
    are met by this world: both files open, the database resolves, the layout tokenizes, and
    one day is selected *)
Example exr_hyps :
  let w := exr_world None in
  match load w (exf_inv false false) with
  | inr op =>
      match open_all w [op_db op; op_log op] with
      | Some [odb; olog] =>
          match resolved_db ZNum w op odb, tokenize (op_fmt op) with
          | inr d, Some toks =>
              length (fst (opened_days ZNum toks (op_begin op) (op_end op) olog)) = 1%nat
              /\ snd (opened_days ZNum toks (op_begin op) (op_end op) olog) = None
              /\ d = [(b "soup", [(b "kcal", 150%Z)])]
          | _, _ => False
          end
      | _ => False
      end
  | inl _ => False
  end.
Proof. vm_compute. repeat split. Qed.
