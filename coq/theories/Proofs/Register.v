(** WP06 – property C02: the register shows, for every selected day, each
    distinct food once in first-appearance order with the sum of its logged
    quantities and its ingredients, and the day's totals, sorted, with the
    positive, negative and total columns. *)
From Coq Require Import Lia Permutation Sorted.
From HP Require Import Base.Bytes Base.Num Model.Elements Model.Dates Model.Tree Model.Writer Model.Reporters.
From HP Require Import Spec.RegisterSpec Proofs.RegisterSort Proofs.RegisterAssoc.

Lemma flat_map_map : forall {A B C} (f : B -> list C) (g : A -> B) l,
  flat_map f (map g l) = flat_map (fun x => f (g x)) l.
Proof.
  intros A B C f g l. induction l as [|a r IH]; [reflexivity|]. cbn [map flat_map]. rewrite IH. reflexivity.
Qed.

Section Register.
  Context (NM : Num).
  Notation T := (T NM).
  Notation db := (list (bytes * list (bytes * T))).
  Notation node t es m := {| ln_time := t; ln_elems := merge_elements NM es; ln_meta := m |}.

  (** ** rows *)
  Lemma ingredients_of_spec : forall (d : db) f q, ingredients_of NM d f q = ingredients NM d f q.
  Proof. reflexivity. Qed.

  Lemma report_elements_spec : forall (d : db) t es m, report_elements NM d (node t es m) = day_rows NM d es.
  Proof.
    intros d t es m. unfold report_elements, day_rows. cbn [ln_elems].
    rewrite merge_elements_spec. unfold merged. rewrite map_map. reflexivity.
  Qed.

  Lemma contributions_spec : forall (d : db) t es m, contributions NM d (node t es m) = contributed NM d es.
  Proof.
    intros d t es m. unfold contributions, contributed, day_rows. cbn [ln_elems].
    rewrite merge_elements_spec. unfold merged. rewrite !flat_map_map. reflexivity.
  Qed.

  Theorem register_day_spec : forall c perm (d : db) t es m,
    ri_elements NM (get_report_item NM c perm d (node t es m))
    = if rc_totals_only c then [] else day_rows NM d es.
  Proof. intros. cbn [get_report_item ri_elements]. rewrite report_elements_spec. reflexivity. Qed.

  Theorem register_totals_spec : forall c perm (d : db) t es m,
    oracle perm ->
    ri_totals NM (get_report_item NM c perm d (node t es m))
    = if rc_totals c then Some (day_totals NM d es) else None.
  Proof.
    intros c perm d t es m Hperm. cbn [get_report_item ri_totals].
    rewrite contributions_spec, totals_of_acc_spec by exact Hperm. reflexivity.
  Qed.

  Theorem register_item_spec : forall c perm (d : db) t es m,
    oracle perm -> get_report_item NM c perm d (node t es m) = day_item NM c d t es.
  Proof.
    intros c perm d t es m Hperm. unfold get_report_item, day_item. cbn [ln_time].
    rewrite report_elements_spec, contributions_spec, totals_of_acc_spec by exact Hperm. reflexivity.
  Qed.

  (** the totals do not depend on the order oracle – for ANY node, merged or not *)
  Theorem get_report_item_oracle_indep : forall c p1 p2 (d : db) ln,
    oracle p1 -> oracle p2 -> get_report_item NM c p1 d ln = get_report_item NM c p2 d ln.
  Proof.
    intros c p1 p2 d ln H1 H2. unfold get_report_item.
    rewrite (totals_of_acc_oracle_indep NM p1 p2 _ H1 H2). reflexivity.
  Qed.

  (** ** the names of the totals *)
  Definition total_name (r : bytes * T * T * T) : bytes := fst (fst (fst r)).

  Lemma totals_of_names : forall cs, map total_name (totals_of NM cs) = sorted_names NM cs.
  Proof. intro cs. unfold totals_of. rewrite map_map. cbn [total_name fst]. apply map_id. Qed.

  Lemma sorted_names_strict : forall cs, StronglySorted blt (sorted_names NM cs).
  Proof. intro cs. apply sort_bytes_strict, first_occurrences_NoDup. Qed.

  Lemma sorted_names_in : forall cs x, In x (sorted_names NM cs) <-> In x (map fst cs).
  Proof. intros cs x. unfold sorted_names. rewrite sort_bytes_in. apply first_occurrences_in. Qed.

  (** [sorted_names cs] is THE strictly increasing list of the names occurring in [cs] *)
  Theorem sorted_names_unique : forall cs l,
    StronglySorted blt l -> (forall x, In x l <-> In x (map fst cs)) -> l = sorted_names NM cs.
  Proof.
    intros cs l Hs Hin. apply strict_sorted_unique; [exact Hs | apply sorted_names_strict |].
    intro x. rewrite Hin, sorted_names_in. reflexivity.
  Qed.

  Theorem totals_sorted_nodup : forall (d : db) es,
    StronglySorted (fun x y => bltb x y = true) (map total_name (day_totals NM d es))
    /\ NoDup (map total_name (day_totals NM d es))
    /\ (forall x, In x (map total_name (day_totals NM d es)) <-> In x (map fst (contributed NM d es))).
  Proof.
    intros d es. unfold day_totals. rewrite totals_of_names.
    split; [apply sorted_names_strict|]. split; [apply strict_sorted_NoDup, sorted_names_strict|].
    apply sorted_names_in.
  Qed.

  (** each row of the totals carries the three figures of its name *)
  Theorem totals_rows : forall (d : db) es r, In r (day_totals NM d es) ->
    let cs := contributed NM d es in
    let x := total_name r in
    r = (x, pos_of NM cs x, neg_of NM cs x, add NM (pos_of NM cs x) (neg_of NM cs x))
    /\ In x (map fst cs).
  Proof.
    intros d es r Hr. unfold day_totals, totals_of in Hr. apply in_map_iff in Hr.
    destruct Hr as [x [Hx Hin]]. subst r. cbn [total_name fst]. split; [reflexivity|].
    apply sorted_names_in, Hin.
  Qed.

  (** ** file order: one day, one chunk list, depending on the day only *)
  Theorem template_process_spec : forall c (d : db) perm st t es m,
    oracle perm ->
    r_process NM (rep_template NM c d) perm st (node t es m) = (tt, [template_day_chunk NM c d t es], None).
  Proof.
    intros c d perm st t es m Hperm. cbn [rep_template r_process].
    rewrite register_item_spec by exact Hperm. reflexivity.
  Qed.

  Theorem template_process_any : forall c (d : db) ln,
    exists ch, forall perm st, oracle perm -> r_process NM (rep_template NM c d) perm st ln = (tt, [ch], None).
  Proof.
    intros c d ln.
    eexists. intros perm st Hperm. cbn [rep_template r_process].
    rewrite (get_report_item_oracle_indep c perm (fun l => l) d ln Hperm) by (intro l; apply Permutation_refl).
    reflexivity.
  Qed.

  (** ** the old reporter *)
  Lemma old_rows_spec : forall c (d : db) t es m,
    old_rows NM c d (node t es m)
    = if rc_totals_only c then [] else flat_map (old_row_chunks NM c) (day_rows NM d es).
  Proof.
    intros c d t es m. unfold old_rows, day_rows. cbn [ln_elems].
    rewrite merge_elements_spec. unfold merged. rewrite !flat_map_map.
    destruct (rc_totals_only c).
    - induction (first_occurrences NM es) as [|f r IH]; [reflexivity|]. cbn [flat_map app]. exact IH.
    - apply flat_map_ext. intro f. reflexivity.
  Qed.

  Lemma accumulate_nil_iff : forall cs : list (bytes * T), accumulate NM cs = [] <-> totals_of NM cs = [].
  Proof.
    intro cs. rewrite accumulate_spec. unfold totals_of, sorted_names, kmap.
    split; intro H.
    - apply map_eq_nil in H. rewrite H. reflexivity.
    - apply map_eq_nil in H.
      assert (Hp : Permutation (sort_bytes (first_occurrences NM cs)) (first_occurrences NM cs)) by apply sort_bytes_perm.
      rewrite H in Hp. apply Permutation_nil in Hp. rewrite Hp. reflexivity.
  Qed.

  Lemma old_totals_spec : forall c perm (d : db) t es m,
    oracle perm ->
    old_totals NM c perm d (node t es m)
    = if rc_totals c then
        match day_totals NM d es with
        | [] => []
        | ts => old_header_chunk :: map (old_total_chunk NM c) ts
        end
      else [].
  Proof.
    intros c perm d t es m Hperm. unfold old_totals. destruct (rc_totals c); [|reflexivity].
    rewrite contributions_spec. fold (day_totals NM d es).
    rewrite totals_of_acc_spec by exact Hperm. fold (day_totals NM d es).
    destruct (accumulate NM (contributed NM d es)) as [|a r] eqn:E.
    - apply accumulate_nil_iff in E. unfold day_totals. rewrite E. reflexivity.
    - destruct (day_totals NM d es) as [|row rows] eqn:E'.
      + unfold day_totals in E'. apply accumulate_nil_iff in E'. congruence.
      + reflexivity.
  Qed.

  Theorem old_reporter_agrees : forall c perm (d : db) t es m,
    oracle perm ->
    old_rows NM c d (node t es m)
    = (if rc_totals_only c then [] else flat_map (old_row_chunks NM c) (day_rows NM d es))
    /\ old_totals NM c perm d (node t es m)
       = (if rc_totals c then
            match day_totals NM d es with
            | [] => []
            | ts => old_header_chunk :: map (old_total_chunk NM c) ts
            end
          else []).
  Proof. intros c perm d t es m Hperm. split; [apply old_rows_spec | apply old_totals_spec, Hperm]. Qed.

  Theorem old_process_spec : forall c (d : db) perm st t es m,
    oracle perm ->
    r_process NM (rep_old NM c d) perm st (node t es m) = (tt, old_day_chunks NM c d t es, None).
  Proof.
    intros c d perm st t es m Hperm. cbn [rep_old r_process ln_time].
    rewrite old_rows_spec, old_totals_spec by exact Hperm. reflexivity.
  Qed.

  Theorem old_process_any : forall c (d : db) ln,
    exists chs, forall perm st, oracle perm -> r_process NM (rep_old NM c d) perm st ln = (tt, chs, None).
  Proof.
    intros c d ln. eexists. intros perm st Hperm. cbn [rep_old r_process].
    unfold old_totals.
    rewrite (totals_of_acc_oracle_indep NM perm (fun l => l) _ Hperm) by (intro l; apply Permutation_refl).
    reflexivity.
  Qed.

  (** ** a sequence of days *)
  Theorem template_days : forall c (d : db) perm_day (days : list (day NM)) i st,
    (forall j, oracle (perm_day j)) ->
    process_days NM (rep_template NM c d) perm_day i st (map (day_node NM) days)
    = (tt, map (fun dy => template_day_chunk NM c d (fst (fst dy)) (snd (fst dy))) days).
  Proof.
    intros c d perm_day days. induction days as [|[[t es] m] r IH]; intros i st Hperm.
    - destruct st. reflexivity.
    - cbn [map process_days]. unfold day_node at 1. cbn [fst snd].
      rewrite template_process_spec by apply Hperm. rewrite IH by exact Hperm. reflexivity.
  Qed.

  Theorem old_days : forall c (d : db) perm_day (days : list (day NM)) i st,
    (forall j, oracle (perm_day j)) ->
    process_days NM (rep_old NM c d) perm_day i st (map (day_node NM) days)
    = (tt, flat_map (fun dy => old_day_chunks NM c d (fst (fst dy)) (snd (fst dy))) days).
  Proof.
    intros c d perm_day days. induction days as [|[[t es] m] r IH]; intros i st Hperm.
    - destruct st. reflexivity.
    - cbn [map process_days flat_map]. unfold day_node at 1. cbn [fst snd].
      rewrite old_process_spec by apply Hperm. rewrite IH by exact Hperm. reflexivity.
  Qed.

  Theorem register_file_order : forall c (d : db),
    (* one day: state [tt], chunks that depend on the day only, no error *)
    (forall perm st t es m, oracle perm ->
       r_process NM (rep_template NM c d) perm st (node t es m) = (tt, [template_day_chunk NM c d t es], None))
    /\ (forall perm st t es m, oracle perm ->
       r_process NM (rep_old NM c d) perm st (node t es m) = (tt, old_day_chunks NM c d t es, None))
    (* a sequence of days: the concatenation, in order, of the per-day chunks *)
    /\ (forall perm_day (days : list (day NM)) i st, (forall j, oracle (perm_day j)) ->
       process_days NM (rep_template NM c d) perm_day i st (map (day_node NM) days)
       = (tt, map (fun dy => template_day_chunk NM c d (fst (fst dy)) (snd (fst dy))) days))
    /\ (forall perm_day (days : list (day NM)) i st, (forall j, oracle (perm_day j)) ->
       process_days NM (rep_old NM c d) perm_day i st (map (day_node NM) days)
       = (tt, flat_map (fun dy => old_day_chunks NM c d (fst (fst dy)) (snd (fst dy))) days)).
  Proof.
    intros c d. split; [|split; [|split]].
    - intros. apply template_process_spec. assumption.
    - intros. apply old_process_spec. assumption.
    - intros. apply template_days. assumption.
    - intros. apply old_days. assumption.
  Qed.
End Register.
