(** WP03 – byte-string facts used by the parser round-trip proof:
    [trim_left]/[trim_right]/[trim] on  pre ++ core ++ post,  [last_index_any],
    set inclusion for the concrete cut sets, last bytes of concatenations. *)
From Coq Require Import Lia ZifyBool ZifyNat ZifyN.
From HP Require Import Base.Bytes Base.Num Model.Scanner Model.Parser Model.Syntax.
Open Scope N_scope.

(** the five filler characters of [wf_pre]/[wf_post]/[IBlank] *)
Definition fill5 : bytes := [c_tab; c_space; c_colon; c_quote; c_dash].
(** the four filler characters of [wf_mid] *)
Definition fill4 : bytes := [c_tab; c_space; c_colon; c_quote].

(** decide a goal about [memb] on concrete sets *)
Ltac memb_tac :=
  unfold fill5, fill4, trim_text, trim_qty, blanks, comment_char,
         c_tab, c_lf, c_cr, c_space, c_quote, c_hash, c_dash, c_slash, c_colon in *;
  cbn [memb existsb] in *; lia.

(** ** [all_in] / [none_of] *)

Lemma all_in_app set a c : all_in set (a ++ c) = all_in set a && all_in set c.
Proof. unfold all_in. apply forallb_app. Qed.

Lemma none_of_app set a c : none_of set (a ++ c) = none_of set a && none_of set c.
Proof. unfold none_of. apply forallb_app. Qed.

Lemma all_in_rev set s : all_in set (rev s) = all_in set s.
Proof.
  induction s as [|x s IH]; [reflexivity|].
  cbn [rev]. rewrite all_in_app, IH. cbn [all_in forallb]. rewrite andb_true_r. apply andb_comm.
Qed.

Lemma all_in_sub set1 set2 s :
  (forall c, memb c set1 = true -> memb c set2 = true) ->
  all_in set1 s = true -> all_in set2 s = true.
Proof.
  intros Hsub. induction s as [|x s IH]; [reflexivity|].
  cbn [all_in forallb]. intros H. apply andb_true_iff in H as [H1 H2].
  apply andb_true_iff; split; [apply Hsub, H1 | apply IH, H2].
Qed.

Lemma none_of_sub set1 set2 s :
  (forall c, memb c set2 = true -> memb c set1 = true) ->
  none_of set1 s = true -> none_of set2 s = true.
Proof.
  intros Hsub. induction s as [|x s IH]; [reflexivity|].
  cbn [none_of forallb]. intros H. apply andb_true_iff in H as [H1 H2].
  apply andb_true_iff; split; [|apply IH, H2].
  destruct (memb x set2) eqn:E; [|reflexivity]. rewrite (Hsub _ E) in H1. discriminate.
Qed.

(** a string made of set1 characters has no set2 character when the sets are disjoint *)
Lemma all_in_none_of set1 set2 s :
  (forall c, memb c set1 = true -> memb c set2 = false) ->
  all_in set1 s = true -> none_of set2 s = true.
Proof.
  intros Hd. induction s as [|x s IH]; [reflexivity|].
  cbn [all_in none_of forallb]. intros H. apply andb_true_iff in H as [H1 H2].
  apply andb_true_iff; split; [rewrite (Hd _ H1); reflexivity | apply IH, H2].
Qed.

Lemma none_of_not_In c s : none_of [c] s = true -> ~ In c s.
Proof.
  induction s as [|x s IH]; [intros _ []|].
  cbn [none_of forallb memb existsb]. intros H [E|Hin].
  - subst x. rewrite N.eqb_refl in H. discriminate.
  - apply andb_true_iff in H as [_ H]. exact (IH H Hin).
Qed.

(** ** first and last byte *)

Lemma last_byte_snoc s c : last_byte (s ++ [c]) = Some c.
Proof. unfold last_byte. rewrite rev_app_distr. reflexivity. Qed.

Lemma last_byte_nil : last_byte [] = None.
Proof. reflexivity. Qed.

(** every string is empty or ends in some byte *)
Lemma snoc_cases (s : bytes) : s = [] \/ exists s' c, s = s' ++ [c].
Proof.
  destruct (rev s) as [|c r] eqn:E.
  - left. apply (f_equal (@rev N)) in E. rewrite rev_involutive in E. exact E.
  - right. exists (rev r), c. apply (f_equal (@rev N)) in E. rewrite rev_involutive in E. exact E.
Qed.

Lemma last_byte_Some s c : last_byte s = Some c -> exists s', s = s' ++ [c].
Proof.
  destruct (snoc_cases s) as [->|[s' [c' ->]]]; [discriminate|].
  rewrite last_byte_snoc. intros [= ->]. eauto.
Qed.

Lemma last_byte_app a s : s <> [] -> last_byte (a ++ s) = last_byte s.
Proof.
  destruct (snoc_cases s) as [->|[s' [c ->]]]; [congruence|]. intros _.
  rewrite app_assoc, !last_byte_snoc. reflexivity.
Qed.

Lemma first_byte_app s a : s <> [] -> first_byte (s ++ a) = first_byte s.
Proof. destruct s; [congruence|reflexivity]. Qed.

Lemma opt_notin_first s set :
  opt_notin (first_byte s) set = true -> exists c r, s = c :: r /\ memb c set = false.
Proof.
  destruct s as [|c r]; [discriminate|]. cbn [first_byte opt_notin]. intros H.
  exists c, r. split; [reflexivity|]. destruct (memb c set); [discriminate|reflexivity].
Qed.

Lemma opt_notin_last s set :
  opt_notin (last_byte s) set = true -> exists r c, s = r ++ [c] /\ memb c set = false.
Proof.
  destruct (snoc_cases s) as [->|[r [c ->]]]; [discriminate|].
  rewrite last_byte_snoc. cbn [opt_notin]. intros H.
  exists r, c. split; [reflexivity|]. destruct (memb c set); [discriminate|reflexivity].
Qed.

Lemma opt_notin_sub o set1 set2 :
  (forall c, memb c set2 = true -> memb c set1 = true) ->
  opt_notin o set1 = true -> opt_notin o set2 = true.
Proof.
  intros Hsub. destruct o as [c|]; [|discriminate]. cbn [opt_notin].
  destruct (memb c set2) eqn:E; [|reflexivity]. rewrite (Hsub _ E). discriminate.
Qed.

Lemma opt_notin_nonempty o set s : opt_notin o set = true -> o = first_byte s \/ o = last_byte s -> s <> [].
Proof. intros H [->| ->] ->; discriminate. Qed.

(** ** [trim_left], [trim_right], [trim] *)

Lemma trim_left_app_in set pre s :
  all_in set pre = true -> trim_left set (pre ++ s) = trim_left set s.
Proof.
  induction pre as [|x pre IH]; [reflexivity|].
  cbn [all_in forallb]. intros H. apply andb_true_iff in H as [H1 H2].
  cbn [app trim_left]. rewrite H1. exact (IH H2).
Qed.

Lemma trim_left_notin set c s : memb c set = false -> trim_left set (c :: s) = c :: s.
Proof. intros H. cbn [trim_left]. rewrite H. reflexivity. Qed.

Lemma trim_left_all_in set s : all_in set s = true -> trim_left set s = [].
Proof. intros H. rewrite <- (app_nil_r s). rewrite trim_left_app_in by exact H. reflexivity. Qed.

Lemma trim_right_app_in set s post :
  all_in set post = true -> trim_right set (s ++ post) = trim_right set s.
Proof.
  intros H. unfold trim_right. rewrite rev_app_distr.
  rewrite trim_left_app_in by (rewrite all_in_rev; exact H). reflexivity.
Qed.

Lemma trim_right_notin set s c : memb c set = false -> trim_right set (s ++ [c]) = s ++ [c].
Proof.
  intros H. unfold trim_right. rewrite rev_app_distr. cbn [rev app].
  rewrite trim_left_notin by exact H. cbn [rev]. rewrite rev_involutive. reflexivity.
Qed.

(** the key fact: fillers on both sides of a core whose ends are not fillers *)
Lemma trim_core set pre core post :
  all_in set pre = true -> all_in set post = true ->
  opt_notin (first_byte core) set = true -> opt_notin (last_byte core) set = true ->
  trim set (pre ++ core ++ post) = core.
Proof.
  intros Hpre Hpost Hf Hl. unfold trim.
  rewrite trim_left_app_in by exact Hpre.
  apply opt_notin_first in Hf as [c [r [E Hc]]].
  rewrite E at 1. cbn [app]. rewrite trim_left_notin by exact Hc.
  change (c :: r ++ post) with ((c :: r) ++ post). rewrite <- E.
  rewrite trim_right_app_in by exact Hpost.
  apply opt_notin_last in Hl as [r' [c' [E' Hc']]].
  rewrite E'. apply trim_right_notin. exact Hc'.
Qed.

Lemma trim_all_in set s : all_in set s = true -> trim set s = [].
Proof. intros H. unfold trim. rewrite trim_left_all_in by exact H. reflexivity. Qed.

(** ** [last_index_any] *)

Lemma last_index_any_none set s : none_of set s = true -> last_index_any set s = None.
Proof.
  induction s as [|x s IH]; [reflexivity|].
  cbn [none_of forallb]. intros H. apply andb_true_iff in H as [H1 H2].
  cbn [last_index_any]. rewrite (IH H2). destruct (memb x set); [discriminate|reflexivity].
Qed.

Lemma last_index_any_last set a c l :
  memb c set = true -> none_of set l = true ->
  last_index_any set (a ++ c :: l) = Some (length a).
Proof.
  intros Hc Hl. induction a as [|x a IH].
  - cbn [app last_index_any length]. rewrite (last_index_any_none _ _ Hl), Hc. reflexivity.
  - cbn [app last_index_any length]. rewrite IH. reflexivity.
Qed.

(** the last set character of a string that has one *)
Lemma split_last_in set m :
  existsb (fun c => memb c set) m = true ->
  exists m1 c m2, m = m1 ++ c :: m2 /\ memb c set = true /\ none_of set m2 = true.
Proof.
  induction m as [|x m IH]; [discriminate|].
  cbn [existsb]. intros H.
  destruct (existsb (fun c => memb c set) m) eqn:E.
  - destruct (IH eq_refl) as [m1 [c [m2 [-> [Hc Hm2]]]]].
    exists (x :: m1), c, m2. repeat split; assumption.
  - rewrite orb_false_r in H. exists [], x, m. repeat split; [exact H|].
    clear -E. induction m as [|y m IH]; [reflexivity|].
    cbn [existsb] in E. apply orb_false_iff in E as [E1 E2].
    cbn [none_of forallb]. rewrite E1. exact (IH E2).
Qed.

Lemma firstn_app_exact {A} (a c : list A) : firstn (length a) (a ++ c) = a.
Proof. induction a as [|x a IH]; [destruct c; reflexivity|]. cbn [length app firstn]. rewrite IH. reflexivity. Qed.

Lemma skipn_app_exact {A} (a c : list A) : skipn (length a) (a ++ c) = c.
Proof. induction a as [|x a IH]; [reflexivity|]. exact IH. Qed.

(** ** [beq] *)
Lemma beq_true_iff x y : beq x y = true <-> x = y.
Proof.
  revert y. induction x as [|a x IH]; intros [|c y]; cbn [beq]; split; intros H; try discriminate; try reflexivity.
  - apply andb_true_iff in H as [H1 H2]. apply N.eqb_eq in H1. apply IH in H2. congruence.
  - injection H as -> ->. rewrite N.eqb_refl. apply IH. reflexivity.
Qed.

(** ** [lengthN] *)
Lemma lengthN_app {A} (a c : list A) : lengthN (a ++ c) = lengthN a + lengthN c.
Proof. induction a as [|x a IH]; [reflexivity|]. cbn [app lengthN]. rewrite IH. lia. Qed.
