(** WP27: examples for [ScannerBufChunks.v]: concrete chunkings meeting the
    hypotheses of the theorems, and the 65535 / 65536 boundary, proved for every
    chunking (not computed: [List.rev] on 65535 bytes is quadratic). *)
From Coq Require Import List NArith Bool Lia ZifyBool ZifyNat ZifyN.
From HP Require Import Base.Bytes Base.Num Model.Scanner Model.ScannerBuf.
From HP Require Import Proofs.ScannerBuf Proofs.ScannerBufChunks.
Import ListNotations.
Open Scope N_scope.

Definition nl : bytes := [c_lf].
Definition crlf : bytes := [c_cr; c_lf].

(** a 10-byte file: "ab" LF "cd" CR LF "ef" LF *)
Definition file10 : bytes := b "ab" ++ nl ++ b "cd" ++ crlf ++ b "ef" ++ nl.
Definition lines10 : list bytes := [b "ab"; b "cd"; b "ef"].

Definition by1 : list bytes := map (fun c => [c]) file10.
Definition by3 : list bytes := [b "ab" ++ nl; b "cd" ++ [c_cr]; nl ++ b "ef"; nl].
Definition whole : list bytes := [file10].

Ltac chunks_of_by pieces tl :=
  exists pieces, tl; repeat split;
  [ try (eexists; reflexivity) | repeat constructor; discriminate ].

Example file10_by1_chunks : chunks_of file10 NoFault (map RChunk by1).
Proof. exists by1, []. repeat split. repeat constructor; discriminate. Qed.
Example file10_by3_chunks : chunks_of file10 NoFault (map RChunk by3).
Proof. exists by3, []. repeat split. repeat constructor; discriminate. Qed.
Example file10_whole_chunks : chunks_of file10 NoFault (map RChunk whole).
Proof. exists whole, []. repeat split. repeat constructor; discriminate. Qed.

Example file10_by1 : scan_chunks (map RChunk by1) = (lines10, ScanEOF).
Proof. vm_compute. reflexivity. Qed.
Example file10_by3 : scan_chunks (map RChunk by3) = (lines10, ScanEOF).   (* CR LF split between two chunks *)
Proof. vm_compute. reflexivity. Qed.
Example file10_whole : scan_chunks (map RChunk whole) = (lines10, ScanEOF).
Proof. vm_compute. reflexivity. Qed.
Example file10_scan : scan file10 NoFault = (lines10, ScanEOF).
Proof. vm_compute. reflexivity. Qed.
(* the same through the theorem *)
Example file10_by3_thm : scan_chunks (map RChunk by3) = scan file10 NoFault.
Proof. apply scan_chunking_independent. exact file10_by3_chunks. Qed.

(** a fault in the middle of the second line (offset 5); what lies behind the
    error is never read *)
Definition faulty : list read_result := [RChunk (b "ab" ++ nl); RChunk (b "cd"); RErr; RChunk (b "never read")].
Example faulty_chunks : chunks_of file10 (FailAt 5) faulty.
Proof.
  exists [b "ab" ++ nl; b "cd"], [RErr; RChunk (b "never read")]. repeat split.
  - eexists. reflexivity.
  - repeat constructor; discriminate.
Qed.
Example faulty_result : scan_chunks faulty = ([b "ab"; b "cd"], ScanReadErr).
Proof. vm_compute. reflexivity. Qed.
Example faulty_thm :
  scan_chunks faulty = (fst (scan (firstn 5 file10) NoFault), ScanReadErr) /\ snd (scan_chunks faulty) <> ScanEOF.
Proof. exact (read_error_any_chunking _ _ _ faulty_chunks). Qed.

(** empty reads are skipped (at most 100 in a row) *)
Definition with_empties : list bytes := [b "ab"; []; []; nl ++ b "cd" ++ [c_cr]; []; nl ++ b "ef" ++ nl; []].
Example with_empties_chunks : chunks_of_gen file10 NoFault (map RChunk with_empties).
Proof.
  exists with_empties, []. repeat split.
  - apply runs_leb_sound. reflexivity.
Qed.
Example with_empties_result : scan_chunks (map RChunk with_empties) = (lines10, ScanEOF).
Proof. vm_compute. reflexivity. Qed.

(** 101 empty reads in a row: [io.ErrNoProgress], the partial line "cd" still delivered *)
Definition stuck : list read_result :=
  [RChunk (b "ab" ++ nl ++ b "cd")] ++ repeat (RChunk []) 101 ++ [RChunk (crlf ++ b "ef" ++ nl)].
Example stuck_result : scan_chunks_full stuck = ([b "ab"; b "cd"], CNoProgress).
Proof. vm_compute. reflexivity. Qed.
Example stuck_thm : scan_chunks stuck = scan file10 (FailAt 5).
Proof.
  apply (no_progress_is_read_error file10 5 [b "ab" ++ nl ++ b "cd"]); [|reflexivity].
  apply runs_leb_sound. reflexivity.
Qed.
(** 100 are tolerated *)
Example not_stuck_result :
  scan_chunks_full ([RChunk (b "ab" ++ nl ++ b "cd")] ++ repeat (RChunk []) 100 ++ [RChunk (crlf ++ b "ef" ++ nl)])
  = (lines10, CEnd ScanEOF).
Proof. vm_compute. reflexivity. Qed.

(** the capacity steps at work: a 9000-byte line arriving in one piece is read in
    pieces of 4096, 4096 (buffer doubled to 8192), 808 + LF (doubled to 16384) *)
Definition a_s (n : N) : bytes := repeat 97 (N.to_nat n).
Example grow_twice : scan_chunks [RChunk (a_s 9000 ++ nl ++ b "x")] = ([a_s 9000; b "x"], ScanEOF).
Proof. vm_compute. reflexivity. Qed.
Example read_splits_chunk :
  read_loop 4096 0 [RChunk (a_s 9000)] = (a_s 4096, [RChunk (a_s 4904)], None).
Proof. vm_compute. reflexivity. Qed.
Example grow_steps :
  (grow 0 0 0, grow 4096 0 4096, grow 32768 0 32768, grow 65536 0 65536, grow 8192 10 100) =
  (Some (4096, 0), Some (8192, 0), Some (65536, 0), None, Some (8192, 10)).
Proof. vm_compute. reflexivity. Qed.

(** * The boundary, for every chunking *)

Lemma drop_cr_no_cr l : ~ In c_cr l -> drop_cr l = l.
Proof.
  intros H. unfold drop_cr. destruct (rev l) as [|c r] eqn:E; [reflexivity|].
  destruct (N.eqb_spec c c_cr) as [EC|EC]; [|reflexivity].
  exfalso. apply H. apply in_rev. rewrite E. left. exact EC.
Qed.

Lemma drop_cr_snoc l : drop_cr (l ++ [c_cr]) = l.
Proof. unfold drop_cr. rewrite rev_app_distr. cbn. now rewrite rev_involutive. Qed.

Lemma lengthN_app {A} (x y : list A) : lengthN (x ++ y) = lengthN x + lengthN y.
Proof. rewrite !lengthN_length, app_length. lia. Qed.

Section Boundary.
  Variables (l : bytes) (cs : list read_result).
  Hypothesis l_no_lf : ~ In c_lf l.
  Hypothesis l_no_cr : ~ In c_cr l.

  (** a line of exactly 65535 bytes is a token *)
  Lemma line_65535_any_chunking :
    lengthN l = 65535 -> chunks_of (l ++ nl) NoFault cs -> scan_chunks cs = ([l], ScanEOF).
  Proof.
    intros HL HC.
    rewrite (short_lines_any_chunking [l] [] (l ++ nl) NoFault cs); cbn [map app fault_end].
    - now rewrite drop_cr_no_cr.
    - repeat constructor; [exact l_no_lf|rewrite HL; reflexivity].
    - split; [intros []|reflexivity].
    - unfold terminated. cbn [map concat delivered]. now rewrite !app_nil_r.
    - exact HC.
  Qed.

  (** also when it is the last one and unterminated *)
  Lemma last_line_65535_any_chunking :
    lengthN l = 65535 -> chunks_of l NoFault cs -> scan_chunks cs = ([l], ScanEOF).
  Proof.
    intros HL HC.
    rewrite (short_lines_any_chunking [] l l NoFault cs); cbn [map app fault_end].
    - rewrite drop_cr_no_cr by exact l_no_cr. destruct l; [discriminate HL|reflexivity].
    - constructor.
    - split; [exact l_no_lf|rewrite HL; reflexivity].
    - reflexivity.
    - exact HC.
  Qed.

  (** a line of 65536 bytes is not, terminated or not, whatever follows *)
  Lemma line_65536_any_chunking rest :
    lengthN l = 65536 -> chunks_of (l ++ rest) NoFault cs -> scan_chunks cs = ([], ScanTooLong).
  Proof.
    intros HL HC.
    apply (long_line_any_chunking [] l rest (l ++ rest) NoFault cs); try assumption.
    - constructor.
    - rewrite HL. discriminate.
    - reflexivity.
  Qed.

  (** 65534 bytes + CR + LF: the raw line has 65535 bytes, the token 65534 *)
  Lemma line_65534_cr_any_chunking :
    lengthN l = 65534 -> chunks_of (l ++ crlf) NoFault cs -> scan_chunks cs = ([l], ScanEOF).
  Proof.
    intros HL HC.
    rewrite (short_lines_any_chunking [l ++ [c_cr]] [] (l ++ crlf) NoFault cs); cbn [map app fault_end].
    - now rewrite drop_cr_snoc.
    - repeat constructor.
      + intros HI. apply in_app_or in HI. destruct HI as [HI|[HI|[]]]; [now apply l_no_lf|discriminate].
      + rewrite lengthN_app, HL. reflexivity.
    - split; [intros []|reflexivity].
    - unfold terminated, crlf. cbn [map concat delivered]. rewrite !app_nil_r, <- app_assoc. reflexivity.
    - exact HC.
  Qed.

  (** 65535 bytes + CR + LF: the token would have 65535 bytes, but the raw line
      (CR included) fills the 65536-byte buffer before the LF can be read:
      ErrTooLong, in Go as in both models *)
  Lemma line_65535_cr_any_chunking :
    lengthN l = 65535 -> chunks_of (l ++ crlf) NoFault cs -> scan_chunks cs = ([], ScanTooLong).
  Proof.
    intros HL HC.
    apply (long_line_any_chunking [] (l ++ [c_cr]) nl (l ++ crlf) NoFault cs).
    - constructor.
    - intros HI. apply in_app_or in HI. destruct HI as [HI|[HI|[]]]; [now apply l_no_lf|discriminate].
    - rewrite lengthN_app, HL. discriminate.
    - unfold terminated, crlf, nl. cbn [map concat delivered app]. now rewrite <- app_assoc.
    - exact HC.
  Qed.

  (** the read fails right after 65535 bytes of an over-long line: the 65535
      bytes are still a token, then the read error *)
  Lemma fault_inside_long_line rest :
    lengthN l = 65535 -> chunks_of (l ++ rest) (FailAt (length l)) cs -> scan_chunks cs = ([l], ScanReadErr).
  Proof.
    intros HL HC.
    rewrite (short_lines_any_chunking [] l (l ++ rest) (FailAt (length l)) cs); cbn [map app fault_end].
    - rewrite drop_cr_no_cr by exact l_no_cr. destruct l; [discriminate HL|reflexivity].
    - constructor.
    - split; [exact l_no_lf|rewrite HL; reflexivity].
    - cbn [delivered terminated map concat app]. rewrite firstn_app, Nat.sub_diag, firstn_all.
      cbn [firstn]. now rewrite app_nil_r.
    - exact HC.
  Qed.
End Boundary.

(** the hypotheses are met: 65535 / 65536 times 'a', in chunks of 4096 + the rest *)
Lemma a_s_no c n : c <> 97 -> ~ In c (a_s n).
Proof. intros H HI. apply repeat_spec in HI. now apply H. Qed.

Lemma a_s_length n : lengthN (a_s n) = n.
Proof. unfold a_s. rewrite lengthN_length, repeat_length. lia. Qed.

Lemma a_s_add n m : a_s (n + m) = a_s n ++ a_s m.
Proof. unfold a_s. rewrite N2Nat.inj_add. apply repeat_app. Qed.

Lemma a_s_nonempty n : 0 < n -> a_s n <> [].
Proof. intros H E. apply (f_equal (@lengthN N)) in E. rewrite a_s_length in E. cbn in E. lia. Qed.

Example a_65535 :
  scan_chunks [RChunk (a_s 4096); RChunk (a_s 61439 ++ nl)] = ([a_s 65535], ScanEOF).
Proof.
  apply line_65535_any_chunking; try (apply a_s_no; discriminate); [apply a_s_length|].
  exists [a_s 4096; a_s 61439 ++ nl], []. repeat split.
  repeat constructor.
    + apply a_s_nonempty. reflexivity.
    + intros E. apply app_eq_nil in E. destruct E as [_ E]. discriminate.
Qed.

Example a_65536 :
  scan_chunks [RChunk (a_s 4096); RChunk (a_s 61440 ++ nl)] = ([], ScanTooLong).
Proof.
  apply (line_65536_any_chunking (a_s 65536) _ (a_s_no c_lf 65536 ltac:(discriminate)) nl); [apply a_s_length|].
  exists [a_s 4096; a_s 61440 ++ nl], []. repeat split.
  repeat constructor.
    + apply a_s_nonempty. reflexivity.
    + intros E. apply app_eq_nil in E. destruct E as [_ E]. discriminate.
Qed.

(** * A reader returning its last bytes together with io.EOF: the one point
      where the chunking matters *)

(** small scale: same result as with a separate EOF / error *)
Example glued_small :
  scan_chunks [RChunk (b "ab" ++ nl); RLast (b "cd") false] = ([b "ab"; b "cd"], ScanEOF) /\
  scan_chunks [RChunk (b "ab" ++ nl); RLast (b "cd") true] = ([b "ab"; b "cd"], ScanReadErr) /\
  scan_chunks [RChunk (b "ab" ++ nl); RLast (b "cd") false] = scan (b "ab" ++ nl ++ b "cd") NoFault.
Proof. vm_compute. repeat split. Qed.

Example a_65536_glued_chunks : chunks_glued (a_s 65536) NoFault [RChunk (a_s 4096); RLast (a_s 61440) false].
Proof.
  exists [a_s 4096], (a_s 61440), []. repeat split.
  - apply a_s_nonempty. reflexivity.
  - apply runs_leb_sound. reflexivity.
Qed.

(** 65536 bytes without LF, the last 61440 arriving together with io.EOF: Go's
    scanner delivers them as one line and ends without error ... *)
Example a_65536_glued :
  scan_chunks [RChunk (a_s 4096); RLast (a_s 61440) false] = ([a_s 65536], ScanEOF).
Proof.
  assert (HX := fun h1 h2 h3 h4 => glued_exact_line [] (a_s 65536) (a_s 65536) NoFault _ h1 h2 h3 h4 a_65536_glued_chunks).
  destruct HX as [H _].
  - constructor.
  - apply a_s_no. discriminate.
  - apply a_s_length.
  - reflexivity.
  - rewrite H. cbn [map app fault_end]. rewrite drop_cr_no_cr; [reflexivity|]. apply a_s_no. discriminate.
Qed.

(** ... whereas the same bytes followed by an EOF of its own are ErrTooLong *)
Example a_65536_separate :
  scan_chunks [RChunk (a_s 4096); RChunk (a_s 61440)] = ([], ScanTooLong).
Proof.
  apply (line_65536_any_chunking (a_s 65536) _ (a_s_no c_lf 65536 ltac:(discriminate)) []); [apply a_s_length|].
  exists [a_s 4096; a_s 61440], []. repeat split.
  repeat constructor; apply a_s_nonempty; reflexivity.
Qed.

(** [scan_chunking_independent] does NOT extend to such readers *)
Theorem glued_chunking_refuted :
  exists data cs, chunks_glued data NoFault cs /\ scan_chunks cs <> scan data NoFault.
Proof.
  exists (a_s 65536), [RChunk (a_s 4096); RLast (a_s 61440) false].
  split; [exact a_65536_glued_chunks|].
  rewrite a_65536_glued.
  assert (HX := fun h1 h2 h3 h4 => glued_exact_line [] (a_s 65536) (a_s 65536) NoFault _ h1 h2 h3 h4 a_65536_glued_chunks).
  destruct HX as [_ H].
  - constructor.
  - apply a_s_no. discriminate.
  - apply a_s_length.
  - reflexivity.
  - rewrite H. discriminate.
Qed.
