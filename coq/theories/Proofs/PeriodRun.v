(** C06 at the level of whole commands: "its output equals what it prints for the same file
    with the other days deleted and no period given", and the zone-dependence finding. *)
From Coq Require Import Lia.
From HP Require Import Base.Bytes Base.Num Model.Scanner Model.Parser Model.Resolver Model.Dates Model.Writer Model.Reporters Model.Cli
  Spec.PeriodSpec Proofs.PeriodInterval Proofs.PeriodFilter Proofs.PeriodPick Proofs.PeriodSummary Proofs.PeriodCivil
  Proofs.PeriodDays Proofs.PeriodTz.
Open Scope Z_scope.

Section Run.
  Context (NM : Num).

  (** register, balance, unresolved, totals, summary: the book is resolved, then the log is walked *)
  Theorem period_is_filter_run_db_log : forall w w' op mk bt et odb olog olog',
    same_but_files w w' ->
    open_all w [op_db op; op_log op] = Some [odb; olog] ->
    open_all w' [op_db op; op_log op] = Some [odb; olog'] ->
    (forall toks, tokenize (op_fmt op) = Some toks -> log_restricted NM toks bt et olog olog') ->
    run_db_log NM w op mk bt et = run_db_log NM w' op mk None None.
  Proof.
    intros w w' op mk bt et odb olog olog' [Hor Hsink] Ho Ho' Hr. unfold run_db_log.
    rewrite Ho, Ho'. unfold resolved_db, new_writer. rewrite <- Hor, <- Hsink.
    destruct (load_db NM odb) as [d [e|]]; [reflexivity|].
    destruct (resolve NM (Z.to_nat (op_depth op)) (o_resolve (w_or w)) d) as [d'|]; [|reflexivity].
    destruct (tokenize (op_fmt op)) as [toks|] eqn:Et; [|reflexivity].
    specialize (Hr toks eq_refl). unfold log_restricted in Hr.
    destruct (stream_of NM olog) as [[evs last] fin] eqn:Es.
    rewrite (period_is_filter_report NM (mk d') _ _ toks bt et olog olog' evs last fin _ Es Hr). reflexivity.
  Qed.

  (** quantity, csv log, print: only the log is walked, the period comes from the options *)
  Theorem period_is_filter_run_log : forall w w' op R olog olog',
    same_but_files w w' ->
    open_all w [op_log op] = Some [olog] ->
    open_all w' [op_log op] = Some [olog'] ->
    (forall toks, tokenize (op_fmt op) = Some toks -> log_restricted NM toks (op_begin op) (op_end op) olog olog') ->
    run_log NM w op R = run_log NM w' (without_period op) R.
  Proof.
    intros w w' op R olog olog' [Hor Hsink] Ho Ho' Hr. unfold run_log.
    change (op_log (without_period op)) with (op_log op). change (op_fmt (without_period op)) with (op_fmt op).
    change (op_begin (without_period op)) with (@None time). change (op_end (without_period op)) with (@None time).
    rewrite Ho, Ho'. unfold new_writer. rewrite <- Hor, <- Hsink.
    destruct (tokenize (op_fmt op)) as [toks|] eqn:Et; [|reflexivity].
    specialize (Hr toks eq_refl). unfold log_restricted in Hr.
    destruct (stream_of NM olog) as [[evs last] fin] eqn:Es.
    rewrite (period_is_filter_report NM R _ _ toks _ _ olog olog' evs last fin _ Es Hr). reflexivity.
  Qed.

  (** [summary today] under --today s: in EVERY process zone (any offset whatsoever, no bound) and
      whatever the wall clock says, the run is the walk over the window of the calendar day D that
      [s] denotes, and that window selects exactly the records dated D.  (Since fix 4fa5d57 the
      keyword [today] is the date as given; it used to be converted to the local zone.) *)
  Theorem summary_today_exact_any_zone : forall w tz clock i s op,
    i_f_today i = Some s -> i_cmd i = CSummary (b "today") -> load (with_zone w tz clock) i = inr op ->
    exists D, parse_date (rc_date (op_rc op)) s = Some D /\ valid_civil D /\
      let bt := Some (summary_begin (time_of_civil D)) in
      let et := Some (summary_end (time_of_civil D)) in
      run NM (with_zone w tz clock) i = run_db_log NM w op (rep_summary NM (op_rc op)) bt et /\
      (forall d, valid_civil d -> (in_interval bt et (time_of_civil d) = true <-> d = D)) /\
      (forall (n : pnode NM) c, parse_date (rc_date (op_rc op)) (header n) = Some c ->
                                (sel NM (rc_date (op_rc op)) bt et n = true <-> c = D)).
  Proof.
    intros w tz clock i s op Hs Hcmd Hload.
    pose proof (load_period _ _ _ Hload) as (_ & _ & _ & Htoday). rewrite Hs in Htoday.
    destruct Htoday as [D [Hp Hnow]]. exists D.
    assert (HD : valid_civil D) by (eapply parse_date_valid; exact Hp).
    split; [exact Hp|]. split; [exact HD|]. cbv zeta. split; [|split].
    - unfold run. rewrite Hload, Hcmd, tfs_today, Hnow. reflexivity.
    - intros d Hd. apply summary_date_selects_calendar_day; assumption.
    - intros n c Hc. unfold sel. rewrite Hc.
      apply summary_date_selects_calendar_day; [exact HD|eapply parse_date_valid; exact Hc].
  Qed.

  (** the same on the process zone alone (the clock of the world as it is) *)
  Corollary summary_today_exact_any_tz : forall w tz i s op,
    i_f_today i = Some s -> i_cmd i = CSummary (b "today") -> load (with_tz w tz) i = inr op ->
    exists D, parse_date (rc_date (op_rc op)) s = Some D /\ valid_civil D /\
      let bt := Some (summary_begin (time_of_civil D)) in
      let et := Some (summary_end (time_of_civil D)) in
      run NM (with_tz w tz) i = run_db_log NM w op (rep_summary NM (op_rc op)) bt et /\
      (forall d, valid_civil d -> (in_interval bt et (time_of_civil d) = true <-> d = D)) /\
      (forall (n : pnode NM) c, parse_date (rc_date (op_rc op)) (header n) = Some c ->
                                (sel NM (rc_date (op_rc op)) bt et n = true <-> c = D)).
  Proof. intros w tz. exact (summary_today_exact_any_zone w tz (w_clock w)). Qed.
End Run.

(** *** non-vacuity, and the finding, on a concrete world (exact integers) *)
Definition lf : string := String (Ascii.ascii_of_nat 10) EmptyString.
Definition ex_log3 : bytes :=
  b ("2021/03/15:" ++ lf ++ "  pear: 2" ++ lf ++ "2021/03/13:" ++ lf ++ "  plum: 5" ++ lf ++
     "2021/03/14:" ++ lf ++ "  apple: 1" ++ lf ++ "2021/03/14:" ++ lf ++ "  fig: 3" ++ lf).
Definition ex_log3_only14 : bytes :=
  b ("2021/03/14:" ++ lf ++ "  apple: 1" ++ lf ++ "2021/03/14:" ++ lf ++ "  fig: 3" ++ lf).

(** wall clock: 2021-03-14 15:00 UTC *)
Definition ex_world_log (log : bytes) : world :=
  {| w_fs := [(b "log.yaml", FFile log)]; w_default_config := b "/home/u/.hranoprovod/config"; w_tz := 0;
     w_clock := {| inst := days_from_civil 2021 3 14 * ns_per_day + 15 * 3600 * ns_per_sec; off := 0; civ := (2021, 3, 14) |};
     w_or := {| o_resolve := fun l => l; o_day := fun _ l => l; o_flush := fun l => l |};
     w_sink := None; w_read_fault := [] |}.

Definition ex_inv (today g_begin g_end l_begin l_end : option bytes) (c : command) : invocation := {|
  i_f_db := None; i_e_db := None; i_f_log := None; i_e_log := None; i_f_fmt := None; i_e_fmt := None;
  i_f_depth := None; i_e_depth := None; i_f_today := today; i_f_config := None; i_e_config := None;
  i_no_database := true; i_g_begin := g_begin; i_g_end := g_end; i_l_begin := l_begin; i_l_end := l_end;
  i_g_no_color := true; i_l_no_color := false; i_single_food := []; i_single_element := [];
  i_group_food := false; i_csv := false; i_no_totals := false; i_totals_only := false;
  i_shorten := false; i_old := false; i_template := None; i_collapse := false; i_collapse_last := false;
  i_desc := false; i_silent := false; i_cmd := c |}.

(** the event-level theorem is exercised: four records, all headings parse, two are kept *)
Example headings_parse_ex : headings_parse ZNum ex_toks (events ZNum ex_log3).
Proof.
  apply headings_parse_b_ok. vm_compute. reflexivity.
Qed.
Example filter_removes_ex :
  let bt := Some (time_of_civil (2021, 3, 14)) in
  length (events ZNum ex_log3) = 4%nat /\
  length (filter (keep_ev ZNum ex_toks bt bt) (events ZNum ex_log3)) = 2%nat.
Proof. vm_compute. split; reflexivity. Qed.

(** days out of order and repeated; the global period is overridden by the sub-command's;
    the output is that of the reduced file without a period, and it is not empty *)
Example period_is_filter_reg :
  run ZNum (ex_world_log ex_log3)
      (ex_inv None (Some (b "2021/03/01")) None (Some (b "2021/03/14")) (Some (b "2021/03/14")) CReg)
  = run ZNum (ex_world_log ex_log3_only14) (ex_inv None None None None None CReg)
  /\ out_stdout (run ZNum (ex_world_log ex_log3_only14) (ex_inv None None None None None CReg)) <> []
  /\ run ZNum (ex_world_log ex_log3) (ex_inv None None None None None CReg)
     <> run ZNum (ex_world_log ex_log3_only14) (ex_inv None None None None None CReg).
Proof. vm_compute. repeat split; discriminate. Qed.

Example period_keywords_print :
  run ZNum (ex_world_log ex_log3)
      (ex_inv (Some (b "2021/03/15")) None None (Some (b "yesterday")) (Some (b "yesterday")) CPrint)
  = run ZNum (ex_world_log ex_log3_only14) (ex_inv None None None None None CPrint).
Proof. vm_compute. reflexivity. Qed.

Example summary_date_selects_day :
  run ZNum (ex_world_log ex_log3) (ex_inv None None None None None (CSummary (b "2021/03/14")))
  = run ZNum (ex_world_log ex_log3_only14) (ex_inv None None None None None (CSummary (b "2021/03/14"))).
Proof. vm_compute. reflexivity. Qed.

(** with --today, [summary today] is the same in zones +14h and -12h (instance of [tz_independent]) *)
Example summary_today_zones :
  run ZNum (with_tz (ex_world_log ex_log3) 50400) (ex_inv (Some (b "2021/03/14")) None None None None (CSummary (b "today")))
  = run ZNum (with_tz (ex_world_log ex_log3) (-43200)) (ex_inv (Some (b "2021/03/14")) None None None None (CSummary (b "today")))
  /\ out_stdout (run ZNum (with_tz (ex_world_log ex_log3) 50400)
                     (ex_inv (Some (b "2021/03/14")) None None None None (CSummary (b "today")))) <> [].
Proof. vm_compute. split; [reflexivity|discriminate]. Qed.

(** the wall clock of [ex_world_log] (2021-03-14 15:00 UTC) as read in a zone at [tz] seconds east
    where the date is [c] *)
Definition ex_clock_in (tz : Z) (c : Z * Z * Z) : time :=
  {| inst := days_from_civil 2021 3 14 * ns_per_day + 15 * 3600 * ns_per_sec; off := tz; civ := c |}.

(** instance of [summary_today_exact_any_zone] with a large offset: --today 2021/03/14, process zone
    and clock at +10^9 s (and at -40h): [summary today] prints exactly the two records dated 2021/03/14,
    i.e. what [summary 2021/03/14] prints for the log reduced to that day *)
Example summary_today_far_zone :
  run ZNum (with_zone (ex_world_log ex_log3) 1000000000 (ex_clock_in 1000000000 (2052, 11, 20)))
      (ex_inv (Some (b "2021/03/14")) None None None None (CSummary (b "today")))
  = run ZNum (ex_world_log ex_log3_only14) (ex_inv None None None None None (CSummary (b "2021/03/14")))
  /\ run ZNum (with_zone (ex_world_log ex_log3) (-144000) (ex_clock_in (-144000) (2021, 3, 12)))
      (ex_inv (Some (b "2021/03/14")) None None None None (CSummary (b "today")))
  = run ZNum (ex_world_log ex_log3_only14) (ex_inv None None None None None (CSummary (b "2021/03/14")))
  /\ out_stdout (run ZNum (ex_world_log ex_log3_only14) (ex_inv None None None None None (CSummary (b "2021/03/14")))) <> []
  /\ run ZNum (ex_world_log ex_log3) (ex_inv None None None None None (CSummary (b "2021/03/15")))
     <> run ZNum (ex_world_log ex_log3_only14) (ex_inv None None None None None (CSummary (b "2021/03/14"))).
Proof. vm_compute. repeat split; try reflexivity; discriminate. Qed.

(** the hypotheses of [summary_today_exact_any_zone] are met there: the options load, D = 2021/03/14 *)
Example summary_today_far_zone_loads :
  exists op, load (with_zone (ex_world_log ex_log3) 1000000000 (ex_clock_in 1000000000 (2052, 11, 20)))
                  (ex_inv (Some (b "2021/03/14")) None None None None (CSummary (b "today"))) = inr op
             /\ parse_date (rc_date (op_rc op)) (b "2021/03/14") = Some (2021, 3, 14).
Proof. eexists. split; vm_compute; reflexivity. Qed.

(** Without --today the zone matters, but (fix F25) ONLY through the calendar day the wall clock shows in it
    ([PeriodTz.run_depends_on_clock_day_only]: equal days, equal runs).  The hypothesis [i_f_today i = Some s] of
    [tz_independent_clock] still cannot be dropped: the same instant read in two real zones in which it
    falls on two different days gives two different reports -- as it must: "today" is a local notion.
    (Before the fix the INSTANT entered: the same instant on the same calendar day, read at UTC and at
    UTC-5, gave two different reports, the second one of the record dated tomorrow.) *)
Theorem tz_independent_without_today_refuted :
  exists w i tz1 tz2 c1 c2, tz_ok tz1 /\ tz_ok tz2 /\ off c1 = tz1 /\ off c2 = tz2 /\ inst c1 = inst c2 /\
                            i_f_today i = None /\
                            run ZNum (with_zone w tz1 c1) i <> run ZNum (with_zone w tz2 c2) i.
Proof.
  (* 2021-03-14 15:00 UTC is 2021-03-15 01:00 at UTC+10 *)
  exists (ex_world_log ex_log3), (ex_inv None None None None None (CSummary (b "today"))), 0, 36000,
         (ex_clock_in 0 (2021, 3, 14)), (ex_clock_in 36000 (2021, 3, 15)).
  unfold tz_ok. repeat split; try lia. vm_compute. discriminate.
Qed.

(** at UTC-5 at 10:00 local time on 2021-03-14 [summary today] prints the records dated 2021/03/14
    (before fix F25: the record dated 2021/03/15) ... *)
Example summary_today_minus5_prints_today :
  run ZNum (with_zone (ex_world_log ex_log3) (-18000) (ex_clock_in (-18000) (2021, 3, 14)))
      (ex_inv None None None None None (CSummary (b "today")))
  = run ZNum (ex_world_log ex_log3) (ex_inv None None None None None (CSummary (b "2021/03/14"))).
Proof. vm_compute. reflexivity. Qed.

(** ... as at UTC (the clock of [ex_world_log]) ... *)
Example summary_today_utc_prints_today :
  run ZNum (ex_world_log ex_log3) (ex_inv None None None None None (CSummary (b "today")))
  = run ZNum (ex_world_log ex_log3) (ex_inv None None None None None (CSummary (b "2021/03/14"))).
Proof. vm_compute. reflexivity. Qed.

(** ... and as with --today 2021/03/14 (instance of [Settings.clock_day_as_today]); at UTC+10, where the same
    instant is 01:00 on 2021-03-15, it prints the record dated 2021/03/15 *)
Example summary_today_clock_as_today_flag :
  run ZNum (with_zone (ex_world_log ex_log3) (-18000) (ex_clock_in (-18000) (2021, 3, 14)))
      (ex_inv None None None None None (CSummary (b "today")))
  = run ZNum (with_zone (ex_world_log ex_log3) (-18000) (ex_clock_in (-18000) (2021, 3, 14)))
      (ex_inv (Some (b "2021/03/14")) None None None None (CSummary (b "today")))
  /\ run ZNum (with_zone (ex_world_log ex_log3) 36000 (ex_clock_in 36000 (2021, 3, 15)))
      (ex_inv None None None None None (CSummary (b "today")))
  = run ZNum (ex_world_log ex_log3) (ex_inv None None None None None (CSummary (b "2021/03/15"))).
Proof. vm_compute. split; reflexivity. Qed.

(** *** why "the same file with the other days deleted" is stated on parser events
    Read literally on the bytes of the file, the sentence is false in three situations, all
    because the walk meets problems BEFORE (or regardless of) consulting the period. *)
Definition ex_period : option bytes := Some (b "2021/03/14").

(** 1. a syntax error inside a day that the period excludes still fails the command *)
Definition ex_logA : bytes := b ("2021/03/13:" ++ lf ++ "  plum" ++ lf ++ "2021/03/14:" ++ lf ++ "  apple: 1" ++ lf).
Definition ex_logA' : bytes := b ("2021/03/14:" ++ lf ++ "  apple: 1" ++ lf).
Example literal_deletion_refuted_error_in_excluded_day :
  out_status (run ZNum (ex_world_log ex_logA) (ex_inv None ex_period ex_period None None CReg))
    = Failed (EParse (b "bad syntax on line 2, ""  plum"".")) /\
  out_status (run ZNum (ex_world_log ex_logA') (ex_inv None None None None None CReg)) = Ok.
Proof. vm_compute. split; reflexivity. Qed.

(** 2. deleting lines renumbers the lines quoted in later error messages *)
Definition ex_logB : bytes := b ("2021/03/13:" ++ lf ++ "  plum: 5" ++ lf ++ "2021/03/14:" ++ lf ++ "  apple" ++ lf).
Definition ex_logB' : bytes := b ("2021/03/14:" ++ lf ++ "  apple" ++ lf).
Example literal_deletion_refuted_line_numbers :
  out_status (run ZNum (ex_world_log ex_logB) (ex_inv None ex_period ex_period None None CReg))
    = Failed (EParse (b "bad syntax on line 4, ""  apple"".")) /\
  out_status (run ZNum (ex_world_log ex_logB') (ex_inv None None None None None CReg))
    = Failed (EParse (b "bad syntax on line 2, ""  apple"".")).
Proof. vm_compute. split; reflexivity. Qed.

(** 3. a heading that is not a date is an error whatever the period: the hypothesis
    [headings_parse] of [period_is_filter_strict] cannot be dropped *)
Definition ex_logC : bytes := b ("banana:" ++ lf ++ "  plum: 5" ++ lf ++ "2021/03/14:" ++ lf ++ "  apple: 1" ++ lf).
Example literal_deletion_refuted_bad_heading :
  out_status (run ZNum (ex_world_log ex_logC) (ex_inv None ex_period ex_period None None CReg)) = Failed EBadDate /\
  out_status (run ZNum (ex_world_log ex_logA') (ex_inv None None None None None CReg)) = Ok.
Proof. vm_compute. split; reflexivity. Qed.

Theorem period_is_filter_strict_without_hypothesis_refuted :
  exists (R : reporter ZNum) pd toks bt et evs st,
    drive_loop ZNum (walk_cb ZNum R pd toks bt et) evs st <>
    drive_loop ZNum (walk_cb ZNum R pd toks None None) (filter (keep_ev_strict ZNum toks bt et) evs) st.
Proof.
  exists (rep_csv_log ZNum), (fun _ l => l), ex_toks,
         (Some (time_of_civil (2021, 3, 14))), (Some (time_of_civil (2021, 3, 14))),
         (events ZNum ex_logC), (r_init ZNum (rep_csv_log ZNum), O, new_writer (ex_world_log [])).
  vm_compute. discriminate.
Qed.
