(** WP23, part A (axiom-free) -- the two-decimal rendering of a binary64 value is
    stable under read-back.

    [x] canonical, [D] the integer [%.2f] prints for it ([|D/100 - x| <= 0.005]),
    [y] = [parse_float] of the printed text = the correctly rounded binary64 of
    [D/100] ([binary_round_aux_spec] of Proofs/FloatFmtRound.v gives the error
    bound [|y - D/100| <= ulp/2] in integer arithmetic):
    - [D = 0]: the text is "0.00" / "-0.00", read back as the signed zero, printed the same;
    - [D < 100 * 2^46] ([round_scaled_small]): the unit of [y] is at most [2^-7], so
      [|100 y - D| <= 50 * 2^-7 < 1/2] STRICTLY: [%.2f] of [y] prints [D] again
      (no tie possible).  This case does not mention [x] at all.
    - [100 * 2^46 <= D] ([round_scaled_large]): then [x >= 2^46 - 0.005], its unit is
      at least [2^-6], its binary64 neighbours are at least 0.0156 away while
      [|D/100 - x| <= 0.005]: the nearest binary64 of [D/100] is [x] itself, [y = x].
    No Flocq, no reals, no axioms. *)
From Coq Require Import ZArith Lia ZifyBool List Floats.SpecFloat.
From HP Require Import Base.Bytes Base.Num Base.GoFloat Spec.PrintSpec Spec.PrintOnSpec.
From HP Require Import Proofs.CsvFixed Proofs.FloatCanon Proofs.FloatExact Proofs.FloatValid
     Proofs.FloatFmtRound Proofs.FloatFmtText.
Import ListNotations.
Open Scope Z_scope.

(** * arithmetic helpers *)

Lemma abs_scale : forall X P c, 0 < P -> 2 * Z.abs (X * P) <= c * P -> 2 * Z.abs X <= c.
Proof. intros X P c HP H. rewrite Z.abs_mul in H. rewrite (Z.abs_eq P) in H by lia. nia. Qed.

Lemma abs_scale_lt : forall X P c, 0 < P -> 2 * Z.abs (X * P) < c * P -> 2 * Z.abs X < c.
Proof. intros X P c HP H. rewrite Z.abs_mul in H. rewrite (Z.abs_eq P) in H by lia. nia. Qed.

(** [round_half_even_div] returns the integer that is strictly within 1/2 *)
Lemma rhe_unique_strict : forall num den D, 0 < den ->
  2 * Z.abs (D * den - num) < den -> round_half_even_div num den = D.
Proof.
  intros num den D Hden H. destruct (round_half_even_div_spec num den Hden) as (R & _ & _).
  set (q := round_half_even_div num den) in *. clearbody q.
  assert (Hd : 2 * Z.abs ((q - D) * den) < 2 * den).
  { replace ((q - D) * den) with ((q * den - num) - (D * den - num)) by ring. lia. }
  replace (2 * den) with (2 * den) in Hd by reflexivity.
  assert (Hq : 2 * Z.abs (q - D) < 2) by (apply (abs_scale_lt _ den 2 Hden); lia). lia.
Qed.

Lemma pow2_split : forall a c, 0 <= a -> 0 <= c -> 2 ^ (a + c) = 2 ^ a * 2 ^ c.
Proof. intros a c Ha Hc. apply Z.pow_add_r; assumption. Qed.

Lemma pow2_pos : forall a, 0 <= a -> 0 < 2 ^ a.
Proof. intros a Ha. apply Z.pow_pos_nonneg; lia. Qed.

(** * what [parse_float] does with the two-decimal text of [D > 0] *)

(** [round_scaled s D (-2) 0] is [binary_round_aux] on [q = D * 2^sh / 100] *)
Lemma round_scaled_m2 : forall (s : bool) (d : positive), exists sh q r : Z,
  round_scaled s d (-2) 0 = binary_round_aux prec emax s q (- sh) (loc_of_frac r 100) /\
  0 <= sh <= 76 /\ Zpos d * 2 ^ sh = q * 100 + r /\ 0 <= r < 100 /\ 2 ^ 69 <= q /\ enough_bits q (- sh).
Proof.
  intros s d. pose proof (round_scaled_exact_neg s d (-2) 0 ltac:(lia)) as H. cbv zeta in H.
  change (10 ^ (- -2)) with 100 in H. change (Z.log2 100) with 6 in H.
  set (sh := Z.max 0 (70 + 6 - Z.log2 (Zpos d))) in *.
  set (q := Zpos d * 2 ^ sh / 100) in *. set (r := (Zpos d * 2 ^ sh) mod 100) in *.
  destruct H as (H1 & H2 & _ & H4 & H5 & H6).
  exists sh, q, r. replace (0 - sh) with (- sh) in H1 by lia.
  split; [exact H1|]. split.
  { pose proof (Z.log2_nonneg (Zpos d)). unfold sh. lia. }
  split; [exact H4|]. split; [exact H5|]. split; [exact H6|].
  unfold enough_bits. destruct q as [|qp|qp] eqn:Eq; try lia. cbn [Zdigits2].
  pose proof (digits2_pos_ge qp 69 ltac:(lia) H6) as Hd. rewrite fexp64_eq. lia.
Qed.

(** the rounded integer [m2] at exponent [e1]: within half a unit of [D/100] *)
Lemma round_scaled_spec2 : forall (s : bool) (d : positive), exists sh q r m2 : Z,
  0 <= sh <= 76 /\ Zpos d * 2 ^ sh = q * 100 + r /\ 0 <= r < 100 /\ 2 ^ 69 <= q /\
  let e1 := fexp64 (Zdigits2 q - sh) in
  0 <= e1 + sh /\
  2 * Z.abs (m2 * (2 ^ (e1 + sh) * 100) - Zpos d * 2 ^ sh) <= 2 ^ (e1 + sh) * 100 /\
  (m2 = q / 2 ^ (e1 + sh) \/ m2 = q / 2 ^ (e1 + sh) + 1) /\
  packs s m2 e1 (round_scaled s d (-2) 0).
Proof.
  intros s d. destruct (round_scaled_m2 s d) as (sh & q & r & E & Hsh & Hq & Hr & Hq69 & Hb).
  assert (Hq0 : 0 < q) by (assert (0 < 2 ^ 69) by (apply pow2_pos; lia); lia).
  destruct (binary_round_aux_spec s q (- sh) r 100 Hq0 Hb Hr) as (m2 & B1 & _ & B3 & B4).
  exists sh, q, r, m2. split; [exact Hsh|]. split; [exact Hq|]. split; [exact Hr|]. split; [exact Hq69|].
  cbv zeta. replace (Zdigits2 q + - sh) with (Zdigits2 q - sh) in * by lia.
  set (e1 := fexp64 (Zdigits2 q - sh)) in *. replace (e1 - - sh) with (e1 + sh) in * by lia.
  split; [unfold enough_bits in Hb; replace (Zdigits2 q + - sh) with (Zdigits2 q - sh) in Hb by lia; fold e1 in Hb; lia|].
  rewrite Hq. split; [exact B1|]. split; [exact B3|]. rewrite E. exact B4.
Qed.

(** the value of a finite [packs] *)
Lemma packs_finite : forall s m2 e1 z, 0 < m2 -> fexp64 (Zdigits2 m2 + e1) <= emax - prec ->
  packs s m2 e1 z ->
  exists m3 e2, z = S754_finite s m3 e2 /\ bounded prec emax m3 e2 = true /\
                e1 <= e2 <= e1 + 1 /\ Zpos m3 * 2 ^ (e2 - e1) = m2 /\ e2 = fexp64 (Zdigits2 m2 + e1).
Proof.
  intros s m2 e1 z Hm2 He [[H0 _]|[_ (m3 & e2 & He2 & Hr & Hm & [(Hle & Hz & Hb)|(Hgt & _)])]]; [lia| |lia].
  exists m3, e2. auto.
Qed.

(** ** the small case: [D < 100 * 2^46] *)
Theorem round_scaled_small : forall (s : bool) (d : positive),
  Zpos d < 100 * 2 ^ 46 ->
  exists m3 e2, round_scaled s d (-2) 0 = S754_finite s m3 e2 /\
                bounded prec emax m3 e2 = true /\
                format_fixed 2 (S754_finite s m3 e2) = fixed_of_scaled s 2 (Zpos d).
Proof.
  intros s d Hd. destruct (round_scaled_spec2 s d) as (sh & q & r & m2 & Hsh & Hq & Hr & Hq69 & H).
  cbv zeta in H. set (dq := Zdigits2 q) in *. set (e1 := fexp64 (dq - sh)) in *.
  destruct H as (Hn & B1 & B3 & Hp).
  assert (Hq0 : 0 < q) by (assert (0 < 2 ^ 69) by (apply pow2_pos; lia); lia).
  destruct (dg_bounds q Hq0) as [Dl Du]. fold dq in Dl, Du.
  assert (S0 : 0 < 2 ^ sh) by (apply pow2_pos; lia).
  (* 70 <= dq <= 46 + sh *)
  assert (Hdq1 : 70 <= dq).
  { destruct (Z_lt_le_dec dq 70) as [L|L]; [|exact L]. exfalso.
    assert (2 ^ dq <= 2 ^ 69) by (apply Z.pow_le_mono_r; lia). lia. }
  assert (Hdq2 : dq <= 46 + sh).
  { destruct (Z_lt_le_dec (46 + sh) dq) as [L|L]; [|exact L]. exfalso.
    assert (H1 : 2 ^ (46 + sh) <= 2 ^ (dq - 1)) by (apply Z.pow_le_mono_r; lia).
    rewrite pow2_split in H1 by lia.
    assert (H2 : Zpos d * 2 ^ sh <= (100 * 2 ^ 46 - 1) * 2 ^ sh) by (apply Z.mul_le_mono_nonneg_r; lia).
    lia. }
  assert (He1 : e1 = dq - sh - 53) by (unfold e1; rewrite fexp64_eq; lia).
  set (n := e1 + sh) in *. assert (En : n = dq - 53) by lia.
  set (a := - e1). assert (Ha : 7 <= a) by (unfold a; lia).
  assert (Esh : sh = n + a) by (unfold a, n; lia).
  assert (P0 : 0 < 2 ^ n) by (apply pow2_pos; lia).
  assert (A0 : 2 ^ 7 <= 2 ^ a) by (apply Z.pow_le_mono_r; lia).
  (* m2 is positive *)
  assert (Hm2 : 0 < m2).
  { assert (H1 : 2 ^ 52 <= q / 2 ^ n).
    { apply Z.div_le_lower_bound; [exact P0|]. rewrite <- pow2_split by lia.
      replace (n + 52) with (dq - 1) by lia. exact Dl. }
    assert (0 < 2 ^ 52) by (apply pow2_pos; lia). lia. }
  (* 2 |100 m2 - D 2^a| <= 100 *)
  assert (Hc : 2 * Z.abs (m2 * 100 - Zpos d * 2 ^ a) <= 100).
  { apply (abs_scale _ (2 ^ n) 100 P0).
    replace ((m2 * 100 - Zpos d * 2 ^ a) * 2 ^ n) with (m2 * (2 ^ n * 100) - Zpos d * (2 ^ n * 2 ^ a)) by ring.
    rewrite <- pow2_split by lia. rewrite <- Esh. lia. }
  assert (Hfe : fexp64 (Zdigits2 m2 + e1) <= emax - prec).
  { destruct Hp as [[H0 _]|[_ (m3 & e2 & He2 & Hr2 & _)]]; [lia|]. rewrite <- He2. unfold emax, prec. lia. }
  destruct (packs_finite s m2 e1 _ Hm2 Hfe Hp) as (m3 & e2 & Ez & Hb & Hr2 & Hm3 & _).
  exists m3, e2. split; [exact Ez|]. split; [exact Hb|].
  (* the printed integer of y is D *)
  assert (He2 : e2 < 0) by lia.
  cbn [format_fixed]. replace (0 <=? e2) with false by lia. cbv zeta. f_equal.
  change (10 ^ Z.of_nat 2) with 100.
  assert (D2 : 0 < 2 ^ (- e2)) by (apply pow2_pos; lia).
  apply rhe_unique_strict; [exact D2|].
  assert (Hk : e2 = e1 \/ e2 = e1 + 1) by lia. destruct Hk as [Hk|Hk].
  - rewrite Hk in *. replace (e1 - e1) with 0 in Hm3 by lia. rewrite Z.pow_0_r in Hm3.
    replace (- e1) with a by reflexivity. rewrite <- Hm3 in Hc. lia.
  - rewrite Hk in *. replace (e1 + 1 - e1) with 1 in Hm3 by lia. change (2 ^ 1) with 2 in Hm3.
    assert (Ea : 2 ^ a = 2 * 2 ^ (- (e1 + 1))).
    { replace a with (1 + - (e1 + 1)) by (unfold a; lia). rewrite pow2_split by lia. reflexivity. }
    rewrite Ea in Hc, A0. rewrite <- Hm3 in Hc. change (2 ^ 7) with 128 in A0.
    set (W := 2 ^ (- (e1 + 1))) in *.
    replace (Zpos m3 * 2 * 100 - Zpos d * (2 * W)) with ((Zpos m3 * 100 - Zpos d * W) * 2) in Hc by ring.
    assert (Hc' : 2 * Z.abs (Zpos m3 * 100 - Zpos d * W) <= 50).
    { apply (abs_scale _ 2 50); lia. }
    replace (Zpos d * W - Zpos m3 * 100) with (- (Zpos m3 * 100 - Zpos d * W)) by ring. rewrite Z.abs_opp. lia.
Qed.

(** ** the large case: [100 * 2^46 <= D], the value read back is [x] itself *)

(** a canonical finite value re-packed from its own mantissa and exponent *)
Lemma packs_canonical : forall s m e z,
  bounded prec emax m e = true -> packs s (Zpos m) e z -> z = S754_finite s m e.
Proof.
  intros s m e z Hb Hp. destruct (bounded_inv m e Hb) as [Hf He].
  change (Zpos (digits2_pos m)) with (Zdigits2 (Zpos m)) in Hf.
  assert (Hfe : fexp64 (Zdigits2 (Zpos m) + e) <= emax - prec) by (rewrite Hf; exact He).
  destruct (packs_finite s (Zpos m) e z ltac:(lia) Hfe Hp) as (m3 & e2 & Ez & _ & _ & Hm3 & He2).
  rewrite Hf in He2. subst e2. replace (e - e) with 0 in Hm3 by lia. rewrite Z.pow_0_r in Hm3.
  assert (E : m3 = m) by lia. subst m3. exact Ez.
Qed.

Lemma k_cases : forall k, 1 <= k <= 6 -> k = 1 \/ k = 2 \/ k = 3 \/ k = 4 \/ k = 5 \/ k = 6.
Proof. intros k H. lia. Qed.

(** [x = m * 2^-k], [1 <= k <= 6], [D] its printed integer: [D/100] lies in the binade of [x] *)
Lemma large_q_bounds : forall k K C m D S q r : Z,
  1 <= k <= 6 -> K = 2 ^ k -> C = 2 ^ (52 - k) ->
  2 ^ 52 <= m < 2 ^ 53 -> 2 * Z.abs (D * K - m * 100) <= K ->
  0 < S -> D * S = q * 100 + r -> 0 <= r < 100 ->
  C * S <= q < 2 * C * S.
Proof.
  intros k K C m D S q r Hk EK EC Hm HD HS Hq Hr.
  assert (HDb : 100 * C <= D <= 200 * C - 1).
  { destruct (k_cases k Hk) as [E|[E|[E|[E|[E|E]]]]]; subst k; vm_compute in EK, EC; subst K C; lia. }
  assert (H1 : 100 * C * S <= D * S) by (apply Z.mul_le_mono_nonneg_r; lia).
  assert (H2 : D * S <= (200 * C - 1) * S) by (apply Z.mul_le_mono_nonneg_r; lia).
  replace (100 * C * S) with (100 * (C * S)) in H1 by ring.
  replace ((200 * C - 1) * S) with (200 * (C * S) - S) in H2 by ring.
  set (CS := C * S) in *. replace (2 * C * S) with (2 * CS) by (unfold CS; ring). lia.
Qed.

Lemma large_m2 : forall k K m D P m2 : Z,
  1 <= k <= 6 -> K = 2 ^ k ->
  2 * Z.abs (D * K - m * 100) <= K -> 0 < P ->
  2 * Z.abs (m2 * (P * 100) - D * (P * K)) <= P * 100 -> m2 = m.
Proof.
  intros k K m D P m2 Hk EK HD HP Hm.
  replace (m2 * (P * 100) - D * (P * K)) with ((m2 * 100 - D * K) * P) in Hm by ring.
  rewrite (Z.mul_comm P 100) in Hm. apply (abs_scale _ P 100 HP) in Hm.
  destruct (k_cases k Hk) as [E|[E|[E|[E|[E|E]]]]]; subst k; vm_compute in EK; subst K; lia.
Qed.

Theorem round_scaled_large : forall (s : bool) (m : positive) (e : Z) (d : positive),
  bounded prec emax m e = true -> printed_scaled 2 m e = Zpos d -> 100 * 2 ^ 46 <= Zpos d ->
  round_scaled s d (-2) 0 = S754_finite s m e.
Proof.
  intros s m e d Hb HD Hbig. destruct (bounded_inv m e Hb) as [Hf He].
  destruct (digits2_pos_bounds m) as [Ml Mu]. set (dm := Zpos (digits2_pos m)) in *.
  assert (Hdm0 : 1 <= dm) by (unfold dm; lia).
  rewrite fexp64_eq in Hf.
  assert (Mu53 : Zpos m < 2 ^ 53).
  { assert (2 ^ dm <= 2 ^ 53) by (apply Z.pow_le_mono_r; lia). lia. }
  destruct (round_scaled_spec2 s d) as (sh & q & r & m2 & Hsh & Hq & Hr & Hq69 & H).
  cbv zeta in H. set (dq := Zdigits2 q) in *. set (e1 := fexp64 (dq - sh)) in *.
  destruct H as (Hn & B1 & _ & Hp).
  assert (Hq0 : 0 < q) by (assert (0 < 2 ^ 69) by (apply pow2_pos; lia); lia).
  assert (S0 : 0 < 2 ^ sh) by (apply pow2_pos; lia).
  apply packs_canonical; [exact Hb|].
  unfold printed_scaled in HD. change (10 ^ Z.of_nat 2) with 100 in HD.
  destruct (Z.leb_spec 0 e) as [Le|Le].
  - (* integers: D = 100 x exactly *)
    assert (Edm : dm = 53) by lia. rewrite Edm in Ml. change (2 ^ (53 - 1)) with (2 ^ 52) in Ml.
    assert (E0 : 0 < 2 ^ e) by (apply pow2_pos; lia).
    set (E := 2 ^ e * 2 ^ sh). assert (EE : 0 < E) by (unfold E; nia).
    assert (HY : Zpos d * 2 ^ sh = Zpos m * E * 100) by (rewrite <- HD; unfold E; ring).
    assert (Eq : q = Zpos m * E) by lia.
    assert (Edq : dq = 53 + e + sh).
    { apply dg_unique; [exact Hq0|]. replace (53 + e + sh - 1) with (52 + (e + sh)) by lia.
      replace (53 + e + sh) with (53 + (e + sh)) by lia. rewrite !pow2_split by lia.
      fold E. rewrite Eq.
      split; [apply Z.mul_le_mono_nonneg_r; lia|apply Z.mul_lt_mono_pos_r; lia]. }
    assert (Ee1 : e1 = e) by (unfold e1; rewrite fexp64_eq; lia).
    rewrite Ee1 in *. rewrite pow2_split in B1 by lia. fold E in B1. rewrite HY in B1.
    replace (m2 * (E * 100) - Zpos m * E * 100) with ((m2 - Zpos m) * (E * 100)) in B1 by ring.
    replace (E * 100) with (1 * (E * 100)) in B1 at 2 by ring.
    apply abs_scale in B1; [|lia]. assert (Em2 : m2 = Zpos m) by lia. rewrite <- Em2. exact Hp.
  - (* a fraction with unit 2^-k, k <= 6 *)
    set (k := - e) in *. assert (Hk0 : 1 <= k) by (unfold k; lia).
    assert (K0 : 0 < 2 ^ k) by (apply pow2_pos; lia).
    destruct (round_half_even_div_spec (Zpos m * 100) (2 ^ k) K0) as (R1 & _ & _). rewrite HD in R1.
    assert (Hk6 : k <= 6).
    { destruct (Z_lt_le_dec 6 k) as [L|L]; [|exact L]. exfalso.
      assert (H128 : 2 ^ 7 <= 2 ^ k) by (apply Z.pow_le_mono_r; lia). change (2 ^ 7) with 128 in H128.
      assert (H1 : 100 * 2 ^ 46 * 2 ^ k <= Zpos d * 2 ^ k) by (apply Z.mul_le_mono_nonneg_r; lia).
      set (K := 2 ^ k) in *. lia. }
    assert (Edm : dm = 53) by lia. rewrite Edm in Ml. change (2 ^ (53 - 1)) with (2 ^ 52) in Ml.
    assert (Hm : 2 ^ 52 <= Zpos m < 2 ^ 53) by lia.
    pose proof (large_q_bounds k (2 ^ k) (2 ^ (52 - k)) (Zpos m) (Zpos d) (2 ^ sh) q r
                  ltac:(lia) eq_refl eq_refl Hm R1 S0 Hq Hr) as Hqb.
    assert (Edq : dq = 53 - k + sh).
    { apply dg_unique; [exact Hq0|]. replace (53 - k + sh - 1) with ((52 - k) + sh) by lia.
      replace (53 - k + sh) with (1 + ((52 - k) + sh)) by lia.
      rewrite (pow2_split 1) by lia. rewrite !(pow2_split (52 - k)) by lia. change (2 ^ 1) with 2. lia. }
    assert (Ee1 : e1 = e) by (unfold e1; rewrite fexp64_eq; unfold k in *; lia).
    rewrite Ee1 in *.
    assert (ES : 2 ^ sh = 2 ^ (e + sh) * 2 ^ k).
    { rewrite <- pow2_split by lia. f_equal. unfold k. lia. }
    rewrite ES in B1.
    assert (P0 : 0 < 2 ^ (e + sh)) by (apply pow2_pos; lia).
    pose proof (large_m2 k (2 ^ k) (Zpos m) (Zpos d) (2 ^ (e + sh)) m2 ltac:(lia) eq_refl R1 P0 B1) as Em2.
    rewrite <- Em2. exact Hp.
Qed.

(** * the number fact *)

Lemma format_fixed_finite : forall s m e,
  format_fixed 2 (S754_finite s m e) = fixed_of_scaled s 2 (printed_scaled 2 m e).
Proof. reflexivity. Qed.

Lemma printed_scaled_nonneg : forall m e, 0 <= printed_scaled 2 m e.
Proof.
  intros m e. unfold printed_scaled. change (10 ^ Z.of_nat 2) with 100. destruct (Z.leb_spec 0 e) as [L|L].
  - assert (0 < 2 ^ e) by (apply pow2_pos; lia). nia.
  - assert (D : 0 < 2 ^ (- e)) by (apply pow2_pos; lia).
    apply (round_half_even_div_spec _ _ D). lia.
Qed.

(** [B64_fmt2_reread]: every canonical [x] -- NaN, both infinities, both zeros,
    every normal and subnormal number *)
Theorem B64_fmt2_reread_lemma : forall x : f64, canonical x ->
  exists y : f64, parse_float (format_fixed 2 x) = Some y /\ canonical y /\ format_fixed 2 y = format_fixed 2 x.
Proof.
  intros [s|[|]| |s m e] Hx.
  - (* zeros *)
    exists (S754_zero s). cbn [format_fixed]. rewrite parse_fixed2 by lia. split; [reflexivity|]. split; [exact I|reflexivity].
  - exists (S754_infinity true). split; [vm_compute; reflexivity|]. split; [exact I|reflexivity].
  - exists (S754_infinity false). split; [vm_compute; reflexivity|]. split; [exact I|reflexivity].
  - exists S754_nan. split; [vm_compute; reflexivity|]. split; [exact I|reflexivity].
  - cbn [canonical] in Hx. rewrite format_fixed_finite.
    pose proof (printed_scaled_nonneg m e) as Hn.
    rewrite parse_fixed2 by exact Hn.
    destruct (printed_scaled 2 m e) as [|d|d] eqn:ED; [| |lia].
    + (* |x| < 0.005: prints as a zero, read back as the zero of the same sign *)
      exists (S754_zero s). split; [reflexivity|]. split; [exact I|reflexivity].
    + destruct (Z_lt_le_dec (Zpos d) (100 * 2 ^ 46)) as [Hsmall|Hbig].
      * destruct (round_scaled_small s d Hsmall) as (m3 & e2 & Ey & Hb & Hf).
        exists (S754_finite s m3 e2). rewrite Ey. split; [reflexivity|]. split; [exact Hb|exact Hf].
      * rewrite (round_scaled_large s m e d Hx ED Hbig).
        exists (S754_finite s m e). split; [reflexivity|]. split; [exact Hx|].
        rewrite format_fixed_finite, ED. reflexivity.
Qed.

(** the law on the canonical values *)
Theorem FmtStableOn_B64_lemma : FmtStableOn B64 canonical.
Proof.
  split.
  - intros v Hv. exact (B64_fmt2_reread_lemma v Hv).
  - intros v _. exact (B64_fmt2_clean_lemma v).
Qed.

(** ** over ALL of [spec_float] the law is false: a non-canonical triple *)
Definition fat : f64 := S754_finite false (2 ^ 60 + 1) 0.

Example fat_not_canonical : ~ canonical fat.
Proof. vm_compute. discriminate. Qed.

Example fat_round_trip :
  format_fixed 2 fat = b "1152921504606846977.00"
  /\ parse_float (format_fixed 2 fat) = Some (S754_finite false 4503599627370496 8)
  /\ format_fixed 2 (S754_finite false 4503599627370496 8) = b "1152921504606846976.00".
Proof. vm_compute. repeat split; reflexivity. Qed.

Theorem FmtStable_B64_refuted_lemma : ~ FmtStable B64.
Proof.
  intros [Hr _]. destruct (Hr fat) as (v' & H1 & H2).
  change (of_lexeme B64) with parse_float in H1. change (fmt_fixed B64) with format_fixed in H1, H2.
  destruct fat_round_trip as (_ & E2 & E3). rewrite E2 in H1. injection H1 as <-.
  rewrite E3 in H2. destruct fat_round_trip as (E1 & _ & _). rewrite E1 in H2. vm_compute in H2. discriminate H2.
Qed.

(** * non-vacuity: the theorem on concrete values, and what the mechanism does *)

Definition p_of (t : string) : f64 := match parse_float (b t) with Some v => v | None => S754_nan end.

(** 2.675 is just below the tie: prints 2.67, which reads back as ANOTHER number that prints 2.67 *)
Example ex_2_675 :
  canonical (p_of "2.675")
  /\ format_fixed 2 (p_of "2.675") = b "2.67"
  /\ parse_float (b "2.67") = Some (S754_finite false 6012305502539612 (-51))
  /\ S754_finite false 6012305502539612 (-51) <> p_of "2.675"
  /\ format_fixed 2 (S754_finite false 6012305502539612 (-51)) = b "2.67".
Proof. vm_compute. repeat split; try reflexivity. discriminate. Qed.

(** 0.125 is a tie: half-even gives 0.12 *)
Example ex_0_125 :
  canonical (p_of "0.125") /\ format_fixed 2 (p_of "0.125") = b "0.12"
  /\ option_map (format_fixed 2) (parse_float (b "0.12")) = Some (b "0.12").
Proof. vm_compute. repeat split; reflexivity. Qed.

(** large values read back as themselves *)
Example ex_1e22 :
  canonical (p_of "1e22") /\ format_fixed 2 (p_of "1e22") = b "10000000000000000000000.00"
  /\ parse_float (format_fixed 2 (p_of "1e22")) = Some (p_of "1e22").
Proof. vm_compute. repeat split; reflexivity. Qed.

Definition two60 : f64 := S754_finite false 4503599627370496 8.
Example ex_2p60 : canonical two60 /\ parse_float (format_fixed 2 two60) = Some two60.
Proof. vm_compute. split; reflexivity. Qed.

(** the boundary between the two cases of the proof: 2^46 - 2^-7 (small case, D < 100 * 2^46) and 2^46 *)
Example ex_boundary :
  let x1 := S754_finite false 9007199254740991 (-7) in
  let x2 := S754_finite false 4503599627370496 (-6) in
  canonical x1 /\ canonical x2
  /\ printed_scaled 2 9007199254740991 (-7) = 100 * 2 ^ 46 - 1
  /\ printed_scaled 2 4503599627370496 (-6) = 100 * 2 ^ 46
  /\ option_map (format_fixed 2) (parse_float (format_fixed 2 x1)) = Some (format_fixed 2 x1)
  /\ parse_float (format_fixed 2 x2) = Some x2.
Proof. vm_compute. repeat split; reflexivity. Qed.

(** zeros, tiny values, NaN, infinities *)
Example ex_specials :
  parse_float (format_fixed 2 (S754_zero true)) = Some (S754_zero true)
  /\ format_fixed 2 (S754_zero true) = b "-0.00"
  /\ format_fixed 2 (p_of "-4.9e-324") = b "-0.00"
  /\ format_fixed 2 (p_of "0.004") = b "0.00"
  /\ parse_float (format_fixed 2 S754_nan) = Some S754_nan
  /\ parse_float (format_fixed 2 (S754_infinity false)) = Some (S754_infinity false)
  /\ parse_float (format_fixed 2 (S754_infinity true)) = Some (S754_infinity true).
Proof. vm_compute. repeat split; reflexivity. Qed.

(** the theorem applied *)
Example ex_theorem_applied :
  exists y, parse_float (format_fixed 2 (p_of "2.675")) = Some y /\ canonical y
            /\ format_fixed 2 y = format_fixed 2 (p_of "2.675").
Proof. apply B64_fmt2_reread_lemma. vm_compute. reflexivity. Qed.

(** the largest finite value does not overflow on read-back *)
Example ex_max :
  let mx := S754_finite false 9007199254740991 971 in
  canonical mx /\ parse_float (format_fixed 2 mx) = Some mx.
Proof. vm_compute. split; reflexivity. Qed.
