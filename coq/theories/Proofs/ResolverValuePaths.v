(** WP02 (C01) – "basic (undefined) element reachable from it", said without the
    fuel-indexed enumeration [paths]: [leads_to B r x] = there is a chain of
    ingredient references from [r] that ends at the name [x], which the book does
    not define.  No [Num] law. *)
From Coq Require Import Lia ZifyBool ZifyNat ZifyN Permutation Sorted.
From HP Require Import Base.Bytes Base.Num Model.Elements Model.Resolver Spec.ResolverSpec.
From HP Require Import Proofs.ResolverValueBytes Proofs.ResolverValueStruct.

Section Paths.
  Context (NM : Num).
  Notation T := (T NM).
  Notation elements := (elements NM).
  Notation db := (db NM).
  Variable B : db.

  Inductive leads_to : bytes -> bytes -> Prop :=
  | leads_here : forall x, lookup x B = None -> leads_to x x
  | leads_step : forall r els e v x, lookup r B = Some els -> In (e, v) els -> leads_to e x -> leads_to r x.

  Lemma paths_names_leads_to : forall f r x, In x (map fst (paths NM B f r)) -> leads_to r x.
  Proof.
    induction f as [|f IH]; intros r x H; [destruct H|].
    destruct (lookup r B) as [els|] eqn:El.
    - apply (paths_names_recipe NM B _ _ _ _ El) in H. destruct H as [e [v [Hin Hx]]].
      eapply leads_step; [exact El|exact Hin|]. apply IH. exact Hx.
    - rewrite paths_S, El in H. cbn [map fst In] in H. destruct H as [H|[]]. subst x.
      apply leads_here. exact El.
  Qed.

  Lemma leads_to_paths_names : forall r x, leads_to r x ->
    forall f, ~ reach NM B f r -> In x (map fst (paths NM B f r)).
  Proof.
    intros r x H. induction H as [x Hx|r els e v x El Hin Hlt IH]; intros f Hr.
    - destruct f as [|f]; [exfalso; apply Hr; exact I|]. rewrite paths_S, Hx. left. reflexivity.
    - destruct f as [|f]; [exfalso; apply Hr; exact I|].
      apply (paths_names_recipe NM B _ _ _ _ El). exists e, v. split; [exact Hin|].
      apply IH. intro Hre. apply Hr. apply reach_S. exists els. split; [exact El|].
      exists e, v. split; assumption.
  Qed.

  Lemma paths_names_iff_leads_to : forall f r x,
    ~ reach NM B f r -> (In x (map fst (paths NM B f r)) <-> leads_to r x).
  Proof.
    intros f r x Hr. split; [apply paths_names_leads_to|]. intro H. apply leads_to_paths_names; assumption.
  Qed.

  (** the names of the value of [r] are exactly the undefined names [r] leads to *)
  Lemma ref_value_names_reachable_lemma : forall f r h v x,
    ref_node NM B f r = Some (h, Some v) -> (In x (map fst v) <-> leads_to r x).
  Proof.
    intros f r h v x H. rewrite (ref_value_names_paths NM B f r h v x H).
    apply paths_names_iff_leads_to. intro Hr. apply reach_ref_node_None in Hr. congruence.
  Qed.
End Paths.
