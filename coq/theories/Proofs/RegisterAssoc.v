(** WP06 (C02) – the in-place accounting of the code ([add_to] on a slice,
    [acc_add] on a map) computes the specification's folds:
    [merge_elements_spec], [accumulate_spec], [totals_of_acc_spec]. *)
From Coq Require Import Lia Permutation Sorted.
From HP Require Import Base.Bytes Base.Num Model.Elements Model.Dates Model.Tree Model.Writer Model.Reporters.
From HP Require Import Spec.RegisterSpec Proofs.RegisterSort.

(** * membership by [beq] *)
Lemma existsb_beq_in : forall (x : bytes) l, existsb (beq x) l = true <-> In x l.
Proof.
  intros x l. rewrite existsb_exists. split.
  - intros [y [Hy E]]. apply beq_true_iff in E. subst. exact Hy.
  - intro H. exists x. split; [exact H | apply beq_refl].
Qed.

Lemma existsb_beq_notin : forall (x : bytes) l, existsb (beq x) l = false <-> ~ In x l.
Proof.
  intros x l. rewrite <- existsb_beq_in. destruct (existsb (beq x) l); split; congruence.
Qed.

(** * [distinct] *)
Lemma distinct_in : forall l x, In x (distinct l) <-> In x l.
Proof.
  induction l as [|a r IH]; intro x; cbn [distinct]; [tauto|].
  cbn [In]. rewrite filter_In, IH. split.
  - intros [H|[H _]]; [left | right]; assumption.
  - intros [H|H]; [left; exact H|].
    destruct (beq_spec x a) as [E|E]; [left; congruence | right; split; [exact H | reflexivity]].
Qed.

Lemma distinct_NoDup : forall l, NoDup (distinct l).
Proof.
  induction l as [|a r IH]; cbn [distinct]; constructor.
  - rewrite filter_In. intros [_ H]. rewrite beq_refl in H. discriminate.
  - apply NoDup_filter, IH.
Qed.

Lemma filter_all : forall {A} (f : A -> bool) l, (forall x, In x l -> f x = true) -> filter f l = l.
Proof.
  intros A f l. induction l as [|a r IH]; intro H; cbn [filter]; [reflexivity|].
  rewrite (H a (or_introl eq_refl)). f_equal. apply IH. intros x Hx. apply H. right. exact Hx.
Qed.

Lemma distinct_snoc : forall l x,
  distinct (l ++ [x]) = if existsb (beq x) l then distinct l else distinct l ++ [x].
Proof.
  induction l as [|a r IH]; intro x; [reflexivity|].
  cbn [app distinct existsb]. rewrite IH.
  destruct (beq_spec x a) as [E|E].
  - subst a. cbn [orb]. destruct (existsb (beq x) r); [reflexivity|].
    rewrite filter_app. cbn [filter]. rewrite beq_refl. cbn [negb]. rewrite app_nil_r. reflexivity.
  - cbn [orb]. destruct (existsb (beq x) r); [reflexivity|].
    rewrite filter_app. cbn [filter]. apply beq_false_iff in E. rewrite E. reflexivity.
Qed.

Lemma filter_filter : forall {A} (f g : A -> bool) l, filter f (filter g l) = filter (fun x => g x && f x) l.
Proof.
  intros A f g l. induction l as [|a r IH]; [reflexivity|]. cbn [filter].
  destruct (g a); cbn [filter andb]; [destruct (f a)|]; rewrite IH; reflexivity.
Qed.

(** [distinct] keeps exactly the first occurrence of each name, in place:
    what comes after a prefix [l1] is what is new with respect to [l1] *)
Lemma distinct_app : forall l1 l2,
  distinct (l1 ++ l2) = distinct l1 ++ filter (fun y => negb (existsb (beq y) l1)) (distinct l2).
Proof.
  induction l1 as [|a r IH]; intro l2.
  - cbn [app distinct existsb negb]. symmetry. apply filter_all. reflexivity.
  - cbn [app distinct]. rewrite IH, filter_app. cbn [app]. f_equal. f_equal.
    rewrite filter_filter. apply filter_ext. intro y. cbn [existsb].
    rewrite negb_orb. apply andb_comm.
Qed.

Lemma distinct_NoDup_id : forall l, NoDup l -> distinct l = l.
Proof.
  induction l as [|a r IH]; intro H; [reflexivity|]. inversion H as [|? ? Ha Hr]; subst.
  cbn [distinct]. rewrite (IH Hr). f_equal. apply filter_all.
  intros x Hx. apply negb_true_iff, beq_false_iff. intro E. subst. contradiction.
Qed.

(** * association lists of the form [(y, g y)] *)
Section KMap.
  Context {V : Type}.
  Definition kmap (g : bytes -> V) (names : list bytes) : list (bytes * V) := map (fun y => (y, g y)) names.

  Lemma keys_kmap : forall g names, keys (kmap g names) = names.
  Proof. intros g names. unfold keys, kmap. rewrite map_map. cbn [fst]. apply map_id. Qed.

  Lemma kmap_ext_in : forall g g' names, (forall y, In y names -> g y = g' y) -> kmap g names = kmap g' names.
  Proof. intros g g' names H. apply map_ext_in. intros y Hy. rewrite (H y Hy). reflexivity. Qed.

  Lemma kmap_app : forall g l1 l2, kmap g (l1 ++ l2) = kmap g l1 ++ kmap g l2.
  Proof. intros. apply map_app. Qed.

  Lemma lookup_kmap_in : forall g names x, In x names -> lookup x (kmap g names) = Some (g x).
  Proof.
    intros g names x. induction names as [|a r IH]; intro H; [contradiction|].
    cbn [kmap map lookup]. destruct (beq_spec x a) as [E|E]; [subst; reflexivity|].
    destruct H as [H|H]; [congruence|]. apply IH, H.
  Qed.

  Lemma lookup_kmap_notin : forall g names x, ~ In x names -> lookup x (kmap g names) = None.
  Proof.
    intros g names x. induction names as [|a r IH]; intro H; [reflexivity|].
    cbn [kmap map lookup]. destruct (beq_spec x a) as [E|E]; [subst; exfalso; apply H; left; reflexivity|].
    apply IH. intro Hr. apply H. right. exact Hr.
  Qed.

  Lemma set_kmap : forall g names x v, NoDup names -> In x names ->
    set x v (kmap g names) = kmap (fun y => if beq y x then v else g y) names.
  Proof.
    intros g names x v. induction names as [|a r IH]; intros Hnd Hin; [contradiction|].
    inversion Hnd as [|? ? Ha Hr]; subst.
    cbn [kmap map set]. destruct (beq_spec x a) as [E|E].
    - subst a. rewrite beq_refl. f_equal. apply map_ext_in. intros y Hy.
      destruct (beq_spec y x) as [E'|E']; [subst; contradiction | reflexivity].
    - destruct (beq_spec a x) as [E'|E']; [congruence|]. f_equal.
      destruct Hin as [Hin|Hin]; [congruence|]. apply IH; assumption.
  Qed.
End KMap.

Section Accounting.
  Context (NM : Num).
  Notation T := (T NM).

  Lemma add_to_kmap_in : forall (g : bytes -> T) names x v, NoDup names -> In x names ->
    add_to NM x v (kmap g names) = kmap (fun y => if beq y x then add NM (g y) v else g y) names.
  Proof.
    intros g names x v. induction names as [|a r IH]; intros Hnd Hin; [contradiction|].
    inversion Hnd as [|? ? Ha Hr]; subst.
    cbn [kmap map add_to]. destruct (beq_spec a x) as [E|E].
    - subst a. f_equal. apply map_ext_in. intros y Hy.
      destruct (beq_spec y x) as [E'|E']; [subst; contradiction | reflexivity].
    - f_equal. destruct Hin as [Hin|Hin]; [congruence|]. apply IH; assumption.
  Qed.

  Lemma add_to_kmap_notin : forall (g : bytes -> T) names x v, ~ In x names ->
    add_to NM x v (kmap g names) = kmap g names ++ [(x, v)].
  Proof.
    intros g names x v. induction names as [|a r IH]; intro Hin; [reflexivity|].
    cbn [kmap map add_to app]. destruct (beq_spec a x) as [E|E].
    - exfalso. apply Hin. left. exact E.
    - f_equal. apply IH. intro H. apply Hin. right. exact H.
  Qed.

  (** ** [values_of], [sum1] *)
  Lemma values_of_snoc : forall (es : list (bytes * T)) n v f,
    values_of NM (es ++ [(n, v)]) f = values_of NM es f ++ (if beq n f then [v] else []).
  Proof.
    intros es n v f. unfold values_of. rewrite filter_app, map_app. cbn [filter fst].
    destruct (beq n f); reflexivity.
  Qed.

  Lemma values_of_nil_iff : forall (es : list (bytes * T)) f, values_of NM es f = [] <-> ~ In f (map fst es).
  Proof.
    intros es f. unfold values_of. induction es as [|[n v] r IH]; cbn [filter map fst In]; [tauto|].
    destruct (beq_spec n f) as [E|E]; cbn [map].
    - split; [discriminate | intro H; exfalso; apply H; left; exact E].
    - rewrite IH. tauto.
  Qed.

  Lemma sum1_snoc : forall (l : list T) v, l <> [] -> sum1 NM (l ++ [v]) = add NM (sum1 NM l) v.
  Proof.
    intros [|a r] v H; [congruence|]. cbn [app sum1]. rewrite fold_left_app. reflexivity.
  Qed.

  Lemma first_occurrences_snoc : forall (es : list (bytes * T)) n v,
    first_occurrences NM (es ++ [(n, v)])
    = if existsb (beq n) (map fst es) then first_occurrences NM es else first_occurrences NM es ++ [n].
  Proof. intros es n v. unfold first_occurrences. rewrite map_app. cbn [map fst]. apply distinct_snoc. Qed.

  Lemma first_occurrences_in : forall (es : list (bytes * T)) x, In x (first_occurrences NM es) <-> In x (map fst es).
  Proof. intros es x. apply distinct_in. Qed.

  Lemma first_occurrences_NoDup : forall (es : list (bytes * T)), NoDup (first_occurrences NM es).
  Proof. intro es. apply distinct_NoDup. Qed.

  (** ** NewLogNodeFromElements = each distinct food once, with [qty_of] *)
  Lemma merge_elements_snoc : forall (es : list (bytes * T)) nv,
    merge_elements NM (es ++ [nv]) = add_to NM (fst nv) (snd nv) (merge_elements NM es).
  Proof. intros es nv. unfold merge_elements. rewrite fold_left_app. reflexivity. Qed.

  Theorem merge_elements_spec : forall es : list (bytes * T), merge_elements NM es = merged NM es.
  Proof.
    intro es. induction es as [|[n v] es IH] using rev_ind; [reflexivity|].
    rewrite merge_elements_snoc, IH. cbn [fst snd]. unfold merged. fold (kmap (qty_of NM es) (first_occurrences NM es)).
    fold (kmap (qty_of NM (es ++ [(n, v)])) (first_occurrences NM (es ++ [(n, v)]))).
    rewrite first_occurrences_snoc.
    destruct (existsb (beq n) (map fst es)) eqn:E.
    - apply existsb_beq_in in E.
      rewrite add_to_kmap_in; [| apply first_occurrences_NoDup | apply first_occurrences_in, E].
      apply kmap_ext_in. intros y Hy. unfold qty_of. rewrite values_of_snoc.
      destruct (beq_spec y n) as [Ey|Ey].
      + subst y. rewrite beq_refl. rewrite sum1_snoc; [reflexivity|].
        intro Hnil. apply values_of_nil_iff in Hnil. contradiction.
      + destruct (beq_spec n y) as [Ey'|Ey']; [congruence|]. rewrite app_nil_r. reflexivity.
    - apply existsb_beq_notin in E.
      rewrite add_to_kmap_notin; [| rewrite first_occurrences_in; exact E].
      rewrite kmap_app. f_equal.
      + apply kmap_ext_in. intros y Hy. unfold qty_of. rewrite values_of_snoc.
        destruct (beq_spec n y) as [Ey|Ey]; [|rewrite app_nil_r; reflexivity].
        subst y. apply first_occurrences_in in Hy. contradiction.
      + cbn [kmap map]. unfold qty_of. rewrite values_of_snoc, beq_refl.
        apply values_of_nil_iff in E. rewrite E. reflexivity.
  Qed.

  (** ** the accumulator = each distinct element once, with [(pos_of, neg_of)] *)
  Lemma accumulate_snoc : forall (cs : list (bytes * T)) nv,
    accumulate NM (cs ++ [nv]) = acc_add NM (fst nv) (snd nv) (accumulate NM cs).
  Proof. intros cs nv. unfold accumulate. rewrite fold_left_app. reflexivity. Qed.

  Lemma pos_of_snoc_other : forall (cs : list (bytes * T)) x v y, y <> x -> pos_of NM (cs ++ [(x, v)]) y = pos_of NM cs y.
  Proof.
    intros cs x v y H. unfold pos_of. rewrite values_of_snoc.
    destruct (beq_spec x y) as [E|E]; [congruence|]. rewrite app_nil_r. reflexivity.
  Qed.

  Lemma neg_of_snoc_other : forall (cs : list (bytes * T)) x v y, y <> x -> neg_of NM (cs ++ [(x, v)]) y = neg_of NM cs y.
  Proof.
    intros cs x v y H. unfold neg_of. rewrite values_of_snoc.
    destruct (beq_spec x y) as [E|E]; [congruence|]. rewrite app_nil_r. reflexivity.
  Qed.

  Lemma pos_of_snoc_first : forall (cs : list (bytes * T)) x v, ~ In x (map fst cs) ->
    pos_of NM (cs ++ [(x, v)]) x = if ltb NM v (zero NM) then zero NM else v.
  Proof.
    intros cs x v H. unfold pos_of. rewrite values_of_snoc, beq_refl.
    apply values_of_nil_iff in H. rewrite H. reflexivity.
  Qed.

  Lemma neg_of_snoc_first : forall (cs : list (bytes * T)) x v, ~ In x (map fst cs) ->
    neg_of NM (cs ++ [(x, v)]) x = if ltb NM v (zero NM) then v else zero NM.
  Proof.
    intros cs x v H. unfold neg_of. rewrite values_of_snoc, beq_refl.
    apply values_of_nil_iff in H. rewrite H. reflexivity.
  Qed.

  Lemma pos_of_snoc_later : forall (cs : list (bytes * T)) x v, In x (map fst cs) ->
    pos_of NM (cs ++ [(x, v)]) x = if ltb NM v (zero NM) then pos_of NM cs x else add NM (pos_of NM cs x) v.
  Proof.
    intros cs x v H. unfold pos_of. rewrite values_of_snoc, beq_refl.
    destruct (values_of NM cs x) as [|a r] eqn:E; [apply values_of_nil_iff in E; contradiction|].
    cbn [app]. rewrite filter_app, fold_left_app. cbn [filter]. unfold is_neg.
    destruct (ltb NM v (zero NM)); reflexivity.
  Qed.

  Lemma neg_of_snoc_later : forall (cs : list (bytes * T)) x v, In x (map fst cs) ->
    neg_of NM (cs ++ [(x, v)]) x = if ltb NM v (zero NM) then add NM (neg_of NM cs x) v else neg_of NM cs x.
  Proof.
    intros cs x v H. unfold neg_of. rewrite values_of_snoc, beq_refl.
    destruct (values_of NM cs x) as [|a r] eqn:E; [apply values_of_nil_iff in E; contradiction|].
    cbn [app]. rewrite filter_app, fold_left_app. cbn [filter]. unfold is_neg.
    destruct (ltb NM v (zero NM)); reflexivity.
  Qed.

  Theorem accumulate_spec : forall cs : list (bytes * T),
    accumulate NM cs = kmap (fun x => (pos_of NM cs x, neg_of NM cs x)) (first_occurrences NM cs).
  Proof.
    intro cs. induction cs as [|[x v] cs IH] using rev_ind; [reflexivity|].
    rewrite accumulate_snoc, IH. cbn [fst snd]. unfold acc_add. rewrite first_occurrences_snoc.
    destruct (existsb (beq x) (map fst cs)) eqn:E.
    - apply existsb_beq_in in E.
      rewrite lookup_kmap_in by (apply first_occurrences_in, E).
      rewrite set_kmap; [| apply first_occurrences_NoDup | apply first_occurrences_in, E].
      apply kmap_ext_in. intros y Hy.
      destruct (beq_spec y x) as [Ey|Ey].
      + subst y. rewrite pos_of_snoc_later, neg_of_snoc_later by exact E.
        destruct (ltb NM v (zero NM)); reflexivity.
      + rewrite pos_of_snoc_other, neg_of_snoc_other by exact Ey. reflexivity.
    - apply existsb_beq_notin in E.
      rewrite lookup_kmap_notin by (rewrite first_occurrences_in; exact E).
      rewrite kmap_app. f_equal.
      + apply kmap_ext_in. intros y Hy.
        assert (y <> x) by (intro; subst; apply first_occurrences_in in Hy; contradiction).
        rewrite pos_of_snoc_other, neg_of_snoc_other by assumption. reflexivity.
      + cbn [kmap map]. rewrite pos_of_snoc_first, neg_of_snoc_first by exact E.
        destruct (ltb NM v (zero NM)); reflexivity.
  Qed.

  Corollary keys_accumulate : forall cs : list (bytes * T), keys (accumulate NM cs) = first_occurrences NM cs.
  Proof. intro cs. rewrite accumulate_spec. apply keys_kmap. Qed.

  Corollary keys_accumulate_NoDup : forall cs : list (bytes * T), NoDup (keys (accumulate NM cs)).
  Proof. intro cs. rewrite keys_accumulate. apply first_occurrences_NoDup. Qed.

  (** ** newTotalFromAccumulator *)
  Lemma filter_some_map_total : forall {A B} (f : A -> option B) (g : A -> B) l,
    (forall x, In x l -> f x = Some (g x)) -> filter_some (map f l) = map g l.
  Proof.
    intros A B f g l. induction l as [|a r IH]; intro H; [reflexivity|].
    cbn [map filter_some]. rewrite (H a (or_introl eq_refl)). f_equal. apply IH.
    intros x Hx. apply H. right. exact Hx.
  Qed.

  Theorem totals_of_acc_spec : forall perm (cs : list (bytes * T)),
    oracle perm -> totals_of_acc NM perm (accumulate NM cs) = totals_of NM cs.
  Proof.
    intros perm cs Hperm. unfold totals_of_acc, totals_of, sorted_names.
    rewrite (sort_bytes_canonical (perm (keys (accumulate NM cs))) (first_occurrences NM cs))
      by (rewrite <- keys_accumulate; apply Hperm).
    apply filter_some_map_total. intros x Hx.
    apply (proj1 (sort_bytes_in _ _)) in Hx. rewrite accumulate_spec, (lookup_kmap_in _ _ _ Hx). reflexivity.
  Qed.

  (** the order oracle is irrelevant for any accumulator the code can build *)
  Corollary totals_of_acc_oracle_indep : forall p1 p2 (cs : list (bytes * T)),
    oracle p1 -> oracle p2 -> totals_of_acc NM p1 (accumulate NM cs) = totals_of_acc NM p2 (accumulate NM cs).
  Proof. intros p1 p2 cs H1 H2. rewrite !totals_of_acc_spec by assumption. reflexivity. Qed.
End Accounting.
