(** C06, part 5: none of this depends on the process time zone (with --today).

    Since fix 4fa5d57 ([today] is "now" unchanged, no [.Local()]) the field [w_tz] of the world is not
    consulted by any command: [run] is the same under [with_tz w tz] for every [tz], with or without
    --today ([run_ignores_process_zone]).  The process zone still reaches the program, but only through
    the zone of the wall clock value ([time.Now()] is local): a change of zone is [with_zone w tz clock].
    With --today the clock is not read either, so the run is the same in every zone and at every clock
    ([tz_independent_clock]); without --today the run depends on the clock, but (fix F25) only on the
    calendar day it shows ([run_depends_on_clock_day_only]; that the day matters:
    PeriodRun.tz_independent_without_today_refuted). *)
From Coq Require Import Lia ZifyBool.
From HP Require Import Base.Bytes Base.Num Model.Scanner Model.Parser Model.Dates Model.Writer Model.Reporters Model.Cli
  Spec.PeriodSpec Proofs.PeriodInterval Proofs.PeriodPick Proofs.PeriodSummary.
Open Scope Z_scope.

(** *** the callback protocol respects pointwise equality of callbacks *)
Section Ext.
  Context (NM : Num) {S E : Type} (cb1 cb2 : S -> event NM -> S * bool * option E).
  Hypothesis Hcb : forall s ev, cb1 s ev = cb2 s ev.

  Lemma drive_loop_ext : forall evs s, drive_loop NM cb1 evs s = drive_loop NM cb2 evs s.
  Proof.
    induction evs as [|ev evs IH]; intros s; [reflexivity|].
    cbn [drive_loop]. rewrite Hcb. destruct (cb2 s ev) as [[s' stop] e]. destruct stop; [reflexivity|apply IH].
  Qed.

  Lemma drive_ext : forall evs last fin s, drive NM cb1 evs last fin s = drive NM cb2 evs last fin s.
  Proof.
    intros evs last fin s. unfold drive. rewrite drive_loop_ext.
    destruct (drive_loop NM cb2 evs s) as [s' [e|]]; [reflexivity|].
    destruct fin; try reflexivity. destruct last as [n|]; [|reflexivity]. rewrite Hcb. reflexivity.
  Qed.

  Lemma parse_stream_ext : forall data f s, parse_stream NM cb1 data f s = parse_stream NM cb2 data f s.
  Proof.
    intros data f s. unfold parse_stream. destruct (scan data f) as [lines fin].
    destruct (parse_lines NM lines) as [evs last]. apply drive_ext.
  Qed.
End Ext.

Lemma parse_opened_ext : forall NM (S : Type) (cb1 cb2 : S -> event NM -> S * bool * option cerr),
  (forall s ev, cb1 s ev = cb2 s ev) -> forall o s, parse_opened NM cb1 o s = parse_opened NM cb2 o s.
Proof.
  intros NM S cb1 cb2 H o s. unfold parse_opened.
  destruct o as [d f|]; rewrite (parse_stream_ext NM cb1 cb2 H); reflexivity.
Qed.

(** *** the walk looks at the period only through [in_interval] at UTC midnights *)
Section WalkMid.
  Context (NM : Num) (R : reporter NM) (pd : nat -> list bytes -> list bytes) (pf : list bytes -> list bytes)
          (toks : list ltoken) (bt et bt' et' : option time).
  Hypothesis Hmid : mid_eqv bt et bt' et'.

  Lemma walk_cb_mid : forall st ev, walk_cb NM R pd toks bt et st ev = walk_cb NM R pd toks bt' et' st ev.
  Proof.
    intros [[rs i] wr] [n|e]; [|reflexivity]. unfold walk_cb.
    destruct (parse_date toks (header n)) as [c|]; [|reflexivity]. rewrite (Hmid c). reflexivity.
  Qed.

  Theorem walk_depends_on_midnights : forall o wr,
    walk_and_finish NM R pd pf toks bt et o wr = walk_and_finish NM R pd pf toks bt' et' o wr.
  Proof.
    intros o wr. unfold walk_and_finish.
    rewrite (parse_opened_ext NM _ _ _ walk_cb_mid). reflexivity.
  Qed.
End WalkMid.

Lemma same_inst_mid : forall bt et bt' et', same_inst bt bt' -> same_inst et et' -> mid_eqv bt et bt' et'.
Proof. intros bt et bt' et' Hb He c. apply in_interval_inst; [assumption|assumption|reflexivity]. Qed.

Lemma same_inst_refl : forall a, same_inst a a.
Proof. intros [x|]; cbn; reflexivity. Qed.

(** *** resolution of a period value in two zones: same error, or the same instant *)
Definition res_eqv (r1 r2 : cerr + time) : Prop :=
  match r1, r2 with
  | inl e1, inl e2 => e1 = e2
  | inr t1, inr t2 => inst t1 = inst t2
  | _, _ => False
  end.

Lemma tfs_not_today_tz : forall w tz1 tz2 now toks s, beq s (b "today") = false ->
  time_from_string (with_tz w tz1) now toks s = time_from_string (with_tz w tz2) now toks s.
Proof. intros w tz1 tz2 now toks s H. unfold time_from_string. rewrite H. reflexivity. Qed.

(** since fix 4fa5d57 the world does not enter the resolution of a period value at all *)
Lemma tfs_any_world : forall w w' now toks s, time_from_string w now toks s = time_from_string w' now toks s.
Proof. reflexivity. Qed.

Lemma pick_period_any_world : forall w w' now toks g l, pick_period w now toks g l = pick_period w' now toks g l.
Proof. reflexivity. Qed.

Lemma tfs_tz : forall w tz1 tz2 now toks s,
  res_eqv (time_from_string (with_tz w tz1) now toks s) (time_from_string (with_tz w tz2) now toks s).
Proof.
  intros w tz1 tz2 now toks s. destruct (beq s (b "today")) eqn:E.
  - unfold time_from_string. rewrite E. cbn. reflexivity.
  - rewrite (tfs_not_today_tz w tz1 tz2 now toks s E).
    destruct (time_from_string (with_tz w tz2) now toks s); cbn; reflexivity.
Qed.

Definition pick_eqv (r1 r2 : cerr + option time) : Prop :=
  match r1, r2 with
  | inl e1, inl e2 => e1 = e2
  | inr a, inr c => same_inst a c
  | _, _ => False
  end.

Lemma lift_some_eqv : forall r1 r2, res_eqv r1 r2 -> pick_eqv (lift_some r1) (lift_some r2).
Proof. intros [e1|t1] [e2|t2] H; cbn in *; assumption. Qed.

Lemma pick_period_tz : forall w tz1 tz2 now toks g l,
  pick_eqv (pick_period (with_tz w tz1) now toks g l) (pick_period (with_tz w tz2) now toks g l).
Proof.
  intros w tz1 tz2 now toks g l. rewrite !innermost_flag_wins.
  destruct g as [gs|], l as [ls|].
  - pose proof (tfs_tz w tz1 tz2 now toks gs) as Hg.
    destruct (time_from_string (with_tz w tz1) now toks gs) as [e1|t1],
             (time_from_string (with_tz w tz2) now toks gs) as [e2|t2]; cbn in Hg; try contradiction.
    + exact Hg.
    + apply lift_some_eqv, tfs_tz.
  - apply lift_some_eqv, tfs_tz.
  - apply lift_some_eqv, tfs_tz.
  - cbn. exact I.
Qed.

(** *** [load]: the options of the two zones differ at most in the offset field of the period bounds *)
Theorem load_tz : forall w i tz1 tz2, load_eqv (load (with_tz w tz1) i) (load (with_tz w tz2) i).
Proof.
  intros w i tz1 tz2. unfold load.
  change (load_config (with_tz w tz1) i) with (load_config w i).
  change (load_config (with_tz w tz2) i) with (load_config w i).
  destruct (load_config w i) as [e|cfg]; [reflexivity|].
  destruct (tokenize _) as [toks|]; [|reflexivity].
  change (w_clock (with_tz w tz1)) with (w_clock w). change (w_clock (with_tz w tz2)) with (w_clock w).
  match goal with |- context [match ?nr with inl e => inl e | inr now => _ end] => destruct nr as [e|now] end; [reflexivity|].
  pose proof (pick_period_tz w tz1 tz2 now toks (i_g_begin i) (i_l_begin i)) as Hb.
  destruct (pick_period (with_tz w tz1) now toks (i_g_begin i) (i_l_begin i)) as [eb1|b1],
           (pick_period (with_tz w tz2) now toks (i_g_begin i) (i_l_begin i)) as [eb2|b2]; cbn in Hb; try contradiction;
    [exact Hb|].
  pose proof (pick_period_tz w tz1 tz2 now toks (i_g_end i) (i_l_end i)) as He.
  destruct (pick_period (with_tz w tz1) now toks (i_g_end i) (i_l_end i)) as [ee1|e1],
           (pick_period (with_tz w tz2) now toks (i_g_end i) (i_l_end i)) as [ee2|e2]; cbn in He; try contradiction;
    [exact He|].
  cbn. unfold options_eqv. cbn. repeat split; assumption.
Qed.

(** ... and, since fix 4fa5d57, they are equal *)
Theorem load_ignores_process_zone : forall w i tz1 tz2, load (with_tz w tz1) i = load (with_tz w tz2) i.
Proof. reflexivity. Qed.

(** with --today the clock is not read: the options are the same in every zone and at every clock *)
Theorem load_today_ignores_zone_and_clock : forall w i s tz1 tz2 c1 c2, i_f_today i = Some s ->
  load (with_zone w tz1 c1) i = load (with_zone w tz2 c2) i.
Proof.
  intros w i s tz1 tz2 c1 c2 Hs. unfold load.
  change (load_config (with_zone w tz1 c1) i) with (load_config w i).
  change (load_config (with_zone w tz2 c2) i) with (load_config w i).
  rewrite Hs. reflexivity.
Qed.

(** without --today the clock is read, but (fix F25) only its CALENDAR DAY enters: two clocks that show the
    same civil date -- at whatever instants, in whatever zones -- load the same options (before the fix the
    instant entered, and the same day could give two different reports: the former finding
    [tz_independent_without_today_refuted] of PeriodRun.v) *)
Theorem load_depends_on_clock_day_only : forall w i tz1 tz2 c1 c2, civ c1 = civ c2 ->
  load (with_zone w tz1 c1) i = load (with_zone w tz2 c2) i.
Proof.
  intros w i tz1 tz2 c1 c2 Hc. unfold load.
  change (load_config (with_zone w tz1 c1) i) with (load_config w i).
  change (load_config (with_zone w tz2 c2) i) with (load_config w i).
  destruct (load_config w i) as [e|cfg]; [reflexivity|].
  destruct (tokenize _) as [toks|]; [|reflexivity].
  change (w_clock (with_zone w tz1 c1)) with c1. change (w_clock (with_zone w tz2 c2)) with c2.
  assert (E : civ (or_default (ce_now cfg) c1) = civ (or_default (ce_now cfg) c2))
    by (destruct (ce_now cfg); [reflexivity|exact Hc]).
  rewrite E. reflexivity.
Qed.

(** *** commands *)
Section Commands.
  Context (NM : Num).

  (** the options with the period removed *)
  Notation strip := without_period.

  Lemma strip_eqv : forall o1 o2, options_eqv o1 o2 -> strip o1 = strip o2.
  Proof.
    intros o1 o2 (H1 & H2 & H3 & H4 & H5 & _ & _ & H8). unfold without_period.
    rewrite H1, H2, H3, H4, H5, H8. reflexivity.
  Qed.

  Lemma run_db_log_strip : forall w tz op mk bt et,
    run_db_log NM (with_tz w tz) op mk bt et = run_db_log NM w (strip op) mk bt et.
  Proof. intros w tz op mk bt et. reflexivity. Qed.

  Lemma run_db_log_mid : forall w op mk bt et bt' et', mid_eqv bt et bt' et' ->
    run_db_log NM w op mk bt et = run_db_log NM w op mk bt' et'.
  Proof.
    intros w op mk bt et bt' et' Hmid. unfold run_db_log.
    destruct (open_all w [op_db op; op_log op]) as [[|odb [|olog [|x xs]]]|]; try reflexivity.
    destruct (resolved_db NM w op odb) as [e|d]; [reflexivity|].
    destruct (tokenize (op_fmt op)) as [toks|]; [|reflexivity].
    rewrite (walk_depends_on_midnights NM (mk d) _ _ toks bt et bt' et' Hmid). reflexivity.
  Qed.

  Lemma run_db_log_tz : forall w tz1 tz2 o1 o2 mk bt et bt' et',
    options_eqv o1 o2 -> mid_eqv bt et bt' et' ->
    run_db_log NM (with_tz w tz1) o1 mk bt et = run_db_log NM (with_tz w tz2) o2 mk bt' et'.
  Proof.
    intros w tz1 tz2 o1 o2 mk bt et bt' et' Ho Hmid.
    rewrite !run_db_log_strip, (strip_eqv o1 o2 Ho). apply run_db_log_mid. exact Hmid.
  Qed.

  Lemma run_log_with_tz : forall w tz op R, run_log NM (with_tz w tz) op R = run_log NM w op R.
  Proof. intros. reflexivity. Qed.

  Lemma run_log_tz : forall w tz1 tz2 o1 o2 R, options_eqv o1 o2 ->
    run_log NM (with_tz w tz1) o1 R = run_log NM (with_tz w tz2) o2 R.
  Proof.
    intros w tz1 tz2 o1 o2 R (H1 & H2 & H3 & H4 & H5 & Hb & He & H8).
    rewrite !run_log_with_tz. unfold run_log.
    rewrite H2, H3.
    destruct (open_all w [op_log o2]) as [[|olog [|x xs]]|]; try reflexivity.
    destruct (tokenize (op_fmt o2)) as [toks|]; [|reflexivity].
    rewrite (walk_depends_on_midnights NM R _ _ toks _ _ _ _ (same_inst_mid _ _ _ _ Hb He)). reflexivity.
  Qed.

  Lemma run_element_total_strip : forall w tz op x desc,
    run_element_total NM (with_tz w tz) op x desc = run_element_total NM w (strip op) x desc.
  Proof. intros. reflexivity. Qed.
  Lemma run_csv_db_strip : forall w tz op, run_csv_db NM (with_tz w tz) op = run_csv_db NM w (strip op).
  Proof. intros. reflexivity. Qed.
  Lemma run_csv_db_resolved_strip : forall w tz op,
    run_csv_db_resolved NM (with_tz w tz) op = run_csv_db_resolved NM w (strip op).
  Proof. intros. reflexivity. Qed.
  Lemma run_lint_tz : forall w tz f silent, run_lint NM (with_tz w tz) f silent = run_lint NM w f silent.
  Proof. intros. reflexivity. Qed.
  Lemma run_stats_strip : forall w tz op, run_stats NM (with_tz w tz) op = run_stats NM w (strip op).
  Proof. intros. reflexivity. Qed.

  (** the bounds [summary] builds, in two zones: no hypothesis any more (before fix 4fa5d57 the
      keyword [today] needed "now" to be a midnight and both offsets within a day) *)
  Lemma summary_bounds_tz : forall w tz1 tz2 now toks arg,
    match time_from_string (with_tz w tz1) now toks arg, time_from_string (with_tz w tz2) now toks arg with
    | inl e1, inl e2 => e1 = e2
    | inr t1, inr t2 => mid_eqv (Some (summary_begin t1)) (Some (summary_end t1))
                                (Some (summary_begin t2)) (Some (summary_end t2))
    | _, _ => False
    end.
  Proof.
    intros w tz1 tz2 now toks arg.
    rewrite (tfs_any_world (with_tz w tz1) (with_tz w tz2) now toks arg).
    destruct (time_from_string (with_tz w tz2) now toks arg) as [e|t]; [reflexivity|].
    intros c. reflexivity.
  Qed.

  (** the program: [w_tz] is not consulted by any command, with or without --today, for arbitrary
      offsets (before fix 4fa5d57: [summary today] had to run under --today in zones within a day) *)
  Theorem run_tz_general : forall w i tz1 tz2,
    run NM (with_tz w tz1) i = run NM (with_tz w tz2) i.
  Proof.
    (* [w_tz] is projected nowhere: the two sides are convertible.  The lemmas above ([load_tz],
       [run_db_log_tz], [summary_bounds_tz], ...) are the parts, kept for their own sake. *)
    intros w i tz1 tz2. reflexivity.
  Qed.

  Theorem run_ignores_process_zone : forall w i tz1 tz2,
    run NM (with_tz w tz1) i = run NM (with_tz w tz2) i.
  Proof. exact run_tz_general. Qed.

  (** C06, last sentence, as the brief states it; every offset whatsoever (the bound [tz_ok] of
      before fix 4fa5d57 is gone) *)
  Theorem tz_independent : forall w i s tz1 tz2,
    i_f_today i = Some s ->
    run NM (with_tz w tz1) i = run NM (with_tz w tz2) i.
  Proof. intros w i s tz1 tz2 _. apply run_tz_general. Qed.

  (** the same with the zone where it really enters now, the wall clock value: with --today neither
      the process zone nor the clock (read in whatever zone, at whatever instant) is consulted *)
  Theorem tz_independent_clock : forall w i s tz1 tz2 c1 c2,
    i_f_today i = Some s ->
    run NM (with_zone w tz1 c1) i = run NM (with_zone w tz2 c2) i.
  Proof.
    intros w i s tz1 tz2 c1 c2 Hs. unfold run.
    rewrite (load_today_ignores_zone_and_clock w i s tz1 tz2 c1 c2 Hs).
    destruct (load (with_zone w tz2 c2) i) as [e|op]; [reflexivity|].
    destruct (i_cmd i); reflexivity.
  Qed.

  (** ... and without --today only the calendar day the clock shows is consulted (fix F25) *)
  Theorem run_depends_on_clock_day_only : forall w i tz1 tz2 c1 c2,
    civ c1 = civ c2 ->
    run NM (with_zone w tz1 c1) i = run NM (with_zone w tz2 c2) i.
  Proof.
    intros w i tz1 tz2 c1 c2 Hc. unfold run.
    rewrite (load_depends_on_clock_day_only w i tz1 tz2 c1 c2 Hc).
    destruct (load (with_zone w tz2 c2) i) as [e|op]; [reflexivity|].
    destruct (i_cmd i); reflexivity.
  Qed.

  (** every command other than [summary today] is independent of [w_tz] with or without
      --today, for arbitrary (even absurd) offsets; since fix 4fa5d57 [summary today] is too
      ([run_ignores_process_zone]) *)
  Theorem tz_independent_unless_summary_today : forall w i tz1 tz2,
    i_cmd i <> CSummary (b "today") ->
    run NM (with_tz w tz1) i = run NM (with_tz w tz2) i.
  Proof. intros w i tz1 tz2 _. apply run_tz_general. Qed.
End Commands.
