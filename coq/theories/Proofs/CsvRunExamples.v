(** WP22: non-vacuity of the run-level C13 theorems on the exact-integer instance [ZNum]. *)
From Coq Require Import Permutation Sorted.
From HP Require Import Base.Bytes Base.Utf8 Base.Num Model.Scanner Model.Parser Model.Elements Model.Resolver
  Model.Dates Model.Tree Model.Writer Model.Csv Model.Reporters Model.Cli
  Spec.Agree2Spec Proofs.AgreeMiscStats Proofs.OrderSort Proofs.OrderSites Proofs.CsvWalk
  Proofs.CsvRunLog Proofs.CsvRunLogGen Proofs.CsvRunResolved Proofs.CsvRunAll.

Definition x_nl : bytes := [c_lf].

(** a 2-day log with a repeated food whose name contains a comma and quotes *)
Definition x_log : bytes :=
  b "2021/03/07" ++ x_nl ++ b "  soup, ""hot"" pot 2" ++ x_nl ++ b "  tea 1" ++ x_nl ++ b "  soup, ""hot"" pot 3" ++ x_nl ++
  b "2021/03/09" ++ x_nl ++ b "  tea 4" ++ x_nl.

(** a book with two recipes over basic ingredients *)
Definition x_book : bytes :=
  b "salad" ++ x_nl ++ b "  tomato 2" ++ x_nl ++ b "  oil 1" ++ x_nl ++
  b "tomato" ++ x_nl ++ b "  kcal 20" ++ x_nl ++ b "  water 1" ++ x_nl ++
  b "oil" ++ x_nl ++ b "  kcal 9" ++ x_nl.

Definition x_world (log : bytes) : world :=
  {| w_fs := [(b "log.yaml", FFile log); (b "food.yaml", FFile x_book)];
     w_default_config := b "/root/.hranoprovod/config"; w_tz := 0%Z; w_clock := time_of_civil (2021, 3, 10)%Z;
     w_or := {| o_resolve := @rev bytes; o_day := fun _ l => rev l; o_flush := @rev bytes |};
     w_sink := None; w_read_fault := [] |}.

Definition x_inv (cmd : command) (bg : option bytes) : invocation :=
  {| i_f_db := None; i_e_db := None; i_f_log := None; i_e_log := None; i_f_fmt := None; i_e_fmt := None;
     i_f_depth := None; i_e_depth := None; i_f_today := Some (b "2021/03/10"); i_f_config := None; i_e_config := None;
     i_no_database := false; i_g_begin := bg; i_g_end := None; i_l_begin := None; i_l_end := None;
     i_g_no_color := true; i_l_no_color := false; i_single_food := []; i_single_element := [];
     i_group_food := false; i_csv := false; i_no_totals := false; i_totals_only := false;
     i_shorten := false; i_old := false; i_template := None; i_collapse := false; i_collapse_last := false;
     i_desc := false; i_silent := false; i_cmd := cmd |}.

Lemma x_oracles_ok : forall log, oracles_ok (w_or (x_world log)).
Proof. intros log. repeat split; intros; apply order_oracle_rev. Qed.

(** the hypotheses of [csv_log_run_reads_back] hold, and the rows are the expected ones:
    the repeated food once, at its first position, with the summed quantity *)
Example x_csv_log : exists op,
  load (x_world x_log) (x_inv CCsvLog None) = inr op
  /\ i_cmd (x_inv CCsvLog None) = CCsvLog
  /\ w_sink (x_world x_log) = None
  /\ open_file (x_world x_log) (op_log op) = Some (OData x_log NoFault)
  /\ snd (scan x_log NoFault) = ScanEOF
  /\ no_parse_error ZNum (events ZNum x_log)
  /\ all_dated ZNum (rc_date (op_rc op)) (nodes_of ZNum (events ZNum x_log))
  /\ log_rows ZNum (rc_date (op_rc op)) (op_begin op) (op_end op) (nodes_of ZNum (events ZNum x_log))
     = [[b "2021-03-07"; b "soup, ""hot"" pot"; b "5"]; [b "2021-03-07"; b "tea"; b "1"]; [b "2021-03-09"; b "tea"; b "4"]]
  /\ out_stdout (run ZNum (x_world x_log) (x_inv CCsvLog None))
     = b "2021-03-07,""soup, """"hot"""" pot"",5" ++ x_nl ++ b "2021-03-07,tea,1" ++ x_nl ++ b "2021-03-09,tea,4" ++ x_nl.
Proof.
  eexists. split; [vm_compute; reflexivity|]. split; [reflexivity|]. split; [reflexivity|].
  split; [vm_compute; reflexivity|]. split; [vm_compute; reflexivity|].
  split; [apply no_err_b_sound; vm_compute; reflexivity|].
  split; [vm_compute; repeat constructor; discriminate|].
  split; vm_compute; reflexivity.
Qed.

(** the period filter is applied: with --begin 2021/03/08 only the second day is exported *)
Example x_csv_log_period : exists op,
  load (x_world x_log) (x_inv CCsvLog (Some (b "2021/03/08"))) = inr op
  /\ log_rows ZNum (rc_date (op_rc op)) (op_begin op) (op_end op) (nodes_of ZNum (events ZNum x_log))
     = [[b "2021-03-09"; b "tea"; b "4"]]
  /\ csv_decode (out_stdout (run ZNum (x_world x_log) (x_inv CCsvLog (Some (b "2021/03/08")))))
     = Some [[b "2021-03-09"; b "tea"; b "4"]].
Proof. eexists. split; [vm_compute; reflexivity|]. split; vm_compute; reflexivity. Qed.

(** [csv_log_run_general]: a malformed line on the second day -- the first day is exported,
    the output still decodes, the command fails with the parser's message *)
Definition x_log_bad : bytes :=
  b "2021/03/07" ++ x_nl ++ b "  tea 1" ++ x_nl ++ b "2021/03/09" ++ x_nl ++ b "  tea four" ++ x_nl ++
  b "2021/03/10" ++ x_nl ++ b "  tea 2" ++ x_nl.

Example x_csv_log_bad : exists op e,
  load (x_world x_log_bad) (x_inv CCsvLog None) = inr op
  /\ open_file (x_world x_log_bad) (op_log op) = Some (OData x_log_bad NoFault)
  /\ readable_as (OData x_log_bad NoFault) x_log_bad
  /\ log_walk ZNum (rc_date (op_rc op)) (op_begin op) (op_end op) (csv_delivered ZNum x_log_bad)
     = ([[b "2021-03-07"; b "tea"; b "1"]], Some (EParse e))
  /\ run ZNum (x_world x_log_bad) (x_inv CCsvLog None)
     = {| out_stdout := b "2021-03-07,tea,1" ++ x_nl; out_status := Failed (EParse e) |}.
Proof.
  eexists. eexists. split; [vm_compute; reflexivity|]. split; [vm_compute; reflexivity|].
  split; [reflexivity|]. split; vm_compute; reflexivity.
Qed.

(** the hypotheses of [csv_db_resolved_run_sorted] hold (map orders reversed at every site),
    and the rows are sorted by recipe, then element *)
Example x_csv_resolved : exists op o d,
  load (x_world x_log) (x_inv CCsvDbResolved None) = inr op
  /\ oracles_ok (w_or (x_world x_log))
  /\ w_sink (x_world x_log) = None
  /\ open_file (x_world x_log) (op_db op) = Some o
  /\ resolved_db ZNum (x_world x_log) op o = inr d
  /\ map (row_of_triple ZNum) (triples_of ZNum d (sort_bytes (keys d)))
     = [[b "oil"; b "kcal"; b "9"]; [b "salad"; b "kcal"; b "49"]; [b "salad"; b "water"; b "2"];
        [b "tomato"; b "kcal"; b "20"]; [b "tomato"; b "water"; b "1"]]
  /\ out_stdout (run ZNum (x_world x_log) (x_inv CCsvDbResolved None))
     = b "oil,kcal,9" ++ x_nl ++ b "salad,kcal,49" ++ x_nl ++ b "salad,water,2" ++ x_nl
       ++ b "tomato,kcal,20" ++ x_nl ++ b "tomato,water,1" ++ x_nl.
Proof.
  eexists. eexists. eexists. split; [vm_compute; reflexivity|]. split; [apply x_oracles_ok|]. split; [reflexivity|].
  split; [vm_compute; reflexivity|]. split; [vm_compute; reflexivity|]. split; vm_compute; reflexivity.
Qed.

(** [csv_exports_are_rfc4180] on a failing run: the book is a directory *)
Example x_csv_db_failing :
  let w := {| w_fs := [(b "food.yaml", FDir)]; w_default_config := b "/c"; w_tz := 0%Z;
              w_clock := time_of_civil (2021, 3, 10)%Z; w_or := w_or (x_world x_log); w_sink := None; w_read_fault := [] |} in
  w_sink w = None
  /\ out_status (run ZNum w (x_inv CCsvDb None)) = Failed (EScan false)
  /\ csv_decode (out_stdout (run ZNum w (x_inv CCsvDb None))) = Some [].
Proof. vm_compute. repeat split; reflexivity. Qed.
