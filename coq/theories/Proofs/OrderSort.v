(** WP19 / C05, part 1: byte-string equality and order facts, and the fact
    that insertion sort with a total, transitive, antisymmetric order is
    CANONICAL: two lists that are permutations of one another sort to the very
    same list.  Every [range]-over-a-map site of the model has the shape
    [sort_bytes (π keys)], so this is the lemma that removes the oracle. *)
From Coq Require Import Lia ZifyBool ZifyNat ZifyN Permutation Sorted.
From HP Require Import Base.Bytes.
From HP Require Import Spec.ResolverSpec.

(** * [beq] is Leibniz equality *)
Lemma beq_refl : forall x, beq x x = true.
Proof.
  induction x as [|a x IH]; cbn [beq]; [reflexivity|].
  rewrite N.eqb_refl, IH; reflexivity.
Qed.

Lemma beq_true_iff : forall x y, beq x y = true <-> x = y.
Proof.
  induction x as [|a x IH]; intros [|c y]; cbn [beq]; split; intros H;
    try reflexivity; try discriminate.
  - apply andb_true_iff in H; destruct H as [Hac Hxy].
    apply N.eqb_eq in Hac; apply IH in Hxy; subst; reflexivity.
  - injection H as Hac Hxy; subst. rewrite N.eqb_refl. cbn [andb]. apply beq_refl.
Qed.

Lemma beq_false_iff : forall x y, beq x y = false <-> x <> y.
Proof.
  intros x y; split.
  - intros H E; apply beq_true_iff in E; congruence.
  - intros H; destruct (beq x y) eqn:E; [apply beq_true_iff in E; contradiction|reflexivity].
Qed.

Lemma beq_spec : forall x y, reflect (x = y) (beq x y).
Proof.
  intros x y; destruct (beq x y) eqn:E; constructor.
  - apply beq_true_iff; exact E.
  - apply beq_false_iff; exact E.
Qed.

Lemma beq_sym : forall x y, beq x y = beq y x.
Proof.
  intros x y; destruct (beq_spec x y) as [E|E]; destruct (beq_spec y x) as [E'|E']; congruence.
Qed.

(** * [bltb] is a strict total order, [bleb] the matching total order *)
Lemma bltb_irrefl : forall x, bltb x x = false.
Proof.
  induction x as [|a x IH]; cbn [bltb]; [reflexivity|].
  destruct (N.ltb_spec a a) as [H|H]; [lia|exact IH].
Qed.

Lemma bltb_asym : forall x y, bltb x y = true -> bltb y x = false.
Proof.
  induction x as [|a x IH]; intros [|c y]; cbn [bltb]; intros H; try reflexivity; try discriminate.
  destruct (N.ltb_spec a c) as [H1|H1]; destruct (N.ltb_spec c a) as [H2|H2];
    try lia; try reflexivity; try discriminate.
  all: try (apply IH; exact H).
Qed.

Lemma bltb_trans : forall x y z, bltb x y = true -> bltb y z = true -> bltb x z = true.
Proof.
  induction x as [|a x IH]; intros [|c y] [|e z]; cbn [bltb]; intros H1 H2;
    try reflexivity; try discriminate.
  destruct (N.ltb_spec a c) as [Hac|Hac]; destruct (N.ltb_spec c a) as [Hca|Hca];
  destruct (N.ltb_spec c e) as [Hce|Hce]; destruct (N.ltb_spec e c) as [Hec|Hec];
  destruct (N.ltb_spec a e) as [Hae|Hae]; destruct (N.ltb_spec e a) as [Hea|Hea];
    try lia; try reflexivity; try discriminate.
  all: try (eapply IH; eassumption).
Qed.

(** trichotomy: neither smaller means equal *)
Lemma bltb_connected : forall x y, bltb x y = false -> bltb y x = false -> x = y.
Proof.
  induction x as [|a x IH]; intros [|c y]; cbn [bltb]; intros H1 H2;
    try reflexivity; try discriminate.
  destruct (N.ltb_spec a c) as [Hac|Hac]; destruct (N.ltb_spec c a) as [Hca|Hca];
    try lia; try discriminate.
  all: try (assert (a = c) by lia; subst; f_equal; apply IH; assumption).
Qed.

Lemma bleb_refl : forall x, bleb x x = true.
Proof. intros x; unfold bleb; rewrite bltb_irrefl; reflexivity. Qed.

Lemma bleb_total : forall x y, bleb x y = true \/ bleb y x = true.
Proof.
  intros x y; unfold bleb.
  destruct (bltb y x) eqn:E; [right|left; reflexivity].
  rewrite (bltb_asym _ _ E); reflexivity.
Qed.

Lemma bleb_antisym : forall x y, bleb x y = true -> bleb y x = true -> x = y.
Proof.
  intros x y H1 H2; unfold bleb in *.
  apply negb_true_iff in H1, H2. apply bltb_connected; assumption.
Qed.

Lemma bleb_trans : forall x y z, bleb x y = true -> bleb y z = true -> bleb x z = true.
Proof.
  intros x y z H1 H2; unfold bleb in *.
  apply negb_true_iff in H1, H2. apply negb_true_iff.
  destruct (bltb z x) eqn:E; [|reflexivity].
  (* z < x, not y < x, not z < y *)
  destruct (bltb x y) eqn:Exy.
  - (* z < x < y *) rewrite (bltb_trans _ _ _ E Exy) in H2; discriminate.
  - assert (x = y) by (apply bltb_connected; assumption). subst. congruence.
Qed.

Lemma bltb_bleb : forall x y, bltb x y = true -> bleb x y = true.
Proof. intros x y H; unfold bleb; rewrite (bltb_asym _ _ H); reflexivity. Qed.

(** * insertion sort over a total, transitive, antisymmetric boolean order *)
Section Canonical.
  Context {A : Type} (leb : A -> A -> bool).
  Hypothesis leb_total : forall x y, leb x y = true \/ leb y x = true.
  Hypothesis leb_trans : forall x y z, leb x y = true -> leb y z = true -> leb x z = true.
  Hypothesis leb_antisym : forall x y, leb x y = true -> leb y x = true -> x = y.

  Let le (x y : A) : Prop := leb x y = true.

  Lemma insert_sorted_perm : forall x l, Permutation (insert_sorted leb x l) (x :: l).
  Proof.
    intros x l; induction l as [|y r IH]; cbn [insert_sorted]; [reflexivity|].
    destruct (leb x y); [reflexivity|].
    rewrite IH. apply perm_swap.
  Qed.

  Lemma isort_perm : forall l, Permutation (isort leb l) l.
  Proof.
    induction l as [|x r IH]; cbn [isort]; [reflexivity|].
    rewrite insert_sorted_perm. constructor; exact IH.
  Qed.

  Lemma insert_sorted_sorted : forall x l,
    StronglySorted le l -> StronglySorted le (insert_sorted leb x l).
  Proof.
    intros x l Hs; induction Hs as [|y r Hr IH Hall]; cbn [insert_sorted].
    - constructor; constructor.
    - destruct (leb x y) eqn:E.
      + constructor; [constructor; assumption|].
        constructor; [exact E|].
        eapply Forall_impl; [|exact Hall]. intros z Hz. eapply leb_trans; [exact E|exact Hz].
      + constructor; [exact IH|].
        assert (Hyx : le y x) by (destruct (leb_total x y) as [H|H]; [congruence|exact H]).
        eapply Permutation_Forall; [symmetry; apply insert_sorted_perm|].
        constructor; assumption.
  Qed.

  Lemma isort_sorted : forall l, StronglySorted le (isort leb l).
  Proof.
    induction l as [|x r IH]; cbn [isort]; [constructor|].
    apply insert_sorted_sorted; exact IH.
  Qed.

  (** two sorted lists with the same elements are the same list *)
  Lemma sorted_perm_eq : forall l1 l2,
    StronglySorted le l1 -> StronglySorted le l2 -> Permutation l1 l2 -> l1 = l2.
  Proof.
    induction l1 as [|a l1 IH]; intros l2 H1 H2 HP.
    - apply Permutation_nil in HP; subst; reflexivity.
    - destruct l2 as [|c l2]; [symmetry in HP; apply Permutation_nil in HP; discriminate|].
      inversion H1 as [|a' l1' Hs1 Hall1]; subst.
      inversion H2 as [|c' l2' Hs2 Hall2]; subst.
      assert (Eac : a = c).
      { assert (Hin1 : In a (c :: l2)) by (eapply Permutation_in; [exact HP|left; reflexivity]).
        assert (Hin2 : In c (a :: l1)) by (eapply Permutation_in; [symmetry; exact HP|left; reflexivity]).
        destruct Hin1 as [E|Hin1]; [symmetry; exact E|].
        destruct Hin2 as [E|Hin2]; [exact E|].
        rewrite Forall_forall in Hall1, Hall2.
        apply leb_antisym; [apply Hall1; exact Hin2|apply Hall2; exact Hin1]. }
      subst c. f_equal. apply IH; try assumption.
      eapply Permutation_cons_inv; exact HP.
  Qed.

  Theorem isort_canonical : forall l l', Permutation l l' -> isort leb l = isort leb l'.
  Proof.
    intros l l' HP. apply sorted_perm_eq; try apply isort_sorted.
    rewrite !isort_perm. exact HP.
  Qed.

  (** a sorted list is a fixed point *)
  Lemma isort_sorted_id : forall l, StronglySorted le l -> isort leb l = l.
  Proof.
    intros l Hs. apply sorted_perm_eq; [apply isort_sorted|exact Hs|apply isort_perm].
  Qed.

  Lemma isort_idem : forall l, isort leb (isort leb l) = isort leb l.
  Proof. intros l; apply isort_sorted_id, isort_sorted. Qed.
End Canonical.

(** * [sort_bytes] *)
Definition ble (x y : bytes) : Prop := bleb x y = true.

Lemma sort_bytes_perm : forall l, Permutation (sort_bytes l) l.
Proof. intros l; apply isort_perm. Qed.

Lemma sort_bytes_sorted : forall l, StronglySorted ble (sort_bytes l).
Proof. intros l; apply (isort_sorted bleb bleb_total bleb_trans). Qed.

(** the brief's statement has [NoDup l] as a premise; it is not needed (the
    order is antisymmetric for Leibniz equality), so the stronger statement is
    proved and the brief's follows *)
Theorem sort_canonical_strong : forall l l', Permutation l l' -> sort_bytes l = sort_bytes l'.
Proof. intros l l'; apply (isort_canonical bleb bleb_total bleb_trans bleb_antisym). Qed.

Theorem sort_canonical : forall l l', NoDup l -> Permutation l l' -> sort_bytes l = sort_bytes l'.
Proof. intros l l' _; apply sort_canonical_strong. Qed.

Lemma sort_bytes_idem : forall l, sort_bytes (sort_bytes l) = sort_bytes l.
Proof. intros l; apply (isort_idem bleb bleb_total bleb_trans bleb_antisym). Qed.

Lemma sort_bytes_NoDup : forall l, NoDup l -> NoDup (sort_bytes l).
Proof. intros l H; eapply Permutation_NoDup; [symmetry; apply sort_bytes_perm|exact H]. Qed.

Lemma sort_bytes_in : forall x l, In x (sort_bytes l) <-> In x l.
Proof.
  intros x l; split; apply Permutation_in; [|symmetry]; apply sort_bytes_perm.
Qed.

(** THE site lemma: whatever two order oracles deliver for a key list, sorting erases it *)
Theorem sort_oracle : forall π l, order_oracle π -> sort_bytes (π l) = sort_bytes l.
Proof. intros π l H; apply sort_canonical_strong, H. Qed.

Theorem sort_oracle2 : forall π1 π2 l, order_oracle π1 -> order_oracle π2 ->
  sort_bytes (π1 l) = sort_bytes (π2 l).
Proof. intros π1 π2 l H1 H2; rewrite !sort_oracle by assumption; reflexivity. Qed.

(** local version: only the behaviour of the oracle ON THIS key list matters *)
Theorem sort_oracle_local : forall (π : list bytes -> list bytes) l,
  Permutation (π l) l -> sort_bytes (π l) = sort_bytes l.
Proof. intros π l H; apply sort_canonical_strong, H. Qed.

Lemma order_oracle_id : order_oracle (fun l => l).
Proof. intros l; reflexivity. Qed.

Lemma order_oracle_rev : order_oracle (@rev bytes).
Proof. intros l; symmetry; apply Permutation_rev. Qed.

(** a rotation, the shape Go's runtime actually produces for small maps *)
Lemma order_oracle_rot : forall k, order_oracle (fun l => skipn k l ++ firstn k l).
Proof.
  intros k l. rewrite Permutation_app_comm, firstn_skipn. reflexivity.
Qed.

(** Go's [sort.Strings] is not an insertion sort; it does not matter: ANY
    procedure that returns a sorted rearrangement of its input returns
    [sort_bytes] of it *)
Theorem sort_bytes_unique : forall l s : list bytes,
  Permutation s l -> StronglySorted ble s -> s = sort_bytes l.
Proof.
  intros l s HP Hs.
  apply (sorted_perm_eq bleb bleb_antisym); [exact Hs|apply sort_bytes_sorted|].
  rewrite HP. symmetry. apply sort_bytes_perm.
Qed.
