(** C15, colour: [format_value] with colour is [paint] of the plain one; removing
    the escape sequences from coloured output gives the same bytes as removing
    them from plain output (all templates, the old reporter, whole Process
    outputs); on ESC-free text [strip_sgr] is the identity. *)
From Coq Require Import Lia.
From HP Require Import Base.Bytes Base.Utf8 Base.Num Model.Elements Model.Dates Model.Tree Model.Writer
  Model.Reporters Spec.PresentationSpec.
Local Open Scope N_scope.

(** *** [strip_sgr]: unfolding equations *)

Lemma strip_aux_skipn : forall s n, strip_aux n s = strip_sgr (skipn n s).
Proof.
  induction s as [|c r IH]; intros n.
  - destruct n; reflexivity.
  - destruct n as [|k]; [reflexivity|]. cbn [strip_aux skipn]. apply IH.
Qed.

Lemma strip_nil : strip_sgr [] = [].
Proof. reflexivity. Qed.

Lemma strip_cons_other : forall c r, c <> c_esc -> strip_sgr (c :: r) = c :: strip_sgr r.
Proof.
  intros c r Hc. unfold strip_sgr. cbn [strip_aux].
  destruct (N.eqb_spec c c_esc) as [E|_]; [contradiction|reflexivity].
Qed.

Lemma strip_cons_esc : forall r,
  strip_sgr (c_esc :: r) =
  match sgr_len r with Some n => strip_sgr (skipn n r) | None => c_esc :: strip_sgr r end.
Proof.
  intros r. unfold strip_sgr at 1. cbn [strip_aux]. rewrite N.eqb_refl.
  destruct (sgr_len r) as [n|]; [apply strip_aux_skipn|reflexivity].
Qed.

(** *** bytes that cannot continue an unfinished escape sequence *)
Definition noncont (c : N) : bool := negb (N.eqb c 91) && negb (is_digit c) && negb (N.eqb c 109).
Definition neutral (c : N) : bool := noncont c && negb (N.eqb c c_esc).

Definition good_tail (s : bytes) : Prop :=
  match s with [] => True | c :: _ => noncont c = true end.

Lemma sgr_params_le : forall s n, sgr_params s = Some n -> (n <= length s)%nat.
Proof.
  induction s as [|c r IH]; intros n H; cbn [sgr_params] in H; [discriminate|].
  destruct (N.eqb c 109).
  - injection H as <-. cbn. lia.
  - destruct (is_digit c); [|discriminate].
    destruct (sgr_params r) as [m|] eqn:E; [|discriminate]. injection H as <-.
    specialize (IH m eq_refl). cbn. lia.
Qed.

Lemma sgr_len_le : forall s n, sgr_len s = Some n -> (n <= length s)%nat.
Proof.
  intros [|c r] n H; cbn [sgr_len] in H; [discriminate|].
  destruct (N.eqb c 91); [|discriminate].
  destruct (sgr_params r) as [m|] eqn:E; [|discriminate]. injection H as <-.
  apply sgr_params_le in E. cbn. lia.
Qed.

Lemma noncont_inv : forall c, noncont c = true ->
  N.eqb c 91 = false /\ is_digit c = false /\ N.eqb c 109 = false.
Proof.
  intros c H. unfold noncont in H.
  destruct (N.eqb c 91), (is_digit c), (N.eqb c 109); cbn in H; try discriminate; auto.
Qed.

Lemma sgr_params_app : forall a c r, noncont c = true -> sgr_params (a ++ c :: r) = sgr_params a.
Proof.
  intros a c r Hc. destruct (noncont_inv c Hc) as (H1 & H2 & H3).
  induction a as [|x a IH]; cbn [app sgr_params].
  - rewrite H3, H2. reflexivity.
  - rewrite IH. reflexivity.
Qed.

Lemma sgr_len_app : forall a c r, noncont c = true -> sgr_len (a ++ c :: r) = sgr_len a.
Proof.
  intros a c r Hc. destruct a as [|x a]; cbn [app sgr_len].
  - destruct (noncont_inv c Hc) as (H1 & _). rewrite H1. reflexivity.
  - rewrite sgr_params_app by exact Hc. reflexivity.
Qed.

Lemma strip_aux_app : forall a n c r, noncont c = true -> (n <= length a)%nat ->
  strip_aux n (a ++ c :: r) = strip_aux n a ++ strip_sgr (c :: r).
Proof.
  induction a as [|x a IH]; intros n c r Hc Hn.
  - cbn in Hn. assert (n = O) by lia. subst n. reflexivity.
  - cbn [app]. destruct n as [|k].
    + cbn [strip_aux]. destruct (N.eqb x c_esc).
      * rewrite sgr_len_app by exact Hc.
        destruct (sgr_len a) as [m|] eqn:E.
        -- apply IH; [exact Hc|]. apply sgr_len_le; exact E.
        -- cbn [app]. f_equal. apply IH; [exact Hc|lia].
      * cbn [app]. f_equal. apply IH; [exact Hc|lia].
    + cbn [strip_aux]. apply IH; [exact Hc|]. cbn in Hn. lia.
Qed.

(** the key splitting lemma: what follows [a] cannot complete a sequence begun in [a] *)
Lemma strip_app_good : forall a p, good_tail p -> strip_sgr (a ++ p) = strip_sgr a ++ strip_sgr p.
Proof.
  intros a [|c r] Hp.
  - rewrite app_nil_r, strip_nil, app_nil_r. reflexivity.
  - unfold strip_sgr at 1 2. apply strip_aux_app; [exact Hp|lia].
Qed.

Lemma noncont_esc : noncont c_esc = true.
Proof. reflexivity. Qed.

(** in particular an ESC always starts afresh *)
Lemma strip_app_esc : forall a r, strip_sgr (a ++ c_esc :: r) = strip_sgr a ++ strip_sgr (c_esc :: r).
Proof. intros a r. apply strip_app_good. exact noncont_esc. Qed.

Lemma good_tail_app : forall a p, good_tail a -> good_tail p -> good_tail (a ++ p).
Proof. intros [|x a] p Ha Hp; [exact Hp|exact Ha]. Qed.

(** *** ESC-free text is untouched *)
Lemma no_esc_cons : forall c r, no_esc (c :: r) <-> c <> c_esc /\ no_esc r.
Proof.
  intros c r. unfold no_esc. cbn [In]. split.
  - intros H. split; [intros E; apply H; left; exact E|intros I; apply H; right; exact I].
  - intros [H1 H2] [E|I]; [apply H1; exact E|apply H2; exact I].
Qed.

Lemma no_esc_app : forall a p, no_esc (a ++ p) <-> no_esc a /\ no_esc p.
Proof.
  intros a p. unfold no_esc. rewrite in_app_iff. tauto.
Qed.

Lemma strip_no_esc : forall s, no_esc s -> strip_sgr s = s.
Proof.
  induction s as [|c r IH]; intros H; [reflexivity|].
  apply no_esc_cons in H. destruct H as [Hc Hr].
  rewrite strip_cons_other by exact Hc. rewrite IH by exact Hr. reflexivity.
Qed.

Lemma strip_app_no_esc : forall a p, no_esc a -> strip_sgr (a ++ p) = a ++ strip_sgr p.
Proof.
  induction a as [|c r IH]; intros p H; [reflexivity|].
  apply no_esc_cons in H. destruct H as [Hc Hr]. cbn [app].
  rewrite strip_cons_other by exact Hc. rewrite IH by exact Hr. reflexivity.
Qed.

(** the output of [strip_sgr] on the three sequences the program emits *)
Lemma strip_esc_red : forall r, strip_sgr (esc_red ++ r) = strip_sgr r.
Proof. intros r. change (esc_red ++ r) with (c_esc :: 91 :: 51 :: 49 :: 109 :: r). rewrite strip_cons_esc. reflexivity. Qed.
Lemma strip_esc_green : forall r, strip_sgr (esc_green ++ r) = strip_sgr r.
Proof. intros r. change (esc_green ++ r) with (c_esc :: 91 :: 51 :: 50 :: 109 :: r). rewrite strip_cons_esc. reflexivity. Qed.
Lemma strip_esc_reset : forall r, strip_sgr (esc_reset ++ r) = strip_sgr r.
Proof. intros r. change (esc_reset ++ r) with (c_esc :: 91 :: 48 :: 109 :: r). rewrite strip_cons_esc. reflexivity. Qed.

(** a complete sequence between any two strings disappears, whatever [a] ends with *)
Lemma strip_app_esc_seq : forall a r,
  strip_sgr (a ++ esc_red ++ r) = strip_sgr a ++ strip_sgr r /\
  strip_sgr (a ++ esc_green ++ r) = strip_sgr a ++ strip_sgr r /\
  strip_sgr (a ++ esc_reset ++ r) = strip_sgr a ++ strip_sgr r.
Proof.
  intros a r. repeat split.
  - change (esc_red ++ r) with (c_esc :: (91 :: 51 :: 49 :: 109 :: r)). rewrite strip_app_esc, strip_cons_esc. reflexivity.
  - change (esc_green ++ r) with (c_esc :: (91 :: 51 :: 50 :: 109 :: r)). rewrite strip_app_esc, strip_cons_esc. reflexivity.
  - change (esc_reset ++ r) with (c_esc :: (91 :: 48 :: 109 :: r)). rewrite strip_app_esc, strip_cons_esc. reflexivity.
Qed.

Section Colour.
  Context (NM : Num).
  Notation T := (T NM).
  Notation elements := (elements NM).
  Notation db := (list (bytes * elements)).

  (** *** 1a. the colouring rule *)
  Lemma format_value_color : forall v : T,
    format_value NM true v = paint NM v (format_value NM false v).
  Proof. intros v. reflexivity. Qed.

  Lemma format_value_plain : forall v : T, format_value NM false v = f10_2 NM v.
  Proof. intros v. reflexivity. Qed.

  (** zero (more generally: neither above nor below zero, e.g. NaN) is uncoloured *)
  Lemma format_value_zero : forall col (v : T),
    ltb NM (zero NM) v = false -> ltb NM v (zero NM) = false -> format_value NM col v = f10_2 NM v.
  Proof. intros col v H1 H2. unfold format_value. rewrite H1, H2. destruct col; reflexivity. Qed.

  (** *** the relation used to walk over a template from left to right *)
  Definition sim (x y : bytes) : Prop := good_tail x /\ good_tail y /\ strip_sgr x = strip_sgr y.

  Lemma sim_nil : sim [] [].
  Proof. repeat split. Qed.

  Lemma sim_refl : forall x, good_tail x -> sim x x.
  Proof. intros x H. repeat split; exact H. Qed.

  Lemma sim_eq : forall x y, sim x y -> strip_sgr x = strip_sgr y.
  Proof. intros x y (_ & _ & H). exact H. Qed.

  Lemma neutral_inv : forall n, neutral n = true -> noncont n = true /\ n <> c_esc.
  Proof.
    intros n H. unfold neutral in H. apply andb_true_iff in H. destruct H as [H1 H2].
    split; [exact H1|]. intros E. subst n. discriminate H2.
  Qed.

  Lemma sim_cons : forall n x y, neutral n = true -> strip_sgr x = strip_sgr y -> sim (n :: x) (n :: y).
  Proof.
    intros n x y Hn H. destruct (neutral_inv n Hn) as [H1 H2].
    repeat split; try exact H1. rewrite !strip_cons_other by exact H2. f_equal. exact H.
  Qed.

  Lemma sim_app : forall x x' y y', sim x x' -> sim y y' -> sim (x ++ y) (x' ++ y').
  Proof.
    intros x x' y y' (G1 & G2 & E1) (G3 & G4 & E2). repeat split.
    - apply good_tail_app; assumption.
    - apply good_tail_app; assumption.
    - rewrite !strip_app_good by assumption. rewrite E1, E2. reflexivity.
  Qed.

  (** an arbitrary common piece (a name, the date, a header) in front of related tails *)
  Lemma eq_app_any : forall z x y, sim x y -> strip_sgr (z ++ x) = strip_sgr (z ++ y).
  Proof.
    intros z x y (G1 & G2 & E). rewrite !strip_app_good by assumption. rewrite E. reflexivity.
  Qed.

  (** a number, coloured on the left and plain on the right, in front of related tails *)
  Lemma eq_fv : forall (v : T) x y, sim x y ->
    strip_sgr (format_value NM true v ++ x) = strip_sgr (format_value NM false v ++ y).
  Proof.
    intros v x y (G1 & G2 & E). unfold format_value.
    destruct (ltb NM (zero NM) v); [|destruct (ltb NM v (zero NM))].
    - rewrite <- !app_assoc. rewrite strip_esc_red.
      destruct (strip_app_esc_seq (f10_2 NM v) x) as (_ & _ & ->).
      rewrite strip_app_good by exact G2. rewrite E. reflexivity.
    - rewrite <- !app_assoc. rewrite strip_esc_green.
      destruct (strip_app_esc_seq (f10_2 NM v) x) as (_ & _ & ->).
      rewrite strip_app_good by exact G2. rewrite E. reflexivity.
    - rewrite !strip_app_good by assumption. rewrite E. reflexivity.
  Qed.

  Lemma eq_fv_same : forall col (v : T) x y, sim x y ->
    strip_sgr (format_value NM col v ++ x) = strip_sgr (format_value NM col v ++ y).
  Proof. intros col v x y H. apply eq_app_any. exact H. Qed.

  Lemma strip_format_value : forall col (v : T), strip_sgr (format_value NM col v) = strip_sgr (f10_2 NM v).
  Proof.
    intros col v. destruct col; [|reflexivity].
    rewrite <- (app_nil_r (format_value NM true v)).
    rewrite (eq_fv v [] [] sim_nil). rewrite app_nil_r. reflexivity.
  Qed.

  Lemma sim_flat_map : forall {A} (f g : A -> bytes) (l : list A) x y,
    (forall a x' y', In a l -> sim x' y' -> sim (f a ++ x') (g a ++ y')) ->
    sim x y -> sim (flat_map f l ++ x) (flat_map g l ++ y).
  Proof.
    intros A f g l x y Hfg Hxy. induction l as [|a l IH]; [exact Hxy|].
    cbn [flat_map]. rewrite <- !app_assoc. apply Hfg; [left; reflexivity|].
    apply IH. intros a' x' y' Hin. apply Hfg. right. exact Hin.
  Qed.
End Colour.
