(** WP19 / C05, part 6 (beyond the brief): WHICH order the rows come out in.
    Under every admissible oracle the names of the rows of each site are
    exactly [sort_bytes (keys m)], and since the maps have pairwise different
    keys (OrderInv.v) that list is STRICTLY ascending in Go's string order:
    there is exactly one admissible row order, which is why no oracle can show. *)
From Coq Require Import Lia Permutation Sorted.
From HP Require Import Base.Bytes Base.Num Model.Elements Model.Resolver Model.Tree Model.Writer
  Model.Dates Model.Parser Model.Reporters Model.Cli.
From HP Require Import Spec.ResolverSpec Spec.TreeShared.
From HP Require Import Proofs.OrderSort Proofs.OrderSites Proofs.OrderInv.

Definition blt (x y : bytes) : Prop := bltb x y = true.

Lemma sorted_NoDup_strict : forall l : list bytes,
  StronglySorted ble l -> NoDup l -> StronglySorted blt l.
Proof.
  intros l Hs; induction Hs as [|a l Hl IH Hall]; intros Hnd; [constructor|].
  inversion Hnd as [|a' l' Hnotin Hnd']; subst.
  constructor; [apply IH; exact Hnd'|].
  rewrite Forall_forall in *. intros y Hy. specialize (Hall y Hy).
  unfold ble, bleb in Hall. apply negb_true_iff in Hall. unfold blt.
  destruct (bltb a y) eqn:E; [reflexivity|].
  exfalso. apply Hnotin. rewrite (bltb_connected a y E Hall). exact Hy.
Qed.

Theorem sort_bytes_strict : forall l, NoDup l -> StronglySorted blt (sort_bytes l).
Proof.
  intros l H. apply sorted_NoDup_strict; [apply sort_bytes_sorted|apply sort_bytes_NoDup; exact H].
Qed.

Lemma filter_some_map_names : forall (A : Type) (f : bytes -> option A) (nm : A -> bytes) (ks : list bytes),
  (forall k, In k ks -> exists a, f k = Some a /\ nm a = k) ->
  map nm (filter_some (map f ks)) = ks.
Proof.
  intros A f nm ks; induction ks as [|k r IH]; intros H; cbn [map filter_some]; [reflexivity|].
  destruct (H k (or_introl eq_refl)) as (a & Ea & En). rewrite Ea. cbn [map]. rewrite En.
  f_equal. apply IH. intros k' Hk'. apply H. right; exact Hk'.
Qed.

Section Rows.
  Context (NM : Num).
  Notation T := (T NM).
  Notation elements := (elements NM).
  Notation tree := (tree NM).

  Variable π : list bytes -> list bytes.
  Hypothesis Hπ : order_oracle π.

  Definition row_name (r : total_row NM) : bytes := fst (fst (fst r)).

  (** one total row per key, in sorted key order, whatever the oracle *)
  Theorem totals_row_names : forall acc : accumulator NM,
    map row_name (totals_of_acc NM π acc) = sort_bytes (keys acc).
  Proof.
    intros acc; unfold totals_of_acc. rewrite (sort_oracle π) by exact Hπ.
    apply filter_some_map_names. intros k Hk. apply (proj1 (sort_bytes_in _ _)) in Hk.
    destruct (In_lookup_Some k acc Hk) as [[p n] E]. rewrite E. eexists; split; reflexivity.
  Qed.

  Theorem totals_rows_strictly_ascending : forall acc : accumulator NM,
    NoDup (keys acc) -> StronglySorted blt (map row_name (totals_of_acc NM π acc)).
  Proof. intros acc H; rewrite totals_row_names. apply sort_bytes_strict; exact H. Qed.

  Theorem named_in_order_names : forall acc : elements,
    map fst (named_in_order NM π acc) = sort_bytes (keys acc).
  Proof.
    intros acc; unfold named_in_order. rewrite (sort_oracle π) by exact Hπ.
    apply filter_some_map_names. intros k Hk. apply (proj1 (sort_bytes_in _ _)) in Hk.
    destruct (In_lookup_Some k acc Hk) as [v E]. rewrite E. eexists; split; reflexivity.
  Qed.

  Theorem named_in_order_strictly_ascending : forall acc : elements,
    NoDup (keys acc) -> StronglySorted blt (map fst (named_in_order NM π acc)).
  Proof. intros acc H; rewrite named_in_order_names. apply sort_bytes_strict; exact H. Qed.

  Theorem unresolved_rows_strictly_ascending : forall l : list bytes,
    NoDup l -> StronglySorted blt (sort_bytes (π l)).
  Proof. intros l H; rewrite (sort_oracle π) by exact Hπ. apply sort_bytes_strict; exact H. Qed.

  (** ** trees *)
  Lemma order_tree_name : forall t : tree, t_name NM (order_tree NM π t) = t_name NM t.
  Proof. intros [n x ch]; reflexivity. Qed.

  Lemma find_child_In : forall k (l : list tree),
    In k (map (t_name NM) l) -> exists t, find_child NM k l = Some t /\ t_name NM t = k.
  Proof.
    intros k l; induction l as [|c r IH]; intros H; cbn [map In find_child] in *; [contradiction|].
    destruct (beq_spec k (t_name NM c)) as [E|E].
    - exists c; split; [reflexivity|symmetry; exact E].
    - destruct H as [H|H]; [congruence|apply IH; exact H].
  Qed.

  Lemma find_child_Some_In : forall k (l : list tree) t, find_child NM k l = Some t -> In t l.
  Proof.
    intros k l; induction l as [|c r IH]; intros t H; cbn [find_child] in H; [discriminate|].
    destruct (beq k (t_name NM c)); [injection H as E; subst; left; reflexivity|right; apply IH; exact H].
  Qed.

  Lemma filter_some_find_Forall : forall (P : tree -> Prop) (l : list tree) ks,
    Forall P l -> Forall P (filter_some (map (fun k => find_child NM k l) ks)).
  Proof.
    intros P l ks Hl; induction ks as [|k r IH]; cbn [map filter_some]; [constructor|].
    destruct (find_child NM k l) as [t|] eqn:E; [|exact IH].
    constructor; [|exact IH]. rewrite Forall_forall in Hl. apply Hl. eapply find_child_Some_In; exact E.
  Qed.

  Lemma order_tree_children_names_raw : forall n x (ch : list tree),
    map (t_name NM) (t_children NM (order_tree NM π (Node n x ch))) = sort_bytes (map (t_name NM) ch).
  Proof.
    intros n x ch; cbn [order_tree t_children].
    assert (En : map (t_name NM) (map (order_tree NM π) ch) = map (t_name NM) ch).
    { rewrite map_map. apply map_ext. intros c; apply order_tree_name. }
    rewrite En. rewrite (sort_oracle π) by exact Hπ.
    apply filter_some_map_names. intros k Hk. apply (proj1 (sort_bytes_in _ _)) in Hk.
    rewrite <- En in Hk. apply find_child_In; exact Hk.
  Qed.

  (** at every node: the children's names after ordering are the sorted names before *)
  Theorem order_tree_children_names : forall t : tree,
    map (t_name NM) (t_children NM (order_tree NM π t)) = sort_bytes (map (t_name NM) (t_children NM t)).
  Proof. intros [n x ch]; apply order_tree_children_names_raw. Qed.

  (** a tree all of whose nodes have their children in strictly ascending name order *)
  Inductive sorted_tree : tree -> Prop :=
  | ST : forall n x ch, StronglySorted blt (map (t_name NM) ch) -> Forall sorted_tree ch ->
                        sorted_tree (Node n x ch).

  Theorem order_tree_sorted : forall t : tree, wf_tree NM t -> sorted_tree (order_tree NM π t).
  Proof.
    fix IH 1. intros [n x ch] Hwf.
    apply wf_tree_Node in Hwf. destruct Hwf as [Hnd Hall].
    assert (Hch : Forall sorted_tree (map (order_tree NM π) ch)).
    { clear Hnd. induction ch as [|c r IHr]; cbn [map]; [constructor|].
      inversion Hall as [|c' r' Hc Hr]; subst.
      constructor; [apply IH; exact Hc|apply IHr; exact Hr]. }
    pose proof (order_tree_children_names_raw n x ch) as En.
    cbn [order_tree t_children] in En |- *.
    constructor.
    - rewrite En. apply sort_bytes_strict; exact Hnd.
    - apply filter_some_find_Forall; exact Hch.
  Qed.
End Rows.
