(** WP04 / C09 -- lint: every malformed line reported once, in file order;
    "No errors found" exactly when there is none. *)
From Coq Require Import Lia.
From HP Require Import Base.Bytes Base.Utf8 Base.Num Model.Scanner Model.Parser Model.Elements Model.Resolver
  Model.Dates Model.Tree Model.Writer Model.Reporters Model.Cli.
From HP Require Import Proofs.MalformedBase.
Open Scope N_scope.

Definition is_nil {A} (l : list A) : bool := match l with [] => true | _ :: _ => false end.

(** what lint prints for a list of parse errors: one line each *)
Definition lint_msgs (es : list perr) : bytes := concat (map (fun e => perr_message e ++ [c_lf]) es).

Definition no_errors_line : bytes := b "No errors found" ++ [c_lf].

(** * a parse-error line is never the "No errors found" line *)
Lemma perr_message_head : forall e, exists r, perr_message e = 98 :: r \/ perr_message e = 101 :: r.
Proof.
  intros [ln raw|txt ln raw]; cbn [perr_message].
  - eexists. left. cbn. reflexivity.
  - eexists. right. cbn. reflexivity.
Qed.

Lemma perr_line_not_no_errors : forall e, perr_message e ++ [c_lf] <> b "No errors found" ++ [c_lf].
Proof.
  intros e H. destruct (perr_message_head e) as [r [E|E]]; rewrite E in H; cbn in H; discriminate.
Qed.

Lemma perr_message_not_no_errors : forall e, perr_message e <> b "No errors found".
Proof.
  intros e H. destruct (perr_message_head e) as [r [E|E]]; rewrite E in H; cbn in H; discriminate.
Qed.

(** the text printed for a non-empty list of errors does not start like "No errors found" *)
Lemma lint_msgs_head : forall e es, exists r, lint_msgs (e :: es) = 98 :: r \/ lint_msgs (e :: es) = 101 :: r.
Proof.
  intros e es. unfold lint_msgs. cbn [map concat].
  destruct (perr_message_head e) as [r [E|E]]; rewrite E; eexists; [left|right]; cbn; reflexivity.
Qed.

Section Lint.
  Context (NM : Num).
  Notation event := (event NM).

  (** the callback of lint.go, as [run_lint] has it *)
  Section Callback.
    Context (cb : sink * bool -> event -> sink * bool * bool * option cerr).
    Hypothesis cb_eq : forall st ev,
      cb st ev = match ev with
                 | EErr e =>
                     let '(s', werr) := sink_write (fst st) (perr_message e ++ [c_lf]) in
                     ((s', true), werr, if werr then Some EWrite else None)
                 | ENode _ => (st, false, None)
                 end.

    Definition lint_step (st : sink * bool) (ev : event) : sink * bool :=
      match ev with
      | EErr e => ({| s_limit := None; s_got := s_got (fst st) ++ perr_message e ++ [c_lf] |}, true)
      | ENode _ => st
      end.

    Lemma lint_cb_step : forall st ev, sink_ok (fst st) ->
      cb st ev = (lint_step st ev, false, None) /\ sink_ok (fst (lint_step st ev)).
    Proof.
      intros st ev H. rewrite cb_eq. destruct ev as [n|e].
      - split; [reflexivity|exact H].
      - rewrite (sink_write_ok _ _ H). split; reflexivity.
    Qed.

    Lemma lint_fold : forall evs s fnd, sink_ok s ->
      fold_left lint_step evs (s, fnd)
      = ({| s_limit := None; s_got := s_got s ++ lint_msgs (errors_of NM evs) |},
         (fnd || negb (is_nil (errors_of NM evs)))%bool).
    Proof.
      induction evs as [|ev r IH]; intros s fnd H.
      - cbn. rewrite app_nil_r, orb_false_r. destruct s as [lim got]. cbn in H. unfold sink_ok in H. cbn in H.
        subst lim. reflexivity.
      - cbn [fold_left]. destruct ev as [n|e].
        + cbn [lint_step]. rewrite errors_of_cons_node. apply IH. exact H.
        + cbn [lint_step fst]. rewrite IH by reflexivity. rewrite errors_of_cons_err.
          cbn [s_got is_nil negb]. unfold lint_msgs. cbn [map concat].
          rewrite orb_true_r. rewrite <- !app_assoc. reflexivity.
    Qed.

    Lemma lint_loop : forall evs s fnd, sink_ok s ->
      drive_loop NM cb evs (s, fnd) = (fold_left lint_step evs (s, fnd), None)
      /\ sink_ok (fst (fold_left lint_step evs (s, fnd))).
    Proof.
      intros evs s fnd H.
      apply (drive_loop_through NM cb (fun st => sink_ok (fst st)) lint_step evs).
      - intros st ev _ Hst. apply lint_cb_step. exact Hst.
      - exact H.
    Qed.

    (** readable file: every event is seen, no error is returned *)
    Lemma lint_parse_readable : forall data s, sink_ok s -> readable data ->
      parse_stream NM cb data NoFault (s, false)
      = (({| s_limit := None; s_got := s_got s ++ lint_msgs (errors_of NM (events NM data)) |},
          negb (is_nil (errors_of NM (events NM data)))), None).
    Proof.
      intros data s Hs Hr. rewrite parse_stream_NoFault, Hr.
      destruct (lint_loop (loop_events NM data) s false Hs) as [E1 E2].
      rewrite (drive_eof NM cb _ _ _ _ E1).
      - rewrite (errors_of_events NM data). rewrite lint_fold by exact Hs. cbn [orb].
        destruct (last_node NM data) as [n|]; [|reflexivity].
        rewrite cb_eq. reflexivity.
      - intros n _. rewrite cb_eq. eauto.
    Qed.

    (** a line of 65536 bytes or more: the errors before it are printed, then ErrTooLong *)
    Lemma lint_parse_too_long : forall data s, sink_ok s -> ~ readable data ->
      parse_stream NM cb data NoFault (s, false)
      = (({| s_limit := None; s_got := s_got s ++ lint_msgs (errors_of NM (events NM data)) |},
          negb (is_nil (errors_of NM (events NM data)))), Some (inr ScanTooLong)).
    Proof.
      intros data s Hs Hr. rewrite parse_stream_NoFault, (not_readable _ Hr).
      destruct (lint_loop (loop_events NM data) s false Hs) as [E1 E2].
      rewrite (drive_too_long NM cb _ _ _ _ E1).
      rewrite (errors_of_events NM data). rewrite lint_fold by exact Hs. reflexivity.
    Qed.
  End Callback.

  Lemma open_all_one : forall w p o, open_file w p = Some o -> open_all w [p] = Some [o].
  Proof. intros w p o H. cbn [open_all]. rewrite H. reflexivity. Qed.

  (** * lint reports every malformed line once, in file order *)
  Theorem lint_reports_all : forall (w : world) (file data : bytes) (silent : bool),
    file <> [] ->
    file <> dev_null ->
    lookup file (w_fs w) = Some (FFile data) ->
    lookup file (w_read_fault w) = None ->
    w_sink w = None ->
    readable data ->
    run_lint NM w file silent =
      {| out_stdout := concat (map (fun e => perr_message e ++ [c_lf]) (errors_of NM (events NM data)))
                       ++ (if (is_nil (errors_of NM (events NM data)) && negb silent)%bool
                           then b "No errors found" ++ [c_lf] else []);
         out_status := Ok |}.
  Proof.
    intros w file data silent Hne Hnd Hfs Hrf Hsink Hr.
    assert (Hopen : open_file w file = Some (OData data NoFault))
      by (apply open_plain; repeat split; assumption).
    unfold run_lint. destruct file as [|c file']; [contradiction|].
    rewrite (open_all_one _ _ _ Hopen).
    rewrite parse_opened_data.
    erewrite lint_parse_readable; [|intros st ev; reflexivity|exact Hsink|exact Hr].
    cbn [fst snd]. rewrite negb_involutive. cbn [s_got app].
    fold (lint_msgs (errors_of NM (events NM data))).
    destruct (is_nil (errors_of NM (events NM data)) && negb silent)%bool.
    - rewrite sink_write_ok by reflexivity. reflexivity.
    - rewrite app_nil_r. reflexivity.
  Qed.

  (** a line too long for the scanner: the errors before it are still printed, status "token too long" *)
  Theorem lint_unreadable : forall (w : world) (file data : bytes) (silent : bool),
    file <> [] ->
    file <> dev_null ->
    lookup file (w_fs w) = Some (FFile data) ->
    lookup file (w_read_fault w) = None ->
    w_sink w = None ->
    ~ readable data ->
    run_lint NM w file silent =
      {| out_stdout := concat (map (fun e => perr_message e ++ [c_lf]) (errors_of NM (events NM data)));
         out_status := Failed (EScan true) |}.
  Proof.
    intros w file data silent Hne Hnd Hfs Hrf Hsink Hr.
    assert (Hopen : open_file w file = Some (OData data NoFault))
      by (apply open_plain; repeat split; assumption).
    unfold run_lint. destruct file as [|c file']; [contradiction|].
    rewrite (open_all_one _ _ _ Hopen).
    rewrite parse_opened_data.
    erewrite lint_parse_too_long; [|intros st ev; reflexivity|exact Hsink|exact Hr].
    cbn [fst snd]. reflexivity.
  Qed.

  (** * "No errors found" exactly when the file has no malformed line (and [--silent] is off) *)

  (** the lines lint prints (each is followed by LF in the output) *)
  Definition lint_lines (data : bytes) (silent : bool) : list bytes :=
    map perr_message (errors_of NM (events NM data))
    ++ (if (is_nil (errors_of NM (events NM data)) && negb silent)%bool then [b "No errors found"] else []).

  Lemma lint_stdout_lines : forall data silent,
    concat (map (fun e => perr_message e ++ [c_lf]) (errors_of NM (events NM data)))
    ++ (if (is_nil (errors_of NM (events NM data)) && negb silent)%bool then b "No errors found" ++ [c_lf] else [])
    = concat (map (fun l => l ++ [c_lf]) (lint_lines data silent)).
  Proof.
    intros data silent. unfold lint_lines. rewrite map_app, concat_app, map_map. f_equal.
    destruct (is_nil (errors_of NM (events NM data)) && negb silent)%bool; [|reflexivity].
    cbn [map concat]. rewrite app_nil_r. reflexivity.
  Qed.

  Lemma lint_lines_ok_iff : forall data silent,
    In (b "No errors found") (lint_lines data silent)
    <-> errors_of NM (events NM data) = [] /\ silent = false.
  Proof.
    intros data silent. unfold lint_lines. split.
    - intros H. apply in_app_or in H. destruct H as [H|H].
      + apply in_map_iff in H. destruct H as (e & He & _).
        exfalso. exact (perr_message_not_no_errors e He).
      + destruct (errors_of NM (events NM data)) as [|e es]; [|destruct H].
        destruct silent; [destruct H|]. split; reflexivity.
    - intros [H1 H2]. rewrite H1, H2. cbn. left. reflexivity.
  Qed.

  Theorem lint_ok_iff_clean : forall (w : world) (file data : bytes) (silent : bool),
    file <> [] ->
    file <> dev_null ->
    lookup file (w_fs w) = Some (FFile data) ->
    lookup file (w_read_fault w) = None ->
    w_sink w = None ->
    readable data ->
    (* the output is these lines, each terminated by LF ... *)
    out_stdout (run_lint NM w file silent) = concat (map (fun l => l ++ [c_lf]) (lint_lines data silent))
    (* ... "No errors found" is one of them exactly when the file is clean and --silent is off ... *)
    /\ (In (b "No errors found") (lint_lines data silent)
        <-> errors_of NM (events NM data) = [] /\ silent = false)
    (* ... and then it is the whole output; otherwise the output is the error lines only *)
    /\ (out_stdout (run_lint NM w file silent) = b "No errors found" ++ [c_lf]
        <-> errors_of NM (events NM data) = [] /\ silent = false)
    /\ (errors_of NM (events NM data) <> [] ->
        out_stdout (run_lint NM w file silent)
        = concat (map (fun e => perr_message e ++ [c_lf]) (errors_of NM (events NM data)))).
  Proof.
    intros w file data silent Hne Hnd Hfs Hrf Hsink Hr.
    rewrite (lint_reports_all w file data silent Hne Hnd Hfs Hrf Hsink Hr). cbn [out_stdout].
    split; [apply lint_stdout_lines|]. split; [apply lint_lines_ok_iff|]. split.
    - split.
      + intros H. destruct (errors_of NM (events NM data)) as [|e es] eqn:Ee.
        * destruct silent; [discriminate H|]. split; reflexivity.
        * exfalso. cbn [is_nil andb] in H. rewrite app_nil_r in H.
          fold (lint_msgs (e :: es)) in H.
          destruct (lint_msgs_head e es) as [r [E|E]]; rewrite E in H; cbn in H; discriminate.
      + intros [H1 H2]. rewrite H1, H2. reflexivity.
    - intros H. destruct (errors_of NM (events NM data)) as [|e es]; [contradiction|].
      cbn [is_nil andb]. apply app_nil_r.
  Qed.
End Lint.
