(** C15, colour, exact form: when the names, the date layout and the number
    formatter produce no ESC byte, the plain output contains none, so the
    coloured output with escape sequences removed IS the plain output. *)
From Coq Require Import Lia ZifyBool ZifyNat ZifyN.
From HP Require Import Base.Bytes Base.Utf8 Base.Num Base.GoFloat Model.Elements Model.Dates Model.Tree Model.Writer
  Model.Reporters Spec.PresentationSpec Proofs.PresentationStrip Proofs.PresentationColour Proofs.PresentationLayout.
Local Open Scope N_scope.

(** *** generic closure facts *)
Definition noescb (l : bytes) : bool := negb (existsb (N.eqb c_esc) l).

Lemma noescb_sound : forall l, noescb l = true -> no_esc l.
Proof.
  intros l H I. unfold noescb in H. apply negb_true_iff in H.
  assert (E : existsb (N.eqb c_esc) l = true).
  { apply existsb_exists. exists c_esc. split; [exact I|apply N.eqb_refl]. }
  rewrite E in H. discriminate H.
Qed.

Lemma no_esc_nil : no_esc [].
Proof. intros []. Qed.

Lemma no_esc_app_i : forall a p, no_esc a -> no_esc p -> no_esc (a ++ p).
Proof. intros a p Ha Hp. apply no_esc_app. split; assumption. Qed.

Lemma no_esc_brepeat : forall s n, no_esc s -> no_esc (brepeat s n).
Proof.
  intros s n Hs. induction n as [|n IH]; [exact no_esc_nil|].
  cbn [brepeat]. apply no_esc_app_i; assumption.
Qed.

Lemma no_esc_flat_map : forall {A} (f : A -> bytes) (l : list A),
  (forall x, In x l -> no_esc (f x)) -> no_esc (flat_map f l).
Proof.
  intros A f l H I. apply in_flat_map in I. destruct I as (x & Hx & Hin). exact (H x Hx Hin).
Qed.

Lemma no_esc_concat : forall (l : list bytes), (forall x, In x l -> no_esc x) -> no_esc (concat l).
Proof.
  intros l H I. apply in_concat in I. destruct I as (x & Hx & Hin). exact (H x Hx Hin).
Qed.

Lemma no_esc_firstn : forall n (s : bytes), no_esc s -> no_esc (firstn n s).
Proof.
  intros n s H I. apply H. rewrite <- (firstn_skipn n s). apply in_or_app. left. exact I.
Qed.

Lemma no_esc_skipn : forall n (s : bytes), no_esc s -> no_esc (skipn n s).
Proof.
  intros n s H I. apply H. rewrite <- (firstn_skipn n s). apply in_or_app. right. exact I.
Qed.

(** *** decimal numerals, dates *)
Lemma no_esc_dec_digits : forall fuel n acc, no_esc acc -> no_esc (dec_digits_fuel fuel n acc).
Proof.
  induction fuel as [|f IH]; intros n acc Hacc; [exact Hacc|].
  cbn [dec_digits_fuel].
  assert (Hd : no_esc ((48 + n mod 10) :: acc)).
  { apply no_esc_cons. split; [unfold c_esc; lia|exact Hacc]. }
  destruct (N.eqb (n / 10) 0); [exact Hd|]. apply IH. exact Hd.
Qed.

Lemma no_esc_dec_of_N : forall n, no_esc (dec_of_N n).
Proof. intros n. unfold dec_of_N. apply no_esc_dec_digits. exact no_esc_nil. Qed.

Lemma no_esc_dec_of_Z : forall z, no_esc (dec_of_Z z).
Proof.
  intros [|p|p]; cbn [dec_of_Z].
  - apply noescb_sound. reflexivity.
  - apply no_esc_dec_of_N.
  - apply no_esc_cons. split; [discriminate|apply no_esc_dec_of_N].
Qed.

Lemma no_esc_fmt_num : forall w v, no_esc (fmt_num w v).
Proof.
  intros w v. unfold fmt_num. apply no_esc_app_i; [|apply no_esc_dec_of_N].
  apply no_esc_brepeat. apply noescb_sound. reflexivity.
Qed.

Lemma no_esc_month_name : forall m, no_esc (month_name m).
Proof.
  intros m. unfold month_name.
  assert (H : forall (l : list bytes) n, (forall x, In x l -> no_esc x) -> no_esc (nth n l [])).
  { induction l as [|x l IH]; intros [|n] Hl; cbn [nth]; try exact no_esc_nil.
    - apply Hl. left. reflexivity.
    - apply IH. intros x0 Hx0. apply Hl. right. exact Hx0. }
  apply H. intros x Hx. apply noescb_sound. cbv [long_months In] in Hx.
  repeat (destruct Hx as [<-|Hx]; [reflexivity|]). destruct Hx.
Qed.

Lemma no_esc_format_date : forall toks civ, ~ In (Lit c_esc) toks -> no_esc (format_date toks civ).
Proof.
  intros toks [[y m] d] H. unfold format_date. apply no_esc_concat. intros x Hx.
  apply in_map_iff in Hx. destruct Hx as (t & <- & Ht).
  destruct t as [| | | | | | | |c]; cbn [format_tok]; try apply no_esc_fmt_num.
  - apply no_esc_app_i; [|apply no_esc_fmt_num]. destruct (d <? 10)%Z; [apply noescb_sound; reflexivity|exact no_esc_nil].
  - apply no_esc_firstn, no_esc_month_name.
  - apply no_esc_month_name.
  - apply no_esc_cons. split; [|exact no_esc_nil]. intros E. subst c. exact (H Ht).
Qed.

(** *** runes: a rune 27 can only come from a byte 27, and is only encoded as one *)
Lemma decode_rune_esc : forall s r rest, decode_rune s = Some (r, rest) ->
  (r = c_esc -> In c_esc s) /\ incl rest s.
Proof.
  intros s r rest H. unfold decode_rune in H. cbv zeta in H. destruct s as [|c0 r0]; [discriminate H|].
  destruct (N.ltb_spec c0 128) as [L|L].
  { injection H as <- <-. split; [intros ->; left; reflexivity|apply incl_tl, incl_refl]. }
  assert (Herr : forall t, Some (rune_error, r0) = Some (r, t) ->
                           (r = c_esc -> In c_esc (c0 :: r0)) /\ incl t (c0 :: r0)).
  { intros t E. injection E as <- <-. split; [intros E; discriminate E|apply incl_tl, incl_refl]. }
  destruct ((194 <=? c0) && (c0 <=? 223)) eqn:E2.
  { apply andb_true_iff in E2. destruct E2 as [A B]. apply N.leb_le in A, B.
    destruct r0 as [|c1 r1]; [apply Herr; exact H|].
    destruct (is_cont c1); [|apply Herr; exact H].
    injection H as <- <-. split; [unfold c_esc; intros E; lia|apply incl_tl, incl_tl, incl_refl]. }
  destruct ((224 <=? c0) && (c0 <=? 239)) eqn:E3.
  { apply andb_true_iff in E3. destruct E3 as [A B]. apply N.leb_le in A, B.
    destruct r0 as [|c1 [|c2 r2]]; try (apply Herr; exact H).
    destruct (((if c0 =? 224 then 160 else 128) <=? c1) && (c1 <=? (if c0 =? 237 then 159 else 191)) && is_cont c2)
      eqn:C; [|apply Herr; exact H].
    apply andb_true_iff in C. destruct C as [C _]. apply andb_true_iff in C. destruct C as [C _].
    apply N.leb_le in C.
    injection H as <- <-. split; [|apply incl_tl, incl_tl, incl_tl, incl_refl].
    unfold c_esc. intros E. destruct (N.eqb_spec c0 224) as [E0|E0]; lia. }
  destruct ((240 <=? c0) && (c0 <=? 244)) eqn:E4.
  { apply andb_true_iff in E4. destruct E4 as [A B]. apply N.leb_le in A, B.
    destruct r0 as [|c1 [|c2 [|c3 r3]]]; try (apply Herr; exact H).
    destruct (((if c0 =? 240 then 144 else 128) <=? c1) && (c1 <=? (if c0 =? 244 then 143 else 191))
              && is_cont c2 && is_cont c3) eqn:C; [|apply Herr; exact H].
    apply andb_true_iff in C. destruct C as [C _]. apply andb_true_iff in C. destruct C as [C _].
    apply andb_true_iff in C. destruct C as [C _]. apply N.leb_le in C.
    injection H as <- <-. split; [|apply incl_tl, incl_tl, incl_tl, incl_tl, incl_refl].
    unfold c_esc. intros E. destruct (N.eqb_spec c0 240) as [E0|E0]; lia. }
  apply Herr. exact H.
Qed.

Lemma runes_fuel_esc : forall f s, In c_esc (map fst (runes_fuel f s)) -> In c_esc s.
Proof.
  induction f as [|f IH]; intros s H; [destruct H|].
  cbn [runes_fuel] in H. destruct (decode_rune s) as [[r rest]|] eqn:E; [|destruct H].
  destruct (decode_rune_esc s r rest E) as [H1 H2].
  cbn [map fst In] in H. destruct H as [H|H].
  - apply H1. exact H.
  - apply H2. apply IH. exact H.
Qed.

Lemma rune_values_esc : forall s, In c_esc (rune_values s) -> In c_esc s.
Proof. intros s. unfold rune_values, runes. apply runes_fuel_esc. Qed.

Lemma encode_rune_esc : forall x, In c_esc (encode_rune x) -> x = c_esc.
Proof.
  intros x H. unfold encode_rune in H. unfold c_esc in *.
  destruct (N.ltb_spec x 128) as [A|A].
  { destruct H as [H|[]]. exact H. }
  destruct (N.ltb_spec x 2048) as [B|B].
  { cbn [In] in H. lia. }
  destruct ((55296 <=? x) && (x <=? 57343)).
  { cbn [In] in H. lia. }
  destruct (N.ltb_spec x 65536) as [C|C].
  { cbn [In] in H. lia. }
  destruct (N.ltb_spec x 1114112) as [D|D]; cbn [In] in H; lia.
Qed.

Lemma encode_runes_esc : forall l, In c_esc (encode_runes l) -> In c_esc l.
Proof.
  intros l H. unfold encode_runes in H. apply in_concat in H. destruct H as (bs & Hbs & Hin).
  apply in_map_iff in Hbs. destruct Hbs as (x & <- & Hx).
  apply encode_rune_esc in Hin. subst x. exact Hx.
Qed.

Lemma In_firstn' : forall {A} n (l : list A) x, In x (firstn n l) -> In x l.
Proof. intros A n l x I. rewrite <- (firstn_skipn n l). apply in_or_app. left. exact I. Qed.

Lemma In_skipn' : forall {A} n (l : list A) x, In x (skipn n l) -> In x l.
Proof. intros A n l x I. rewrite <- (firstn_skipn n l). apply in_or_app. right. exact I. Qed.

Lemma no_esc_truncate_middle : forall s w, no_esc s -> no_esc (truncate_middle s w).
Proof.
  intros s w Hs. unfold truncate_middle.
  assert (Hr : ~ In c_esc (rune_values s)) by (intros I; apply Hs; apply rune_values_esc; exact I).
  destruct (Nat.leb _ w); [exact Hs|].
  destruct (Nat.ltb w 3).
  - intros I. apply encode_runes_esc in I. apply Hr. exact (In_firstn' _ _ _ I).
  - intros I. apply encode_runes_esc in I. apply in_app_or in I. destruct I as [I|I].
    + apply Hr. exact (In_firstn' _ _ _ I).
    + apply in_app_or in I. destruct I as [I|I].
      * destruct I as [I|[]]. discriminate I.
      * apply Hr. exact (In_skipn' _ _ _ I).
Qed.

Lemma no_esc_shorten : forall on s w, no_esc s -> no_esc (shorten on s w).
Proof. intros [|] s w H; [apply no_esc_truncate_middle; exact H|exact H]. Qed.

Lemma no_esc_pad_left : forall w s, no_esc s -> no_esc (pad_left w s).
Proof.
  intros w s H. unfold pad_left. apply no_esc_app_i; [|exact H].
  apply no_esc_brepeat. apply noescb_sound. reflexivity.
Qed.

Lemma no_esc_pad_right : forall w s, no_esc s -> no_esc (pad_right w s).
Proof.
  intros w s H. unfold pad_right. apply no_esc_app_i; [exact H|].
  apply no_esc_brepeat. apply noescb_sound. reflexivity.
Qed.

Ltac lit := apply noescb_sound; reflexivity.

Section NoEsc.
  Context (NM : Num).
  Notation T := (T NM).
  Notation elements := (elements NM).
  Notation db := (list (bytes * elements)).

  Lemma no_esc_plain_value : fmt_no_esc NM -> forall v : T, no_esc (format_value NM false v).
  Proof.
    intros F v. unfold format_value, f10_2, f2. apply no_esc_pad_left. apply F.
  Qed.

  Context (F : fmt_no_esc NM).

  (** *** the plain outputs are ESC-free *)
  Lemma no_esc_render_default : forall (c : rconfig) (it : report_item NM),
    date_no_esc c -> item_names_no_esc NM it -> no_esc (render_default NM (set_color c false) it).
  Proof.
    intros c it Hd [He Ht]. unfold render_default, fdate. cbn [set_color rc_color rc_shorten rc_date].
    apply no_esc_app_i; [apply no_esc_format_date; exact Hd|].
    apply no_esc_app_i.
    - apply no_esc_flat_map. intros [[name v] ings] Hin. destruct (He name v ings Hin) as [Hn Hi].
      apply no_esc_app_i; [lit|]. apply no_esc_app_i; [apply no_esc_pad_right, no_esc_shorten; exact Hn|].
      apply no_esc_app_i; [lit|]. apply no_esc_app_i; [apply no_esc_plain_value; exact F|].
      apply no_esc_flat_map. intros i Hiin.
      apply no_esc_app_i; [lit|]. apply no_esc_app_i; [apply no_esc_pad_left, no_esc_shorten, Hi; exact Hiin|].
      apply no_esc_app_i; [lit|]. apply no_esc_plain_value; exact F.
    - apply no_esc_app_i; [|lit].
      destruct (ri_totals NM it) as [ts|]; [|exact no_esc_nil].
      apply no_esc_app_i; [lit|]. apply no_esc_app_i; [lit|].
      apply no_esc_flat_map. intros [[[name p] n] s] Hin. pose proof (Ht ts eq_refl name p n s Hin) as Hn.
      apply no_esc_app_i; [lit|]. apply no_esc_app_i; [apply no_esc_pad_left, no_esc_shorten; exact Hn|].
      apply no_esc_app_i; [lit|]. apply no_esc_app_i; [apply no_esc_plain_value; exact F|].
      apply no_esc_app_i; [lit|]. apply no_esc_app_i; [apply no_esc_plain_value; exact F|].
      apply no_esc_app_i; [lit|]. apply no_esc_plain_value; exact F.
  Qed.

  Lemma no_esc_render_left : forall (c : rconfig) (it : report_item NM),
    date_no_esc c -> item_names_no_esc NM it -> no_esc (render_left NM (set_color c false) it).
  Proof.
    intros c it Hd [He Ht]. unfold render_left, fdate. cbn [set_color rc_color rc_shorten rc_date].
    apply no_esc_app_i; [apply no_esc_format_date; exact Hd|].
    apply no_esc_app_i.
    - apply no_esc_flat_map. intros [[name v] ings] Hin. destruct (He name v ings Hin) as [Hn Hi].
      apply no_esc_app_i; [lit|]. apply no_esc_app_i; [lit|].
      apply no_esc_app_i; [apply no_esc_plain_value; exact F|].
      apply no_esc_app_i; [lit|]. apply no_esc_app_i; [exact Hn|].
      apply no_esc_flat_map. intros i Hiin.
      apply no_esc_app_i; [lit|]. apply no_esc_app_i; [lit|].
      apply no_esc_app_i; [apply no_esc_plain_value; exact F|].
      apply no_esc_app_i; [lit|]. apply Hi. exact Hiin.
    - apply no_esc_app_i; [|lit].
      destruct (ri_totals NM it) as [ts|]; [|exact no_esc_nil].
      apply no_esc_app_i; [lit|]. apply no_esc_app_i; [lit|].
      apply no_esc_flat_map. intros [[[name p] n] s] Hin. pose proof (Ht ts eq_refl name p n s Hin) as Hn.
      apply no_esc_app_i; [lit|]. apply no_esc_app_i; [lit|].
      apply no_esc_app_i; [apply no_esc_plain_value; exact F|].
      apply no_esc_app_i; [lit|]. apply no_esc_app_i; [apply no_esc_plain_value; exact F|].
      apply no_esc_app_i; [lit|]. apply no_esc_app_i; [apply no_esc_plain_value; exact F|].
      apply no_esc_app_i; [lit|]. exact Hn.
  Qed.

  Lemma no_esc_render_summary : forall (c : rconfig) (it : report_item NM),
    date_no_esc c -> item_names_no_esc NM it -> no_esc (render_summary NM (set_color c false) it).
  Proof.
    intros c it Hd [He Ht]. unfold render_summary, fdate. cbn [set_color rc_color rc_shorten rc_date].
    apply no_esc_app_i; [apply no_esc_format_date; exact Hd|].
    apply no_esc_app_i; [lit|].
    apply no_esc_app_i.
    - destruct (ri_totals NM it) as [ts|]; [|exact no_esc_nil].
      apply no_esc_flat_map. intros [[[name p] n] s] Hin. pose proof (Ht ts eq_refl name p n s Hin) as Hn.
      apply no_esc_app_i; [lit|]. apply no_esc_app_i; [apply no_esc_plain_value; exact F|].
      apply no_esc_app_i; [lit|]. exact Hn.
    - apply no_esc_app_i; [lit|]. apply no_esc_app_i; [lit|]. apply no_esc_app_i; [|lit].
      apply no_esc_flat_map. intros [[name v] ings] Hin. destruct (He name v ings Hin) as [Hn _].
      apply no_esc_app_i; [lit|]. apply no_esc_app_i; [apply no_esc_plain_value; exact F|].
      apply no_esc_app_i; [lit|]. exact Hn.
  Qed.

  (** *** the exact form of the colour clause *)
  Theorem color_strip_default_exact : forall (c : rconfig) (it : report_item NM),
    date_no_esc c -> item_names_no_esc NM it ->
    strip_sgr (render_default NM (set_color c true) it) = render_default NM (set_color c false) it.
  Proof.
    intros c it Hd Hi. apply color_strip_default_plain. apply no_esc_render_default; assumption.
  Qed.

  Theorem color_strip_left_exact : forall (c : rconfig) (it : report_item NM),
    date_no_esc c -> item_names_no_esc NM it ->
    strip_sgr (render_left NM (set_color c true) it) = render_left NM (set_color c false) it.
  Proof.
    intros c it Hd Hi. apply color_strip_left_plain. apply no_esc_render_left; assumption.
  Qed.

  Theorem color_strip_summary_exact : forall (c : rconfig) (it : report_item NM),
    date_no_esc c -> item_names_no_esc NM it ->
    strip_sgr (render_summary NM (set_color c true) it) = render_summary NM (set_color c false) it.
  Proof.
    intros c it Hd Hi. apply color_strip_summary_plain. apply no_esc_render_summary; assumption.
  Qed.
End NoEsc.

(** *** from the inputs of [get_report_item] to the item *)
Lemma beq_eq : forall x y, beq x y = true -> x = y.
Proof.
  induction x as [|a x IH]; intros [|c y] H; cbn [beq] in H; try discriminate H; [reflexivity|].
  apply andb_true_iff in H. destruct H as [H1 H2]. apply N.eqb_eq in H1. subst c.
  rewrite (IH y H2). reflexivity.
Qed.

Lemma lookup_in : forall {V} k (l : list (bytes * V)) v, lookup k l = Some v -> In (k, v) l.
Proof.
  intros V k l v. induction l as [|[k' v'] l IH]; intros H; cbn [lookup] in H; [discriminate H|].
  destruct (beq k k') eqn:E.
  - injection H as <-. apply beq_eq in E. subst k'. left. reflexivity.
  - right. apply IH. exact H.
Qed.

Lemma set_in : forall {V} k (v : V) l k' v', In (k', v') (set k v l) -> k' = k \/ In (k', v') l.
Proof.
  intros V k v l k' v'. induction l as [|[k0 v0] l IH]; intros H; cbn [set] in H.
  - destruct H as [H|[]]. injection H as <- <-. left. reflexivity.
  - destruct (beq k k0).
    + destruct H as [H|H]; [injection H as <- <-; left; reflexivity|right; right; exact H].
    + destruct H as [H|H]; [right; left; exact H|].
      destruct (IH H) as [E|I]; [left; exact E|right; right; exact I].
Qed.

Section Inputs.
  Context (NM : Num).
  Notation T := (T NM).
  Notation elements := (elements NM).
  Notation db := (list (bytes * elements)).

  Definition keys_no_esc {V} (l : list (bytes * V)) : Prop := forall k v, In (k, v) l -> no_esc k.

  Lemma acc_add_keys : forall name (v : T) acc, no_esc name -> keys_no_esc acc -> keys_no_esc (acc_add NM name v acc).
  Proof.
    intros name v acc Hn Hacc k pn H. unfold acc_add in H.
    destruct (lookup name acc) as [[p n]|].
    - apply set_in in H. destruct H as [->|H]; [exact Hn|exact (Hacc k pn H)].
    - apply in_app_or in H. destruct H as [H|[H|[]]]; [exact (Hacc k pn H)|].
      injection H as <- _. exact Hn.
  Qed.

  Lemma accumulate_keys : forall cs : elements, keys_no_esc cs -> keys_no_esc (accumulate NM cs).
  Proof.
    intros cs Hcs. unfold accumulate.
    assert (G : forall (l : elements) acc, keys_no_esc l -> keys_no_esc acc ->
                keys_no_esc (fold_left (fun acc nv => acc_add NM (fst nv) (snd nv) acc) l acc)).
    { induction l as [|[n v] l IH]; intros acc Hl Hacc; [exact Hacc|].
      cbn [fold_left fst snd]. apply IH.
      - intros k x Hin. apply (Hl k x). right. exact Hin.
      - apply acc_add_keys; [apply (Hl n v); left; reflexivity|exact Hacc]. }
    apply G; [exact Hcs|]. intros k v [].
  Qed.

  Lemma ingredients_keys : forall (d : db) name (v : T),
    no_esc name -> (forall k els, In (k, els) d -> forall i, In i els -> no_esc (fst i)) ->
    keys_no_esc (ingredients_of NM d name v).
  Proof.
    intros d name v Hn Hd k x H. unfold ingredients_of in H.
    destruct (lookup name d) as [els|] eqn:E.
    - apply in_map_iff in H. destruct H as (nx & Heq & Hin). injection Heq as <- _.
      apply (Hd name els (lookup_in _ _ _ E) nx Hin).
    - destruct H as [H|[]]. injection H as <- _. exact Hn.
  Qed.

  Lemma totals_of_acc_names : forall perm (acc : accumulator NM), keys_no_esc acc ->
    forall name p n s, In (name, p, n, s) (totals_of_acc NM perm acc) -> no_esc name.
  Proof.
    intros perm acc Hacc name p n s H. unfold totals_of_acc in H.
    induction (sort_bytes (perm (keys acc))) as [|k l IH]; [destruct H|].
    cbn [map filter_some] in H. destruct (lookup k acc) as [[p' n']|] eqn:E.
    - cbn [filter_some] in H. destruct H as [H|H]; [|exact (IH H)].
      injection H as <- _ _ _. exact (Hacc k (p', n') (lookup_in _ _ _ E)).
    - exact (IH H).
  Qed.

  Theorem get_report_item_names : forall (c : rconfig) perm (d : db) (ln : lognode NM),
    day_names_no_esc NM d ln -> item_names_no_esc NM (get_report_item NM c perm d ln).
  Proof.
    intros c perm d ln [Hln Hd]. unfold get_report_item, item_names_no_esc. cbn [ri_elements ri_totals]. split.
    - intros name v ings H. destruct (rc_totals_only c); [destruct H|].
      unfold report_elements in H. apply in_map_iff in H. destruct H as (nv & Heq & Hin).
      injection Heq as <- <- <-. split; [exact (Hln nv Hin)|].
      intros i Hi. destruct i as [k x]. exact (ingredients_keys d (fst nv) (snd nv) (Hln nv Hin) Hd k x Hi).
    - intros ts H. destruct (rc_totals c); [|discriminate H]. injection H as <-.
      apply totals_of_acc_names. apply accumulate_keys.
      intros k x Hin. unfold contributions in Hin. apply in_flat_map in Hin. destruct Hin as (nv & Hnv & Hin).
      exact (ingredients_keys d (fst nv) (snd nv) (Hln nv Hnv) Hd k x Hin).
  Qed.

  (** the colour clause for what the template reporters write for a day, from hypotheses on the inputs *)
  Theorem color_strip_day_exact : forall (c : rconfig) (d : db) perm st (ln : lognode NM),
    fmt_no_esc NM -> date_no_esc c -> day_names_no_esc NM d ln ->
    strip_sgr (process_bytes NM (rep_template NM (set_color c true) d) perm st ln)
    = process_bytes NM (rep_template NM (set_color c false) d) perm st ln.
  Proof.
    intros c d perm st ln F Hd Hn.
    pose proof (get_report_item_names (set_color c false) perm d ln Hn) as Hit.
    unfold process_bytes, process_chunks, rep_template.
    cbn [r_process fst snd checked chunk_bytes map concat]. rewrite !app_nil_r.
    cbn [set_color rc_template].
    change (get_report_item NM (set_color c true) perm d ln) with (get_report_item NM (set_color c false) perm d ln).
    destruct (beq (rc_template c) (b "left-aligned")).
    - apply color_strip_left_exact; assumption.
    - apply color_strip_default_exact; assumption.
  Qed.

  Theorem color_strip_day_summary_exact : forall (c : rconfig) (d : db) perm st (ln : lognode NM),
    fmt_no_esc NM -> date_no_esc c -> day_names_no_esc NM d ln ->
    strip_sgr (process_bytes NM (rep_summary NM (set_color c true) d) perm st ln)
    = process_bytes NM (rep_summary NM (set_color c false) d) perm st ln.
  Proof.
    intros c d perm st ln F Hd Hn.
    pose proof (get_report_item_names (set_color c false) perm d ln Hn) as Hit.
    unfold process_bytes, process_chunks, rep_summary.
    cbn [r_process fst snd checked chunk_bytes map concat]. rewrite !app_nil_r.
    change (get_report_item NM (set_color c true) perm d ln) with (get_report_item NM (set_color c false) perm d ln).
    apply color_strip_summary_exact; assumption.
  Qed.
End Inputs.

Section OldExact.
  Context (NM : Num) (F : fmt_no_esc NM).
  Notation T := (T NM).
  Notation elements := (elements NM).
  Notation db := (list (bytes * elements)).

  Lemma no_esc_render_old : forall (c : rconfig) (h : bool) (it : report_item NM),
    date_no_esc c -> item_names_no_esc NM it -> no_esc (render_with NM (layout_old h) (set_color c false) it).
  Proof.
    intros c h it Hd [He Ht]. unfold render_with, fdate.
    cbn [layout_old ly_date ly_food ly_ing ly_header ly_total ly_end set_color rc_color rc_shorten rc_date].
    apply no_esc_app_i; [apply no_esc_app_i; [apply no_esc_format_date; exact Hd|lit]|].
    apply no_esc_app_i.
    - apply no_esc_flat_map. intros [[name v] ings] Hin. destruct (He name v ings Hin) as [Hn Hi].
      cbn [fst snd].
      apply no_esc_app_i.
      + apply no_esc_app_i; [lit|]. apply no_esc_app_i; [apply no_esc_pad_right; exact Hn|].
        apply no_esc_app_i; [lit|]. apply no_esc_app_i; [apply no_esc_plain_value; exact F|lit].
      + apply no_esc_flat_map. intros i Hiin.
        apply no_esc_app_i; [lit|]. apply no_esc_app_i; [apply no_esc_pad_left, Hi; exact Hiin|].
        apply no_esc_app_i; [lit|]. apply no_esc_app_i; [apply no_esc_plain_value; exact F|lit].
    - apply no_esc_app_i; [|exact no_esc_nil].
      destruct (ri_totals NM it) as [ts|]; [|exact no_esc_nil].
      apply no_esc_app_i; [destruct h; lit|].
      apply no_esc_flat_map. intros [[[name p] n] s] Hin. pose proof (Ht ts eq_refl name p n s Hin) as Hn.
      cbn [fst snd].
      apply no_esc_app_i; [lit|]. apply no_esc_app_i; [apply no_esc_pad_left; exact Hn|].
      apply no_esc_app_i; [lit|]. apply no_esc_app_i; [apply no_esc_plain_value; exact F|].
      apply no_esc_app_i; [lit|]. apply no_esc_app_i; [apply no_esc_plain_value; exact F|].
      apply no_esc_app_i; [lit|]. apply no_esc_app_i; [apply no_esc_plain_value; exact F|lit].
  Qed.

  Theorem color_strip_day_old_exact : forall (c : rconfig) (d : db) perm st (ln : lognode NM),
    date_no_esc c -> day_names_no_esc NM d ln ->
    strip_sgr (process_bytes NM (rep_old NM (set_color c true) d) perm st ln)
    = process_bytes NM (rep_old NM (set_color c false) d) perm st ln.
  Proof.
    intros c d perm st ln Hd Hn.
    destruct (color_strip_process_old NM c d perm st ln) as [_ ->].
    apply strip_no_esc. rewrite templates_same_rows_old.
    apply no_esc_render_old; [exact Hd|]. apply get_report_item_names. exact Hn.
  Qed.
End OldExact.

(** *** the formatter hypothesis holds of the two instances *)
Lemma ZNum_fmt_no_esc : fmt_no_esc ZNum.
Proof. intros v. cbn [fmt_fixed ZNum]. apply no_esc_dec_of_Z. Qed.

Lemma no_esc_pad_zeros_aux : forall k s, no_esc s -> no_esc (pad_zeros_aux k s).
Proof.
  induction k as [|k IH]; intros s H; [exact H|].
  cbn [pad_zeros_aux]. apply no_esc_cons. split; [discriminate|apply IH; exact H].
Qed.

Lemma no_esc_fixed_of_scaled : forall neg p n, no_esc (fixed_of_scaled neg p n).
Proof.
  intros neg p n. unfold fixed_of_scaled.
  set (ds := pad_zeros_aux _ _).
  assert (Hds : no_esc ds) by (apply no_esc_pad_zeros_aux, no_esc_dec_of_N).
  apply no_esc_app_i; [destruct neg; lit|].
  apply no_esc_app_i; [apply no_esc_firstn; exact Hds|].
  destruct p; [exact no_esc_nil|].
  apply no_esc_cons. split; [discriminate|apply no_esc_skipn; exact Hds].
Qed.

Lemma B64_fmt_no_esc : fmt_no_esc B64.
Proof.
  intros v. cbn [fmt_fixed B64]. unfold format_fixed.
  destruct v as [s|s| |s m e]; try apply no_esc_fixed_of_scaled.
  - destruct s; lit.
  - lit.
Qed.

(** non-vacuity: the example item of PresentationColour meets the hypotheses *)
Example ex_item_no_esc : item_names_no_esc ZNum ex_item /\ date_no_esc (ex_cfg true).
Proof.
  split; [split|].
  - intros name v ings H. cbn in H. destruct H as [H|[]]. injection H as <- <- <-.
    split; [lit|]. intros i Hi. cbn in Hi.
    destruct Hi as [<-|[<-|[<-|[]]]]; lit.
  - intros ts H. cbn in H. injection H as <-. intros name p n s Hin. cbn in Hin.
    destruct Hin as [E|[E|[]]]; injection E as <- _ _ _; lit.
  - unfold date_no_esc. cbn. intros [E|[E|[E|[E|[E|[]]]]]]; discriminate E.
Qed.
