(** The fast path of [reg -f] and the general path agree.

    Part A (parsing): a pattern made of the bytes [plain_pattern] accepts is
    parsed as the literal of its runes when it is valid UTF-8, and is an error
    ([ReError], Go's "invalid UTF-8") when it is not; it is never declined.
    Part B (searching): for a pattern that is valid UTF-8 without U+FFFD,
    searching its runes in the runes of a name is searching its bytes in the
    bytes of the name ([contains]). *)
From Coq Require Import Lia ZifyBool ZifyNat ZifyN.
From HP Require Import Base.Bytes Base.Utf8 Base.Num Model.Regex Model.Reporters
  Spec.RegexSpec Proofs.PrintUtf8 Proofs.PresentationShorten Proofs.RegexSem.
Local Open Scope N_scope.

Arguments ch : simpl never.

(** * Part A: parsing a plain pattern *)

Definition plain_byte (c : N) : bool :=
  is_digit c || ((97 <=? lower c) && (lower c <=? 122)) || (c =? 32) || (c =? 47) || (128 <=? c).

Lemma plain_pattern_forallb : forall p, plain_pattern p = forallb plain_byte p.
Proof. reflexivity. Qed.

Lemma plain_not_meta : forall c m, plain_byte c = true -> plain_byte m = false -> (c =? m) = false.
Proof. intros c m Hc Hm. apply N.eqb_neq. intros ->. congruence. Qed.

Lemma plain_big : forall r, 128 <= r -> plain_byte r = true.
Proof. intros r H. unfold plain_byte. apply orb_true_iff. right. apply N.leb_le. exact H. Qed.

(** a decoded rune is the first byte when that is ASCII, and is >= 128 otherwise *)
Lemma decode_rune_ascii_or_big : forall s r rest, decode_rune s = Some (r, rest) ->
  (exists t, s = r :: t /\ r < 128) \/ 128 <= r.
Proof.
  intros s r rest H. unfold decode_rune in H. cbv zeta in H. destruct s as [|c0 r0]; [discriminate H|].
  destruct (N.ltb_spec c0 128) as [L|L].
  { injection H as <- _. left. exists r0. split; [reflexivity|exact L]. }
  right.
  assert (Herr : forall t, Some (rune_error, r0) = Some (r, t) -> 128 <= r).
  { intros t E. injection E as <- _. unfold rune_error. lia. }
  destruct ((194 <=? c0) && (c0 <=? 223)) eqn:E2.
  { apply andb_true_iff in E2. destruct E2 as [A B]. apply N.leb_le in A, B.
    destruct r0 as [|c1 r1]; [apply (Herr _ H)|].
    destruct (is_cont c1) eqn:C1; [|apply (Herr _ H)].
    apply is_cont_bounds in C1. injection H as <- _. lia. }
  destruct ((224 <=? c0) && (c0 <=? 239)) eqn:E3.
  { apply andb_true_iff in E3. destruct E3 as [A B]. apply N.leb_le in A, B.
    destruct r0 as [|c1 [|c2 r2]]; try apply (Herr _ H).
    destruct (((if c0 =? 224 then 160 else 128) <=? c1) && (c1 <=? (if c0 =? 237 then 159 else 191)) && is_cont c2)
      eqn:C; [|apply (Herr _ H)].
    apply andb_true_iff in C. destruct C as [C C2]. apply andb_true_iff in C. destruct C as [Clo Chi].
    apply N.leb_le in Clo, Chi. apply is_cont_bounds in C2.
    injection H as <- _.
    destruct (N.eqb_spec c0 224) as [E0|E0]; destruct (N.eqb_spec c0 237) as [E1|E1]; lia. }
  destruct ((240 <=? c0) && (c0 <=? 244)) eqn:E4.
  { apply andb_true_iff in E4. destruct E4 as [A B]. apply N.leb_le in A, B.
    destruct r0 as [|c1 [|c2 [|c3 r3]]]; try apply (Herr _ H).
    destruct (((if c0 =? 240 then 144 else 128) <=? c1) && (c1 <=? (if c0 =? 244 then 143 else 191))
              && is_cont c2 && is_cont c3) eqn:C; [|apply (Herr _ H)].
    apply andb_true_iff in C. destruct C as [C C3]. apply andb_true_iff in C. destruct C as [C C2].
    apply andb_true_iff in C. destruct C as [Clo Chi].
    apply N.leb_le in Clo, Chi. apply is_cont_bounds in C2. apply is_cont_bounds in C3.
    injection H as <- _.
    destruct (N.eqb_spec c0 240) as [E0|E0]; destruct (N.eqb_spec c0 244) as [E1|E1]; lia. }
  apply (Herr _ H).
Qed.

Lemma runes_plain : forall p, forallb plain_byte p = true ->
  Forall (fun rb => plain_byte (fst rb) = true) (runes p).
Proof.
  induction p as [p IH] using bytes_length_ind. intros Hp.
  destruct p as [|c0 p']; [constructor|].
  destruct (decode_rune_some (c0 :: p')) as [r [rest E]]; [discriminate|].
  destruct (runes_step _ _ _ E) as [q [Hq [Hs Hr]]]. rewrite Hr.
  assert (Hlen : (length rest < length (c0 :: p'))%nat).
  { rewrite Hs. rewrite app_length. destruct q; [congruence|cbn; lia]. }
  constructor.
  - cbn [fst]. destruct (decode_rune_ascii_or_big _ _ _ E) as [(t & Et & _)|Hbig].
    + injection Et as <- _. cbn in Hp. apply andb_true_iff in Hp. exact (proj1 Hp).
    + apply plain_big. exact Hbig.
  - apply IH; [exact Hlen|]. rewrite Hs in Hp. rewrite forallb_app in Hp. apply andb_true_iff in Hp. exact (proj2 Hp).
Qed.

Lemma pat_runes_plain : forall p, plain_pattern p = true -> Forall (fun r => plain_byte r = true) (pat_runes p).
Proof.
  intros p Hp. rewrite plain_pattern_forallb in Hp. apply runes_plain in Hp.
  unfold pat_runes. apply Forall_map. eapply Forall_impl; [|exact Hp].
  intros [r bs] H. cbn [fst snd] in *.
  destruct ((r =? rune_error) && Nat.eqb (length bs) 1); [reflexivity|exact H].
Qed.

Definition no_bad (s : list rune) : bool := negb (existsb (fun c => c =? bad_rune) s).

Lemma parse_atom_plain : forall f d c t, plain_byte c = true ->
  parse_atom (S f) false d c t = if c =? bad_rune then PErr else POk (RLit c, t).
Proof.
  intros f d c t Hp. simpl.
  rewrite (plain_not_meta c (ch "*") Hp eq_refl), (plain_not_meta c (ch "+") Hp eq_refl),
          (plain_not_meta c (ch "?") Hp eq_refl), (plain_not_meta c (ch "{") Hp eq_refl),
          (plain_not_meta c (ch "(") Hp eq_refl), (plain_not_meta c (ch "[") Hp eq_refl),
          (plain_not_meta c (ch ".") Hp eq_refl), (plain_not_meta c (ch "^") Hp eq_refl),
          (plain_not_meta c (ch "$") Hp eq_refl), (plain_not_meta c (ch "\") Hp eq_refl).
  cbn [orb]. unfold lit_re. destruct (c =? bad_rune); reflexivity.
Qed.

Lemma parse_postfix_plain : forall atom t, Forall (fun r => plain_byte r = true) t ->
  parse_postfix atom t = POk (atom, t).
Proof.
  intros atom [|c t] Ht; [reflexivity|]. pose proof (Forall_inv Ht) as Hp. unfold parse_postfix.
  rewrite (plain_not_meta c (ch "*") Hp eq_refl), (plain_not_meta c (ch "+") Hp eq_refl),
          (plain_not_meta c (ch "?") Hp eq_refl), (plain_not_meta c (ch "{") Hp eq_refl).
  reflexivity.
Qed.

Lemma parse_concat_plain : forall s f d, (length s < f)%nat -> Forall (fun r => plain_byte r = true) s ->
  parse_concat f false d s = if no_bad s then POk (map RLit s, []) else PErr.
Proof.
  induction s as [|c t IH]; intros f d Hf Hs.
  - destruct f as [|f]; [cbn in Hf; lia|]. reflexivity.
  - destruct f as [|[|f]]; [cbn in Hf; lia|cbn in Hf; lia|].
    pose proof (Forall_inv Hs) as Hp. pose proof (Forall_inv_tail Hs) as Ht.
    change (parse_concat (S (S f)) false d (c :: t))
      with (if (c =? ch "|") || (c =? ch ")") then POk ([], c :: t)
            else match parse_atom (S f) false d c t with
                 | PErr => PErr
                 | PUnm => PUnm
                 | POk (atom, t1) =>
                     match parse_postfix atom t1 with
                     | PErr => PErr
                     | PUnm => PUnm
                     | POk (piece, t2) =>
                         match parse_concat (S f) false d t2 with
                         | POk (ps, rest) => POk (piece :: ps, rest)
                         | PErr => PErr
                         | PUnm => PUnm
                         end
                     end
                 end).
    rewrite (plain_not_meta c (ch "|") Hp eq_refl), (plain_not_meta c (ch ")") Hp eq_refl). cbn [orb].
    rewrite (parse_atom_plain f d c t Hp). unfold no_bad. cbn [existsb].
    destruct (c =? bad_rune); [reflexivity|]. cbn [orb].
    rewrite (parse_postfix_plain _ _ Ht).
    rewrite (IH (S f) d); [|cbn in Hf; lia|exact Ht]. unfold no_bad.
    destruct (existsb (fun c0 => c0 =? bad_rune) t); reflexivity.
Qed.

Lemma lit_only_cat_list : forall s, lit_only (cat_list (map RLit s)) = true.
Proof.
  induction s as [|c [|c' t] IH]; [reflexivity|reflexivity|].
  change (cat_list (map RLit (c :: c' :: t))) with (RCat (RLit c) (cat_list (map RLit (c' :: t)))).
  cbn [lit_only]. exact IH.
Qed.

Lemma flag_prefix_plain : forall rs, Forall (fun r => plain_byte r = true) rs -> split_flag rs = (false, rs).
Proof.
  intros [|c1 [|c2 [|c3 [|c4 t]]]] H; try reflexivity.
  pose proof (Forall_inv H) as Hp. unfold split_flag, flag_i. cbn [list_eqb].
  rewrite (plain_not_meta c1 (ch "(") Hp eq_refl). reflexivity.
Qed.

Theorem parse_regex_plain : forall p, plain_pattern p = true ->
  parse_regex p = if no_bad (pat_runes p) then ReOk (lit_string (pat_runes p)) else ReError.
Proof.
  intros p Hp. pose proof (pat_runes_plain p Hp) as Hr. unfold parse_regex. cbv zeta.
  rewrite (flag_prefix_plain _ Hr). cbn [fst snd].
  set (s := pat_runes p) in *. clearbody s.
  replace (4 * length s + 8)%nat with (S (4 * length s + 7)) by lia.
  change (parse_alt (S (4 * length s + 7)) false 0 s)
    with (match parse_concat (4 * length s + 7) false 0 s with
          | PErr => PErr
          | PUnm => PUnm
          | POk (ps, rest) =>
              match rest with
              | c :: t =>
                  if c =? ch "|" then
                    match parse_alt (4 * length s + 7) false 0 t with
                    | POk (r2, rest2) => POk (RAlt (cat_list ps) r2, rest2)
                    | PErr => PErr
                    | PUnm => PUnm
                    end
                  else POk (cat_list ps, rest)
              | [] => POk (cat_list ps, [])
              end
          end).
  assert (Hlen : (length s < 4 * length s + 7)%nat) by lia.
  rewrite (parse_concat_plain s _ 0%nat Hlen Hr).
  destruct (no_bad s); [|reflexivity].
  unfold lit_string. rewrite lit_only_cat_list. reflexivity.
Qed.

(** a plain pattern is never declined *)
Corollary plain_modelled : forall p, plain_pattern p = true -> parse_regex p <> ReUnmodelled.
Proof. intros p Hp. rewrite (parse_regex_plain p Hp). destruct (no_bad (pat_runes p)); discriminate. Qed.

(** valid UTF-8 without U+FFFD: the runes of the pattern are [rune_values] *)
Lemma runes_valid_all : forall s, Forall valid_rune (map fst (runes s)).
Proof. intros s. apply runes_fuel_valid. Qed.

Lemma pat_runes_valid : forall p, valid_utf8_no_fffd p = true ->
  pat_runes p = rune_values p /\ no_bad (pat_runes p) = true.
Proof.
  intros p Hv. unfold valid_utf8_no_fffd, rune_values in Hv.
  assert (E : pat_runes p = rune_values p).
  { unfold pat_runes, rune_values. apply map_ext_in. intros [r bs] Hin. cbn [fst snd].
    rewrite forallb_forall in Hv. specialize (Hv r (in_map fst _ _ Hin)). cbn [fst] in Hv.
    apply negb_true_iff in Hv. rewrite Hv. reflexivity. }
  split; [exact E|]. rewrite E. unfold no_bad, rune_values. apply negb_true_iff.
  destruct (existsb (fun c => c =? bad_rune) (map fst (runes p))) eqn:Ex; [|reflexivity].
  apply existsb_exists in Ex. destruct Ex as (c & Hc & Hb). apply N.eqb_eq in Hb. subst c.
  pose proof (runes_valid_all p) as Hall. rewrite Forall_forall in Hall. specialize (Hall _ Hc).
  unfold valid_rune, bad_rune in Hall. lia.
Qed.

(** the parsing half of [plain_is_literal]: under the guard of the fast path the
    general path parses the pattern as the literal of its runes *)
Theorem plain_parse_literal : forall p,
  plain_pattern p = true -> valid_utf8_no_fffd p = true ->
  parse_regex p = ReOk (lit_string (rune_values p)).
Proof.
  intros p Hp Hv. rewrite (parse_regex_plain p Hp).
  destruct (pat_runes_valid p Hv) as [E Hn]. rewrite Hn, E. reflexivity.
Qed.

(** * Part B: searching a literal is [contains] *)

(** ** the literal matches exactly its runes *)
Lemma lit_string_matches : forall s p w n, matches (lit_string s) p w n <-> w = s.
Proof.
  induction s as [|c s' IH]; intros p w n.
  - split; [intros H; inversion H; reflexivity|intros ->; constructor].
  - destruct s' as [|c' t].
    + split; [intros H; inversion H; reflexivity|intros ->; constructor].
    + change (lit_string (c :: c' :: t)) with (RCat (RLit c) (lit_string (c' :: t))). split.
      * intros H. apply cat_inv in H. destruct H as (w1 & w2 & -> & H1 & H2).
        inversion H1; subst. apply IH in H2. subst. reflexivity.
      * intros ->. change (c :: c' :: t) with ([c] ++ c' :: t). apply MCat; [constructor|apply IH; reflexivity].
Qed.

Lemma re_search_literal : forall rs name,
  re_search (lit_string rs) name = true <-> exists pre post, rune_values name = pre ++ rs ++ post.
Proof.
  intros rs name. rewrite re_search_spec. split.
  - intros (pre & mid & post & E & Hm). apply lit_string_matches in Hm. subst mid. exists pre, post. exact E.
  - intros (pre & post & E). exists pre, rs, post. split; [exact E|]. apply lit_string_matches. reflexivity.
Qed.

(** ** [contains] *)
Lemma is_prefix_spec : forall p s, is_prefix p s = true <-> exists post, s = p ++ post.
Proof.
  induction p as [|a p IH]; intros s; cbn [is_prefix].
  - split; [intros _; exists s; reflexivity|reflexivity].
  - destruct s as [|c s'].
    + split; [discriminate|]. intros (post & E). discriminate E.
    + rewrite andb_true_iff, IH, N.eqb_eq. split.
      * intros (-> & post & ->). exists post. reflexivity.
      * intros (post & E). injection E as -> ->. split; [reflexivity|]. exists post. reflexivity.
Qed.

Lemma contains_spec : forall p s, contains p s = true <-> exists pre post, s = pre ++ p ++ post.
Proof.
  intros p. induction s as [|c s' IH].
  - cbn [contains]. rewrite orb_false_r, is_prefix_spec. split.
    + intros (post & E). exists [], post. exact E.
    + intros (pre & post & E). symmetry in E. apply app_eq_nil in E. destruct E as [-> E].
      apply app_eq_nil in E. destruct E as [-> ->]. exists []. reflexivity.
  - cbn [contains]. rewrite orb_true_iff, is_prefix_spec, IH. split.
    + intros [(post & E)|(pre & post & E)].
      * exists [], post. exact E.
      * exists (c :: pre), post. rewrite E. reflexivity.
    + intros (pre & post & E). destruct pre as [|c' pre'].
      * left. exists post. exact E.
      * right. injection E as -> E. exists pre', post. exact E.
Qed.

(** ** UTF-8: decoding across a boundary *)

(** appending text that starts with a byte that is not a continuation byte does
    not change the first step *)
Lemma decode_rune_app_noncont x c y r rest :
  is_cont c = false -> decode_rune x = Some (r, rest) -> decode_rune (x ++ c :: y) = Some (r, rest ++ c :: y).
Proof.
  intros Hcont H.
  assert (Hrng : forall lo hi, 128 <= lo -> hi <= 191 -> (lo <=? c) && (c <=? hi) = false).
  { intros lo hi Hl Hh. unfold is_cont in Hcont. lia. }
  destruct x as [|c0 x]; [discriminate|].
  cbn [app]. unfold decode_rune in *.
  destruct (c0 <? 128). { injection H as <- <-. reflexivity. }
  destruct ((194 <=? c0) && (c0 <=? 223)).
  { destruct x as [|c1 x]; cbn [app].
    - rewrite Hcont. injection H as <- <-. reflexivity.
    - destruct (is_cont c1); injection H as <- <-; reflexivity. }
  destruct ((224 <=? c0) && (c0 <=? 239)).
  { cbv zeta in *.
    assert (Hlo3 : ((if c0 =? 224 then 160 else 128) <=? c) && (c <=? (if c0 =? 237 then 159 else 191)) = false)
      by (apply Hrng; [destruct (c0 =? 224); lia|destruct (c0 =? 237); lia]).
    destruct x as [|c1 [|c2 x]]; cbn [app].
    - injection H as <- <-. destruct y as [|c2 y]; [reflexivity|]. rewrite Hlo3. reflexivity.
    - injection H as <- <-. rewrite Hcont. rewrite andb_false_r. reflexivity.
    - destruct (_ && _ && is_cont c2); injection H as <- <-; reflexivity. }
  destruct ((240 <=? c0) && (c0 <=? 244)).
  { cbv zeta in *.
    assert (Hlo4 : ((if c0 =? 240 then 144 else 128) <=? c) && (c <=? (if c0 =? 244 then 143 else 191)) = false)
      by (apply Hrng; [destruct (c0 =? 240); lia|destruct (c0 =? 244); lia]).
    destruct x as [|c1 [|c2 [|c3 x]]]; cbn [app].
    - injection H as <- <-. destruct y as [|c2 [|c3 y]]; [reflexivity|reflexivity|]. rewrite Hlo4. reflexivity.
    - injection H as <- <-. destruct y as [|c3 y]; [reflexivity|]. rewrite Hcont.
      rewrite andb_false_r. reflexivity.
    - injection H as <- <-. rewrite Hcont. rewrite andb_false_r. reflexivity.
    - destruct (_ && _ && is_cont c2 && is_cont c3); injection H as <- <-; reflexivity. }
  injection H as <- <-. reflexivity.
Qed.

(** a step that decodes a rune other than U+FFFD does not look beyond it *)
Lemma decode_rune_app_valid x y r rest :
  r <> rune_error -> decode_rune x = Some (r, rest) -> decode_rune (x ++ y) = Some (r, rest ++ y).
Proof.
  intros Hr H. destruct x as [|c0 x]; [discriminate|]. cbn [app]. unfold decode_rune in *.
  assert (Herr : forall t, Some (rune_error, t) = Some (r, rest) -> False).
  { intros t E. injection E as E1 _. congruence. }
  destruct (c0 <? 128). { injection H as <- <-. reflexivity. }
  destruct ((194 <=? c0) && (c0 <=? 223)).
  { destruct x as [|c1 x]; cbn [app]; [destruct (Herr _ H)|].
    destruct (is_cont c1); [injection H as <- <-; reflexivity|destruct (Herr _ H)]. }
  destruct ((224 <=? c0) && (c0 <=? 239)).
  { cbv zeta in *. destruct x as [|c1 [|c2 x]]; cbn [app]; try (destruct (Herr _ H)).
    destruct (_ && _ && is_cont c2); [injection H as <- <-; reflexivity|destruct (Herr _ H)]. }
  destruct ((240 <=? c0) && (c0 <=? 244)).
  { cbv zeta in *. destruct x as [|c1 [|c2 [|c3 x]]]; cbn [app]; try (destruct (Herr _ H)).
    destruct (_ && _ && is_cont c2 && is_cont c3); [injection H as <- <-; reflexivity|destruct (Herr _ H)]. }
  destruct (Herr _ H).
Qed.

(** such a step begins with a byte that is not a continuation byte *)
Lemma decode_rune_lead c0 x r rest :
  decode_rune (c0 :: x) = Some (r, rest) -> r <> rune_error -> is_cont c0 = false.
Proof.
  intros H Hr. unfold decode_rune in H. unfold is_cont.
  destruct (N.ltb_spec c0 128) as [L|L]; [lia|].
  destruct ((194 <=? c0) && (c0 <=? 223)) eqn:E2; [lia|].
  destruct ((224 <=? c0) && (c0 <=? 239)) eqn:E3; [lia|].
  destruct ((240 <=? c0) && (c0 <=? 244)) eqn:E4; [lia|].
  injection H as E _. congruence.
Qed.

Lemma runes_app_noncont c y : is_cont c = false -> forall x, runes (x ++ c :: y) = runes x ++ runes (c :: y).
Proof.
  intros Hc x. induction x as [x IH] using bytes_length_ind.
  destruct x as [|c0 x'].
  - reflexivity.
  - destruct (decode_rune_some (c0 :: x')) as [r [rest E]]; [discriminate|].
    destruct (runes_step _ _ _ E) as [p [Hp [Hs Hr]]].
    pose proof (decode_rune_app_noncont _ c y _ _ Hc E) as E2.
    destruct (runes_step _ _ _ E2) as [p2 [Hp2 [Hs2 Hr2]]].
    rewrite Hr2, Hr. rewrite Hs in Hs2 at 1. rewrite <- app_assoc in Hs2.
    apply app_inv_tail in Hs2. subst p2. cbn [app]. f_equal. apply IH.
    rewrite Hs. rewrite app_length. destruct p; [congruence|cbn; lia].
Qed.

Lemma runes_app_valid y : forall x, Forall (fun rb => fst rb <> rune_error) (runes x) ->
  runes (x ++ y) = runes x ++ runes y.
Proof.
  intros x. induction x as [x IH] using bytes_length_ind. intros Hv.
  destruct x as [|c0 x'].
  - reflexivity.
  - destruct (decode_rune_some (c0 :: x')) as [r [rest E]]; [discriminate|].
    destruct (runes_step _ _ _ E) as [p [Hp [Hs Hr]]].
    rewrite Hr in Hv. pose proof (Forall_inv Hv) as Hr0. pose proof (Forall_inv_tail Hv) as Hrest. cbn [fst] in Hr0.
    pose proof (decode_rune_app_valid _ y _ _ Hr0 E) as E2.
    destruct (runes_step _ _ _ E2) as [p2 [Hp2 [Hs2 Hr2]]].
    rewrite Hr2, Hr. rewrite Hs in Hs2 at 1. rewrite <- app_assoc in Hs2.
    apply app_inv_tail in Hs2. subst p2. cbn [app]. f_equal. apply IH; [|exact Hrest].
    rewrite Hs. rewrite app_length. destruct p; [congruence|cbn; lia].
Qed.

(** ** UTF-8: the bytes of a rune other than U+FFFD are its encoding *)
Lemma decode_rune_encode : forall s r rest, decode_rune s = Some (r, rest) -> r <> rune_error ->
  s = encode_rune r ++ rest.
Proof.
  intros s r rest H Hr. unfold decode_rune in H. cbv zeta in H. destruct s as [|c0 r0]; [discriminate H|].
  assert (Herr : forall t, Some (rune_error, r0) = Some (r, t) -> False).
  { intros t E. injection E as E1 _. congruence. }
  destruct (N.ltb_spec c0 128) as [L|L].
  { injection H as <- <-. unfold encode_rune. destruct (N.ltb_spec c0 128); [reflexivity|lia]. }
  destruct ((194 <=? c0) && (c0 <=? 223)) eqn:E2.
  { apply andb_true_iff in E2. destruct E2 as [A B]. apply N.leb_le in A, B.
    destruct r0 as [|c1 r1]; [destruct (Herr _ H)|].
    destruct (is_cont c1) eqn:C1; [|destruct (Herr _ H)].
    apply is_cont_bounds in C1. injection H as <- <-. unfold encode_rune.
    set (v := (c0 - 192) * 64 + (c1 - 128)).
    assert (Hv : 128 <= v < 2048) by (subst v; lia).
    destruct (N.ltb_spec v 128); [lia|]. destruct (N.ltb_spec v 2048); [|lia].
    cbn [app]. f_equal; [subst v; lia|]. f_equal. subst v; lia. }
  destruct ((224 <=? c0) && (c0 <=? 239)) eqn:E3.
  { apply andb_true_iff in E3. destruct E3 as [A B]. apply N.leb_le in A, B.
    destruct r0 as [|c1 [|c2 r2]]; try (destruct (Herr _ H)).
    destruct (((if c0 =? 224 then 160 else 128) <=? c1) && (c1 <=? (if c0 =? 237 then 159 else 191)) && is_cont c2)
      eqn:C; [|destruct (Herr _ H)].
    apply andb_true_iff in C. destruct C as [C C2]. apply andb_true_iff in C. destruct C as [Clo Chi].
    apply N.leb_le in Clo, Chi. apply is_cont_bounds in C2.
    injection H as <- <-. unfold encode_rune.
    set (v := (c0 - 224) * 4096 + (c1 - 128) * 64 + (c2 - 128)).
    assert (Hv : 2048 <= v < 65536 /\ ~ (55296 <= v <= 57343)).
    { subst v. destruct (N.eqb_spec c0 224) as [E0|E0]; destruct (N.eqb_spec c0 237) as [E1|E1]; lia. }
    destruct (N.ltb_spec v 128); [lia|]. destruct (N.ltb_spec v 2048); [lia|].
    assert (Hsur : (55296 <=? v) && (v <=? 57343) = false) by lia. rewrite Hsur.
    destruct (N.ltb_spec v 65536); [|lia].
    assert (Hc1 : 128 <= c1 <= 191) by (destruct (N.eqb_spec c0 224); destruct (N.eqb_spec c0 237); lia).
    cbn [app]. f_equal; [subst v; lia|]. f_equal; [subst v; lia|]. f_equal. subst v; lia. }
  destruct ((240 <=? c0) && (c0 <=? 244)) eqn:E4.
  { apply andb_true_iff in E4. destruct E4 as [A B]. apply N.leb_le in A, B.
    destruct r0 as [|c1 [|c2 [|c3 r3]]]; try (destruct (Herr _ H)).
    destruct (((if c0 =? 240 then 144 else 128) <=? c1) && (c1 <=? (if c0 =? 244 then 143 else 191))
              && is_cont c2 && is_cont c3) eqn:C; [|destruct (Herr _ H)].
    apply andb_true_iff in C. destruct C as [C C3]. apply andb_true_iff in C. destruct C as [C C2].
    apply andb_true_iff in C. destruct C as [Clo Chi].
    apply N.leb_le in Clo, Chi. apply is_cont_bounds in C2. apply is_cont_bounds in C3.
    injection H as <- <-. unfold encode_rune.
    set (v := (c0 - 240) * 262144 + (c1 - 128) * 4096 + (c2 - 128) * 64 + (c3 - 128)).
    assert (Hc1 : 128 <= c1 <= 191) by (destruct (N.eqb_spec c0 240); destruct (N.eqb_spec c0 244); lia).
    assert (Hv : 65536 <= v < 1114112).
    { subst v. destruct (N.eqb_spec c0 240) as [E0|E0]; destruct (N.eqb_spec c0 244) as [E1|E1]; lia. }
    destruct (N.ltb_spec v 128); [lia|]. destruct (N.ltb_spec v 2048); [lia|].
    assert (Hsur : (55296 <=? v) && (v <=? 57343) = false) by lia. rewrite Hsur.
    destruct (N.ltb_spec v 65536); [lia|]. destruct (N.ltb_spec v 1114112); [|lia].
    cbn [app]. f_equal; [subst v; lia|]. f_equal; [subst v; lia|]. f_equal; [subst v; lia|]. f_equal. subst v; lia. }
  destruct (Herr _ H).
Qed.

Lemma runes_pieces_encode : forall s, Forall (fun rb => fst rb <> rune_error -> snd rb = encode_rune (fst rb)) (runes s).
Proof.
  induction s as [s IH] using bytes_length_ind. destruct s as [|c0 s']; [constructor|].
  destruct (decode_rune_some (c0 :: s')) as [r [rest E]]; [discriminate|].
  destruct (runes_step _ _ _ E) as [p [Hp [Hs Hr]]]. rewrite Hr. constructor.
  - cbn [fst snd]. intros Hne. pose proof (decode_rune_encode _ _ _ E Hne) as He.
    rewrite Hs in He. apply app_inv_tail in He. exact He.
  - apply IH. rewrite Hs. rewrite app_length. destruct p; [congruence|cbn; lia].
Qed.

(** the bytes of a run of runes without U+FFFD are determined by the runes *)
Lemma pieces_of_runes : forall l : list (N * bytes),
  Forall (fun rb => fst rb <> rune_error -> snd rb = encode_rune (fst rb)) l ->
  Forall (fun r => r <> rune_error) (map fst l) ->
  concat (map snd l) = encode_runes (map fst l).
Proof.
  induction l as [|[r bs] l IH]; intros H1 H2; [reflexivity|].
  cbn [map fst snd concat] in *. unfold encode_runes. cbn [map concat].
  pose proof (Forall_inv H1) as Ha. pose proof (Forall_inv H2) as Hb. cbn [fst snd] in Ha.
  rewrite (Ha Hb). f_equal. apply IH; [exact (Forall_inv_tail H1)|exact (Forall_inv_tail H2)].
Qed.

Lemma Forall_sub_app : forall {A} (P : A -> Prop) l a m c, Forall P l -> l = a ++ m ++ c -> Forall P m.
Proof.
  intros A P l a m c H ->. apply Forall_app in H. destruct H as [_ H]. apply Forall_app in H. exact (proj1 H).
Qed.

Lemma valid_forall : forall p, valid_utf8_no_fffd p = true -> Forall (fun r => r <> rune_error) (rune_values p).
Proof.
  intros p Hv. unfold valid_utf8_no_fffd in Hv. rewrite forallb_forall in Hv. apply Forall_forall.
  intros r Hin. specialize (Hv r Hin). apply negb_true_iff in Hv. apply N.eqb_neq. exact Hv.
Qed.

(** ** an occurrence of the bytes is an occurrence of the runes, and conversely *)
Theorem occurrence_bytes_runes : forall p name, valid_utf8_no_fffd p = true ->
  ((exists pre post, name = pre ++ p ++ post) <->
   (exists pre' post', rune_values name = pre' ++ rune_values p ++ post')).
Proof.
  intros p name Hv. pose proof (valid_forall p Hv) as Hall. split.
  - intros (pre & post & ->). destruct p as [|c0 p'].
    + exists [], (rune_values (pre ++ post)). reflexivity.
    + assert (Hc : is_cont c0 = false).
      { destruct (decode_rune_some (c0 :: p')) as [r [rest E]]; [discriminate|].
        destruct (runes_step _ _ _ E) as [q [_ [_ Hr]]].
        unfold rune_values in Hall. rewrite Hr in Hall. cbn [map fst] in Hall.
        exact (decode_rune_lead _ _ _ _ E (Forall_inv Hall)). }
      exists (rune_values pre), (rune_values post). unfold rune_values.
      change ((c0 :: p') ++ post) with (c0 :: p' ++ post).
      rewrite (runes_app_noncont c0 (p' ++ post) Hc pre).
      change (c0 :: p' ++ post) with ((c0 :: p') ++ post).
      rewrite (runes_app_valid post (c0 :: p')).
      * rewrite !map_app. reflexivity.
      * unfold rune_values in Hall. rewrite Forall_map in Hall. exact Hall.
  - intros (pre' & post' & E). unfold rune_values in E.
    apply map_eq_app in E. destruct E as (A & BC & EA & _ & E).
    apply map_eq_app in E. destruct E as (B & C & -> & EB & _).
    exists (concat (map snd A)), (concat (map snd C)).
    rewrite <- (runes_bytes name) at 1. rewrite EA, !map_app, !concat_app. f_equal. f_equal.
    pose proof (runes_pieces_encode name) as Hn. rewrite EA in Hn.
    rewrite (pieces_of_runes B (Forall_sub_app _ _ _ _ _ Hn eq_refl)); [|rewrite EB; exact Hall].
    rewrite EB. unfold rune_values.
    rewrite <- (pieces_of_runes (runes p) (runes_pieces_encode p)); [apply runes_bytes|exact Hall].
Qed.

(** the searching half of [plain_is_literal] *)
Theorem literal_search_contains : forall p name, valid_utf8_no_fffd p = true ->
  re_search (lit_string (rune_values p)) name = contains p name.
Proof.
  intros p name Hv. apply Bool.eq_true_iff_eq.
  rewrite re_search_literal, contains_spec. symmetry. apply occurrence_bytes_runes. exact Hv.
Qed.

(** ** the fast path and the general path of [reg -f] agree *)
Theorem plain_is_literal : forall p,
  plain_pattern p = true -> valid_utf8_no_fffd p = true ->
  parse_regex p = ReOk (lit_string (rune_values p))
  /\ forall name, re_search (lit_string (rune_values p)) name = contains p name.
Proof.
  intros p Hp Hv. split; [exact (plain_parse_literal p Hp Hv)|].
  intros name. exact (literal_search_contains p name Hv).
Qed.
