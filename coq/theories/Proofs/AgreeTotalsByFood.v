(** WP10 stretch: [reg -s x -g] (elementByFoodReporter).  The amounts of its rows add up
    to the period total of [x] over the log restricted to the foods the book defines: an
    element logged directly is ignored by this reporter. *)
From Coq Require Import Lia Permutation.
From HP Require Import Base.Bytes Base.Num Model.Elements Model.Tree Model.Reporters Spec.AgreeSpec.
From HP Require Import Proofs.AgreeTotals Proofs.AgreeTotalsAcc Proofs.AgreeTotalsMain.

Section Assoc2.
  Context {V : Type}.
  Implicit Types (l : list (bytes * V)).

  Lemma set_split : forall k l old, lookup k l = Some old ->
    exists l1 l2, l = l1 ++ (k, old) :: l2 /\ forall new, set k new l = l1 ++ (k, new) :: l2.
  Proof.
    intros k l. induction l as [|[k' v'] r IH]; cbn; intros old H; [discriminate|].
    destruct (beq k k') eqn:E.
    - apply beq_true_iff in E. subst k'. inversion H; subst. exists [], r. split; reflexivity.
    - destruct (IH old H) as [l1 [l2 [H1 H2]]]. exists ((k', v') :: l1), l2. split.
      + cbn. rewrite H1. reflexivity.
      + intros new. cbn. rewrite H2. reflexivity.
  Qed.

  Lemma lookup_own_entry : forall l, NoDup (keys l) -> forall e, In e l -> lookup (fst e) l = Some (snd e).
  Proof.
    intros l. induction l as [|[k v] r IH]; cbn; intros Hnd e He; [contradiction|].
    inversion Hnd as [|k0 r0 Hnotin Hnd']; subst. destruct He as [He|He].
    - subst e. cbn. rewrite beq_refl. reflexivity.
    - destruct (beq_spec (fst e) k) as [Ek|Ek].
      + exfalso. apply Hnotin. rewrite <- Ek. apply in_map. exact He.
      + apply IH; assumption.
  Qed.
End Assoc2.

Section ByFood.
  Context (NM : Num).
  Notation T := (T NM).
  Notation elements := (elements NM).
  Notation db := (list (bytes * elements)).
  Notation lognode := (lognode NM).
  Notation oracle := (list bytes -> list bytes).
  Notation accumulator := (accumulator NM).

  Implicit Types (x name : bytes) (v : T) (cs : elements) (acc : accumulator) (d : db) (ln : lognode)
                 (L : list lognode) (c : rconfig) (π πf : oracle) (πd : nat -> oracle).

  (** ** keys of an accumulator stay distinct (law-free) *)
  Lemma acc_add_nodup : forall name v acc, NoDup (keys acc) -> NoDup (keys (acc_add NM name v acc)).
  Proof.
    intros name v acc H. unfold acc_add. destruct (lookup name acc) as [[p n]|] eqn:E.
    - rewrite (keys_set_present _ _ _ _ E). exact H.
    - unfold keys. rewrite map_app. cbn [map fst].
      apply lookup_none_not_in_keys in E.
      apply (Permutation_NoDup (Permutation_cons_append (map fst acc) name)).
      constructor; [exact E|exact H].
  Qed.

  Lemma fold_acc_nodup : forall cs acc, NoDup (keys acc) -> NoDup (keys (fold_acc NM cs acc)).
  Proof.
    intros cs. induction cs as [|[name v] r IH]; intros acc H; [exact H|].
    unfold fold_acc. cbn [fold_left fst snd]. apply IH. apply acc_add_nodup. exact H.
  Qed.

  Lemma accumulate_nodup : forall cs, NoDup (keys (accumulate NM cs)).
  Proof. intros cs. rewrite accumulate_fold_acc. apply fold_acc_nodup. constructor. Qed.

  Definition entry_total (e : bytes * (T * T)) : T := add NM (fst (snd e)) (snd (snd e)).
  Definition acc_total acc : T := sum NM (map entry_total acc).

  Section Laws.
    Hypothesis AM : AddMonoid NM.
    Let add_0_l := am_0_l NM AM.
    Let add_comm := am_comm NM AM.
    Let add_assoc := am_assoc NM AM.

    Lemma sum_perm : forall (l l' : list T), Permutation l l' -> sum NM l = sum NM l'.
    Proof.
      intros l l' H. induction H as [|v l l' H IH|u v l|l1 l2 l3 H1 IH1 H2 IH2].
      - reflexivity.
      - rewrite !(sum_cons NM AM). rewrite IH. reflexivity.
      - rewrite !(sum_cons NM AM). rewrite !add_assoc, (add_comm v u). reflexivity.
      - congruence.
    Qed.

    (** every contribution lands in exactly one entry, on one of its two sides *)
    Lemma acc_total_acc_add : forall name v acc, acc_total (acc_add NM name v acc) = add NM (acc_total acc) v.
    Proof.
      intros name v acc. unfold acc_add, acc_total. destruct (lookup name acc) as [[p n]|] eqn:E.
      - destruct (set_split _ _ _ E) as [l1 [l2 [H1 H2]]]. rewrite H2. rewrite H1.
        rewrite !map_app. cbn [map]. rewrite !(sum_app NM AM), !(sum_cons NM AM).
        set (S1 := sum NM (map entry_total l1)). set (S2 := sum NM (map entry_total l2)).
        assert (entry_total (name, if ltb NM v (zero NM) then (p, add NM n v) else (add NM p v, n))
                = add NM (entry_total (name, (p, n))) v) as He.
        { unfold entry_total. destruct (ltb NM v (zero NM)); cbn [fst snd].
          - apply add_assoc.
          - rewrite <- (add_assoc p v n), (add_comm v n). apply add_assoc. }
        rewrite He. set (e := entry_total (name, (p, n))).
        rewrite <- (add_assoc e v S2), (add_comm v S2), (add_assoc e S2 v). apply add_assoc.
      - rewrite map_app, (sum_app NM AM). f_equal. cbn [map]. rewrite (sum_cons NM AM). cbn [sum fold_left].
        rewrite (add_0_r NM AM). unfold entry_total.
        destruct (ltb NM v (zero NM)); cbn [fst snd]; [apply add_0_l|apply (add_0_r NM AM)].
    Qed.

    Lemma acc_total_fold_acc : forall cs acc,
      acc_total (fold_acc NM cs acc) = add NM (acc_total acc) (sum NM (map snd cs)).
    Proof.
      intros cs. induction cs as [|[name v] r IH]; intros acc.
      - cbn. symmetry. apply (add_0_r NM AM).
      - unfold fold_acc. cbn [fold_left fst snd map]. fold (fold_acc NM r (acc_add NM name v acc)).
        rewrite IH, acc_total_acc_add, (sum_cons NM AM). symmetry. apply add_assoc.
    Qed.

    Lemma acc_total_accumulate : forall cs, acc_total (accumulate NM cs) = sum NM (map snd cs).
    Proof. intros cs. rewrite accumulate_fold_acc, acc_total_fold_acc. cbn. apply add_0_l. Qed.

    (** ** the rows of an accumulator add up to the values fed into it *)
    Definition name_total acc name : T :=
      match lookup name acc with Some (p, n) => add NM p n | None => zero NM end.

    Lemma row_sums_names : forall acc ns, (forall name, In name ns -> In name (keys acc)) ->
      map (row_sum NM) (filter_some (map (row_maker NM acc) ns)) = map (name_total acc) ns.
    Proof.
      intros acc ns. induction ns as [|name r IH]; intros H; [reflexivity|].
      cbn [map]. unfold row_maker at 1, name_total at 1.
      destruct (lookup name acc) as [[p n]|] eqn:E.
      - cbn [filter_some map]. f_equal. apply IH. intros name' Hn. apply H. right. exact Hn.
      - exfalso. apply lookup_none_not_in_keys in E. apply E. apply H. left. reflexivity.
    Qed.

    Lemma name_total_keys : forall acc, NoDup (keys acc) -> map (name_total acc) (keys acc) = map entry_total acc.
    Proof.
      intros acc Hnd. unfold keys. rewrite map_map. apply map_ext_in. intros e He.
      unfold name_total. rewrite (lookup_own_entry acc Hnd e He).
      destruct e as [k [p n]]. reflexivity.
    Qed.

    Lemma rows_total : forall π acc, (forall l, Permutation (π l) l) -> NoDup (keys acc) ->
      sum NM (map (row_sum NM) (totals_of_acc NM π acc)) = acc_total acc.
    Proof.
      intros π acc Hπ Hnd. rewrite totals_of_acc_unfold.
      assert (Permutation (sort_bytes (π (keys acc))) (keys acc)) as Hp.
      { eapply Permutation_trans; [apply isort_perm|apply Hπ]. }
      rewrite row_sums_names.
      - rewrite (sum_perm _ _ (Permutation_map (name_total acc) Hp)).
        rewrite name_total_keys by exact Hnd. reflexivity.
      - intros name Hn. eapply Permutation_in; [exact Hp|exact Hn].
    Qed.

    (** ** period total of [x] as one number *)
    Lemma period_total_is_sum : forall πf πd d x L, keeps_keys πf ->
      match period_row NM πf πd d x L with Some (p, n) => add NM p n | None => zero NM end
      = sum NM (map snd (named NM x (flat_map (contributions NM d) L))).
    Proof.
      intros πf πd d x L Hπf. unfold period_row, period_rows.
      rewrite (row_of_totals NM πf _ _ Hπf), (acc_add_spec_threaded NM AM).
      destruct (occurs_in NM x (flat_map (contributions NM d) L)) eqn:E.
      - apply (pos_neg_sum_total NM AM).
      - apply occurs_in_named_nil in E. rewrite E. reflexivity.
    Qed.

    (** Σ over foods of the [reg -s x -g] rows = period total of [x] over the log.  Since fix F26 this holds
        for the WHOLE log: a day that logs [x] directly (as a food the book does not define) contributes to
        both sides (before, the right-hand side was over the log restricted to the foods the book defines).
        Laws: all three; the flush oracle must be a permutation (a duplicated or dropped key would change
        the sum). *)
    Theorem byfood_total : forall c πf πf' πd πd' d L,
      (forall l, Permutation (πf l) l) -> (forall l, Permutation (πf' l) l) ->
      sum NM (map (row_sum NM) (byfood_rows NM c πf πd d L))
      = match period_row NM πf' πd' d (rc_single_element c) L with
        | Some (p, n) => add NM p n
        | None => zero NM
        end.
    Proof.
      intros c πf πf' πd πd' d L Hπf Hπf'.
      rewrite (period_total_is_sum πf' πd' d _ _ (order_oracle_keeps_keys πf' Hπf')).
      unfold byfood_rows. rewrite walk_byfood.
      rewrite (rows_total πf _ Hπf (accumulate_nodup _)), acc_total_accumulate. f_equal.
      rewrite named_flat_map, !flat_map_concat_map, !concat_map, !map_map. f_equal.
      apply map_ext. intros ln. apply byfood_values_are_filter.
    Qed.

    (** the former "full" variant needed the hypothesis that no selected day logs [x] directly as an
        undefined food; since fix F26 it is [byfood_total] itself (name kept) *)
    Theorem byfood_total_full : forall c πf πf' πd πd' d L,
      (forall l, Permutation (πf l) l) -> (forall l, Permutation (πf' l) l) ->
      sum NM (map (row_sum NM) (byfood_rows NM c πf πd d L))
      = match period_row NM πf' πd' d (rc_single_element c) L with
        | Some (p, n) => add NM p n
        | None => zero NM
        end.
    Proof. exact byfood_total. Qed.
  End Laws.
End ByFood.
