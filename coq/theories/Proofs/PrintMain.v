(** Property C14: the printed log reads back to the same days, and printing
    what was read back reproduces it byte for byte. *)
From Coq Require Import Lia ZifyBool ZifyNat ZifyN.
From HP Require Import Base.Bytes Base.Utf8 Base.Num Model.Scanner Model.Parser Model.Elements Model.Dates
     Model.Writer Model.Reporters Spec.PrintSpec
     Proofs.PrintBytes Proofs.PrintUtf8 Proofs.PrintDates Proofs.PrintLines Proofs.PrintParse Proofs.PrintNormal.
Open Scope N_scope.

Section PrintMain.
  Context (NM : Num) (FS : FmtStable NM).
  Notation T := (T NM).
  Notation lognode := (lognode NM).
  Notation f2 := (fmt_fixed NM 2).

  Lemma reread_elems_names (el : list (bytes * T)) : map fst (reread_elems NM el) = map fst el.
  Proof. unfold reread_elems. rewrite map_map. reflexivity. Qed.

  (** *** walking the events of a printed log *)
  Lemma lognodes_of_printed c L :
    Forall (day_ok NM c) L ->
    lognodes_of NM (rc_date c) (map (fun d => ENode (reread_node NM c d)) L) = Some (map (reread_day NM) L).
  Proof.
    induction 1 as [|d L Hd HL IH]; [reflexivity|].
    destruct Hd as [Ht [Hfit [_ [Hnd _]]]].
    cbn [map lognodes_of]. unfold reread_node at 1. cbn [header elems meta]. unfold fdate.
    rewrite (format_parse_date_fits _ _ Hfit). rewrite IH. cbn [option_map]. f_equal. f_equal.
    unfold reread_day. rewrite <- Ht. f_equal.
    apply merge_elements_nodup. rewrite reread_elems_names. exact Hnd.
  Qed.

  (** *** print_reads_back *)
  Theorem print_reads_back c L :
    heading_layout (rc_date c) = true -> Forall (day_ok NM c) L ->
    events NM (print_output NM c L) = map (fun d => ENode (reread_node NM c d)) L
    /\ read_log NM (rc_date c) (print_output NM c L) = Some (map (reread_day NM) L)
    /\ Forall (fun d => Forall (fun nv => of_lexeme NM (f2 (snd nv)) = Some (reread NM (snd nv))
                                          /\ f2 (reread NM (snd nv)) = f2 (snd nv)) (ln_elems NM d)) L.
  Proof.
    intros HL HF.
    assert (HP : Forall (day_printable NM c) L) by (eapply Forall_impl; [|exact HF]; apply day_ok_printable).
    pose proof (events_print_output NM FS c L HL HP) as E. split; [exact E|]. split.
    - unfold read_log. rewrite (scan_print_output NM FS c L HL HP). cbn [snd]. rewrite E.
      apply lognodes_of_printed, HF.
    - apply Forall_forall. intros d _. apply Forall_forall. intros nv _. apply (reread_spec NM FS).
  Qed.

  (** *** printing what was read back *)
  Lemma day_lines_reread c d : day_lines NM c (reread_day NM d) = day_lines NM c d.
  Proof.
    unfold day_lines, heading_line, notes_of, reread_day. cbn [ln_time ln_elems ln_meta]. f_equal. f_equal.
    - f_equal. destruct (ln_meta NM d) as [[|mp l]|]; reflexivity.
    - f_equal. unfold reread_elems. rewrite map_map. apply map_ext. intros nv.
      unfold entry_line. cbn [fst snd]. destruct (reread_spec NM FS (snd nv)) as [_ ->]. reflexivity.
  Qed.

  Lemma print_day_reread c d : print_day NM c (reread_day NM d) = print_day NM c d.
  Proof. rewrite !print_day_unlines. rewrite day_lines_reread. reflexivity. Qed.

  (** for ANY days: printing the re-read days gives the same bytes *)
  Lemma print_output_reread c L : print_output NM c (map (reread_day NM) L) = print_output NM c L.
  Proof.
    unfold print_output. rewrite map_map. f_equal. apply map_ext. intros d. apply print_day_reread.
  Qed.

  Theorem print_idempotent c L L' :
    heading_layout (rc_date c) = true -> Forall (day_ok NM c) L ->
    read_log NM (rc_date c) (print_output NM c L) = Some L' ->
    print_output NM c L' = print_output NM c L.
  Proof.
    intros HL HF H. destruct (print_reads_back c L HL HF) as [_ [E _]]. rewrite E in H. injection H as <-.
    apply print_output_reread.
  Qed.

  (** the days read back are again in the normal form (so the round trip can be repeated) *)
  Lemma reread_day_ok c d : day_ok NM c d -> day_ok NM c (reread_day NM d).
  Proof.
    intros [H1 [H2 [H3 [H4 [H5 H6]]]]]. unfold day_ok. rewrite day_lines_reread.
    unfold reread_day at 1 2 3 4 5. cbn [ln_time ln_elems]. split; [exact H1|]. split; [exact H2|].
    rewrite reread_elems_names. split; [|split; [exact H4|split; [|exact H6]]].
    - unfold reread_elems. apply Forall_map. exact H3.
    - unfold notes_of, reread_day. cbn [ln_meta]. unfold notes_of in H5.
      destruct (ln_meta NM d) as [[|mp l]|]; [constructor|exact H5|constructor].
  Qed.

  (** *** lifting to every readable log *)

  (** the part of [day_ok] that every day read from any file has *)
  Definition day_shape (toks : list ltoken) (d : lognode) : Prop :=
    ln_time NM d = time_of_civil (civ (ln_time NM d))
    /\ civil_fits toks (civ (ln_time NM d))
    /\ Forall (fun nv => normal_name (fst nv) = true) (ln_elems NM d)
    /\ NoDup (map fst (ln_elems NM d)).

  Lemma lognodes_of_shape toks evs : forall L,
    (forall n, In (ENode n) evs -> node_ok NM n) ->
    lognodes_of NM toks evs = Some L ->
    Forall (day_shape toks) L
    /\ (L <> [] -> forallb safe_tok toks = true -> heading_layout toks = true).
  Proof.
    induction evs as [|ev evs IH]; intros L Hok H.
    - cbn in H. injection H as <-. split; [constructor|congruence].
    - destruct ev as [n|e]; [|discriminate]. cbn [lognodes_of] in H.
      destruct (parse_date toks (header n)) as [cv|] eqn:Ed; [|discriminate].
      destruct (lognodes_of NM toks evs) as [L0|] eqn:E0; [|discriminate].
      cbn in H. injection H as <-.
      destruct (Hok n (or_introl eq_refl)) as [Hh He].
      destruct (IH L0 (fun n0 Hn0 => Hok n0 (or_intror Hn0)) eq_refl) as [IH1 _].
      split.
      + constructor; [|exact IH1]. unfold day_shape. cbn [ln_time ln_elems].
        assert (Ecv : civ (time_of_civil cv) = cv) by (destruct cv as [[y m] d]; reflexivity).
        rewrite Ecv. split; [reflexivity|]. split; [apply (parse_date_fits _ _ _ Ed)|].
        destruct (merge_elements_names NM (elems n)) as [M1 M2]. split; [|exact M1].
        apply Forall_forall. intros [name v] Hnv. cbn [fst].
        assert (HI : In name (map fst (elems n))).
        { apply M2. change name with (fst (name, v)). apply in_map. exact Hnv. }
        apply in_map_iff in HI. destruct HI as [[name' v'] [E1 E2]]. cbn in E1. subst name'.
        rewrite Forall_forall in He. apply (He _ E2).
      + intros _ Hsafe. apply (readable_heading_layout toks (header n) cv Hsafe Hh Ed).
  Qed.

  (** every day of every readable log has the normal shape *)
  Theorem read_log_shape toks data L :
    read_log NM toks data = Some L ->
    Forall (day_shape toks) L
    /\ (L <> [] -> forallb safe_tok toks = true -> heading_layout toks = true).
  Proof.
    unfold read_log. destruct (snd (scan data NoFault)); try discriminate.
    apply lognodes_of_shape. intros n Hn. apply (events_node_ok NM data n Hn).
  Qed.

  (** C14 for every readable log: only the notes and the line lengths need hypotheses *)
  Theorem print_reads_back_log c data L :
    forallb safe_tok (rc_date c) = true ->
    read_log NM (rc_date c) data = Some L ->
    Forall (fun d => Forall (fun mp => documented_note mp = true) (notes_of NM d)) L ->
    Forall (fun d => Forall (fun l => lengthN l < max_token) (day_lines NM c d)) L ->
    read_log NM (rc_date c) (print_output NM c L) = Some (map (reread_day NM) L)
    /\ print_output NM c (map (reread_day NM) L) = print_output NM c L.
  Proof.
    intros Hsafe Hread Hnotes Hlen. split; [|apply print_output_reread].
    destruct (read_log_shape _ _ _ Hread) as [Hshape Hlay].
    destruct L as [|d0 L0]; [reflexivity|].
    assert (HL : heading_layout (rc_date c) = true) by (apply Hlay; [discriminate|exact Hsafe]).
    apply (print_reads_back c (d0 :: L0) HL).
    rewrite Forall_forall in *. intros d Hd. destruct (Hshape d Hd) as [S1 [S2 [S3 S4]]].
    unfold day_ok. auto 10 using (Hnotes d Hd), (Hlen d Hd).
  Qed.
End PrintMain.
