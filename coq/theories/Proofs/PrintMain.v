(** Property C14: the printed log reads back to the same days, and printing
    what was read back reproduces it byte for byte. *)
From Coq Require Import Lia ZifyBool ZifyNat ZifyN.
From HP Require Import Base.Bytes Base.Utf8 Base.Num Model.Scanner Model.Parser Model.Elements Model.Dates
     Model.Writer Model.Reporters Spec.PrintSpec
     Proofs.PrintBytes Proofs.PrintUtf8 Proofs.PrintDates Proofs.PrintLines Proofs.PrintParse Proofs.PrintNormal.
Open Scope N_scope.

(** the configuration with another date layout *)
Definition with_date (c : rconfig) (toks : list ltoken) : rconfig :=
  {| rc_color := rc_color c; rc_totals_only := rc_totals_only c; rc_totals := rc_totals c; rc_date := toks;
     rc_single_element := rc_single_element c; rc_single_food := rc_single_food c;
     rc_collapse_last := rc_collapse_last c; rc_collapse := rc_collapse c; rc_group_food := rc_group_food c;
     rc_shorten := rc_shorten c; rc_old := rc_old c; rc_template := rc_template c; rc_csv := rc_csv c |}.

(** *** layouts that end with spaces.  [format_date] writes the spaces, the parser's trimming removes
    them from the heading, and [parse_date] reads the trimmed heading (a space of the layout matches the
    empty run at the end of the value).  The printed log is therefore parsed as the log printed under
    the layout without its final spaces ([layout_core]), which is a heading layout. *)
Section PrintCore.
  Context (NM : Num).
  Notation lognode := (lognode NM).

  Definition day_tail (d : lognode) : list bytes :=
    map note_line (notes_of NM d) ++ map (entry_line NM) (ln_elems NM d) ++ [[]].

  Lemma day_lines_heading c d : day_lines NM c d = heading_line NM c d :: day_tail d.
  Proof. reflexivity. Qed.

  (** the heading line with filler from the trim set before the colon *)
  Lemma classify_heading_filler ln fd post r :
    heading_bytes_ok fd -> all_in trim_text post = true ->
    classify NM ln (fd ++ post ++ [c_colon]) r = LHeading NM fd.
  Proof.
    intros [_ [Hf Hl]] Hpost.
    assert (Hf' : first_outside trim_text fd = true).
    { eapply first_outside_sub; [|exact Hf]. intros c Hc. rewrite !memb_cons. rewrite Hc. rewrite !orb_true_r. reflexivity. }
    assert (Hl' : last_outside trim_text fd = true).
    { eapply last_outside_sub; [|exact Hl]. intros c Hc. rewrite memb_cons. rewrite Hc. apply orb_true_r. }
    assert (Ht : trim trim_text (fd ++ post ++ [c_colon]) = fd).
    { apply (trim_core trim_text [] fd (post ++ [c_colon])); [reflexivity| |exact Hf'|exact Hl'].
      rewrite all_in_app, Hpost. reflexivity. }
    unfold classify. rewrite Ht. destruct fd as [|c0 rest]; [discriminate|]. cbn [app].
    cbn [first_outside] in Hf. apply negb_true_iff in Hf.
    unfold comment_char.
    rewrite (outside_neq _ _ c_hash Hf) by (cbn; tauto).
    rewrite (outside_neq _ _ c_space Hf) by (cbn; tauto).
    rewrite (outside_neq _ _ c_tab Hf) by (cbn; tauto).
    rewrite (outside_neq _ _ c_dash Hf) by (cbn; tauto).
    reflexivity.
  Qed.

  Section Core.
    Context (c c' : rconfig) (Ec : rc_date c' = layout_core (rc_date c))
            (HL' : heading_layout (rc_date c') = true) (Hsafe : forallb safe_tok (rc_date c) = true)
            (Hsep : sep_ok (rc_date c) = true).

    Lemma classify_heading_core d ln r : civil_fits (rc_date c) (civ (ln_time NM d)) ->
      classify NM ln (heading_line NM c d) r = classify NM ln (heading_line NM c' d) r.
    Proof.
      intros Hfit.
      assert (Hfit' : civil_fits (rc_date c') (civ (ln_time NM d))) by (rewrite Ec; apply civil_fits_core, Hfit).
      pose proof (format_date_heading _ _ HL' Hfit') as Hok.
      unfold heading_line at 2. rewrite (classify_heading NM _ (fdate c' (ln_time NM d)) _ Hok).
      unfold heading_line, fdate in *.
      destruct (format_date_core (rc_date c) (civ (ln_time NM d))) as [post [E Hpost]].
      rewrite E. rewrite <- Ec. rewrite <- app_assoc.
      apply (classify_heading_filler _ _ _ _ Hok Hpost).
    Qed.

    Lemma parse_loop_classify_ext ls ls' :
      Forall2 (fun l l' => forall ln r, classify NM ln l r = classify NM ln l' r) ls ls' ->
      forall ln cur, parse_loop NM ls ln cur = parse_loop NM ls' ln cur.
    Proof.
      induction 1 as [|l l' ls ls' Hl _ IH]; intros ln cur; [reflexivity|]. cbn [parse_loop]. rewrite Hl.
      destruct (classify NM (ln + 1) l' _); rewrite ?IH; reflexivity.
    Qed.

    Lemma day_lines_classify_core L :
      Forall (fun d => civil_fits (rc_date c) (civ (ln_time NM d))) L ->
      Forall2 (fun l l' => forall ln r, classify NM ln l r = classify NM ln l' r)
              (flat_map (day_lines NM c) L) (flat_map (day_lines NM c') L).
    Proof.
      induction 1 as [|d L Hd _ IH]; [constructor|]. cbn [flat_map]. apply Forall2_app; [|exact IH].
      rewrite !day_lines_heading. constructor; [intros ln r; apply classify_heading_core, Hd|].
      induction (day_tail d) as [|l t IHt]; constructor; [reflexivity|exact IHt].
    Qed.

    Lemma heading_line_scannable d : civil_fits (rc_date c) (civ (ln_time NM d)) ->
      memb c_lf (heading_line NM c d) = false /\ last_outside [c_cr] (heading_line NM c d) = true.
    Proof.
      intros Hfit. pose proof (format_date_bytes _ _ Hsafe Hfit) as Hb. unfold heading_line. split.
      - rewrite memb_app. unfold fdate. rewrite (heading_no_lf _ Hb). reflexivity.
      - apply last_outside_app. reflexivity.
    Qed.

    (** the day is in the normal form under the layout without its final spaces too *)
    Lemma day_ok_core d : day_ok NM c d -> day_ok NM c' d.
    Proof.
      clear HL' Hsafe Hsep. intros [H1 [H2 [H3 [H4 [H5 H6]]]]]. unfold day_ok. rewrite Ec.
      split; [exact H1|]. split; [apply civil_fits_core, H2|]. split; [exact H3|]. split; [exact H4|].
      split; [exact H5|]. rewrite day_lines_heading in H6 |- *. inversion H6 as [|x l Hh Ht]; subst.
      constructor; [|exact Ht]. unfold heading_line, fdate in Hh |- *. rewrite Ec.
      destruct (format_date_core (rc_date c) (civ (ln_time NM d))) as [post [E _]]. rewrite E in Hh.
      rewrite !lengthN_length in Hh |- *. rewrite !app_length in Hh. rewrite !app_length. lia.
    Qed.

    Lemma lognodes_of_printed_core L :
      Forall (day_ok NM c) L ->
      lognodes_of NM (rc_date c) (map (fun d => ENode (reread_node NM c' d)) L) = Some (map (reread_day NM) L).
    Proof.
      induction 1 as [|d L Hd HL IH]; [reflexivity|].
      destruct Hd as [Ht [Hfit [_ [Hnd _]]]].
      cbn [map lognodes_of]. unfold reread_node at 1. cbn [header elems meta]. unfold fdate. rewrite Ec.
      rewrite (format_parse_date_core _ _ Hsep Hfit). rewrite IH. cbn [option_map]. f_equal. f_equal.
      unfold reread_day. rewrite <- Ht. f_equal.
      apply merge_elements_nodup. unfold reread_elems. rewrite map_map. exact Hnd.
    Qed.

    (** given, for the layout without its final spaces, that the printed lines can be scanned and are
        parsed to the records of the days: the log printed under the layout itself reads back *)
    Lemma read_log_core L :
      Forall (day_ok NM c) L ->
      Forall (fun d => Forall (fun l => memb c_lf l = false) (day_lines NM c' d)
                       /\ Forall (fun l => l = [] \/ last_outside [c_cr] l = true) (day_lines NM c' d)) L ->
      events NM (print_output NM c' L) = map (fun d => ENode (reread_node NM c' d)) L ->
      read_log NM (rc_date c) (print_output NM c L) = Some (map (reread_day NM) L).
    Proof.
      intros HF HS' HE'.
      assert (Hfit : Forall (fun d => civil_fits (rc_date c) (civ (ln_time NM d))) L).
      { eapply Forall_impl; [|exact HF]. intros d Hd. apply Hd. }
      assert (HF' : Forall (day_ok NM c') L) by (eapply Forall_impl; [|exact HF]; apply day_ok_core).
      assert (HS : Forall (fun d => Forall (fun l => memb c_lf l = false) (day_lines NM c d)
                       /\ Forall (fun l => l = [] \/ last_outside [c_cr] l = true) (day_lines NM c d)) L).
      { rewrite Forall_forall in *. intros d Hd. destruct (HS' d Hd) as [A B].
        destruct (heading_line_scannable d (Hfit d Hd)) as [A0 B0].
        rewrite day_lines_heading in A, B |- *. inversion A; inversion B; subst.
        split; constructor; auto. }
      assert (Sc : forall c0, Forall (day_ok NM c0) L ->
                Forall (fun d => Forall (fun l => memb c_lf l = false) (day_lines NM c0 d)
                       /\ Forall (fun l => l = [] \/ last_outside [c_cr] l = true) (day_lines NM c0 d)) L ->
                scan (print_output NM c0 L) NoFault = (flat_map (day_lines NM c0) L, ScanEOF)).
      { intros c0 H0 S0. rewrite print_output_unlines. apply scan_unlines.
        - apply Forall_flat_map. eapply Forall_impl; [|exact S0]. intros d Hd. apply Hd.
        - apply Forall_flat_map. eapply Forall_impl; [|exact H0]. intros d Hd. apply Hd.
        - apply Forall_flat_map. eapply Forall_impl; [|exact S0]. intros d Hd. apply Hd. }
      assert (EE : events NM (print_output NM c L) = events NM (print_output NM c' L)).
      { unfold events. rewrite (Sc c HF HS), (Sc c' HF' HS'). cbn [fst]. unfold parse_lines.
        rewrite (parse_loop_classify_ext _ _ (day_lines_classify_core L Hfit)). reflexivity. }
      unfold read_log. rewrite (Sc c HF HS). cbn [snd]. rewrite EE, HE'.
      apply lognodes_of_printed_core, HF.
    Qed.
  End Core.
End PrintCore.

Section PrintMain.
  Context (NM : Num) (FS : FmtStable NM).
  Notation T := (T NM).
  Notation lognode := (lognode NM).
  Notation f2 := (fmt_fixed NM 2).

  Lemma reread_elems_names (el : list (bytes * T)) : map fst (reread_elems NM el) = map fst el.
  Proof. unfold reread_elems. rewrite map_map. reflexivity. Qed.

  (** *** walking the events of a printed log *)
  Lemma lognodes_of_printed c L :
    sep_ok (rc_date c) = true -> Forall (day_ok NM c) L ->
    lognodes_of NM (rc_date c) (map (fun d => ENode (reread_node NM c d)) L) = Some (map (reread_day NM) L).
  Proof.
    intros Hsep. induction 1 as [|d L Hd HL IH]; [reflexivity|].
    destruct Hd as [Ht [Hfit [_ [Hnd _]]]].
    cbn [map lognodes_of]. unfold reread_node at 1. cbn [header elems meta]. unfold fdate.
    rewrite (format_parse_date_fits _ _ Hsep Hfit). rewrite IH. cbn [option_map]. f_equal. f_equal.
    unfold reread_day. rewrite <- Ht. f_equal.
    apply merge_elements_nodup. rewrite reread_elems_names. exact Hnd.
  Qed.

  (** *** print_reads_back *)
  Theorem print_reads_back c L :
    heading_layout (rc_date c) = true -> Forall (day_ok NM c) L ->
    events NM (print_output NM c L) = map (fun d => ENode (reread_node NM c d)) L
    /\ read_log NM (rc_date c) (print_output NM c L) = Some (map (reread_day NM) L)
    /\ Forall (fun d => Forall (fun nv => of_lexeme NM (f2 (snd nv)) = Some (reread NM (snd nv))
                                          /\ f2 (reread NM (snd nv)) = f2 (snd nv)) (ln_elems NM d)) L.
  Proof.
    intros HL HF.
    assert (HP : Forall (day_printable NM c) L) by (eapply Forall_impl; [|exact HF]; apply day_ok_printable).
    pose proof (events_print_output NM FS c L HL HP) as E. split; [exact E|]. split.
    - unfold read_log. rewrite (scan_print_output NM FS c L HL HP). cbn [snd]. rewrite E.
      apply lognodes_of_printed; [apply heading_layout_sep, HL|exact HF].
    - apply Forall_forall. intros d _. apply Forall_forall. intros nv _. apply (reread_spec NM FS).
  Qed.

  (** the same for a layout that is a heading layout up to the spaces at its end: the printed log
      reads back to the same days (the records the parser delivers carry the trimmed headings) *)
  Theorem print_reads_back_core c L :
    forallb safe_tok (rc_date c) = true -> sep_ok (rc_date c) = true ->
    heading_layout (layout_core (rc_date c)) = true ->
    Forall (day_ok NM c) L ->
    read_log NM (rc_date c) (print_output NM c L) = Some (map (reread_day NM) L).
  Proof.
    intros Hsafe Hsep HL HF. set (c' := with_date c (layout_core (rc_date c))).
    assert (Ec : rc_date c' = layout_core (rc_date c)) by reflexivity.
    assert (HL' : heading_layout (rc_date c') = true) by exact HL.
    assert (HP' : Forall (day_printable NM c') L).
    { eapply Forall_impl; [|exact HF]. intros d Hd. apply day_ok_printable, (day_ok_core NM c c' Ec), Hd. }
    apply (read_log_core NM c c' Ec HL' Hsafe Hsep L HF).
    - eapply Forall_impl; [|exact HP']. intros d Hd. apply (day_lines_scannable NM FS c' d HL' Hd).
    - apply (events_print_output NM FS c' L HL' HP').
  Qed.

  (** *** printing what was read back *)
  Lemma day_lines_reread c d : day_lines NM c (reread_day NM d) = day_lines NM c d.
  Proof.
    unfold day_lines, heading_line, notes_of, reread_day. cbn [ln_time ln_elems ln_meta]. f_equal. f_equal.
    - f_equal. destruct (ln_meta NM d) as [[|mp l]|]; reflexivity.
    - f_equal. unfold reread_elems. rewrite map_map. apply map_ext. intros nv.
      unfold entry_line. cbn [fst snd]. destruct (reread_spec NM FS (snd nv)) as [_ ->]. reflexivity.
  Qed.

  Lemma print_day_reread c d : print_day NM c (reread_day NM d) = print_day NM c d.
  Proof. rewrite !print_day_unlines. rewrite day_lines_reread. reflexivity. Qed.

  (** for ANY days: printing the re-read days gives the same bytes *)
  Lemma print_output_reread c L : print_output NM c (map (reread_day NM) L) = print_output NM c L.
  Proof.
    unfold print_output. rewrite map_map. f_equal. apply map_ext. intros d. apply print_day_reread.
  Qed.

  Theorem print_idempotent c L L' :
    heading_layout (rc_date c) = true -> Forall (day_ok NM c) L ->
    read_log NM (rc_date c) (print_output NM c L) = Some L' ->
    print_output NM c L' = print_output NM c L.
  Proof.
    intros HL HF H. destruct (print_reads_back c L HL HF) as [_ [E _]]. rewrite E in H. injection H as <-.
    apply print_output_reread.
  Qed.

  (** the days read back are again in the normal form (so the round trip can be repeated) *)
  Lemma reread_day_ok c d : day_ok NM c d -> day_ok NM c (reread_day NM d).
  Proof.
    intros [H1 [H2 [H3 [H4 [H5 H6]]]]]. unfold day_ok. rewrite day_lines_reread.
    unfold reread_day at 1 2 3 4 5. cbn [ln_time ln_elems]. split; [exact H1|]. split; [exact H2|].
    rewrite reread_elems_names. split; [|split; [exact H4|split; [|exact H6]]].
    - unfold reread_elems. apply Forall_map. exact H3.
    - unfold notes_of, reread_day. cbn [ln_meta]. unfold notes_of in H5.
      destruct (ln_meta NM d) as [[|mp l]|]; [constructor|exact H5|constructor].
  Qed.

  (** *** lifting to every readable log *)

  (** the part of [day_ok] that every day read from any file has *)
  Definition day_shape (toks : list ltoken) (d : lognode) : Prop :=
    ln_time NM d = time_of_civil (civ (ln_time NM d))
    /\ civil_fits toks (civ (ln_time NM d))
    /\ Forall (fun nv => normal_name (fst nv) = true) (ln_elems NM d)
    /\ NoDup (map fst (ln_elems NM d)).

  Lemma lognodes_of_shape toks evs : forall L,
    (forall n, In (ENode n) evs -> node_ok NM n) ->
    lognodes_of NM toks evs = Some L ->
    Forall (day_shape toks) L
    /\ (L <> [] -> forallb safe_tok toks = true -> stable_layout toks = true -> heading_layout (layout_core toks) = true).
  Proof.
    induction evs as [|ev evs IH]; intros L Hok H.
    - cbn in H. injection H as <-. split; [constructor|congruence].
    - destruct ev as [n|e]; [|discriminate]. cbn [lognodes_of] in H.
      destruct (parse_date toks (header n)) as [cv|] eqn:Ed; [|discriminate].
      destruct (lognodes_of NM toks evs) as [L0|] eqn:E0; [|discriminate].
      cbn in H. injection H as <-.
      destruct (Hok n (or_introl eq_refl)) as [Hh He].
      destruct (IH L0 (fun n0 Hn0 => Hok n0 (or_intror Hn0)) eq_refl) as [IH1 _].
      split.
      + constructor; [|exact IH1]. unfold day_shape. cbn [ln_time ln_elems].
        assert (Ecv : civ (time_of_civil cv) = cv) by (destruct cv as [[y m] d]; reflexivity).
        rewrite Ecv. split; [reflexivity|]. split; [apply (parse_date_fits _ _ _ Ed)|].
        destruct (merge_elements_names NM (elems n)) as [M1 M2]. split; [|exact M1].
        apply Forall_forall. intros [name v] Hnv. cbn [fst].
        assert (HI : In name (map fst (elems n))).
        { apply M2. change name with (fst (name, v)). apply in_map. exact Hnv. }
        apply in_map_iff in HI. destruct HI as [[name' v'] [E1 E2]]. cbn in E1. subst name'.
        rewrite Forall_forall in He. apply (He _ E2).
      + intros _ Hsafe Hst. apply (readable_heading_layout toks (header n) cv Hsafe Hst Hh Ed).
  Qed.

  (** every day of every readable log has the normal shape, and the layout, when what it writes is read
      back ([stable_layout]), is a heading layout up to the spaces at its end *)
  Theorem read_log_shape toks data L :
    read_log NM toks data = Some L ->
    Forall (day_shape toks) L
    /\ (L <> [] -> forallb safe_tok toks = true -> stable_layout toks = true -> heading_layout (layout_core toks) = true).
  Proof.
    unfold read_log. destruct (snd (scan data NoFault)); try discriminate.
    apply lognodes_of_shape. intros n Hn. apply (events_node_ok NM data n Hn).
  Qed.

  (** C14 for every readable log: only the notes and the line lengths need hypotheses *)
  Theorem print_reads_back_log c data L :
    forallb safe_tok (rc_date c) = true -> stable_layout (rc_date c) = true ->
    read_log NM (rc_date c) data = Some L ->
    Forall (fun d => Forall (fun mp => documented_note mp = true) (notes_of NM d)) L ->
    Forall (fun d => Forall (fun l => lengthN l < max_token) (day_lines NM c d)) L ->
    read_log NM (rc_date c) (print_output NM c L) = Some (map (reread_day NM) L)
    /\ print_output NM c (map (reread_day NM) L) = print_output NM c L.
  Proof.
    intros Hsafe Hst Hread Hnotes Hlen. split; [|apply print_output_reread].
    assert (Hsep : sep_ok (rc_date c) = true) by (unfold stable_layout in Hst; apply andb_true_iff in Hst; apply Hst).
    destruct (read_log_shape _ _ _ Hread) as [Hshape Hlay].
    destruct L as [|d0 L0]; [reflexivity|].
    assert (HL : heading_layout (layout_core (rc_date c)) = true) by (apply Hlay; [discriminate|exact Hsafe|exact Hst]).
    apply (print_reads_back_core c (d0 :: L0) Hsafe Hsep HL).
    rewrite Forall_forall in *. intros d Hd. destruct (Hshape d Hd) as [S1 [S2 [S3 S4]]].
    unfold day_ok. auto 10 using (Hnotes d Hd), (Hlen d Hd).
  Qed.
End PrintMain.
