(** WP12: period reports of a concatenation are the element-wise sums of the
    parts (totals, by-food totals, quantity, grand total of the single-element
    balance, unresolved names).  Needs [AddMonoid NM]. *)
From Coq Require Import Lia.
From HP Require Import Base.Bytes Base.Utf8 Base.Num Model.Scanner Model.Parser Model.Elements Model.Dates
  Model.Tree Model.Writer Model.Reporters Model.Cli Spec.ComposeSpec
  Proofs.ComposeWriter Proofs.ComposeWalk Proofs.ComposeAssoc Proofs.ComposePeriod.

(** a fold whose observation [get] moves by a monoid action *)
Section FoldMonoid.
  Context {X S C : Type} (op : X -> X -> X) (e : X).
  Hypothesis op_assoc : forall a b c, op a (op b c) = op (op a b) c.
  Hypothesis op_e_l : forall a, op e a = a.
  Hypothesis op_e_r : forall a, op a e = a.
  Context (get : S -> X) (step : S -> C -> S) (w : C -> X).
  Hypothesis get_step : forall s c, get (step s c) = op (get s) (w c).

  Definition wsum (cs : list C) : X := fold_right (fun c a => op (w c) a) e cs.

  Lemma fold_get : forall cs s, get (fold_left step cs s) = op (get s) (wsum cs).
  Proof.
    induction cs as [|c r IH]; intros s; cbn [fold_left wsum fold_right].
    - symmetry. apply op_e_r.
    - rewrite IH, get_step, op_assoc. reflexivity.
  Qed.

  Lemma fold_get_split : forall s0 cs s, get s0 = e ->
    get (fold_left step cs s) = op (get s) (get (fold_left step cs s0)).
  Proof.
    intros s0 cs s H0. rewrite (fold_get cs s), (fold_get cs s0), H0, op_e_l. reflexivity.
  Qed.
End FoldMonoid.

Section Add.
  Context (NM : Num) (AM : AddMonoid NM).
  Notation T := (T NM).

  Lemma add_0_r : forall x : T, add NM x (zero NM) = x.
  Proof. intros x. rewrite (am_comm NM AM). apply (am_0_l NM AM). Qed.

  Lemma pair_add_assoc : forall a c e : T * T,
    pair_add NM a (pair_add NM c e) = pair_add NM (pair_add NM a c) e.
  Proof. intros [a1 a2] [c1 c2] [e1 e2]. unfold pair_add. cbn. rewrite !(am_assoc NM AM). reflexivity. Qed.

  Lemma pair_add_0_l : forall a : T * T, pair_add NM (zero NM, zero NM) a = a.
  Proof. intros [a1 a2]. unfold pair_add. cbn. rewrite !(am_0_l NM AM). reflexivity. Qed.

  Lemma pair_add_0_r : forall a : T * T, pair_add NM a (zero NM, zero NM) = a.
  Proof. intros [a1 a2]. unfold pair_add. cbn. rewrite !add_0_r. reflexivity. Qed.

  (** *** accumulators (totals, by-food) *)
  Definition acc_step (a : accumulator NM) (nv : bytes * T) : accumulator NM := acc_add NM (fst nv) (snd nv) a.

  Definition acc_delta (v : T) : T * T := if ltb NM v (zero NM) then (zero NM, v) else (v, zero NM).

  Definition acc_weight (x : bytes) (nv : bytes * T) : T * T :=
    if beq x (fst nv) then acc_delta (snd nv) else (zero NM, zero NM).

  Lemma acc_get_step : forall x a nv, acc_get NM x (acc_step a nv) = pair_add NM (acc_get NM x a) (acc_weight x nv).
  Proof.
    intros x a [k v]. unfold acc_step, acc_weight, acc_delta, acc_add, acc_get. cbn [fst snd].
    destruct (beq_spec x k) as [->|Hne].
    - destruct (lookup k a) as [[p n]|] eqn:E.
      + rewrite lookup_set_same. unfold pair_add. destruct (ltb NM v (zero NM)); cbn; rewrite add_0_r; reflexivity.
      + rewrite lookup_app, E. cbn. rewrite beq_refl. unfold pair_add.
        destruct (ltb NM v (zero NM)); cbn; rewrite !(am_0_l NM AM); reflexivity.
    - rewrite pair_add_0_r.
      destruct (lookup k a) as [[p n]|] eqn:E.
      + rewrite lookup_set_other by exact Hne. reflexivity.
      + rewrite lookup_app. destruct (lookup x a); [reflexivity|]. cbn.
        apply beq_false_iff in Hne. rewrite Hne. reflexivity.
  Qed.

  Lemma acc_fold_add : forall x cs a,
    acc_get NM x (fold_left acc_step cs a)
    = pair_add NM (acc_get NM x a) (acc_get NM x (fold_left acc_step cs [])).
  Proof.
    intros x cs a.
    apply (fold_get_split (pair_add NM) (zero NM, zero NM) pair_add_assoc pair_add_0_l pair_add_0_r
             (acc_get NM x) acc_step (acc_weight x) (acc_get_step x)).
    reflexivity.
  Qed.

  Lemma acc_add_keys : forall k v (l : accumulator NM),
    keys (acc_add NM k v l) = if mem k (keys l) then keys l else keys l ++ [k].
  Proof.
    intros k v l. unfold acc_add.
    destruct (lookup k l) as [[p n]|] eqn:E.
    - assert (M : mem k (keys l) = true) by (apply lookup_some_mem; eauto).
      rewrite M. apply keys_set_present. exact M.
    - apply lookup_none_mem in E. rewrite E. rewrite keys_app. reflexivity.
  Qed.

  Lemma acc_fold_keys : forall cs (a : accumulator NM),
    keys (fold_left acc_step cs a) = union_keys (keys a) (keys (fold_left acc_step cs [])).
  Proof. intros cs a. exact (fold_upsert_keys_from (acc_add NM) acc_add_keys cs a). Qed.

  (** a reporter whose state is an accumulator fed with [contrib] of each day *)
  Lemma acc_reports_add : forall (contrib : lognode NM -> elements NM) (l2 : list (lognode NM)) (a1 : accumulator NM),
    let step := fun a ln => fold_left acc_step (contrib ln) a in
    let a2 := fold_left step l2 [] in
    let a12 := fold_left step l2 a1 in
    (forall x, acc_get NM x a12 = pair_add NM (acc_get NM x a1) (acc_get NM x a2))
    /\ keys a12 = union_keys (keys a1) (keys a2).
  Proof.
    intros contrib l2 a1 step a2 a12. unfold a12, a2, step. rewrite !fold_left_flat_map. split.
    - intros x. apply acc_fold_add.
    - apply acc_fold_keys.
  Qed.

  Section Reports.
    Context (pd pd1 pd2 : nat -> list bytes -> list bytes) (pf pf1 pf2 : list bytes -> list bytes)
            (toks : list ltoken) (bt et : option time).

    (** totals *)
    Theorem period_reports_add_totals : forall d evs1 evs2,
      snd (report NM (rep_totals NM d) pd pf toks bt et evs1) = None ->
      let a1 : accumulator NM := report_state NM (rep_totals NM d) pd1 pf1 toks bt et evs1 in
      let a2 : accumulator NM := report_state NM (rep_totals NM d) pd2 pf2 toks bt et evs2 in
      let a12 : accumulator NM := report_state NM (rep_totals NM d) pd pf toks bt et (evs1 ++ evs2) in
      (forall x, acc_get NM x a12 = pair_add NM (acc_get NM x a1) (acc_get NM x a2))
      /\ keys a12 = union_keys (keys a1) (keys a2).
    Proof.
      intros d evs1 evs2 Hok a1 a2 a12.
      destruct (period_state_fold NM _ (PR_totals NM d) pd pf pd1 pf1 toks bt et evs1 evs2 Hok) as [H12 _].
      destruct (period_report NM _ (PR_totals NM d) pd2 pf2 toks bt et evs2) as [H2 _].
      unfold a12, a2, a1. rewrite H12, H2.
      exact (acc_reports_add (contributions NM d) (fst (walked_nodes NM toks bt et evs2)) _).
    Qed.

    (** by-food register (reg -s X -g) *)
    Theorem period_reports_add_byfood : forall c d evs1 evs2,
      snd (report NM (rep_byfood NM c d) pd pf toks bt et evs1) = None ->
      let a1 : accumulator NM := report_state NM (rep_byfood NM c d) pd1 pf1 toks bt et evs1 in
      let a2 : accumulator NM := report_state NM (rep_byfood NM c d) pd2 pf2 toks bt et evs2 in
      let a12 : accumulator NM := report_state NM (rep_byfood NM c d) pd pf toks bt et (evs1 ++ evs2) in
      (forall x, acc_get NM x a12 = pair_add NM (acc_get NM x a1) (acc_get NM x a2))
      /\ keys a12 = union_keys (keys a1) (keys a2).
    Proof.
      intros c d evs1 evs2 Hok a1 a2 a12.
      destruct (period_state_fold NM _ (PR_byfood NM c d) pd pf pd1 pf1 toks bt et evs1 evs2 Hok) as [H12 _].
      destruct (period_report NM _ (PR_byfood NM c d) pd2 pf2 toks bt et evs2) as [H2 _].
      unfold a12, a2, a1. rewrite H12, H2.
      exact (acc_reports_add (byfood_contributions NM d (rc_single_element c)) (fst (walked_nodes NM toks bt et evs2)) _).
    Qed.
  End Reports.

  (** *** quantity *)
  Definition qty_step (a : elements NM) (nv : bytes * T) : elements NM := qty_add NM (fst nv) (snd nv) a.

  Definition qty_weight (x : bytes) (nv : bytes * T) : T := if beq x (fst nv) then snd nv else zero NM.

  Lemma qty_get_step : forall x a nv, qty_get NM x (qty_step a nv) = add NM (qty_get NM x a) (qty_weight x nv).
  Proof.
    intros x a [k v]. unfold qty_step, qty_weight, qty_add, qty_get. cbn [fst snd].
    destruct (beq_spec x k) as [->|Hne].
    - destruct (lookup k a) as [q|] eqn:E.
      + rewrite lookup_set_same. reflexivity.
      + rewrite lookup_app, E. cbn. rewrite beq_refl. reflexivity.
    - rewrite add_0_r.
      destruct (lookup k a) as [q|] eqn:E.
      + rewrite lookup_set_other by exact Hne. reflexivity.
      + rewrite lookup_app. destruct (lookup x a); [reflexivity|]. cbn.
        apply beq_false_iff in Hne. rewrite Hne. reflexivity.
  Qed.

  Lemma qty_fold_add : forall x cs a,
    qty_get NM x (fold_left qty_step cs a) = add NM (qty_get NM x a) (qty_get NM x (fold_left qty_step cs [])).
  Proof.
    intros x cs a.
    apply (fold_get_split (add NM) (zero NM) (am_assoc NM AM) (am_0_l NM AM) add_0_r
             (qty_get NM x) qty_step (qty_weight x) (qty_get_step x)).
    reflexivity.
  Qed.

  Lemma qty_add_keys : forall k v (l : elements NM),
    keys (qty_add NM k v l) = if mem k (keys l) then keys l else keys l ++ [k].
  Proof.
    intros k v l. unfold qty_add.
    destruct (lookup k l) as [q|] eqn:E.
    - assert (M : mem k (keys l) = true) by (apply lookup_some_mem; eauto).
      rewrite M. apply keys_set_present. exact M.
    - apply lookup_none_mem in E. rewrite E. rewrite keys_app. reflexivity.
  Qed.

  Theorem period_reports_add_quantity :
    forall (pd pd1 pd2 : nat -> list bytes -> list bytes) (pf pf1 pf2 : list bytes -> list bytes)
           toks bt et desc evs1 evs2,
      snd (report NM (rep_quantity NM desc) pd pf toks bt et evs1) = None ->
      let q1 : elements NM := report_state NM (rep_quantity NM desc) pd1 pf1 toks bt et evs1 in
      let q2 : elements NM := report_state NM (rep_quantity NM desc) pd2 pf2 toks bt et evs2 in
      let q12 : elements NM := report_state NM (rep_quantity NM desc) pd pf toks bt et (evs1 ++ evs2) in
      (forall f, qty_get NM f q12 = add NM (qty_get NM f q1) (qty_get NM f q2))
      /\ keys q12 = union_keys (keys q1) (keys q2).
  Proof.
    intros pd pd1 pd2 pf pf1 pf2 toks bt et desc evs1 evs2 Hok q1 q2 q12.
    destruct (period_state_fold NM _ (PR_quantity NM desc) pd pf pd1 pf1 toks bt et evs1 evs2 Hok) as [H12 _].
    destruct (period_report NM _ (PR_quantity NM desc) pd2 pf2 toks bt et evs2) as [H2 _].
    unfold q12, q2, q1. rewrite H12, H2.
    set (l2 := fst (walked_nodes NM toks bt et evs2)).
    set (s1 := report_state NM (rep_quantity NM desc) pd1 pf1 toks bt et evs1).
    change (pstep NM (rep_quantity NM desc)) with (fun (a : elements NM) (ln : lognode NM) => fold_left qty_step (ln_elems NM ln) a).
    change (r_init NM (rep_quantity NM desc)) with (@nil (bytes * T)).
    rewrite !fold_left_flat_map. split.
    - intros f. apply qty_fold_add.
    - exact (fold_upsert_keys_from (qty_add NM) qty_add_keys _ s1).
  Qed.

  (** *** grand total of the single-element balance *)
  Lemma fold_pair_snd : forall {A B C : Type} (f : A -> C -> A) (g : B -> C -> B) (l : list C) (a : A) (x : B),
    snd (fold_left (fun st c => (f (fst st) c, g (snd st) c)) l (a, x)) = fold_left g l x.
  Proof. intros A B C f g. induction l as [|c r IH]; intros a x; cbn; [reflexivity | apply IH]. Qed.

  Lemma fold_pair_fst : forall {A B C : Type} (f : A -> C -> A) (g : B -> C -> B) (l : list C) (a : A) (x : B),
    fst (fold_left (fun st c => (f (fst st) c, g (snd st) c)) l (a, x)) = fold_left f l a.
  Proof. intros A B C f g. induction l as [|c r IH]; intros a x; cbn; [reflexivity | apply IH]. Qed.

  Definition grand_step (a : T) (nv : bytes * T) : T := add NM a (snd nv).

  Lemma grand_fold_add : forall cs a,
    fold_left grand_step cs a = add NM a (fold_left grand_step cs (zero NM)).
  Proof.
    intros cs a.
    apply (fold_get_split (add NM) (zero NM) (am_assoc NM AM) (am_0_l NM AM) add_0_r
             (fun s : T => s) grand_step (fun nv => snd nv) (fun s c => eq_refl)).
    reflexivity.
  Qed.

  Theorem period_reports_add_balance_single_grand :
    forall (pd pd1 pd2 : nat -> list bytes -> list bytes) (pf pf1 pf2 : list bytes -> list bytes)
           toks bt et c d evs1 evs2,
      snd (report NM (rep_balance_single NM c d) pd pf toks bt et evs1) = None ->
      let g1 : T := snd (report_state NM (rep_balance_single NM c d) pd1 pf1 toks bt et evs1 : tree NM * T) in
      let g2 : T := snd (report_state NM (rep_balance_single NM c d) pd2 pf2 toks bt et evs2 : tree NM * T) in
      let g12 : T := snd (report_state NM (rep_balance_single NM c d) pd pf toks bt et (evs1 ++ evs2) : tree NM * T) in
      g12 = add NM g1 g2.
  Proof.
    intros pd pd1 pd2 pf pf1 pf2 toks bt et c d evs1 evs2 Hok g1 g2 g12.
    destruct (period_state_fold NM _ (PR_balance_single NM c d) pd pf pd1 pf1 toks bt et evs1 evs2 Hok) as [H12 _].
    destruct (period_report NM _ (PR_balance_single NM c d) pd2 pf2 toks bt et evs2) as [H2 _].
    unfold g12, g2, g1. rewrite H12, H2.
    set (l2 := fst (walked_nodes NM toks bt et evs2)).
    destruct (report_state NM (rep_balance_single NM c d) pd1 pf1 toks bt et evs1) as [t1 x1].
    set (cs := fun ln => bal_single_contributions NM d (rc_single_element c) ln).
    change (pstep NM (rep_balance_single NM c d))
      with (fun (st : tree NM * T) (ln : lognode NM) =>
              (fold_left (fun t nv => tree_add NM t (fst nv) (snd nv)) (cs ln) (fst st), fold_left grand_step (cs ln) (snd st))).
    change (r_init NM (rep_balance_single NM c d)) with (empty_root NM, zero NM).
    rewrite !(fold_pair_snd (fun t ln => fold_left (fun t nv => tree_add NM t (fst nv) (snd nv)) (cs ln) t)
                            (fun x ln => fold_left grand_step (cs ln) x)).
    rewrite !fold_left_flat_map. cbn [snd]. apply grand_fold_add.
  Qed.
End Add.

(** *** unresolved names: the list of the concatenation is the union (no law needed) *)
Section Unresolved.
  Context (NM : Num).
  Notation T := (T NM).

  Definition unres_step (d : list (bytes * elements NM)) (a : list bytes) (nv : bytes * T) : list bytes :=
    match lookup (fst nv) d with
    | Some _ => a
    | None => if existsb (beq (fst nv)) a then a else a ++ [fst nv]
    end.

  Definition unres_names (d : list (bytes * elements NM)) (els : elements NM) : list bytes :=
    map fst (filter (fun nv => match lookup (fst nv) d with Some _ => false | None => true end) els).

  Lemma unres_fold : forall d els a,
    fold_left (unres_step d) els a = a ++ new_keys a (unres_names d els).
  Proof.
    intros d. induction els as [|[k v] r IH]; intros a; cbn [fold_left].
    - cbn. rewrite app_nil_r. reflexivity.
    - unfold unres_step at 2. unfold unres_names. cbn [fst filter].
      destruct (lookup k d) as [els'|].
      + apply IH.
      + cbn [map fst new_keys]. fold (mem k a).
        destruct (mem k a); [apply IH|].
        rewrite IH. rewrite <- app_assoc. reflexivity.
  Qed.

  Theorem period_reports_union_unresolved :
    forall (pd pd1 pd2 : nat -> list bytes -> list bytes) (pf pf1 pf2 : list bytes -> list bytes)
           toks bt et d evs1 evs2,
      snd (report NM (rep_unresolved NM d) pd pf toks bt et evs1) = None ->
      let u1 : list bytes := report_state NM (rep_unresolved NM d) pd1 pf1 toks bt et evs1 in
      let u2 : list bytes := report_state NM (rep_unresolved NM d) pd2 pf2 toks bt et evs2 in
      let u12 : list bytes := report_state NM (rep_unresolved NM d) pd pf toks bt et (evs1 ++ evs2) in
      u12 = union_keys u1 u2.
  Proof.
    intros pd pd1 pd2 pf pf1 pf2 toks bt et d evs1 evs2 Hok u1 u2 u12.
    destruct (period_state_fold NM _ (PR_unresolved NM d) pd pf pd1 pf1 toks bt et evs1 evs2 Hok) as [H12 _].
    destruct (period_report NM _ (PR_unresolved NM d) pd2 pf2 toks bt et evs2) as [H2 _].
    unfold u12, u2, u1. rewrite H12, H2.
    set (l2 := fst (walked_nodes NM toks bt et evs2)).
    set (s1 := report_state NM (rep_unresolved NM d) pd1 pf1 toks bt et evs1).
    change (pstep NM (rep_unresolved NM d))
      with (fun (a : list bytes) (ln : lognode NM) => fold_left (unres_step d) (ln_elems NM ln) a).
    change (r_init NM (rep_unresolved NM d)) with (@nil bytes).
    rewrite !fold_left_flat_map, !unres_fold. unfold union_keys. cbn [app]. f_equal.
    apply new_keys_nil_filter.
  Qed.
End Unresolved.
