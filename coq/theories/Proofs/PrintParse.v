(** The parser on a printed log: the bytes print writes are the lines of
    [day_lines], the scanner gives those lines back, and the parse loop turns
    each day's lines into one record. *)
From Coq Require Import Lia ZifyBool ZifyNat ZifyN.
From HP Require Import Base.Bytes Base.Utf8 Base.Num Model.Scanner Model.Parser Model.Elements Model.Dates
     Model.Writer Model.Reporters Spec.PrintSpec
     Proofs.PrintBytes Proofs.PrintUtf8 Proofs.PrintDates Proofs.PrintLines.
Open Scope N_scope.

Section PrintParse.
  Context (NM : Num).
  Notation T := (T NM).
  Notation lognode := (lognode NM).
  Notation f2 := (fmt_fixed NM 2).

  (** *** print writes the lines of [day_lines], each followed by LF *)
  Lemma note_chunks_unlines (l : list (bytes * bytes)) :
    concat (map fst (map (fun mp : bytes * bytes =>
                            if match fst mp with [] => false | _ => true end
                            then checked (b "  # " ++ fst mp ++ b ": " ++ snd mp ++ [c_lf])
                            else checked (b "  # " ++ snd mp ++ [c_lf])) l))
    = unlines (map note_line l).
  Proof.
    induction l as [|mp l IH]; [reflexivity|]. unfold unlines in *. cbn [map concat]. rewrite IH. f_equal.
    unfold note_line. destruct (fst mp); cbn [fst checked]; rewrite <- ?app_assoc; reflexivity.
  Qed.

  Lemma entry_chunks_unlines (l : list (bytes * T)) :
    concat (map fst (map (fun nv : bytes * T => checked (b "  - " ++ fst nv ++ b ": " ++ f2 (snd nv) ++ [c_lf])) l))
    = unlines (map (entry_line NM) l).
  Proof.
    induction l as [|nv l IH]; [reflexivity|]. unfold unlines in *. cbn [map concat]. rewrite IH. f_equal.
    unfold entry_line. cbn [fst checked]. rewrite <- !app_assoc. reflexivity.
  Qed.

  Lemma print_day_unlines c d : print_day NM c d = unlines (day_lines NM c d).
  Proof.
    unfold print_day, print_chunks, day_lines, heading_line, notes_of.
    change (unlines (?h :: ?r)) with ((h ++ [c_lf]) ++ unlines r).
    cbn [map concat fst checked]. rewrite <- !app_assoc. do 3 apply (f_equal (app _)).
    rewrite !unlines_app. rewrite !map_app, !concat_app. apply f_equal2; [|apply f_equal2; [|reflexivity]].
    - destruct (ln_meta NM d) as [l|]; [|reflexivity]. apply note_chunks_unlines.
    - apply entry_chunks_unlines.
  Qed.

  Lemma print_output_unlines c L : print_output NM c L = unlines (flat_map (day_lines NM c) L).
  Proof.
    unfold print_output. induction L as [|d L IH]; [reflexivity|].
    cbn [map concat flat_map]. rewrite unlines_app. rewrite IH. rewrite print_day_unlines. reflexivity.
  Qed.

  (** *** the number law *)
  Context (FS : FmtStable NM).

  Lemma reread_spec v : of_lexeme NM (f2 v) = Some (reread NM v) /\ f2 (reread NM v) = f2 v.
  Proof.
    destruct (fs_reread NM FS v) as [v' [H1 H2]]. unfold reread. rewrite H1. split; [reflexivity|exact H2].
  Qed.

  (** *** folding notes and entries into a record *)
  Lemma fold_add_meta ms : forall n,
    fold_left (add_meta NM) ms n =
    {| header := header n; elems := elems n;
       meta := match ms with
               | [] => meta n
               | _ => Some (match meta n with None => [] | Some l => l end ++ ms)
               end |}.
  Proof.
    induction ms as [|mp ms IH]; intros n; [destruct n; reflexivity|].
    cbn [fold_left]. rewrite IH. unfold add_meta. cbn [header elems meta]. f_equal.
    destruct ms as [|mp' ms]; destruct (meta n) as [l|]; cbn [app]; rewrite <- ?app_assoc; reflexivity.
  Qed.

  Lemma fold_add_elem (es : list (bytes * T)) : forall n,
    fold_left (fun n nv => add_elem NM n (fst nv) (snd nv)) es n =
    {| header := header n; elems := elems n ++ es; meta := meta n |}.
  Proof.
    induction es as [|nv es IH]; intros n; [destruct n; cbn; rewrite app_nil_r; reflexivity|].
    cbn [fold_left]. rewrite IH. unfold add_elem. cbn [header elems meta]. rewrite <- app_assoc.
    destruct nv. reflexivity.
  Qed.

  (** *** the parse loop on note lines, entry lines, a whole day *)
  Lemma parse_loop_notes ms : forall rest ln n,
    Forall (fun mp => documented_note mp = true) ms ->
    parse_loop NM (map note_line ms ++ rest) ln (Some n)
    = parse_loop NM rest (ln + lengthN ms) (Some (fold_left (add_meta NM) ms n)).
  Proof.
    induction ms as [|mp ms IH]; intros rest ln n H; [cbn; rewrite N.add_0_r; reflexivity|].
    inversion H as [|? ? Hmp Hms]; subst. cbn [map app parse_loop].
    rewrite (classify_note NM _ mp Hmp). cbn [option_map fold_left].
    rewrite (IH rest (ln + 1) (add_meta NM n mp) Hms). cbn [lengthN]. f_equal. lia.
  Qed.

  Lemma parse_loop_entries (es : list (bytes * T)) : forall rest ln n,
    Forall (fun nv => normal_name (fst nv) = true) es ->
    parse_loop NM (map (entry_line NM) es ++ rest) ln (Some n)
    = parse_loop NM rest (ln + lengthN es)
        (Some (fold_left (fun n nv => add_elem NM n (fst nv) (snd nv)) (reread_elems NM es) n)).
  Proof.
    induction es as [|nv es IH]; intros rest ln n H; [cbn; rewrite N.add_0_r; reflexivity|].
    inversion H as [|? ? Hnv Hes]; subst. cbn [map app parse_loop]. unfold entry_line at 1.
    destruct (reread_spec (snd nv)) as [Hre _].
    rewrite (classify_entry NM _ (fst nv) (f2 (snd nv)) (reread NM (snd nv)) Hnv (fs_clean NM FS _) Hre).
    cbn [option_map fold_left reread_elems map fst snd].
    rewrite (IH rest (ln + 1) (add_elem NM n (fst nv) (reread NM (snd nv))) Hes). cbn [lengthN]. f_equal. lia.
  Qed.

  (** what the parser needs of a printed day (a [day_ok] day without the
      conditions on the time and on distinct names) *)
  Definition day_printable (c : rconfig) (d : lognode) : Prop :=
    civil_fits (rc_date c) (civ (ln_time NM d))
    /\ Forall (fun nv => normal_name (fst nv) = true) (ln_elems NM d)
    /\ Forall (fun mp => documented_note mp = true) (notes_of NM d)
    /\ Forall (fun l => lengthN l < max_token) (day_lines NM c d).

  Lemma day_ok_printable c d : day_ok NM c d -> day_printable c d.
  Proof. intros [_ [H2 [H3 [_ [H5 H6]]]]]. unfold day_printable. auto. Qed.

  Definition cur_events (cur : option (pnode NM)) : list (event NM) :=
    match cur with Some n => [ENode n] | None => [] end.

  Lemma parse_loop_day c d rest ln cur :
    heading_layout (rc_date c) = true -> day_printable c d ->
    exists ln', parse_loop NM (day_lines NM c d ++ rest) ln cur
                = let '(evs, last) := parse_loop NM rest ln' (Some (reread_node NM c d)) in
                  (cur_events cur ++ evs, last).
  Proof.
    intros HL [Hfit [Hnames [Hnotes _]]].
    exists (ln + 1 + lengthN (notes_of NM d) + lengthN (ln_elems NM d) + 1).
    unfold day_lines. cbn [app parse_loop]. unfold heading_line at 1.
    rewrite (classify_heading NM _ (fdate c (ln_time NM d)) _ (format_date_heading _ _ HL Hfit)).
    rewrite <- !app_assoc. rewrite (parse_loop_notes _ _ _ _ Hnotes). rewrite (parse_loop_entries _ _ _ _ Hnames).
    cbn [app parse_loop]. rewrite classify_empty.
    assert (En : fold_left (fun n nv => add_elem NM n (fst nv) (snd nv)) (reread_elems NM (ln_elems NM d))
                   (fold_left (add_meta NM) (notes_of NM d) (new_node NM (fdate c (ln_time NM d))))
                 = reread_node NM c d).
    { rewrite fold_add_elem, fold_add_meta. unfold reread_node, new_node, notes_of, norm_meta.
      cbn [header elems meta app]. f_equal. destruct (ln_meta NM d) as [[|mp l]|]; reflexivity. }
    rewrite En. destruct (parse_loop NM rest _ (Some (reread_node NM c d))) as [evs last].
    destruct cur; reflexivity.
  Qed.

  Lemma parse_loop_days c L : forall ln cur,
    heading_layout (rc_date c) = true -> Forall (day_printable c) L ->
    let r := parse_loop NM (flat_map (day_lines NM c) L) ln cur in
    fst r ++ cur_events (snd r) = cur_events cur ++ map (fun d => ENode (reread_node NM c d)) L.
  Proof.
    induction L as [|d L IH]; intros ln cur HL HF.
    - cbn. rewrite app_nil_r. reflexivity.
    - inversion HF as [|? ? Hd HLs]; subst. cbn [flat_map map].
      destruct (parse_loop_day c d (flat_map (day_lines NM c) L) ln cur HL Hd) as [ln' E].
      rewrite E. specialize (IH ln' (Some (reread_node NM c d)) HL HLs). cbv zeta in IH.
      destruct (parse_loop NM (flat_map (day_lines NM c) L) ln' (Some (reread_node NM c d))) as [evs last].
      cbn [fst snd] in *. rewrite <- app_assoc. rewrite IH. reflexivity.
  Qed.

  (** *** the scanner gives the printed lines back *)
  Lemma last_outside_cr_of set s : last_outside (c_cr :: set) s = true -> last_outside [c_cr] s = true.
  Proof.
    apply last_outside_sub. intros x Hx. cbn in Hx. rewrite orb_false_r in Hx. rewrite memb_cons. rewrite Hx. reflexivity.
  Qed.

  Lemma note_line_scannable mp : documented_note mp = true ->
    memb c_lf (note_line mp) = false /\ last_outside [c_cr] (note_line mp) = true.
  Proof.
    destruct mp as [k v]. unfold documented_note, note_line. cbn [fst snd].
    assert (Hv : forall pre, note_value_ok v = true -> memb c_lf pre = false -> last_outside [c_cr] pre = true ->
                             memb c_lf (pre ++ v) = false /\ last_outside [c_cr] (pre ++ v) = true).
    { intros pre H Hp1 Hp2. destruct (note_value_ok_inv v H) as [H1 [H2 H3]]. split.
      - rewrite memb_app, Hp1, H1. reflexivity.
      - destruct (snoc_cases v) as [->|[s [x ->]]]; [rewrite app_nil_r; exact Hp2|].
        rewrite app_assoc. rewrite last_outside_snoc. cbn. rewrite orb_false_r. apply negb_true_iff.
        apply N.eqb_neq. intros ->. apply (trim_space_fix_last s c_cr); [reflexivity|reflexivity|exact H2]. }
    destruct k as [|k0 k'].
    - intros H. apply andb_true_iff in H. destruct H as [_ H]. apply (Hv (b "  # ") H); reflexivity.
    - intros H. apply andb_true_iff in H. destruct H as [H _]. apply andb_true_iff in H. destruct H as [Hk H].
      destruct (note_key_ok_inv _ Hk) as [_ [Hk2 _]].
      rewrite !app_assoc. apply (Hv _ H).
      + rewrite !memb_app. rewrite Hk2. reflexivity.
      + apply last_outside_app. reflexivity.
  Qed.

  Lemma entry_line_scannable nv : normal_name (fst nv) = true ->
    memb c_lf (entry_line NM nv) = false /\ last_outside [c_cr] (entry_line NM nv) = true.
  Proof.
    intros Hn. destruct (normal_name_inv _ Hn) as [Hlf _].
    destruct (qty_clean_inv _ (fs_clean NM FS (snd nv))) as [Hq1 [_ Hq3]]. unfold entry_line. split.
    - rewrite !memb_app. rewrite Hlf. rewrite (none_in_memb_false _ _ c_lf Hq1) by (cbn; tauto). reflexivity.
    - apply last_outside_app. apply last_outside_app. apply last_outside_app. eapply last_outside_cr_of, Hq3.
  Qed.

  Lemma day_lines_scannable c d :
    heading_layout (rc_date c) = true -> day_printable c d ->
    Forall (fun l => memb c_lf l = false) (day_lines NM c d)
    /\ Forall (fun l => l = [] \/ last_outside [c_cr] l = true) (day_lines NM c d).
  Proof.
    intros HL [Hfit [Hnames [Hnotes _]]].
    destruct (format_date_heading _ _ HL Hfit) as [Hb _].
    unfold day_lines. split.
    - constructor.
      + unfold heading_line. rewrite memb_app. unfold fdate. rewrite (heading_no_lf _ Hb). reflexivity.
      + apply Forall_app. split; [|apply Forall_app; split].
        * apply Forall_map. eapply Forall_impl; [|exact Hnotes]. intros mp H. apply note_line_scannable, H.
        * apply Forall_map. eapply Forall_impl; [|exact Hnames]. intros nv H. apply entry_line_scannable, H.
        * constructor; [reflexivity|constructor].
    - constructor.
      + right. unfold heading_line. apply last_outside_app. reflexivity.
      + apply Forall_app. split; [|apply Forall_app; split].
        * apply Forall_map. eapply Forall_impl; [|exact Hnotes]. intros mp H. right. apply note_line_scannable, H.
        * apply Forall_map. eapply Forall_impl; [|exact Hnames]. intros nv H. right. apply entry_line_scannable, H.
        * constructor; [left; reflexivity|constructor].
  Qed.

  Lemma Forall_flat_map {A B} (P : B -> Prop) (f : A -> list B) l :
    Forall (fun x => Forall P (f x)) l -> Forall P (flat_map f l).
  Proof.
    induction 1 as [|x l Hx Hl IH]; [constructor|]. cbn. apply Forall_app. split; assumption.
  Qed.

  Lemma scan_print_output c L :
    heading_layout (rc_date c) = true -> Forall (day_printable c) L ->
    scan (print_output NM c L) NoFault = (flat_map (day_lines NM c) L, ScanEOF).
  Proof.
    intros HL HF. rewrite print_output_unlines. apply scan_unlines.
    - apply Forall_flat_map. eapply Forall_impl; [|exact HF]. intros d Hd. apply (day_lines_scannable c d HL Hd).
    - apply Forall_flat_map. eapply Forall_impl; [|exact HF]. intros d Hd. apply Hd.
    - apply Forall_flat_map. eapply Forall_impl; [|exact HF]. intros d Hd. apply (day_lines_scannable c d HL Hd).
  Qed.

  (** *** the events of a printed log *)
  Lemma events_print_output c L :
    heading_layout (rc_date c) = true -> Forall (day_printable c) L ->
    events NM (print_output NM c L) = map (fun d => ENode (reread_node NM c d)) L.
  Proof.
    intros HL HF. unfold events. rewrite (scan_print_output c L HL HF). cbn [fst]. unfold parse_lines.
    pose proof (parse_loop_days c L 0 None HL HF) as H. cbv zeta in H.
    destruct (parse_loop NM (flat_map (day_lines NM c) L) 0 None) as [evs last]. exact H.
  Qed.
End PrintParse.
