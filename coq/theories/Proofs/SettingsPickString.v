(** WP16 / C16 -- THE SWITCH FILE for the [pick_string] defect of Model/Cli.v.

    [pick_string] is written   [| Some (_ :: _ as v) => if is_set f e then ... else v].
    Coq parses the pattern as [_ :: (_ as v)]: [v] is the TAIL, so a string
    setting taken from the configuration file loses its first byte
    ([Print pick_string] shows [| Some (_ :: v) => ... else v]).

    Everything in Settings.v / SettingsNoDb.v / Props/C16.v talks about the
    configuration file's string entries only through

        [file_string]      what a string entry of the file contributes, and
        [pick_string_spec] the precedence equation of [pick_string],

    both defined here.  Those files compile unchanged before and after the
    repair of the model (checked against a patched private copy of Cli.v).

    (Model/Cli.v has been repaired; [file_string] below is the intended meaning.) *)
From HP Require Import Base.Bytes Base.Utf8 Base.Num Model.Scanner Model.Parser Model.Elements Model.Resolver
  Model.Dates Model.Tree Model.Writer Model.Reporters Model.Cli.

(** What a string entry ([DbFileName], [LogFileName], [DateFormat]) of the
    configuration file contributes to the precedence chain:
    nothing when the file has no such entry or gives the empty string ("empty
    counts as unset"); otherwise
    the entry itself.  (An earlier version of Model/Cli.v dropped the first byte of
    the entry - a slip in the model found while proving this file, repaired since;
    the correspondence check of C16 exposes the same slip.) *)
Definition file_string (o : option bytes) : option bytes :=
  match o with
  | Some (c :: r) => Some (c :: r)
  | _ => None
  end.

(** the single lemma that looks inside [pick_string] *)
Lemma pick_string_spec : forall f e c d,
  pick_string f e c d = or_default (first_some [f; e; file_string c]) d.
Proof.
  intros f e c d. unfold pick_string, is_set, file_string. cbn [first_some fold_right or_default].
  destruct c as [[|c0 cr]|]; destruct f as [x|]; destruct e as [y|]; reflexivity.
Qed.

(** true of both variants: an absent or empty entry is "unset" *)
Lemma file_string_none : file_string None = None.
Proof. reflexivity. Qed.

Lemma file_string_empty : file_string (Some []) = None.
Proof. reflexivity. Qed.

Lemma file_string_unset_iff : forall o, file_string o = None <-> (o = None \/ o = Some []).
Proof.
  intros o. unfold file_string. destruct o as [[|c r]|]; split; intros H; try reflexivity; try discriminate;
    try (left; reflexivity); try (right; reflexivity).
  destruct H as [H|H]; discriminate.
Qed.
